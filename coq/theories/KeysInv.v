(* KeysInv.v — lemmas and theorems about the key model and the sequential
   cache semantics of Keys.v (C14). *)
From Coq Require Import List Arith Bool Lia Permutation.
Import ListNotations.
Require Import Aiuti.CaseLib Aiuti.Keys.

(* ------------------------------------------------------------------------ *)
(* 1. Equality of atoms, parts and keys                                      *)
(* ------------------------------------------------------------------------ *)

Lemma atom_eqb_eq a b : atom_eqb a b = true <-> a = b.
Proof.
  destruct a as [c|n c], b as [d|m d]; simpl; split; intro H; try discriminate.
  - apply Nat.eqb_eq in H. now subst.
  - injection H as ->. apply Nat.eqb_refl.
  - apply andb_prop in H as [H1 H2]. apply Nat.eqb_eq in H1, H2. now subst.
  - injection H as -> ->. now rewrite !Nat.eqb_refl.
Qed.

Lemma atom_eqb_refl a : atom_eqb a a = true.
Proof. now apply atom_eqb_eq. Qed.

Lemma atoms_eqb_eq l1 l2 : list_eqb atom_eqb l1 l2 = true <-> l1 = l2.
Proof.
  split.
  - apply list_eqb_eq. intros x y H. now apply atom_eqb_eq.
  - intros ->. apply list_eqb_refl. apply atom_eqb_refl.
Qed.

Lemma mem_In a l : mem a l = true <-> In a l.
Proof.
  unfold mem. rewrite existsb_exists. split.
  - intros [x [Hin Heq]]. apply atom_eqb_eq in Heq. now subst.
  - intros Hin. exists a. split; [assumption | apply atom_eqb_refl].
Qed.

Lemma subset_incl l1 l2 : subset l1 l2 = true <-> incl l1 l2.
Proof.
  unfold subset, incl. rewrite forallb_forall. split.
  - intros H a Ha. apply mem_In. now apply H.
  - intros H a Ha. apply mem_In. now apply H.
Qed.

Lemma part_eqb_refl p : part_eqb p p = true.
Proof.
  destruct p as [l|l]; simpl.
  - now apply atoms_eqb_eq.
  - assert (H : subset l l = true) by (apply subset_incl; apply incl_refl). now rewrite H.
Qed.

Lemma part_eqb_sym p q : part_eqb p q = true -> part_eqb q p = true.
Proof.
  destruct p as [a|a], q as [b|b]; simpl; try discriminate.
  - intros H. apply atoms_eqb_eq in H. subst. now apply atoms_eqb_eq.
  - intros H. apply andb_prop in H as [H1 H2]. now rewrite H1, H2.
Qed.

Lemma part_eqb_trans p q r : part_eqb p q = true -> part_eqb q r = true -> part_eqb p r = true.
Proof.
  destruct p as [a|a], q as [b|b], r as [c|c]; simpl; try discriminate.
  - intros H1 H2. apply atoms_eqb_eq in H1, H2. subst. now apply atoms_eqb_eq.
  - intros H1 H2. apply andb_prop in H1 as [H1a H1b]. apply andb_prop in H2 as [H2a H2b].
    apply subset_incl in H1a, H1b, H2a, H2b.
    apply andb_true_intro; split; apply subset_incl; eapply incl_tran; eassumption.
Qed.

Lemma key_eqb_refl k : key_eqb k k = true.
Proof. apply list_eqb_refl. apply part_eqb_refl. Qed.

Lemma key_eqb_sym k1 : forall k2, key_eqb k1 k2 = true -> key_eqb k2 k1 = true.
Proof.
  unfold key_eqb. induction k1 as [|p r IH]; intros [|q r2]; simpl; try discriminate; auto.
  intros H. apply andb_prop in H as [H1 H2]. rewrite (part_eqb_sym _ _ H1). simpl. now apply IH.
Qed.

Lemma key_eqb_trans k1 : forall k2 k3,
  key_eqb k1 k2 = true -> key_eqb k2 k3 = true -> key_eqb k1 k3 = true.
Proof.
  unfold key_eqb. induction k1 as [|p r IH]; intros [|q r2] [|q3 r3]; simpl; try discriminate; auto.
  intros H1 H2. apply andb_prop in H1 as [H1a H1b]. apply andb_prop in H2 as [H2a H2b].
  rewrite (part_eqb_trans _ _ _ H1a H2a). simpl. eapply IH; eassumption.
Qed.

(* equivalent keys are indistinguishable as second argument of key_eqb *)
Lemma key_eqb_congr k1 k2 x : key_eqb k1 k2 = true -> key_eqb x k1 = key_eqb x k2.
Proof.
  intros H. destruct (key_eqb x k1) eqn:E1, (key_eqb x k2) eqn:E2; try reflexivity.
  - rewrite (key_eqb_trans _ _ _ E1 H) in E2. discriminate.
  - apply key_eqb_sym in H. rewrite (key_eqb_trans _ _ _ E2 H) in E1. discriminate.
Qed.

(* ------------------------------------------------------------------------ *)
(* 2. The key expression                                                     *)
(* ------------------------------------------------------------------------ *)

(* "same arguments" as the property states it: positional classes equal in
   order, keyword (name, class) pairs equal as sets *)
Definition sig_equiv (s1 s2 : sig) : Prop :=
  pos s1 = pos s2 /\ (forall n c, In (n, c) (kw s1) <-> In (n, c) (kw s2)).

Lemma sig_equiv_refl s : sig_equiv s s.
Proof. split; [reflexivity | tauto]. Qed.

Lemma sig_equiv_sym s1 s2 : sig_equiv s1 s2 -> sig_equiv s2 s1.
Proof. intros [H1 H2]. split; [now symmetry | intros n c; now rewrite H2]. Qed.

Lemma map_ACls_inj l1 : forall l2, map ACls l1 = map ACls l2 -> l1 = l2.
Proof.
  induction l1 as [|a r IH]; intros [|b r2]; simpl; intro H; try discriminate; auto.
  injection H as -> H. f_equal. now apply IH.
Qed.

Lemma In_kwitems s n c : In (AItem n c) (items s IKwItems) <-> In (n, c) (kw s).
Proof.
  simpl. rewrite in_map_iff. split.
  - intros [[m d] [Heq Hin]]. simpl in Heq. injection Heq as -> ->. assumption.
  - intros Hin. exists (n, c). split; [reflexivity | assumption].
Qed.

Lemma In_kwitems_shape s a : In a (items s IKwItems) -> exists n c, a = AItem n c.
Proof.
  simpl. rewrite in_map_iff. intros [[m d] [Heq _]]. exists m, d. now symmetry.
Qed.

Lemma comp_args_iff s1 s2 :
  part_eqb (eval_comp s1 (WTuple, IArgs)) (eval_comp s2 (WTuple, IArgs)) = true <-> pos s1 = pos s2.
Proof.
  unfold eval_comp; simpl. rewrite atoms_eqb_eq. split.
  - apply map_ACls_inj.
  - now intros ->.
Qed.

Lemma comp_kw_iff s1 s2 :
  part_eqb (eval_comp s1 (WFrozenset, IKwItems)) (eval_comp s2 (WFrozenset, IKwItems)) = true <->
  (forall n c, In (n, c) (kw s1) <-> In (n, c) (kw s2)).
Proof.
  unfold eval_comp. cbn [fst snd part_eqb]. rewrite andb_true_iff, !subset_incl. split.
  - intros [H1 H2] n c. rewrite <- !In_kwitems. split; [apply H1 | apply H2].
  - intros H. split; intros a Ha; destruct (In_kwitems_shape _ _ Ha) as [n [c ->]];
      apply In_kwitems; apply In_kwitems in Ha; now apply H.
Qed.

Lemma key_eqb_forallb e s1 s2 :
  key_eqb (eval_key e s1) (eval_key e s2) =
  forallb (fun c => part_eqb (eval_comp s1 c) (eval_comp s2 c)) e.
Proof.
  unfold key_eqb, eval_key. induction e as [|c r IH]; simpl; [reflexivity|]. now rewrite IH.
Qed.

Lemma kcomp_eqb_eq c d : kcomp_eqb c d = true -> c = d.
Proof. destruct c as [[] []], d as [[] []]; simpl; intro H; try discriminate; reflexivity. Qed.

Lemma good_nonempty e : good e = true -> e <> [].
Proof. intros H ->. discriminate. Qed.

(* the central fact, for every key expression of the accepted shape *)
Theorem key_eq_iff_good : forall e, good e = true -> forall s1 s2,
  key_eqb (eval_key e s1) (eval_key e s2) = true <-> sig_equiv s1 s2.
Proof.
  intros e Hg s1 s2. rewrite key_eqb_forallb, forallb_forall.
  unfold good in Hg. apply andb_prop in Hg as [Hg Hall]. apply andb_prop in Hg as [Hargs Hkw].
  apply existsb_exists in Hargs as [ca [Hca Eca]]. apply kcomp_eqb_eq in Eca. subst ca.
  apply existsb_exists in Hkw as [ck [Hck Eck]]. apply kcomp_eqb_eq in Eck. subst ck.
  rewrite forallb_forall in Hall. split.
  - intros H. split.
    + apply comp_args_iff. now apply H.
    + apply comp_kw_iff. now apply H.
  - intros [Hp Hk] c Hc. specialize (Hall c Hc). apply orb_prop in Hall as [E|E];
      apply kcomp_eqb_eq in E; subst c.
    + now apply comp_args_iff.
    + now apply comp_kw_iff.
Qed.

Lemma kw_perm_good e : good e = true -> forall s1 s2,
  pos s1 = pos s2 -> Permutation (kw s1) (kw s2) ->
  key_eqb (eval_key e s1) (eval_key e s2) = true.
Proof.
  intros Hg s1 s2 Hp Hperm. apply (key_eq_iff_good e Hg). split; [assumption|].
  intros n c. split; apply Permutation_in; [assumption | now apply Permutation_sym].
Qed.

Lemma pos_vs_kw_good e : good e = true -> forall c n p k,
  key_eqb (eval_key e (mksig (c :: p) k)) (eval_key e (mksig p ((n, c) :: k))) = false.
Proof.
  intros Hg c n p k. destruct (key_eqb _ _) eqn:E; [|reflexivity].
  apply (key_eq_iff_good e Hg) in E. destruct E as [Hp _]. simpl in Hp.
  apply (f_equal (@length _)) in Hp. simpl in Hp. lia.
Qed.

Lemma key_neq_good e : good e = true -> forall s1 s2,
  ~ sig_equiv s1 s2 -> key_eqb (eval_key e s1) (eval_key e s2) = false.
Proof.
  intros Hg s1 s2 Hn. destruct (key_eqb _ _) eqn:E; [|reflexivity].
  exfalso. apply Hn. now apply (key_eq_iff_good e Hg).
Qed.

(* no call key equals the key of the pre-populated foreign entry *)
Lemma key_not_foreign e s : e <> [] -> key_eqb [] (eval_key e s) = false.
Proof. destruct e; [congruence|]. reflexivity. Qed.

(* ------------------------------------------------------------------------ *)
(* 3. Stores                                                                 *)
(* ------------------------------------------------------------------------ *)

Definition has (k : key) (st : store) : bool := existsb (fun en => key_eqb (fst en) k) st.

Lemma kfind_Some k st en : kfind k st = Some en -> In en st /\ key_eqb (fst en) k = true.
Proof. unfold kfind. intros H. now apply find_some in H. Qed.

Lemma kfind_None_has k st : kfind k st = None <-> has k st = false.
Proof.
  unfold kfind, has. induction st as [|a r IH]; simpl; [tauto|].
  destruct (key_eqb (fst a) k); simpl; [split; discriminate | exact IH].
Qed.

Lemma has_true k st : has k st = true <-> exists en, In en st /\ key_eqb (fst en) k = true.
Proof. unfold has. apply existsb_exists. Qed.

Lemma kfind_has k st : has k st = true -> exists en, kfind k st = Some en.
Proof.
  intros H. destruct (kfind k st) eqn:E; [eauto|]. apply kfind_None_has in E. congruence.
Qed.

Lemma has_congr k1 k2 st : key_eqb k1 k2 = true -> has k1 st = has k2 st.
Proof.
  intros H. unfold has. induction st as [|a r IH]; simpl; [reflexivity|].
  now rewrite (key_eqb_congr _ _ (fst a) H), IH.
Qed.

Lemma In_kremove x k st : In x (kremove k st) <-> In x st /\ key_eqb (fst x) k = false.
Proof. unfold kremove. rewrite filter_In, negb_true_iff. tauto. Qed.

Lemma has_kremove_same k st : has k (kremove k st) = false.
Proof.
  destruct (has k (kremove k st)) eqn:E; [|reflexivity].
  apply has_true in E as [en [Hin Heq]]. apply In_kremove in Hin as [_ Hne]. congruence.
Qed.

(* removing the entries of k keeps every entry of a key not equivalent to k *)
Lemma has_kremove_other k k' st :
  key_eqb k k' = false -> has k' (kremove k st) = has k' st.
Proof.
  intros Hne. destruct (has k' st) eqn:E.
  - apply has_true in E as [en [Hin Heq]]. apply has_true. exists en. split; [|assumption].
    apply In_kremove. split; [assumption|].
    destruct (key_eqb (fst en) k) eqn:E2; [|reflexivity].
    apply key_eqb_sym in E2. rewrite (key_eqb_trans _ _ _ E2 Heq) in Hne. discriminate.
  - destruct (has k' (kremove k st)) eqn:E2; [|reflexivity].
    apply has_true in E2 as [en [Hin Heq]]. apply In_kremove in Hin as [Hin _].
    assert (has k' st = true) by (apply has_true; eauto). congruence.
Qed.

Lemma In_trunc cap x st : In x (trunc cap st) -> In x st.
Proof.
  destruct cap as [n|]; simpl; [|auto]. intros H.
  rewrite <- (firstn_skipn n st). apply in_or_app. now left.
Qed.

Lemma has_incl_false k (l l' : store) :
  (forall x, In x l' -> In x l) -> has k l = false -> has k l' = false.
Proof.
  intros Hincl H. destruct (has k l') eqn:E; [|reflexivity].
  apply has_true in E as [en [Hin Heq]]. assert (has k l = true) by (apply has_true; eauto). congruence.
Qed.

(* no two entries under equivalent keys (a mapping holds one entry per key) *)
Fixpoint NoDupKeys (l : store) : Prop :=
  match l with [] => True | a :: r => has (fst a) r = false /\ NoDupKeys r end.

Lemma ndk_sub (f : store -> store) :
  (forall l x, In x (f l) -> In x l) ->
  (forall a r, f (a :: r) = a :: f r \/ f (a :: r) = f r) ->
  forall l, NoDupKeys l -> NoDupKeys (f l).
Proof.
  intros Hin Hc l. induction l as [|a r IH]; intros H.
  - destruct (f []) as [|x t] eqn:E; [exact I|]. exfalso. apply (Hin [] x). rewrite E. now left.
  - destruct H as [H1 H2]. destruct (Hc a r) as [E|E]; rewrite E.
    + split; [|now apply IH]. eapply has_incl_false; [apply Hin | exact H1].
    + now apply IH.
Qed.

Lemma ndk_filter p l : NoDupKeys l -> NoDupKeys (filter p l).
Proof.
  apply (ndk_sub (filter p)).
  - intros l0 x Hx. now apply filter_In in Hx.
  - intros a r. simpl. destruct (p a); auto.
Qed.

Lemma ndk_firstn n : forall l, NoDupKeys l -> NoDupKeys (firstn n l).
Proof.
  induction n as [|n IH]; intros [|a r]; simpl; auto.
  intros [H1 H2]. split; [|now apply IH].
  eapply has_incl_false; [|exact H1]. intros x Hx.
  rewrite <- (firstn_skipn n r). apply in_or_app. now left.
Qed.

Lemma ndk_trunc cap l : NoDupKeys l -> NoDupKeys (trunc cap l).
Proof. destruct cap; simpl; [apply ndk_firstn | auto]. Qed.

Lemma ndk_cons_kremove en l : NoDupKeys l -> NoDupKeys (en :: kremove (fst en) l).
Proof. intros H. split; [apply has_kremove_same | now apply ndk_filter]. Qed.

Lemma ndk_unique l : NoDupKeys l -> forall a b,
  In a l -> In b l -> key_eqb (fst a) (fst b) = true -> a = b.
Proof.
  induction l as [|x r IH]; intros H a b Ha Hb E; [contradiction|].
  destruct H as [H1 H2]. destruct Ha as [->|Ha], Hb as [->|Hb].
  - reflexivity.
  - exfalso. apply key_eqb_sym in E.
    assert (has (fst a) r = true) by (apply has_true; eauto). congruence.
  - exfalso. assert (has (fst b) r = true) by (apply has_true; eauto). congruence.
  - now apply IH.
Qed.

(* ------------------------------------------------------------------------ *)
(* 4. The sequential cache                                                   *)
(* ------------------------------------------------------------------------ *)

Section CacheProofs.
  Variable e : kexpr.
  Hypothesis Hgood : good e = true.
  Variable mode : cache_init_mode.
  Variable kind : mkind.
  Variable prefill : bool.

  Notation step := (step e mode kind prefill).
  Notation exec := (exec e mode kind prefill).
  Notation active := (active mode kind prefill).
  Notation set_active := (set_active mode kind prefill).
  Notation init := (init kind prefill).
  Notation state_after := (state_after e mode kind prefill).
  Notation use_user := (use_user mode kind prefill).
  Notation cap_of := (cap_of kind).

  (* the bound of the store actually in use *)
  Definition eff_cap : option nat := if use_user then cap_of else None.

  Lemma exec_app a : forall b st,
    exec (a ++ b) st =
    let '(o1, s1) := exec a st in let '(o2, s2) := exec b s1 in (o1 ++ o2, s2).
  Proof.
    induction a as [|x r IH]; intros b st; simpl.
    - destruct (exec b st); reflexivity.
    - destruct (step x st) as [st1 o]. rewrite IH.
      destruct (exec r st1) as [o1 s1]. destruct (exec b s1) as [o2 s2]. reflexivity.
  Qed.

  Lemma exec_cons x r st st1 o : step x st = (st1, o) ->
    exec (x :: r) st = (o :: fst (exec r st1), snd (exec r st1)).
  Proof. intros H. simpl. rewrite H. destruct (exec r st1); reflexivity. Qed.

  Lemma state_after_snoc pre x :
    state_after (pre ++ [x]) = fst (step x (state_after pre)).
  Proof.
    unfold state_after. rewrite exec_app. destruct (exec pre init) as [o1 s1]. simpl.
    destruct (step x s1) as [s2 o]. reflexivity.
  Qed.

  Lemma active_upd st a : active (tick (set_active st a)) = a.
  Proof. unfold Keys.active, Keys.set_active, tick. destruct use_user; reflexivity. Qed.

  Lemma cnt_upd st a : cnt (tick (set_active st a)) = S (cnt st).
  Proof. unfold Keys.set_active, tick. destruct use_user; reflexivity. Qed.

  Lemma user_upd st a :
    user (tick (set_active st a)) = if use_user then a else user st.
  Proof. unfold Keys.set_active, tick. destruct use_user; reflexivity. Qed.

  Lemma priv_upd st a :
    priv (tick (set_active st a)) = if use_user then priv st else a.
  Proof. unfold Keys.set_active, tick. destruct use_user; reflexivity. Qed.

  Lemma step_call_hit s st en :
    kfind (eval_key e s) (active st) = Some en ->
    step (Call s) st =
      (tick (set_active st (touch en (active st))),
       (0, snd en, content (tick (set_active st (touch en (active st)))))).
  Proof. intros H. unfold Keys.step. fold (active st). rewrite H. reflexivity. Qed.

  Lemma step_call_miss s st :
    kfind (eval_key e s) (active st) = None ->
    step (Call s) st =
      (tick (set_active st (insert eff_cap (eval_key e s) (cnt st) (active st))),
       (1, cnt st, content (tick (set_active st (insert eff_cap (eval_key e s) (cnt st) (active st)))))).
  Proof. intros H. unfold Keys.step. fold (active st). rewrite H. reflexivity. Qed.

  Lemma kfind_head k v rest : kfind k ((k, v) :: rest) = Some (k, v).
  Proof. unfold kfind. simpl. now rewrite key_eqb_refl. Qed.

  Lemma kfind_insert cap k v st : cap <> Some 0 -> kfind k (insert cap k v st) = Some (k, v).
  Proof.
    intros Hc. unfold insert. destruct cap as [[|n]|]; simpl; try congruence; apply kfind_head.
  Qed.

  Lemma kfind_touch k en st : key_eqb (fst en) k = true -> kfind k (touch en st) = Some en.
  Proof. intros H. unfold kfind, touch. simpl. now rewrite H. Qed.

  (* C14: a call invokes the wrapped function iff the store has no entry for
     its key; it then stores the result; in both cases it returns the value
     the store holds for the key afterwards *)
  Lemma seq_call_spec_lemma : forall s st,
    match kfind (eval_key e s) (active st) with
    | None => exists st' c, step (Call s) st = (st', (1, cnt st, c)) /\
                (eff_cap <> Some 0 -> kfind (eval_key e s) (active st') = Some (eval_key e s, cnt st))
    | Some en => exists st' c, step (Call s) st = (st', (0, snd en, c)) /\
                kfind (eval_key e s) (active st') = Some en
    end.
  Proof.
    intros s st. destruct (kfind (eval_key e s) (active st)) as [en|] eqn:E.
    - rewrite (step_call_hit _ _ _ E). do 2 eexists. split; [reflexivity|].
      rewrite active_upd. apply kfind_touch. now apply kfind_Some in E.
    - rewrite (step_call_miss _ _ E). do 2 eexists. split; [reflexivity|].
      intros Hc. rewrite active_upd. now apply kfind_insert.
  Qed.

  (* ---- invariant over histories ---------------------------------------- *)

  (* where an entry comes from: the pre-populated foreign entry, or the
     invocation performed by the call at position [snd en] of the history,
     stored under that call's key *)
  Definition origin (pre : list ev) (en : key * nat) : Prop :=
    fst en = [] \/ exists s', nth_error pre (snd en) = Some (Call s') /\ fst en = eval_key e s'.

  Record Inv (pre : list ev) (st : cst) : Prop := {
    I_cnt : cnt st = length pre;
    I_user : forall en, In en (user st) -> origin pre en;
    I_priv : forall en, In en (priv st) -> origin pre en;
    I_ndu : NoDupKeys (user st);
    I_ndp : NoDupKeys (priv st)
  }.

  Lemma origin_mono pre x en : origin pre en -> origin (pre ++ [x]) en.
  Proof.
    intros [H|[s' [H1 H2]]]; [now left | right]. exists s'. split; [|assumption].
    rewrite nth_error_app1; [assumption|]. apply nth_error_Some. congruence.
  Qed.

  Lemma active_origin pre st : Inv pre st -> forall en, In en (active st) -> origin pre en.
  Proof. intros H en. unfold Keys.active. destruct use_user; [apply (I_user _ _ H) | apply (I_priv _ _ H)]. Qed.

  Lemma active_ndk pre st : Inv pre st -> NoDupKeys (active st).
  Proof. intros H. unfold Keys.active. destruct use_user; [apply (I_ndu _ _ H) | apply (I_ndp _ _ H)]. Qed.

  (* updating the active store with entries of known origin keeps the invariant *)
  Lemma inv_upd pre x st a :
    Inv pre st ->
    (forall en, In en a -> origin (pre ++ [x]) en) -> NoDupKeys a ->
    Inv (pre ++ [x]) (tick (set_active st a)).
  Proof.
    intros H Ha Hnd. constructor.
    - rewrite cnt_upd, app_length, (I_cnt _ _ H). simpl. lia.
    - rewrite user_upd. destruct use_user; [exact Ha|]. intros en Hen. apply origin_mono. now apply (I_user _ _ H).
    - rewrite priv_upd. destruct use_user; [|exact Ha]. intros en Hen. apply origin_mono. now apply (I_priv _ _ H).
    - rewrite user_upd. destruct use_user; [exact Hnd | apply (I_ndu _ _ H)].
    - rewrite priv_upd. destruct use_user; [apply (I_ndp _ _ H) | exact Hnd].
  Qed.

  Lemma inv_step pre x st : Inv pre st -> Inv (pre ++ [x]) (fst (step x st)).
  Proof.
    intros H. destruct x as [s|v].
    - destruct (kfind (eval_key e s) (active st)) as [en|] eqn:E.
      + rewrite (step_call_hit _ _ _ E). simpl. apply inv_upd; [assumption| |].
        * intros en' [<-|Hin].
          -- apply origin_mono. apply (active_origin _ _ H). now apply kfind_Some in E.
          -- apply In_kremove in Hin as [Hin _]. apply origin_mono. now apply (active_origin _ _ H).
        * apply ndk_cons_kremove. now apply (active_ndk _ _ H).
      + rewrite (step_call_miss _ _ E). simpl. apply inv_upd; [assumption| |].
        * intros en' Hin. apply In_trunc in Hin. destruct Hin as [<-|Hin].
          -- right. exists s. simpl. split; [|reflexivity].
             rewrite (I_cnt _ _ H), nth_error_app2, Nat.sub_diag; [reflexivity | lia].
          -- apply In_kremove in Hin as [Hin _]. apply origin_mono. now apply (active_origin _ _ H).
        * apply ndk_trunc. apply (ndk_cons_kremove (eval_key e s, cnt st)). now apply (active_ndk _ _ H).
    - simpl. constructor; simpl.
      + rewrite app_length, (I_cnt _ _ H). simpl. lia.
      + intros en Hen. apply filter_In in Hen as [Hen _]. apply origin_mono. now apply (I_user _ _ H).
      + intros en Hen. apply origin_mono. now apply (I_priv _ _ H).
      + apply ndk_filter. apply (I_ndu _ _ H).
      + apply (I_ndp _ _ H).
  Qed.

  Lemma inv_init : Inv [] init.
  Proof.
    constructor; simpl; auto.
    - intros en. destruct kind; simpl; [contradiction|]. destruct prefill; simpl; [|contradiction].
      intros [<-|[]]. now left.
    - intros en [].
    - destruct kind; simpl; auto. destruct prefill; simpl; auto.
  Qed.

  Lemma inv_reach pre : Inv pre (state_after pre).
  Proof.
    induction pre as [|x pre IH] using rev_ind.
    - apply inv_init.
    - rewrite state_after_snoc. now apply inv_step.
  Qed.

  (* C14: "calls that differ in any argument never receive each other's
     results, and the value returned is always the one computed for that key" *)
  Lemma distinct_never_share_lemma : forall pre s,
    match step (Call s) (state_after pre) with
    | (_, (ninv, r, _)) =>
        (ninv = 1 /\ r = length pre) \/
        (ninv = 0 /\ exists s', nth_error pre r = Some (Call s') /\ sig_equiv s' s)
    end.
  Proof.
    intros pre s. pose proof (inv_reach pre) as H.
    destruct (kfind (eval_key e s) (active (state_after pre))) as [en|] eqn:E.
    - rewrite (step_call_hit _ _ _ E). right. split; [reflexivity|].
      apply kfind_Some in E as [Hin Heq].
      destruct (active_origin _ _ H _ Hin) as [Hf|[s' [H1 H2]]].
      + rewrite Hf, key_not_foreign in Heq; [discriminate | now apply good_nonempty].
      + exists s'. split; [assumption|]. rewrite H2 in Heq. now apply (key_eq_iff_good e Hgood).
    - rewrite (step_call_miss _ _ E). left. split; [reflexivity | apply (I_cnt _ _ H)].
  Qed.

  (* ---- retaining mappings: same arguments always share ----------------- *)

  Definition no_evict (pre : list ev) : Prop := forall v, ~ In (Evict v) pre.

  Lemma retained pre : eff_cap = None -> no_evict pre ->
    forall s', In (Call s') pre -> has (eval_key e s') (active (state_after pre)) = true.
  Proof.
    intros Hcap. induction pre as [|x pre IH] using rev_ind; intros Hne s' Hin; [contradiction|].
    rewrite state_after_snoc.
    assert (Hne' : no_evict pre) by (intros v Hv; apply (Hne v); apply in_or_app; now left).
    assert (Hx : In x (pre ++ [x])) by (apply in_or_app; right; now left).
    destruct x as [s|v]; [|exfalso; now apply (Hne v)].
    set (st := state_after pre) in *. set (k := eval_key e s).
    assert (Hold : forall a, (key_eqb k (eval_key e s') = true \/ In (Call s') pre) ->
                   key_eqb (fst a) k = true ->
                   has (eval_key e s') (a :: kremove k (active st)) = true).
    { intros a Hs' Ha. simpl.
      destruct (key_eqb k (eval_key e s')) eqn:Ek.
      - rewrite (key_eqb_trans _ _ _ Ha Ek). reflexivity.
      - destruct Hs' as [?|Hpre]; [discriminate|].
        rewrite (has_kremove_other _ _ _ Ek), (IH Hne' s' Hpre). apply orb_true_r. }
    assert (Hs' : key_eqb k (eval_key e s') = true \/ In (Call s') pre).
    { apply in_app_or in Hin as [Hin|[Hin|[]]]; [now right | left]. injection Hin as ->. apply key_eqb_refl. }
    destruct (kfind k (active st)) as [en|] eqn:E.
    - rewrite (step_call_hit _ _ _ E). simpl. rewrite active_upd. unfold touch.
      apply kfind_Some in E as [_ Heq].
      assert (Hk : kremove (fst en) (active st) = kremove k (active st)).
      { unfold kremove. apply filter_ext. intros a. now rewrite (key_eqb_congr _ _ (fst a) Heq). }
      rewrite Hk. now apply Hold.
    - rewrite (step_call_miss _ _ E). simpl. rewrite active_upd, Hcap. unfold insert, trunc.
      apply Hold; [assumption | apply key_eqb_refl].
  Qed.

  Lemma same_args_share_lemma : forall pre s,
    eff_cap = None -> no_evict pre ->
    match step (Call s) (state_after pre) with
    | (_, (ninv, _, _)) => ninv = 0 <-> exists s', In (Call s') pre /\ sig_equiv s' s
    end.
  Proof.
    intros pre s Hcap Hne. pose proof (distinct_never_share_lemma pre s) as Hd.
    destruct (kfind (eval_key e s) (active (state_after pre))) as [en|] eqn:E.
    - rewrite (step_call_hit _ _ _ E) in *. split; [|reflexivity]. intros _.
      destruct Hd as [[? _]|[_ [s' [H1 H2]]]]; [discriminate|].
      exists s'. split; [|assumption]. eapply nth_error_In; eassumption.
    - rewrite (step_call_miss _ _ E) in *. split; [discriminate|].
      intros [s' [Hin Heq]]. exfalso.
      pose proof (retained pre Hcap Hne s' Hin) as Hhas.
      apply (key_eq_iff_good e Hgood) in Heq.
      rewrite (has_congr _ _ _ Heq) in Hhas. apply kfind_None_has in E. congruence.
  Qed.

  (* ---- eviction: exactly one recomputation ----------------------------- *)

  Lemma evict_one_recompute_lemma : forall pre s en,
    use_user = true -> cap_of <> Some 0 ->
    kfind (eval_key e s) (user (state_after pre)) = Some en ->
    exists c1 c2 c3 st',
      exec [Evict (snd en); Call s; Call s] (state_after pre) =
      ([(0, 0, c1); (1, S (length pre), c2); (0, S (length pre), c3)], st').
  Proof.
    intros pre s en Hu Hc E. pose proof (inv_reach pre) as H.
    set (st := state_after pre) in *. set (k := eval_key e s) in *.
    assert (Hact : forall st0, active st0 = user st0) by (intros; unfold Keys.active; now rewrite Hu).
    assert (Hecap : eff_cap = cap_of) by (unfold eff_cap; now rewrite Hu).
    set (st1 := tick (mkcst (filter (fun en0 => negb (Nat.eqb (snd en0) (snd en))) (user st)) (priv st) (cnt st))).
    assert (Hs1 : step (Evict (snd en)) st = (st1, (0, 0, content st1))) by reflexivity.
    assert (Hmiss : kfind k (active st1) = None).
    { rewrite Hact. apply kfind_None_has. destruct (has k (user st1)) eqn:Eh; [|reflexivity]. exfalso.
      apply has_true in Eh as [en' [Hin Heq]]. simpl in Hin. apply filter_In in Hin as [Hin Hv].
      apply kfind_Some in E as [Hin0 Heq0].
      assert (en' = en).
      { apply (ndk_unique _ (I_ndu _ _ H)); try assumption.
        apply key_eqb_sym in Heq0. eapply key_eqb_trans; eassumption. }
      subst en'. rewrite Nat.eqb_refl in Hv. discriminate. }
    pose proof (step_call_miss _ _ Hmiss) as Hs2. fold k in Hs2.
    set (st2 := tick (set_active st1 (insert eff_cap k (cnt st1) (active st1)))) in *.
    assert (Hhit : kfind k (active st2) = Some (k, cnt st1)).
    { unfold st2. rewrite active_upd. apply kfind_insert. now rewrite Hecap. }
    pose proof (step_call_hit _ _ _ Hhit) as Hs3. fold k in Hs3. simpl snd in Hs3.
    assert (Hcnt : cnt st1 = S (length pre)) by (simpl; now rewrite (I_cnt _ _ H)).
    rewrite Hcnt in *. rewrite ?(I_cnt _ _ H) in Hs3.
    rewrite (exec_cons _ _ _ _ _ Hs1), (exec_cons _ _ _ _ _ Hs2), (exec_cons _ _ _ _ _ Hs3). simpl.
    do 4 eexists. reflexivity.
  Qed.

  (* ---- the caller-supplied mapping is the only store ------------------- *)

  Lemma priv_untouched : use_user = true ->
    forall evs st, priv st = [] -> priv (snd (exec evs st)) = [].
  Proof.
    intros Hu evs. induction evs as [|x r IH]; intros st Hp; simpl; [assumption|].
    destruct (step x st) as [st1 o] eqn:Es. destruct (exec r st1) as [os st2] eqn:Ee. simpl.
    change st2 with (snd (os, st2)). rewrite <- Ee. apply IH.
    destruct x as [s|v].
    - destruct (kfind (eval_key e s) (active st)) as [en|] eqn:E.
      + rewrite (step_call_hit _ _ _ E) in Es. injection Es as <- _. rewrite priv_upd, Hu. assumption.
      + rewrite (step_call_miss _ _ E) in Es. injection Es as <- _. rewrite priv_upd, Hu. assumption.
    - simpl in Es. injection Es as <- _. assumption.
  Qed.

  Lemma only_user_store : use_user = true -> forall evs, priv (state_after evs) = [].
  Proof. intros Hu evs. unfold state_after. apply priv_untouched; [assumption | reflexivity]. Qed.

End CacheProofs.
