(* Iter.v — executable model of aiuti/itertools.py : split, exhaust.
   MODEL ONLY (no proofs here, so the model still runs when a proof breaks).

   split (itertools.py:73-78) is the composition, exactly as written, of
     tee(iterable)            (T0, only when the condition is callable)
     map(condition, ci)       (only when callable; one evaluation per pull)
     tee(iterable)  -> i1,i2  (Ti)
     tee(condition) -> c1,c2  (Tc)
     compress(i1,c1), compress(i2, map(not_, c2))
   The primitives are modelled, not verified (DESIGN §7):
     tee      : a shared buffer filled lazily from upstream; a cursor at the end
                of the buffer pulls upstream; an exhausted upstream is asked
                again on every later pull (tee does not remember exhaustion);
     compress : per next(): loop { pull data (stop if exhausted); pull selector
                (stop if exhausted); if truthy return data }   (C implementation);
     map      : one upstream pull, one call, per pull.
   Elements are [nat] identifiers; the condition is the list [cs] of truthiness
   values: for a callable, cs_i is the result of its (single) evaluation on the
   i-th element; for an iterable, its elements.  Buffers need not be stored:
   a buffer's content is determined by the fixed lists and its length, and a
   tee's buffer length is the number of items it pulled from upstream, i.e. the
   upstream cursor. *)
From Coq Require Import List Arith Bool.
Import ListNotations.

Inductive side := L | R.

Record st := mkst {
  n      : nat;        (* elements pulled from the source iterator so far *)
  plog   : list nat;   (* ghost: indices pulled from the source, in order *)
  pstops : nat;        (* next() calls on the source after it was exhausted *)
  a      : nat;        (* items Ti pulled from upstream = Ti buffer length
                          (callable: cursor of T0 used by Ti; else = n) *)
  b      : nat;        (* items Tc pulled from upstream = Tc buffer length
                          (callable: cursor of T0 used by map = #evaluations;
                           else: elements pulled from the condition iterator) *)
  elog   : list nat;   (* ghost: indices at which the condition was
                          evaluated (callable) / pulled (iterable), in order *)
  cstops : nat;        (* next() calls on the exhausted condition iterator *)
  d1 : nat; d2 : nat;  (* Ti cursors of compress #1 (L) and #2 (R) *)
  c1 : nat; c2 : nat;  (* Tc cursors *)
  out1 : list nat; out2 : list nat   (* ghost: what each side yielded so far *)
}.

Definition init : st := mkst 0 [] 0 0 0 [] 0 0 0 0 0 [] [].

Section Split.
  Variable callable : bool.
  Variable xs : list nat.      (* the source *)
  Variable cs : list bool.     (* the condition stream (see header) *)

  Definition set_n s v l := mkst v l (pstops s) (a s) (b s) (elog s) (cstops s) (d1 s) (d2 s) (c1 s) (c2 s) (out1 s) (out2 s).
  Definition inc_pstops s := mkst (n s) (plog s) (S (pstops s)) (a s) (b s) (elog s) (cstops s) (d1 s) (d2 s) (c1 s) (c2 s) (out1 s) (out2 s).
  Definition set_a s v := mkst (n s) (plog s) (pstops s) v (b s) (elog s) (cstops s) (d1 s) (d2 s) (c1 s) (c2 s) (out1 s) (out2 s).
  Definition set_b s v l := mkst (n s) (plog s) (pstops s) (a s) v l (cstops s) (d1 s) (d2 s) (c1 s) (c2 s) (out1 s) (out2 s).
  Definition inc_cstops s := mkst (n s) (plog s) (pstops s) (a s) (b s) (elog s) (S (cstops s)) (d1 s) (d2 s) (c1 s) (c2 s) (out1 s) (out2 s).
  Definition get_d sd s := match sd with L => d1 s | R => d2 s end.
  Definition get_c sd s := match sd with L => c1 s | R => c2 s end.
  Definition set_d sd s v := match sd with
    | L => mkst (n s) (plog s) (pstops s) (a s) (b s) (elog s) (cstops s) v (d2 s) (c1 s) (c2 s) (out1 s) (out2 s)
    | R => mkst (n s) (plog s) (pstops s) (a s) (b s) (elog s) (cstops s) (d1 s) v (c1 s) (c2 s) (out1 s) (out2 s) end.
  Definition set_c sd s v := match sd with
    | L => mkst (n s) (plog s) (pstops s) (a s) (b s) (elog s) (cstops s) (d1 s) (d2 s) v (c2 s) (out1 s) (out2 s)
    | R => mkst (n s) (plog s) (pstops s) (a s) (b s) (elog s) (cstops s) (d1 s) (d2 s) (c1 s) v (out1 s) (out2 s) end.
  Definition add_out sd s x := match sd with
    | L => mkst (n s) (plog s) (pstops s) (a s) (b s) (elog s) (cstops s) (d1 s) (d2 s) (c1 s) (c2 s) (out1 s ++ [x]) (out2 s)
    | R => mkst (n s) (plog s) (pstops s) (a s) (b s) (elog s) (cstops s) (d1 s) (d2 s) (c1 s) (c2 s) (out1 s) (out2 s ++ [x]) end.

  (* next() on the source iterator *)
  Definition pull_src (s : st) : option nat * st :=
    match nth_error xs (n s) with
    | Some x => (Some x, set_n s (S (n s)) (plog s ++ [n s]))
    | None => (None, inc_pstops s)
    end.

  (* upstream of Ti: T0's first cursor (callable) or the source itself *)
  Definition pull_up_data (s : st) : option nat * st :=
    if callable then
      if a s <? n s then (nth_error xs (a s), set_a s (S (a s)))       (* T0 buffer hit *)
      else match pull_src s with
           | (Some x, s') => (Some x, set_a s' (S (a s')))
           | (None, s') => (None, s')
           end
    else match pull_src s with
         | (Some x, s') => (Some x, set_a s' (S (a s')))
         | (None, s') => (None, s')
         end.

  (* upstream of Tc: map(condition, T0's second cursor) (callable) or the
     condition iterator itself *)
  Definition pull_up_cond (s : st) : option bool * st :=
    if callable then
      if b s <? n s then                                                (* T0 buffer hit, then evaluate *)
        (nth_error cs (b s), set_b s (S (b s)) (elog s ++ [b s]))
      else match pull_src s with
           | (Some _, s') => (nth_error cs (b s'), set_b s' (S (b s')) (elog s' ++ [b s']))
           | (None, s') => (None, s')
           end
    else match nth_error cs (b s) with
         | Some c => (Some c, set_b s (S (b s)) (elog s ++ [b s]))
         | None => (None, inc_cstops s)
         end.

  (* one pull through Ti / Tc by compress #sd *)
  Definition pull_ti (sd : side) (s : st) : option nat * st :=
    let d := get_d sd s in
    if d <? a s then (nth_error xs d, set_d sd s (S d))
    else match pull_up_data s with
         | (Some x, s') => (Some x, set_d sd s' (S d))
         | (None, s') => (None, s')
         end.

  Definition pull_tc (sd : side) (s : st) : option bool * st :=
    let c := get_c sd s in
    if c <? b s then (nth_error cs c, set_c sd s (S c))
    else match pull_up_cond s with
         | (Some v, s') => (Some v, set_c sd s' (S c))
         | (None, s') => (None, s')
         end.

  Definition want (sd : side) : bool := match sd with L => true | R => false end.

  (* compress.__next__ ; recursion is structural on the not yet consumed part
     of the source as seen from this side's data cursor *)
  Fixpoint cnext (rest : list nat) (sd : side) (s : st) : option nat * st :=
    match rest with
    | [] => (None, snd (pull_ti sd s))     (* nothing left for this cursor: the data pull stops *)
    | _ :: rest' =>
        match pull_ti sd s with
        | (None, s1) => (None, s1)
        | (Some x, s1) =>
            match pull_tc sd s1 with
            | (None, s2) => (None, s2)
            | (Some v, s2) =>
                if Bool.eqb v (want sd) then (Some x, add_out sd s2 x)
                else cnext rest' sd s2
            end
        end
    end.

  Definition next (sd : side) (s : st) : option nat * st :=
    cnext (skipn (get_d sd s) xs) sd s.

  (* what the harness observes after every next(): result, #pulls, #stops,
     #condition evaluations/pulls, #stops of the condition iterator *)
  Definition obs := (option nat * (nat * nat * nat * nat))%type.
  Definition observe (r : option nat) (s : st) : obs := (r, (n s, pstops s, b s, cstops s)).

  Fixpoint run (ops : list side) (s : st) : list obs * st :=
    match ops with
    | [] => ([], s)
    | sd :: ops' =>
        let '(r, s1) := next sd s in
        let '(os, s2) := run ops' s1 in
        (observe r s1 :: os, s2)
    end.

  (* the two lists the property speaks about *)
  Definition sel (w : bool) : list nat :=
    map fst (filter (fun p => Bool.eqb (snd p) w) (combine xs cs)).

End Split.


(* (index, value) pairs a side (w = true: L, false: R) owes from source index i
   on, in source order; used by the trace monitor (Case_C18) and by IterInv *)
Fixpoint expected_from (w : bool) (xs : list nat) (cs : list bool) (i : nat) : list (nat * nat) :=
  match xs, cs with
  | x :: xr, c :: cr => if Bool.eqb c w then (i, x) :: expected_from w xr cr (S i)
                        else expected_from w xr cr (S i)
  | _, _ => []
  end.

(* exhaust (itertools.py:24-37): deque(iterable, maxlen=0) pulls until the
   source is exhausted and keeps nothing. Returns the pull log and #stops. *)
Fixpoint drain (rest : list nat) (pos : nat) (log : list nat) : list nat * nat :=
  match rest with
  | [] => (log, 1)
  | _ :: r => drain r (S pos) (log ++ [pos])
  end.
Definition exhaust (xs : list nat) : list nat * nat := drain xs 0 [].
