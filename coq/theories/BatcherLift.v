(* BatcherLift.v — generic lifting of a state invariant P and a transition
   relation R (with the emitted observations) from a single call [do_call] and
   [wake] to the derived transformers of Batcher.v: [do_calls] (a burst),
   [do_chain] (a task calling again as long as it is answered at once),
   [do_recalls] and [wake_all] (resumed tasks that call again). *)
From Coq Require Import List Arith NArith Bool.
Import ListNotations.
Require Import Aiuti.Batcher.

Section Lift.
  Variable c : cfg.
  Variable P : state -> Prop.
  Variable R : state -> state -> list obs -> Prop.
  Hypothesis R_refl : forall s, P s -> R s s [].
  Hypothesis R_trans : forall s1 s2 s3 o1 o2, R s1 s2 o1 -> R s2 s3 o2 -> R s1 s3 (o1 ++ o2).
  Hypothesis call_ok : forall a ko m s, P s ->
    P (fst (do_call c a ko m s)) /\ R s (fst (do_call c a ko m s)) (snd (do_call c a ko m s)).

  Lemma lift_calls : forall l s, P s ->
    P (fst (do_calls c l s)) /\ R s (fst (do_calls c l s)) (snd (do_calls c l s)).
  Proof using R_refl R_trans call_ok.
    induction l as [|[a ko] r IH]; intros s Hs; simpl; [auto|].
    destruct (call_ok a ko 0 s Hs) as [P1 R1]. destruct (do_call c a ko 0 s) as [s1 o1]. simpl in *.
    destruct (IH s1 P1) as [P2 R2]. destruct (do_calls c r s1) as [s2 o2]. simpl in *. eauto.
  Qed.

  Lemma lift_chain : forall a ko m s, P s ->
    P (fst (do_chain c a ko m s)) /\ R s (fst (do_chain c a ko m s)) (snd (do_chain c a ko m s)).
  Proof using R_refl R_trans call_ok.
    intros a ko. induction m as [|m IH]; intros s Hs; simpl.
    - destruct (call_ok a ko 0 s Hs) as [P1 R1]. destruct (do_call c a ko 0 s) as [s1 o1]. auto.
    - destruct (call_ok a ko (S m) s Hs) as [P1 R1]. destruct (do_call c a ko (S m) s) as [s1 o1]. simpl in *.
      destruct (cached_done s (key_of a ko)); [|auto].
      destruct (IH s1 P1) as [P2 R2]. destruct (do_chain c a ko m s1) as [s2 o2]. simpl in *. eauto.
  Qed.

  Lemma lift_recalls : forall l s, P s ->
    P (fst (do_recalls c l s)) /\ R s (fst (do_recalls c l s)) (snd (do_recalls c l s)).
  Proof using R_refl R_trans call_ok.
    induction l as [|[f [[a ko] m]] r IH]; intros s Hs; simpl; [auto|].
    destruct (lift_chain a ko m s Hs) as [P1 R1]. destruct (do_chain c a ko m s) as [s1 o1]. simpl in *.
    destruct (IH s1 P1) as [P2 R2]. destruct (do_recalls c r s1) as [s2 o2]. simpl in *. eauto.
  Qed.

  Hypothesis wake_ok : forall s, P s -> P (fst (wake s)) /\ R s (fst (wake s)) (snd (wake s)).

  Lemma lift_wake_all : forall s, P s ->
    P (fst (wake_all c s)) /\ R s (fst (wake_all c s)) (snd (wake_all c s)).
  Proof using R_refl R_trans call_ok wake_ok.
    intros s Hs. unfold wake_all.
    destruct (wake_ok s Hs) as [P1 R1]. destruct (wake s) as [s1 o1]. simpl in *.
    match goal with |- context [do_recalls c ?l s1] =>
      destruct (lift_recalls l s1 P1) as [P2 R2]; destruct (do_recalls c l s1) as [s2 o2] end.
    simpl in *. eauto.
  Qed.
End Lift.
