(* Case_C09.v — C09: cancelling one batcher caller never disturbs the others.
   The monitor is C04's, evaluated on scripts with Cancel events: every caller
   that was not itself cancelled must be answered exactly as if nobody had been
   cancelled (the expected outcome is computed from the script and the observed
   batches only, cancelled callers play no role in it), no background task may
   die, and after the final drain nobody — in particular no caller that arrived
   after the cancellations — may be left waiting.  The retention rules of C11
   are checked as well, since a cancelled creator must not change who shares. *)
From Coq Require Import List Arith NArith Bool.
Import ListNotations.
Require Import Aiuti.CaseLib Aiuti.Batcher Aiuti.Case_Batcher.

Definition agree := Case_Batcher.agree.
Definition ok (cs : case) : bool := ok_C04 cs && ok_C11 cs.

(* non-trivial: somebody was really cancelled while waiting and somebody else was answered *)
Definition nontrivial (cs : case) : bool :=
  (1 <=? count is_cancelled (all_obs cs)) && (1 <=? count is_answer (all_obs cs)).

Definition verdict := verdict3 agree ok nontrivial.
