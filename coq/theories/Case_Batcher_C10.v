(* Case_Batcher_C10.v — COMPLETENESS of the full monitor ok_C10 on event lists
   without Chain events, for configurations with batch_timeout > 0: the monitor
   accepts the canonical trace of the model ([ok_C10_complete]).  Built on the
   simulation of Case_Batcher_C11.v (entries / calls / live / expected queue), with
   in addition: the expected queue carries the arrival tick and the limit in force
   of every request, m_prev describes the last started batch, m_maxb the current
   limit.  The model-side facts are the C10 theorems: size (LInv), FIFO (Fifo),
   deadline (TInv), split only when full or timed out (OInv), inside a batch < bt
   apart and not full (WB), start at spawn or release (step_start_cause). *)
From Coq Require Import List Arith NArith Bool Lia ZifyBool ZifyNat ZifyN.
Import ListNotations.
Require Import Aiuti.CaseLib Aiuti.Batcher Aiuti.BatcherLift Aiuti.BatcherLimits Aiuti.BatcherTime Aiuti.BatcherOrder
               Aiuti.BatcherWithin Aiuti.BatcherInv Aiuti.BatcherProps Aiuti.BatcherBasic Aiuti.BatcherSim
               Aiuti.Case_Batcher Aiuti.Case_Batcher_Sound Aiuti.Case_Batcher_Basic Aiuti.Case_Batcher_C11.

Local Arguments N.add : simpl never.
Local Arguments N.leb : simpl never.
Local Arguments N.ltb : simpl never.
Local Arguments N.eqb : simpl never.
Local Arguments N.max : simpl never.
Local Arguments Nat.ltb : simpl never.
Local Arguments Nat.leb : simpl never.

Definition mit (it : item) : mitem := mkmitem (it_key it) (it_arg it) (it_t it) (it_max it).

Lemma mka_mit l : map mka (map mit l) = map ka l.
Proof. rewrite map_map. reflexivity. Qed.

(* ---- one observed start, in terms of the model's batch ------------------------------------------------ *)

Definition prev_of (x : nat * list item * N) : option (N * nat * nat) :=
  match rev (st_items x) with
  | it :: _ => Some (it_t it, it_max it, length (st_items x))
  | [] => None
  end.

(* what the monitor requires of the start of batch [its] at tick t *)
Definition start_cond (c : cfg) (now : N) (live0 : nat) (freed : bool) (prev : option (N * nat * nat)) (nlive : nat)
           (its : list item) (t : N) : Prop :=
  exists pre x, its = pre ++ [x] /\
    1 <= length its /\ length its <= lim_of its /\
    match prev, its with
    | Some (tp, mp, np), f :: _ => mp <= np \/ (tp + c_bt c <= it_t f)%N
    | _, _ => True
    end /\
    within_p c 0 its /\
    (spawn_due c its x <= t)%N /\ (t = spawn_due c its x \/ (freed = true /\ c_conc c <= live0)) /\
    S nlive <= c_conc c /\ (t <= now)%N.

Fixpoint starts_ok (c : cfg) (now : N) (live0 : nat) (freed : bool) (prev : option (N * nat * nat)) (nlive : nat)
         (new : list (nat * list item * N)) : Prop :=
  match new with
  | [] => True
  | x :: r => start_cond c now live0 freed prev nlive (st_items x) (snd x) /\
              starts_ok c now live0 freed (prev_of x) (S nlive) r
  end.

Lemma take_items_exact (A B : list mitem) : take_items (length A) (A ++ B) = (A, B).
Proof. induction A as [|a r IH]; simpl; auto. now rewrite IH. Qed.

Lemma within_ok_complete c : forall its pos, within_p c pos its -> within_ok c pos (map mit its) = true.
Proof.
  induction its as [|x r IH]; intros pos H; simpl; auto. destruct r as [|y r']; simpl; auto.
  simpl in H. destruct H as (A & B & C). specialize (IH (S pos) C). simpl in IH. rewrite IH.
  assert ((it_t y <? it_t x + c_bt c)%N = true) by lia. assert ((S pos <? it_max x) = true) by lia.
  now rewrite H, H0.
Qed.

Lemma lim_mit its : fold_right Nat.max 0 (map mi_max (map mit its)) = lim_of its.
Proof. unfold lim_of, list_max. rewrite map_map. reflexivity. Qed.

Lemma last_item_mit pre x : last_item (map mit (pre ++ [x])) = Some (mit x).
Proof. unfold last_item. rewrite map_app, rev_app_distr. reflexivity. Qed.

Lemma check_start_10 c m live0 freed x rest :
  m_expect m = map mit (st_items x) ++ rest ->
  start_cond c (m_now m) live0 freed (m_prev m) (length (m_live m)) (st_items x) (snd x) ->
  let m' := check_start c m live0 freed (obs_st x) in
  m_expect m' = rest /\ m_bad10 m' = m_bad10 m /\ m_prev m' = prev_of x /\
  length (m_live m') = S (length (m_live m)) /\ m_now m' = m_now m /\ m_maxb m' = m_maxb m.
Proof.
  destruct x as [[b its] t]. unfold st_items, obs_st, prev_of. simpl. intros He (pre & x & Eits & C1 & C2 & C3 & C4 & C5 & C6 & C7 & C8).
  unfold check_start. rewrite map_length, He.
  rewrite <- (map_length mit its), take_items_exact. rewrite map_length.
  assert (Hl : last_item (map mit its) = Some (mit x)) by (rewrite Eits; apply last_item_mit).
  rewrite Hl. cbn [m_expect m_bad10 m_prev m_live m_now m_maxb mi_t mi_max mit].
  split; [reflexivity|]. split; [|split; [|split; [|split; reflexivity]]].
  - (* the flag *)
    assert (Hf : list_eqb nn_eqb (map (fun x0 => (mi_key x0, mi_arg x0)) (map mit its)) (map ka its) = true).
    { fold mka. rewrite mka_mit. apply list_eqb_refl, nn_eqb_refl. }
    rewrite Hf, lim_mit, (within_ok_complete c its 0 C4).
    assert (H1 : (1 <=? length its) = true) by lia. assert (H2 : (length its <=? lim_of its) = true) by lia.
    rewrite H1, H2.
    assert (H3 : match m_prev m with
                 | Some (tp, mp, np) => match map mit its with
                                        | [] => true
                                        | f :: _ => (mp <=? np) || (tp + c_bt c <=? mi_t f)%N
                                        end
                 | None => true
                 end = true).
    { destruct (m_prev m) as [[[tp mp] np]|]; auto. destruct its as [|f r]; simpl; auto.
      destruct C3 as [C3|C3]; [assert ((mp <=? np) = true) by lia; now rewrite H |
                               assert ((tp + c_bt c <=? it_t f)%N = true) by lia; rewrite H; now rewrite orb_true_r]. }
    rewrite H3.
    unfold spawn_due in C5, C6.
    set (sd := if Nat.leb (it_max x) (length its) then it_t x else (it_t x + c_bt c)%N) in *.
    assert (H4 : (sd <=? t)%N = true) by lia.
    rewrite H4.
    assert (H5 : ((t =? sd)%N || freed && (c_conc c <=? live0)) = true).
    { destruct C6 as [C6|[C6a C6b]].
      - assert ((t =? sd)%N = true) by lia. now rewrite H.
      - rewrite C6a. assert ((c_conc c <=? live0) = true) by lia. rewrite H. now rewrite orb_true_r. }
    rewrite H5.
    assert (H6 : (S (length (m_live m)) <=? c_conc c) = true) by lia. rewrite H6.
    assert (H7 : (t <=? m_now m)%N = true) by lia. rewrite H7. simpl. now rewrite orb_false_r.
  - unfold st_items. simpl.
    assert (Er : rev its = x :: rev pre) by (rewrite Eits, rev_app_distr; reflexivity). rewrite Er. reflexivity.
  - rewrite app_length. simpl. lia.
Qed.

Definition last_prev (new : list (nat * list item * N)) (d : option (N * nat * nat)) : option (N * nat * nat) :=
  match rev new with x :: _ => prev_of x | [] => d end.

Lemma last_prev_cons x r d : last_prev (x :: r) d = last_prev r (prev_of x).
Proof. unfold last_prev. simpl. destruct (rev r) as [|y r']; reflexivity. Qed.

Lemma fold_check_start_10 c live0 freed new : forall m rest,
  m_expect m = map mit (flat_map st_items new) ++ rest ->
  starts_ok c (m_now m) live0 freed (m_prev m) (length (m_live m)) new ->
  let m' := fold_left (fun mm st => check_start c mm live0 freed st) (map obs_st new) m in
  m_expect m' = rest /\ m_bad10 m' = m_bad10 m /\
  m_prev m' = last_prev new (m_prev m) /\
  m_now m' = m_now m /\ m_maxb m' = m_maxb m.
Proof.
  induction new as [|x r IH]; intros m rest He Hs; simpl.
  - repeat split; auto.
  - simpl in He, Hs. destruct Hs as [H1 H2]. rewrite map_app, <- app_assoc in He.
    destruct (check_start_10 c m live0 freed x _ He H1) as (A1 & A2 & A3 & A4 & A5 & A6).
    set (m1 := check_start c m live0 freed (obs_st x)) in *.
    rewrite <- A3, <- A4, <- A5 in H2.
    destruct (IH m1 rest A1 H2) as (B1 & B2 & B3 & B4 & B5).
    split; [exact B1|]. split; [congruence|]. split; [|split; congruence].
    rewrite B3, last_prev_cons, A3. reflexivity.
Qed.

(* ---- one monitor step: the part that matters for ok_C10 ----------------------------------------------- *)

Lemma mon_step_10 c m e obsd :
  (forall mc, In mc (m_calls m) -> mc_more mc = 0) ->
  let now' := match e with Advance dt => (m_now m + dt)%N | _ => m_now m end in
  let mx := match e with SetMax n => n | _ => m_maxb m end in
  let '(calls1, es1, ex1, imm1) :=
    reg_calls c now' mx (m_step m) (calls_of e) (m_calls m) (m_entries m) (m_expect m) [] in
  let '(bstep, produced, live1, freed) :=
    match bat_effect (m_live m) e with Some x => x | None => (0, [], m_live m, false) end in
  exists m1, m_expect m1 = ex1 /\ m_live m1 = live1 /\ m_prev m1 = m_prev m /\ m_now m1 = now' /\
             m_bad10 m1 = m_bad10 m /\ m_maxb m1 = mx /\
    let m2 := fold_left (fun mm st => check_start c mm (length (m_live m)) freed st) (starts_of obsd) m1 in
    m_bad10 (mon_step c m e obsd) = m_bad10 m2 /\ m_prev (mon_step c m e obsd) = m_prev m2 /\
    m_expect (mon_step c m e obsd) = m_expect m2 /\ m_maxb (mon_step c m e obsd) = m_maxb m2 /\
    m_now (mon_step c m e obsd) = m_now m2 /\ m_live (mon_step c m e obsd) = m_live m2.
Proof.
  intros Hm now' mx. unfold mon_step. fold now' mx.
  destruct (reg_calls c now' mx (m_step m) (calls_of e) (m_calls m) (m_entries m) (m_expect m) [])
    as [[[calls1 es1] ex1] imm1].
  destruct (match bat_effect (m_live m) e with Some x => x | None => (0, [], m_live m, false) end)
    as [[[bstep produced] live1] freed].
  rewrite (recall_list_nil _ produced Hm). cbn [reg_calls].
  eexists. split; [|split; [|split; [|split; [|split; [|split]]]]]; cycle 6.
  - cbv zeta. repeat split; reflexivity.
  - reflexivity.
  - reflexivity.
  - reflexivity.
  - reflexivity.
  - reflexivity.
  - reflexivity.
Qed.

(* ---- model side: the batches started in one step satisfy what the monitor asks ------------------------ *)

Lemma last_prev_app a b d : last_prev (a ++ b) d = last_prev b (last_prev a d).
Proof.
  revert d. induction a as [|x r IH]; intros d; simpl; auto. rewrite !last_prev_cons. apply IH.
Qed.

Lemma starts_ok_intro c now live0 freed new : forall prev0 nlive0,
  (forall a x b, new = a ++ x :: b ->
     start_cond c now live0 freed (last_prev a prev0) (nlive0 + length a) (st_items x) (snd x)) ->
  starts_ok c now live0 freed prev0 nlive0 new.
Proof.
  induction new as [|x0 r IH]; intros prev0 nlive0 H; simpl; auto. split.
  - specialize (H [] x0 r eq_refl). simpl in H. now rewrite Nat.add_0_r in H.
  - apply IH. intros a x b E. specialize (H (x0 :: a) x b). simpl in H. rewrite E in H. specialize (H eq_refl).
    rewrite last_prev_cons in H. replace (S nlive0 + length a) with (nlive0 + S (length a)) by lia. exact H.
Qed.

Lemma last_prev_some l d : l <> [] ->
  exists pre e, l = pre ++ [e] /\ last_prev l d = prev_of e.
Proof.
  intros Hne. destruct (exists_last Hne) as (pre & e & E). exists pre, e. split; auto.
  unfold last_prev. rewrite E, rev_app_distr. reflexivity.
Qed.

(* a started batch was spawned; its spawn instant is the monitor's [sp] *)
Lemma started_spawned c s b its t :
  Inv c s -> In (b, its, t) (g_started s) ->
  exists sp x pre, In (its, sp) (g_spawn s) /\ its = pre ++ [x] /\ last_of its x /\ sp = spawn_due c its x /\ (sp <= t)%N.
Proof.
  intros (I & F & T & K) Hin. apply In_nth_error in Hin as (i & Hi).
  pose proof (T_cover _ _ T) as Cv.
  assert (L : i < length (g_started s)) by (apply nth_error_Some; congruence).
  assert (Hm : nth_error (map fst (g_spawn s)) i = Some its).
  { rewrite Cv, nth_error_app1 by (rewrite map_length; exact L). rewrite nth_error_map, Hi. reflexivity. }
  rewrite nth_error_map in Hm. destruct (nth_error (g_spawn s) i) as [[its' sp]|] eqn:E; [|discriminate].
  simpl in Hm. injection Hm as ->.
  pose proof (nth_error_In _ _ E) as Hs. destruct (T_spawn _ _ T its sp Hs) as [(x & Hl & Hsp) _].
  pose proof Hl as [[pre Ep] _]. exists sp, x, pre. repeat split; auto; try apply Hl.
  eapply (T_nth _ _ T); eauto.
Qed.

(* consecutive started batches: the earlier one was full, or the later one's items arrived
   at least batch_timeout after the earlier one's last item *)
Lemma split_consecutive c s pre e1 e2 post :
  Inv c s -> OInv s -> g_started s = pre ++ e1 :: e2 :: post ->
  exists pre1 x1, st_items e1 = pre1 ++ [x1] /\
    forall f, In f (st_items e2) -> it_max x1 <= length (st_items e1) \/ (it_t x1 + c_bt c <= it_t f)%N.
Proof.
  intros HI O E. pose proof HI as (I & F & T & K).
  pose proof (T_cover _ _ T) as Cv. rewrite E in Cv. rewrite map_app in Cv. simpl in Cv.
  rewrite <- app_assoc in Cv. simpl in Cv.
  apply map_eq_app in Cv as (l1 & l2 & E1 & E2 & E3).
  destruct l2 as [|[its1 sp1] l2]; [discriminate|]. simpl in E3. injection E3 as E3a E3.
  destruct l2 as [|[its2 sp2] l2]; [discriminate|]. simpl in E3. injection E3 as E3b E3.
  subst its1 its2.
  assert (H1 : In (st_items e1, sp1) (g_spawn s)) by (rewrite E1; apply in_or_app; right; now left).
  destruct (T_spawn _ _ T _ _ H1) as [(x1 & Hl & Hsp) _]. pose proof Hl as [[pre1 Ep] _].
  exists pre1, x1. split; auto. intros f Hf.
  assert (Ho : (sp1 <= it_t f)%N).
  { eapply (ordered_split (g_spawn s) l1 (st_items e1) sp1 ((st_items e2, sp2) :: l2) (O_ord _ O) E1); eauto. now left. }
  unfold spawn_due in Hsp. destruct (it_max x1 <=? length (st_items e1)) eqn:El; [left; lia | right; lia].
Qed.

Lemma started_nonempty c s e : Inv c s -> In e (g_started s) -> st_items e <> [].
Proof.
  intros (I & _) H. destruct e as [[b its] t]. destruct (L_ssz _ _ I _ _ _ H) as [Hne _]. exact Hne.
Qed.

Lemma start_cause_entry c s e new x :
  g_started (fst (step c s e)) = g_started s ++ new -> In x new ->
  In (st_items x, snd x) (g_spawn (fst (step c s e))) \/
  (is_batch_event e = true /\ exists ws, waiting s = st_items x :: ws /\ snd x = now s).
Proof.
  intros Hn Hx. pose proof (step_start_cause c s e) as SC. destruct (is_batch_event e).
  - destruct SC as (sm & [R1 R2] & (nsp & nst & S1 & S2 & S3)).
    destruct R2 as [R2|(w & ws & W & R2)].
    + left. rewrite S2, R2 in Hn. apply app_inv_head in Hn. subst nst.
      destruct x as [[b its] t]. rewrite S1. apply in_or_app. right. apply (S3 b its t Hx).
    + rewrite S2, R2, <- app_assoc in Hn. apply app_inv_head in Hn. subst new. destruct Hx as [<-|Hx].
      * right. split; auto. exists ws. split; auto.
      * left. destruct x as [[b its] t]. rewrite S1. apply in_or_app. right. apply (S3 b its t Hx).
  - left. destruct SC as (nsp & nst & S1 & S2 & S3). rewrite S2 in Hn. apply app_inv_head in Hn. subst nst.
    destruct x as [[b its] t]. rewrite S1. apply in_or_app. right. apply (S3 b its t Hx).
Qed.

(* a BYield that answers a key starts nothing (no chained tasks) *)
Lemma yield_no_start c s B k f r :
  LInv c s -> ZInv s -> In B (running s) -> lookup (b_futs B) k = Some f -> is_done s f = false ->
  g_started (fst (step c s (BYield (b_id B) k r))) = g_started s.
Proof.
  intros I Z HB Lk Hd. simpl. rewrite (find_batch_in c s B I HB), Lk. unfold set_fut.
  change (is_done (set_batch_futs (log_bev s (b_id B) (EvYield k r)) (b_id B) (remove_key k (b_futs B))) f)
    with (is_done s f). rewrite Hd.
  match goal with |- context [wake_all c ?s1] =>
    assert (Z1 : ZInv s1) by (apply (same_callers_Z s); [unfold resolve; destruct (0 <? c_rt c)%N; reflexivity | exact Z]);
    rewrite (wake_all_Z c s1 Z1); destruct (wake_sameS s1) as (_ & _ & W3 & _) end.
  simpl. rewrite W3. unfold resolve. destruct (0 <? c_rt c)%N; reflexivity.
Qed.

(* when a queued batch is released by this step's event, the monitor's [freed] is true *)
Lemma freed_released c s m e new :
  Inv c s -> ZInv s -> Sim c s m ->
  g_started (fst (step c s e)) = g_started s ++ new -> new <> [] -> is_batch_event e = true ->
  let '(_, _, _, freed) := match bat_effect (m_live m) e with Some x => x | None => (0, [], m_live m, false) end in
  freed = true.
Proof.
  intros HI Z SM Hn Hne Hb. pose proof HI as (I & F & T & S & K & _).
  assert (Nostart : g_started (fst (step c s e)) = g_started s -> False).
  { intros E. rewrite E in Hn. rewrite <- (app_nil_r (g_started s)) in Hn at 1. apply app_inv_head in Hn. congruence. }
  destruct e as [a ko|a ko mm|l|dt|b k r|b x|b|cid|n]; try discriminate; simpl.
  - destruct (find_batch s b) as [B|] eqn:FB.
    + pose proof (find_corr (m_entries m) (m_live m) (running s) b (M_live _ _ _ SM)) as FC.
      unfold find_batch in FB. rewrite FB in FC. destruct (find_live (m_live m) b) as [mb|]; [|contradiction].
      destruct FC as (E1 & E2 & E3). rewrite E2, memb_map_fst.
      destruct (lookup (b_futs B) k) as [f|] eqn:Lk; [|reflexivity]. exfalso. apply Nostart.
      fold (find_batch s b) in FB. apply find_batch_some in FB as [HB Hid]. subst b.
      apply lookup_In in Lk as Hin. destruct (P_run _ _ _ K B k f HB Hin) as [Hd _].
      eapply yield_no_start; eauto.
    + exfalso. apply Nostart. simpl. now rewrite FB.
  - destruct (find_batch s b) as [B|] eqn:FB.
    + pose proof (find_corr (m_entries m) (m_live m) (running s) b (M_live _ _ _ SM)) as FC.
      unfold find_batch in FB. rewrite FB in FC. destruct (find_live (m_live m) b) as [mb|]; [reflexivity|contradiction].
    + exfalso. apply Nostart. simpl. now rewrite FB.
  - destruct (find_batch s b) as [B|] eqn:FB.
    + pose proof (find_corr (m_entries m) (m_live m) (running s) b (M_live _ _ _ SM)) as FC.
      unfold find_batch in FB. rewrite FB in FC. destruct (find_live (m_live m) b) as [mb|]; [reflexivity|contradiction].
    + exfalso. apply Nostart. simpl. now rewrite FB.
Qed.

(* ---- the extra simulation data of ok_C10 ---------------------------------------------------------------- *)

Record X10 (c : cfg) (s : state) (m : mst) : Prop := {
  X_maxb : m_maxb m = maxb s;
  X_exp : m_expect m = map mit (Q s);
  X_prev : m_prev m = last_prev (g_started s) None
}.

(* registering calls only appends requests stamped with the clock and the limit *)
Lemma reg_struct c now mx st : forall l calls es ex imm,
  let '(_, _, ex', _) := reg_calls c now mx st (map (fun p : nat * option nat => (fst p, snd p, 0)) l) calls es ex imm in
  exists added, ex' = ex ++ added /\ forall x, In x added -> mi_t x = now /\ mi_max x = mx.
Proof.
  induction l as [|[a ko] r IH]; intros calls es ex imm.
  - simpl. exists []. split; [now rewrite app_nil_r | intros ? []].
  - cbn [map reg_calls fst snd reg_chain].
    destruct (spec_lookup c now es (key_of a ko)).
    + match goal with |- context [reg_calls c now mx st _ ?c1 ?e1 ?x1 ?i1] => specialize (IH c1 e1 x1 i1) end.
      destruct (reg_calls c now mx st _ _ _ _ _) as [[[c2 e2] x2] i2]. destruct IH as (added & E & H).
      exists (mkmitem (key_of a ko) a now mx :: added). split; [rewrite E, <- app_assoc; reflexivity|].
      intros x [<-|Hx]; auto.
    + match goal with |- context [reg_calls c now mx st _ ?c1 ?e1 ?x1 ?i1] => specialize (IH c1 e1 x1 i1) end.
      destruct (reg_calls c now mx st _ _ _ _ _) as [[[c2 e2] x2] i2]. exact IH.
    + match goal with |- context [reg_calls c now mx st _ ?c1 ?e1 ?x1 ?i1] => specialize (IH c1 e1 x1 i1) end.
      destruct (reg_calls c now mx st _ _ _ _ _) as [[[c2 e2] x2] i2]. exact IH.
Qed.

Lemma mit_of_mka (A : list mitem) (N0 : list item) T M :
  map mka A = map ka N0 -> (forall x, In x A -> mi_t x = T /\ mi_max x = M) ->
  (forall it, In it N0 -> it_t it = T /\ it_max it = M) -> A = map mit N0.
Proof.
  revert N0. induction A as [|x r IH]; intros [|it N1] H HA HN; simpl in *; try discriminate; auto.
  injection H as H1 H2 H3. f_equal.
  - destruct (HA x (or_introl eq_refl)) as [A1 A2]. destruct (HN it (or_introl eq_refl)) as [B1 B2].
    destruct x. unfold mit. simpl in *. congruence.
  - apply IH; auto.
Qed.

(* the requests a burst creates are stamped with the clock and the current limit *)
Lemma do_calls_stamp c l : forall s, LInv c s -> Fifo s ->
  exists nit, g_items (fst (do_calls c l s)) = g_items s ++ nit /\
              forall it, In it nit -> it_t it = now s /\ it_max it = maxb s.
Proof.
  induction l as [|[a ko] r IH]; intros s I F; simpl.
  - exists []. split; [now rewrite app_nil_r | intros ? []].
  - pose proof (do_call_L c a ko 0 s I) as I1. pose proof (do_call_fifo c a ko 0 s I F) as F1.
    destruct (do_call_clock c a ko 0 s) as [N1 _]. destruct (do_call_grows c a ko 0 s I) as (M1 & n1 & G1 & S1).
    assert (T1 : forall it, In it n1 -> it_t it = now s).
    { clear - G1 I. unfold do_call in G1. destruct (lookup (ret s) _) as [f|].
      - destruct (lookup (fdone s) f) as [[o t]|]; simpl in G1;
          (rewrite <- (app_nil_r (g_items s)) in G1 at 1; apply app_inv_head in G1; subst n1; intros ? []).
      - match type of G1 with g_items (fst (take c ?it ?s1)) = _ =>
          assert (I1 : LInv c s1) by (destruct I; constructor; auto);
          destruct (take_ghost c it s1 I1) as (_ & G2 & _) end.
        rewrite G2 in G1. simpl in G1. apply app_inv_head in G1. subst n1. intros it [<-|[]]. reflexivity. }
    destruct (do_call c a ko 0 s) as [s1 o1]. simpl in *.
    destruct (IH s1 I1 F1) as (n2 & G2 & S2). destruct (do_calls c r s1) as [s2 o2]. simpl in *.
    exists (n1 ++ n2). split; [rewrite G2, G1; now rewrite app_assoc|].
    intros it Hit. apply in_app_or in Hit as [Hit|Hit]; [split; auto|].
    destruct (S2 it Hit). split; congruence.
Qed.

Lemma length_fold_check_start c live0 freed sts : forall m,
  length (m_live (fold_left (fun mm st => check_start c mm live0 freed st) sts m)) = length (m_live m) + length sts.
Proof.
  induction sts as [|[[b items] t] r IH]; intros m; simpl; [lia|]. rewrite IH.
  unfold check_start. destruct (take_items _ _). simpl. rewrite app_length. simpl. lia.
Qed.

Lemma step_maxb c s e : LInv c s -> Fifo s ->
  maxb (fst (step c s e)) = match e with SetMax n => n | _ => maxb s end.
Proof.
  intros I F. pose proof (step_grows c s e I F) as G. destruct e; try (destruct G as [G _]; exact G). tauto.
Qed.

Lemma end_batch_items c B o s : ZInv s -> g_items (fst (end_batch c B o s)) = g_items s.
Proof.
  intros Z. unfold end_batch. set (s0 := set_running s _).
  pose proof (release_slot_sameC s0) as (C1 & _ & C3). destruct (release_slot s0) as [s1 o1]. simpl in *.
  destruct (fanout_sameS c (b_futs B) o s1) as (G1 & _). pose proof (fanout_callers c (b_futs B) o s1) as Cf.
  destruct (fanout c (b_futs B) o s1) as [s2 died]. simpl in *.
  assert (Z2 : ZInv s2) by (apply (same_callers_Z s); [congruence | exact Z]).
  rewrite (wake_all_Z c s2 Z2). simpl. destruct (wake_sameS s2) as (W1 & _). rewrite W1, G1, C3. reflexivity.
Qed.

Lemma step_items_noncall c s e :
  ZInv s -> is_chain e = false -> match e with Call _ _ | Burst _ => False | _ => True end ->
  g_items (fst (step c s e)) = g_items s.
Proof.
  intros Z Hc He. destruct e as [a ko|a ko mm|l|dt|b k r|b x|b|cid|n]; try discriminate; try contradiction; simpl.
  - apply advance_gitems.
  - destruct (find_batch s b) as [B|]; [|reflexivity].
    destruct (lookup (b_futs B) k) as [f|].
    + unfold set_fut. match goal with |- context [is_done ?s0 f] => destruct (is_done s0 f) end.
      * now rewrite end_batch_items.
      * match goal with |- context [wake_all c ?s1] =>
          assert (Z1 : ZInv s1) by (apply (same_callers_Z s); [unfold resolve; destruct (0 <? c_rt c)%N; reflexivity | exact Z]);
          rewrite (wake_all_Z c s1 Z1); destruct (wake_sameS s1) as (W1 & _) end.
        simpl. rewrite W1. unfold resolve. destruct (0 <? c_rt c)%N; reflexivity.
    + now rewrite end_batch_items.
  - destruct (find_batch s b) as [B|]; [|reflexivity]. now rewrite end_batch_items.
  - destruct (find_batch s b) as [B|]; [|reflexivity]. now rewrite end_batch_items.
  - destruct (cancel_sameS s cid) as (E & _). exact E.
  - reflexivity.
Qed.

(* the expected queue after registering the calls of the step *)
Lemma expect_step c s m e :
  ev_ok e -> is_chain e = false -> Inv c s -> ZInv s -> Sim c s m -> X10 c s m ->
  let now' := match e with Advance dt => (m_now m + dt)%N | _ => m_now m end in
  let mx := match e with SetMax n => n | _ => m_maxb m end in
  let '(_, _, ex1, _) := reg_calls c now' mx (m_step m) (calls_of e) (m_calls m) (m_entries m) (m_expect m) [] in
  exists nit, g_items (fst (step c s e)) = g_items s ++ nit /\ ex1 = m_expect m ++ map mit nit.
Proof.
  intros Hev Hc HI Z SM X now' mx. pose proof HI as (I & F & T & K).
  assert (Hcalls : forall l, calls_of e = map (fun p => (fst p, snd p, 0)) l ->
            fst (step c s e) = fst (do_calls c l s) -> now' = now s -> mx = maxb s ->
            let '(_, _, ex1, _) := reg_calls c now' mx (m_step m) (calls_of e) (m_calls m) (m_entries m) (m_expect m) [] in
            exists nit, g_items (fst (step c s e)) = g_items s ++ nit /\ ex1 = m_expect m ++ map mit nit).
  { intros l Hl Hs En Em. rewrite Hl, Hs, En, Em.
    pose proof (reg_many c (m_step m) (maxb s) l s (m_calls m) (m_entries m) (m_expect m) [] HI (M_ent _ _ _ SM) (M_calls _ _ _ SM)) as RM.
    pose proof (reg_struct c (now s) (maxb s) (m_step m) l (m_calls m) (m_entries m) (m_expect m) []) as RS.
    destruct (do_calls_stamp c l s I F) as (nit & G & St).
    destruct (reg_calls c (now s) (maxb s) (m_step m) _ (m_calls m) (m_entries m) (m_expect m) []) as [[[calls1 es1] ex1] imm1].
    destruct RM as (_ & _ & _ & (nit' & G' & X1) & _). destruct RS as (added & Ea & Ha).
    assert (nit' = nit) by (rewrite G in G'; now apply app_inv_head in G'). subst nit'.
    exists nit. split; auto. rewrite Ea. f_equal.
    rewrite Ea, map_app in X1. apply app_inv_head in X1. eapply mit_of_mka; eauto. }
  destruct e as [a ko|a ko mm|l|dt|b k r|b x|b|cid|n]; try discriminate.
  - apply (Hcalls [(a, ko)]); auto.
    + simpl. destruct (do_call c a ko 0 s). reflexivity.
    + apply (M_now _ _ _ SM).
    + apply (X_maxb _ _ _ X).
  - apply (Hcalls l); auto; [apply (M_now _ _ _ SM) | apply (X_maxb _ _ _ X)].
  - cbn [calls_of reg_calls]. exists []. rewrite (step_items_noncall c s _ Z Hc Logic.I). simpl. now rewrite !app_nil_r.
  - cbn [calls_of reg_calls]. exists []. rewrite (step_items_noncall c s _ Z Hc Logic.I). simpl. now rewrite !app_nil_r.
  - cbn [calls_of reg_calls]. exists []. rewrite (step_items_noncall c s _ Z Hc Logic.I). simpl. now rewrite !app_nil_r.
  - cbn [calls_of reg_calls]. exists []. rewrite (step_items_noncall c s _ Z Hc Logic.I). simpl. now rewrite !app_nil_r.
  - cbn [calls_of reg_calls]. exists []. rewrite (step_items_noncall c s _ Z Hc Logic.I). simpl. now rewrite !app_nil_r.
  - cbn [calls_of reg_calls]. exists []. rewrite (step_items_noncall c s _ Z Hc Logic.I). simpl. now rewrite !app_nil_r.
Qed.

Lemma Forall2_len {A B} (R : A -> B -> Prop) la lb : Forall2 R la lb -> length la = length lb.
Proof. induction 1; simpl; auto. Qed.

Lemma prev_of_last pre1 x1 b t : prev_of (b, pre1 ++ [x1], t) = Some (it_t x1, it_max x1, length (pre1 ++ [x1])).
Proof. unfold prev_of, st_items. simpl. rewrite rev_app_distr. reflexivity. Qed.

Lemma x10_step c s m e :
  ev_ok e -> is_chain e = false -> (0 < c_bt c)%N -> Inv c s -> ZInv s -> OInv s -> WB c s -> Sim c s m -> X10 c s m ->
  X10 c (fst (step c s e)) (mon_step c m e (canon (snd (step c s e)))) /\
  m_bad10 (mon_step c m e (canon (snd (step c s e)))) = m_bad10 m.
Proof.
  intros Hev Hc Hbt HI Z O W SM X.
  pose proof (Inv_step c s e Hev HI) as HI'. pose proof HI as (I & F & T & K). pose proof HI' as (I' & F' & T' & K').
  pose proof (step_O c s e I F T O) as O'. pose proof (step_WB c Hbt s e I F T W) as W'.
  destruct (sim_step c s m e Hev Hc HI Z SM) as [SM' _].
  destruct (step_emits c s e) as (new & A & Bq). pose proof (starts_of_canon _ _ Bq) as Hst.
  destruct (step_ST c s e) as [_ Hstt]. destruct (step_clock c s e) as [_ Hnow].
  pose proof (mon_step_10 c m e (canon (snd (step c s e))) (M_more _ _ _ SM)) as G.
  pose proof (expect_step c s m e Hev Hc HI Z SM X) as EX.
  pose proof (freed_released c s m e new HI Z SM A) as FR.
  cbv zeta in G, EX.
  destruct (reg_calls c _ _ (m_step m) (calls_of e) (m_calls m) (m_entries m) (m_expect m) []) as [[[calls1 es1] ex1] imm1].
  destruct (match bat_effect (m_live m) e with Some x => x | None => (0, [], m_live m, false) end)
    as [[[bstep produced] live1] freed].
  destruct G as (m1 & G1 & G2 & G3 & G4 & G5 & G6 & G7 & G8 & G9 & G10 & G11 & G12).
  destruct EX as (nit & Gi & Ex).
  rewrite Hst in *.
  set (s' := fst (step c s e)) in *.
  assert (Hq : Q s ++ nit = flat_map st_items new ++ Q s').
  { pose proof (g_items_split _ F) as G0. pose proof (g_items_split _ F') as G'. fold s' in G'.
    rewrite A, Gi, G0, flat_map_app in G'. unfold Q. rewrite <- !app_assoc in G'.
    apply app_inv_head in G'. rewrite <- app_assoc. exact G'. }
  assert (Hexp : m_expect m1 = map mit (flat_map st_items new) ++ map mit (Q s')).
  { rewrite G1, Ex, (X_exp _ _ _ X), <- !map_app, Hq. reflexivity. }
  assert (Enow : m_now m1 = now s').
  { rewrite G4, (M_now _ _ _ SM), Hnow. destruct e; simpl; lia. }
  assert (Hlen : length live1 + length new <= c_conc c).
  { pose proof (Forall2_len _ _ _ (M_live _ _ _ SM')) as L. fold s' in L. rewrite G12 in L.
    rewrite length_fold_check_start, G2, map_length in L. pose proof (L_slots _ _ I'). fold s' in H. lia. }
  assert (Hok : starts_ok c (m_now m1) (length (m_live m)) freed (m_prev m1) (length (m_live m1)) new).
  { apply starts_ok_intro. intros a x b Enew. destruct x as [[bx its] t]. unfold st_items. cbn [fst snd].
    assert (Hx : In (bx, its, t) new) by (rewrite Enew; apply in_or_app; right; now left).
    assert (Hg : In (bx, its, t) (g_started s')) by (rewrite A; apply in_or_app; now right).
    destruct (started_spawned c s' bx its t HI' Hg) as (sp & x0 & pre & Hsp & Eits & Hl & Esp & Hle).
    destruct (L_ssz _ _ I' _ _ _ Hg) as [Hne Hsz].
    exists pre, x0. split; [exact Eits|]. split; [destruct its; simpl; [congruence|lia]|]. split; [exact Hsz|].
    split; [|split; [|split; [|split; [|split]]]].
    - (* split *)
      rewrite G3, (X_prev _ _ _ X), <- last_prev_app.
      destruct (g_started s ++ a) as [|e0 l0] eqn:El; [exact Logic.I|].
      assert (Hne' : e0 :: l0 <> []) by discriminate.
      destruct (last_prev_some (e0 :: l0) None Hne') as (pre' & e1 & E1 & E2). rewrite E2.
      assert (Egs : g_started s' = pre' ++ e1 :: (bx, its, t) :: b).
      { rewrite A, Enew, app_assoc, El, E1, <- app_assoc. reflexivity. }
      destruct (split_consecutive c s' pre' e1 (bx, its, t) b HI' O' Egs) as (pre1 & x1 & Ee1 & Hsplit).
      destruct e1 as [[b1 its1] t1]. unfold st_items in Ee1. simpl in Ee1. subst its1.
      rewrite prev_of_last. destruct its as [|f r]; [exact Logic.I|].
      apply (Hsplit f). now left.
    - apply (W_spawn _ _ W' its sp Hsp).
    - rewrite <- Esp. exact Hle.
    - destruct (start_cause_entry c s e new (bx, its, t) A Hx) as [Hs|(Hb & ws & Ew & Et)].
      + left. unfold st_items in Hs. simpl in Hs. destruct (T_spawn _ _ T' its t Hs) as [(x' & [[pre2 E2] _] & Ht) _].
        assert (x' = x0). { rewrite Eits in E2. apply app_inj_tail in E2. destruct E2. congruence. } now subst x'.
      + right. unfold st_items in Ew. simpl in Ew.
        assert (Hnn : new <> []) by (intros E0; rewrite E0 in Hx; destruct Hx).
        split; [apply (FR Hnn Hb)|].
        rewrite (Forall2_len _ _ _ (M_live _ _ _ SM)). pose proof (L_slots _ _ I). 
        assert (free s = 0) by (apply (L_wait _ _ I); rewrite Ew; discriminate). lia.
    - rewrite G2. assert (length new = length a + S (length b)) by (rewrite Enew, app_length; reflexivity). lia.
    - rewrite Enow. eapply Hstt. apply filter_In with (f := is_start).
      rewrite Bq. apply in_map_iff. exists (bx, its, t). split; [reflexivity | exact Hx]. }
  destruct (fold_check_start_10 c (length (m_live m)) freed new m1 _ Hexp Hok) as (B1 & B2 & B3 & B4 & B5).
  split; [|congruence]. constructor.
  - rewrite G10, B5, G6. unfold s'. rewrite (step_maxb c s e I F), (X_maxb _ _ _ X). destruct e; reflexivity.
  - rewrite G9. exact B1.
  - rewrite G8, B3, G3, (X_prev _ _ _ X), <- last_prev_app. now rewrite A.
Qed.

(* ---- every run --------------------------------------------------------------------------------------------- *)

Lemma x10_run c evs : (0 < c_bt c)%N -> forall s m,
  Forall ev_ok evs -> forallb (fun e => negb (is_chain e)) evs = true ->
  Inv c s -> ZInv s -> OInv s -> WB c s -> Sim c s m -> X10 c s m ->
  exists m', mon_run c m evs (map canon (fst (run_from c s evs))) = Some m' /\ m_bad10 m' = m_bad10 m /\
             Inv c (snd (run_from c s evs)) /\ Sim c (snd (run_from c s evs)) m' /\ X10 c (snd (run_from c s evs)) m'.
Proof.
  intros Hbt. induction evs as [|e r IH]; intros s m He Hc HI Z O W SM X; simpl.
  - exists m. auto.
  - inversion He as [|? ? H1 H2]; subst. simpl in Hc. apply andb_prop in Hc as [Hc1 Hc2]. apply negb_true_iff in Hc1.
    destruct (sim_step c s m e H1 Hc1 HI Z SM) as [SM1 _].
    destruct (x10_step c s m e H1 Hc1 Hbt HI Z O W SM X) as [X1 B1].
    pose proof (Inv_step c s e H1 HI) as HI1. destruct (step_Z c s e Hc1 Z) as [Z1 _].
    pose proof HI as (I & F & T & K).
    pose proof (step_O c s e I F T O) as O1. pose proof (step_WB c Hbt s e I F T W) as W1.
    destruct (step c s e) as [s1 os]. simpl in *.
    destruct (IH s1 (mon_step c m e (canon os)) H2 Hc2 HI1 Z1 O1 W1 SM1 X1) as (m' & R & Bm & A1 & A2 & A3).
    destruct (run_from c s1 r) as [tr s2]. simpl in *. exists m'. split; [exact R|]. split; [congruence|]. auto.
Qed.

Lemma last_item_map_mit l : last_item (map mit l) = match rev l with it :: _ => Some (mit it) | [] => None end.
Proof. unfold last_item. rewrite <- map_rev. destruct (rev l); reflexivity. Qed.

(* COMPLETENESS of ok_C10 on event lists without Chain events (batch_timeout > 0) *)
Lemma ok_C10_complete c evs w :
  cfg_ok c -> (0 < c_bt c)%N -> Forall ev_ok evs -> forallb (fun e => negb (is_chain e)) evs = true ->
  ok_C10 (BCase c evs (map canon (fst (run c evs))) w) = true.
Proof.
  intros Hc Hbt He Hn. unfold ok_C10. rewrite (ok_basic_complete c evs w Hc He). simpl.
  destruct (init_LF c Hc) as [I0 F0].
  assert (HI : Inv c (init c)) by (split; [exact I0|]; split; [exact F0|]; split; [apply init_T | apply init_K]).
  assert (Z0 : ZInv (init c)) by (intros cl []).
  assert (O0 : OInv (init c)) by (constructor; simpl; auto; intros ? ? ? []).
  assert (X0 : X10 c (init c) (minit c)) by (constructor; reflexivity).
  destruct (x10_run c evs Hbt (init c) (minit c) He Hn HI Z0 O0 (init_WB c) (sim_init c) X0)
    as (m' & R & Bm & HIf & SMf & Xf).
  unfold run. rewrite R. simpl in Bm. rewrite Bm. simpl.
  set (sf := snd (run_from c (init c) evs)) in *. pose proof HIf as (If & Ff & Tf & Kf).
  unfold end_ok10. rewrite (X_exp _ _ _ Xf), last_item_map_mit.
  destruct (rev (Q sf)) as [|it r] eqn:Er; auto.
  destruct (length (m_live m') <? c_conc c) eqn:El; auto.
  rewrite (Forall2_len _ _ _ (M_live _ _ _ SMf)) in El.
  assert (Wf : waiting sf = []).
  { destruct (waiting sf) eqn:Ew; auto. assert (free sf = 0) by (apply (L_wait _ _ If); rewrite Ew; discriminate).
    pose proof (L_slots _ _ If). lia. }
  unfold Q in Er. rewrite Wf in Er. simpl in Er.
  unfold coll_items in Er. destruct (coll sf) as [[its dl]|] eqn:C; [|discriminate].
  destruct (T_coll _ _ Tf its dl C) as (x & [[pre Ep] _] & _ & Hdl & _ & _ & Hlt). specialize (Hlt Hbt).
  rewrite Ep, rev_app_distr in Er. simpl in Er. injection Er as <- _.
  rewrite (M_now _ _ _ SMf). simpl. lia.
Qed.
