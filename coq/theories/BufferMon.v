(* BufferMon.v — two sub-monitors of the buffer checks, each proved COMPLETE (it
   accepts the model's own trace of every event list, so it cannot raise a
   false alarm where implementation and model agree) and SOUND (what acceptance
   of an arbitrary observed trace means, independently of the model):
     Case_Buffer.shut_ok  (part of Case_C07.ok)  — shutdown;
     Case_Buffer.csets    (part of Case_C03.ok)  — every FnEnd closes the open call
                                                     with the set it was started with. *)
From Coq Require Import List Arith NArith Bool Lia.
Import ListNotations.
Require Import Aiuti.CaseLib Aiuti.Buffer Aiuti.Case_Buffer Aiuti.Case_C03 Aiuti.Case_C07
               Aiuti.BufferInv Aiuti.BufferJoin.

(* ---- helpers never observe DaemonEnded / Hang ----------------------------------------- *)
Definition plain (o : obs) : bool := match o with DaemonEnded | Hang => false | _ => true end.
Definition allp (r : state * list obs) : Prop := forallb plain (snd r) = true.

Lemma allp_nil s : allp (s, []).
Proof. reflexivity. Qed.

Lemma release_allp s : allp (release s).
Proof. unfold allp, release; cbn. induction (filter is_onevent (waiters s)); cbn; auto. Qed.

Lemma allp_app s1 s2 o1 o2 : allp (s1, o1) -> allp (s2, o2) -> allp (s2, o1 ++ o2).
Proof. unfold allp; cbn. intros A B. rewrite forallb_app, A, B. reflexivity. Qed.

Lemma run_func0_allp s ins : allp (run_func0 s ins).
Proof.
  unfold run_func0. destruct ins; [|reflexivity].
  pose proof (release_allp s) as H. destruct (release s). exact H.
Qed.

Lemma continue_round_allp s ins ld : allp (continue_round s ins ld).
Proof.
  unfold continue_round. destruct (load_all (ld ++ q s)) as [[rem ys] fs].
  destruct (unfinished s - length (q s) =? 0); destruct rem; cbn [andb];
    try destruct (wants_cancel _); try reflexivity; apply run_func0_allp.
Qed.

Lemma start_round_allp s : allp (start_round s).
Proof. unfold start_round. destruct (q s); [reflexivity|apply continue_round_allp]. Qed.

Lemma run_func_allp s ins : allp (run_func s ins).
Proof.
  unfold run_func. destruct ins; [|reflexivity].
  pose proof (release_allp s) as H. destruct (release s) as [s1 o1]. unfold end_round.
  pose proof (start_round_allp s1) as H2. destruct (start_round s1) as [s2 o2]. eapply allp_app; eauto.
Qed.

Lemma load_one_allp s ins p : allp (load_one s ins p).
Proof. unfold load_one. destruct (p_fin p); [apply continue_round_allp|reflexivity]. Qed.

Lemma after_gather_allp s ins g : allp (after_gather s ins g).
Proof. destruct g; cbn [after_gather]; [reflexivity|apply load_one_allp|apply run_func_allp|apply run_func_allp]. Qed.

Lemma step_allp s e : e <> Shutdown -> allp (step s e).
Proof.
  intros He. unfold step. destruct (is_dead s); [reflexivity|].
  assert (PutCase : forall p k c, allp (do_put s p k c)).
  { intros p k c. unfold do_put. destruct (existsb (Nat.eqb p) (seen s)); [reflexivity|].
    unfold on_put. match goal with |- context [dm ?x] => destruct (dm x) end; try reflexivity.
    - apply start_round_allp.
    - destruct g; try reflexivity. match goal with |- context [q ?x] => destruct (q x) end; reflexivity.
    - match goal with |- context [q ?x] => destruct (q x) end; [reflexivity|apply load_one_allp]. }
  assert (FeedCase : forall n a, allp (do_feed s n a)).
  { intros n a. unfold do_feed. destruct (negb (open_here s n)); [reflexivity|].
    destruct (dm s); try reflexivity.
    - destruct (load_all (map (feed_if n a) ld)) as [[rem ys] fs]. destruct rem; [apply after_gather_allp|reflexivity].
    - destruct ((pid p =? n) && accepts p); [apply load_one_allp|reflexivity]. }
  assert (EndCase : forall ok fc, allp (do_fn_end s ok fc)).
  { intros ok fc. unfold do_fn_end. destruct (dm s); try reflexivity. destruct ok.
    - match goal with |- context [release ?x] => pose proof (release_allp x) as R; destruct (release x) as [s2 o1] end.
      destruct fc.
      + match goal with |- context [continue_round ?a ?b ?c] => pose proof (continue_round_allp a b c) as H; destruct (continue_round a b c) as [s3 o2] end.
        apply (allp_app s3 s3 [_] (o1 ++ o2)); [reflexivity|]. eapply allp_app; eauto.
      + unfold end_round. match goal with |- context [start_round ?a] => pose proof (start_round_allp a) as H; destruct (start_round a) as [s3 o2] end.
        apply (allp_app s3 s3 [_] (o1 ++ o2)); [reflexivity|]. eapply allp_app; eauto.
    - pose proof (continue_round_allp s ins []) as H. destruct (continue_round s ins []) as [s1 o1].
      apply (allp_app s1 s1 [_] o1); [reflexivity|exact H]. }
  destruct e; try apply PutCase; try apply FeedCase; try apply EndCase; try reflexivity; try contradiction.
  - unfold do_advance. destruct (dm s) as [|ins ld g|ins d|ins p|ins|]; try reflexivity.
    + destruct g; try reflexivity. destruct (d <=? now s + dt)%N; reflexivity.
    + destruct (d <=? now s + dt)%N; [|reflexivity].
      match goal with |- context [run_func ?a ?b] => pose proof (run_func_allp a b) as H; destruct (run_func a b) end. exact H.
  - unfold do_wait. destruct (existsb (Nat.eqb w) (wseen s)); [reflexivity|].
    unfold wait_core. match goal with |- context [unfinished ?x =? 0] => destruct (unfinished x =? 0) end; [|reflexivity].
    cbn [dm set_gh set_wseen evset]. destruct (dm s); try (destruct (evset s); reflexivity).
    + destruct g; try (destruct (evset s); reflexivity). destruct cancel; reflexivity.
    + destruct cancel; [|reflexivity]. apply run_func_allp.
Qed.

Lemma allp_no_end r : allp r -> has_ended (snd r) = false.
Proof.
  unfold allp, has_ended. induction (snd r) as [|o l IH]; cbn; [reflexivity|].
  intros H. apply andb_prop in H as [H1 H2]. rewrite (IH H2). destruct o; try discriminate; reflexivity.
Qed.

(* ---- shut_ok: complete ------------------------------------------------------------------- *)
Lemma all_empty_nils {A} (l : list A) : all_empty (map (fun _ => []) l) = true.
Proof. induction l; cbn; auto. Qed.

Lemma shut_ok_run evs : forall s, is_dead s = false -> Struct s -> shut_ok evs (snd (run s evs)) = true.
Proof.
  induction evs as [|e r IH]; intros s Hd HS; cbn [run]; [reflexivity|].
  destruct e; try (
    match goal with |- context [step s ?ev] =>
      assert (He : ev <> Shutdown) by discriminate;
      pose proof (step_allp s ev He) as HA; apply allp_no_end in HA;
      pose proof (step_alive s ev HS Hd He) as Hd1; pose proof (step_struct s ev HS) as HS1;
      destruct (step s ev) as [s1 o]; cbn [fst snd] in *;
      specialize (IH s1 Hd1 HS1); destruct (run s1 r) as [s2 os]; cbn [fst snd shut_ok] in *;
      rewrite HA, IH; reflexivity
    end).
  unfold step. rewrite Hd.
  match goal with |- context [run ?s1 r] => rewrite (dead_run r s1 eq_refl) end.
  cbn [snd shut_ok]. rewrite map_length, Nat.eqb_refl, all_empty_nils. reflexivity.
Qed.

Lemma shut_ok_complete T evs : ok_shut (Case T evs (trace T evs)) = true.
Proof. unfold ok_shut, trace. apply shut_ok_run; [reflexivity|apply init_struct]. Qed.

(* ---- shut_ok: sound ------------------------------------------------------------------------ *)
Lemma all_empty_map {A} (er : list A) : forall osr : list (list obs),
  Nat.eqb (length er) (length osr) = true -> all_empty osr = true -> osr = map (fun _ => []) er.
Proof.
  induction er as [|x r IH]; intros [|o osr] Hl He; cbn in *; try discriminate; [reflexivity|].
  apply andb_prop in He as [H1 H2]. destruct o; [|discriminate]. f_equal. apply IH; assumption.
Qed.

Lemma shut_ok_sound evs : forall obss,
  shut_ok evs obss = true ->
  (~ In Shutdown evs -> length obss = length evs /\ forall o, In o obss -> has_ended o = false) /\
  (forall pre post, evs = pre ++ Shutdown :: post -> ~ In Shutdown pre ->
     exists opre, obss = opre ++ [DaemonEnded] :: map (fun _ => []) post /\ length opre = length pre /\
                  forall o, In o opre -> has_ended o = false).
Proof.
  induction evs as [|e r IH]; intros obss H.
  - destruct obss; [|discriminate]. split; [intros _; split; [reflexivity|intros o []]|].
    intros pre post E. destruct pre; discriminate.
  - destruct obss as [|o osr]; [destruct e; discriminate|].
    assert (Other : e <> Shutdown -> negb (has_ended o) && shut_ok r osr = true ->
      (~ In Shutdown (e :: r) -> length (o :: osr) = length (e :: r) /\ forall o0, In o0 (o :: osr) -> has_ended o0 = false) /\
      (forall pre post, e :: r = pre ++ Shutdown :: post -> ~ In Shutdown pre ->
         exists opre, o :: osr = opre ++ [DaemonEnded] :: map (fun _ => []) post /\ length opre = length pre /\
                      forall o0, In o0 opre -> has_ended o0 = false)).
    { intros He H0. apply andb_prop in H0 as [H1 H2]. apply negb_true_iff in H1.
      destruct (IH osr H2) as [A B]. split.
      - intros Hn. destruct A as [A1 A2]; [intros Hin; apply Hn; right; exact Hin|].
        split; [cbn; rewrite A1; reflexivity|]. intros o0 [<-|Hin]; auto.
      - intros pre post E Hn. destruct pre as [|x pre]; [cbn in E; injection E as Ex _; contradiction|].
        cbn in E. injection E as Ex Er. subst x.
        destruct (B pre post Er) as (opre & E1 & E2 & E3); [intros Hin; apply Hn; right; exact Hin|].
        exists (o :: opre). split; [cbn; rewrite E1; reflexivity|]. split; [cbn; rewrite E2; reflexivity|].
        intros o0 [<-|Hin]; auto. }
    destruct e; try (apply Other; [discriminate|exact H]).
    cbn [shut_ok] in H. destruct o as [|o1 o]; [discriminate|]. destruct o1; try discriminate. destruct o; [|discriminate].
    apply andb_prop in H as [Hl He]. split; [intros Hn; exfalso; apply Hn; left; reflexivity|].
    intros pre post E Hn. destruct pre as [|x pre].
    + cbn in E. injection E as Er. subst post. exists []. split; [cbn; f_equal; apply all_empty_map; assumption|].
      split; [reflexivity|intros o []].
    + cbn in E. injection E as Ex Er. subst x. exfalso. apply Hn. left. reflexivity.
Qed.

Lemma ok_implies_shut c : Case_C07.ok c = true -> ok_shut c = true.
Proof. unfold Case_C07.ok. intros H. apply andb_prop in H as [H _]. exact H. Qed.

(* ---- csets: complete ------------------------------------------------------------------------- *)
Definition open_of (s : state) : option (nat * list nat) :=
  match dm s with DRun ins => Some (callno s - 1, ins) | _ => None end.

Lemma csets_app o t1 t2 :
  csets o (t1 ++ t2) = match csets o t1 with Some o' => csets o' t2 | None => None end.
Proof.
  revert o; induction t1 as [|x r IH]; intros o; cbn [csets app]; [reflexivity|].
  destruct x; try apply IH.
  - destruct o; [reflexivity|apply IH].
  - destruct o as [[c' set']|]; [|reflexivity]. destruct (Nat.eqb callno c' && nats_eqb set set'); [apply IH|reflexivity].
Qed.

Lemma csets_wrets o (ws : list waiter) t k : csets o (map (fun w => WaitRet (wid w) t k) ws) = Some o.
Proof. induction ws; cbn; auto. Qed.

Definition goodc (r : state * list obs) : Prop := csets None (snd r) = Some (open_of (fst r)).

Lemma run_func0_gc s ins : goodc (run_func0 s ins).
Proof.
  unfold goodc, run_func0. destruct ins as [|x r].
  - unfold release; cbn. rewrite csets_wrets. reflexivity.
  - cbn. unfold open_of; cbn. rewrite Nat.sub_0_r. reflexivity.
Qed.

Lemma continue_round_gc s ins ld : goodc (continue_round s ins ld).
Proof.
  unfold continue_round. destruct (load_all (ld ++ q s)) as [[rem ys] fs].
  destruct (unfinished s - length (q s) =? 0); destruct rem; cbn [andb];
    try destruct (wants_cancel _); try reflexivity; apply run_func0_gc.
Qed.

Lemma start_round_gc s : goodc (start_round s).
Proof. unfold start_round. destruct (q s); [reflexivity|apply continue_round_gc]. Qed.

Lemma run_func_gc s ins : goodc (run_func s ins).
Proof.
  unfold run_func. destruct ins as [|x r].
  - destruct (release s) as [s1 o1] eqn:E. unfold release in E. inversion E; subst s1 o1; clear E.
    unfold end_round. match goal with |- context [start_round ?a] => pose proof (start_round_gc a) as G; destruct (start_round a) as [s2 o2] end.
    unfold goodc in *; cbn [fst snd] in *. rewrite csets_app, csets_wrets. exact G.
  - unfold goodc; cbn. unfold open_of; cbn. rewrite Nat.sub_0_r. reflexivity.
Qed.

Lemma load_one_gc s ins p : goodc (load_one s ins p).
Proof. unfold load_one. destruct (p_fin p); [apply continue_round_gc|reflexivity]. Qed.

Lemma after_gather_gc s ins g : goodc (after_gather s ins g).
Proof. destruct g; cbn [after_gather]; [reflexivity|apply load_one_gc|apply run_func_gc|apply run_func_gc]. Qed.

Definition cs_step (s : state) (r : state * list obs) : Prop :=
  csets (open_of s) (snd r) = Some (open_of (fst r)).

Lemma good_cs s r : open_of s = None -> goodc r -> cs_step s r.
Proof. unfold goodc, cs_step. intros -> H. exact H. Qed.

Lemma stay_cs s s' : dm s' = dm s -> callno s' = callno s -> cs_step s (s', []).
Proof. unfold cs_step, open_of; cbn. intros -> ->. reflexivity. Qed.

Lemma nats_eqb_refl l : nats_eqb l l = true.
Proof. apply list_eqb_refl. apply Nat.eqb_refl. Qed.

Lemma step_cs s e : is_dead s = false -> e <> Shutdown -> cs_step s (step s e).
Proof.
  intros Hd He. unfold step. rewrite Hd.
  assert (PutCase : forall p k c, cs_step s (do_put s p k c)).
  { intros p k c. unfold do_put. destruct (existsb (Nat.eqb p) (seen s)); [apply stay_cs; reflexivity|].
    match goal with |- cs_step _ (on_put ?x) => set (s4 := x);
      assert (E4 : dm s4 = dm s /\ callno s4 = callno s) by (unfold s4; destruct c; cbn; auto) end.
    destruct E4 as [E1 E2]. clearbody s4.
    assert (Eo : open_of s4 = open_of s) by (unfold open_of; rewrite E1, E2; reflexivity).
    unfold cs_step. rewrite <- Eo. fold (cs_step s4 (on_put s4)).
    unfold on_put. destruct (dm s4) eqn:Ed; try (apply stay_cs; reflexivity).
    - apply good_cs; [unfold open_of; rewrite Ed; reflexivity|apply start_round_gc].
    - destruct g; try (apply stay_cs; reflexivity). destruct (q s4); [apply stay_cs; reflexivity|].
      unfold cs_step, open_of; cbn. rewrite Ed. reflexivity.
    - destruct (q s4); [apply stay_cs; reflexivity|]. apply good_cs; [unfold open_of; rewrite Ed; reflexivity|apply load_one_gc]. }
  assert (FeedCase : forall n a, cs_step s (do_feed s n a)).
  { intros n a. unfold do_feed. destruct (negb (open_here s n)); [apply stay_cs; reflexivity|].
    destruct (dm s) eqn:Ed; try (apply stay_cs; reflexivity).
    - destruct (load_all (map (feed_if n a) ld)) as [[rem ys] fs]. destruct rem.
      + apply good_cs; [unfold open_of; rewrite Ed; reflexivity|apply after_gather_gc].
      + unfold cs_step, open_of; cbn. rewrite Ed. reflexivity.
    - destruct ((pid p =? n) && accepts p); [|apply stay_cs; reflexivity].
      apply good_cs; [unfold open_of; rewrite Ed; reflexivity|apply load_one_gc]. }
  assert (EndCase : forall ok fc, cs_step s (do_fn_end s ok fc)).
  { intros ok fc. unfold do_fn_end. destruct (dm s) eqn:Ed; try (apply stay_cs; reflexivity).
    unfold cs_step. unfold open_of at 1. rewrite Ed.
    destruct ok.
    - match goal with |- context [release ?x] => destruct (release x) as [s2 o1] eqn:E end.
      unfold release in E. inversion E; subst s2 o1; clear E.
      destruct fc.
      + match goal with |- context [continue_round ?a ?b ?c] => pose proof (continue_round_gc a b c) as G; destruct (continue_round a b c) as [s3 o2] end.
        unfold goodc in G. cbn [fst snd csets app] in *. rewrite Nat.eqb_refl, nats_eqb_refl. cbn [andb].
        rewrite csets_app, csets_wrets. exact G.
      + unfold end_round. match goal with |- context [start_round ?a] => pose proof (start_round_gc a) as G; destruct (start_round a) as [s3 o2] end.
        unfold goodc in G. cbn [fst snd csets app] in *. rewrite Nat.eqb_refl, nats_eqb_refl. cbn [andb].
        rewrite csets_app, csets_wrets. exact G.
    - pose proof (continue_round_gc s ins []) as G. destruct (continue_round s ins []) as [s1 o1].
      unfold goodc in G. cbn [fst snd csets app] in *. rewrite Nat.eqb_refl, nats_eqb_refl. cbn [andb]. exact G. }
  destruct e; try apply PutCase; try apply FeedCase; try apply EndCase; try contradiction.
  - unfold do_advance. destruct (dm s) as [|ins ld g|ins d|ins p|ins|] eqn:Ed; try (apply stay_cs; reflexivity).
    + destruct g; try (apply stay_cs; reflexivity). destruct (d <=? now s + dt)%N; [|apply stay_cs; reflexivity].
      unfold cs_step, open_of; cbn. rewrite Ed. reflexivity.
    + destruct (d <=? now s + dt)%N; [|apply stay_cs; reflexivity].
      match goal with |- context [run_func ?a ?b] => pose proof (run_func_gc a b) as G; destruct (run_func a b) as [s1 o] end.
      unfold cs_step, goodc, open_of in *; cbn in *. rewrite Ed. exact G.
  - unfold do_wait. destruct (existsb (Nat.eqb w) (wseen s)); [apply stay_cs; reflexivity|].
    unfold wait_core. cbn [unfinished set_gh set_wseen dm evset].
    destruct (unfinished s =? 0); [|apply stay_cs; reflexivity].
    destruct (dm s) eqn:Ed; try (destruct (evset s); [unfold cs_step, open_of; cbn; rewrite Ed; reflexivity|apply stay_cs; reflexivity]).
    + destruct g; try (destruct (evset s); [unfold cs_step, open_of; cbn; rewrite Ed; reflexivity|apply stay_cs; reflexivity]).
      destruct cancel; [|apply stay_cs; reflexivity]. unfold cs_step, open_of; cbn. rewrite Ed. reflexivity.
    + destruct cancel; [|apply stay_cs; reflexivity].
      match goal with |- cs_step _ (run_func ?a ?b) => pose proof (run_func_gc a b) as G end.
      unfold cs_step, goodc, open_of in *; cbn in *. rewrite Ed. exact G.
  - apply stay_cs; reflexivity.
Qed.

Lemma csets_run evs : forall s o,
  (is_dead s = false -> o = open_of s) ->
  exists o', csets o (concat (snd (run s evs))) = Some o' /\
             (is_dead (fst (run s evs)) = false -> o' = open_of (fst (run s evs))).
Proof.
  induction evs as [|e r IH]; intros s o Hrel; cbn [run].
  - exists o. split; [reflexivity|exact Hrel].
  - destruct (is_dead s) eqn:Hd.
    + pose proof (dead_run (e :: r) s Hd) as E. cbn [run] in E. rewrite E. cbn [fst snd].
      rewrite concat_nils. exists o. split; [reflexivity|congruence].
    + rewrite (Hrel eq_refl).
      destruct (is_shutdown e) eqn:Hsh.
      * destruct e; try discriminate. unfold step. rewrite Hd.
        match goal with |- context [run ?s1 r] => rewrite (dead_run r s1 eq_refl) end.
        cbn [fst snd concat]. rewrite concat_nils. cbn. eexists. split; [reflexivity|discriminate].
      * assert (He : e <> Shutdown) by (intros ->; discriminate).
        pose proof (step_cs s e Hd He) as Hs. unfold cs_step in Hs.
        destruct (step s e) as [s1 o1]. cbn [fst snd] in Hs.
        destruct (IH s1 (open_of s1)) as (o' & H1 & H2); [auto|].
        destruct (run s1 r) as [s2 os]. cbn [fst snd concat] in *.
        exists o'. rewrite csets_app, Hs. split; assumption.
Qed.

Lemma csets_complete T evs : ok_csets (Case T evs (trace T evs)) = true.
Proof.
  unfold ok_csets, trace. destruct (csets_run evs (init T) None) as (o' & H & _); [reflexivity|].
  rewrite H. reflexivity.
Qed.

(* ---- csets: sound ------------------------------------------------------------------------------ *)
Definition no_call (o : obs) : Prop := match o with FnStart _ _ _ | FnEnd _ _ _ => False | _ => True end.

Lemma csets_sound_gen tr : forall open st pre c ok set rest,
  csets open tr = Some st -> tr = pre ++ FnEnd c ok set :: rest ->
  (open = Some (c, set) /\ Forall no_call pre) \/
  (exists pre' t mid, pre = pre' ++ FnStart c set t :: mid /\ Forall no_call mid).
Proof.
  induction tr as [|x r IH]; intros open st pre c ok set rest H E.
  - destruct pre; discriminate.
  - destruct pre as [|y pre].
    + cbn in E. injection E as Ex Er. subst x. cbn [csets] in H.
      destruct open as [[c' set']|]; [|discriminate].
      destruct (Nat.eqb c c' && nats_eqb set set') eqn:Eq; [|discriminate].
      apply andb_prop in Eq as [E1 E2]. apply Nat.eqb_eq in E1.
      apply (list_eqb_eq Nat.eqb) in E2; [|intros a b Hab; apply Nat.eqb_eq; exact Hab]. subst. left. split; [reflexivity|constructor].
    + cbn in E. injection E as Ex Er. subst y. cbn [csets] in H.
      destruct x.
      * destruct open; [discriminate|].
        destruct (IH _ _ _ _ _ _ _ H Er) as [[A B]|(pre' & t & mid & A & B)].
        -- injection A as -> ->. right. exists [], now, pre. split; [reflexivity|exact B].
        -- right. exists (FnStart callno set0 now :: pre'), t, mid. split; [cbn; rewrite A; reflexivity|exact B].
      * destruct open as [[c' set']|]; [|discriminate].
        destruct (Nat.eqb callno c' && nats_eqb set0 set'); [|discriminate].
        destruct (IH _ _ _ _ _ _ _ H Er) as [[A B]|(pre' & t & mid & A & B)]; [discriminate|].
        right. exists (FnEnd callno ok0 set0 :: pre'), t, mid. split; [cbn; rewrite A; reflexivity|exact B].
      * destruct (IH _ _ _ _ _ _ _ H Er) as [[A B]|(pre' & t & mid & A & B)].
        -- left. split; [exact A|constructor; [exact I|exact B]].
        -- right. exists (WaitRet w now nok :: pre'), t, mid. split; [cbn; rewrite A; reflexivity|exact B].
      * destruct (IH _ _ _ _ _ _ _ H Er) as [[A B]|(pre' & t & mid & A & B)].
        -- left. split; [exact A|constructor; [exact I|exact B]].
        -- right. exists (DaemonEnded :: pre'), t, mid. split; [cbn; rewrite A; reflexivity|exact B].
      * destruct (IH _ _ _ _ _ _ _ H Er) as [[A B]|(pre' & t & mid & A & B)].
        -- left. split; [exact A|constructor; [exact I|exact B]].
        -- right. exists (Hang :: pre'), t, mid. split; [cbn; rewrite A; reflexivity|exact B].
Qed.

(* every FnEnd is preceded by the FnStart of that very call with that very set, and
   nothing but WaitRet lies between them *)
Lemma csets_sound T evs observed :
  ok_csets (Case T evs observed) = true ->
  forall pre c ok set rest, concat observed = pre ++ FnEnd c ok set :: rest ->
    exists pre' t mid, pre = pre' ++ FnStart c set t :: mid /\ Forall no_call mid.
Proof.
  unfold ok_csets. intros H pre c ok set rest E.
  destruct (csets None (concat observed)) as [st|] eqn:Ec; [|discriminate].
  destruct (csets_sound_gen _ _ _ _ _ _ _ _ Ec E) as [[A _]|B]; [discriminate|exact B].
Qed.

Lemma ok_implies_csets c : Case_C03.ok c = true -> ok_csets c = true.
Proof. unfold Case_C03.ok. intros H. apply andb_prop in H as [H _]. apply andb_prop in H as [H _]. apply andb_prop in H as [H _]. exact H. Qed.
