(* BufferOnce.v — two more instances of the generic walk of BufferCore.v:
   Pids : producer ids are unique, every producer the buffer holds was submitted,
          and every argument handed over by producer p is either loaded into an
          input set or still pending in the (one) producer with id p   (C07 barrier);
   Cnt  : counting — for every value x,
            #x delivered + #x in the input set + #x pending  <=  #x handed over,
          which holds as long as no foreign event.clear() lands in the window
          between event.set() and the loop test (FnOkThenFClear)          (C03 exactly-once). *)
From Coq Require Import List Arith NArith Bool Lia ZifyBool ZifyNat ZifyN Permutation.
Import ListNotations.
Require Import Aiuti.Buffer Aiuti.BufferCore Aiuti.BufferFlag Aiuti.BufferJoin.

Definition pids (ps : list prod) : list nat := map pid ps.

(* ---- facts about producers -------------------------------------------------------- *)
Lemma pid_mk_prod p k : pid (mk_prod p k) = p.
Proof. destruct k; reflexivity. Qed.

Lemma args_mk_prod p k : all_args (acts (mk_prod p k)) = imm_args k.
Proof.
  destruct k; cbn [mk_prod acts imm_args]; try reflexivity.
  all: rewrite all_args_app, all_args_mapAY; destruct (imm_fails _); cbn; apply app_nil_r.
Qed.

Lemma pid_feed_if n a p : pid (feed_if n a p) = pid p.
Proof.
  unfold feed_if. destruct ((pid p =? n) && accepts p); [|reflexivity].
  destruct a; cbn [feed pid]; try reflexivity. destruct (single p); reflexivity.
Qed.

Lemma pids_feed n a ps : pids (map (feed_if n a) ps) = pids ps.
Proof. unfold pids. rewrite map_map. apply map_ext. intros p. apply pid_feed_if. Qed.

Lemma args_feed_if_keeps n a p x : In x (all_args (acts p)) -> In x (all_args (acts (feed_if n a p))).
Proof.
  intros H. unfold feed_if. destruct ((pid p =? n) && accepts p); [|exact H].
  destruct a; cbn [feed acts]; try (rewrite all_args_app, in_app_iff; auto).
  destruct (single p); [exact H|]. cbn [acts]. rewrite all_args_app, in_app_iff; auto.
Qed.

Lemma pend_cons p ps : pend (p :: ps) = all_args (acts p) ++ pend ps.
Proof. reflexivity. Qed.

Lemma load_all_exact ps : forall rem ys fs,
  load_all ps = (rem, ys, fs) -> (forall p, In p ps -> wf_prod p) ->
  ys = pend ps /\ pend rem = [] /\
  (forall l1, NoDup (l1 ++ pids ps) -> NoDup (l1 ++ pids rem)) /\
  (forall p, In p rem -> exists p0, In p0 ps /\ pid p0 = pid p).
Proof.
  induction ps as [|p r IH]; intros rem ys fs E Hwf; cbn [load_all] in E.
  - inversion E; subst. repeat split; auto. intros p [].
  - destruct (load_all r) as [[rem0 ys0] fs0] eqn:Er.
    destruct (IH _ _ _ eq_refl (fun p0 H => Hwf p0 (or_intror H))) as (H1 & H2 & H3 & H4).
    destruct (Hwf p (or_introl eq_refl)) as [Hy _].
    destruct (p_fin p); inversion E; subst; clear E.
    + split; [rewrite pend_cons, Hy; reflexivity|]. split; [exact H2|]. split.
      * intros l1 Hn. apply H3. cbn [pids map] in Hn. eapply NoDup_remove_1; exact Hn.
      * intros p0 Hin. destruct (H4 p0 Hin) as (p1 & Hin1 & E). exists p1. split; [right; exact Hin1|exact E].
    + split; [rewrite pend_cons, Hy; reflexivity|]. split; [cbn; exact H2|]. split.
      * intros l1 Hn. cbn [pids map p_wait pid] in *.
        replace (l1 ++ pid p :: map pid rem0) with ((l1 ++ [pid p]) ++ map pid rem0) by (rewrite <- app_assoc; reflexivity).
        apply H3. rewrite <- app_assoc. exact Hn.
      * intros p0 [<-|Hin]; [exists p; split; [left; reflexivity|reflexivity]|].
        destruct (H4 p0 Hin) as (p1 & Hin1 & E). exists p1. split; [right; exact Hin1|exact E].
Qed.

Lemma NoDup_app_snoc {A} (l : list A) x : NoDup l -> ~ In x l -> NoDup (l ++ [x]).
Proof.
  intros H Hx. eapply Permutation_NoDup; [apply Permutation_cons_append|]. constructor; assumption.
Qed.

(* ---- Pids ------------------------------------------------------------------------- *)
Record Pids (sn : list nat) (g : ghost) (ps : list prod) : Prop := {
  pd_nodup : NoDup (pids ps);
  pd_seen : forall p, In p ps -> In (pid p) sn;
  pd_off : forall p x, In (p, x) (g_offered g) ->
           In x (g_loaded g) \/ exists pr, In pr ps /\ pid pr = p /\ In x (all_args (acts pr))
}.

Lemma Pids_perm sn g ps ps' : Permutation ps ps' -> Pids sn g ps -> Pids sn g ps'.
Proof.
  intros Hp [H1 H2 H3]. constructor.
  - eapply Permutation_NoDup; [|exact H1]. apply Permutation_map. exact Hp.
  - intros p Hin. apply H2. eapply Permutation_in; [apply Permutation_sym; exact Hp|exact Hin].
  - intros p x Hin. destruct (H3 p x Hin) as [H|(pr & Hpr & E & Hx)]; [left; exact H|].
    right. exists pr. split; [eapply Permutation_in; eauto|auto].
Qed.

Lemma Pids_load sn g ps1 ps rem ys fs :
  (forall p, In p ps -> wf_prod p) -> Pids sn g (ps1 ++ ps) -> load_all ps = (rem, ys, fs) ->
  Pids sn (gh_load g ys fs) (ps1 ++ rem).
Proof.
  intros Hwf [H1 H2 H3] E. destruct (load_all_exact ps rem ys fs E Hwf) as (Hy & Hr & Hn & Hp).
  constructor; cbn [gh_load g_offered g_loaded].
  - unfold pids in *. rewrite map_app in *. apply Hn. exact H1.
  - intros p Hin. apply in_app_or in Hin as [Hin|Hin]; [apply H2, in_or_app; auto|].
    destruct (Hp p Hin) as (p0 & Hin0 & <-). apply H2, in_or_app; auto.
  - intros p x Hin. destruct (H3 p x Hin) as [H|(pr & Hpr & Ep & Hx)]; [left; apply in_or_app; auto|].
    apply in_app_or in Hpr as [Hpr|Hpr].
    + right. exists pr. split; [apply in_or_app; auto|auto].
    + left. apply in_or_app. right. rewrite Hy. apply pend_in. eauto.
Qed.

Lemma existsb_eqb_false p l : existsb (Nat.eqb p) l = false -> ~ In p l.
Proof.
  intros H Hin. assert (existsb (Nat.eqb p) l = true) by (apply existsb_exists; exists p; split; [exact Hin|apply Nat.eqb_refl]).
  congruence.
Qed.

Lemma Pids_put sn g ps p k t b :
  Pids sn g ps -> existsb (Nat.eqb p) sn = false ->
  Pids (sn ++ [p]) (gh_tie (gh_offer g (map (fun x => (p, x)) (imm_args k)) t) b) (ps ++ [mk_prod p k]).
Proof.
  intros [H1 H2 H3] Hf. apply existsb_eqb_false in Hf.
  constructor; cbn [gh_tie gh_offer g_offered g_loaded].
  - unfold pids in *. rewrite map_app. cbn [map]. rewrite pid_mk_prod.
    apply NoDup_app_snoc; [exact H1|]. intros Hin. apply in_map_iff in Hin as (p0 & E & Hin). apply Hf. rewrite <- E. apply H2, Hin.
  - intros p0 Hin. apply in_or_app. apply in_app_or in Hin as [Hin|[<-|[]]]; [left; apply H2, Hin|right; left; symmetry; apply pid_mk_prod].
  - intros p0 x Hin. apply in_app_or in Hin as [Hin|Hin].
    + destruct (H3 p0 x Hin) as [H|(pr & Hpr & Ep & Hx)]; [left; exact H|]. right. exists pr. split; [apply in_or_app; auto|auto].
    + apply in_map_iff in Hin as (x0 & E & Hx). inversion E; subst. right. exists (mk_prod p0 k).
      split; [apply in_or_app; right; left; reflexivity|]. split; [apply pid_mk_prod|]. rewrite args_mk_prod. exact Hx.
Qed.

Lemma Pids_feed sn g ps n a :
  Pids sn g ps -> (exists p, In p ps /\ (pid p =? n) && accepts p = true) ->
  Pids sn (gh_offer1 g (map (fun x => (n, x)) (arg_of a))) (map (feed_if n a) ps).
Proof.
  intros [H1 H2 H3] (p0 & Hin0 & E0). constructor; cbn [gh_offer1 g_offered g_loaded].
  - rewrite pids_feed. exact H1.
  - intros p Hin. apply in_map_iff in Hin as (p1 & <- & Hin). rewrite pid_feed_if. apply H2, Hin.
  - intros p x Hin. apply in_app_or in Hin as [Hin|Hin].
    + destruct (H3 p x Hin) as [H|(pr & Hpr & Ep & Hx)]; [left; exact H|]. right.
      exists (feed_if n a pr). split; [apply in_map; exact Hpr|]. split; [rewrite pid_feed_if; exact Ep|apply args_feed_if_keeps; exact Hx].
    + apply in_map_iff in Hin as (x0 & E & Hx). inversion E; subst. right.
      exists (feed_if p a p0). split; [apply in_map; exact Hin0|]. split.
      * rewrite pid_feed_if. apply andb_prop in E0 as [E0 _]. apply Nat.eqb_eq in E0. exact E0.
      * unfold feed_if. rewrite E0. destruct a; cbn in Hx; try (destruct Hx; fail). destruct Hx as [<-|[]].
        cbn [feed acts]. rewrite all_args_app, in_app_iff. right. cbn. auto.
Qed.

Lemma Pids_ext sn g g' ps :
  g_offered g' = g_offered g -> g_loaded g' = g_loaded g -> Pids sn g ps -> Pids sn g' ps.
Proof. intros E1 E2 [H1 H2 H3]. constructor; rewrite ?E1, ?E2; auto. Qed.

(* ---- Cnt -------------------------------------------------------------------------- *)
Notation cnt := (count_occ Nat.eq_dec).

Definition Cnt (g : ghost) (ins : list nat) (ps : list prod) : Prop :=
  forall x, cnt (g_delivered g) x + cnt ins x + cnt (pend ps) x <= cnt (off g) x.

Lemma cnt_set_add x l y : cnt (set_add x l) y <= cnt [x] y + cnt l y.
Proof.
  induction l as [|z r IH]; cbn [set_add].
  - cbn. destruct (Nat.eq_dec x y); lia.
  - destruct (x <? z); [cbn; destruct (Nat.eq_dec x y), (Nat.eq_dec z y); lia|].
    destruct (x =? z); [cbn; destruct (Nat.eq_dec x y), (Nat.eq_dec z y); lia|].
    cbn in *. destruct (Nat.eq_dec x y), (Nat.eq_dec z y); lia.
Qed.

Lemma cnt_set_addl ys : forall l y, cnt (set_addl ys l) y <= cnt ys y + cnt l y.
Proof.
  unfold set_addl. induction ys as [|x r IH]; intros l y; cbn [fold_left]; [cbn; lia|].
  specialize (IH (set_add x l) y). pose proof (cnt_set_add x l y). cbn in *. destruct (Nat.eq_dec x y); lia.
Qed.

Lemma Cnt_perm g ins ps ps' : Permutation ps ps' -> Cnt g ins ps -> Cnt g ins ps'.
Proof.
  intros Hp H x. specialize (H x).
  assert (E : cnt (pend ps) x = cnt (pend ps') x).
  { apply Permutation_count_occ. unfold pend. apply Permutation_flat_map. exact Hp. }
  lia.
Qed.

Lemma Cnt_load g ins ps1 ps rem ys fs :
  (forall p, In p ps -> wf_prod p) -> Cnt g ins (ps1 ++ ps) -> load_all ps = (rem, ys, fs) ->
  Cnt (gh_load g ys fs) (set_addl ys ins) (ps1 ++ rem).
Proof.
  intros Hwf H E x. destruct (load_all_exact ps rem ys fs E Hwf) as (Hy & Hr & _ & _).
  specialize (H x). unfold off in *. cbn [gh_load g_offered g_delivered].
  rewrite pend_app, count_occ_app in *. rewrite Hr. cbn [count_occ]. rewrite <- Hy in H.
  pose proof (cnt_set_addl ys ins x). lia.
Qed.

Lemma Cnt_deliver g ins ps : Cnt g ins ps -> Cnt (gh_deliver g ins) [] ps.
Proof.
  intros H x. specialize (H x). unfold off in *. cbn [gh_deliver g_offered g_delivered].
  rewrite count_occ_app. cbn [count_occ]. lia.
Qed.

Lemma Cnt_put g ins ps p k t b :
  Cnt g ins ps -> Cnt (gh_tie (gh_offer g (map (fun x => (p, x)) (imm_args k)) t) b) ins (ps ++ [mk_prod p k]).
Proof.
  intros H x. specialize (H x). unfold off in *. cbn [gh_tie gh_offer g_offered g_delivered].
  rewrite map_app, map_map. cbn [snd]. rewrite map_id, pend_app, !count_occ_app.
  cbn [pend flat_map]. rewrite app_nil_r, args_mk_prod. lia.
Qed.

Lemma feed_if_other n a p : pid p <> n -> feed_if n a p = p.
Proof. intros H. unfold feed_if. apply Nat.eqb_neq in H. rewrite H. reflexivity. Qed.

Lemma cnt_feed_one n a p x : cnt (all_args (acts (feed_if n a p))) x <= cnt (all_args (acts p)) x + cnt (arg_of a) x.
Proof.
  unfold feed_if. destruct ((pid p =? n) && accepts p); [|lia].
  destruct a; cbn [feed acts arg_of].
  - rewrite all_args_app, count_occ_app. cbn. lia.
  - rewrite all_args_app, count_occ_app. cbn. lia.
  - destruct (single p); [lia|]. cbn [acts]. rewrite all_args_app, count_occ_app. cbn. lia.
Qed.

Lemma cnt_feed n a x ps : NoDup (pids ps) ->
  cnt (pend (map (feed_if n a) ps)) x <= cnt (pend ps) x + cnt (arg_of a) x.
Proof.
  induction ps as [|p r IH]; intros Hn; cbn [map]; [cbn; lia|].
  rewrite !pend_cons, !count_occ_app. cbn [pids map] in Hn. inversion Hn as [|? ? Hnot Hn']; subst.
  destruct (Nat.eq_dec (pid p) n) as [E|E].
  - assert (Hr : map (feed_if n a) r = r).
    { rewrite <- (map_id r) at 2. apply map_ext_in. intros p0 Hin. apply feed_if_other.
      intros E0. apply Hnot. rewrite E, <- E0. apply in_map. exact Hin. }
    rewrite Hr. pose proof (cnt_feed_one n a p x). lia.
  - rewrite (feed_if_other n a p E). specialize (IH Hn'). lia.
Qed.

Lemma Cnt_feed g ins ps n a :
  NoDup (pids ps) -> Cnt g ins ps ->
  Cnt (gh_offer1 g (map (fun x => (n, x)) (arg_of a))) ins (map (feed_if n a) ps).
Proof.
  intros Hn H x. specialize (H x). unfold off in *. cbn [gh_offer1 g_offered g_delivered].
  rewrite map_app, map_map. cbn [snd]. rewrite map_id, count_occ_app.
  pose proof (cnt_feed n a x ps Hn). lia.
Qed.

Lemma Cnt_ext g g' ins ps :
  g_offered g' = g_offered g -> g_delivered g' = g_delivered g -> Cnt g ins ps -> Cnt g' ins ps.
Proof. intros E1 E2 H x. unfold off. rewrite E1, E2. apply H. Qed.

Lemma Cnt_ins g ins ps : Cnt g ins ps -> incl ins (off g).
Proof.
  intros H x Hin. specialize (H x). apply (count_occ_In Nat.eq_dec) in Hin.
  apply (count_occ_In Nat.eq_dec). lia.
Qed.

(* ---- the two instances --------------------------------------------------------------- *)
Definition PF (sn : list nat) (g : ghost) (ins : list nat) (ps : list prod) : Prop :=
  Core g ins ps /\ Pids sn g ps.
Definition PO (sn : list nat) (g : ghost) (ins : list nat) (ps : list prod) : Prop :=
  Core g ins ps /\ Pids sn g ps /\ Cnt g ins ps.

Lemma wf_app_r g ins (ps1 ps : list prod) : Core g ins (ps1 ++ ps) -> forall p, In p ps -> wf_prod p.
Proof. intros H p Hin. apply (c_wf _ _ _ H). apply in_or_app. auto. Qed.

Lemma step_PF s e : InvP PF s -> InvP PF (fst (step s e)).
Proof.
  intros H. apply (step_postP PF true); auto.
  - intros sn g ins ps ps' Hp [A B]. split; [eapply Core_permP; eauto|eapply Pids_perm; eauto].
  - intros sn g ins ps1 ps rem ys fs [A B] E. split; [eapply Core_load; eauto|eapply Pids_load; eauto using wf_app_r].
  - intros sn g ins ps [A B]. split; [apply Core_deliver; [exact A|intros x []]|eapply Pids_ext; [| |exact B]; reflexivity].
  - intros _ sn g ins ps [A B]. split; [apply Core_deliver; [exact A|apply incl_refl]|eapply Pids_ext; [| |exact B]; reflexivity].
  - intros sn g ins ps p k t b [A B] Hf. split; [apply Core_put; exact A|apply Pids_put; assumption].
  - intros sn g ins ps n a [A B] Hex. split; [apply Core_feed; assumption|apply Pids_feed; assumption].
  - intros sn g g' ins ps E1 E2 E3 [A B]. split; [eapply Core_ext; eauto|eapply Pids_ext; eauto].
  - intros sn g ins ps [A _]. apply (c_ins _ _ _ A).
Qed.

Lemma step_PO s e : e <> FnOkThenFClear -> InvP PO s -> InvP PO (fst (step s e)).
Proof.
  intros He H. apply (step_postP PO false); auto.
  - intros sn g ins ps ps' Hp (A & B & C). split; [eapply Core_permP; eauto|]. split; [eapply Pids_perm; eauto|eapply Cnt_perm; eauto].
  - intros sn g ins ps1 ps rem ys fs (A & B & C) E. split; [eapply Core_load; eauto|].
    split; [eapply Pids_load; eauto using wf_app_r|eapply Cnt_load; eauto using wf_app_r].
  - intros sn g ins ps (A & B & C). split; [apply Core_deliver; [exact A|intros x []]|].
    split; [eapply Pids_ext; [| |exact B]; reflexivity|apply Cnt_deliver; exact C].
  - discriminate.
  - intros sn g ins ps p k t b (A & B & C) Hf. split; [apply Core_put; exact A|]. split; [apply Pids_put; assumption|apply Cnt_put; exact C].
  - intros sn g ins ps n a (A & B & C) Hex. split; [apply Core_feed; assumption|].
    split; [apply Pids_feed; assumption|apply Cnt_feed; [apply (pd_nodup _ _ _ B)|exact C]].
  - intros sn g g' ins ps E1 E2 E3 (A & B & C). split; [eapply Core_ext; eauto|]. split; [eapply Pids_ext; eauto|eapply Cnt_ext; eauto].
  - intros sn g ins ps (A & _). apply (c_ins _ _ _ A).
Qed.

Lemma init_PO T : InvP PO (init T).
Proof.
  intros _. split; [apply (init_inv T); reflexivity|]. split.
  - constructor; cbn; [constructor|intros p []|intros p x []].
  - intros x. cbn. lia.
Qed.

Lemma init_PF T : InvP PF (init T).
Proof. intros Hd. destruct (init_PO T Hd) as (A & B & _). split; assumption. Qed.

Lemma final_PF T evs : InvP PF (final T evs).
Proof.
  unfold final. generalize (init_PF T). generalize (init T).
  induction evs as [|e r IH]; intros s H; cbn [run]; [exact H|].
  pose proof (step_PF s e H) as H1. destruct (step s e) as [s1 o]. cbn [fst] in H1.
  specialize (IH s1 H1). destruct (run s1 r). exact IH.
Qed.

Lemma run_PO evs : forall s, ~ In FnOkThenFClear evs -> InvP PO s -> InvP PO (fst (run s evs)).
Proof.
  induction evs as [|e r IH]; intros s Hno H; cbn [run]; [exact H|].
  assert (He : e <> FnOkThenFClear) by (intros ->; apply Hno; left; reflexivity).
  pose proof (step_PO s e He H) as H1. destruct (step s e) as [s1 o]. cbn [fst] in H1.
  assert (Hno' : ~ In FnOkThenFClear r) by (intros Hin; apply Hno; right; exact Hin).
  specialize (IH s1 Hno' H1). destruct (run s1 r). exact IH.
Qed.

Lemma final_PO T evs : ~ In FnOkThenFClear evs -> InvP PO (final T evs).
Proof. intros H. apply run_PO; [exact H|apply init_PO]. Qed.

(* ---- exactly once -------------------------------------------------------------------- *)
(* a value is never delivered (in successful calls) more often than it was handed over *)
Definition Bound (s : state) : Prop := forall x, cnt (g_delivered (gh s)) x <= cnt (off (gh s)) x.

Lemma bound_run evs : forall s,
  ~ In FnOkThenFClear evs -> Struct s -> InvP PO s -> Bound s -> Bound (fst (run s evs)).
Proof.
  induction evs as [|e r IH]; intros s Hno HS H HB; cbn [run]; [exact HB|].
  assert (He : e <> FnOkThenFClear) by (intros ->; apply Hno; left; reflexivity).
  assert (Hno' : ~ In FnOkThenFClear r) by (intros Hin; apply Hno; right; exact Hin).
  pose proof (step_PO s e He H) as H1. pose proof (step_struct s e HS) as HS1.
  assert (HB1 : Bound (fst (step s e))).
  { destruct (is_dead s) eqn:Hd.
    - unfold step. rewrite Hd. exact HB.
    - destruct (is_dead (fst (step s e))) eqn:Hd1.
      + assert (E : e = Shutdown).
        { destruct e; try reflexivity; exfalso;
            match goal with |- _ => rewrite (step_alive s _ HS Hd) in Hd1; [discriminate|discriminate] end. }
        subst e. unfold step. rewrite Hd. exact HB.
      + destruct (H1 Hd1) as (_ & _ & C). intros x. specialize (C x). lia. }
  destruct (step s e) as [s1 o]. cbn [fst] in *.
  specialize (IH s1 Hno' HS1 H1 HB1). destruct (run s1 r). exact IH.
Qed.

Lemma exactly_once_lemma T evs :
  ~ In FnOkThenFClear evs ->
  forall x, cnt (ok_sets (concat (trace T evs))) x <= cnt (off (gh (final T evs))) x.
Proof.
  intros Hno x. rewrite <- delivered_is_trace. unfold final.
  apply bound_run; [exact Hno|apply init_struct|apply init_PO|]. intros y. cbn. lia.
Qed.

Lemma exactly_once_nodup T evs :
  ~ In FnOkThenFClear evs -> NoDup (off (gh (final T evs))) -> NoDup (ok_sets (concat (trace T evs))).
Proof.
  intros Hno Hn. apply (NoDup_count_occ Nat.eq_dec). intros x.
  pose proof (exactly_once_lemma T evs Hno x). rewrite (NoDup_count_occ Nat.eq_dec) in Hn. specialize (Hn x). lia.
Qed.
