(* Case_C15.v — correspondence cases and trace monitor for C15
   (decorator-with-options forms; per-loop batchers).
   No proofs of the property here; see OptionsInv.v / props/C15.v.

   Every case carries the traces of the SAME script under the forms
     direct : deco(func, opt=...)      deco : deco(opt=...)(func)
     ctor   : the class itself with the same options (buffer, batcher)
   Times are fifths of a tick. *)
From Coq Require Import List Arith Bool NArith.
Import ListNotations.
Require Import Aiuti.CaseLib Aiuti.Keys Aiuti.Case_C14 Aiuti.Options Aiuti.OptionsRef.

Inductive lev := LSeg (l : nat) (script : list bev) | LClose (l : nat).

(* two functions wrapped by ONE options-form decorator object, on one loop: events carry the function *)
Inductive bufev2 := Sub2 (j a : nat) | BAdv2 (dt : N).
Inductive bev2 := BCall2 (j k : nat) | BFin2 (j b : nat) | Adv2 (dt : N).

(* what function j sees: its own submissions / calls / returns, and all the pauses *)
Definition bproj (j : nat) (sc : list bufev2) : list bufev :=
  flat_map (fun e => match e with
                     | Sub2 j' a => if Nat.eqb j j' then [Sub a] else []
                     | BAdv2 dt => [BAdv dt] end) sc.
Definition cproj (j : nat) (sc : list bev2) : list bev :=
  flat_map (fun e => match e with
                     | BCall2 j' k => if Nat.eqb j j' then [BCall k] else []
                     | BFin2 j' b => if Nat.eqb j j' then [BFin b] else []
                     | Adv2 dt => [Adv dt] end) sc.

Inductive case :=
| CCache (kind : mkind) (prefill : bool) (evs : list ev) (direct deco : list Keys.obs)
(* ONE decorator object built with the options form (no explicit mapping) applied to TWO
   functions, against two direct wrappings: each function has its own private store, so each
   function's calls (evs0 / evs1, interleaved in time by the harness) behave like a cache of
   their own.  d = direct form, e = options form; index = function. *)
| CCache2 (evs0 evs1 : list ev) (d0 e0 d1 e1 : list Keys.obs)
(* the same for buffer_until_timeout(timeout=...) and async_background_batcher(...): each function must
   get its own buffer / its own batcher registry.  d = two direct wrappings, e = one decorator object *)
| CBuffer2 (timeout : option N) (script : list bufev2) (d0 e0 d1 e1 : list (N * list nat))
| CBatcher2 (cfg : ocfg) (script : list bev2) (d0 e0 d1 e1 : btrace)
(* FORMS ONLY: degenerate option values (0 for timeout / batch_timeout / max_batch_size /
   max_concurrent_batches) are outside the class of the reference semantics (same-iteration timer
   expiry), but "the options form configures exactly like the direct form" still has to hold: the
   three forms' traces are compared with each other, not with a model *)
| CFormsBuf (direct deco ctor : list (N * list nat))
| CFormsBat (direct deco ctor : btrace) (cross : nat)
| CBuffer (timeout : option N) (script : list bufev) (direct deco ctor : list (N * list nat))
| CBatcher (cfg : ocfg) (script : list bev) (direct deco ctor : btrace) (cross : nat)
(* solo : for every loop, the trace of THAT loop's part of the plan run alone against the class
   itself (one AsyncBackgroundBatcher object, one loop) — what "its own independent batching" means *)
| CLoops (cfg : ocfg) (plan : list lev) (observed solo : list (nat * btrace)) (cross : nat).

(* ---- equalities ----------------------------------------------------------- *)
Definition nsame (a b : list nat) : bool := nsubset a b && nsubset b a.
Definition flush_eqb (p q : N * list nat) : bool := N.eqb (fst p) (fst q) && nsame (snd p) (snd q).
Definition flushes_eqb := list_eqb flush_eqb.
Definition start_eqb (p q : N * list nat) : bool := N.eqb (fst p) (fst q) && list_eqb Nat.eqb (snd p) (snd q).
Definition done_eqb (p q : N * nat) : bool := N.eqb (fst p) (fst q) && Nat.eqb (snd p) (snd q).
Definition btrace_eqb (a b : btrace) : bool :=
  list_eqb start_eqb (fst a) (fst b) && list_eqb (opt_eqb done_eqb) (snd a) (snd b).

(* ---- per-loop plans -------------------------------------------------------- *)
Definition flatten (plan : list lev) : list (pev bev) :=
  flat_map (fun s => match s with
                     | LSeg l sc => map (fun x => On l x) sc
                     | LClose l => [Close l]
                     end) plan.

Definition loops_model (cfg : ocfg) (plan : list lev) : reg bst :=
  prun bst bev binit (bstep (resolve cfg)) (flatten plan).

(* the part of the plan that is addressed to loop l *)
Definition script_on (l : nat) (plan : list lev) : list bev :=
  flat_map (fun s => match s with
                     | LSeg l' sc => if Nat.eqb l l' then sc else []
                     | LClose _ => [] end) plan.

(* the small reference semantics against the FULL component models (Batcher.v / Buffer.v run on the
   translated script, OptionsRef.v): evaluated on every buffer / batcher / loops case, so the two
   semantics are compared on every script of every run (proved in general for the buffer and for
   a sub-class of batcher configurations, props/C15.v) *)
Definition ref_buffer_agree (T : N) (sc : list bufev) : bool :=
  flushes_eqb (buf_run T sc 0%N None) (full_flushes T sc).
Definition ref_batcher_agree (c : bcfg) (sc : list bev) : bool :=
  let '(ft, odd) := full_trace c sc in btrace_eqb (trace_of (brun c sc)) ft && negb odd.

(* ---- agree: reference semantics = implementation, in every form ---------- *)
Definition agree (c : case) : bool :=
  match c with
  | CCache kind pf evs d1 d2 =>
      Case_C14.agree (C14 kind pf evs d1) && Case_C14.agree (C14 kind pf evs d2)
  | CCache2 evs0 evs1 d0 e0 d1 e1 =>
      Case_C14.agree (C14 KDefault false evs0 d0) && Case_C14.agree (C14 KDefault false evs0 e0) &&
      Case_C14.agree (C14 KDefault false evs1 d1) && Case_C14.agree (C14 KDefault false evs1 e1)
  | CBuffer2 t sc d0 e0 d1 e1 =>
      let m0 := buf_trace t (bproj 0 sc) in let m1 := buf_trace t (bproj 1 sc) in
      flushes_eqb m0 d0 && flushes_eqb m0 e0 && flushes_eqb m1 d1 && flushes_eqb m1 e1
  | CBatcher2 cfg sc d0 e0 d1 e1 =>
      let m0 := trace_of (brun (resolve cfg) (cproj 0 sc)) in
      let m1 := trace_of (brun (resolve cfg) (cproj 1 sc)) in
      btrace_eqb m0 d0 && btrace_eqb m0 e0 && btrace_eqb m1 d1 && btrace_eqb m1 e1
  | CFormsBuf _ _ _ => true
  | CFormsBat _ _ _ _ => true
  | CBuffer t sc d1 d2 d3 =>
      let m := buf_trace t sc in
      flushes_eqb m d1 && flushes_eqb m d2 && flushes_eqb m d3 &&
      ref_buffer_agree (match t with Some v => v | None => buf_default_timeout end) sc
  | CBatcher cfg sc d1 d2 d3 cross =>
      let m := trace_of (brun (resolve cfg) sc) in
      btrace_eqb m d1 && btrace_eqb m d2 && btrace_eqb m d3 && Nat.eqb cross 0 &&
      ref_batcher_agree (resolve cfg) sc
  | CLoops cfg plan observed solo cross =>
      let r := loops_model cfg plan in
      forallb (fun lt => match final_of bst (fst lt) r with
                         | Some s => btrace_eqb (trace_of s) (snd lt)
                         | None => false end) observed
      && Nat.eqb (length observed) (length (live r) + length (archive r))
      && Nat.eqb cross 0
      && forallb (fun lt => ref_batcher_agree (resolve cfg) (script_on (fst lt) plan)) observed
  end.

(* ---- monitor: decided on the observed traces ----------------------------- *)

(* (argument, instant of submission) from a buffer script *)
Fixpoint sub_times (sc : list bufev) (now : N) : list (nat * N) :=
  match sc with
  | [] => []
  | Sub a :: r => (a, now) :: sub_times r now
  | BAdv dt :: r => sub_times r (now + dt)%N
  end.
Definition last_sub (times : list (nat * N)) (args : list nat) : option N :=
  fold_left (fun acc a => match acc, assoc a times with
                          | Some m, Some t => Some (N.max m t)
                          | _, _ => None end) args (Some 0%N).
(* every flush happens exactly [timeout] after the last submission it contains
   (scripts use every argument once) and is not empty *)
Definition buffer_ok (T : N) (sc : list bufev) (tr : list (N * list nat)) : bool :=
  let times := sub_times sc 0%N in
  forallb (fun f => match snd f with [] => false | _ => true end &&
                    match last_sub times (snd f) with
                    | Some m => N.eqb (fst f) (m + T)
                    | None => false end) tr.

Fixpoint call_keys (sc : list bev) : list nat :=
  match sc with
  | [] => []
  | BCall k :: r => k :: call_keys r
  | _ :: r => call_keys r
  end.

(* what can be said of ONE batcher's trace from the script alone: batch sizes
   respect max_batch_size, batches only contain keys that were submitted, every
   answered caller got the result of a batch that contains its key.
   The size bound is max 1 max_batch_size: with max_batch_size = 0 the library (and the
   reference semantics) hands over every item alone — `tasks = [await q.get()]` comes before
   the `while len(tasks) < self.max_batch_size` test (asyncio.py, _get_next_batch); the bound
   "<= max_batch_size" rejected those correct traces (found by proving OptionsMon.batcher_complete;
   for max_batch_size >= 1 nothing changes). *)
Definition batcher_sane (c : bcfg) (keys : list nat) (tr : btrace) : bool :=
  forallb (fun st => (length (snd st) <=? Nat.max 1 (cB c)) && nsubset (snd st) keys &&
                     match snd st with [] => false | _ => true end) (fst tr) &&
  Nat.eqb (length (snd tr)) (length keys) &&
  forallb (fun kd => match snd kd with
                     | None => true
                     | Some (_, b) => match nth_error (fst tr) b with
                                      | Some st => nmem (fst kd) (snd st)
                                      | None => false end
                     end) (combine keys (snd tr)).

Definition keys_on (l : nat) (plan : list lev) : list nat :=
  flat_map (fun s => match s with
                     | LSeg l' sc => if Nat.eqb l l' then call_keys sc else []
                     | LClose _ => [] end) plan.

Definition ok (c : case) : bool :=
  match c with
  | CCache kind pf evs d1 d2 =>
      list_eqb Case_C14.obs_eqb d1 d2 && Case_C14.ok (C14 kind pf evs d2)
  | CCache2 evs0 evs1 d0 e0 d1 e1 =>
      list_eqb Case_C14.obs_eqb d0 e0 && list_eqb Case_C14.obs_eqb d1 e1 &&
      Case_C14.ok (C14 KDefault false evs0 e0) && Case_C14.ok (C14 KDefault false evs1 e1)
  | CBuffer2 t sc d0 e0 d1 e1 =>
      let T := match t with Some v => v | None => buf_default_timeout end in
      flushes_eqb d0 e0 && flushes_eqb d1 e1 &&
      buffer_ok T (bproj 0 sc) e0 && buffer_ok T (bproj 1 sc) e1
  | CBatcher2 cfg sc d0 e0 d1 e1 =>
      btrace_eqb d0 e0 && btrace_eqb d1 e1 &&
      batcher_sane (resolve cfg) (call_keys (cproj 0 sc)) e0 &&
      batcher_sane (resolve cfg) (call_keys (cproj 1 sc)) e1
  | CFormsBuf d1 d2 d3 => flushes_eqb d1 d2 && flushes_eqb d3 d2
  | CFormsBat d1 d2 d3 cross => btrace_eqb d1 d2 && btrace_eqb d3 d2 && Nat.eqb cross 0
  | CBuffer t sc d1 d2 d3 =>
      flushes_eqb d1 d2 && flushes_eqb d3 d2 &&
      buffer_ok (match t with Some v => v | None => buf_default_timeout end) sc d2
  | CBatcher cfg sc d1 d2 d3 cross =>
      btrace_eqb d1 d2 && btrace_eqb d3 d2 && Nat.eqb cross 0 &&
      batcher_sane (resolve cfg) (call_keys sc) d2
  | CLoops cfg plan observed solo cross =>
      Nat.eqb cross 0 &&
      forallb (fun lt => batcher_sane (resolve cfg) (keys_on (fst lt) plan) (snd lt)) observed &&
      (* independence: every loop behaves exactly as if it were the only one *)
      Nat.eqb (length observed) (length solo) &&
      forallb (fun lt => match assoc (fst lt) solo with
                         | Some t => btrace_eqb (snd lt) t
                         | None => false end) observed
  end.

(* ---- non-trivial: the script discriminates the configuration -------------- *)
Definition ocfg_is_default (o : ocfg) : bool :=
  match oB o, oC o, obt o, oR o with None, None, None, None => true | _, _, _, _ => false end.

Definition nontrivial (c : case) : bool :=
  match c with
  | CCache kind pf evs d1 d2 => Case_C14.nontrivial (C14 kind pf evs d2)
  | CCache2 evs0 evs1 d0 e0 d1 e1 =>
      Case_C14.nontrivial (C14 KDefault false evs0 e0) && Case_C14.nontrivial (C14 KDefault false evs1 e1)
  | CBuffer2 t sc d0 e0 d1 e1 =>
      match e0 with [] => false | _ => true end && match e1 with [] => false | _ => true end
  | CBatcher2 cfg sc d0 e0 d1 e1 =>
      match fst e0 with [] => false | _ => true end && match fst e1 with [] => false | _ => true end
  | CFormsBuf d1 d2 d3 =>
      match d1, d2, d3 with [], [], [] => false | _, _, _ => true end
  | CFormsBat d1 d2 d3 cross =>
      match fst d1, fst d2, fst d3 with [], [], [] => false | _, _, _ => true end
  | CBuffer t sc d1 d2 d3 =>
      match d2 with [] => false | _ => true end &&
      match t with Some _ => negb (flushes_eqb (buf_trace t sc) (buf_trace None sc)) | None => true end
  | CBatcher cfg sc d1 d2 d3 cross =>
      match fst d2 with [] => false | _ => true end &&
      existsb (fun d => match d with Some _ => true | None => false end) (snd d2) &&
      (ocfg_is_default cfg ||
       negb (btrace_eqb (trace_of (brun (resolve cfg) sc)) (trace_of (brun default_cfg sc))))
  | CLoops cfg plan observed solo cross =>
      2 <=? length (filter (fun lt => match fst (snd lt) with [] => false | _ => true end) observed)
  end.

Definition verdict := verdict3 agree ok nontrivial.
