(* XLoopProg.v — liveness of the cross-loop model in no-deadlock form: in every reachable
   state in which some caller has not completed, some productive operation is enabled —
   provided no caller ever scheduled its awaitable on a BORROWED loop (K1's scenario
   class); the three unconditional cases (own loop / loop_in_thread / everybody borrows);
   the K1 witness; the loop_in_thread contract. *)
From Coq Require Import List Arith NArith Bool Lia.
Import ListNotations.
Require Import Aiuti.XLoop Aiuti.XLoopInv Aiuti.XLoopLive.

(* ---- some productive event is enabled ------------------------------------------ *)
Definition can_move (c : cfg) (s : state) : Prop :=
  exists e, In e (cands c s) /\ step c s e <> None /\ productive e = true.

Lemma can_move_penabled : forall c s, can_move c s -> penabled c s <> [].
Proof.
  intros c s (e & Hin & Hs & Hp) Hnil.
  assert (In e (penabled c s)).
  { unfold penabled, enabled. apply filter_In. split; auto. apply filter_In. split; auto.
    unfold accepts1. destruct (step c s e); congruence. }
  rewrite Hnil in H. contradiction.
Qed.

Lemma in_tag : forall t o l, In o l -> In (t, o) (tag t l).
Proof. intros. unfold tag. apply in_map_iff. eauto. Qed.

Lemma in_cands_m : forall c s o, In o (cands_m s) -> In (TM, o) (cands c s).
Proof. intros. unfold cands. apply in_or_app. left. now apply in_tag. Qed.
Lemma in_cands_jm : forall c s o, In o (cands_job c s TJM) -> In (TJM, o) (cands c s).
Proof. intros. unfold cands. apply in_or_app. right. apply in_or_app. left. now apply in_tag. Qed.
Lemma in_cands_c : forall c s i o, i < c_n c -> In o (cands_c c s i) -> In (TC i, o) (cands c s).
Proof.
  intros. unfold cands. apply in_or_app. right. apply in_or_app. right. apply in_or_app. left.
  apply in_flat_map. exists i. split; [apply in_seq; lia|]. apply in_or_app. left. now apply in_tag.
Qed.
Lemma in_cands_j : forall c s i o, i < c_n c -> In o (cands_job c s (TJ i)) -> In (TJ i, o) (cands c s).
Proof.
  intros. unfold cands. apply in_or_app. right. apply in_or_app. right. apply in_or_app. left.
  apply in_flat_map. exists i. split; [apply in_seq; lia|]. apply in_or_app. right. now apply in_tag.
Qed.
Lemma in_cands_clk : forall c s o, In o (cands_clk c s) -> In (TClk, o) (cands c s).
Proof.
  intros. unfold cands. apply in_or_app. right. apply in_or_app. right. apply in_or_app. right. now apply in_tag.
Qed.
Lemma in_loop_cands : forall c i, i < c_n c ->
  In (OStart i true) (loop_cands c) /\ In (OFin i true) (loop_cands c) /\ In (ODlv i) (loop_cands c).
Proof.
  intros c i Hi. unfold loop_cands. repeat split; apply in_flat_map; exists i; (split; [apply in_seq; lia|simpl; auto]).
Qed.

(* a valid job thread: TJM or TJ i with i < n *)
Definition jobt (c : cfg) (t : tid) : Prop := t = TJM \/ exists i, t = TJ i /\ i < c_n c.
Lemma in_cands_job : forall c s t o, jobt c t -> In o (cands_job c s t) -> In (t, o) (cands c s).
Proof. intros c s t o [-> | (i & -> & Hi)] H; [now apply in_cands_jm|now apply in_cands_j]. Qed.
Lemma step_jobt : forall c s t o, jobt c t -> step c s (t, o) = step_job c s t o.
Proof.
  intros c s t o [-> | (i & -> & Hi)]; simpl; auto. apply Nat.ltb_lt in Hi. now rewrite Hi.
Qed.

Lemma productive_job : forall c t o, jobt c t -> productive (t, o) = true.
Proof. intros c t o [-> | (i & -> & _)]; reflexivity. Qed.
Ltac mv e := exists e; split; [|split; [|try reflexivity; try (eapply productive_job; eassumption)]].

Definition jfree (p : jph) : bool :=
  match p with JStart | JCin | JCmk | JCrel _ | JHold _ | JBad _ | JPost _ _ | JRel _ | JFin => true | _ => false end.

Lemma job_free_moves : forall c s t, Inv c s -> InvB c s -> jobt c t -> jfree (jp s t) = true -> can_move c s.
Proof.
  intros c s t HI HB Ht Hf.
  pose proof (l_a _ _ HI t) as La.
  destruct (jp s t) eqn:E; try discriminate Hf.
  - (* JStart *) mv (t, OTbl (tbl s)).
    + apply in_cands_job; auto. unfold cands_job. rewrite E. simpl; auto.
    + rewrite step_jobt; auto. unfold step_job. rewrite E.
      assert (Q : optnat_eqb (tbl s) (tbl s) = true) by (apply optnat_eqb_eq; reflexivity). rewrite Q.
      destruct (tbl s); discriminate.
  - (* JCin *) mv (t, OTbl (tbl s)).
    + apply in_cands_job; auto. unfold cands_job. rewrite E. simpl; auto.
    + rewrite step_jobt; auto. unfold step_job. rewrite E.
      assert (Q : optnat_eqb (tbl s) (tbl s) = true) by (apply optnat_eqb_eq; reflexivity). rewrite Q.
      destruct (tbl s); discriminate.
  - (* JCmk *) mv (t, OMklock (S (nlocks s))).
    + apply in_cands_job; auto. unfold cands_job. rewrite E. simpl; auto.
    + rewrite step_jobt; auto. unfold step_job. rewrite E. rewrite Nat.eqb_refl. discriminate.
  - (* JCrel *) mv (t, ORel 0).
    + apply in_cands_job; auto. unfold cands_job. rewrite E. simpl; auto.
    + rewrite step_jobt; auto. unfold step_job. rewrite E.
      assert (Q : owned_by s 0 t = true) by (apply owned_by_eq; apply La; reflexivity). rewrite Q. discriminate.
  - (* JHold *) pose proof (hold_idle _ _ _ _ HI E) as Hi.
    mv (t, OEnter 0).
    + apply in_cands_job; auto. unfold cands_job. rewrite E, Hi. simpl; auto.
    + rewrite step_jobt; auto. unfold step_job. rewrite E. unfold running. rewrite Hi. simpl.
      destruct Ht as [-> | (i & -> & _)]; discriminate.
  - (* JBad *) mv (t, OExit).
    + apply in_cands_job; auto. unfold cands_job. rewrite E. simpl; auto.
    + rewrite step_jobt; auto. unfold step_job. rewrite E. discriminate.
  - (* JPost *) mv (t, ORel l).
    + apply in_cands_job; auto. unfold cands_job. rewrite E. simpl; auto.
    + rewrite step_jobt; auto. unfold step_job. rewrite E. rewrite Nat.eqb_refl.
      assert (Q : owned_by s l t = true) by (apply owned_by_eq; apply La; reflexivity). rewrite Q. simpl.
      destruct Ht as [-> | (i & -> & _)]; discriminate.
  - (* JRel *) destruct Ht as [-> | (i & -> & Hi)].
    + exfalso. exact (j_m _ _ HB _ E).
    + assert (Hc : cp s i = CPwait) by (apply (x_2b _ _ HB); rewrite E; reflexivity).
      mv (TJ i, ODlv i).
      * apply in_cands_j; auto. unfold cands_job. rewrite E. simpl; auto.
      * simpl. apply Nat.ltb_lt in Hi. rewrite Hi. unfold step_job. rewrite E, Nat.eqb_refl, Hc.
        destruct f; discriminate.
  - (* JFin *) mv (t, OJobend).
    + apply in_cands_job; auto. unfold cands_job. rewrite E. simpl; auto.
    + rewrite step_jobt; auto. unfold step_job. rewrite E. discriminate.
Qed.

Lemma job_acq_moves : forall c s t, jobt c t ->
  (jp s t = JCwait /\ owner s 0 = None) \/ (exists l, jp s t = JAcq l /\ owner s l = None) -> can_move c s.
Proof.
  intros c s t Ht [[E Ho] | (l & E & Ho)].
  - mv (t, OAcq 0).
    + apply in_cands_job; auto. unfold cands_job. rewrite E. simpl; auto.
    + rewrite step_jobt; auto. unfold step_job. rewrite E, Ho. discriminate.
  - mv (t, OAcq l).
    + apply in_cands_job; auto. unfold cands_job. rewrite E. simpl; auto.
    + rewrite step_jobt; auto. unfold step_job. rewrite E, Nat.eqb_refl, Ho. discriminate.
Qed.

(* t is in a position to step the tasks of L *)
Definition runpos (c : cfg) (s : state) (t : tid) : Prop :=
  (jobt c t /\ exists l, jp s t = JRun l) \/
  (exists k, t = TC k /\ k < c_n c /\ (cp s k = COwn \/ cp s k = COwnDone)).

Lemma runpos_inside : forall c s t, Inv c s -> runpos c s t -> inside s = [t].
Proof.
  intros c s t HI [[Ht (l & E)] | (k & -> & Hk & E)]; apply (i_2 _ _ HI).
  - destruct Ht as [-> | (i & -> & _)]; simpl; now rewrite E.
  - simpl. destruct E as [-> | ->]; reflexivity.
Qed.

Definition is_loop_op (o : op) : Prop :=
  match o with OStart _ true | OFin _ true | ODlv _ => True | _ => False end.
Definition loop_op_idx (o : op) : nat := match o with OStart i _ | OFin i _ | ODlv i => i | _ => 0 end.

Lemma runpos_loop : forall c s t o, runpos c s t -> is_loop_op o -> loop_op_idx o < c_n c ->
  In (t, o) (cands c s) /\ step c s (t, o) = loop_ev c s o /\ productive (t, o) = true.
Proof.
  intros c s t o R Ho Hi.
  assert (Hin : In o (loop_cands c)).
  { destruct (in_loop_cands c _ Hi) as (A & B & C).
    destruct o; simpl in Ho; try contradiction; try (destruct onl; try contradiction); simpl in *; auto. }
  destruct R as [[Ht (l & E)] | (k & -> & Hk & E)].
  - split; [|split].
    + apply in_cands_job; auto. unfold cands_job. rewrite E. right. exact Hin.
    + rewrite step_jobt; auto. unfold step_job. rewrite E.
      destruct o; simpl in Ho; try contradiction; reflexivity.
    + eapply productive_job; eauto.
  - split; [|split].
    + apply in_cands_c; auto. unfold cands_c. destruct E as [-> | ->].
      * apply in_or_app. right. exact Hin.
      * right. exact Hin.
    + simpl. apply Nat.ltb_lt in Hk. rewrite Hk. unfold step_c.
      destruct E as [-> | ->]; destruct o; simpl in Ho; try contradiction; reflexivity.
    + reflexivity.
Qed.

Lemma aw_progress : forall c s t i, Inv c s -> runpos c s t -> i < c_n c ->
  (aw s i = AwSched \/ exists w, aw s i = AwRun w) -> can_move c s.
Proof.
  intros c s t i HI R Hi [E | (w & E)].
  - destruct (runpos_loop c s t (OStart i true) R I Hi) as (A & B & C).
    mv (t, OStart i true); auto. rewrite B. simpl. apply Nat.ltb_lt in Hi. rewrite Hi, E. discriminate.
  - destruct (due w (now s)) eqn:D.
    + destruct (runpos_loop c s t (OFin i true) R I Hi) as (A & B & C).
      mv (t, OFin i true); auto. rewrite B. simpl. apply Nat.ltb_lt in Hi. rewrite Hi, E, D. discriminate.
    + destruct w as [w|]; [|discriminate]. simpl in D. apply N.leb_gt in D.
      mv (TClk, OAdv w).
      * apply in_cands_clk. unfold cands_clk. apply in_flat_map. exists i. split; [apply in_seq; lia|].
        rewrite E. simpl; auto.
      * simpl. unfold running. rewrite (runpos_inside _ _ _ HI R).
        assert (Q : N.ltb (now s) w = true) by (apply N.ltb_lt; exact D). rewrite Q. simpl.
        assert (Q2 : existsb (sleeping_until s w) (seq 0 (c_n c)) = true).
        { apply existsb_exists. exists i. split; [apply in_seq; lia|]. unfold sleeping_until. rewrite E. apply N.eqb_refl. }
        rewrite Q2. discriminate.
Qed.

Lemma xwait_served : forall c s t i, Inv c s -> InvB c s -> runpos c s t -> i < c_n c ->
  cp s i = CXwait -> can_move c s.
Proof.
  intros c s t i HI HB R Hi E.
  pose proof (x_1 _ _ HB i (or_introl E)) as X.
  destruct (aw s i) eqn:Ea; try congruence.
  - eapply aw_progress; eauto.
  - eapply aw_progress; eauto.
  - destruct (runpos_loop c s t (ODlv i) R I Hi) as (A & B & C).
    mv (t, ODlv i); auto. rewrite B. simpl. apply Nat.ltb_lt in Hi. rewrite Hi, E, Ea. discriminate.
Qed.

Lemma borrower_moves : forall c s k l, Inv c s -> InvB c s -> k < c_n c -> jp s (TJ k) = JRun l -> can_move c s.
Proof.
  intros c s k l HI HB Hk E.
  assert (R : runpos c s (TJ k)) by (left; split; [right; eauto|eauto]).
  assert (X : aw s k <> AwNew) by (apply (x_1 _ _ HB); eauto).
  destruct (aw s k) eqn:Ea; try congruence.
  - eapply aw_progress; eauto.
  - eapply aw_progress; eauto.
  - mv (TJ k, OExit).
    + apply in_cands_j; auto. unfold cands_job. rewrite E. left. reflexivity.
    + simpl. apply Nat.ltb_lt in Hk. rewrite Hk. unfold step_job. rewrite E, Ea. discriminate.
Qed.

Lemma own_moves : forall c s k, Inv c s -> InvB c s -> k < c_n c -> cp s k = COwn -> can_move c s.
Proof.
  intros c s k HI HB Hk E.
  assert (R : runpos c s (TC k)) by (right; exists k; auto).
  assert (X : aw s k <> AwNew) by (apply (x_1 _ _ HB); eauto).
  destruct (aw s k) eqn:Ea; try congruence.
  - eapply aw_progress; eauto.
  - eapply aw_progress; eauto.
  - pose proof (r_1 _ _ HI k) as R1. rewrite Ea in R1.
    mv (TC k, ODone k (expected c k)).
    + apply in_cands_c; auto. unfold cands_c. rewrite E, R1. left. reflexivity.
    + simpl. apply Nat.ltb_lt in Hk. rewrite Hk. unfold step_c. rewrite E, Nat.eqb_refl, Ea, R1.
      assert (Q : optout_eqb (Some (expected c k)) (expected c k) = true) by (apply optout_eqb_eq; reflexivity).
      rewrite Q. discriminate.
Qed.

Definition cfree (p : cph) : bool := match p with CXchk | CPsub | CClosedP | CGot => true | _ => false end.

Lemma caller_free_moves : forall c s i, Inv c s -> i < c_n c -> cfree (cp s i) = true -> can_move c s.
Proof.
  intros c s i HI Hi Hf. pose proof Hi as Hlt. apply Nat.ltb_lt in Hlt.
  destruct (cp s i) eqn:E; try discriminate Hf.
  - mv (TC i, OCst).
    + apply in_cands_c; auto. unfold cands_c. rewrite E. simpl; auto.
    + simpl. rewrite Hlt. unfold step_c. rewrite E. discriminate.
  - mv (TC i, OSubmit (TJ i)).
    + apply in_cands_c; auto. unfold cands_c. rewrite E. simpl; auto.
    + simpl. rewrite Hlt. unfold step_c. rewrite E, Nat.eqb_refl. discriminate.
  - mv (TC i, ODone i (KLibRT, 0)).
    + apply in_cands_c; auto. unfold cands_c. rewrite E. simpl; auto.
    + simpl. rewrite Hlt. unfold step_c. rewrite E, Nat.eqb_refl. simpl. discriminate.
  - pose proof (r_2 _ _ HI i E) as R2.
    mv (TC i, ODone i (expected c i)).
    + apply in_cands_c; auto. unfold cands_c. rewrite E, R2. simpl; auto.
    + simpl. rewrite Hlt. unfold step_c. rewrite E, Nat.eqb_refl, R2.
      assert (Q : optout_eqb (Some (expected c i)) (expected c i) = true) by (apply optout_eqb_eq; reflexivity).
      rewrite Q. discriminate.
Qed.

Definition is_own (c : cfg) (i : nat) : bool := match c_mode c with MOwn => Nat.eqb i 0 | _ => false end.

Lemma begun_moves : forall c s i, i < c_n c -> cp s i = CBegun ->
  (is_own c i = false \/ inside s = []) -> can_move c s.
Proof.
  intros c s i Hi E H. pose proof Hi as Hlt. apply Nat.ltb_lt in Hlt.
  destruct (is_own c i) eqn:Eo.
  - destruct H as [H|H]; [discriminate|].
    mv (TC i, OEnter 0).
    + apply in_cands_c; auto. unfold cands_c. rewrite E. simpl; auto.
    + simpl. rewrite Hlt. unfold step_c. rewrite E. unfold is_own in Eo. rewrite Eo. unfold running. rewrite H. discriminate.
  - mv (TC i, OChk (running s)).
    + apply in_cands_c; auto. unfold cands_c. rewrite E. simpl; auto.
    + simpl. rewrite Hlt. unfold step_c. rewrite E. unfold is_own in Eo. rewrite Eo.
      assert (Q : bool_eqb (running s) (running s) = true) by (apply bool_eqb_eq; reflexivity).
      rewrite Q. simpl. destruct (running s); [discriminate|]. destruct (c_mode c); discriminate.
Qed.

Lemma init_moves : forall c s i, i < c_n c -> cp s i = CInit ->
  match c_mode c with MForever => mlit (mp s) | MOwn => Nat.eqb i 0 || running s | _ => true end = true ->
  can_move c s.
Proof.
  intros c s i Hi E G. pose proof Hi as Hlt. apply Nat.ltb_lt in Hlt.
  mv (TC i, OBegin).
  - apply in_cands_c; auto. unfold cands_c. rewrite E. simpl; auto.
  - simpl. rewrite Hlt. unfold step_c. rewrite E, G. discriminate.
Qed.

(* the user of loop_in_thread *)
Lemma m_moves : forall c s,
  mp s = M0 \/ mp s = MSleep \/ mp s = MLit \/ mp s = MStop \/ mp s = MRet \/
  (mp s = MSpin /\ running s = true) \/ (mp s = MJoin /\ jp s TJM = JEnd) ->
  can_move c s.
Proof.
  intros c s H.
  destruct H as [E|[E|[E|[E|[E|[[E R]|[E J]]]]]]].
  - mv (TM, OSubmit TJM); [apply in_cands_m; unfold cands_m; rewrite E; simpl; auto|].
    simpl. unfold step_m. rewrite E. discriminate.
  - mv (TM, OSleep); [apply in_cands_m; unfold cands_m; rewrite E; simpl; auto|].
    simpl. unfold step_m. rewrite E. discriminate.
  - mv (TM, OLitret (running s)); [apply in_cands_m; unfold cands_m; rewrite E; simpl; auto|].
    simpl. unfold step_m. rewrite E.
    assert (Q : bool_eqb (running s) (running s) = true) by (apply bool_eqb_eq; reflexivity). rewrite Q. discriminate.
  - mv (TM, OCst); [apply in_cands_m; unfold cands_m; rewrite E; simpl; auto|].
    simpl. unfold step_m. rewrite E. discriminate.
  - mv (TM, OStopret (running s) (match jp s TJM with JEnd => true | _ => false end)).
    + apply in_cands_m; unfold cands_m; rewrite E; simpl; auto.
    + simpl. unfold step_m. rewrite E.
      assert (Q : bool_eqb (running s) (running s) = true) by (apply bool_eqb_eq; reflexivity). rewrite Q.
      assert (Q2 : forall b, bool_eqb b b = true) by (intros b; apply bool_eqb_eq; reflexivity). rewrite Q2. discriminate.
  - exists (TM, OChk true). split; [|split].
    + apply in_cands_m; unfold cands_m; rewrite E, R; simpl; auto.
    + simpl. unfold step_m. rewrite E, R. simpl. discriminate.
    + reflexivity.
  - mv (TM, OJoin); [apply in_cands_m; unfold cands_m; rewrite E; simpl; auto|].
    simpl. unfold step_m. rewrite E, J. discriminate.
Qed.

(* ---- finite searches over the threads ------------------------------------------- *)
Definition job_tids (c : cfg) : list tid := TJM :: map TJ (seq 0 (c_n c)).
Lemma in_job_tids : forall c t, In t (job_tids c) <-> jobt c t.
Proof.
  intros c t. unfold job_tids, jobt. simpl. rewrite in_map_iff. split.
  - intros [<- | (i & <- & Hi)]; auto. right. exists i. split; auto. apply in_seq in Hi. lia.
  - intros [-> | (i & -> & Hi)]; auto. right. exists i. split; auto. apply in_seq. lia.
Qed.

Definition findj (c : cfg) (s : state) (p : jph -> bool) : option tid :=
  find (fun t => p (jp s t)) (job_tids c).
Lemma findj_some : forall c s p t, findj c s p = Some t -> jobt c t /\ p (jp s t) = true.
Proof. intros c s p t H. apply find_some in H as [H1 H2]. split; auto. now apply in_job_tids. Qed.
Lemma findj_none : forall c s p, findj c s p = None -> forall t, jobt c t -> p (jp s t) = false.
Proof. intros c s p H t Ht. apply (find_none _ _ H). now apply in_job_tids. Qed.

Definition findc (c : cfg) (s : state) (p : cph -> bool) : option nat :=
  find (fun i => p (cp s i)) (seq 0 (c_n c)).
Lemma findc_some : forall c s p i, findc c s p = Some i -> i < c_n c /\ p (cp s i) = true.
Proof. intros c s p i H. apply find_some in H as [H1 H2]. split; auto. apply in_seq in H1. lia. Qed.
Lemma findc_none : forall c s p, findc c s p = None -> forall i, i < c_n c -> p (cp s i) = false.
Proof. intros c s p H i Hi. apply (find_none _ _ H). apply in_seq. lia. Qed.

Definition is_jcwait p := match p with JCwait => true | _ => false end.
Definition is_jrun p := match p with JRun _ => true | _ => false end.
Definition is_jacq p := match p with JAcq _ => true | _ => false end.
Definition is_cxwait p := match p with CXwait => true | _ => false end.
Definition is_cbegun p := match p with CBegun => true | _ => false end.
Definition is_cinit p := match p with CInit => true | _ => false end.
Definition is_cown p := match p with COwn => true | _ => false end.

(* the hypothesis that excludes K1's scenario class: no caller ever saw L "running"
   while a BORROWER (a TJ thread) ran it *)
Definition no_foreign_submit_to_borrowed_loop (s : state) : Prop :=
  forall i k, xsub s i <> Some (TJ k).

Lemma lock_free : forall c s l, Inv c s ->
  (forall t, jobt c t -> jfree (jp s t) = false) ->
  (forall t, jobt c t -> is_jrun (jp s t) = false) ->
  owner s l = None.
Proof.
  intros c s l HI F1 F3. destruct (owner s l) as [u|] eqn:Eo; auto. exfalso.
  pose proof (l_b _ _ HI u l Eo) as Hh.
  assert (Hn : jp s u <> JNone) by (intros Q; rewrite Q in Hh; discriminate).
  assert (Hu : jobt c u) by (apply (d_j _ _ HI); exact Hn).
  specialize (F1 u Hu). specialize (F3 u Hu).
  destruct (jp s u); simpl in *; discriminate.
Qed.

Lemma lock0_free : forall c s, Inv c s ->
  (forall t, jobt c t -> jfree (jp s t) = false) -> owner s 0 = None.
Proof.
  intros c s HI F1. destruct (owner s 0) as [u|] eqn:Eo; auto. exfalso.
  pose proof (l_b _ _ HI u 0 Eo) as Hh.
  assert (Hn : jp s u <> JNone) by (intros Q; rewrite Q in Hh; discriminate).
  assert (Hu : jobt c u) by (apply (d_j _ _ HI); exact Hn).
  specialize (F1 u Hu).
  assert (T : forall l, lockof (jp s u) = Some l -> l = 1).
  { intros l Hl. pose proof (t_1 _ _ HI u l Hl) as Q. pose proof (t_2 _ _ HI) as T2. rewrite Q in T2. tauto. }
  destruct (jp s u); simpl in *; try discriminate; injection Hh as ->; specialize (T 0 eq_refl); discriminate.
Qed.

(* the forever-thread runs L and no stop is pending *)
Lemma forever_case : forall c s l i0, Inv c s -> InvB c s ->
  jp s TJM = JRun l -> stopp s = false ->
  i0 < c_n c -> completedb s i0 = false -> can_move c s.
Proof.
  intros c s l i0 HI HB E Hst Hi0 Hc0.
  assert (R : runpos c s TJM) by (left; split; [left; reflexivity|eauto]).
  pose proof (runpos_inside _ _ _ HI R) as Hin.
  assert (Hrun : running s = true) by (unfold running; rewrite Hin; reflexivity).
  assert (Hmode : c_mode c <> MOwn).
  { intros Em. pose proof (o_1 _ _ HI Em TJM). congruence. }
  destruct (findc c s is_cxwait) as [i|] eqn:F1.
  { apply findc_some in F1 as [Hi Hp]. eapply xwait_served; eauto. destruct (cp s i); try discriminate; reflexivity. }
  destruct (findc c s cfree) as [i|] eqn:F2.
  { apply findc_some in F2 as [Hi Hp]. eapply caller_free_moves; eauto. }
  destruct (findc c s is_cbegun) as [i|] eqn:F3.
  { apply findc_some in F3 as [Hi Hp]. eapply begun_moves; eauto.
    - destruct (cp s i); try discriminate; reflexivity.
    - left. unfold is_own. destruct (c_mode c); auto; congruence. }
  assert (Hm0 : mp s <> MNone /\ mp s <> M0).
  { split; intros Q; pose proof (p_m _ _ HI) as Pm; rewrite Q in Pm; rewrite Pm in E; auto; discriminate. }
  destruct Hm0 as [Hm0 Hm1].
  destruct (findc c s is_cinit) as [i|] eqn:F4.
  { apply findc_some in F4 as [Hi Hp].
    assert (Ei : cp s i = CInit) by (destruct (cp s i); try discriminate; reflexivity).
    destruct (c_mode c) eqn:Em; try (eapply init_moves; eauto; rewrite Em; reflexivity); try congruence.
    destruct (mlit (mp s)) eqn:Hl; [eapply init_moves; eauto; rewrite Em; exact Hl|].
    apply m_moves. destruct (mp s); simpl in Hl; try discriminate; try congruence; auto 10. }
  pose proof (findc_none _ _ _ F1) as N1. pose proof (findc_none _ _ _ F2) as N2.
  pose proof (findc_none _ _ _ F3) as N3. pose proof (findc_none _ _ _ F4) as N4.
  assert (All : forall i, i < c_n c -> completed_or_pwait s i = true).
  { intros i Hi. specialize (N1 i Hi). specialize (N2 i Hi). specialize (N3 i Hi). specialize (N4 i Hi).
    destruct (o_3 _ _ HI i) as [O1 O2]; [left; exact Hmode|].
    unfold completed_or_pwait. destruct (cp s i); simpl in *; try discriminate; try congruence; auto. }
  assert (Ep : cp s i0 = CPwait).
  { specialize (All i0 Hi0). unfold completed_or_pwait, completedb in *. destruct (cp s i0); try discriminate; auto. }
  destruct (mp s) eqn:Em; try congruence.
  - apply m_moves. rewrite Em. auto 10.
  - apply m_moves. rewrite Em. auto 10.
  - apply m_moves. rewrite Em. auto 10.
  - (* MWait: the stop() guard holds *)
    assert (Hrace : c_mode c = MRace).
    { pose proof (m_none _ _ HI) as Mn. rewrite Em in Mn.
      destruct (c_mode c) eqn:Emode; try congruence; auto.
      destruct (f_6 _ _ HB Emode i0). congruence. }
    mv (TM, OWait).
    + apply in_cands_m. unfold cands_m. rewrite Em. simpl; auto.
    + simpl. unfold step_m. rewrite Em, Hrace, Hin.
      assert (Q : forallb (completed_or_pwait s) (seq 0 (c_n c)) = true).
      { apply forallb_forall. intros i Hi. apply All. apply in_seq in Hi. lia. }
      rewrite Q. rewrite orb_true_r. discriminate.
  - apply m_moves. rewrite Em. auto 10.
  - exfalso. destruct (s_1 _ _ HB) as [Q|Q]; [rewrite Em; reflexivity|congruence|rewrite E in Q; discriminate].
  - exfalso. pose proof (s_5 _ _ HB) as Q. rewrite Em in Q. rewrite Q in E; auto. discriminate.
  - exfalso. pose proof (s_5 _ _ HB) as Q. rewrite Em in Q. rewrite Q in E; auto. discriminate.
Qed.

(* no pool thread is active: every job is JNone or JEnd *)
Lemma idle_jobs_case : forall c s i0, Inv c s -> InvB c s -> no_foreign_submit_to_borrowed_loop s ->
  (forall t, jobt c t -> jp s t = JNone \/ jp s t = JEnd) ->
  i0 < c_n c -> completedb s i0 = false -> can_move c s.
Proof.
  intros c s i0 HI HB NK J Hi0 Hc0.
  assert (NJ : forall t, runsb s t = true -> exists k, t = TC k).
  { intros t Rt. destruct t; simpl in Rt; try discriminate; eauto.
    - destruct (J TJM) as [Q|Q]; [left; reflexivity| |]; rewrite Q in Rt; discriminate.
    - destruct (Nat.lt_ge_cases i (c_n c)) as [Hi|Hi].
      + destruct (J (TJ i)) as [Q|Q]; [right; eauto| |]; rewrite Q in Rt; discriminate.
      + destruct (jp s (TJ i)) eqn:Ej; try discriminate;
          destruct (d_j _ _ HI (TJ i)) as [Q|(k & Q & Hk)]; try congruence; injection Q as <-; lia. }
  destruct (findc c s cfree) as [i|] eqn:F2.
  { apply findc_some in F2 as [Hi Hp]. eapply caller_free_moves; eauto. }
  destruct (findc c s is_cown) as [i|] eqn:F5.
  { apply findc_some in F5 as [Hi Hp]. eapply own_moves; eauto. destruct (cp s i); try discriminate; reflexivity. }
  pose proof (findc_none _ _ _ F2) as N2. pose proof (findc_none _ _ _ F5) as N5.
  (* who is inside L?  nobody, or the own caller in COwnDone *)
  assert (Hins : inside s = [] \/ exists k, k < c_n c /\ cp s k = COwnDone /\ inside s = [TC k]).
  { destruct (inside s) as [|t r] eqn:Ei; auto. right.
    pose proof (i_1 _ _ HI t) as I1. rewrite Ei in I1. specialize (I1 (or_introl eq_refl)).
    pose proof (i_2 _ _ HI t I1) as I2. rewrite Ei in I2.
    destruct (NJ t I1) as (k & ->). exists k. simpl in I1.
    assert (Hk : k < c_n c).
    { destruct (Nat.lt_ge_cases k (c_n c)); auto. rewrite (d_c _ _ HI k) in I1; auto. discriminate. }
    specialize (N5 k Hk). destruct (cp s k); simpl in *; try discriminate; auto. }
  destruct (findc c s is_cbegun) as [i|] eqn:F3.
  { apply findc_some in F3 as [Hi Hp].
    assert (Ei : cp s i = CBegun) by (destruct (cp s i); try discriminate; reflexivity).
    eapply begun_moves; eauto.
    destruct (is_own c i) eqn:Eo; auto. right.
    destruct Hins as [H|(k & Hk & Ek & H)]; auto. exfalso.
    unfold is_own in Eo. destruct (c_mode c) eqn:Em; try discriminate. apply Nat.eqb_eq in Eo. subst i.
    destruct k; [congruence|]. destruct (o_3 _ _ HI (S k)) as [_ Q]; [right; congruence|]. congruence. }
  destruct (findc c s is_cxwait) as [i|] eqn:F1.
  { apply findc_some in F1 as [Hi Hp].
    assert (Ei : cp s i = CXwait) by (destruct (cp s i); try discriminate; reflexivity).
    assert (Hx : xphase (cp s i) = true) by (rewrite Ei; reflexivity).
    destruct (k_0 _ _ HB i Hx) as (t & Hs & Ht).
    destruct t; simpl in Ht; try discriminate.
    - exfalso. destruct (k_m _ _ HB i Hx Hs) as (l & Q).
      destruct (J TJM) as [Q2|Q2]; [left; reflexivity| |]; congruence.
    - pose proof (k_c _ _ HB i i1 Hx Hs) as Q. simpl in Q.
      assert (Hk : i1 < c_n c).
      { destruct (Nat.lt_ge_cases i1 (c_n c)); auto. rewrite (d_c _ _ HI i1) in Q; auto. discriminate. }
      eapply (xwait_served c s (TC i1) i); eauto. right. exists i1. split; auto. split; auto.
      destruct (cp s i1); try discriminate; auto.
    - exfalso. exact (NK i i1 Hs). }
  pose proof (findc_none _ _ _ F3) as N3. pose proof (findc_none _ _ _ F1) as N1.
  destruct (findc c s is_cinit) as [i|] eqn:F4.
  { apply findc_some in F4 as [Hi Hp].
    assert (Ei : cp s i = CInit) by (destruct (cp s i); try discriminate; reflexivity).
    destruct (c_mode c) eqn:Em; try (eapply init_moves; eauto; rewrite Em; reflexivity).
    - (* forever *)
      destruct (mlit (mp s)) eqn:Hl; [eapply init_moves; eauto; rewrite Em; exact Hl|].
      destruct (J TJM) as [Q|Q]; [left; reflexivity| |].
      + pose proof (md_2 _ _ HB Q) as [Q2|Q2].
        * pose proof (m_none _ _ HI) as Mn. rewrite Em in Mn. congruence.
        * apply m_moves. auto.
      + pose proof (s_4 _ _ HB) as S4. rewrite Q in S4. specialize (S4 eq_refl).
        destruct (mp s); simpl in *; discriminate.
    - (* own *)
      destruct (Nat.eqb_spec i 0) as [->|Hn]; [eapply init_moves; eauto; rewrite Em; reflexivity|].
      destruct (running s) eqn:Hr; [eapply init_moves; eauto; rewrite Em, Hr; apply orb_true_r|].
      apply running_false in Hr.
      assert (H0 : 0 < c_n c) by lia.
      pose proof (N2 0 H0) as A2. pose proof (N5 0 H0) as A5. pose proof (N3 0 H0) as A3. pose proof (N1 0 H0) as A1.
      destruct (cp s 0) eqn:E0; simpl in *; try discriminate.
      + eapply (init_moves c s 0); eauto. rewrite Em. reflexivity.
      + exfalso. destruct (o_5 _ _ HI Em 0) as (_ & Q & _). congruence.
      + exfalso. assert (Rr : runsb s (TC 0) = true) by (simpl; rewrite E0; reflexivity).
        pose proof (i_2 _ _ HI _ Rr). congruence.
      + exfalso. pose proof (o_4 _ _ HB Em E0 i Hi) as Q. unfold completedb in Q. rewrite Ei in Q. discriminate. }
  pose proof (findc_none _ _ _ F4) as N4.
  (* every caller is CPwait, COwnDone or CDone; i0 must be CPwait, but its job is not active *)
  exfalso.
  specialize (N1 i0 Hi0). specialize (N2 i0 Hi0). specialize (N3 i0 Hi0). specialize (N4 i0 Hi0). specialize (N5 i0 Hi0).
  unfold completedb in Hc0.
  destruct (cp s i0) eqn:E0; simpl in *; try discriminate.
  pose proof (x_2a _ _ HB i0 E0) as Q.
  destruct (J (TJ i0)) as [Q2|Q2]; [right; eauto| |]; rewrite Q2 in Q; discriminate.
Qed.

Theorem progress_general : forall c s i0, Inv c s -> InvB c s -> no_foreign_submit_to_borrowed_loop s ->
  i0 < c_n c -> completedb s i0 = false -> can_move c s.
Proof.
  intros c s i0 HI HB NK Hi0 Hc0.
  destruct (findj c s jfree) as [t|] eqn:F1.
  { apply findj_some in F1 as [Ht Hp]. eapply job_free_moves; eauto. }
  pose proof (findj_none _ _ _ F1) as N1.
  pose proof (lock0_free _ _ HI N1) as L0.
  destruct (findj c s is_jcwait) as [t|] eqn:F2.
  { apply findj_some in F2 as [Ht Hp]. eapply job_acq_moves; eauto. left. split; auto.
    destruct (jp s t); try discriminate; reflexivity. }
  pose proof (findj_none _ _ _ F2) as N2.
  destruct (findj c s is_jrun) as [u|] eqn:F3.
  { apply findj_some in F3 as [Hu Hp].
    assert (exists l, jp s u = JRun l) as (l & E) by (destruct (jp s u); try discriminate; eauto).
    destruct Hu as [-> | (k & -> & Hk)].
    - destruct (stopp s) eqn:Hst.
      + mv (TJM, OExit).
        * apply in_cands_jm. unfold cands_job. rewrite E. left. reflexivity.
        * simpl. unfold step_job. rewrite E, Hst. discriminate.
      + eapply forever_case; eauto.
    - eapply borrower_moves; eauto. }
  pose proof (findj_none _ _ _ F3) as N3.
  destruct (findj c s is_jacq) as [t|] eqn:F4.
  { apply findj_some in F4 as [Ht Hp].
    assert (exists l, jp s t = JAcq l) as (l & E) by (destruct (jp s t); try discriminate; eauto).
    eapply job_acq_moves; eauto. right. exists l. split; auto. eapply lock_free; eauto. }
  pose proof (findj_none _ _ _ F4) as N4.
  eapply idle_jobs_case; eauto.
  intros t Ht. specialize (N1 t Ht). specialize (N2 t Ht). specialize (N3 t Ht). specialize (N4 t Ht).
  destruct (jp s t); simpl in *; try discriminate; auto.
Qed.

(* ---- the statement over accepted logs, and the three unconditional cases ------------ *)

Lemma progress_log : forall c evs s, run c evs = Some s -> no_foreign_submit_to_borrowed_loop s ->
  forall i, i < c_n c -> completedb s i = false -> penabled c s <> [].
Proof.
  intros c evs s H NK i Hi Hc. destruct (InvAB_reach c s) as [HI HB]; [now exists evs|].
  apply can_move_penabled. eapply progress_general; eauto.
Qed.

Lemma nk_own : forall c s, Inv c s -> InvB c s -> c_mode c = MOwn -> no_foreign_submit_to_borrowed_loop s.
Proof. intros c s HI HB Em i k Hx. apply (k_j _ _ HB i k Hx). apply (o_1 _ _ HI Em). Qed.
Lemma nk_forever : forall c s, Inv c s -> InvB c s -> c_mode c = MForever -> no_foreign_submit_to_borrowed_loop s.
Proof. intros c s HI HB Em i k Hx. apply (k_j _ _ HB i k Hx). apply (f_1 _ _ HB Em). Qed.
Lemma nk_closed : forall c s, Inv c s -> InvB c s -> c_mode c = MClosed -> no_foreign_submit_to_borrowed_loop s.
Proof. intros c s HI HB Em i k Hx. apply (k_j _ _ HB i k Hx). apply (c_1 _ _ HI Em). Qed.
Lemma nk_noxsub : forall s, (forall i, xsub s i = None) -> no_foreign_submit_to_borrowed_loop s.
Proof. intros s H i k Hx. rewrite H in Hx. discriminate. Qed.

Lemma completes_mode : forall c evs s, run c evs = Some s ->
  (c_mode c = MOwn \/ c_mode c = MForever \/ c_mode c = MClosed) ->
  forall i, i < c_n c -> completedb s i = false -> penabled c s <> [].
Proof.
  intros c evs s H Hm i Hi Hc. destruct (InvAB_reach c s) as [HI HB]; [now exists evs|].
  eapply progress_log; eauto.
  destruct Hm as [Em|[Em|Em]]; [eapply nk_own|eapply nk_forever|eapply nk_closed]; eauto.
Qed.

Lemma completes_borrow_lemma : forall c evs s, run c evs = Some s ->
  (forall i, xsub s i = None) ->
  forall i, i < c_n c -> completedb s i = false -> penabled c s <> [].
Proof. intros c evs s H Hx. eapply progress_log; eauto. now apply nk_noxsub. Qed.

(* xsub is exactly "the thread inside L when caller i's is_running() answered true" *)
Lemma xsub_meaning : forall c s i b s', step c s (TC i, OChk b) = Some s' ->
  b = running s /\ (b = true -> xsub s' i = hd_error (inside s)) /\ (b = false -> xsub s' i = xsub s i).
Proof.
  intros c s i b s' H. simpl in H. destruct (i <? c_n c); [|discriminate]. unfold step_c in H.
  destruct (cp s i); try discriminate.
  destruct (negb _ && bool_eqb b (running s)) eqn:G; [|discriminate].
  apply andb_prop in G as [_ G]. apply (proj1 (bool_eqb_eq _ _)) in G. split; auto.
  destruct b; split; intros Q; try discriminate.
  - injection H as <-. simpl. now rewrite upd_same.
  - destruct (c_mode c); injection H as <-; reflexivity.
Qed.

(* ---- the loop_in_thread contract ----------------------------------------------------- *)

Lemma litret_forever : forall c s b s', Inv c s -> InvB c s ->
  step c s (TM, OLitret b) = Some s' -> c_mode c = MForever -> b = true /\ inside s = [TJM].
Proof.
  intros c s b s' HI HB H Em. simpl in H. unfold step_m in H.
  destruct (mp s) eqn:E; try discriminate.
  destruct (bool_eqb b (running s)) eqn:G; [|discriminate]. apply (proj1 (bool_eqb_eq _ _)) in G.
  destruct (f_3 _ _ HB Em) as [[l Hl] _]; [rewrite E; auto|].
  assert (R : runsb s TJM = true) by (simpl; rewrite Hl; reflexivity).
  pose proof (i_2 _ _ HI _ R) as Hin. split; auto. subst b. unfold running. now rewrite Hin.
Qed.

Lemma stopret_contract : forall c s r j s', Inv c s -> InvB c s ->
  step c s (TM, OStopret r j) = Some s' ->
  j = true /\ jp s TJM = JEnd /\ ~ In TJM (inside s) /\ r = running s /\
  (c_mode c = MForever -> r = false /\ inside s = []).
Proof.
  intros c s r j s' HI HB H. simpl in H. unfold step_m in H.
  destruct (mp s) eqn:E; try discriminate.
  destruct (bool_eqb r (running s) && bool_eqb j match jp s TJM with JEnd => true | _ => false end) eqn:G; [|discriminate].
  apply andb_prop in G as [G1 G2]. apply (proj1 (bool_eqb_eq _ _)) in G1. apply (proj1 (bool_eqb_eq _ _)) in G2.
  assert (J : jp s TJM = JEnd) by (apply (s_5 _ _ HB); rewrite E; auto).
  rewrite J in G2.
  assert (Idle : c_mode c = MForever -> inside s = []).
  { intros Em. destruct (inside s) as [|t rr] eqn:Ei; [reflexivity|exfalso].
    pose proof (i_1 _ _ HI t) as I1. rewrite Ei in I1. specialize (I1 (or_introl eq_refl)).
    destruct t; simpl in I1; try discriminate.
    + rewrite J in I1. discriminate.
    + destruct (o_3 _ _ HI i) as [N1 N2]; [left; congruence|]. destruct (cp s i); try discriminate; congruence.
    + rewrite (f_1 _ _ HB Em i) in I1. discriminate. }
  split; [exact G2|]. split; [exact J|]. split; [|split; [exact G1|]].
  - intros Hin. pose proof (i_1 _ _ HI _ Hin) as R. simpl in R. rewrite J in R. discriminate.
  - intros Em. split; [|auto]. subst r. unfold running. now rewrite (Idle Em).
Qed.

(* in every mode: loop_in_thread returns right after (in its own program order) an
   is_running() that answered true, and that answer was right when it was given *)
Fixpoint last_tm (evs : list event) : option op :=
  match evs with
  | [] => None
  | (TM, o) :: r => match last_tm r with Some o' => Some o' | None => Some o end
  | _ :: r => last_tm r
  end.

Lemma last_tm_app : forall a b, last_tm (a ++ b) = match last_tm b with Some o => Some o | None => last_tm a end.
Proof.
  induction a as [|[t o] r IH]; intros b; simpl; [destruct (last_tm b); reflexivity|].
  rewrite IH. destruct t; auto; destruct (last_tm b); auto.
Qed.

Lemma lit_after_chk : forall c evs s, run c evs = Some s -> mp s = MLit -> last_tm evs = Some (OChk true).
Proof.
  intros c. apply (run_ind c (fun evs s => mp s = MLit -> last_tm evs = Some (OChk true))).
  - simpl. destruct (c_mode c); discriminate.
  - intros evs s e s' Hr IH H Hm. rewrite last_tm_app.
    inv_step H; simp2; simpl; try discriminate Hm; auto.
Qed.

Lemma chk_true_running : forall c s t s', step c s (t, OChk true) = Some s' -> running s = true.
Proof.
  intros c s t s' H. destruct t; simpl in H; try discriminate.
  - unfold step_m in H. destruct (mp s); try discriminate.
    destruct (bool_eqb true (running s)) eqn:G; [|discriminate]. apply (proj1 (bool_eqb_eq _ _)) in G. auto.
  - unfold step_job, loop_ev in H. destruct (jp s TJM); discriminate.
  - destruct (i <? c_n c); [|discriminate]. unfold step_c, loop_ev in H. destruct (cp s i); try discriminate.
    destruct (negb _ && bool_eqb true (running s)) eqn:G; [|discriminate].
    apply andb_prop in G as [_ G]. apply (proj1 (bool_eqb_eq _ _)) in G. auto.
  - destruct (i <? c_n c); [|discriminate]. unfold step_job, loop_ev in H. destruct (jp s (TJ i)); discriminate.
Qed.
