(* Case_C11.v — C11: same-key requests are computed once per retention window,
   then afresh.  Monitor [ok_C11] of Case_Batcher.v keeps, per key, the
   specification of the window (pending since step s | done at tick t with
   outcome o, valid while now < t + retention_timeout) and requires:
   * no observed batch carries a key twice; the concatenated batch contents are
     exactly the calls that found the key free, in order (a call inside the
     window adds no item, a call after it adds one);
   * a call inside the window of a finished request is answered in its own step
     with that request's outcome, a call outside is not answered in its own step;
   * an outcome is only ever produced for a pending request, by a batch that
     started at or after the step of the call that opened the request. *)
From Coq Require Import List Arith NArith Bool.
Import ListNotations.
Require Import Aiuti.CaseLib Aiuti.Batcher Aiuti.Case_Batcher.

Definition agree := Case_Batcher.agree.
Definition ok (cs : case) : bool := ok_C11 cs && ok_C04 cs.

Fixpoint has_dup (l : list nat) : bool :=
  match l with [] => false | x :: r => memb x r || has_dup r end.

Definition call_keys (cs : case) : list nat :=
  match cs with BCase _ evs _ _ => map (fun p => key_of (fst (fst p)) (snd (fst p))) (flat_map calls_of evs) end.

(* non-trivial: some key is requested at least twice and somebody is answered *)
Definition nontrivial (cs : case) : bool :=
  has_dup (call_keys cs) && (1 <=? count is_answer (all_obs cs)).

Definition verdict := verdict3 agree ok nontrivial.
