(* OptionsRefBat.v — refinement: the batcher reference semantics Options.bstep against the full
   batcher model Batcher.v on the translated scripts of OptionsRef.v (batch starts). *)
From Coq Require Import List Arith Bool NArith Lia.
Import ListNotations.
Require Import Aiuti.Options Aiuti.OptionsRef.

Local Arguments N.add : simpl never.
Local Arguments N.leb : simpl never.
Local Arguments N.max : simpl never.
Local Arguments Nat.ltb : simpl never.
Local Arguments Nat.leb : simpl never.

(* ---- lists ------------------------------------------------------------------ *)

Lemma NoDup_app_l' {A} (l1 l2 : list A) : NoDup (l1 ++ l2) -> NoDup l1.
Proof. induction l1 as [|x r IH]; simpl; intros H; [constructor|]. inversion H; subst. constructor; [|now apply IH]. intros Hin. apply H2. apply in_or_app. now left. Qed.

Lemma NoDup_app_r' {A} (l1 l2 : list A) : NoDup (l1 ++ l2) -> NoDup l2.
Proof. induction l1 as [|x r IH]; simpl; intros H; [assumption|]. inversion H; subst. now apply IH. Qed.

Lemma NoDup_snoc {A} (l : list A) x : NoDup l -> ~ In x l -> NoDup (l ++ [x]).
Proof.
  induction l as [|y r IH]; simpl; intros H Hn; [constructor; [intros []|constructor]|].
  inversion H; subst. constructor.
  - intros Hin. apply in_app_or in Hin as [Hin|[->|[]]]; [contradiction|]. apply Hn. now left.
  - apply IH; [assumption|]. intros Hin. apply Hn. now right.
Qed.

Definition kf (it : B.item) : nat * nat := (B.it_key it, B.it_fid it).

Lemma map_fst_kf its : map fst (map kf its) = map B.it_key its.
Proof. rewrite map_map. reflexivity. Qed.

Lemma map_fst_ka its : map fst (map B.ka its) = map B.it_key its.
Proof. rewrite map_map. reflexivity. Qed.

Lemma lookup_None_notin {A} (l : list (nat * A)) k : B.lookup l k = None -> ~ In k (map fst l).
Proof.
  induction l as [|[k' v] r IH]; simpl; intros H; [intros []|].
  destruct (Nat.eqb k' k) eqn:E; [discriminate|]. intros [->|Hin]; [now rewrite Nat.eqb_refl in E | now apply IH].
Qed.

Lemma lookup_In {A} (l : list (nat * A)) k v : B.lookup l k = Some v -> In (k, v) l.
Proof.
  induction l as [|[k' v'] r IH]; simpl; [discriminate|].
  destruct (Nat.eqb k' k) eqn:E; [apply Nat.eqb_eq in E; subst; intros [= ->]; now left | intros H; right; now apply IH].
Qed.

Lemma dict_set_fresh l k v : ~ In k (map fst l) -> B.dict_set l k v = l ++ [(k, v)].
Proof.
  induction l as [|[k' v'] r IH]; simpl; intros H; [reflexivity|].
  destruct (Nat.eqb k' k) eqn:E; [apply Nat.eqb_eq in E; subst; exfalso; apply H; now left|].
  rewrite IH; [reflexivity|]. intros Hin. apply H. now right.
Qed.

Lemma futs_of_acc its : forall acc,
  NoDup (map fst acc ++ map B.it_key its) ->
  fold_left (fun d it => B.dict_set d (B.it_key it) (B.it_fid it)) its acc = acc ++ map kf its.
Proof.
  induction its as [|it its IH]; intros acc H; simpl; [now rewrite app_nil_r|].
  rewrite dict_set_fresh.
  - rewrite IH; [now rewrite <- app_assoc|]. rewrite map_app. simpl. now rewrite <- app_assoc.
  - intros Hin. apply NoDup_remove_2 in H. apply H. apply in_or_app. now left.
Qed.

Lemma futs_of_nodup its : NoDup (map B.it_key its) -> B.futs_of its = map kf its.
Proof. intros H. unfold B.futs_of. now rewrite futs_of_acc. Qed.

(* association lists of Options.v against those of Batcher.v *)
Lemma assoc_lookup_pend (l : list (nat * nat)) k :
  assoc k (map (fun p => (fst p, RPend (snd p))) l) = option_map RPend (B.lookup l k).
Proof.
  induction l as [|[k' f] r IH]; simpl; [reflexivity|].
  rewrite (Nat.eqb_sym k k'). destruct (Nat.eqb k' k); [reflexivity|assumption].
Qed.

(* ---- the semaphore loop of Options.v in the three situations that occur -------- *)

Lemma start_loop_stuck C t q run st : C <= length run -> start_loop C t q run st = (q, run, st).
Proof. intros H. destruct q as [|b q]; simpl; [reflexivity|]. apply Nat.ltb_ge in H. now rewrite H. Qed.

Lemma start_loop_one C t b run st : length run < C ->
  start_loop C t [b] run st = ([], run ++ [(length st, b)], st ++ [(t, map fst b)]).
Proof. intros H. simpl. apply Nat.ltb_lt in H. now rewrite H. Qed.

Lemma start_loop_handover C t w ws run st : S (length run) = C ->
  start_loop C t (w :: ws) run st = (ws, run ++ [(length st, w)], st ++ [(t, map fst w)]).
Proof.
  intros H. simpl. assert (E : (length run <? C) = true) by (apply Nat.ltb_lt; lia). rewrite E.
  apply start_loop_stuck. rewrite app_length. simpl. lia.
Qed.

(* ---- the simulation relation --------------------------------------------------- *)

Definition coll_items (X : B.state) : list B.item :=
  match B.coll X with Some (its, _) => its | None => [] end.

(* items whose future is pending, oldest first *)
Definition flight (X : B.state) : list B.item :=
  concat (map B.b_items (B.running X)) ++ concat (B.waiting X) ++ coll_items X.

Record Rfly (fl : list B.item) (ret : list (nat * nat)) (fdone : list (nat * (B.outcome * N))) (nfut : nat) : Prop := mkRfly {
  f_ret : forall it, In it fl -> In (kf it) ret;
  f_back : forall p, In p ret -> exists it, In it fl /\ kf it = p;
  f_keys : NoDup (map B.it_key fl);
  f_pend : forall it, In it fl -> B.lookup fdone (B.it_fid it) = None;
  f_fids : NoDup (map B.it_fid fl);
  f_lt : forall it, In it fl -> B.it_fid it < nfut;
  f_done_lt : forall f o, In (f, o) fdone -> f < nfut
}.

Record Rs (c : bcfg) (s : bst) (X : B.state) : Prop := mkRs {
  r_now : B.now X = now s;
  r_maxb : B.maxb X = cB c;
  r_coll : option_map (fun p => (map kf (fst p), snd p)) (B.coll X) = coll s;
  r_dl : forall its d, B.coll X = Some (its, d) -> (B.now X <= d)%N;
  r_wait : map (map kf) (B.waiting X) = waitq s;
  r_run : map (fun bt => (B.b_id bt, map kf (B.b_items bt))) (B.running X) = running s;
  r_futs : forall bt, In bt (B.running X) -> B.b_futs bt = map kf (B.b_items bt);
  r_free : B.free X + length (B.running X) = cC c;
  r_wfree : B.waiting X <> [] -> B.free X = 0;
  r_ids : forall bt, In bt (B.running X) -> B.b_id bt < B.nbid X;
  r_idnd : NoDup (map B.b_id (B.running X));
  r_nbid : B.nbid X = length (starts s);
  r_nfut : B.nfut X = nfut s;
  r_ret : map (fun p => (fst p, RPend (snd p))) (B.ret X) = ret s;
  r_rt : B.rtimers X = [];
  r_more : forall cl, In cl (B.callers X) -> B.cl_more cl = 0;
  r_fly : Rfly (flight X) (B.ret X) (B.fdone X) (B.nfut X)
}.

Lemma rs_init c : Rs c binit (B.init (to_cfg c)).
Proof.
  constructor; simpl; try reflexivity; try discriminate; try contradiction; try constructor;
    simpl; try contradiction; try constructor.
  - lia.
Qed.

(* destructuring both states makes every projection compute *)
Ltac bproj := cbn [B.now B.maxb B.coll B.waiting B.running B.free B.nbid B.nfut B.fdone B.ret B.rtimers B.callers
                   B.g_items B.g_started B.g_blog B.g_spawn B.tie B.fuel_out
                   B.set_now B.set_maxb B.set_coll B.set_waiting B.set_running B.set_free B.set_ret B.set_rtimers
                   B.set_callers B.set_fdone B.set_blog B.set_spawn B.set_tie B.set_fuel_out
                   now coll waitq running ret waiting ncall nfut starts dones].
Ltac bprojA := cbn [B.now B.maxb B.coll B.waiting B.running B.free B.nbid B.nfut B.fdone B.ret B.rtimers B.callers
                   B.g_items B.g_started B.g_blog B.g_spawn B.tie B.fuel_out
                   B.set_now B.set_maxb B.set_coll B.set_waiting B.set_running B.set_free B.set_ret B.set_rtimers
                   B.set_callers B.set_fdone B.set_blog B.set_spawn B.set_tie B.set_fuel_out
                   now coll waitq running ret waiting ncall nfut starts dones] in *.
Ltac bprojH H := cbn [B.now B.maxb B.coll B.waiting B.running B.free B.nbid B.nfut B.fdone B.ret B.rtimers B.callers
                   B.g_items B.g_started B.g_blog B.g_spawn B.tie B.fuel_out
                   B.set_now B.set_maxb B.set_coll B.set_waiting B.set_running B.set_free B.set_ret B.set_rtimers
                   B.set_callers B.set_fdone B.set_blog B.set_spawn B.set_tie B.set_fuel_out
                   now coll waitq running ret waiting ncall nfut starts dones] in H.

(* M1: time passes without reaching the collector's deadline *)
Definition snow (t : N) (s : bst) : bst :=
  mkb t (coll s) (waitq s) (running s) (ret s) (waiting s) (ncall s) (nfut s) (starts s) (dones s).

Lemma rs_snow c s X t :
  Rs c s X -> (forall its d, B.coll X = Some (its, d) -> (t <= d)%N) ->
  Rs c (snow t s) (B.set_now X t).
Proof.
  intros [] Hd. constructor; bproj; try assumption; try reflexivity.
Qed.

(* ghost-only changes *)
Lemma rs_set_tie c s X b : Rs c s X -> Rs c s (B.set_tie X b).
Proof. intros []. constructor; bproj; assumption. Qed.

Lemma rs_set_spawn c s X v : Rs c s X -> Rs c s (B.set_spawn X v).
Proof. intros []. constructor; bproj; assumption. Qed.

Ltac destr_states X s :=
  destruct X as [xnow xmaxb xcoll xwaiting xrunning xfree xnbid xnfut xfdone xret xrtimers xcallers gi gs gb gsp xtie xfo];
  destruct s as [s_now s_coll s_waitq s_running s_ret s_waiting s_ncall s_nfut s_starts s_dones].

Ltac fly_same H :=
  unfold flight, coll_items in *; bproj; bprojH H;
  cbn [map concat B.b_items app] in *; rewrite ?map_app, ?concat_app;
  cbn [map concat B.b_items app] in *; rewrite ?map_app, ?concat_app;
  cbn [map concat B.b_items app] in *; rewrite ?app_nil_r in *; rewrite <- ?app_assoc in *; exact H.

(* M2: the batch being collected leaves the collector *)
Lemma rs_dispatch c s X its d :
  Rs c s X -> B.coll X = Some (its, d) ->
  let r := B.dispatch its (B.set_coll X None) in
  let s' := dispatch c (B.now X) (map kf its) s in
  Rs c s' (fst r) /\ starts s' = starts s ++ obs_starts (snd r).
Proof.
  intros [Hnow Hmaxb Hcoll Hdl Hwait Hrun Hfuts Hfree Hwfree Hids Hidnd Hnbid Hnfut Hret Hrt Hmore Hfly] Hc.
  destr_states X s. bprojA. subst.
  assert (Hkeys : NoDup (map B.it_key its)).
  { destruct Hfly as [_ _ Hk _ _ _ _]. unfold flight, coll_items in Hk. bprojH Hk.
    rewrite !map_app in Hk. apply NoDup_app_r' in Hk. apply NoDup_app_r' in Hk. exact Hk. }
  assert (Hlen : length (map (fun bt => (B.b_id bt, map kf (B.b_items bt))) xrunning) = length xrunning) by apply map_length.
  unfold B.dispatch, dispatch. bproj.
  destruct xwaiting as [|w ws].
  - destruct (0 <? xfree) eqn:E.
    + apply Nat.ltb_lt in E. cbn [map app].
      assert (Hlt : length (map (fun bt : B.batch => (B.b_id bt, map kf (B.b_items bt))) xrunning) < cC c) by lia.
      rewrite start_loop_one by exact Hlt.
      unfold B.start_batch. bproj. cbn [fst snd obs_starts flat_map app]. split.
      * constructor; bproj; try assumption; try reflexivity.
        -- intros ? ? [=].
        -- rewrite map_app. reflexivity.
        -- intros bt Hin. apply in_app_or in Hin as [Hin|[<-|[]]]; [now apply Hfuts|]. cbn [B.b_futs B.b_items]. now apply futs_of_nodup.
        -- rewrite app_length. cbn [length]. lia.
        -- intros H. now elim H.
        -- intros bt Hin. apply in_app_or in Hin as [Hin|[<-|[]]]; [apply Hids in Hin; lia|]. cbn [B.b_id]. lia.
        -- rewrite map_app. cbn [map B.b_id]. apply NoDup_snoc; [assumption|]. intros Hin.
           apply in_map_iff in Hin as [bt [E1 Hin]]. apply Hids in Hin. lia.
        -- rewrite app_length. cbn [length]. lia.
        -- fly_same Hfly.
      * rewrite map_fst_kf, map_fst_ka, ?app_nil_r. reflexivity.
    + apply Nat.ltb_ge in E. cbn [map app].
      assert (Hge : cC c <= length (map (fun bt : B.batch => (B.b_id bt, map kf (B.b_items bt))) xrunning)) by lia.
      rewrite start_loop_stuck by exact Hge. cbn [fst snd obs_starts flat_map]. split; [|rewrite ?app_nil_r; reflexivity].
      constructor; bproj; try assumption; try reflexivity.
      * intros ? ? [=].
      * intros _. lia.
      * fly_same Hfly.
  - assert (Hf0 : xfree = 0) by (apply Hwfree; discriminate). subst xfree. cbn [Nat.ltb Nat.leb].
    change (0 <? 0) with false. cbn [map app].
    assert (Hge : cC c <= length (map (fun bt : B.batch => (B.b_id bt, map kf (B.b_items bt))) xrunning)) by lia.
    rewrite start_loop_stuck by exact Hge.
    cbn [fst snd obs_starts flat_map]. split; [|rewrite ?app_nil_r; reflexivity].
    constructor; bproj; try assumption; try reflexivity.
    + intros ? ? [=].
    + cbn [map]. rewrite map_app. reflexivity.
    + fly_same Hfly.
Qed.

(* a new item (key k not remembered, fresh future) joins the flight *)
Lemma rfly_push fl ret fdone nfut k a t m :
  Rfly fl ret fdone nfut -> B.lookup ret k = None ->
  Rfly (fl ++ [B.mkitem k a nfut t m]) ((k, nfut) :: ret) fdone (S nfut).
Proof.
  intros [H1 H2 H3 H4 H5 H6 H7] Hk. apply lookup_None_notin in Hk.
  constructor.
  - intros it Hin. apply in_app_or in Hin as [Hin|[<-|[]]]; [right; now apply H1 | now left].
  - intros p [<-|Hin].
    + eexists. split; [apply in_or_app; right; now left | reflexivity].
    + destruct (H2 p Hin) as [it [Hi1 Hi2]]. exists it. split; [apply in_or_app; now left | assumption].
  - rewrite map_app. cbn [map B.it_key]. apply NoDup_snoc; [assumption|]. intros Hin.
    apply in_map_iff in Hin as [it [E Hin]]. apply Hk. apply H1 in Hin. apply in_map_iff. exists (kf it). split; [exact E|assumption].
  - intros it Hin. apply in_app_or in Hin as [Hin|[<-|[]]]; [now apply H4|]. cbn [B.it_fid].
    destruct (B.lookup fdone nfut) as [o|] eqn:E; [|reflexivity]. apply lookup_In in E. apply H7 in E. lia.
  - rewrite map_app. cbn [map B.it_fid]. apply NoDup_snoc; [assumption|]. intros Hin.
    apply in_map_iff in Hin as [it [E Hin]]. apply H6 in Hin. lia.
  - intros it Hin. apply in_app_or in Hin as [Hin|[<-|[]]]; [apply H6 in Hin; lia | cbn [B.it_fid]; lia].
  - intros f o Hin. apply H7 in Hin. lia.
Qed.

(* M3: the collector takes one more item (whether or not the batch is then full) *)
Definition s_collect (c : bcfg) (k : nat) (s : bst) : bst :=
  let f := nfut s in
  let tk := match coll s with Some (t, _) => t ++ [(k, f)] | None => [(k, f)] end in
  mkb (now s) (Some (tk, (now s + cbt c)%N)) (waitq s) (running s) ((k, RPend f) :: ret s)
      (waiting s ++ [(ncall s, f)]) (S (ncall s)) (S f) (starts s) (dones s).

Definition x_item (X : B.state) (k : nat) : B.item := B.mkitem k k (B.nfut X) (B.now X) (B.maxb X).
Definition x_enq (X : B.state) (k : nat) : B.state :=
  B.mkst (B.now X) (B.maxb X) (B.coll X) (B.waiting X) (B.running X) (B.free X) (B.nbid X) (S (B.nfut X))
         (B.fdone X) ((k, B.nfut X) :: B.ret X) (B.rtimers X)
         (B.callers X ++ [B.mkcaller k (B.nfut X) true (B.now X) None k None 0])
         (B.g_items X ++ [x_item X k]) (B.g_started X) (B.g_blog X) (B.g_spawn X) (B.tie X) (B.fuel_out X).
Definition x_collect (c : bcfg) (X : B.state) (k : nat) : B.state :=
  B.set_coll (x_enq X k) (Some (coll_items X ++ [x_item X k], (B.now X + cbt c)%N)).

Lemma rs_collect c s X k :
  Rs c s X -> B.lookup (B.ret X) k = None -> Rs c (s_collect c k s) (x_collect c X k).
Proof.
  intros [Hnow Hmaxb Hcoll Hdl Hwait Hrun Hfuts Hfree Hwfree Hids Hidnd Hnbid Hnfut Hret Hrt Hmore Hfly] Hk.
  destr_states X s. unfold s_collect, x_collect, x_enq, x_item, coll_items. bprojA. subst.
  constructor; bproj; try assumption; try reflexivity.
  - destruct xcoll as [[its0 d0]|]; cbn [option_map fst snd]; [rewrite map_app|]; reflexivity.
  - intros its d [= <- <-]. lia.
  - intros cl Hin. apply in_app_or in Hin as [Hin|[<-|[]]]; [now apply Hmore | reflexivity].
  - unfold flight, coll_items in *. bproj. bprojH Hfly. rewrite !app_assoc. rewrite !app_assoc in Hfly.
    now apply rfly_push.
Qed.

(* a call *)
Lemma sim_call c s X k :
  Rs c s X ->
  let r := B.step (to_cfg c) X (B.Call k None) in
  let s' := bstep c s (BCall k) in
  Rs c s' (fst r) /\ starts s' = starts s ++ obs_starts (snd r).
Proof.
  intros HR r s'. unfold r, s'. cbn [B.step bstep]. unfold B.do_call. cbn [B.key_of].
  rewrite <- (r_ret _ _ _ HR), assoc_lookup_pend.
  destruct (B.lookup (B.ret X) k) as [f|] eqn:Ek; cbn [option_map].
  - (* the key is in flight: share its future *)
    assert (Hp : B.lookup (B.fdone X) f = None).
    { apply lookup_In in Ek. destruct (f_back _ _ _ _ (r_fly _ _ _ HR) _ Ek) as [it [Hi1 Hi2]].
      injection Hi2 as _ <-. now apply (f_pend _ _ _ _ (r_fly _ _ _ HR)). }
    rewrite Hp. cbn [fst snd obs_starts flat_map]. split; [|now rewrite app_nil_r].
    destruct HR. unfold B.add_caller. constructor; bproj; try assumption; try reflexivity.
    intros cl Hin. apply in_app_or in Hin as [Hin|[<-|[]]]; [now apply r_more0 | reflexivity].
  - (* a new item *)
    pose proof (rs_collect c s X k HR Ek) as HC.
    change (B.take (to_cfg c) (B.mkitem k k (B.nfut X) (B.now X) (B.maxb X))
              (B.mkst (B.now X) (B.maxb X) (B.coll X) (B.waiting X) (B.running X) (B.free X) (B.nbid X) (S (B.nfut X))
                 (B.fdone X) ((k, B.nfut X) :: B.ret X) (B.rtimers X)
                 (B.callers X ++ [B.mkcaller k (B.nfut X) true (B.now X) None k None 0])
                 (B.g_items X ++ [B.mkitem k k (B.nfut X) (B.now X) (B.maxb X)]) (B.g_started X) (B.g_blog X)
                 (B.g_spawn X) (B.tie X) (B.fuel_out X)))
      with (B.take (to_cfg c) (x_item X k) (x_enq X k)).
    unfold B.take. cbn [B.coll x_enq B.maxb].
    fold (coll_items X).
    assert (Hits : (match B.coll X with Some (its0, _) => its0 ++ [x_item X k] | None => [x_item X k] end)
                   = coll_items X ++ [x_item X k]).
    { unfold coll_items. now destruct (B.coll X) as [[? ?]|]. }
    rewrite Hits.
    set (tk := match coll s with Some (t, _) => t ++ [(k, nfut s)] | None => [(k, nfut s)] end).
    assert (Htk : tk = map kf (coll_items X ++ [x_item X k])).
    { unfold tk, coll_items. rewrite <- (r_coll _ _ _ HR). rewrite <- (r_nfut _ _ _ HR).
      destruct (B.coll X) as [[its0 d0]|]; cbn [option_map fst snd]; [rewrite map_app|]; reflexivity. }
    rewrite Nat.ltb_antisym, (r_maxb _ _ _ HR). rewrite Htk, map_length.
    destruct (cB c <=? length (coll_items X ++ [x_item X k])) eqn:E; cbn [negb].
    + (* the batch is full: it leaves the collector at once *)
      assert (Hc : B.coll (x_collect c X k) = Some (coll_items X ++ [x_item X k], (B.now X + cbt c)%N)) by reflexivity.
      destruct (rs_dispatch c _ _ _ _ HC Hc) as [H1 H2].
      rewrite <- Htk in *. rewrite (r_ret _ _ _ HR).
      change (B.now (x_collect c X k)) with (B.now X) in H1, H2. rewrite (r_now _ _ _ HR) in H1, H2.
      split.
      * exact H1.
      * exact H2.
    + cbn [fst snd obs_starts flat_map]. split; [|now rewrite app_nil_r].
      rewrite <- Htk. rewrite (r_ret _ _ _ HR). exact HC.
Qed.

Lemma filter_pend (l : list (nat * nat)) (t : N) :
  filter (fun kr : nat * rst => match snd kr with
                                | RDone _ ex => negb (ex <=? t)%N
                                | RPend _ => true end)
         (map (fun p => (fst p, RPend (snd p))) l) = map (fun p => (fst p, RPend (snd p))) l.
Proof. induction l as [|p l IH]; simpl; [reflexivity|]. now rewrite IH. Qed.

(* the last part of Options' [Adv]: the clock is set, expired retained results are dropped *)
Definition adv_fin (t : N) (s1 : bst) : bst :=
  mkb t (coll s1) (waitq s1) (running s1)
      (filter (fun kr : nat * rst => match snd kr with
                                     | RDone _ ex => negb (ex <=? t)%N
                                     | RPend _ => true end) (ret s1))
      (waiting s1) (ncall s1) (nfut s1) (starts s1) (dones s1).

Lemma rs_adv_fin c s X t :
  Rs c s X -> (forall its d, B.coll X = Some (its, d) -> (t <= d)%N) ->
  Rs c (adv_fin t s) (B.set_now X t).
Proof.
  intros [] Hd. unfold adv_fin. constructor; bproj; try assumption; try reflexivity.
  rewrite <- r_ret0. now rewrite filter_pend.
Qed.

Lemma adv_fin_snow c t t1 t2 tk s :
  adv_fin t (dispatch c t1 tk (snow t2 s)) = adv_fin t (dispatch c t1 tk s).
Proof.
  unfold adv_fin, dispatch, snow. bproj.
  now destruct (start_loop (cC c) t1 (waitq s ++ [tk]) (running s) (starts s)) as [[q run] st].
Qed.

Lemma coll_dispatch c t tk s : coll (dispatch c t tk s) = None.
Proof. unfold dispatch. now destruct (start_loop (cC c) t (waitq s ++ [tk]) (running s) (starts s)) as [[q run] st]. Qed.

Lemma now_dispatch c t tk s : now (dispatch c t tk s) = now s.
Proof. unfold dispatch. now destruct (start_loop (cC c) t (waitq s ++ [tk]) (running s) (starts s)) as [[q run] st]. Qed.

Lemma starts_dispatch_snow c t1 t2 tk s :
  starts (dispatch c t1 tk (snow t2 s)) = starts (dispatch c t1 tk s).
Proof.
  unfold dispatch, snow. bproj.
  now destruct (start_loop (cC c) t1 (waitq s ++ [tk]) (running s) (starts s)) as [[q run] st].
Qed.

(* the state of Batcher.fire_at just before it hands the batch over *)
Definition x_fire (d : N) (X : B.state) : B.state :=
  let s1 := B.set_now X (N.max (B.now X) d) in
  let due := filter (fun p => (fst p <=? d)%N) (B.rtimers s1) in
  let s2 := B.set_rtimers (B.set_ret s1 (fold_left (fun r p => B.remove_key (snd p) r) due (B.ret s1)))
                          (filter (fun p => negb (fst p <=? d)%N) (B.rtimers s1)) in
  B.set_tie s2 (B.tie s2 || negb (length due =? 0)).

Lemma rs_fire c s X d its :
  Rs c s X -> B.coll X = Some (its, d) ->
  Rs c (snow d s) (x_fire d X) /\ B.coll (x_fire d X) = Some (its, d) /\ B.now (x_fire d X) = d /\
  B.rtimers (x_fire d X) = [].
Proof.
  intros [Hnow Hmaxb Hcoll Hdl Hwait Hrun Hfuts Hfree Hwfree Hids Hidnd Hnbid Hnfut Hret Hrt Hmore Hfly] Hc.
  destr_states X s. unfold x_fire, snow. bprojA. subst.
  pose proof (Hdl _ _ eq_refl) as Hle. rewrite (N.max_r _ _ Hle).
  cbn [filter fold_left length Nat.eqb negb orb]. bproj.
  split; [|repeat split].
  constructor; bproj; try assumption; try reflexivity.
  intros its0 d0 [= <- <-]. lia.
Qed.

Lemma fire_at_eq X d its :
  B.coll X = Some (its, d) -> B.fire_at d X = B.dispatch its (B.set_coll (x_fire d X) None).
Proof.
  intros Hc. unfold B.fire_at, x_fire. bproj. rewrite Hc. now rewrite N.leb_refl.
Qed.

(* time passes *)
Lemma sim_adv c s X dt :
  Rs c s X ->
  let r := B.step (to_cfg c) X (B.Advance dt) in
  let s' := bstep c s (Adv dt) in
  Rs c s' (fst r) /\ starts s' = starts s ++ obs_starts (snd r).
Proof.
  intros HR r s'. unfold r, s'. clear r s'.
  change (bstep c s (Adv dt)) with
    (adv_fin (now s + dt)%N (match coll s with
                             | Some (tk, d) => if (d <=? now s + dt)%N then dispatch c d tk s else s
                             | None => s end)).
  cbn [B.step]. rewrite (r_rt _ _ _ HR). cbn [length Nat.add B.advance].
  unfold B.next_deadline, B.deadlines. rewrite (r_rt _ _ _ HR). cbn [map app].
  rewrite <- (r_coll _ _ _ HR), (r_now _ _ _ HR).
  destruct (B.coll X) as [[its d]|] eqn:Ec; cbn [option_map fst snd fold_left].
  - destruct (d <=? now s + dt)%N eqn:E.
    + destruct (rs_fire c s X d its HR Ec) as (HF & Hc & Hn & Hr).
      rewrite (fire_at_eq X d its Ec).
      destruct (rs_dispatch c _ _ _ _ HF Hc) as [H1 H2]. rewrite Hn in H1, H2.
      destruct (B.dispatch its (B.set_coll (x_fire d X) None)) as [X1 o1] eqn:Ed. cbn [fst snd] in *.
      assert (Hc1 : B.coll X1 = None).
      { pose proof (r_coll _ _ _ H1) as Hx. rewrite coll_dispatch in Hx.
        destruct (B.coll X1); [discriminate|reflexivity]. }
      rewrite (r_rt _ _ _ H1), Hc1. cbn [map app fst snd]. rewrite app_nil_r.
      assert (Hmax : N.max (B.now X1) (now s + dt) = (now s + dt)%N).
      { rewrite (r_now _ _ _ H1), now_dispatch. cbn [now snow]. apply N.leb_le in E. lia. }
      rewrite Hmax. split.
      * rewrite <- (adv_fin_snow c _ d d). apply rs_adv_fin; [assumption|]. intros ? ? Hx. rewrite Hc1 in Hx. discriminate.
      * cbn [adv_fin starts]. rewrite <- (starts_dispatch_snow c d d). exact H2.
    + cbn [fst snd obs_starts flat_map]. rewrite app_nil_r. split; [|reflexivity].
      assert (Hmax : N.max (now s) (now s + dt) = (now s + dt)%N) by lia. rewrite Hmax.
      apply rs_adv_fin; [assumption|]. intros its0 d0 Hx. rewrite Ec in Hx. injection Hx as <- <-.
      apply N.leb_gt in E. lia.
  - cbn [fst snd obs_starts flat_map]. rewrite app_nil_r. split; [|reflexivity].
    assert (Hmax : N.max (now s) (now s + dt) = (now s + dt)%N) by lia. rewrite Hmax.
    apply rs_adv_fin; [assumption|]. intros its0 d0 Hx. rewrite Ec in Hx. discriminate.
Qed.

(* ---- scripts ------------------------------------------------------------------- *)

Lemma run_from_app C : forall a b X,
  B.run_from C X (a ++ b) =
  (fst (B.run_from C X a) ++ fst (B.run_from C (snd (B.run_from C X a)) b),
   snd (B.run_from C (snd (B.run_from C X a)) b)).
Proof.
  induction a as [|e a IH]; intros b X; cbn [app B.run_from].
  - cbn [fst snd app]. now destruct (B.run_from C X b).
  - destruct (B.step C X e) as [X1 o]. rewrite IH.
    destruct (B.run_from C X1 a) as [t1 X2]. cbn [fst snd].
    destruct (B.run_from C X2 b) as [t2 X3]. reflexivity.
Qed.

Lemma run_from_one C X e :
  B.run_from C X [e] = ([snd (B.step C X e)], fst (B.step C X e)).
Proof. cbn [B.run_from]. now destruct (B.step C X e). Qed.

Lemma obs_starts_app a b : obs_starts (a ++ b) = obs_starts a ++ obs_starts b.
Proof. unfold obs_starts. apply flat_map_app. Qed.

Section Script.
  Variable c : bcfg.
  Variable okev : bev -> Prop.
  Hypothesis sim_ev : forall s X x, okev x -> Rs c s X ->
    let r := B.run_from (to_cfg c) X (tr_ev X x) in
    Rs c (bstep c s x) (snd r) /\ starts (bstep c s x) = starts s ++ obs_starts (concat (fst r)).

  Lemma sim_script : forall sc s X, Forall okev sc -> Rs c s X ->
    starts (fold_left (bstep c) sc s) =
    starts s ++ obs_starts (concat (fst (B.run_from (to_cfg c) X (translate_from (to_cfg c) X sc)))).
  Proof.
    induction sc as [|x sc IH]; intros s X Hok HR; cbn [fold_left translate_from].
    - cbn [B.run_from fst concat obs_starts flat_map]. now rewrite app_nil_r.
    - inversion Hok as [|? ? Hx Hr]; subst.
      destruct (sim_ev s X x Hx HR) as [H1 H2].
      rewrite run_from_app. cbn [fst]. rewrite concat_app, obs_starts_app, app_assoc, <- H2.
      now apply IH.
  Qed.

  Lemma full_starts_ok sc : Forall okev sc -> full_starts c sc = starts (brun c sc).
  Proof.
    intros Hok. unfold full_starts, translate, B.run, brun.
    now rewrite (sim_script sc binit (B.init (to_cfg c)) Hok (rs_init c)).
  Qed.
End Script.

(* stage 1: while no batch function returns (any configuration, retention included) *)
Definition not_fin (x : bev) : Prop := match x with BFin _ => False | _ => True end.

Lemma sim_ev_nofin c s X x : not_fin x -> Rs c s X ->
  let r := B.run_from (to_cfg c) X (tr_ev X x) in
  Rs c (bstep c s x) (snd r) /\ starts (bstep c s x) = starts s ++ obs_starts (concat (fst r)).
Proof.
  intros Hx HR. destruct x as [k|b|dt]; [|contradiction|]; cbn [tr_ev]; rewrite run_from_one; cbn [fst snd concat];
    rewrite app_nil_r.
  - apply sim_call. exact HR.
  - apply sim_adv. exact HR.
Qed.

Definition fin_free (sc : list bev) : bool :=
  forallb (fun x => match x with BFin _ => false | _ => true end) sc.

Lemma fin_free_Forall sc : fin_free sc = true -> Forall not_fin sc.
Proof.
  unfold fin_free. rewrite forallb_forall. intros H. apply Forall_forall. intros x Hx. specialize (H x Hx).
  destruct x; [exact I|discriminate|exact I].
Qed.

Lemma batcher_refines_nofin : forall (c : bcfg) (sc : list bev),
  fin_free sc = true -> full_starts c sc = starts (brun c sc).
Proof.
  intros c sc H. apply (full_starts_ok c not_fin (sim_ev_nofin c)). now apply fin_free_Forall.
Qed.

(* ====================================================================================== *)
(* stage 2: the batch function returns (retention_timeout = 0)                             *)
(* ====================================================================================== *)

(* waking callers: only [callers] changes, nobody calls again (cl_more = 0 for every caller of a
   C15 script), and the observations are caller completions *)
Lemma wake_from_spec fd t : forall cs i,
  (forall cl, In cl cs -> B.cl_more cl = 0) ->
  (forall cl, In cl (fst (B.wake_from fd t i cs)) -> B.cl_more cl = 0) /\
  obs_starts (snd (B.wake_from fd t i cs)) = [].
Proof.
  induction cs as [|cl cs IH]; intros i H; cbn [B.wake_from].
  - split; [intros ? []|reflexivity].
  - destruct (IH (S i) (fun x Hx => H x (or_intror Hx))) as [I1 I2].
    destruct (B.wake_from fd t (S i) cs) as [r' os]. cbn [fst snd] in *.
    destruct (B.cl_st cl) as [o|]; [|destruct (B.lookup fd (B.cl_fid cl)) as [[o t0]|]]; cbn [fst snd].
    + split; [|assumption]. intros x [<-|Hx]; [apply H; now left | now apply I1].
    + split; [|assumption]. intros x [<-|Hx]; [cbn [B.cl_more]; apply H; now left | now apply I1].
    + split; [|assumption]. intros x [<-|Hx]; [apply H; now left | now apply I1].
Qed.

Lemma recalls_nil fd : forall cs, (forall cl, In cl cs -> B.cl_more cl = 0) -> B.recalls_of fd cs = [].
Proof.
  induction cs as [|cl cs IH]; intros H; cbn [B.recalls_of]; [reflexivity|].
  rewrite (H cl (or_introl eq_refl)). rewrite IH by (intros x Hx; apply H; now right).
  destruct (B.cl_st cl); [reflexivity|]. now destruct (B.lookup fd (B.cl_fid cl)).
Qed.

(* [wake_all] when nobody calls again *)
Lemma wake_all_spec C Y :
  (forall cl, In cl (B.callers Y) -> B.cl_more cl = 0) ->
  exists cs, fst (B.wake_all C Y) = B.set_callers Y cs /\
             (forall cl, In cl cs -> B.cl_more cl = 0) /\
             obs_starts (snd (B.wake_all C Y)) = [].
Proof.
  intros H. unfold B.wake_all. rewrite (recalls_nil _ _ H). cbn [B.sort_rc fold_left].
  unfold B.wake. destruct (wake_from_spec (B.fdone Y) (B.now Y) (B.callers Y) 0 H) as [H1 H2].
  destruct (B.wake_from (B.fdone Y) (B.now Y) 0 (B.callers Y)) as [cs os]. cbn [fst snd] in *.
  cbn [B.do_recalls fst snd]. exists cs. rewrite app_nil_r. auto.
Qed.

(* replacing the futs of batch b *)
Definition with_futs (b : nat) (fs : list (nat * nat)) (x : B.batch) : B.batch :=
  if Nat.eqb (B.b_id x) b then B.mkbatch (B.b_id x) (B.b_items x) fs else x.

Lemma with_futs_id b fs x : B.b_id (with_futs b fs x) = B.b_id x.
Proof. unfold with_futs. now destruct (Nat.eqb (B.b_id x) b). Qed.

Lemma with_futs_items b fs x : B.b_items (with_futs b fs x) = B.b_items x.
Proof. unfold with_futs. now destruct (Nat.eqb (B.b_id x) b). Qed.

Lemma with_futs_twice b fs fs' l : map (with_futs b fs) (map (with_futs b fs') l) = map (with_futs b fs) l.
Proof.
  rewrite map_map. apply map_ext. intros x. unfold with_futs.
  destruct (Nat.eqb (B.b_id x) b) eqn:E; cbn [B.b_id B.b_items]; now rewrite E.
Qed.

Lemma find_with_futs b fs l :
  find (fun x => Nat.eqb (B.b_id x) b) (map (with_futs b fs) l) =
  option_map (with_futs b fs) (find (fun x => Nat.eqb (B.b_id x) b) l).
Proof.
  induction l as [|x l IH]; cbn [map find option_map]; [reflexivity|].
  rewrite with_futs_id. destruct (Nat.eqb (B.b_id x) b); [reflexivity|assumption].
Qed.

Lemma filter_with_futs b fs l :
  filter (fun x => negb (Nat.eqb (B.b_id x) b)) (map (with_futs b fs) l) =
  filter (fun x => negb (Nat.eqb (B.b_id x) b)) l.
Proof.
  induction l as [|x l IH]; cbn [map filter]; [reflexivity|].
  rewrite with_futs_id. destruct (Nat.eqb (B.b_id x) b) eqn:E; cbn [negb]; [assumption|].
  rewrite IH. unfold with_futs. now rewrite E.
Qed.

Lemma remove_key_notin {A} k (l : list (nat * A)) : ~ In k (map fst l) -> B.remove_key k l = l.
Proof.
  induction l as [|[k' v] l IH]; cbn [B.remove_key filter map fst]; intros H; [reflexivity|].
  destruct (Nat.eqb k' k) eqn:E; cbn [negb].
  - apply Nat.eqb_eq in E. subst. exfalso. apply H. now left.
  - f_equal. apply IH. intros Hin. apply H. now right.
Qed.

(* one result of the batch function, retention 0 *)
Lemma yield_step C Y b B0 it rem' :
  B.c_rt C = 0%N ->
  B.find_batch Y b = Some B0 -> B.b_futs B0 = kf it :: map kf rem' ->
  ~ In (B.it_key it) (map B.it_key rem') ->
  B.lookup (B.fdone Y) (B.it_fid it) = None ->
  (forall cl, In cl (B.callers Y) -> B.cl_more cl = 0) ->
  let r := B.step C Y (B.BYield b (B.it_key it) (B.Val b)) in
  exists cs gb,
    fst r = B.mkst (B.now Y) (B.maxb Y) (B.coll Y) (B.waiting Y) (map (with_futs b (map kf rem')) (B.running Y))
                   (B.free Y) (B.nbid Y) (B.nfut Y)
                   ((B.it_fid it, (B.Ret b, B.now Y)) :: B.fdone Y) (B.remove_key (B.it_key it) (B.ret Y))
                   (B.rtimers Y) cs (B.g_items Y) (B.g_started Y) gb (B.g_spawn Y) (B.tie Y) (B.fuel_out Y) /\
    (forall cl, In cl cs -> B.cl_more cl = 0) /\ obs_starts (snd r) = [].
Proof.
  intros Hrt Hfind Hfuts Hnk Hpend Hmore r. unfold r. clear r.
  cbn [B.step]. rewrite Hfind. rewrite Hfuts. cbn [kf B.lookup]. rewrite Nat.eqb_refl.
  cbn [B.remove_key filter fst]. rewrite Nat.eqb_refl. cbn [negb].
  change (filter (fun p : nat * nat => negb (fst p =? B.it_key it)) (map kf rem'))
    with (B.remove_key (B.it_key it) (map kf rem')).
  rewrite remove_key_notin by (now rewrite map_fst_kf).
  unfold B.set_fut, B.is_done, B.log_bev, B.set_batch_futs. bproj. rewrite Hpend.
  unfold B.resolve. rewrite Hrt. change (0 <? 0)%N with false. cbn iota. bproj.
  match goal with |- context [B.wake_all C ?Y1] => destruct (wake_all_spec C Y1) as (cs & H1 & H2 & H3) end.
  { bproj. exact Hmore. }
  exists cs, (B.g_blog Y ++ [(b, B.EvYield (B.it_key it) (B.Val b))]). split; [|split; [exact H2|exact H3]].
  rewrite H1. destruct Y. reflexivity.
Qed.

Lemma run_from_cons C X e evs :
  B.run_from C X (e :: evs) =
  (snd (B.step C X e) :: fst (B.run_from C (fst (B.step C X e)) evs),
   snd (B.run_from C (fst (B.step C X e)) evs)).
Proof. cbn [B.run_from]. destruct (B.step C X e) as [X1 o]. cbn [fst snd]. now destruct (B.run_from C X1 evs). Qed.

Lemma lookup_cons_ne {A} (l : list (nat * A)) k k' v : k' <> k -> B.lookup ((k', v) :: l) k = B.lookup l k.
Proof. intros H. cbn [B.lookup]. destruct (Nat.eqb k' k) eqn:E; [apply Nat.eqb_eq in E; contradiction|reflexivity]. Qed.

(* all the results of batch b, in the order of its items *)
Lemma yields_run C b R0 bt0 : B.c_rt C = 0%N ->
  find (fun x => Nat.eqb (B.b_id x) b) R0 = Some bt0 ->
  forall rem Y,
    B.running Y = map (with_futs b (map kf rem)) R0 ->
    NoDup (map B.it_key rem) -> NoDup (map B.it_fid rem) ->
    (forall it, In it rem -> B.lookup (B.fdone Y) (B.it_fid it) = None) ->
    (forall cl, In cl (B.callers Y) -> B.cl_more cl = 0) ->
    let r := B.run_from C Y (map (fun it => B.BYield b (B.it_key it) (B.Val b)) rem) in
    exists cs gb fd,
      snd r = B.mkst (B.now Y) (B.maxb Y) (B.coll Y) (B.waiting Y) (map (with_futs b []) R0)
                     (B.free Y) (B.nbid Y) (B.nfut Y) fd
                     (fold_left (fun r it => B.remove_key (B.it_key it) r) rem (B.ret Y))
                     (B.rtimers Y) cs (B.g_items Y) (B.g_started Y) gb (B.g_spawn Y) (B.tie Y) (B.fuel_out Y) /\
      (forall f o, In (f, o) fd -> In (f, o) (B.fdone Y) \/ In f (map B.it_fid rem)) /\
      (forall cl, In cl cs -> B.cl_more cl = 0) /\
      obs_starts (concat (fst r)) = [].
Proof.
  intros Hrt Hfind. induction rem as [|it rem' IH]; intros Y Hrun Hnk Hnf Hpend Hmore r; unfold r; clear r.
  - cbn [map B.run_from fst snd concat obs_starts flat_map fold_left].
    exists (B.callers Y), (B.g_blog Y), (B.fdone Y). split; [|split; [|split]]; auto.
    destruct Y. cbn [B.running] in Hrun. subst. reflexivity.
  - cbn [map]. rewrite run_from_cons. cbn [fst snd concat].
    assert (Hf : B.find_batch Y b = Some (with_futs b (map kf (it :: rem')) bt0)).
    { unfold B.find_batch. rewrite Hrun, find_with_futs, Hfind. reflexivity. }
    assert (Hid : Nat.eqb (B.b_id bt0) b = true).
    { apply find_some in Hfind. apply Hfind. }
    assert (Hfu : B.b_futs (with_futs b (map kf (it :: rem')) bt0) = kf it :: map kf rem').
    { unfold with_futs. rewrite Hid. reflexivity. }
    inversion Hnk as [|? ? Hk1 Hk2]; subst. inversion Hnf as [|? ? Hf1 Hf2]; subst.
    destruct (yield_step C Y b _ it rem' Hrt Hf Hfu Hk1 (Hpend it (or_introl eq_refl)) Hmore)
      as (cs1 & gb1 & E1 & M1 & O1).
    rewrite E1. rewrite obs_starts_app, O1. cbn [app].
    match goal with |- context [B.run_from C ?Y1 _] => specialize (IH Y1) end.
    cbn [B.running B.fdone B.callers B.now B.maxb B.coll B.waiting B.free B.nbid B.nfut B.ret B.rtimers
         B.g_items B.g_started B.g_spawn B.tie B.fuel_out] in IH.
    destruct IH as (cs & gb & fd & E2 & F2 & M2 & O2).
    + rewrite Hrun. apply with_futs_twice.
    + exact Hk2.
    + exact Hf2.
    + intros it' Hin. rewrite lookup_cons_ne.
      * apply Hpend. now right.
      * intros Heq. apply Hf1. rewrite Heq. now apply in_map.
    + exact M1.
    + exists cs, gb, fd. split; [|split; [|split]].
      * exact E2.
      * intros f o Hin. destruct (F2 f o Hin) as [[Hx|Hx]|Hx].
        -- injection Hx as <- _. right. now left.
        -- now left.
        -- right. now right.
      * exact M2.
      * exact O2.
Qed.

(* the batch function returns: the slot goes to the first waiting batch, or is freed *)
Lemma finish_step C Y b R0 bt0 :
  find (fun x => Nat.eqb (B.b_id x) b) R0 = Some bt0 ->
  B.running Y = map (with_futs b []) R0 ->
  (forall cl, In cl (B.callers Y) -> B.cl_more cl = 0) ->
  let r := B.step C Y (B.BFinish b) in
  let R' := filter (fun x => negb (Nat.eqb (B.b_id x) b)) R0 in
  exists cs gb,
    (forall cl, In cl cs -> B.cl_more cl = 0) /\
    match B.waiting Y with
    | [] =>
        fst r = B.mkst (B.now Y) (B.maxb Y) (B.coll Y) [] R' (S (B.free Y)) (B.nbid Y) (B.nfut Y) (B.fdone Y) (B.ret Y)
                       (B.rtimers Y) cs (B.g_items Y) (B.g_started Y) gb (B.g_spawn Y) (B.tie Y) (B.fuel_out Y) /\
        obs_starts (snd r) = []
    | w :: ws =>
        fst r = B.mkst (B.now Y) (B.maxb Y) (B.coll Y) ws (R' ++ [B.mkbatch (B.nbid Y) w (B.futs_of w)]) (B.free Y)
                       (S (B.nbid Y)) (B.nfut Y) (B.fdone Y) (B.ret Y) (B.rtimers Y) cs (B.g_items Y)
                       (B.g_started Y ++ [(B.nbid Y, w, B.now Y)]) gb (B.g_spawn Y) (B.tie Y) (B.fuel_out Y) /\
        obs_starts (snd r) = [(B.now Y, map B.it_key w)]
    end.
Proof.
  intros Hfind Hrun Hmore r R'. unfold r, R'. clear r R'.
  assert (Hid : Nat.eqb (B.b_id bt0) b = true) by (apply find_some in Hfind; apply Hfind).
  assert (Hf : B.find_batch Y b = Some (with_futs b [] bt0)).
  { unfold B.find_batch. rewrite Hrun, find_with_futs, Hfind. reflexivity. }
  cbn [B.step]. rewrite Hf. unfold B.end_batch, B.log_bev. bproj.
  rewrite with_futs_id. apply Nat.eqb_eq in Hid. rewrite Hid. rewrite Hrun, filter_with_futs.
  unfold B.release_slot. bproj.
  assert (Hfu : B.b_futs (with_futs b [] bt0) = []).
  { unfold with_futs. rewrite Hid, Nat.eqb_refl. reflexivity. }
  rewrite Hfu. cbn [B.fanout].
  destruct (B.waiting Y) as [|w ws] eqn:Ew.
  - match goal with |- context [B.wake_all C ?Y1] => destruct (wake_all_spec C Y1) as (cs & H1 & H2 & H3) end.
    { bproj. exact Hmore. }
    exists cs, (B.g_blog Y ++ [(b, B.EvFin)]). split; [exact H2|].
    match goal with |- context [B.wake_all C ?Y1] => destruct (B.wake_all C Y1) as [Z o3] end.
    cbn [fst snd] in *. cbn [app]. rewrite app_nil_r. split; [|exact H3].
    rewrite H1. destruct Y. cbn [B.waiting] in Ew. subst. reflexivity.
  - unfold B.start_batch. bproj.
    match goal with |- context [B.wake_all C ?Y1] => destruct (wake_all_spec C Y1) as (cs & H1 & H2 & H3) end.
    { bproj. exact Hmore. }
    exists cs, (B.g_blog Y ++ [(b, B.EvFin)]). split; [exact H2|].
    match goal with |- context [B.wake_all C ?Y1] => destruct (B.wake_all C Y1) as [Z o3] end.
    cbn [fst snd] in *. rewrite app_nil_r, obs_starts_app, H3, app_nil_r. cbn [obs_starts flat_map app].
    rewrite map_fst_ka. split; [|reflexivity].
    rewrite H1. destruct Y. cbn [B.waiting] in Ew. subst. reflexivity.
Qed.

(* ---- list facts for removing a finished batch ------------------------------------ *)

Lemma NoDup_drop_mid {A} (a b c : list A) : NoDup (a ++ b ++ c) -> NoDup (a ++ c).
Proof.
  induction a as [|x a IH]; cbn [app]; intros H.
  - now apply NoDup_app_r' in H.
  - inversion H as [|? ? Hx Hr]; subst. constructor; [|now apply IH].
    intros Hin. apply Hx. apply in_app_or in Hin as [Hin|Hin]; apply in_or_app; [now left|right; apply in_or_app; now right].
Qed.

Lemma NoDup_mid_disjoint {A} (a b c : list A) x : NoDup (a ++ b ++ c) -> In x b -> ~ In x (a ++ c).
Proof.
  induction a as [|y a IH]; cbn [app]; intros H Hb Hin.
  - induction b as [|z b IHb]; [contradiction|]. cbn [app] in H. inversion H as [|? ? Hz Hr]; subst.
    destruct Hb as [->|Hb]; [apply Hz; apply in_or_app; now right | now apply IHb].
  - inversion H as [|? ? Hy Hr]; subst. destruct Hin as [->|Hin].
    + apply Hy. apply in_or_app. right. apply in_or_app. now left.
    + now apply (IH Hr Hb).
Qed.

Lemma NoDup_mid {A} (a b c : list A) : NoDup (a ++ b ++ c) -> NoDup b.
Proof. intros H. apply NoDup_app_r' in H. now apply NoDup_app_l' in H. Qed.

Lemma NoDup_map_inj' {A B} (g : A -> B) (l : list A) x y :
  NoDup (map g l) -> In x l -> In y l -> g x = g y -> x = y.
Proof.
  induction l as [|z l IH]; cbn [map]; intros H Hx Hy E; [contradiction|].
  inversion H as [|? ? Hz Hr]; subst. destruct Hx as [->|Hx], Hy as [->|Hy]; try reflexivity.
  - exfalso. apply Hz. rewrite E. now apply in_map.
  - exfalso. apply Hz. rewrite <- E. now apply in_map.
  - now apply IH.
Qed.

Lemma fold_remove_In (its : list B.item) : forall (ret : list (nat * nat)) p,
  In p (fold_left (fun r it => B.remove_key (B.it_key it) r) its ret) <->
  In p ret /\ ~ In (fst p) (map B.it_key its).
Proof.
  induction its as [|it its IH]; intros ret p; cbn [fold_left map].
  - split; [intros H; split; [assumption|intros []] | now intros [H _]].
  - rewrite IH. unfold B.remove_key. rewrite filter_In. split.
    + intros [[H1 H2] H3]. split; [assumption|]. intros [E|Hin]; [|contradiction].
      rewrite <- E, Nat.eqb_refl in H2. discriminate.
    + intros [H1 H2]. split; [split; [assumption|]|].
      * destruct (Nat.eqb (fst p) (B.it_key it)) eqn:E; [|reflexivity]. apply Nat.eqb_eq in E. exfalso. apply H2. now left.
      * intros Hin. apply H2. now right.
Qed.

Lemma lookup_None_In {A} (l : list (nat * A)) k v : B.lookup l k = None -> ~ In (k, v) l.
Proof. intros H Hin. apply (lookup_None_notin _ _ H). apply in_map_iff. now exists (k, v). Qed.

Lemma lookup_notin_None {A} (l : list (nat * A)) k : (forall v, ~ In (k, v) l) -> B.lookup l k = None.
Proof. intros H. destruct (B.lookup l k) as [v|] eqn:E; [|reflexivity]. apply lookup_In in E. now apply H in E. Qed.

Lemma rfly_remove F1 its F2 ret fdone nfut fd :
  Rfly (F1 ++ its ++ F2) ret fdone nfut ->
  (forall f o, In (f, o) fd -> In (f, o) fdone \/ In f (map B.it_fid its)) ->
  Rfly (F1 ++ F2) (fold_left (fun r it => B.remove_key (B.it_key it) r) its ret) fd nfut.
Proof.
  intros [H1 H2 H3 H4 H5 H6 H7] Hfd.
  assert (Hsub : forall it, In it (F1 ++ F2) -> In it (F1 ++ its ++ F2)).
  { intros it Hin. apply in_app_or in Hin as [Hin|Hin]; apply in_or_app; [now left|right; apply in_or_app; now right]. }
  rewrite !map_app in H3, H5.
  constructor.
  - intros it Hin. apply fold_remove_In. split; [apply H1; now apply Hsub|]. cbn [kf fst].
    intros Hk. apply (NoDup_mid_disjoint _ _ _ _ H3 Hk). rewrite <- map_app. now apply in_map.
  - intros p Hin. apply fold_remove_In in Hin as [Hin Hk]. destruct (H2 p Hin) as [it [Hi1 Hi2]].
    exists it. split; [|assumption]. apply in_app_or in Hi1 as [Hi1|Hi1]; [apply in_or_app; now left|].
    apply in_app_or in Hi1 as [Hi1|Hi1]; [|apply in_or_app; now right].
    exfalso. apply Hk. rewrite <- Hi2. cbn [kf fst]. now apply in_map.
  - rewrite map_app. now apply NoDup_drop_mid in H3.
  - intros it Hin. apply lookup_notin_None. intros v Hv. destruct (Hfd _ _ Hv) as [Hx|Hx].
    + now apply (lookup_None_In _ _ v (H4 it (Hsub it Hin))).
    + apply (NoDup_mid_disjoint _ _ _ _ H5 Hx). rewrite <- map_app. now apply in_map.
  - rewrite map_app. now apply NoDup_drop_mid in H5.
  - intros it Hin. apply H6. now apply Hsub.
  - intros f o Hin. destruct (Hfd _ _ Hin) as [Hx|Hx]; [now apply (H7 f o)|].
    apply in_map_iff in Hx as [it [<- Hx]]. apply H6. apply in_or_app. right. apply in_or_app. now left.
Qed.

(* Options' association lists against filters on the full model's lists *)
Definition rb (bt : B.batch) : nat * tasks := (B.b_id bt, map kf (B.b_items bt)).

Lemma assoc_rb b l : assoc b (map rb l) = option_map (fun bt => map kf (B.b_items bt)) (find (fun x => Nat.eqb (B.b_id x) b) l).
Proof.
  induction l as [|x l IH]; cbn [map assoc find option_map rb]; [reflexivity|].
  rewrite (Nat.eqb_sym b). destruct (Nat.eqb (B.b_id x) b); [reflexivity|assumption].
Qed.

Lemma unassoc_rb b l : unassoc b (map rb l) = map rb (filter (fun x => negb (Nat.eqb (B.b_id x) b)) l).
Proof.
  unfold unassoc. induction l as [|x l IH]; cbn [map filter rb fst]; [reflexivity|].
  destruct (Nat.eqb (B.b_id x) b); cbn [negb map]; now rewrite IH.
Qed.

Definition pend (p : nat * nat) : nat * rst := (fst p, RPend (snd p)).

Lemma unassoc_pend k l : unassoc k (map pend l) = map pend (B.remove_key k l).
Proof.
  unfold unassoc, B.remove_key. induction l as [|x l IH]; cbn [map filter pend fst]; [reflexivity|].
  destruct (Nat.eqb (fst x) k); cbn [negb map]; now rewrite IH.
Qed.

Lemma fold_unassoc_pend its : forall ret,
  fold_left (fun (r : list (nat * rst)) (kf0 : nat * nat) => unassoc (fst kf0) r) (map kf its) (map pend ret) =
  map pend (fold_left (fun r it => B.remove_key (B.it_key it) r) its ret).
Proof.
  induction its as [|it its IH]; intros ret; cbn [map fold_left kf fst]; [reflexivity|].
  now rewrite unassoc_pend, IH.
Qed.

Lemma filter_one_less b l bt :
  NoDup (map B.b_id l) -> In bt l -> B.b_id bt = b ->
  S (length (filter (fun x => negb (Nat.eqb (B.b_id x) b)) l)) = length l.
Proof.
  induction l as [|x l IH]; cbn [map filter length]; intros H Hin Hb; [contradiction|].
  inversion H as [|? ? Hx Hr]; subst. destruct Hin as [->|Hin].
  - rewrite Nat.eqb_refl. cbn [negb]. f_equal.
    assert (E : filter (fun x => negb (Nat.eqb (B.b_id x) (B.b_id bt))) l = l).
    { clear -Hx. induction l as [|y l IH]; cbn [filter]; [reflexivity|].
      destruct (Nat.eqb (B.b_id y) (B.b_id bt)) eqn:E.
      - apply Nat.eqb_eq in E. exfalso. apply Hx. cbn [map]. left. exact E.
      - cbn [negb]. f_equal. apply IH. intros Hin. apply Hx. now right. }
    now rewrite E.
  - destruct (Nat.eqb (B.b_id x) (B.b_id bt)) eqn:E.
    + apply Nat.eqb_eq in E. exfalso. apply Hx. rewrite E. now apply in_map.
    + cbn [negb length]. f_equal. now apply IH.
Qed.

Lemma NoDup_map_filter {A B} (g : A -> B) (p : A -> bool) l : NoDup (map g l) -> NoDup (map g (filter p l)).
Proof.
  induction l as [|x l IH]; cbn [map filter]; intros H; [constructor|].
  inversion H as [|? ? Hx Hr]; subst. destruct (p x); [|now apply IH].
  cbn [map]. constructor; [|now apply IH]. intros Hin. apply Hx.
  apply in_map_iff in Hin as [y [E Hy]]. apply filter_In in Hy as [Hy _]. rewrite <- E. now apply in_map.
Qed.

Lemma map_with_futs_same b fs l :
  (forall x, In x l -> Nat.eqb (B.b_id x) b = true -> B.b_futs x = fs) -> map (with_futs b fs) l = l.
Proof.
  induction l as [|x l IH]; cbn [map]; intros H; [reflexivity|].
  rewrite IH by (intros y Hy; apply H; now right). f_equal.
  unfold with_futs. destruct (Nat.eqb (B.b_id x) b) eqn:E; [|reflexivity].
  rewrite <- (H x (or_introl eq_refl) E). now destruct x.
Qed.

Lemma concat_split_items (R1 R2 : list B.batch) bt :
  concat (map B.b_items (R1 ++ bt :: R2)) = concat (map B.b_items R1) ++ B.b_items bt ++ concat (map B.b_items R2).
Proof. rewrite map_app, concat_app. reflexivity. Qed.

Lemma filter_split_id b (R1 R2 : list B.batch) bt :
  NoDup (map B.b_id (R1 ++ bt :: R2)) -> B.b_id bt = b ->
  filter (fun x => negb (Nat.eqb (B.b_id x) b)) (R1 ++ bt :: R2) = R1 ++ R2.
Proof.
  intros Hnd Hb. subst b. rewrite filter_app. cbn [filter]. rewrite Nat.eqb_refl. cbn [negb].
  assert (Hall : forall l, (forall x, In x l -> B.b_id x <> B.b_id bt) -> filter (fun x => negb (Nat.eqb (B.b_id x) (B.b_id bt))) l = l).
  { induction l as [|y l IH]; cbn [filter]; intros H; [reflexivity|].
    destruct (Nat.eqb (B.b_id y) (B.b_id bt)) eqn:E; [apply Nat.eqb_eq in E; exfalso; now apply (H y (or_introl eq_refl))|].
    cbn [negb]. f_equal. apply IH. intros x Hx. apply H. now right. }
  rewrite map_app in Hnd. cbn [map] in Hnd.
  rewrite !Hall; [reflexivity| |].
  - intros x Hx E. apply NoDup_app_r' in Hnd. inversion Hnd as [|? ? Hn _]; subst. apply Hn. rewrite <- E. now apply in_map.
  - intros x Hx E. apply (NoDup_mid_disjoint _ [B.b_id bt] _ (B.b_id bt) Hnd (or_introl eq_refl)).
    apply in_or_app. left. rewrite <- E. now apply in_map.
Qed.

(* the batch function of batch b returns (retention_timeout = 0) *)
Lemma sim_fin c s X b :
  cR c = 0%N -> Rs c s X ->
  let r := B.run_from (to_cfg c) X (fin_events X b) in
  Rs c (bstep c s (BFin b)) (snd r) /\ starts (bstep c s (BFin b)) = starts s ++ obs_starts (concat (fst r)).
Proof.
  intros HcR HR. unfold fin_events. cbn [bstep].
  rewrite <- (r_run _ _ _ HR). change (fun bt : B.batch => (B.b_id bt, map kf (B.b_items bt))) with rb.
  rewrite assoc_rb. fold (B.find_batch X b).
  destruct (B.find_batch X b) as [bt|] eqn:Ef; cbn [option_map].
  2:{ cbn [B.run_from fst snd concat obs_starts flat_map]. rewrite app_nil_r. split; [|reflexivity].
      exact HR. }
  unfold B.find_batch in Ef. destruct (find_some _ _ Ef) as [Hin Hid]. apply Nat.eqb_eq in Hid.
  destruct (in_split _ _ Hin) as (R1 & R2 & ER).
  pose proof (r_fly _ _ _ HR) as Hfly. unfold flight in Hfly. rewrite ER, concat_split_items, <- !app_assoc in Hfly.
  pose proof (r_idnd _ _ _ HR) as Hidnd.
  assert (Hk : NoDup (map B.it_key (B.b_items bt))).
  { pose proof (f_keys _ _ _ _ Hfly) as H. rewrite !map_app in H. now apply NoDup_mid in H. }
  assert (Hf : NoDup (map B.it_fid (B.b_items bt))).
  { pose proof (f_fids _ _ _ _ Hfly) as H. rewrite !map_app in H. now apply NoDup_mid in H. }
  assert (Hpend : forall it, In it (B.b_items bt) -> B.lookup (B.fdone X) (B.it_fid it) = None).
  { intros it Hit. apply (f_pend _ _ _ _ Hfly). apply in_or_app. right. apply in_or_app. now left. }
  assert (Hsame : B.running X = map (with_futs b (map kf (B.b_items bt))) (B.running X)).
  { symmetry. apply map_with_futs_same. intros x Hx Ex. apply Nat.eqb_eq in Ex.
    assert (x = bt) by (apply (NoDup_map_inj' B.b_id (B.running X)); try assumption; congruence). subst x.
    now apply (r_futs _ _ _ HR). }
  assert (HcR' : B.c_rt (to_cfg c) = 0%N) by exact HcR.
  rewrite run_from_app. cbn [fst snd].
  destruct (yields_run (to_cfg c) b (B.running X) bt HcR' Ef (B.b_items bt) X Hsame Hk Hf Hpend (r_more _ _ _ HR))
    as (cs1 & gb1 & fd1 & E1 & F1 & M1 & O1).
  rewrite E1. rewrite run_from_one. cbn [fst snd]. rewrite concat_app, obs_starts_app, O1. cbn [app concat]. rewrite app_nil_r.
  match goal with |- context [B.step (to_cfg c) ?Y2 _] =>
    destruct (finish_step (to_cfg c) Y2 b (B.running X) bt Ef eq_refl M1) as (cs2 & gb2 & M2 & HZ) end.
  cbn [B.waiting B.now B.maxb B.coll B.free B.nbid B.nfut B.fdone B.ret B.rtimers B.g_items B.g_started B.g_spawn B.tie B.fuel_out] in HZ.
  (* the Options side *)
  rewrite HcR. change (0 <? 0)%N with false. cbn iota.
  rewrite <- (r_ret _ _ _ HR). change (fun p : nat * nat => (fst p, RPend (snd p))) with pend.
  rewrite fold_unassoc_pend, unassoc_rb.
  rewrite ER in *. rewrite (filter_split_id b R1 R2 bt Hidnd Hid) in *.
  assert (Hlen : S (length (R1 ++ R2)) = length (R1 ++ bt :: R2)) by (rewrite !app_length; cbn [length]; lia).
  rewrite <- (r_wait _ _ _ HR).
  destruct (B.waiting X) as [|w ws] eqn:Ew; destruct HZ as [EZ OZ]; rewrite EZ, OZ; cbn [map].
  - (* nobody waits for the semaphore *)
    cbn [start_loop].
    split; [|now rewrite app_nil_r].
    destruct HR. constructor; bproj; try assumption; try reflexivity.
    + rewrite ER in r_futs0. intros x Hx. apply r_futs0. apply in_app_or in Hx as [Hx|Hx]; apply in_or_app; [now left|right; now right].
    + rewrite ER in r_free0. rewrite app_length in *. cbn [length] in *. lia.
    + intros H. now elim H.
    + rewrite ER in r_ids0. intros x Hx. apply r_ids0. apply in_app_or in Hx as [Hx|Hx]; apply in_or_app; [now left|right; now right].
    + rewrite map_app in *. cbn [map] in Hidnd. now apply (NoDup_drop_mid _ [B.b_id bt] _).
    + unfold flight, coll_items. bproj. cbn [concat app]. rewrite map_app, concat_app, <- app_assoc.
      cbn [concat app] in Hfly. exact (rfly_remove _ _ _ _ _ _ _ Hfly F1).
  - (* the first waiting batch gets the slot *)
    assert (Hfree0 : B.free X = 0) by (apply (r_wfree _ _ _ HR); rewrite Ew; discriminate).
    assert (HS : S (length (map rb (R1 ++ R2))) = cC c).
    { rewrite map_length, Hlen. pose proof (r_free _ _ _ HR) as H. rewrite ER in H. lia. }
    rewrite (start_loop_handover _ _ _ _ _ _ HS).
    assert (Hkw : NoDup (map B.it_key w)).
    { pose proof (f_keys _ _ _ _ Hfly) as H. cbn [concat] in H. rewrite !map_app in H.
      apply NoDup_app_r', NoDup_app_r', NoDup_app_r', NoDup_app_l', NoDup_app_l' in H. exact H. }
    split.
    + destruct HR. constructor; bproj; try assumption; try reflexivity.
      * change (fun bt0 : B.batch => (B.b_id bt0, map kf (B.b_items bt0))) with rb. rewrite map_app. cbn [map rb B.b_id B.b_items].
        now rewrite r_nbid0.
      * rewrite ER in r_futs0. intros x Hx. apply in_app_or in Hx as [Hx|[<-|[]]].
        -- apply r_futs0. apply in_app_or in Hx as [Hx|Hx]; apply in_or_app; [now left|right; now right].
        -- cbn [B.b_futs B.b_items]. now apply futs_of_nodup.
      * rewrite app_length. cbn [length]. rewrite map_length in HS. lia.
      * intros _. exact Hfree0.
      * rewrite ER in r_ids0. intros x Hx. apply in_app_or in Hx as [Hx|[<-|[]]]; [|cbn [B.b_id]; lia].
        assert (B.b_id x < B.nbid X); [|lia]. apply r_ids0. apply in_app_or in Hx as [Hx|Hx]; apply in_or_app; [now left|right; now right].
      * rewrite map_app. cbn [map B.b_id]. apply NoDup_snoc.
        -- rewrite map_app in *. cbn [map] in Hidnd. now apply (NoDup_drop_mid _ [B.b_id bt] _).
        -- intros Hx. apply in_map_iff in Hx as [x [E Hx]]. rewrite ER in r_ids0.
           assert (B.b_id x < B.nbid X); [|lia]. apply r_ids0. apply in_app_or in Hx as [Hx|Hx]; apply in_or_app; [now left|right; now right].
      * rewrite app_length. cbn [length]. lia.
      * pose proof (rfly_remove _ _ _ _ _ _ _ Hfly F1) as H.
        unfold flight, coll_items. bproj. rewrite !map_app, !concat_app. cbn [map concat B.b_items app].
        cbn [concat app] in H. rewrite ?app_nil_r. rewrite <- ?app_assoc in *. exact H.
    + cbn [starts]. rewrite map_fst_kf. now rewrite (r_now _ _ _ HR).
Qed.

Lemma sim_ev_ret0 c : cR c = 0%N -> forall s X x, True -> Rs c s X ->
  let r := B.run_from (to_cfg c) X (tr_ev X x) in
  Rs c (bstep c s x) (snd r) /\ starts (bstep c s x) = starts s ++ obs_starts (concat (fst r)).
Proof.
  intros HcR s X x _ HR. destruct x as [k|b|dt].
  - cbn [tr_ev]. rewrite run_from_one. cbn [fst snd concat]. rewrite app_nil_r. now apply sim_call.
  - cbn [tr_ev]. now apply sim_fin.
  - cbn [tr_ev]. rewrite run_from_one. cbn [fst snd concat]. rewrite app_nil_r. now apply sim_adv.
Qed.

(* stage 2: every script, retention_timeout = 0 (max_batch_size, max_concurrent_batches, batch_timeout arbitrary) *)
Lemma batcher_refines_ret0 : forall (c : bcfg) (sc : list bev),
  cR c = 0%N -> full_starts c sc = starts (brun c sc).
Proof.
  intros c sc H. apply (full_starts_ok c (fun _ => True) (sim_ev_ret0 c H)).
  apply Forall_forall. intros; exact I.
Qed.
