(* BatcherChain.v — model-side facts for event lists WITH Chain events:
   * [do_chains]: every call-making transformer of the model (do_call, do_chain,
     do_calls, do_recalls) as one function over triples (arg, key, remaining calls);
   * the order in which resumed tasks call again: the stable sort by future id
     ([sort_rc]) is the grouping in the order in which the futures were resolved, when
     that order is ascending in future id ([sort_group]);
   * the two phases of a batch-function event: resolve + wake (state [s_r], which
     satisfies all invariants), then the resumed tasks call again ([do_recalls]). *)
From Coq Require Import List Arith NArith Bool Lia ZifyBool ZifyNat ZifyN.
Import ListNotations.
Require Import Aiuti.Batcher Aiuti.BatcherLift Aiuti.BatcherLimits Aiuti.BatcherTime Aiuti.BatcherInv Aiuti.BatcherProps.

Local Arguments N.add : simpl never.
Local Arguments N.leb : simpl never.
Local Arguments N.max : simpl never.
Local Arguments Nat.ltb : simpl never.
Local Arguments Nat.leb : simpl never.

(* ---- all calls as chains ------------------------------------------------------------------------ *)

Fixpoint do_chains (c : cfg) (l : list (nat * option nat * nat)) (s : state) : state * list obs :=
  match l with
  | [] => (s, [])
  | (a, ko, m) :: r =>
      let '(s1, o1) := do_chain c a ko m s in
      let '(s2, o2) := do_chains c r s1 in
      (s2, o1 ++ o2)
  end.

Lemma do_chain_0 c a ko s : do_chain c a ko 0 s = do_call c a ko 0 s.
Proof. simpl. destruct (do_call c a ko 0 s). reflexivity. Qed.

Lemma do_calls_chains c l : forall s, do_calls c l s = do_chains c (map (fun p => (fst p, snd p, 0)) l) s.
Proof.
  induction l as [|[a ko] r IH]; intros s; simpl; auto.
  destruct (do_call c a ko 0 s) as [s1 o1]. now rewrite IH.
Qed.

Lemma do_recalls_chains c rc : forall s, do_recalls c rc s = do_chains c (map snd rc) s.
Proof.
  induction rc as [|[f [[a ko] m]] r IH]; intros s; simpl; auto.
  destruct (do_chain c a ko m s) as [s1 o1]. now rewrite IH.
Qed.

Lemma do_chains_one c a ko m s : do_chains c [(a, ko, m)] s = (fst (do_chain c a ko m s), snd (do_chain c a ko m s) ++ []).
Proof. simpl. destruct (do_chain c a ko m s). reflexivity. Qed.

(* ---- stable sort by future id = grouping in resolution order --------------------------------------- *)

Section SortGroup.
  Local Notation X := (nat * option nat * nat)%type.

  Definition group (F : list nat) (l : list (nat * X)) : list (nat * X) :=
    flat_map (fun f => filter (fun x => Nat.eqb (fst x) f) l) F.

  Fixpoint sasc (n : nat) (l : list nat) : Prop :=
    match l with [] => True | x :: r => n <= x /\ sasc (S x) r end.

  Lemma sasc_weaken n n' l : n' <= n -> sasc n l -> sasc n' l.
  Proof. destruct l; simpl; auto. intros H [H1 H2]. split; auto. lia. Qed.

  Lemma sasc_ge n l x : sasc n l -> In x l -> n <= x.
  Proof.
    revert n. induction l as [|y r IH]; intros n H Hx; [destruct Hx|]. destruct H as [H1 H2].
    destruct Hx as [<-|Hx]; auto. specialize (IH _ H2 Hx). lia.
  Qed.

  Lemma insert_rc_pass (x : nat * X) A B :
    (forall y, In y A -> fst y <= fst x) -> insert_rc x (A ++ B) = A ++ insert_rc x B.
  Proof.
    induction A as [|y r IH]; intros H; simpl; auto.
    assert (Hy : fst y <= fst x) by (apply H; now left). apply Nat.leb_le in Hy.
    rewrite Hy. f_equal. apply IH. intros z Hz. apply H. now right.
  Qed.

  Lemma insert_rc_head (x : nat * X) B : (forall y, In y B -> fst x < fst y) -> insert_rc x B = x :: B.
  Proof.
    destruct B as [|y r]; simpl; auto. intros H. assert (Hy : fst x < fst y) by (apply H; now left).
    apply Nat.leb_gt in Hy. now rewrite Hy.
  Qed.

  Lemma group_keys F l y : In y (group F l) -> In (fst y) F.
  Proof.
    unfold group. intros H. apply in_flat_map in H as (f & Hf & H). apply filter_In in H as [_ H].
    apply Nat.eqb_eq in H. now subst.
  Qed.

  Lemma group_snoc_notin F l x : ~ In (fst x) F -> group F (l ++ [x]) = group F l.
  Proof.
    induction F as [|f F' IH]; intros H; auto. unfold group. simpl. fold (group F' l) (group F' (l ++ [x])).
    rewrite IH by (intros H'; apply H; now right). f_equal. rewrite filter_app. simpl.
    destruct (Nat.eqb_spec (fst x) f) as [E|N]; [|apply app_nil_r]. exfalso. apply H. now left.
  Qed.

  Lemma insert_group F : forall n l x,
    sasc n F -> In (fst x) F -> insert_rc x (group F l) = group F (l ++ [x]).
  Proof.
    induction F as [|f F' IH]; intros n l x Hs Hin; [destruct Hin|].
    simpl in Hs. destruct Hs as [Hn Hs]. unfold group. simpl. fold (group F' l) (group F' (l ++ [x])).
    rewrite filter_app. simpl.
    assert (HA : forall y, In y (filter (fun x0 => Nat.eqb (fst x0) f) l) -> fst y = f).
    { intros y Hy. apply filter_In in Hy as [_ Hy]. now apply Nat.eqb_eq in Hy. }
    destruct (Nat.eqb_spec (fst x) f) as [E|N].
    - rewrite insert_rc_pass by (intros y Hy; rewrite (HA y Hy); lia).
      rewrite insert_rc_head.
      + rewrite group_snoc_notin; [now rewrite <- app_assoc|].
        intros H. pose proof (sasc_ge _ _ _ Hs H). lia.
      + intros y Hy. apply group_keys in Hy. pose proof (sasc_ge _ _ _ Hs Hy). lia.
    - destruct Hin as [Hin|Hin]; [congruence|]. rewrite app_nil_r.
      rewrite insert_rc_pass.
      + f_equal. apply (IH (S f)); auto.
      + intros y Hy. rewrite (HA y Hy). pose proof (sasc_ge _ _ _ Hs Hin). lia.
  Qed.

  Lemma sort_group n F l :
    sasc n F -> (forall x, In x l -> In (fst x) F) -> sort_rc l = group F l.
  Proof.
    intros Hs. unfold sort_rc.
    assert (G : forall l2 l1, (forall x, In x l2 -> In (fst x) F) ->
              fold_left (fun acc x => insert_rc x acc) l2 (group F l1) = group F (l1 ++ l2)).
    { induction l2 as [|x r IH]; intros l1 H; simpl; [now rewrite app_nil_r|].
      rewrite (insert_group F n l1 x Hs) by (apply H; now left).
      rewrite IH by (intros y Hy; apply H; now right). now rewrite <- app_assoc. }
    intros H. assert (E : group F [] = []).
    { unfold group. clear. induction F; simpl; auto. }
    rewrite <- E at 1. now rewrite G.
  Qed.
End SortGroup.

Lemma sasc_app_r n l1 l2 : sasc n (l1 ++ l2) -> sasc n l2.
Proof.
  revert n. induction l1 as [|x r IH]; intros n H; simpl in *; auto. destruct H as [H1 H2].
  apply (sasc_weaken (S x)); [lia|]. now apply IH.
Qed.

Lemma sasc_app_l n l1 l2 : sasc n (l1 ++ l2) -> sasc n l1.
Proof.
  revert n. induction l1 as [|x r IH]; intros n H; simpl in *; auto. destruct H as [H1 H2]. split; auto.
Qed.

Lemma sasc_seq n : forall a, sasc a (seq a n).
Proof. induction n as [|n IH]; intros a; simpl; auto. Qed.

Lemma sasc_filter {A} (g : A -> nat) (f : A -> bool) l : forall n, sasc n (map g l) -> sasc n (map g (filter f l)).
Proof.
  induction l as [|x r IH]; intros n H; simpl in *; auto. destruct H as [H1 H2].
  destruct (f x); simpl.
  - split; auto.
  - apply (sasc_weaken (S (g x))); [lia|]. now apply IH.
Qed.

(* ---- the two phases of [wake_all] ------------------------------------------------------------------ *)

Definition chains_of (s : state) : list (nat * option nat * nat) :=
  map snd (sort_rc (recalls_of (fdone s) (callers s))).

Lemma wake_all_split c s :
  wake_all c s = (fst (do_chains c (chains_of s) (fst (wake s))),
                  snd (wake s) ++ snd (do_chains c (chains_of s) (fst (wake s)))).
Proof.
  unfold wake_all, chains_of. destruct (wake s) as [s1 o1]. rewrite do_recalls_chains. simpl.
  destruct (do_chains c _ s1). reflexivity.
Qed.

(* the items of a started batch carry ascending future ids *)
Lemma started_fids_asc s b its t : Fifo s -> SInv s -> In (b, its, t) (g_started s) -> sasc 0 (map it_fid its).
Proof.
  intros F S H. pose proof (g_items_split s F) as G. apply in_split in H as (l1 & l2 & E).
  rewrite E, flat_map_app in G. simpl in G. unfold st_items at 2 in G. simpl in G.
  pose proof (S_fids _ S) as Hf. rewrite G, !map_app in Hf.
  pose proof (sasc_seq (nfut s) 0) as Hs. rewrite <- Hf in Hs.
  apply sasc_app_l in Hs. apply sasc_app_r in Hs. now apply sasc_app_l in Hs.
Qed.
