(* CacheLemmas.v — list-map lemmas and the case analysis of Cache.step used by CacheInv.v. *)
From Coq Require Import List Arith NArith Bool Lia ZifyBool ZifyNat ZifyN.
Import ListNotations.
Require Import Aiuti.Cache.

Lemma lget_lset {A} (d : A) l n m v :
  lget d (lset d l n v) m = if n =? m then v else lget d l m.
Proof.
  revert l m. induction n as [|n IH]; intros [|x r] [|m]; simpl; auto;
    try (destruct m; reflexivity); try (rewrite IH; destruct (n =? m); auto; destruct m; reflexivity).
Qed.

Lemma lget_lset_eq {A} (d : A) l n v : lget d (lset d l n v) n = v.
Proof. rewrite lget_lset, Nat.eqb_refl. reflexivity. Qed.

Lemma lget_lset_neq {A} (d : A) l n m v : n <> m -> lget d (lset d l n v) m = lget d l m.
Proof. intros H. rewrite lget_lset. destruct (Nat.eqb_spec n m); [contradiction|reflexivity]. Qed.

Lemma lget_app_default {A} (d : A) l m : lget d (l ++ [d]) m = lget d l m.
Proof. revert m. induction l as [|x r IH]; intros [|m]; simpl; auto; destruct m; reflexivity. Qed.

Lemma length_lset_ge {A} (d : A) l n v : length l <= length (lset d l n v).
Proof. revert l. induction n as [|n IH]; intros [|x r]; simpl; try lia. specialize (IH r). lia. Qed.

Lemma nth_error_lset {A} (d : A) l n m v :
  n < length l -> nth_error (lset d l n v) m = if n =? m then Some v else nth_error l m.
Proof.
  revert l m. induction n as [|n IH]; intros [|x r] [|m] H; simpl in *; try lia; auto.
  apply IH. lia.
Qed.

Lemma nth_error_Some_lt {A} (l : list A) n x : nth_error l n = Some x -> n < length l.
Proof. intros H. apply nth_error_Some. congruence. Qed.

Lemma nth_error_snoc {A} (l : list A) x m :
  nth_error (l ++ [x]) m = if m =? length l then Some x else nth_error l m.
Proof.
  destruct (m =? length l) eqn:E.
  - apply Nat.eqb_eq in E. subst. rewrite nth_error_app2, Nat.sub_diag by lia. reflexivity.
  - apply Nat.eqb_neq in E. destruct (Nat.lt_ge_cases m (length l)).
    + apply nth_error_app1. assumption.
    + rewrite (proj2 (nth_error_None l m)) by lia.
      apply nth_error_None. rewrite app_length. simpl. lia.
Qed.

Lemma nth_error_map' {A B} (f : A -> B) l n : nth_error (map f l) n = option_map f (nth_error l n).
Proof. apply nth_error_map. Qed.

(* ---- projections of the state updates ---- *)
Lemma getc_set_pc s c cr0 cr p c' :
  getc s c = Some cr0 ->
  getc (set_pc s c cr p) c' = if c =? c' then Some (mkC (cloop cr) (ckey cr) p (ccanc cr)) else getc s c'.
Proof. intros H. unfold getc, set_pc in *. simpl. apply nth_error_lset. eapply nth_error_Some_lt; eauto. Qed.

Definition own_ev (p : pc) : option nat :=
  match p with
  | PUnlock (DComp e) | PInvoke e | PComp _ e | PPublish _ e | PFinLock e _ => Some e
  | _ => None
  end.
Definition pre_phase (p : pc) : bool :=
  match p with PUnlock (DComp _) | PInvoke _ => true | _ => false end.
Definition locked_pc (p : pc) : bool :=
  match p with PReprobe | PMiss2 | PUnlock _ | PFinUnlock _ => true | _ => false end.
Definition run_pc (p : pc) : bool :=
  match p with
  | PProbe | PMiss1 | PLock | PReprobe | PMiss2 | PUnlock _ | PInvoke _ | PPublish _ _ | PXSub _ _
  | PFinLock _ (ORet _) => true
  | _ => false
  end.
Definition val_of (p : pc) : option nat :=
  match p with
  | PFinish (ORet v) | PUnlock (DHit v) | PFinLock _ (ORet v) | PFinUnlock (ORet v) | PDone (ORet v) => Some v
  | PPublish i _ => Some i
  | _ => None
  end.

Lemma run_pc_not_suspended p : run_pc p = true -> suspended p = false.
Proof. destruct p as [| | | | | |d| | | |e o| | | | | |]; simpl; try discriminate; auto. Qed.

(* ---- case analysis of one step ---- *)
Ltac destr_in H :=
  match type of H with
  | context [match ?x with _ => _ end] =>
      match x with
      | context [match _ with _ => _ end] => fail 1
      | _ => let E := fresh "E" in destruct x eqn:E; try discriminate H
      end
  | context [if ?b then _ else _] =>
      match b with
      | context [if _ then _ else _] => fail 1
      | context [match _ with _ => _ end] => fail 1
      | _ => let E := fresh "E" in destruct b eqn:E; try discriminate H
      end
  end.

(* ---- the transitions of Cache.step as a relation (one constructor per enabled case) ---- *)
Definition probe_pc (s : state) (cr : crec) : pc :=
  match cache_at s (ckey cr) with Some v => PFinish (ORet v) | None => PMiss1 end.
Definition reprobe_pc (s : state) (cr : crec) : pc :=
  match cache_at s (ckey cr) with Some v => PUnlock (DHit v) | None => PMiss2 end.

Definition can_probe (s : state) (cr : crec) : Prop :=
  (cpc cr = PStart /\ ccanc cr = false) \/ cpc cr = PProbe
  \/ (exists e dl, cpc cr = PWait e dl /\ ccanc cr = false /\ (isset s e || (dl <=? now s)%N) = true)
  \/ (exists l e dl xd xs, cpc cr = PWaitX l e dl xd xs /\ ccanc cr = false
                           /\ ((match xd with Some _ => true | None => false end) || (dl <=? now s)%N) = true).

Definition rel_pc (s : state) (cr : crec) (p : pc) : Prop :=
  match cpc cr with
  | PUnlock (DHit v) => p = PFinish (ORet v)
  | PUnlock (DComp e) => p = PInvoke e
  | PUnlock (DWait l e) => p = if l =? cloop cr then PWait e (now s + SAFETY) else PXSub l e
  | PFinUnlock o => p = PFinish o
  | _ => False
  end.

Inductive trans (s : state) : ev -> state -> Prop :=
| TProbe t c cr : getc s c = Some cr -> cloop cr = t -> lp s t = LRun -> can_probe s cr ->
    trans s (Get t c) (set_pc s c cr (probe_pc s cr))
| TReprobe t c cr : getc s c = Some cr -> cloop cr = t -> lp s t = LRun -> cpc cr = PReprobe ->
    trans s (Get t c) (set_pc s c cr (reprobe_pc s cr))
| TMiss1 t c cr : getc s c = Some cr -> cloop cr = t -> lp s t = LRun -> cpc cr = PMiss1 ->
    trans s (Miss t c) (set_pc s c cr PLock)
| TMiss2 t c cr : getc s c = Some cr -> cloop cr = t -> lp s t = LRun -> cpc cr = PMiss2 ->
    trans s (Miss t c) (decide s c cr)
| TAcqLock t c cr : getc s c = Some cr -> cloop cr = t -> lp s t = LRun -> lock s = None -> cpc cr = PLock ->
    trans s (Acq t c) (set_pc (set_lock s (Some c)) c cr PReprobe)
| TAcqFin t c cr e o : getc s c = Some cr -> cloop cr = t -> alive (lp s t) = true -> lock s = None ->
    cpc cr = PFinLock e o -> trans s (Acq t c) (fin s c cr e o)
| TRel t c cr p : getc s c = Some cr -> cloop cr = t -> alive (lp s t) = true -> lock s = Some c ->
    rel_pc s cr p -> trans s (Rel t c) (set_pc (set_lock s None) c cr p)
| TSetC t c cr i e : getc s c = Some cr -> cloop cr = t -> lp s t = LRun -> cpc cr = PPublish i e ->
    trans s (SetC t c) (set_pc (set_cache s (ckey cr) i) c cr (PFinLock e (ORet i)))
| TXSubClosed t c cr l e : getc s c = Some cr -> cloop cr = t -> lp s t = LRun -> cpc cr = PXSub l e ->
    lp s l = LClosed -> trans s (XSub t c) (set_pc s c cr PProbe)
| TXSub t c cr l e : getc s c = Some cr -> cloop cr = t -> lp s t = LRun -> cpc cr = PXSub l e ->
    lp s l <> LClosed -> trans s (XSub t c) (set_pc s c cr (PWaitX l e (now s + SAFETY) None false))
| TIStart c cr e : getc s c = Some cr -> lp s (cloop cr) = LRun -> cpc cr = PInvoke e ->
    trans s (IStart (length (invs s)) c (now s))
          (set_pc (set_invs s (invs s ++ [mkI (ckey cr) (cloop cr) c IActive])) c cr (PComp (length (invs s)) e))
| TIEndOk i ir cr e : nth_error (invs s) i = Some ir -> getc s (icaller ir) = Some cr ->
    alive (lp s (cloop cr)) = true -> cpc cr = PComp i e -> istat ir = IActive -> ccanc cr = false ->
    trans s (IEnd i 0 (now s)) (set_pc (set_istat s i ir IOk) (icaller ir) cr (PPublish i e))
| TIEndExc i ir cr e : nth_error (invs s) i = Some ir -> getc s (icaller ir) = Some cr ->
    alive (lp s (cloop cr)) = true -> cpc cr = PComp i e -> istat ir = IActive -> ccanc cr = false ->
    trans s (IEnd i 1 (now s)) (set_pc (set_istat s i ir IExc) (icaller ir) cr (PFinLock e (OExc i)))
| TIEndCanc i ir cr e : nth_error (invs s) i = Some ir -> getc s (icaller ir) = Some cr ->
    alive (lp s (cloop cr)) = true -> cpc cr = PComp i e -> (istat ir = IActive \/ istat ir = IAband) ->
    ccanc cr = true ->
    trans s (IEnd i 2 (now s)) (set_pc (set_istat s i ir ICanc) (icaller ir) cr (PFinLock e OCanc))
| TCancel c cr : getc s c = Some cr -> alive (lp s (cloop cr)) = true -> suspended (cpc cr) = true ->
    is_done (cpc cr) = false ->
    trans s (Cancel c (now s)) (set_callers s (lset dummyC (callers s) c (mkC (cloop cr) (ckey cr) (cpc cr) true)))
| TDoneFin c cr o : getc s c = Some cr -> alive (lp s (cloop cr)) = true -> cpc cr = PFinish o ->
    trans s (Done c (fst (enc o)) (snd (enc o)) (now s)) (set_pc s c cr (PDone o))
| TDoneCanc c cr : getc s c = Some cr -> alive (lp s (cloop cr)) = true ->
    (exists e dl, cpc cr = PWait e dl) \/ (exists l e dl xd xs, cpc cr = PWaitX l e dl xd xs) ->
    ccanc cr = true -> trans s (Done c 2 0 (now s)) (set_pc s c cr (PDone OCanc))
| TProxy t c cr e dl xs r : getc s c = Some cr -> cpc cr = PWaitX t e dl None xs ->
    match r with
    | 0 => isset s e = true /\ alive (lp s t) = true
    | 1 => lp s t = LShut
    | 2 => lp s t = LShut /\ xs = false
    | _ => False
    end -> trans s (Proxy t c r) (set_pc s c cr (PWaitX t e dl (Some r) xs))
| TLoopStop t : lp s t = LRun -> forallb (on_loop t (fun cr => suspended (cpc cr))) (callers s) = true ->
    trans s (LoopEv t 0) (set_invs (set_loops s (lset LClosed (loops s) t LStop)) (map (abandon t) (invs s)))
| TLoopShut t : lp s t = LStop ->
    trans s (LoopEv t 1) (set_loops s (lset LClosed (loops s) t LShut))
| TLoopShutDone t : lp s t = LShut ->
    forallb (on_loop t (fun cr => done_or_unstarted (cpc cr))) (callers s) = true ->
    trans s (LoopEv t 2) (set_loops s (lset LClosed (loops s) t LStop))
| TLoopClose t : lp s t = LStop -> trans s (LoopEv t 3) (set_loops s (lset LClosed (loops s) t LClosed))
| TAdv tick : (now s <= tick)%N -> quiescent s tick = true ->
    trans s (Adv tick) (set_now (set_callers s (map (mark_started s) (callers s))) tick)
| TEnd : forallb (fun st => negb (alive st)) (loops s) = true -> trans s (End 0) (set_ended s).

Lemma N_eqb_eq' a b : (a =? b)%N = true -> a = b.
Proof. apply N.eqb_eq. Qed.

Ltac boolprep :=
  repeat match goal with
  | H : (_ && _) = true |- _ => apply andb_prop in H; destruct H
  | H : (_ =? _) = true |- _ => apply Nat.eqb_eq in H
  | H : (_ =? _)%N = true |- _ => apply N.eqb_eq in H
  | H : negb _ = true |- _ => apply negb_true_iff in H
  | H : running ?x = true |- _ => destruct x eqn:?; simpl in H; try discriminate H; clear H
  end.

Lemma do_probe_eq s c cr : do_probe s c cr = set_pc s c cr (probe_pc s cr).
Proof. unfold do_probe, probe_pc. destruct (cache_at s (ckey cr)); reflexivity. Qed.

Lemma step_trans s e s' : step s e = Some s' -> ended s = false /\ trans s e s'.
Proof.
  intros H. unfold step in H.
  destruct (ended s) eqn:Hend; [discriminate|]. split; [reflexivity|].
  destruct e; unfold guard in H; repeat destr_in H; boolprep; subst;
    try (injection H as <-); try discriminate; try rewrite do_probe_eq.
  all: try solve [ econstructor; eauto; unfold can_probe, rel_pc;
                   repeat match goal with Hc : cpc _ = _ |- _ => rewrite Hc end;
                   repeat match goal with Hc : (_ =? _) = _ |- _ => rewrite Hc end;
                   simpl; eauto 10; try congruence; try (apply N.leb_le; assumption) ].
  - replace (PUnlock (DHit n)) with (reprobe_pc s c0) by (unfold reprobe_pc; rewrite E2; reflexivity).
    econstructor; eauto.
  - replace PMiss2 with (reprobe_pc s c0) by (unfold reprobe_pc; rewrite E2; reflexivity).
    econstructor; eauto.
  - eapply TProbe; eauto. right. right. right. exists l, e, dl, (Some n), xs. auto.
  - eapply TProbe; eauto. right. right. right. exists l, e, dl, None, xs. auto.
  - eapply TRel; eauto. unfold rel_pc.
    repeat match goal with Hc : cpc _ = _ |- _ => rewrite Hc end.
    rewrite Nat.eqb_refl. reflexivity.
Qed.

(* ---- decide / fin by cases ---- *)
Lemma decide_cases s c cr :
  (exists l e, marker_at s (ckey cr) = Some (l, e) /\ alive (lp s l) = true
               /\ decide s c cr = set_pc s c cr (PUnlock (DWait l e)))
  \/ ((marker_at s (ckey cr) = None
       \/ exists l e, marker_at s (ckey cr) = Some (l, e) /\ alive (lp s l) = false)
      /\ decide s c cr =
         set_pc (set_evset (set_marker s (ckey cr) (Some (cloop cr, length (evset s)))) (evset s ++ [false]))
                c cr (PUnlock (DComp (length (evset s))))).
Proof.
  unfold decide. destruct (marker_at s (ckey cr)) as [[l e]|] eqn:Hm.
  - destruct (alive (lp s l)) eqn:Ha.
    + left. exists l, e. auto.
    + right. split; auto. right. exists l, e. auto.
  - right. split; auto.
Qed.

Lemma fin_cases s c cr e o :
  ((exists l, marker_at s (ckey cr) = Some (l, e))
   /\ fin s c cr e o =
      set_pc (set_lock (set_marker (set_evset s (lset false (evset s) e true)) (ckey cr) None) (Some c))
             c cr (PFinUnlock o))
  \/ ((forall l, marker_at s (ckey cr) <> Some (l, e))
      /\ fin s c cr e o =
         set_pc (set_lock (set_evset s (lset false (evset s) e true)) (Some c)) c cr (PFinUnlock o)).
Proof.
  unfold fin.
  change (marker_at (set_evset s (lset false (evset s) e true)) (ckey cr)) with (marker_at s (ckey cr)).
  destruct (marker_at s (ckey cr)) as [[l e']|] eqn:Hm.
  - destruct (Nat.eqb_spec e' e).
    + subst. left. split; eauto.
    + right. split; auto. intros l' H. injection H as _ H. contradiction.
  - right. split; auto. intros l' H. discriminate.
Qed.

Lemma getc_cancel s c cr0 x c' :
  getc s c = Some cr0 ->
  getc (set_callers s (lset dummyC (callers s) c x)) c' = if c =? c' then Some x else getc s c'.
Proof. intros H. unfold getc, set_callers in *. simpl. apply nth_error_lset. eapply nth_error_Some_lt; eauto. Qed.

Lemma getc_map s f (s0 : state) c :
  callers s0 = map f (callers s) -> getc s0 c = option_map f (getc s c).
Proof. intros H. unfold getc. rewrite H. apply nth_error_map. Qed.

Lemma mark_started_props s cr :
  cloop (mark_started s cr) = cloop cr /\ ckey (mark_started s cr) = ckey cr
  /\ ccanc (mark_started s cr) = ccanc cr
  /\ (cpc (mark_started s cr) = cpc cr
      \/ exists l e dl xd, cpc cr = PWaitX l e dl xd false /\ cpc (mark_started s cr) = PWaitX l e dl xd true).
Proof.
  unfold mark_started. destruct (cpc cr) eqn:E; auto. destruct xs; auto.
  destruct (alive (lp s l)); simpl; auto. repeat split; auto. right. eauto 10.
Qed.

(* classifiers are insensitive to the "proxy started" flag / cancellation mark *)
Lemma ms_class {A} (f : pc -> A) s cr :
  (forall l e dl xd xs xs', f (PWaitX l e dl xd xs) = f (PWaitX l e dl xd xs')) ->
  f (cpc (mark_started s cr)) = f (cpc cr).
Proof.
  intros Hf. destruct (mark_started_props s cr) as (_ & _ & _ & [-> | (l & e & dl & xd & -> & ->)]); auto.
Qed.
Lemma ms_own s cr : own_ev (cpc (mark_started s cr)) = own_ev (cpc cr).
Proof. apply ms_class. reflexivity. Qed.
Lemma ms_locked s cr : locked_pc (cpc (mark_started s cr)) = locked_pc (cpc cr).
Proof. apply ms_class. reflexivity. Qed.
Lemma ms_run s cr : run_pc (cpc (mark_started s cr)) = run_pc (cpc cr).
Proof. apply ms_class. reflexivity. Qed.
Lemma ms_pre s cr : pre_phase (cpc (mark_started s cr)) = pre_phase (cpc cr).
Proof. apply ms_class. reflexivity. Qed.
Lemma ms_val s cr : val_of (cpc (mark_started s cr)) = val_of (cpc cr).
Proof. apply ms_class. reflexivity. Qed.
Lemma ms_loop s cr : cloop (mark_started s cr) = cloop cr.
Proof. apply mark_started_props. Qed.
Lemma ms_key s cr : ckey (mark_started s cr) = ckey cr.
Proof. apply mark_started_props. Qed.
Lemma forallb_nth {A} (f : A -> bool) l n x : forallb f l = true -> nth_error l n = Some x -> f x = true.
Proof. intros H Hn. rewrite forallb_forall in H. apply H. eapply nth_error_In; eauto. Qed.

(* ---- tactics shared by the invariant files ---- *)
Lemma lp_set_loops st l t : lp (set_loops st l) t = lget LClosed l t.
Proof. reflexivity. Qed.

Ltac tcases H :=
  destruct H;
  try match goal with
      | |- context [decide ?s ?c ?cr] =>
          let l := fresh "ml" in let e := fresh "me" in let Hm := fresh "Hm" in let Hal := fresh "Hal" in
          let Hq := fresh "Hq" in
          destruct (decide_cases s c cr) as [(l & e & Hm & Hal & Hq) | (Hm & Hq)]; rewrite Hq in *; clear Hq
      end;
  try match goal with
      | |- context [fin ?s ?c ?cr ?e ?o] =>
          let Hm := fresh "Hm" in let Hq := fresh "Hq" in
          destruct (fin_cases s c cr e o) as [(Hm & Hq) | (Hm & Hq)]; rewrite Hq in *; clear Hq
      end.

Ltac getc_in Hg :=
  first
    [ erewrite getc_set_pc in Hg by eassumption
    | erewrite getc_cancel in Hg by eassumption
    | erewrite (getc_map _ (mark_started _)) in Hg by reflexivity
    | idtac ].

Ltac split_eq Hg :=
  match type of Hg with
  | (if ?a =? ?b then _ else _) = _ =>
      destruct (Nat.eqb_spec a b); [subst; injection Hg as Hg; try subst | ]
  | _ => idtac
  end.

Ltac len_tac :=
  simpl; rewrite ?app_length; simpl;
  try match goal with |- context [lset false ?l ?n ?v] => pose proof (length_lset_ge false l n v) end; lia.

Ltac mv_simpl :=
  unfold probe_pc, reprobe_pc in *;
  try match goal with
      | H : rel_pc _ ?cr _ |- _ =>
          unfold rel_pc in H; destruct (cpc cr) eqn:?Hpc; try contradiction;
          try match goal with d : decision |- _ => destruct d end; subst
      end;
  repeat match goal with
         | H : context [match cache_at ?s ?k with _ => _ end] |- _ => destruct (cache_at s k) eqn:?Hca
         | |- context [match cache_at ?s ?k with _ => _ end] => destruct (cache_at s k) eqn:?Hca
         | H : context [if ?a =? ?b then _ else _] |- _ => destruct (Nat.eqb_spec a b)
         | |- context [if ?a =? ?b then _ else _] => destruct (Nat.eqb_spec a b)
         end;
  simpl in *.

Ltac map_in Hg :=
  match type of Hg with
  | option_map _ (getc ?s ?c) = Some _ =>
      let cr0 := fresh "cr0" in let Hg0 := fresh "Hg0" in
      destruct (getc s c) as [cr0|] eqn:Hg0; simpl in Hg; [injection Hg as <-|discriminate Hg];
      rewrite ?ms_own, ?ms_locked, ?ms_run, ?ms_pre, ?ms_val, ?ms_loop, ?ms_key in *
  | _ => idtac
  end.

Ltac start_ s :=
  repeat match goal with
         | Hg : getc ?st ?c = Some _ |- _ =>
             tryif is_var st then fail
             else first [progress (getc_in Hg) | change (getc st c) with (getc s c) in Hg]
         end;
  repeat match goal with
         | Hg : (if _ =? _ then _ else _) = Some _ |- _ => split_eq Hg
         end;
  repeat match goal with
         | Hg : getc ?st ?c = Some _ |- _ =>
             tryif is_var st then fail else change (getc st c) with (getc s c) in Hg
         end;
  repeat match goal with
         | Hg : option_map _ (getc _ _) = Some _ |- _ => map_in Hg
         end.

Ltac oldown :=
  match goal with Hc : cpc ?cr = _ |- _ => rewrite Hc; reflexivity end.

Ltac lp_norm_ s :=
  repeat match goal with
         | |- context [lp ?st ?t] =>
             tryif is_var st then fail else
               first [ rewrite lp_set_loops | change (lp st t) with (lp s t)
                     | change (lp st t) with (lget LClosed (lset LClosed (loops s) _ _) t) ]
         | H : context [lp ?st ?t] |- _ =>
             tryif is_var st then fail else
               first [ rewrite lp_set_loops in H | change (lp st t) with (lp s t) in H
                     | change (lp st t) with (lget LClosed (lset LClosed (loops s) _ _) t) in H ]
         end.

Ltac proj_norm :=
  unfold marker_at, cache_at, lp, isset in *;
  cbn [marker cache loops evset lock invs now callers ended set_pc set_lock set_cache set_marker set_evset
       set_loops set_callers set_invs set_now set_ended set_istat cloop ckey cpc ccanc] in *.

Ltac eqb_split :=
  repeat match goal with
         | |- context [if ?a =? ?b then _ else _] => destruct (Nat.eqb_spec a b); try subst
         | H : context [if ?a =? ?b then _ else _] |- _ => destruct (Nat.eqb_spec a b); try subst
         end.

