(* CacheMonSpec.v — what the trace monitors of CacheMon.v MEAN: "the monitor accepted the trace"
   implies a property of the trace alone (no model involved).  C01 and C06. *)
From Coq Require Import List Arith NArith Bool Lia.
Import ListNotations.
Require Import Aiuti.Cache Aiuti.CacheMon.

(* ---------------------------------------------------------------------------------------- *)
(* generic helpers *)

Definition is_istart (i : nat) (e : ev) : Prop :=
  match e with IStart j _ _ => j = i | _ => False end.
Definition is_iend (i : nat) (e : ev) : Prop :=
  match e with IEnd j _ _ => j = i | _ => False end.
Definition nostart (i : nat) (q : list ev) : Prop := forall c t, ~ In (IStart i c t) q.
Definition noend (i : nat) (q : list ev) : Prop := forall r t, ~ In (IEnd i r t) q.

Lemma nostart_nil i : nostart i [].
Proof. intros c t []. Qed.
Lemma noend_nil i : noend i [].
Proof. intros c t []. Qed.

Lemma nostart_snoc i q e : nostart i q -> ~ is_istart i e -> nostart i (q ++ [e]).
Proof.
  intros H He c t Hin. apply in_app_or in Hin. destruct Hin as [Hin|[Hin|[]]].
  - eapply H; eauto.
  - subst e. apply He. reflexivity.
Qed.

Lemma noend_snoc i q e : noend i q -> ~ is_iend i e -> noend i (q ++ [e]).
Proof.
  intros H He c t Hin. apply in_app_or in Hin. destruct Hin as [Hin|[Hin|[]]].
  - eapply H; eauto.
  - subst e. apply He. reflexivity.
Qed.

Lemma nostart_app i a b : nostart i a -> nostart i b -> nostart i (a ++ b).
Proof. intros Ha Hb c t Hin. apply in_app_or in Hin. destruct Hin; [eapply Ha|eapply Hb]; eauto. Qed.

Lemma mem_head c l : mem c (c :: l) = true.
Proof. unfold mem. simpl. rewrite Nat.eqb_refl. reflexivity. Qed.
Lemma mem_tail c x l : mem c l = true -> mem c (x :: l) = true.
Proof. unfold mem. simpl. intros ->. apply orb_true_r. Qed.
Lemma mem_cons_inv c x l : mem c (x :: l) = true -> c = x \/ mem c l = true.
Proof.
  unfold mem. simpl. intros H. apply orb_true_iff in H. destruct H as [H|H]; auto.
  apply Nat.eqb_eq in H. auto.
Qed.

Section Spec.
Variable tbl : list (nat * nat).

(* ======================================================================================== *)
(* C01 *)

Definition run1 (tr : list ev) : m1 := fold_left (m1_step tbl) tr m1_init.

Lemma run1_app a b : run1 (a ++ b) = fold_left (m1_step tbl) b (run1 a).
Proof. unfold run1. apply fold_left_app. Qed.

Lemma run1_snoc a e : run1 (a ++ [e]) = m1_step tbl (run1 a) e.
Proof. rewrite run1_app. reflexivity. Qed.

Lemma m1_sticky m e : ok1 m = false -> ok1 (m1_step tbl m e) = false.
Proof.
  intros H.
  destruct e as [t c|t c|t c|t c|t c|t c|i c tk|i r tk|c tk|c kind p tk|t c r|t w|tk|r|code];
    simpl; auto.
  - rewrite H. reflexivity.
  - destruct r; simpl; auto.
    destruct (assoc (ikeys1 m) i) as [k|]; simpl; auto.
    destruct (assoc (succ1 m) k); simpl; auto.
  - destruct kind; simpl; auto. rewrite H; reflexivity.
  - destruct w as [|[|[|w]]]; simpl; auto.
Qed.

Lemma ok1_fold l : forall m, ok1 (fold_left (m1_step tbl) l m) = true -> ok1 m = true.
Proof.
  induction l as [|e l IH]; simpl; intros m H; auto.
  apply IH in H. destruct (ok1 m) eqn:E; auto.
  rewrite (m1_sticky m e E) in H. discriminate.
Qed.

Lemma ok1_prefix a b : ok_C01 tbl (a ++ b) = true -> ok1 (run1 a) = true.
Proof.
  unfold ok_C01. change (ok1 (run1 (a ++ b)) = true -> ok1 (run1 a) = true).
  rewrite run1_app. apply ok1_fold.
Qed.

Lemma ok1_at a e b : ok_C01 tbl (a ++ e :: b) = true -> ok1 (m1_step tbl (run1 a) e) = true.
Proof.
  intros H. rewrite <- run1_snoc. apply ok1_prefix with (b := b).
  rewrite <- app_assoc. exact H.
Qed.

(* --- projections of one step --- *)

Lemma ikeys1_step m e :
  ikeys1 (m1_step tbl m e) =
  match e with IStart i c _ => (i, tbl_key tbl c) :: ikeys1 m | _ => ikeys1 m end.
Proof.
  destruct e as [t c|t c|t c|t c|t c|t c|i c tk|i r tk|c tk|c kind p tk|t c r|t w|tk|r|code];
    simpl; auto.
  - destruct r; simpl; auto.
    destruct (assoc (ikeys1 m) i) as [k|]; simpl; auto.
    destruct (assoc (succ1 m) k); simpl; auto.
  - destruct kind; simpl; auto.
  - destruct w as [|[|[|w]]]; simpl; auto.
Qed.

Lemma succ1_step m e :
  succ1 (m1_step tbl m e) = succ1 m \/
  exists i t k, e = IEnd i 0 t /\ assoc (ikeys1 m) i = Some k /\ assoc (succ1 m) k = None /\
                succ1 (m1_step tbl m e) = (k, i) :: succ1 m.
Proof.
  destruct e as [t c|t c|t c|t c|t c|t c|i c tk|i r tk|c tk|c kind p tk|t c r|t w|tk|r|code];
    simpl; auto.
  - destruct r; simpl; auto.
    destruct (assoc (ikeys1 m) i) as [k|] eqn:E1; simpl; auto.
    destruct (assoc (succ1 m) k) eqn:E2; simpl; auto.
    right. exists i, tk, k. auto.
  - destruct kind; simpl; auto.
  - destruct w as [|[|[|w]]]; simpl; auto.
Qed.

Lemma live1_step m e x :
  In x (live1 m) ->
  In x (live1 (m1_step tbl m e)) \/ (exists r t2, e = IEnd (fst x) r t2) \/
  e = LoopEv (snd (snd x)) 0 \/ e = LoopEv (snd (snd x)) 2.
Proof.
  intros Hx.
  destruct e as [t c|t c|t c|t c|t c|t c|i c tk|i r tk|c tk|c kind p tk|t c r|t w|tk|r|code];
    simpl; auto.
  - destruct (Nat.eq_dec (fst x) i) as [E|E].
    + right; left. subst i. eauto.
    + left.
      assert (F : In x (filter (fun y => negb (fst y =? i)) (live1 m))).
      { apply filter_In. split; auto. apply Nat.eqb_neq in E. rewrite E. reflexivity. }
      destruct r; simpl; auto.
      destruct (assoc (ikeys1 m) i) as [k|]; simpl; auto.
      destruct (assoc (succ1 m) k); simpl; auto.
  - destruct kind; simpl; auto.
  - destruct (Nat.eq_dec (snd (snd x)) t) as [E|E].
    + subst t. destruct w as [|[|[|w]]]; simpl; auto.
    + assert (F : In x (filter (fun y => negb (snd (snd y) =? t)) (live1 m))).
      { apply filter_In. split; auto. apply Nat.eqb_neq in E. rewrite E. reflexivity. }
      destruct w as [|[|[|w]]]; simpl; auto.
Qed.

Lemma live1_persist mid : forall m x,
  In x (live1 m) ->
  (exists r t2, In (IEnd (fst x) r t2) mid) \/ In (LoopEv (snd (snd x)) 0) mid \/
  In (LoopEv (snd (snd x)) 2) mid \/ In x (live1 (fold_left (m1_step tbl) mid m)).
Proof.
  induction mid as [|e mid IH]; intros m x Hx; simpl.
  - auto.
  - destruct (live1_step m e x Hx) as [H|[(r&t2&H)|[H|H]]].
    + destruct (IH _ _ H) as [(r&t2&H')|[H'|[H'|H']]]; eauto 6.
    + subst e. left. eauto.
    + subst e. auto.
    + subst e. auto.
Qed.

Lemma succ1_keep m e k v : assoc (succ1 m) k = Some v -> assoc (succ1 (m1_step tbl m e)) k = Some v.
Proof.
  intros H. destruct (succ1_step m e) as [E|(i&t&k'&_&_&N&E)]; rewrite E; auto.
  simpl. destruct (Nat.eqb_spec k' k); auto. subst k'. congruence.
Qed.

Lemma succ1_keep_fold l : forall m k v,
  assoc (succ1 m) k = Some v -> assoc (succ1 (fold_left (m1_step tbl) l m)) k = Some v.
Proof. induction l as [|e l IH]; simpl; intros; auto. apply IH. apply succ1_keep. assumption. Qed.

Lemma ikeys1_keep_fold i l : forall m,
  nostart i l -> assoc (ikeys1 (fold_left (m1_step tbl) l m)) i = assoc (ikeys1 m) i.
Proof.
  induction l as [|e l IH]; simpl; intros m H; auto.
  rewrite IH.
  - rewrite ikeys1_step. destruct e; auto.
    simpl. destruct (Nat.eqb_spec i0 i); auto. subst. exfalso. eapply H. left. reflexivity.
  - intros c t Hin. eapply H. right. exact Hin.
Qed.

(* --- invariants over a prefix: what the tables record --- *)

Lemma inv1_ikeys pre : forall i k,
  assoc (ikeys1 (run1 pre)) i = Some k ->
  exists q1 c0 t0 q2, pre = q1 ++ IStart i c0 t0 :: q2 /\ nostart i q2 /\ tbl_key tbl c0 = k.
Proof.
  induction pre as [|e pre IH] using rev_ind; intros i k H.
  - discriminate.
  - rewrite run1_snoc, ikeys1_step in H.
    assert (EXT : ~ is_istart i e -> assoc (ikeys1 (run1 pre)) i = Some k ->
                  exists q1 c0 t0 q2, pre ++ [e] = q1 ++ IStart i c0 t0 :: q2 /\ nostart i q2 /\
                                      tbl_key tbl c0 = k).
    { intros He H'. destruct (IH _ _ H') as (q1&c0&t0&q2&E&N&K).
      exists q1, c0, t0, (q2 ++ [e]). split; [|split; auto].
      - subst pre. rewrite <- app_assoc. reflexivity.
      - apply nostart_snoc; auto. }
    destruct e as [t c|t c|t c|t c|t c|t c|j c tk|j r tk|c tk|c kind p tk|t c r|t w|tk|r|code];
      try (apply EXT; [simpl; tauto | exact H]).
    simpl in H. destruct (Nat.eqb_spec j i) as [E|E].
    + subst j. inversion H; subst k. exists pre, c, tk, []. repeat split. apply nostart_nil.
    + apply EXT; auto.
Qed.

Lemma inv1_succ pre : forall k v,
  assoc (succ1 (run1 pre)) k = Some v ->
  exists q1 c0 t0 q2 t1 q3,
    pre = q1 ++ IStart v c0 t0 :: q2 ++ IEnd v 0 t1 :: q3 /\ nostart v q2 /\ tbl_key tbl c0 = k.
Proof.
  induction pre as [|e pre IH] using rev_ind; intros k v H.
  - discriminate.
  - rewrite run1_snoc in H.
    assert (EXT : assoc (succ1 (run1 pre)) k = Some v ->
                  exists q1 c0 t0 q2 t1 q3,
                    pre ++ [e] = q1 ++ IStart v c0 t0 :: q2 ++ IEnd v 0 t1 :: q3 /\ nostart v q2 /\
                    tbl_key tbl c0 = k).
    { intros H'. destruct (IH _ _ H') as (q1&c0&t0&q2&t1&q3&E&N&K).
      exists q1, c0, t0, q2, t1, (q3 ++ [e]). split; [|split; auto].
      subst pre. rewrite <- app_assoc. simpl. rewrite <- app_assoc. reflexivity. }
    destruct (succ1_step (run1 pre) e) as [E|(i&t&k'&Ee&Ik&_&E)]; rewrite E in H; auto.
    simpl in H. destruct (Nat.eqb_spec k' k) as [Ek|Ek]; auto.
    inversion H; subst. clear H.
    destruct (inv1_ikeys _ _ _ Ik) as (q1&c0&t0&q2&Ep&N&K).
    exists q1, c0, t0, q2, t, []. split; [|split; auto].
    subst pre. rewrite <- app_assoc. reflexivity.
Qed.

(* --- the theorems --- *)

(* 1. Two invocations of one key never overlap on running loops. *)
Theorem ok_C01_no_overlap tr :
  ok_C01 tbl tr = true ->
  forall pre i c t mid j c' t' post,
    tr = pre ++ IStart i c t :: mid ++ IStart j c' t' :: post ->
    tbl_key tbl c = tbl_key tbl c' ->
    (exists r t2, In (IEnd i r t2) mid) \/ In (LoopEv (tbl_loop tbl c) 0) mid \/
    In (LoopEv (tbl_loop tbl c) 2) mid.
Proof.
  intros OK pre i c t mid j c' t' post E K. subst tr.
  replace (pre ++ IStart i c t :: mid ++ IStart j c' t' :: post)
    with ((pre ++ IStart i c t :: mid) ++ IStart j c' t' :: post) in OK
    by (rewrite <- app_assoc; reflexivity).
  apply ok1_at in OK.
  replace (pre ++ IStart i c t :: mid) with ((pre ++ [IStart i c t]) ++ mid) in OK
    by (rewrite <- app_assoc; reflexivity).
  rewrite run1_app, run1_snoc in OK.
  set (x := (i, (tbl_key tbl c, tbl_loop tbl c))).
  assert (Hx : In x (live1 (m1_step tbl (run1 pre) (IStart i c t)))) by (simpl; auto).
  destruct (live1_persist mid _ _ Hx) as [H|[H|[H|H]]]; auto.
  exfalso. simpl in OK.
  apply andb_true_iff in OK. destruct OK as [OK _].
  apply andb_true_iff in OK. destruct OK as [_ OK].
  apply negb_true_iff in OK.
  assert (T : existsb (fun y : nat * (nat * nat) => fst (snd y) =? tbl_key tbl c')
                (live1 (fold_left (m1_step tbl) mid (m1_step tbl (run1 pre) (IStart i c t)))) = true).
  { apply existsb_exists. exists x. split; auto. simpl. apply Nat.eqb_eq. exact K. }
  simpl in T. congruence.
Qed.

(* A successful end has an earlier start. *)
Theorem ok_C01_end_has_start tr :
  ok_C01 tbl tr = true ->
  forall pre i t post, tr = pre ++ IEnd i 0 t :: post ->
    exists c0 t0, In (IStart i c0 t0) pre.
Proof.
  intros OK pre i t post E. subst tr. apply ok1_at in OK. simpl in OK.
  destruct (assoc (ikeys1 (run1 pre)) i) as [k|] eqn:Ik.
  - destruct (inv1_ikeys _ _ _ Ik) as (q1&c0&t0&q2&Ep&_&_).
    exists c0, t0. subst pre. apply in_or_app. right. left. reflexivity.
  - simpl in OK. discriminate.
Qed.

(* 2. After a success for a key: never invoked again for that key, and every later returned
      value of that key is that result. *)
Theorem ok_C01_after_success tr :
  ok_C01 tbl tr = true ->
  forall p1 i c0 t0 p2 t post,
    tr = p1 ++ IStart i c0 t0 :: p2 ++ IEnd i 0 t :: post ->
    (forall c1 t1, ~ In (IStart i c1 t1) p2) ->
    (forall j c' t', In (IStart j c' t') post -> tbl_key tbl c' <> tbl_key tbl c0) /\
    (forall c' v tv, In (Done c' 0 v tv) post -> tbl_key tbl c' = tbl_key tbl c0 -> v = i).
Proof.
  intros OK p1 i c0 t0 p2 t post E N.
  set (A := p1 ++ IStart i c0 t0 :: p2).
  assert (EA : tr = A ++ IEnd i 0 t :: post).
  { subst tr. unfold A. rewrite <- app_assoc. reflexivity. }
  clear E.
  assert (Ik : assoc (ikeys1 (run1 A)) i = Some (tbl_key tbl c0)).
  { unfold A. replace (p1 ++ IStart i c0 t0 :: p2) with ((p1 ++ [IStart i c0 t0]) ++ p2)
      by (rewrite <- app_assoc; reflexivity).
    rewrite run1_app, run1_snoc, ikeys1_keep_fold by exact N.
    rewrite ikeys1_step. simpl. rewrite Nat.eqb_refl. reflexivity. }
  assert (S : assoc (succ1 (run1 (A ++ [IEnd i 0 t]))) (tbl_key tbl c0) = Some i).
  { rewrite run1_snoc. pose proof OK as OK'. rewrite EA in OK'. apply ok1_at in OK'.
    simpl in *. rewrite Ik in *.
    destruct (assoc (succ1 (run1 A)) (tbl_key tbl c0)); simpl in *; [discriminate|].
    rewrite Nat.eqb_refl. reflexivity. }
  assert (AT : forall q1 e q2, post = q1 ++ e :: q2 ->
               exists m, assoc (succ1 m) (tbl_key tbl c0) = Some i /\ ok1 (m1_step tbl m e) = true).
  { intros q1 e q2 Ep. exists (run1 ((A ++ [IEnd i 0 t]) ++ q1)). split.
    - rewrite run1_app. apply succ1_keep_fold. exact S.
    - apply ok1_at with (b := q2). rewrite <- OK. f_equal. rewrite EA, Ep.
      repeat rewrite <- app_assoc. reflexivity. }
  split.
  - intros j c' t' Hin K. apply in_split in Hin. destruct Hin as (q1&q2&Ep).
    destruct (AT _ _ _ Ep) as (m&Sm&Om). simpl in Om. rewrite K, Sm in Om.
    rewrite andb_false_r in Om. discriminate.
  - intros c' v tv Hin K. apply in_split in Hin. destruct Hin as (q1&q2&Ep).
    destruct (AT _ _ _ Ep) as (m&Sm&Om). simpl in Om. rewrite K, Sm in Om.
    apply andb_true_iff in Om. destruct Om as [_ Om]. apply Nat.eqb_eq in Om. auto.
Qed.

(* 3. A returned value is the result of a successful invocation of the caller's key that ended
      before; the success is the first IEnd .. 0 after the latest start of that invocation. *)
Theorem ok_C01_ret_is_success tr :
  ok_C01 tbl tr = true ->
  forall pre c v tv post, tr = pre ++ Done c 0 v tv :: post ->
    exists q1 c0 t0 q2 t1 q3,
      pre = q1 ++ IStart v c0 t0 :: q2 ++ IEnd v 0 t1 :: q3 /\
      (forall c1 t', ~ In (IStart v c1 t') q2) /\
      tbl_key tbl c0 = tbl_key tbl c.
Proof.
  intros OK pre c v tv post E. subst tr. apply ok1_at in OK. simpl in OK.
  apply andb_true_iff in OK. destruct OK as [_ OK].
  destruct (assoc (succ1 (run1 pre)) (tbl_key tbl c)) as [v'|] eqn:S; [|discriminate].
  apply Nat.eqb_eq in OK. subst v'.
  exact (inv1_succ _ _ _ S).
Qed.

Corollary ok_C01_ret_is_success_in tr :
  ok_C01 tbl tr = true ->
  forall pre c v tv post, tr = pre ++ Done c 0 v tv :: post ->
    exists c0 t0 t1, In (IStart v c0 t0) pre /\ In (IEnd v 0 t1) pre /\
                     tbl_key tbl c0 = tbl_key tbl c.
Proof.
  intros OK pre c v tv post E.
  destruct (ok_C01_ret_is_success tr OK _ _ _ _ _ E) as (q1&c0&t0&q2&t1&q3&Ep&_&K).
  exists c0, t0, t1. subst pre. repeat split; auto.
  - apply in_or_app. right. left. reflexivity.
  - apply in_or_app. right. right. apply in_or_app. right. left. reflexivity.
Qed.


(* ======================================================================================== *)
(* C06 *)

Definition run6 (tr : list ev) : m6 := fold_left (m6_step tbl) tr m6_init.

Lemma run6_app a b : run6 (a ++ b) = fold_left (m6_step tbl) b (run6 a).
Proof. unfold run6. apply fold_left_app. Qed.

Lemma run6_snoc a e : run6 (a ++ [e]) = m6_step tbl (run6 a) e.
Proof. rewrite run6_app. reflexivity. Qed.

Lemma m6_sticky m e : ok6 m = false -> ok6 (m6_step tbl m e) = false.
Proof.
  intros H.
  destruct e as [t c|t c|t c|t c|t c|t c|i c tk|i r tk|c tk|c kind p tk|t c r|t w|tk|r|code];
    simpl; auto.
  - destruct (assoc2 (iv6 m) i) as [[c x]|]; simpl; auto.
  - rewrite H. reflexivity.
  - rewrite H. reflexivity.
Qed.

Lemma ok6_fold l : forall m, ok6 (fold_left (m6_step tbl) l m) = true -> ok6 m = true.
Proof.
  induction l as [|e l IH]; simpl; intros m H; auto.
  apply IH in H. destruct (ok6 m) eqn:E; auto.
  rewrite (m6_sticky m e E) in H. discriminate.
Qed.

Lemma ok6_prefix a b : ok_C06 tbl (a ++ b) = true -> ok6 (run6 a) = true.
Proof.
  unfold ok_C06. change (ok6 (run6 (a ++ b)) = true -> ok6 (run6 a) = true).
  rewrite run6_app. apply ok6_fold.
Qed.

Lemma ok6_at a e b : ok_C06 tbl (a ++ e :: b) = true -> ok6 (m6_step tbl (run6 a) e) = true.
Proof.
  intros H. rewrite <- run6_snoc. apply ok6_prefix with (b := b).
  rewrite <- app_assoc. exact H.
Qed.

(* --- projections of one step --- *)

Lemma iv6_step m e :
  iv6 (m6_step tbl m e) =
  match e with
  | IStart i c _ => (i, (c, 9)) :: iv6 m
  | IEnd i r _ => match assoc2 (iv6 m) i with
                  | Some (c, _) => (i, (c, r)) :: iv6 m
                  | None => iv6 m
                  end
  | _ => iv6 m
  end.
Proof.
  destruct e as [t c|t c|t c|t c|t c|t c|i c tk|i r tk|c tk|c kind p tk|t c r|t w|tk|r|code];
    simpl; auto.
  destruct (assoc2 (iv6 m) i) as [[c x]|]; simpl; auto.
Qed.

Lemma fin6_step m e :
  fin6 (m6_step tbl m e) = match e with Done c _ _ _ => c :: fin6 m | _ => fin6 m end.
Proof.
  destruct e as [t c|t c|t c|t c|t c|t c|i c tk|i r tk|c tk|c kind p tk|t c r|t w|tk|r|code];
    simpl; auto.
  destruct (assoc2 (iv6 m) i) as [[c x]|]; simpl; auto.
Qed.

Lemma canc6_step m e :
  canc6 (m6_step tbl m e) = match e with Cancel c _ => c :: canc6 m | _ => canc6 m end.
Proof.
  destruct e as [t c|t c|t c|t c|t c|t c|i c tk|i r tk|c tk|c kind p tk|t c r|t w|tk|r|code];
    simpl; auto.
  destruct (assoc2 (iv6 m) i) as [[c x]|]; simpl; auto.
Qed.

Lemma fin6_keep_fold c l : forall m,
  mem c (fin6 m) = true -> mem c (fin6 (fold_left (m6_step tbl) l m)) = true.
Proof.
  induction l as [|e l IH]; simpl; intros m H; auto.
  apply IH. rewrite fin6_step. destruct e; auto. apply mem_tail. exact H.
Qed.

(* --- invariants over a prefix --- *)

(* the latest IEnd i in q (if any) carries result r; 9 = "no IEnd yet" (or an IEnd i 9) *)
Definition ended_with (i r : nat) (q : list ev) : Prop :=
  r = 9 \/ exists qa t2 qb, q = qa ++ IEnd i r t2 :: qb /\ noend i qb.

Lemma ended_with_snoc i r q e : ended_with i r q -> ~ is_iend i e -> ended_with i r (q ++ [e]).
Proof.
  intros [H|(qa&t2&qb&E&N)] He; [left; exact H|right].
  exists qa, t2, (qb ++ [e]). split.
  - subst q. rewrite <- app_assoc. reflexivity.
  - apply noend_snoc; auto.
Qed.

Lemma inv6_iv pre : forall i c r,
  assoc2 (iv6 (run6 pre)) i = Some (c, r) ->
  exists q1 t1 q2, pre = q1 ++ IStart i c t1 :: q2 /\ nostart i q2 /\ ended_with i r q2.
Proof.
  induction pre as [|e pre IH] using rev_ind; intros i c r H.
  - discriminate.
  - rewrite run6_snoc, iv6_step in H.
    assert (EXT : ~ is_istart i e -> ~ is_iend i e -> assoc2 (iv6 (run6 pre)) i = Some (c, r) ->
                  exists q1 t1 q2, pre ++ [e] = q1 ++ IStart i c t1 :: q2 /\ nostart i q2 /\
                                   ended_with i r q2).
    { intros He1 He2 H'. destruct (IH _ _ _ H') as (q1&t1&q2&E&N&W).
      exists q1, t1, (q2 ++ [e]). split; [|split].
      - subst pre. rewrite <- app_assoc. reflexivity.
      - apply nostart_snoc; auto.
      - apply ended_with_snoc; auto. }
    destruct e as [t c0|t c0|t c0|t c0|t c0|t c0|j c0 tk|j r0 tk|c0 tk|c0 kind p tk|t c0 r0|t w|tk|r0|code];
      try (apply EXT; [simpl; tauto | simpl; tauto | exact H]).
    + simpl in H. destruct (Nat.eqb_spec j i) as [E|E].
      * subst j. inversion H; subst. exists pre, tk, []. repeat split.
        apply nostart_nil. left; reflexivity.
      * apply EXT; simpl; auto.
    + destruct (Nat.eq_dec j i) as [E|E].
      * subst j. destruct (assoc2 (iv6 (run6 pre)) i) as [[c1 x]|] eqn:A.
        -- simpl in H. rewrite Nat.eqb_refl in H. inversion H; subst. clear H.
           destruct (IH _ _ _ A) as (q1&t1&q2&Ep&N&_).
           exists q1, t1, (q2 ++ [IEnd i r tk]). split; [|split].
           ++ subst pre. rewrite <- app_assoc. reflexivity.
           ++ apply nostart_snoc; auto.
           ++ right. exists q2, tk, []. split; auto. apply noend_nil.
        -- rewrite A in H. discriminate.
      * apply EXT; simpl; auto.
        destruct (assoc2 (iv6 (run6 pre)) j) as [[c1 x]|]; auto.
        simpl in H. apply Nat.eqb_neq in E. rewrite E in H. exact H.
Qed.

Lemma inv6_canc pre : forall c,
  mem c (canc6 (run6 pre)) = true -> exists t1, In (Cancel c t1) pre.
Proof.
  induction pre as [|e pre IH] using rev_ind; intros c H.
  - discriminate.
  - rewrite run6_snoc, canc6_step in H.
    assert (EXT : mem c (canc6 (run6 pre)) = true -> exists t1, In (Cancel c t1) (pre ++ [e])).
    { intros H'. destruct (IH _ H') as (t1&Hin). exists t1. apply in_or_app. auto. }
    destruct e; auto.
    apply mem_cons_inv in H. destruct H as [H|H]; auto.
    subst c0. exists tick. apply in_or_app. right. left. reflexivity.
Qed.

(* --- the theorems --- *)

(* 4. No library exception, no unclassified event, no proxy ending with an exception. *)
Theorem ok_C06_no_lib_exc tr :
  ok_C06 tbl tr = true -> forall c kind p t, In (Done c kind p t) tr -> kind <= 2.
Proof.
  intros OK c kind p t Hin. apply in_split in Hin. destruct Hin as (q1&q2&E). subst tr.
  apply ok6_at in OK. simpl in OK.
  destruct kind as [|[|[|k]]]; [lia|lia|lia|].
  rewrite andb_false_r in OK. discriminate.
Qed.

Theorem ok_C06_no_bad tr :
  ok_C06 tbl tr = true -> forall code, ~ In (Bad code) tr.
Proof.
  intros OK code Hin. apply in_split in Hin. destruct Hin as (q1&q2&E). subst tr.
  apply ok6_at in OK. simpl in OK. discriminate.
Qed.

Theorem ok_C06_proxy_ok tr :
  ok_C06 tbl tr = true -> forall t c r, In (Proxy t c r) tr -> r < 3.
Proof.
  intros OK t c r Hin. apply in_split in Hin. destruct Hin as (q1&q2&E). subst tr.
  apply ok6_at in OK. simpl in OK.
  apply andb_true_iff in OK. destruct OK as [_ OK]. apply Nat.ltb_lt in OK. exact OK.
Qed.

(* 5. At most one outcome per caller. *)
Theorem ok_C06_once tr :
  ok_C06 tbl tr = true ->
  forall pre c k1 p1 t1 mid k2 p2 t2 post,
    tr = pre ++ Done c k1 p1 t1 :: mid ++ Done c k2 p2 t2 :: post -> False.
Proof.
  intros OK pre c k1 p1 t1 mid k2 p2 t2 post E. subst tr.
  replace (pre ++ Done c k1 p1 t1 :: mid ++ Done c k2 p2 t2 :: post)
    with (((pre ++ [Done c k1 p1 t1]) ++ mid) ++ Done c k2 p2 t2 :: post) in OK
    by (repeat rewrite <- app_assoc; reflexivity).
  apply ok6_at in OK. rewrite run6_app, run6_snoc in OK.
  assert (F : mem c (fin6 (fold_left (m6_step tbl) mid
                             (m6_step tbl (run6 pre) (Done c k1 p1 t1)))) = true).
  { apply fin6_keep_fold. rewrite fin6_step. apply mem_head. }
  remember (fold_left (m6_step tbl) mid (m6_step tbl (run6 pre) (Done c k1 p1 t1))) as m.
  simpl in OK. rewrite F in OK. simpl in OK. rewrite andb_false_r in OK. discriminate.
Qed.

(* An invocation that ends has started before. *)
Theorem ok_C06_end_has_start tr :
  ok_C06 tbl tr = true ->
  forall pre i r t post, tr = pre ++ IEnd i r t :: post -> exists c0 t0, In (IStart i c0 t0) pre.
Proof.
  intros OK pre i r t post E. subst tr. apply ok6_at in OK. simpl in OK.
  destruct (assoc2 (iv6 (run6 pre)) i) as [[c x]|] eqn:A; [|discriminate].
  destruct (inv6_iv _ _ _ _ A) as (q1&t1&q2&Ep&_&_).
  exists c, t1. subst pre. apply in_or_app. right. left. reflexivity.
Qed.

(* what a record (c', r) with r <> 9 for invocation i means *)
Lemma inv6_iv_ended pre i c r :
  assoc2 (iv6 (run6 pre)) i = Some (c, r) -> r <> 9 ->
  exists q1 t1 q2 t2 q3,
    pre = q1 ++ IStart i c t1 :: q2 ++ IEnd i r t2 :: q3 /\
    (forall c1 t', ~ In (IStart i c1 t') q2) /\
    (forall c1 t', ~ In (IStart i c1 t') q3) /\
    (forall r' t', ~ In (IEnd i r' t') q3).
Proof.
  intros A R. destruct (inv6_iv _ _ _ _ A) as (q1&t1&q&Ep&N&[W|(qa&t2&qb&Eq&Ne)]); [contradiction|].
  exists q1, t1, qa, t2, qb. subst q. repeat split; auto.
  - intros c1 t' Hin. eapply N. apply in_or_app. left. exact Hin.
  - intros c1 t' Hin. eapply N. apply in_or_app. right. right. exact Hin.
Qed.

(* 6. A returned value is the result of an invocation of the caller's key that started and then
      ended successfully before (latest start of v, then the latest end of v, with result 0). *)
Theorem ok_C06_ret tr :
  ok_C06 tbl tr = true ->
  forall pre c v t post, tr = pre ++ Done c 0 v t :: post ->
    exists q1 c' t1 q2 t2 q3,
      pre = q1 ++ IStart v c' t1 :: q2 ++ IEnd v 0 t2 :: q3 /\
      (forall c1 t', ~ In (IStart v c1 t') q2) /\
      (forall c1 t', ~ In (IStart v c1 t') q3) /\
      (forall r' t', ~ In (IEnd v r' t') q3) /\
      tbl_key tbl c' = tbl_key tbl c.
Proof.
  intros OK pre c v t post E. subst tr. apply ok6_at in OK. simpl in OK.
  apply andb_true_iff in OK. destruct OK as [_ OK].
  destruct (assoc2 (iv6 (run6 pre)) v) as [[c' r]|] eqn:A; [|discriminate].
  apply andb_true_iff in OK. destruct OK as [R K].
  apply Nat.eqb_eq in R. apply Nat.eqb_eq in K. subst r.
  destruct (inv6_iv_ended _ _ _ _ A) as (q1&t1&q2&t2&q3&Ep&N2&N3&Ne); [discriminate|].
  exists q1, c', t1, q2, t2, q3. auto.
Qed.

Corollary ok_C06_ret_in tr :
  ok_C06 tbl tr = true ->
  forall pre c v t post, tr = pre ++ Done c 0 v t :: post ->
    exists c' t1 t2, In (IStart v c' t1) pre /\ In (IEnd v 0 t2) pre /\
                     tbl_key tbl c' = tbl_key tbl c.
Proof.
  intros OK pre c v t post E.
  destruct (ok_C06_ret tr OK _ _ _ _ _ E) as (q1&c'&t1&q2&t2&q3&Ep&_&_&_&K).
  exists c', t1, t2. subst pre. repeat split; auto.
  - apply in_or_app. right. left. reflexivity.
  - apply in_or_app. right. right. apply in_or_app. right. left. reflexivity.
Qed.

(* 7. A user exception delivered to caller c was raised by an invocation that c itself performed. *)
Theorem ok_C06_userexc tr :
  ok_C06 tbl tr = true ->
  forall pre c i t post, tr = pre ++ Done c 1 i t :: post ->
    exists q1 t1 q2 t2 q3,
      pre = q1 ++ IStart i c t1 :: q2 ++ IEnd i 1 t2 :: q3 /\
      (forall c1 t', ~ In (IStart i c1 t') q2) /\
      (forall c1 t', ~ In (IStart i c1 t') q3) /\
      (forall r' t', ~ In (IEnd i r' t') q3).
Proof.
  intros OK pre c i t post E. subst tr. apply ok6_at in OK. simpl in OK.
  apply andb_true_iff in OK. destruct OK as [_ OK].
  destruct (assoc2 (iv6 (run6 pre)) i) as [[c' r]|] eqn:A; [|discriminate].
  apply andb_true_iff in OK. destruct OK as [R K].
  apply Nat.eqb_eq in R. apply Nat.eqb_eq in K. subst r c'.
  apply (inv6_iv_ended _ _ _ _ A). discriminate.
Qed.

Corollary ok_C06_userexc_in tr :
  ok_C06 tbl tr = true ->
  forall pre c i t post, tr = pre ++ Done c 1 i t :: post ->
    exists t1 t2, In (IStart i c t1) pre /\ In (IEnd i 1 t2) pre.
Proof.
  intros OK pre c i t post E.
  destruct (ok_C06_userexc tr OK _ _ _ _ _ E) as (q1&t1&q2&t2&q3&Ep&_).
  exists t1, t2. subst pre. split.
  - apply in_or_app. right. left. reflexivity.
  - apply in_or_app. right. right. apply in_or_app. right. left. reflexivity.
Qed.

(* 8. A caller ends cancelled only if the environment cancelled it before. *)
Theorem ok_C06_cancelled tr :
  ok_C06 tbl tr = true ->
  forall pre c p t post, tr = pre ++ Done c 2 p t :: post -> exists t1, In (Cancel c t1) pre.
Proof.
  intros OK pre c p t post E. subst tr. apply ok6_at in OK. simpl in OK.
  apply andb_true_iff in OK. destruct OK as [_ OK].
  apply inv6_canc. exact OK.
Qed.

End Spec.

(* ======================================================================================== *)
(* non-vacuity: each monitor accepts a small good trace and rejects bad ones *)

Definition ex_tbl : list (nat * nat) := [(0, 5); (0, 5); (1, 5)].   (* three callers of key 5 *)

Example ex_C01_good :
  ok_C01 ex_tbl [IStart 0 0 0; IEnd 0 1 0; IStart 1 1 0; IEnd 1 0 1; Done 1 0 1 1; Done 0 0 1 1;
                 Done 2 0 1 1] = true.
Proof. vm_compute. reflexivity. Qed.
Example ex_C01_bad_overlap : ok_C01 ex_tbl [IStart 0 0 0; IStart 1 1 0] = false.
Proof. vm_compute. reflexivity. Qed.
Example ex_C01_overlap_dead_loop : ok_C01 ex_tbl [IStart 0 0 0; LoopEv 0 0; IStart 1 2 0] = true.
Proof. vm_compute. reflexivity. Qed.
Example ex_C01_bad_again :
  ok_C01 ex_tbl [IStart 0 0 0; IEnd 0 0 0; Done 0 0 0 0; IStart 1 1 0] = false.
Proof. vm_compute. reflexivity. Qed.
Example ex_C01_bad_value :
  ok_C01 ex_tbl [IStart 0 0 0; IEnd 0 0 0; Done 0 0 0 0; Done 1 0 7 0] = false.
Proof. vm_compute. reflexivity. Qed.

Example ex_C06_good :
  ok_C06 ex_tbl [IStart 0 0 0; IEnd 0 1 0; Done 0 1 0 0; Cancel 1 0; Done 1 2 0 0;
                 IStart 1 2 1; IEnd 1 0 1; Proxy 1 2 0; Done 2 0 1 1] = true.
Proof. vm_compute. reflexivity. Qed.
Example ex_C06_bad_libexc : ok_C06 ex_tbl [Done 0 3 0 0] = false.
Proof. vm_compute. reflexivity. Qed.
Example ex_C06_bad_twice :
  ok_C06 ex_tbl [IStart 0 0 0; IEnd 0 0 0; Done 0 0 0 0; Done 0 0 0 0] = false.
Proof. vm_compute. reflexivity. Qed.
Example ex_C06_bad_foreign_exc :
  ok_C06 ex_tbl [IStart 0 0 0; IEnd 0 1 0; Done 1 1 0 0] = false.
Proof. vm_compute. reflexivity. Qed.
Example ex_C06_bad_cancelled : ok_C06 ex_tbl [Done 0 2 0 0] = false.
Proof. vm_compute. reflexivity. Qed.
Example ex_C06_bad_ret_running : ok_C06 ex_tbl [IStart 0 0 0; Done 0 0 0 0] = false.
Proof. vm_compute. reflexivity. Qed.

Print Assumptions ok_C01_no_overlap.
Print Assumptions ok_C01_end_has_start.
Print Assumptions ok_C01_after_success.
Print Assumptions ok_C01_ret_is_success.
Print Assumptions ok_C01_ret_is_success_in.
Print Assumptions ok_C06_no_lib_exc.
Print Assumptions ok_C06_no_bad.
Print Assumptions ok_C06_proxy_ok.
Print Assumptions ok_C06_once.
Print Assumptions ok_C06_end_has_start.
Print Assumptions ok_C06_ret.
Print Assumptions ok_C06_ret_in.
Print Assumptions ok_C06_userexc.
Print Assumptions ok_C06_userexc_in.
Print Assumptions ok_C06_cancelled.
