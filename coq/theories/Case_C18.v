(* Case_C18.v — correspondence cases and trace monitor for C18 (split/exhaust).
   No proofs of the property here; see IterInv.v / props/C18.v. *)
From Coq Require Import List Arith Bool.
Import ListNotations.
Require Import Aiuti.CaseLib Aiuti.Iter.

Inductive case :=
| CSplit (callable : bool) (xs : list nat) (cs : list bool) (ops : list side)
         (observed : list obs) (plog elog : list nat)
| CExhaust (xs : list nat) (plog : list nat) (stops : nat) (returned_none : bool).

Definition q_eqb (p q : nat * nat * nat * nat) : bool :=
  let '(a1, b1, c1, d1) := p in let '(a2, b2, c2, d2) := q in
  Nat.eqb a1 a2 && Nat.eqb b1 b2 && Nat.eqb c1 c2 && Nat.eqb d1 d2.
Definition obs_eqb : obs -> obs -> bool := pair_eqb (opt_eqb Nat.eqb) q_eqb.
Definition nats_eqb := list_eqb Nat.eqb.

Definition agree (c : case) : bool :=
  match c with
  | CSplit callable xs cs ops observed pl el =>
      let '(os, s) := run callable xs cs ops init in
      list_eqb obs_eqb os observed && nats_eqb (plog s) pl && nats_eqb (elog s) el
  | CExhaust xs pl stops rn =>
      let '(l, k) := exhaust xs in nats_eqb l pl && Nat.eqb k stops && rn
  end.

(* ---- monitor: the property, decided on an observed trace ---------------- *)

(* walk the ops with their observations.  remL/remR: what each side has still
   to yield; prev: #pulls observed before this op *)
Fixpoint mon (callable : bool) (ops : list side) (observed : list obs)
         (remL remR : list (nat * nat)) (prev prevm : nat) : bool :=
  match ops, observed with
  | [], [] => true
  | sd :: ops', (r, (pulls, _, evals, _)) :: obs' =>
      let rem := match sd with L => remL | R => remR end in
      (prev <=? pulls) && (prevm <=? evals) && (if callable then evals <=? pulls else true) &&
      match r, rem with
      | Some x, (i, y) :: rem' =>
          Nat.eqb x y && (pulls <=? Nat.max prev (S i)) &&
          match sd with
          | L => mon callable ops' obs' rem' remR pulls evals
          | R => mon callable ops' obs' remL rem' pulls evals
          end
      | None, [] => mon callable ops' obs' remL remR pulls evals
      | _, _ => false      (* yielded something unexpected / stopped early *)
      end
  | _, _ => false
  end.

Definition pulls_of (o : obs) : nat := let '(_, (p, _, _, _)) := o in p.
Definition evals_of (o : obs) : nat := let '(_, (_, _, e, _)) := o in e.
Definition last_pulls (observed : list obs) : nat := fold_left (fun _ o => pulls_of o) observed 0.
Definition last_evals (observed : list obs) : nat := fold_left (fun _ o => evals_of o) observed 0.

Definition ok (c : case) : bool :=
  match c with
  | CSplit callable xs cs ops observed pl el =>
      mon callable ops observed (expected_from true xs cs 0) (expected_from false xs cs 0) 0 0
      && nats_eqb pl (seq 0 (last_pulls observed))          (* each element pulled once, in order *)
      && (length pl <=? length xs)
      && nats_eqb el (seq 0 (last_evals observed))          (* condition evaluated/pulled once per element, in order *)
  | CExhaust xs pl stops rn =>
      nats_eqb pl (seq 0 (length xs)) && rn
  end.

Definition both_sides (ops : list side) : bool :=
  existsb (fun s => match s with L => true | R => false end) ops &&
  existsb (fun s => match s with L => false | R => true end) ops.

Definition nontrivial (c : case) : bool :=
  match c with
  | CSplit _ xs cs ops observed _ _ =>
      both_sides ops && existsb (fun o => match fst o with Some _ => true | None => false end) observed
      && (2 <=? length xs)
  | CExhaust xs _ _ _ => 1 <=? length xs
  end.

Definition verdict := verdict3 agree ok nontrivial.
