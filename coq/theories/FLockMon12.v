(* FLockMon12.v — the trace monitor of Case_C12 (the Lock/RLock contract decided on an
   observed trace) accepts every trace the model produces for a contract-respecting call
   sequence without scripted faults: no false alarm where implementation and model agree. *)
From Coq Require Import List Arith NArith Bool Lia ZifyBool ZifyN.
Import ListNotations.
Require Import Aiuti.CaseLib Aiuti.FLock Aiuti.FLockInv Aiuti.FLockSpec Aiuti.FLockTL Aiuti.FLockFD Aiuti.FLockMutex
               Aiuti.FLockExec Aiuti.FLockAcq Aiuti.FLockRel Aiuti.FLockTerm Aiuti.FLockSeq.
Require Import Aiuti.Case_C12.
Arguments upd : simpl never.
Arguments normalise : simpl never.
Arguments step : simpl never.
Arguments run_alone : simpl never.
Arguments tl_try : simpl never.

Section M.
Variable cfg : list (bool * tmo).
Let reent := cfg_reent cfg.
Let dflt := cfg_dflt cfg.
Let z : nat -> nat := fun _ => 0.
Notation Rq := (Rq reent dflt z z).
Variable fuel : nat.

(* Case_C12's probe / probes / run_seq with the fuel as a parameter (= them at FUEL, see the end) *)
Definition probe_f (s : state) (t : tid) (o : oid) : state * bool :=
  let '(s1, r) := do_call fuel s t (CAcq o MPlain false TNone 0%N 0) in
  match r with
  | RTrue => (fst (do_call fuel s1 t (CRel o false)), true)
  | _ => (s1, false)
  end.

Fixpoint probes_f (s : state) (pairs : list (tid * oid)) : state * list bool :=
  match pairs with
  | [] => (s, [])
  | (t, o) :: r => let '(s1, b) := probe_f s t o in
                   let '(s2, bs) := probes_f s1 r in (s2, b :: bs)
  end.

Fixpoint run_seq_f (nT nO : nat) (s : state) (ops : list (tid * call)) : list sobs :=
  match ops with
  | [] => []
  | (t, c) :: rest =>
      let '(s1, r) := do_call fuel s t c in
      match r with
      | RWouldBlock | ROutOfFuel => [(r, locked_all s1 nO, 0%N, nfds s1, 0, [], 0)]
      | _ =>
          let '(s2, ps) := probes_f s1 (all_pairs nT nO) in
          (r, locked_all s1 nO, (now s1 - now s)%N, nfds s1, nfired s1 - nfired s, ps, nfired s2 - nfired s1)
            :: run_seq_f nT nO s2 rest
      end
  end.

(* time and blocked-state facts of an acquire in a state between two calls *)
Lemma acq_extra s st t o m blk tm poll skip :
  Rq s st -> call_fuel_ok dflt fuel (CAcq o m blk tm poll skip) ->
  let res := do_call fuel s t (CAcq o m blk tm poll skip) in
  (snd res = RWouldBlock -> forall o', is_locked (fst res) o' = is_locked s o') /\
  (snd res <> RWouldBlock -> time_ok (dflt o) blk tm poll (now (fst res) - now s) = true).
Proof.
  intros Q [Hp Hfu] res. pose proof Q as [Qt Qd Qf Qc [Qk1 Qk2] Qfd Qho Qa].
  destruct (Qt t) as [Hpc Hpr]. destruct (Qc o) as (Co1 & Co2 & Co3).
  assert (Hal : dead s (t_proc (thr s t)) = false) by apply Qd.
  assert (Hpro : o_proc (objs s o) = t_proc (thr s t)) by (rewrite Co1, Hpr; reflexivity).
  assert (Enorm : normalise (objs s o) blk tm = norm' (dflt o) blk tm) by (rewrite normalise_norm', Co3; reflexivity).
  pose proof (do_acquire_outcome s t o m blk tm poll skip fuel Hpc Hal Hpro Qk1 Qk2) as Out.
  pose proof (do_acquire_terminates s t o m blk tm poll skip fuel Hpc Hal Hpro Qk1 Qk2 Qf) as Term.
  cbv zeta in Out, Term. rewrite Enorm in Out, Term. specialize (Term Hp Hfu). fold res in Out, Term.
  destruct Out as [E|[[E B]|Fin]]; [congruence| |].
  - split; [|congruence]. intros _ o'. unfold is_locked. destruct B as [? ? ? ? ? Hfd|? ? ? ? ? ? ? ? Hfd]; now rewrite Hfd.
  - split.
    + intros E. exfalso. destruct Fin as [E1|d E1|E1|b E1]; rewrite E1 in E; try discriminate.
      * destruct m; discriminate.
      * destruct b, m; discriminate.
    + intros _. destruct (Final_time _ _ _ _ _ _ _ _ _ Fin) as (T0 & T1 & _ & T2).
      unfold time_ok. change (normalise (obj0 0 false (dflt o)) blk tm) with (norm' (dflt o) blk tm).
      destruct (norm' (dflt o) blk tm) as [b' tm'] eqn:En. cbn [fst snd] in *.
      destruct b'; cbn [negb].
      * destruct tm' as [| |T]; auto. specialize (T2 T eq_refl). apply N.leb_le. lia.
      * rewrite (T1 eq_refl). rewrite N.sub_diag. reflexivity.
Qed.

Lemma rel_extra s st t o force :
  Rq s st -> depth st + 4 <= fuel -> now (fst (do_call fuel s t (CRel o force))) = now s.
Proof.
  intros Q Hfu. pose proof Q as [Qt Qd Qf Qc [Qk1 Qk2] Qfd Qho Qa]. destruct (Qt t) as [Hpc Hpr].
  assert (Hal : dead s (t_proc (thr s t)) = false) by apply Qd.
  assert (Hcnt : o_cnt (objs s o) <= depth st).
  { destruct st as [[[o1 t1] d1]|]; cbn.
    - destruct Qa as (D1 & D2 & _ & D3 & D4 & D5 & D6). destruct (Nat.eq_dec o o1) as [->|Hn]; [lia|].
      destruct (D6 o Hn) as (_ & _ & -> & _). lia.
    - destruct Qa as [_ B]. destruct (B o) as (_ & _ & -> & _). lia. }
  destruct (do_release_outcome s t o Hal force fuel Hpc) as (s1 & E & F & _); [lia|].
  rewrite E. cbn. apply (r_now _ _ _ _ F).
Qed.

Lemma spec_acq_rel st t o r :
  (forall o1 t1 d1, st = Some (o1, t1, d1) -> 1 <= d1) ->
  snd (spec_acquire st t o r) = true ->
  spec_may_release (fst (spec_acquire st t o r)) t o = true /\
  spec_release (fst (spec_acquire st t o r)) o false = st /\
  depth (fst (spec_acquire st t o r)) <= S (depth st).
Proof.
  intros Hd. unfold spec_acquire. destruct st as [[[o1 t1] d1]|]; cbn.
  - destruct (Nat.eqb o o1 && Nat.eqb t t1 && r) eqn:E; cbn; [|discriminate]. intros _.
    apply andb_prop in E. destruct E as [E _]. apply andb_prop in E. destruct E as [E1 E2].
    apply Nat.eqb_eq in E1, E2. subst. unfold spec_may_release, held. cbn. rewrite !Nat.eqb_refl.
    specialize (Hd _ _ _ eq_refl). repeat split; auto. destruct d1; [lia|reflexivity].
  - intros _. unfold spec_may_release, held. cbn. rewrite !Nat.eqb_refl. auto.
Qed.

Lemma Rq_depth_pos s st : Rq s st -> forall o1 t1 d1, st = Some (o1, t1, d1) -> 1 <= d1.
Proof. intros [_ _ _ _ _ _ _ Qa] o1 t1 d1 ->. tauto. Qed.

Hypothesis Hf16 : 16 <= fuel.

Lemma probe_ok s st t o :
  Rq s st -> depth st + 5 <= fuel ->
  snd (probe_f s t o) = snd (spec_acquire st t o (reent o)) /\ Rq (fst (probe_f s t o)) st.
Proof.
  intros Q Hfu. unfold probe_f.
  assert (Hcf : call_fuel_ok dflt fuel (CAcq o MPlain false TNone 0%N 0)).
  { cbn. split; [intros T E; unfold norm', normalise in E; cbn in E; discriminate|].
    unfold norm', normalise, acq_fuel. cbn. exact Hf16. }
  destruct Hcf as [Hp Hf].
  destruct (acq_refines reent dflt z z s st t o MPlain false TNone 0%N 0 fuel Q eq_refl Hp Hf) as [Er Eq].
  destruct (do_call fuel s t (CAcq o MPlain false TNone 0%N 0)) as [s1 r] eqn:E1. cbn [fst snd] in *.
  destruct (snd (spec_acquire st t o (reent o))) eqn:Eb.
  - subst r. assert (Q1 : Rq s1 (fst (spec_acquire st t o (reent o)))) by (apply Eq; discriminate).
    destruct (spec_acq_rel st t o (reent o) (Rq_depth_pos _ _ Q) Eb) as (A & B & D).
    destruct (rel_refines reent dflt z z s1 _ t o false fuel Q1 A) as [_ Q2]; [lia|].
    rewrite B in Q2. cbn. auto.
  - assert (r <> RTrue /\ r <> RWouldBlock).
    { subst r. unfold spec_no. cbn. split; discriminate. }
    assert (Est : fst (spec_acquire st t o (reent o)) = st).
    { unfold spec_acquire in *. destruct st as [[[o1 t1] d1]|]; cbn in *; [|discriminate]. destruct (_ && _); cbn in *; [discriminate|auto]. }
    rewrite Est in Eq. destruct H as [H1 H2]. destruct r; try (cbn; split; [reflexivity|apply Eq; discriminate]); congruence.
Qed.

Lemma probes_ok : forall pairs s st,
  Rq s st -> depth st + 5 <= fuel ->
  snd (probes_f s pairs) = map (fun p => snd (spec_acquire st (fst p) (snd p) (reent (snd p)))) pairs /\
  Rq (fst (probes_f s pairs)) st.
Proof.
  induction pairs as [|[t o] rest IH]; intros s st Q Hfu; [cbn; auto|].
  cbn [probes_f map fst snd]. destruct (probe_ok s st t o Q Hfu) as [A B].
  destruct (probe_f s t o) as [s1 b]. cbn [fst snd] in *.
  destruct (IH s1 st B Hfu) as [C D]. destruct (probes_f s1 rest) as [s2 bs]. cbn [fst snd] in *.
  subst. auto.
Qed.

Lemma bools_eqb_refl l : bools_eqb l l = true.
Proof. apply list_eqb_refl. intros []; reflexivity. Qed.

Lemma implb_list_refl l : implb_list l l = true.
Proof.
  unfold implb_list. rewrite Nat.eqb_refl. cbn. induction l as [|x r IH]; cbn; auto. rewrite IH. destruct x; reflexivity.
Qed.

Lemma result_eqb_refl r : result_eqb r r = true.
Proof. unfold result_eqb. apply Nat.eqb_refl. Qed.

Lemma locked_all_spec s st nO : Rq s st -> locked_all s nO = map (spec_is_locked st) (seq 0 nO).
Proof. intros Q. unfold locked_all. apply map_ext. intros o. eapply Rq_is_locked; eauto. Qed.

(* the "after" clause of the monitor for a state that represents st' *)
Lemma after_ok nT s1 st' :
  Rq s1 st' -> depth st' + 5 <= fuel ->
  let '(s2, ps) := probes_f s1 (all_pairs nT (length cfg)) in
  Rq s2 st' /\
  bools_eqb (locked_all s1 (length cfg)) (map (spec_is_locked st') (seq 0 (length cfg))) = true /\
  Nat.eqb (nfds s1) (match st' with Some _ => 1 | None => 0 end) = true /\
  (let expd := map (fun p => snd (spec_acquire st' (fst p) (snd p) (cfg_reent cfg (snd p)))) (all_pairs nT (length cfg)) in
   forall pf, (if Nat.eqb pf 0 then bools_eqb ps expd else implb_list ps expd) = true).
Proof.
  intros Q Hfu. destruct (probes_ok (all_pairs nT (length cfg)) s1 st' Q Hfu) as [A B].
  destruct (probes_f s1 (all_pairs nT (length cfg))) as [s2 ps]. cbn [fst snd] in *.
  split; auto. split; [rewrite (locked_all_spec _ _ _ Q); apply bools_eqb_refl|].
  split; [rewrite (Rq_nfds reent dflt z z _ _ Q); apply Nat.eqb_refl|].
  intros pf. subst ps. fold reent. destruct (Nat.eqb pf 0); [apply bools_eqb_refl|apply implb_list_refl].
Qed.

Theorem mon_complete_lemma nT : forall ops s st,
  Rq s st -> ok_calls reent dflt st ops = true ->
  (forall tc, In tc ops -> call_fuel_ok dflt fuel (snd tc)) ->
  depth st + length ops + 5 <= fuel ->
  mon nT cfg st ops (run_seq_f nT (length cfg) s ops) = true.
Proof.
  induction ops as [|[t c] rest IH]; intros s st Q Hok Hfu Hd; [reflexivity|].
  cbn [run_seq_f ok_calls length] in *. apply andb_prop in Hok. destruct Hok as [Hc Hok].
  assert (Hfc : call_fuel_ok dflt fuel c) by (apply (Hfu (t, c)); now left).
  assert (Hfr : forall tc, In tc rest -> call_fuel_ok dflt fuel (snd tc)) by (intros; apply Hfu; now right).
  destruct c as [o m blk tm poll skip|o force].
  - (* acquire *)
    pose proof Hfc as [Hp Hf].
    destruct (acq_refines reent dflt z z s st t o m blk tm poll skip fuel Q eq_refl Hp Hf) as [Er Eq].
    destruct (acq_extra s st t o m blk tm poll skip Q Hfc) as [Xb Xt].
    unfold spec_call in Hok.
    destruct (spec_acquire st t o (reent o)) as [st1 b] eqn:Esp. cbn [fst snd] in *.
    destruct (do_call fuel s t (CAcq o m blk tm poll skip)) as [s1 r] eqn:Edo. cbn [fst snd] in *.
    assert (Hd1 : depth st1 <= S (depth st)).
    { pose proof (spec_acquire_depth reent dflt z z st t o (reent o)) as Z. now rewrite Esp in Z. }
    destruct b.
    + (* granted *)
      subst r. assert (Q1 : Rq s1 st1) by (apply Eq; discriminate).
      pose proof (after_ok nT s1 st1 Q1) as A. 
      destruct (probes_f s1 (all_pairs nT (length cfg))) as [s2 ps]. destruct A as (Q2 & A1 & A2 & A3); [lia|].
      cbn [mon]. rewrite Hc. cbn [negb]. fold reent dflt. rewrite Esp. cbn.
      rewrite Xt by discriminate. rewrite A1, A2, A3. cbn. apply IH; auto. lia.
    + (* refused *)
      assert (Est : st1 = st).
      { unfold spec_acquire in Esp. destruct st as [[[o1 t1] d1]|]; [|discriminate]. destruct (_ && _); congruence. }
      subst st1. unfold spec_no in *. destruct (waits_forever (dflt o) blk tm) eqn:Ew.
      * subst r. cbn [mon]. rewrite Hc. cbn [negb]. fold reent dflt. rewrite Esp. unfold spec_no. rewrite Ew. cbn.
        rewrite (locked_all_spec _ _ _ Q) at 1 || idtac.
        unfold locked_all. rewrite (map_ext _ _ (Xb eq_refl)). change (map (is_locked s) (seq 0 (length cfg))) with (locked_all s (length cfg)).
        rewrite (locked_all_spec _ _ _ Q). rewrite bools_eqb_refl. reflexivity.
      * assert (Hr : r <> RTrue /\ r <> RWouldBlock) by (subst r; destruct m; split; discriminate).
        assert (Q1 : Rq s1 st) by (apply Eq; tauto).
        pose proof (after_ok nT s1 st Q1) as A.
        destruct (probes_f s1 (all_pairs nT (length cfg))) as [s2 ps]. destruct A as (Q2 & A1 & A2 & A3); [lia|].
        assert (Hok' : ok_calls reent dflt st rest = true) by (destruct m; exact Hok).
        assert (Hmon : mon nT cfg st rest (run_seq_f nT (length cfg) s2 rest) = true) by (apply IH; auto; lia).
        subst r. destruct m; cbn [fail_result mon]; rewrite Hc; cbn [negb]; fold reent dflt; rewrite Esp; unfold spec_no; rewrite Ew; cbn;
          rewrite Xt by discriminate; rewrite A1, A2, A3; cbn; exact Hmon.
  - (* release *)
    cbn in Hc. destruct (rel_refines reent dflt z z s st t o force fuel Q Hc) as [Er Eq]; [lia|].
    pose proof (rel_extra s st t o force Q) as Xn.
    unfold spec_call in Hok.
    destruct (do_call fuel s t (CRel o force)) as [s1 r] eqn:Edo. cbn [fst snd] in *. subst r.
    pose proof (spec_release_depth reent dflt z z st o force) as Hd1.
    pose proof (after_ok nT s1 _ Eq) as A.
    destruct (probes_f s1 (all_pairs nT (length cfg))) as [s2 ps]. destruct A as (Q2 & A1 & A2 & A3); [lia|].
    cbn [mon]. cbn in Hc. unfold spec_ok_call. rewrite Hc. cbn [negb]. cbn.
    rewrite Xn by lia. rewrite N.sub_diag. cbn. rewrite A1, A2, A3. cbn. apply IH; auto. lia.
Qed.

Definition ends_blocked (obs : list sobs) : bool :=
  match rev obs with (RWouldBlock, _, _, _, _, _, _) :: _ => true | _ => false end.

Lemma ends_blocked_cons x obs : obs <> [] -> ends_blocked (x :: obs) = ends_blocked obs.
Proof.
  intros H. unfold ends_blocked. cbn [rev]. destruct (rev obs) as [|y r] eqn:E.
  - exfalso. apply H. apply (f_equal (@rev _)) in E. now rewrite rev_involutive in E.
  - reflexivity.
Qed.

Lemma run_seq_shape nT : forall ops s st,
  Rq s st -> ok_calls reent dflt st ops = true ->
  (forall tc, In tc ops -> call_fuel_ok dflt fuel (snd tc)) ->
  depth st + length ops + 5 <= fuel ->
  length (run_seq_f nT (length cfg) s ops) = length ops \/ ends_blocked (run_seq_f nT (length cfg) s ops) = true.
Proof.
  induction ops as [|[t c] rest IH]; intros s st Q Hok Hfu Hd; [left; reflexivity|].
  cbn [run_seq_f ok_calls length] in *. apply andb_prop in Hok. destruct Hok as [Hc Hok].
  assert (Hfc : call_fuel_ok dflt fuel c) by (apply (Hfu (t, c)); now left).
  assert (Hfr : forall tc, In tc rest -> call_fuel_ok dflt fuel (snd tc)) by (intros; apply Hfu; now right).
  assert (Step : forall s1 r st1,
            do_call fuel s t c = (s1, r) -> r <> ROutOfFuel ->
            (r <> RWouldBlock -> Rq s1 st1 /\ ok_calls reent dflt st1 rest = true /\ depth st1 <= S (depth st)) ->
            length (let '(s1, r) := do_call fuel s t c in
                    match r with
                    | RWouldBlock | ROutOfFuel => [(r, locked_all s1 (length cfg), 0%N, nfds s1, 0, @nil bool, 0)]
                    | _ => let '(s2, ps) := probes_f s1 (all_pairs nT (length cfg)) in
                           (r, locked_all s1 (length cfg), (now s1 - now s)%N, nfds s1, nfired s1 - nfired s, ps, nfired s2 - nfired s1)
                             :: run_seq_f nT (length cfg) s2 rest
                    end) = S (length rest) \/
            ends_blocked (let '(s1, r) := do_call fuel s t c in
                    match r with
                    | RWouldBlock | ROutOfFuel => [(r, locked_all s1 (length cfg), 0%N, nfds s1, 0, @nil bool, 0)]
                    | _ => let '(s2, ps) := probes_f s1 (all_pairs nT (length cfg)) in
                           (r, locked_all s1 (length cfg), (now s1 - now s)%N, nfds s1, nfired s1 - nfired s, ps, nfired s2 - nfired s1)
                             :: run_seq_f nT (length cfg) s2 rest
                    end) = true).
  { intros s1 r st1 E Hno Hq. rewrite E.
    destruct (Bool.bool_dec (result_eqb r RWouldBlock) true) as [Ew|Ew].
    - assert (r = RWouldBlock) by (destruct r; try discriminate; reflexivity). subst r. right. reflexivity.
    - assert (Hnw : r <> RWouldBlock) by (intros ->; apply Ew; reflexivity).
      destruct (Hq Hnw) as (Q1 & Hok1 & Hd1).
      destruct (probes_ok (all_pairs nT (length cfg)) s1 st1 Q1) as [_ Q2]; [lia|].
      destruct (probes_f s1 (all_pairs nT (length cfg))) as [s2 ps]. cbn [fst] in Q2.
      destruct (IH s2 st1 Q2 Hok1 Hfr) as [L|B]; [lia| |].
      + left. destruct r; cbn [length]; try congruence; f_equal; exact L.
      + destruct rest as [|x rest'].
        * left. destruct r; cbn; congruence || reflexivity.
        * right. assert (Hne : run_seq_f nT (length cfg) s2 (x :: rest') <> []).
          { destruct x as [t' c']. cbn [run_seq_f]. destruct (do_call fuel s2 t' c') as [s3 r3].
            destruct r3; try discriminate; destruct (probes_f s3 _); discriminate. }
          destruct r; try congruence; rewrite ends_blocked_cons; auto. }
  destruct c as [o m blk tm poll skip|o force].
  - pose proof Hfc as [Hp Hf].
    destruct (acq_refines reent dflt z z s st t o m blk tm poll skip fuel Q eq_refl Hp Hf) as [Er Eq].
    unfold spec_call in Hok.
    destruct (spec_acquire st t o (reent o)) as [st1 b] eqn:Esp. cbn [fst snd] in *.
    destruct (do_call fuel s t (CAcq o m blk tm poll skip)) as [s1 r] eqn:Edo. cbn [fst snd] in *.
    pose proof (spec_acquire_depth reent dflt z z st t o (reent o)) as Z. rewrite Esp in Z. cbn in Z.
    apply (Step s1 r st1 eq_refl).
    + subst r. destruct b; [discriminate|]. unfold spec_no. destruct (waits_forever _ _ _), m; discriminate.
    + intros Hnw. split; [auto|]. split; [|exact Z].
      subst r. destruct b; [exact Hok|]. unfold spec_no in *. destruct (waits_forever _ _ _); [congruence|]. destruct m; exact Hok.
  - cbn in Hc. destruct (rel_refines reent dflt z z s st t o force fuel Q Hc) as [Er Eq]; [lia|].
    unfold spec_call in Hok.
    destruct (do_call fuel s t (CRel o force)) as [s1 r] eqn:Edo. cbn [fst snd] in *. subst r.
    pose proof (spec_release_depth reent dflt z z st o force) as Hd1.
    apply (Step s1 RNone (spec_release st o force) eq_refl); [discriminate|]. intros _. split; auto.
Qed.

End M.

Lemma probe_eq s t o : probe s t o = probe_f FUEL s t o.
Proof. unfold probe, probe_f. reflexivity. Qed.
Lemma probes_eq : forall pairs s, probes s pairs = probes_f FUEL s pairs.
Proof.
  induction pairs as [|[t o] r IH]; intros s; [reflexivity|].
  cbn [probes probes_f]. rewrite probe_eq. destruct (probe_f FUEL s t o). rewrite IH. reflexivity.
Qed.
Lemma run_seq_eq nT nO : forall ops s, run_seq nT nO s ops = run_seq_f FUEL nT nO s ops.
Proof.
  induction ops as [|[t c] rest IH]; intros s; [reflexivity|].
  cbn [run_seq run_seq_f]. destruct (do_call FUEL s t c) as [s1 r]. rewrite probes_eq.
  destruct (probes_f FUEL s1 (all_pairs nT nO)) as [s2 ps]. rewrite IH. reflexivity.
Qed.

(* in the shape of Case_C12.ok on the model's own trace *)
Theorem monitor_complete_C12_lemma :
  forall nT cfg ops,
    ok_calls (cfg_reent cfg) (cfg_dflt cfg) None ops = true ->
    (forall tc, In tc ops -> call_fuel_ok (cfg_dflt cfg) FUEL (snd tc)) ->
    length ops + 5 <= FUEL ->
    ok (CSeq nT cfg [] ops (model_trace (CSeq nT cfg [] ops [] 0)) 0) = true.
Proof.
  intros nT cfg ops Hok Hfu Hd. unfold ok, model_trace. rewrite run_seq_eq.
  assert (H16 : 16 <= FUEL) by (unfold FUEL; repeat constructor).
  pose proof (Rq_init nT cfg) as Q0.
  rewrite (mon_complete_lemma cfg FUEL H16 nT ops _ None Q0 Hok Hfu) by (cbn [depth]; lia). cbn [andb Nat.eqb].
  destruct (run_seq_shape cfg FUEL H16 nT ops _ None Q0 Hok Hfu) as [L|B]; [cbn [depth]; lia| |].
  - rewrite L, Nat.eqb_refl. reflexivity.
  - unfold ends_blocked in B. rewrite B. apply orb_true_r.
Qed.
