(* FLockExact.v — exact accounting: inside the contract the thread-lock depth and the lock counter of an
   object are EXACTLY what its owner's thread-local state accounts for (TL, FLockInv.v, has the
   inequalities), and a recorded descriptor implies a positive counter.  Consequence (quiescent_clean):
   when every thread is idle and nobody is inside, no object is locked, the kernel lock is free and any
   idle thread obtains the lock at its first attempt — the end-of-run clause of the line-level monitor
   (Case_C02.CLine) holds in the model for every interleaving, at the model's granularity.            *)
From Coq Require Import List Arith NArith Bool Lia ZifyBool.
Import ListNotations.
Require Import Aiuti.FLock Aiuti.FLockInv Aiuti.FLockTL Aiuti.FLockFD Aiuti.FLockMutex.
Local Arguments Nat.max : simpl never.
Arguments upd : simpl never.
Arguments enter_tlrel : simpl never.
Arguments enter_cleanup : simpl never.
Arguments after_attempt : simpl never.
Arguments k_unlock : simpl never.
Arguments k_close : simpl never.
Arguments tl_release : simpl never.
Arguments tl_try : simpl never.
Arguments tl_rel_raises : simpl never.
Arguments normalise : simpl never.
Arguments faulty : simpl never.
Arguments intr : simpl never.
Arguments enabled : simpl never.
Arguments remove_all : simpl never.
Arguments remove_one : simpl never.

Definition kpos (p : pc) : Prop :=
  match p with PUnlock _ _ k | PCloseR _ _ k => 1 <= k | _ => True end.

Record EX (s : state) : Prop := mkEX {
  ex_dep : forall o t, o_own (objs s o) = Some t -> o_dep (objs s o) = lev s t o;
  ex_cnt : forall o t, o_own (objs s o) = Some t -> unl (t_pc (thr s t)) o = false ->
             o_cnt (objs s o) = occ (t_cs (thr s t)) o + inacq (t_pc (thr s t)) o;
  ex_fd : forall o, o_fd (objs s o) <> None -> 1 <= o_cnt (objs s o);
  ex_nofd : forall o t, inacq (t_pc (thr s t)) o = 1 \/ unl (t_pc (thr s t)) o = true -> o_fd (objs s o) = None;
  ex_k : forall t, kpos (t_pc (thr s t))
}.

(* the local condition on the (touched object, stepping thread) pair *)
Definition XL (ob : obj) (th : thread) (t0 : tid) (o0 : oid) : Prop :=
  kpos (t_pc th) /\
  (o_fd ob <> None -> 1 <= o_cnt ob) /\
  (inacq (t_pc th) o0 = 1 \/ unl (t_pc th) o0 = true -> o_fd ob = None) /\
  match o_own ob with
  | None => True
  | Some u => u = t0 /\ o_dep ob = occ (t_cs th) o0 + rel_need (t_pc th) o0 /\
              (unl (t_pc th) o0 = false -> o_cnt ob = occ (t_cs th) o0 + inacq (t_pc th) o0)
  end.

Lemma EX_local s s' t0 o0 :
  TL s -> EX s ->
  (o_own (objs s o0) = Some t0 \/ o_own (objs s o0) = None) ->
  (forall o, o <> o0 -> objs s' o = objs s o) ->
  (forall t, t <> t0 -> thr s' t = thr s t) ->
  (forall o, o <> o0 -> occ (t_cs (thr s' t0)) o = occ (t_cs (thr s t0)) o
                        /\ rel_need (t_pc (thr s' t0)) o = 0 /\ rel_need (t_pc (thr s t0)) o = 0) ->
  XL (objs s' o0) (thr s' t0) t0 o0 ->
  EX s'.
Proof.
  intros HT [Ed Ec Ef En Ek] Hown Hobj Hthr Hoth (Xk & Xf & Xn & Xo).
  pose proof HT as [HL _ _ _ _ _].
  assert (Hnot : forall t, t <> t0 -> rel_need (t_pc (thr s t)) o0 = 0).
  { intros t Hne. destruct (Nat.eq_dec (lev s t o0) 0) as [Z|Hp]; [unfold lev in Z; lia|].
    destruct (HL t o0) as [E _]; [lia|]. destruct Hown as [E'|E']; congruence. }
  constructor.
  - intros o t E. unfold lev. destruct (Nat.eq_dec o o0) as [->|Hno].
    + rewrite E in Xo. destruct Xo as (-> & A & _). exact A.
    + rewrite (Hobj _ Hno) in *. destruct (Nat.eq_dec t t0) as [->|Hnt].
      * destruct (Hoth _ Hno) as (A & B & C). rewrite A, B. specialize (Ed _ _ E). unfold lev in Ed. lia.
      * rewrite (Hthr _ Hnt). apply Ed. exact E.
  - intros o t E U. destruct (Nat.eq_dec o o0) as [->|Hno].
    + rewrite E in Xo. destruct Xo as (-> & _ & A). auto.
    + rewrite (Hobj _ Hno) in *. destruct (Nat.eq_dec t t0) as [->|Hnt].
      * destruct (Hoth _ Hno) as (A & B & C). rewrite A.
        pose proof (inacq_need (t_pc (thr s' t0)) o). pose proof (inacq_need (t_pc (thr s t0)) o).
        assert (U0 : unl (t_pc (thr s t0)) o = false).
        { destruct (unl (t_pc (thr s t0)) o) eqn:Z; auto. pose proof (unl_need _ _ Z). lia. }
        specialize (Ec _ _ E U0). lia.
      * rewrite (Hthr _ Hnt) in *. auto.
  - intros o. destruct (Nat.eq_dec o o0) as [->|Hno]; [exact Xf|]. rewrite (Hobj _ Hno). apply Ef.
  - intros o t P. destruct (Nat.eq_dec t t0) as [->|Hnt].
    + destruct (Nat.eq_dec o o0) as [->|Hno]; [auto|].
      destruct (Hoth _ Hno) as (_ & B & _). exfalso.
      pose proof (inacq_need (t_pc (thr s' t0)) o). destruct P as [P|P]; [lia|]. pose proof (unl_need _ _ P). lia.
    + rewrite (Hthr _ Hnt) in P. destruct (Nat.eq_dec o o0) as [->|Hno].
      * exfalso. specialize (Hnot _ Hnt). pose proof (inacq_need (t_pc (thr s t)) o0).
        destruct P as [P|P]; [lia|]. pose proof (unl_need _ _ P). lia.
      * rewrite (Hobj _ Hno). eapply En; eauto.
  - intros t. destruct (Nat.eq_dec t t0) as [->|Hnt]; [exact Xk|]. rewrite (Hthr _ Hnt). apply Ek.
Qed.

(* only the pc of t0 changes, to one that accounts for the same *)
Lemma EX_lower s s' t0 :
  (forall o, objs s' o = objs s o) ->
  (forall t, t <> t0 -> thr s' t = thr s t) ->
  t_cs (thr s' t0) = t_cs (thr s t0) ->
  (forall o, rel_need (t_pc (thr s' t0)) o = rel_need (t_pc (thr s t0)) o
             /\ inacq (t_pc (thr s' t0)) o = inacq (t_pc (thr s t0)) o
             /\ unl (t_pc (thr s' t0)) o = unl (t_pc (thr s t0)) o) ->
  kpos (t_pc (thr s' t0)) ->
  EX s -> EX s'.
Proof.
  intros Hobj Hthr Hcs Hpc Hk [Ed Ec Ef En Ek]. constructor.
  - intros o t. unfold lev. rewrite Hobj. destruct (Nat.eq_dec t t0) as [->|Hn].
    + rewrite Hcs. destruct (Hpc o) as (A & _). rewrite A. apply Ed.
    + rewrite (Hthr _ Hn). apply Ed.
  - intros o t. rewrite Hobj. destruct (Nat.eq_dec t t0) as [->|Hn].
    + rewrite Hcs. destruct (Hpc o) as (_ & A & B). rewrite A, B. apply Ec.
    + rewrite (Hthr _ Hn). apply Ec.
  - intros o. rewrite Hobj. apply Ef.
  - intros o t. rewrite Hobj. destruct (Nat.eq_dec t t0) as [->|Hn].
    + destruct (Hpc o) as (_ & A & B). rewrite A, B. apply En.
    + rewrite (Hthr _ Hn). apply En.
  - intros t. destruct (Nat.eq_dec t t0) as [->|Hn]; [exact Hk|]. rewrite (Hthr _ Hn). apply Ek.
Qed.

Lemma EX_same s s' : objs s' = objs s -> thr s' = thr s -> EX s -> EX s'.
Proof.
  intros Ho Ht [Ed Ec Ef En Ek]. constructor; unfold lev in *; rewrite ?Ho, ?Ht; assumption.
Qed.

Lemma EX_own s t o : EX s -> o_own (objs s o) = Some t ->
  o_dep (objs s o) = occ (t_cs (thr s t)) o + rel_need (t_pc (thr s t)) o /\
  (unl (t_pc (thr s t)) o = false -> o_cnt (objs s o) = occ (t_cs (thr s t)) o + inacq (t_pc (thr s t)) o).
Proof. intros [Ed Ec _ _ _] E. split; [apply (Ed _ _ E)|apply (Ec _ _ E)]. Qed.

(* ---------- the acquire stage after the thread lock was taken ---------------------------------------- *)

Lemma EX_enter_cleanup s t a b :
  TL s -> EX s -> acq_pc (t_pc (thr s t)) a -> EX (enter_cleanup s t a b).
Proof.
  intros H X Hpc. destruct (acq_pc_facts _ _ Hpc) as (Hr & Hi & Hta & Hu & Hoth).
  destruct (TL_at s t (a_o a) H) as (Hown & Hlev & Hd1 & Hnr & Hcd & _ & Hocc & _); [lia|].
  destruct (EX_own _ _ _ X Hown) as (Ed & Ec). specialize (Ec Hu).
  pose proof (ex_nofd _ X (a_o a) t (or_introl Hi)) as Hfd.
  unfold enter_cleanup. rewrite (raises_own _ _ Hown).
  apply (EX_local s _ t (a_o a)); auto.
  - frames.
  - frames.
  - frames.
  - unfold XL. cbn. rewrite !upd_same. cbn. rewrite Hown, Nat.eqb_refl, Hfd.
    repeat split; auto; try congruence; try lia.
Qed.

Lemma EX_set_pc_acq s t a p' :
  EX s -> acq_pc (t_pc (thr s t)) a -> acq_pc p' a -> EX (set_pc s t p').
Proof.
  intros X Hpc Hpc'. apply (EX_lower s _ t); auto.
  - frames.
  - frames.
  - intros o. cbn. rewrite upd_same. cbn.
    destruct (acq_pc_same _ _ _ o Hpc Hpc') as (A & B & C & D). rewrite A, C, D.
    destruct (acq_pc_same _ _ _ o Hpc Hpc) as (_ & _ & _ & D'). rewrite D'. auto.
  - cbn. rewrite upd_same. cbn. destruct p'; cbn in *; tauto.
Qed.

Lemma EX_after_attempt s t a :
  TL s -> EX s -> acq_pc (t_pc (thr s t)) a -> EX (after_attempt s t a).
Proof.
  intros H X Hpc. unfold after_attempt.
  destruct (negb (a_blk a)); [now apply EX_enter_cleanup|].
  destruct (a_tm a); try (apply (EX_set_pc_acq s t a); cbn; auto).
  destruct (_ <? _)%N; [now apply EX_enter_cleanup|apply (EX_set_pc_acq s t a); cbn; auto].
Qed.

Lemma EX_finish_fail s t a r dl :
  EX s -> t_pc (thr s t) = PTLAcq a dl -> is_fail r = true -> EX (finish_acq s t a r).
Proof.
  intros X Hpc Hf. apply (EX_lower s _ t); auto.
  - frames.
  - cbn. rewrite upd_same. cbn. now rewrite Hf.
  - intros o. cbn. rewrite upd_same. cbn. rewrite Hpc. cbn. auto.
  - cbn. rewrite upd_same. cbn. exact I.
Qed.

(* ---------- every step inside the contract preserves the exact accounting ---------------------------- *)

Theorem EX_step s t : TL s -> EX s -> viol (step s t) = false -> EX (step s t).
Proof.
  intros H X Hv. destruct (enabled s t) eqn:He; [|unfold step; now rewrite He].
  destruct (t_pc (thr s t)) as [|a dl|a|a d|a d i|a w|a oserr|o d k|o d k|o k] eqn:Hpc.
  - (* PIdle *) destruct (t_prog (thr s t)) as [|c rest] eqn:Hpr; [unfold step; now rewrite He, Hpc, Hpr|].
    destruct (step_viol_call _ _ _ _ Hpc Hpr He Hv) as [Hok _].
    unfold step. rewrite He, Hpc, Hpr. cbn.
    destruct c as [o m blk tm poll skip|o force]; unfold begin_call; cbn.
    + rewrite upd_same. cbn. cbn in Hok. rewrite Hok. destruct (normalise _ _ _) as [b' tm'].
      apply (EX_lower s _ t); auto.
      * frames.
      * frames.
      * intros o'. cbn. rewrite upd_same. cbn. rewrite Hpc. cbn. auto.
      * cbn. rewrite upd_same. cbn. exact I.
    + rewrite upd_same. cbn. cbn in Hok. apply andb_prop in Hok. destruct Hok as [Hok1 Hok2]. rewrite Hok1.
      destruct (o_fd (objs s o)) as [d|] eqn:Hfd.
      2:{ apply (EX_lower s _ t); auto.
          - frames.
          - frames.
          - intros o'. cbn. rewrite upd_same. cbn. rewrite Hpc. cbn. auto.
          - cbn. rewrite upd_same. cbn. exact I. }
      rewrite Hok2.
      assert (Hown : o_own (objs s o) = Some t).
      { unfold own_is in Hok2. destruct (o_own (objs s o)) as [u|]; [|discriminate].
        apply Nat.eqb_eq in Hok2. now subst. }
      destruct (TL_own _ _ _ H Hown) as (Hlev & Hd1 & Hnr & Hcd & Hocc). unfold lev in Hlev.
      destruct (EX_own _ _ _ X Hown) as (Ed & Ec).
      rewrite Hpc in Hlev, Hocc, Ed, Ec. cbn in Hlev, Hocc, Ed, Ec. specialize (Ec eq_refl).
      assert (Hc1 : 1 <= o_cnt (objs s o)) by (apply (ex_fd _ X); congruence).
      destruct (Nat.eqb (pred (o_cnt (objs s o))) 0 || force) eqn:Hfin.
      * apply (EX_local s _ t o); auto.
        -- frames.
        -- frames.
        -- frames. split; [|rewrite Hpc; auto].
           destruct force; [apply occ_remove_all_other|apply occ_remove_one_other]; auto.
        -- unfold XL. cbn. rewrite !upd_same. cbn. rewrite Hown, Nat.eqb_refl.
           assert (Ho0 : occ (if force then remove_all o (t_cs (thr s t)) else remove_one o (t_cs (thr s t))) o = 0).
           { destruct force; [apply occ_remove_all_same|rewrite occ_remove_one_same]. cbn in Hfin. lia. }
           rewrite Ho0. repeat split; auto; try congruence; try discriminate.
           ++ destruct force; lia.
           ++ destruct force; cbn in *; lia.
      * rewrite enter_tlrel_eq. cbn. rewrite !upd_same. cbn. rewrite (raises_own _ t) by (cbn; auto). cbn.
        destruct force; [cbn in Hfin; rewrite orb_true_r in Hfin; discriminate|]. rewrite orb_false_r in Hfin.
        apply (EX_local s _ t o); auto.
        -- frames.
        -- frames.
        -- frames. split; [|rewrite Hpc; auto]. apply occ_remove_one_other; auto.
        -- unfold XL. cbn. rewrite !upd_same. cbn. rewrite Hown, Nat.eqb_refl.
           rewrite occ_remove_one_same. repeat split; auto; try lia. all: try (intros [Z|Z]; discriminate).
  - (* PTLAcq *)
    unfold step. rewrite He, Hpc. cbn.
    destruct (tl_try (objs s (a_o a)) t) as [ob'|] eqn:Htry.
    2:{ eapply EX_finish_fail; eauto. apply is_fail_fail_result. }
    destruct (tl_try_some _ _ _ Htry) as (Hown' & Hfd' & Hcnt' & Hre' & _ & _ & Hcase).
    assert (Hown0 : o_own (objs s (a_o a)) = Some t \/ o_own (objs s (a_o a)) = None) by tauto.
    assert (Hbase : o_dep ob' = S (occ (t_cs (thr s t)) (a_o a)) /\ o_cnt ob' = occ (t_cs (thr s t)) (a_o a)).
    { destruct Hcase as [(Hn & Hd)|(Hs & Hr & Hd)].
      - destruct (TL_none _ t _ H Hn) as (A & B & D). unfold lev in D. rewrite Hpc in D. cbn in D. lia.
      - destruct (EX_own _ _ _ X Hs) as (Ed & Ec). rewrite Hpc in Ed, Ec. cbn in Ed, Ec. specialize (Ec eq_refl). lia. }
    destruct Hbase as [Bd Bc].
    destruct (o_fd ob') eqn:Hfd2.
    + apply (EX_local s _ t (a_o a)); auto.
      * frames.
      * frames.
      * frames. all: try (rewrite ?occ_cons; kill_eqb; rewrite ?Hpc; cbn; auto).
      * unfold XL. cbn. rewrite !upd_same. cbn. rewrite Hown', Hfd2, occ_cons, Nat.eqb_refl.
        repeat split; auto; try lia. all: try (intros [Z|Z]; discriminate).
    + apply (EX_local s _ t (a_o a)); auto.
      * frames.
      * frames.
      * frames. all: try (rewrite ?Hpc; cbn; auto).
      * unfold XL. cbn. rewrite !upd_same. cbn. rewrite Hown', Hfd2, Nat.eqb_refl.
        repeat split; auto; try congruence; try lia.
  - (* POpen *)
    unfold step. rewrite He, Hpc. cbn.
    destruct (faulty s KOpen); [destruct (intr s KOpen)|].
    + apply EX_enter_cleanup; [eapply TL_same; [| |exact H]; reflexivity|eapply EX_same; [| |exact X]; reflexivity|]. cbn. rewrite Hpc. reflexivity.
    + apply EX_after_attempt; [eapply TL_same; [| |exact H]; reflexivity|eapply EX_same; [| |exact X]; reflexivity|]. cbn. rewrite Hpc. reflexivity.
    + apply (EX_set_pc_acq _ t a); [eapply EX_same; [| |exact X]; reflexivity| |]; cbn; auto. rewrite Hpc. reflexivity.
  - (* PFlock *)
    unfold step. rewrite He, Hpc. cbn.
    assert (Hfail : forall s1 i, objs s1 = objs s -> thr s1 = thr s -> EX (set_pc s1 t (PCloseF a d i))).
    { intros s1 i Ho Ht. apply (EX_set_pc_acq _ t a); [eapply EX_same; [| |exact X]; auto| |]; cbn; auto. rewrite Ht, Hpc. reflexivity. }
    destruct (faulty s KLock); [apply Hfail; reflexivity|].
    destruct (holder_free_for _ d); [|apply Hfail; reflexivity].
    destruct (TL_at s t (a_o a) H) as (Hown & Hlev & Hd1 & Hnr & Hcd & _ & Hocc & _); [rewrite Hpc; cbn; rewrite Nat.eqb_refl; lia|].
    destruct (EX_own _ _ _ X Hown) as (Ed & Ec).
    rewrite Hpc in Ed, Ec. cbn in Ed, Ec. rewrite Nat.eqb_refl in Ed, Ec. specialize (Ec eq_refl).
    apply (EX_local s _ t (a_o a)); auto.
    + frames.
    + frames.
    + frames. rewrite occ_cons. kill_eqb. rewrite Hpc. cbn. kill_eqb. auto.
    + unfold XL. cbn. rewrite !upd_same. cbn. rewrite Hown, occ_cons, Nat.eqb_refl.
      repeat split; auto; try lia. all: try (intros [Z|Z]; discriminate).
  - (* PCloseF *)
    unfold step. rewrite He, Hpc. cbn.
    match goal with |- context [k_close ?s1 d] => assert (H2 : TL (k_close s1 d) /\ EX (k_close s1 d))
      by (split; [eapply TL_same; [apply objs_k_close|apply thr_k_close|eapply TL_same; [| |exact H]; reflexivity]
                 |eapply EX_same; [apply objs_k_close|apply thr_k_close|eapply EX_same; [| |exact X]; reflexivity]]) end.
    destruct H2 as [H2 X2].
    destruct (faulty s KClose || i).
    + apply EX_enter_cleanup; auto. rewrite thr_k_close. cbn. rewrite Hpc. reflexivity.
    + apply EX_after_attempt; auto. rewrite thr_k_close. cbn. rewrite Hpc. reflexivity.
  - (* PSleep *)
    unfold step. rewrite He, Hpc. apply (EX_set_pc_acq _ t a); auto; [rewrite Hpc|]; reflexivity.
  - (* PCleanRel *)
    unfold step. rewrite He, Hpc. cbn.
    destruct (TL_at s t (a_o a) H) as (Hown & Hlev & Hd1 & Hnr & Hcd & Hta & Hocc & _); [rewrite Hpc; cbn; rewrite Nat.eqb_refl; lia|].
    destruct (EX_own _ _ _ X Hown) as (Ed & Ec).
    rewrite Hpc in Ed, Ec. cbn in Ed, Ec. rewrite Nat.eqb_refl in Ed. specialize (Ec eq_refl).
    assert (Hf : is_fail (if oserr then ROSErr else fail_result (a_mode a)) = true)
      by (destruct oserr; [reflexivity|apply is_fail_fail_result]).
    pose proof (ex_fd _ X (a_o a)) as Efd.
    apply (EX_local s _ t (a_o a)); auto.
    + frames.
    + frames.
    + frames; try (rewrite Hf; auto). rewrite Hpc. cbn. kill_eqb. auto.
    + unfold XL. cbn. rewrite !upd_same. cbn. rewrite Hf.
      destruct (tl_release_cases (objs s (a_o a))) as [(R & D & ->)|(C & ->)]; cbn; rewrite ?Hown.
      * repeat split; auto; try lia. all: try (intros [Z|Z]; discriminate).
      * repeat split; auto; try lia. all: try (intros [Z|Z]; discriminate).
  - (* PUnlock *)
    unfold step. rewrite He, Hpc. cbn.
    match goal with |- EX (set_pc ?s2 _ _) => assert (H2 : objs s2 = objs s /\ thr s2 = thr s)
      by (destruct (faulty s KUnlock); [split; reflexivity|split; [rewrite objs_k_unlock|rewrite thr_k_unlock]; reflexivity]) end.
    destruct H2 as [Ho2 Ht2]. pose proof (ex_k _ X t) as Kp. rewrite Hpc in Kp. cbn in Kp.
    apply (EX_lower s _ t); auto.
    + intros o'. cbn. now rewrite Ho2.
    + intros t' Hn. cbn. rewrite upd_other by auto. now rewrite Ht2.
    + cbn. rewrite upd_same. cbn. now rewrite Ht2.
    + intros o'. cbn. rewrite upd_same. cbn. rewrite Hpc. cbn. auto.
    + cbn. rewrite upd_same. cbn. exact Kp.
  - (* PCloseR *)
    unfold step. rewrite He, Hpc. cbn.
    destruct (TL_at s t o H) as (Hown & Hlev & Hd1 & Hnr & Hcd & _ & Hocc & Hunl); [rewrite Hpc; cbn; rewrite Nat.eqb_refl; lia|].
    destruct (EX_own _ _ _ X Hown) as (Ed & _).
    pose proof (ex_k _ X t) as Kp. rewrite Hpc in Kp. cbn in Kp.
    assert (Hnf : o_fd (objs s o) = None) by (apply (ex_nofd _ X o t); right; rewrite Hpc; cbn; apply Nat.eqb_refl).
    rewrite Hpc in Hlev, Hocc, Hunl, Ed. cbn in Hlev, Hocc, Hunl, Ed. rewrite Nat.eqb_refl in Hlev, Hunl, Ed.
    specialize (Hunl eq_refl).
    rewrite enter_tlrel_eq. cbn. rewrite !upd_same, ?objs_k_close. cbn. rewrite (raises_own _ t) by (cbn; auto).
    rewrite orb_false_r.
    destruct (Nat.eqb_spec k 0) as [->|Hk]; [lia|].
    apply (EX_local s _ t o); auto.
    + frames. now rewrite ?objs_k_close.
    + frames. now rewrite ?thr_k_close.
    + frames; rewrite ?thr_k_close; cbn; auto. rewrite Hpc. cbn. kill_eqb. auto.
    + unfold XL. cbn. rewrite !upd_same, ?objs_k_close, ?thr_k_close. cbn. rewrite Hown, Nat.eqb_refl, Hnf.
      repeat split; auto; try congruence; try lia.
  - (* PTLRel *)
    unfold step. rewrite He, Hpc. cbn.
    destruct (TL_at s t o H) as (Hown & Hlev & Hd1 & Hnr & Hcd & Hta & Hocc & _); [rewrite Hpc; cbn; rewrite Nat.eqb_refl; lia|].
    destruct (EX_own _ _ _ X Hown) as (Ed & Ec).
    rewrite Hpc in Ed, Ec. cbn in Ed, Ec. rewrite Nat.eqb_refl in Ed. specialize (Ec eq_refl).
    pose proof (ex_fd _ X o) as Efd.
    rewrite enter_tlrel_eq. cbn. rewrite !upd_same.
    destruct (tl_release_cases (objs s o)) as [(R & D & E)|(C & E)]; rewrite E.
    + rewrite (raises_own _ t) by (cbn; auto). rewrite orb_false_r.
      destruct (Nat.eqb_spec (pred k) 0) as [Hk|Hk].
      * apply (EX_local s _ t o); auto.
        -- frames.
        -- frames.
        -- frames. rewrite Hpc. cbn. kill_eqb. auto.
        -- unfold XL. cbn. rewrite !upd_same. cbn. rewrite Hown.
           repeat split; auto; try lia. all: try (intros [Z|Z]; discriminate).
      * apply (EX_local s _ t o); auto.
        -- frames.
        -- frames.
        -- frames. rewrite Hpc. cbn. kill_eqb. auto.
        -- unfold XL. cbn. rewrite !upd_same. cbn. rewrite Hown, Nat.eqb_refl.
           repeat split; auto; try lia. all: try (intros [Z|Z]; discriminate).
    + assert (Hr : tl_rel_raises (mkobj (o_proc (objs s o)) (o_reent (objs s o)) (o_dflt (objs s o)) (o_fd (objs s o))
                       (o_cnt (objs s o)) None 0) t = true) by reflexivity.
      rewrite Hr, orb_true_r.
      apply (EX_local s _ t o); auto.
      * frames.
      * frames.
      * frames. rewrite Hpc. cbn. kill_eqb. auto.
      * unfold XL. cbn. rewrite !upd_same. cbn. repeat split; auto; try lia.
Qed.

(* ---------- runs ------------------------------------------------------------------------------------- *)

Lemma EX_apply s e : Inv s -> EX s -> viol (apply s e) = false -> EX (apply s e).
Proof.
  intros [HT _] X Hv. destruct e as [t|n|p]; cbn in *.
  - apply EX_step; auto.
  - eapply EX_same; [| |exact X]; reflexivity.
  - eapply EX_same; [| |exact X]; reflexivity.
Qed.

Lemma EX_run evs : forall s, Inv s -> EX s -> viol (run s evs) = false -> EX (run s evs).
Proof.
  induction evs as [|e r IH]; [cbn; auto|]. intros s HI X Hv.
  change (run s (e :: r)) with (run (apply s e) r) in *.
  assert (Hv' : viol (apply s e) = false).
  { destruct (viol (apply s e)) eqn:E; auto. rewrite (viol_run_mono r _ E) in Hv. discriminate. }
  apply IH; auto; [apply Inv_apply; auto|apply EX_apply; auto].
Qed.

Lemma EX_init ocfg tcfg fl : EX (init_cfg ocfg tcfg fl).
Proof.
  unfold init_cfg, init. constructor; unfold lev; cbn; intros *;
    try (destruct (nth_fun_map_obj0 ocfg o) as (p & r & d & ->));
    try (destruct (nth_fun_map_thr0 tcfg t) as (q & pr & ->)); unfold occ; cbn; try lia; try discriminate; auto;
    try tauto; try (intros [Z|Z]; discriminate).
Qed.

(* ---------- quiescence: nothing is left behind -------------------------------------------------------- *)

(* every thread idle and nobody inside: every object is exactly as freshly constructed as far as locking goes,
   and the kernel lock is free *)
Theorem quiescent_clean_lemma :
  forall ocfg tcfg fl evs,
    let s := run (init_cfg ocfg tcfg fl) evs in
    viol s = false ->
    (forall t, t_pc (thr s t) = PIdle /\ t_cs (thr s t) = []) ->
    (forall o, o_fd (objs s o) = None /\ o_own (objs s o) = None /\ o_cnt (objs s o) = 0 /\ o_dep (objs s o) = 0) /\
    holder s = None.
Proof.
  intros ocfg tcfg fl evs s Hv Hq.
  assert (HI : Inv s) by (apply Inv_run; [apply Inv_init|exact Hv]).
  assert (X : EX s) by (apply EX_run; [apply Inv_init|apply EX_init|exact Hv]).
  destruct HI as [HT HF].
  assert (Hobj : forall o, o_fd (objs s o) = None /\ o_own (objs s o) = None /\ o_cnt (objs s o) = 0 /\ o_dep (objs s o) = 0).
  { intros o.
    assert (Hown : o_own (objs s o) = None).
    { destruct (o_own (objs s o)) as [t|] eqn:E; auto. exfalso.
      pose proof (ex_dep _ X _ _ E) as D. unfold lev in D. destruct (Hq t) as [P C]. rewrite P, C in D. unfold occ in D. cbn in D.
      destruct (tl_owned _ HT _ _ E) as (A & _). lia. }
    destruct (tl_free _ HT _ Hown) as [D C]. repeat split; auto.
    destruct (o_fd (objs s o)) eqn:E; auto. exfalso.
    assert (1 <= o_cnt (objs s o)) by (apply (ex_fd _ X); congruence). lia. }
  split; auto.
  destruct (holder s) as [d|] eqn:E; auto. exfalso.
  destruct (fd_holder_ref _ HF _ E) as [(o & A & _)|(t & A & _)].
  - destruct (Hobj o) as [Z _]. congruence.
  - destruct (Hq t) as [P _]. rewrite P in A. discriminate.
Qed.
