(* XLoopK1.v — [cands] lists every operation the model can accept (so "enabled = []"
   means that NO operation at all is possible), and the K1 witness: a reachable state of
   the faithful model in which a caller has not completed and nothing can ever happen. *)
From Coq Require Import List Arith NArith Bool Lia.
Import ListNotations.
Require Import Aiuti.XLoop Aiuti.XLoopInv Aiuti.XLoopLive Aiuti.XLoopProg.

Ltac rew_run := repeat match goal with
  | G : true = running _ |- _ => rewrite <- G
  | G : false = running _ |- _ => rewrite <- G
  end.

Lemma cands_complete : forall c s e s', step c s e = Some s' -> In e (cands c s).
Proof.
  intros c s e s' H.
  assert (L : forall i, i < c_n c -> In (OStart i true) (loop_cands c) /\ In (OFin i true) (loop_cands c) /\ In (ODlv i) (loop_cands c))
    by (intros; now apply in_loop_cands).
  destruct e as [t o]. destruct t; cbv beta iota delta [step] in H; try discriminate H.
  - (* TM *) apply in_cands_m. unfold step_m, cands_m in *. split_step H; try discriminate H; norm_guards; subst; simpl; auto.
    all: try (match goal with G : _ = running _ |- _ => rewrite <- G end; simpl; auto).
  - (* TJM *) apply in_cands_jm. unfold step_job, loop_ev, cands_job in *.
    split_step H; try discriminate H; norm_guards; subst; rew_run; simpl; auto;
      try (right; apply L; assumption); try (right; right; apply L; assumption).
    all: try (match goal with Hi : inside _ = [] |- _ => rewrite Hi; simpl; auto end).
  - (* TC *) destruct (i <? c_n c) eqn:Hi; [|discriminate H]. apply Nat.ltb_lt in Hi.
    apply in_cands_c; auto. unfold step_c, loop_ev, cands_c in *.
    split_step H; try discriminate H; norm_guards; subst; rew_run; simpl; auto;
      try (apply in_or_app; right; apply L; assumption); try (right; apply L; assumption).
    all: try (match goal with Hq : cres _ _ = Some _ |- _ => rewrite Hq; simpl; auto end).
    all: try (match goal with Hq : res _ _ = Some _ |- _ => rewrite Hq; simpl; auto end).
  - (* TJ *) destruct (i <? c_n c) eqn:Hi; [|discriminate H]. apply Nat.ltb_lt in Hi.
    apply in_cands_j; auto. unfold step_job, loop_ev, cands_job in *.
    split_step H; try discriminate H; norm_guards; subst; rew_run; simpl; auto;
      try (right; apply L; assumption); try (right; right; apply L; assumption).
    all: try (match goal with Hq : inside _ = [] |- _ => rewrite Hq; simpl; auto end).
  - (* TClk *) apply in_cands_clk. split_step H; try discriminate H.
    apply andb_prop in G as [_ G]. apply existsb_exists in G as (i & Hin & Hs).
    unfold cands_clk. apply in_flat_map. exists i. split; auto.
    unfold sleeping_until in Hs. destruct (aw s i); try discriminate. destruct w; try discriminate.
    apply N.eqb_eq in Hs. subst. simpl; auto.
Qed.

Lemma enabled_nil_stuck : forall c s, enabled c s = [] -> forall e, step c s e = None.
Proof.
  intros c s H e. destruct (step c s e) as [s'|] eqn:E; auto. exfalso.
  assert (In e (enabled c s)).
  { unfold enabled. apply filter_In. split; [eapply cands_complete; eauto|]. unfold accepts1. now rewrite E. }
  rewrite H in H0. contradiction.
Qed.

(* ---- K1: the scenario the real code exhibits (design-notes/e1.py, corpus case 0) -------- *)
Definition k1_cfg : cfg := mk_cfg MIdle [(false, Some 5%N, FCoro); (false, Some 50%N, FCoro)].
Definition k1_log : list event :=
  [ (TC 0, OBegin); (TC 0, OChk false); (TC 0, OSubmit (TJ 0)); (TC 1, OBegin);
    (TJ 0, OTbl None); (TJ 0, OAcq 0); (TJ 0, OTbl None); (TJ 0, OMklock 1); (TJ 0, ORel 0);
    (TJ 0, OAcq 1); (TJ 0, OEnter 0);              (* caller 0's pool thread BORROWS the idle loop *)
    (TJ 0, OStart 0 true);
    (TC 1, OChk true); (TC 1, OCst);               (* caller 1 sees it "running" and schedules its awaitable there *)
    (TJ 0, OStart 1 true); (TClk, OAdv 5%N); (TJ 0, OFin 0 true);
    (TJ 0, OExit);                                 (* the borrower's awaitable is done: run_until_complete returns *)
    (TJ 0, ORel 1); (TJ 0, ODlv 0); (TJ 0, OJobend); (TC 0, ODone 0 (KRet, 0)) ].

Lemma k1_witness :
  exists s, run k1_cfg k1_log = Some s /\
            completedb s 0 = true /\ completedb s 1 = false /\ cp s 1 = CXwait /\
            xsub s 1 = Some (TJ 0) /\ inside s = [] /\ enabled k1_cfg s = [].
Proof.
  destruct (run k1_cfg k1_log) as [s|] eqn:E; [|vm_compute in E; discriminate].
  exists s. split; [reflexivity|].
  assert (Hs : Some s = run k1_cfg k1_log) by (symmetry; exact E). clear E.
  vm_compute in Hs. injection Hs as ->. vm_compute. repeat split; reflexivity.
Qed.

Lemma stranded_lemma :
  exists c evs s, run c evs = Some s /\ c_mode c = MIdle /\
    (exists i, i < c_n c /\ completedb s i = false) /\ (forall e, step c s e = None).
Proof.
  destruct k1_witness as (s & H & _ & H1 & _ & _ & _ & H5).
  exists k1_cfg, k1_log, s. repeat split; auto.
  - exists 1. split; [vm_compute; lia|exact H1].
  - now apply enabled_nil_stuck.
Qed.

Lemma liveness_unconditional_false :
  ~ (forall c evs s, run c evs = Some s ->
       forall i, i < c_n c -> completedb s i = false -> penabled c s <> []).
Proof.
  intros H. destruct k1_witness as (s & Hr & _ & H1 & _ & _ & _ & H5).
  apply (H k1_cfg k1_log s Hr 1); [vm_compute; lia|exact H1|].
  unfold penabled. rewrite H5. reflexivity.
Qed.
