(* Case_C17_Complete.v — the monitor of Case_C17.v accepts every log the model accepts
   (no safety tag on any model trace; only the two "stuck" tags can appear, and none when the
   run ended normally).  Proved by a simulation between the monitor's own bookkeeping and
   the model state along an accepted log. *)
From Coq Require Import List Arith NArith Bool Lia.
Import ListNotations.
Require Import Aiuti.CaseLib Aiuti.XLoop Aiuti.XLoopInv Aiuti.XLoopSafe Aiuti.XLoopLive Aiuti.XLoopProg Aiuti.Case_C17.

(* relation between the monitor's own bookkeeping and the model state *)
Record mrel (c : cfg) (s : state) (m : mst) : Prop := {
  mr_ins : m_ins m = inside s;
  mr_own1 : forall l t, In (l, t) (m_own m) -> owner s l = Some t;
  mr_own2 : forall l t, owner s l = Some t -> In (l, t) (m_own m);
  mr_nodup : NoDup (map fst (m_own m));
  mr_lock : m_lock m = tbl s;
  mr_done : forall i, mem_nat i (m_done m) = true -> completedb s i = true;
  mr_done2 : forall i, completedb s i = true -> mem_nat i (m_done m) = true;
  mr_tags : m_tags m = []
}.

Lemma mem_tid_In : forall t l, mem_tid t l = true <-> In t l.
Proof.
  intros t l. unfold mem_tid. rewrite existsb_exists. split.
  - intros (x & Hx & E). apply tid_eqb_eq in E. now subst.
  - intros H. exists t. split; auto. apply tid_eqb_refl.
Qed.

Lemma lock_held_spec : forall own l, lock_held own l = true <-> exists t, In (l, t) own.
Proof.
  intros own l. unfold lock_held. rewrite existsb_exists. split.
  - intros ([l' t] & Hin & E). simpl in E. apply Nat.eqb_eq in E. subst. eauto.
  - intros (t & Hin). exists (l, t). split; auto. simpl. apply Nat.eqb_refl.
Qed.

Lemma holds_loop_lock_spec : forall own t, holds_loop_lock own t = true <-> exists l, l <> 0 /\ In (l, t) own.
Proof.
  intros own t. unfold holds_loop_lock. rewrite existsb_exists. split.
  - intros ([l t'] & Hin & E). simpl in E. apply andb_prop in E as [E1 E2].
    apply negb_true_iff in E1. apply Nat.eqb_neq in E1. apply tid_eqb_eq in E2. subst. eauto.
  - intros (l & Hl & Hin). exists (l, t). split; auto. simpl.
    rewrite tid_eqb_refl, andb_true_r. apply negb_true_iff. now apply Nat.eqb_neq.
Qed.

Lemma drop_lock_In : forall l own l' t, In (l', t) (drop_lock l own) -> In (l', t) own.
Proof.
  induction own as [|[a b] r IH]; simpl; intros l' t H; auto.
  destruct (Nat.eqb_spec a l); auto. destruct H; auto.
Qed.
Lemma drop_lock_other : forall l own l' t, l' <> l -> In (l', t) own -> In (l', t) (drop_lock l own).
Proof.
  induction own as [|[a b] r IH]; simpl; intros l' t Hn H; auto.
  destruct (Nat.eqb_spec a l).
  - destruct H as [H|H]; auto. injection H as -> ->. congruence.
  - destruct H as [H|H]; [left; auto|right; auto].
Qed.

Lemma drop_lock_gone : forall l own t, NoDup (map fst own) -> In (l, t) (drop_lock l own) -> False.
Proof.
  induction own as [|[a b] r IH]; simpl; intros t Hn H; auto.
  inversion Hn; subst. destruct (Nat.eqb_spec a l).
  - subst. apply H2. apply in_map_iff. exists (l, t). auto.
  - destruct H as [H|H]; [injection H as -> ->; congruence|eauto].
Qed.
Lemma drop_lock_nodup : forall l own, NoDup (map fst own) -> NoDup (map fst (drop_lock l own)).
Proof.
  induction own as [|[a b] r IH]; simpl; intros Hn; auto.
  inversion Hn; subst. destruct (Nat.eqb_spec a l); auto. simpl. constructor; auto.
  intros Hin. apply H1. apply in_map_iff in Hin as ([l' t'] & E & Hin). simpl in E. subst.
  apply in_map_iff. exists (a, t'). split; auto. eapply drop_lock_In; eauto.
Qed.

Lemma completedb_mono : forall c s e s' i, step c s e = Some s' -> completedb s i = true -> completedb s' i = true.
Proof.
  intros c s e s' i H Hc. unfold completedb in *.
  inv_step H; simp2; auto; dupd; tid_inj; subst; rw_phases; simpl in *; try congruence; auto.
Qed.

Lemma completedb_same : forall c s e s', step c s e = Some s' ->
  (forall i o, e <> (TC i, ODone i o)) -> forall k, completedb s' k = completedb s k.
Proof.
  intros c s e s' H Hn k. unfold completedb.
  inv_step H; simp2; auto; try (exfalso; eapply Hn; reflexivity);
    dupd; tid_inj; subst; rw_phases; simpl in *; try congruence; auto.
Qed.

Lemma mon_init_rel : forall c, mrel c (init c) mon_init.
Proof. intros c. constructor; simpl; auto; try (intros; discriminate); try (intros; contradiction). constructor. Qed.

Ltac tag_false :=
  repeat match goal with
  | |- context [addtag ?b ?t ?m] =>
      let Hb := fresh "Hb" in
      assert (Hb : b = false); [ | rewrite Hb; cbn [addtag] ]
  end.

Definition own_ok (own : list (nat * tid)) (owner : nat -> option tid) : Prop :=
  (forall l t, In (l, t) own -> owner l = Some t) /\
  (forall l t, owner l = Some t -> In (l, t) own) /\ NoDup (map fst own).

Lemma own_acq : forall own owner l t, own_ok own owner -> owner l = None ->
  own_ok ((l, t) :: own) (upd owner l (Some t)).
Proof.
  intros own owner l t (R1 & R2 & R3) Hn. repeat split.
  - intros l' t' [Q|Q].
    + injection Q as <- <-. now rewrite upd_same.
    + unfold upd. destruct (Nat.eqb_spec l' l); [subst; apply R1 in Q; congruence|auto].
  - intros l' t' Q. unfold upd in Q. destruct (Nat.eqb_spec l' l).
    + injection Q as <-. subst. left. reflexivity.
    + right. auto.
  - simpl. constructor; auto. intros Q. apply in_map_iff in Q as ([a b] & Ea & Q). simpl in Ea. subst.
    apply R1 in Q. congruence.
Qed.

Lemma own_rel : forall own owner l, own_ok own owner -> own_ok (drop_lock l own) (upd owner l None).
Proof.
  intros own owner l (R1 & R2 & R3). repeat split.
  - intros l' t' Q. unfold upd. destruct (Nat.eqb_spec l' l).
    + subst. exfalso. eapply drop_lock_gone; eauto.
    + apply R1. eapply drop_lock_In; eauto.
  - intros l' t' Q. unfold upd in Q. destruct (Nat.eqb_spec l' l); [discriminate|].
    apply drop_lock_other; auto.
  - now apply drop_lock_nodup.
Qed.

Lemma lock_is_one : forall c s t l, Inv c s -> lockof (jp s t) = Some l -> l = 1.
Proof.
  intros c s t l HI H. pose proof (t_1 _ _ HI _ _ H) as Q. pose proof (t_2 _ _ HI) as T2. rewrite Q in T2. tauto.
Qed.

Lemma mrel_step : forall c s m e s', Inv c s -> InvB c s -> mrel c s m -> step c s e = Some s' ->
  (forall b, e = (TM, OLitret b) -> b = true) -> mrel c s' (mon_step c m e).
Proof.
  intros c s m e s' HI HB [Rins Ro1 Ro2 Rnd Rlock Rdone Rdone2 Rtags] H Hlit.
  pose proof (completedb_mono c s e s') as Mono. specialize (fun i => Mono i H).
  pose proof (completedb_same c s e s' H) as Same.
  pose proof (i_1 _ _ HI) as I1. pose proof (i_2 _ _ HI) as I2. pose proof (l_a _ _ HI) as La.
  pose proof H as H0.
  inv_step H; unfold mon_step; simp2.
  all: try (constructor; simp2; auto; fail).
  all: gen_idle HI; running_contra; gen_runs I2.
  all: try (match goal with E : jp _ ?t = JCmk |- _ => pose proof (t_3 _ _ HI _ E) as T3 end).
  all: rewrite ?Rlock, ?Rins in *; rw_phases; cbn [hd_error is_none negb orb andb length Nat.eqb app] in *.
  all: tag_false.
  (* the tag conditions are false *)
  all: try (match goal with |- negb (optnat_eqb ?a ?a) = false =>
              assert (Q : optnat_eqb a a = true) by (apply optnat_eqb_eq; reflexivity); rewrite Q; reflexivity end).
  all: try (match goal with |- lock_held _ ?l = false =>
              destruct (lock_held _ l) eqn:Q; [|reflexivity];
              apply lock_held_spec in Q as (t' & Q); apply Ro1 in Q; congruence end).
  all: try (match goal with |- mem_tid ?t _ && _ = false =>
              let Q := fresh in destruct (mem_tid t _) eqn:Q; [|reflexivity];
              apply mem_tid_In in Q; apply I1 in Q; simpl in Q; rw_phases; discriminate end).
  all: try (match goal with |- negb true || negb (mem_tid ?t [?t]) = false =>
              unfold mem_tid; simpl; rewrite tid_eqb_refl; reflexivity end).
  all: try reflexivity.
  (* unchanged monitor state *)
  all: try (constructor; simp2; rw_phases; auto; try congruence; try (intros; apply Mono; auto); try (intros ? Hq; apply Rdone2; rewrite <- Same; [exact Hq|intros; discriminate]); fail).
  all: try (match goal with |- negb (mem_tid ?t [?t]) = false =>
              unfold mem_tid; simpl; rewrite tid_eqb_refl; reflexivity end).
  all: try (match goal with |- negb (mem_tid ?t [?t]) = false =>
              unfold mem_tid; cbn [existsb]; rewrite tid_eqb_refl; reflexivity end).
  (* acquire / release *)
  all: try (match goal with |- mrel _ _ {| m_ins := _; m_own := (?l, ?t) :: _; m_lock := _; m_xb := _; m_done := _; m_tags := _ |} =>
              destruct (own_acq (m_own m) (owner s) l t) as (A1 & A2 & A3); [repeat split; auto|auto|];
              constructor; simp2; rw_phases; auto; try congruence; try (intros; apply Mono; auto); try (intros ? Hq; apply Rdone2; rewrite <- Same; [exact Hq|intros; discriminate]) end).
  all: try (match goal with |- mrel _ _ {| m_ins := _; m_own := drop_lock ?l _; m_lock := _; m_xb := _; m_done := _; m_tags := _ |} =>
              destruct (own_rel (m_own m) (owner s) l) as (A1 & A2 & A3); [repeat split; auto|];
              constructor; simp2; rw_phases; auto; try congruence; try (intros; apply Mono; auto); try (intros ? Hq; apply Rdone2; rewrite <- Same; [exact Hq|intros; discriminate]) end).
  (* a pool thread that enters holds the loop's lock *)
  all: try (match goal with E : jp _ ?t = JHold ?l |- is_helper ?t && negb (holds_loop_lock _ ?t) = false =>
              assert (Q : holds_loop_lock (m_own m) t = true);
              [apply holds_loop_lock_spec; exists l; split;
                 [assert (l = 1) by (eapply (lock_is_one c s t); eauto; rewrite E; reflexivity); lia
                 |apply Ro2; apply La; rewrite E; reflexivity]
              |rewrite Q; destruct (is_helper t); reflexivity] end).
  (* entering / leaving *)
  all: try (constructor; simp2; rewrite ?Rins; rw_phases; simpl; auto; try congruence; try (intros; apply Mono; auto); try (intros ? Hq; apply Rdone2; rewrite <- Same; [exact Hq|intros; discriminate]); fail).
  (* completion of a caller *)
  all: try (match goal with H0 : step _ _ (TC ?i, ODone ?i ?o) = Some _ |- mem_nat ?i _ || negb (outcome_ok _ ?i ?o) = false =>
              destruct (done_once_step _ _ _ _ _ H0) as [D1 D2];
              destruct (done_step _ _ _ _ _ _ HI H0) as (_ & _ & Ho);
              destruct (mem_nat i (m_done m)) eqn:Q; [apply Rdone in Q; congruence|];
              simpl; unfold outcome_ok; destruct (c_mode c);
              try (exfalso; unfold expected in Ho; destruct (s_raise _); discriminate Ho);
              subst; simpl; try reflexivity;
              match goal with |- negb (outcome_eqb ?a ?a) = false =>
                assert (Q2 : outcome_eqb a a = true) by (apply outcome_eqb_eq; reflexivity); rewrite Q2; reflexivity end end).
  all: try (match goal with H0 : step _ _ (TC ?i, ODone ?i ?o) = Some _ |- mrel _ _ _ =>
              destruct (done_once_step _ _ _ _ _ H0) as [D1 D2];
              constructor; simp2; rw_phases; auto; try congruence;
              intros k Hk; simpl in Hk; destruct (Nat.eqb_spec k i) as [->|Hn]; [exact D2|apply Mono; apply Rdone; exact Hk] end).
  (* is_running() = true seen by a caller: only the K1 bookkeeping changes *)
  all: try (match goal with |- mrel _ _ (match hd_error (inside ?s0) with _ => _ end) =>
              destruct (hd_error (inside s0)) as [[]|];
              constructor; simp2; rw_phases; auto; try congruence; try (intros; apply Mono; auto); try (intros ? Hq; apply Rdone2; rewrite <- Same; [exact Hq|intros; discriminate]) end).
  all: try (match goal with H0 : step _ _ (TC ?i, ODone ?i ?o) = Some _ |- mrel _ _ _ =>
              destruct (done_once_step _ _ _ _ _ H0) as [D1 D2];
              constructor; simp2; rw_phases; auto; try congruence end).
  all: try (match goal with D2 : completedb _ ?i = true |- _ =>
              intros k Hk; cbn [m_done mem_nat existsb] in Hk; destruct (Nat.eqb_spec k i) as [Heq|Hn];
              [rewrite Heq; exact D2|apply Mono; apply Rdone; exact Hk] end).
  all: try (match goal with D1 : completedb _ ?i = false |- _ =>
              intros k Hk; cbn [m_done mem_nat existsb]; destruct (Nat.eqb_spec k i) as [Heq|Hn]; [reflexivity|];
              apply Rdone2; unfold completedb in *; simp2; rewrite upd_other in Hk by auto; exact Hk end).
  - (* loop_in_thread returned: the observed flag is true (hypothesis), so somebody is inside *)
    pose proof (Hlit _ eq_refl) as Hr. rewrite Hr. unfold running in Hr.
    destruct (inside s); [discriminate|reflexivity].
  - (* stop() returned *)
    destruct (stopret_contract _ _ _ _ _ HI HB H0) as (_ & J & Nin & _ & Fv).
    rewrite J. simpl.
    assert (Q : mem_tid TJM (inside s) = false).
    { destruct (mem_tid TJM (inside s)) eqn:Q; auto. apply mem_tid_In in Q. contradiction. }
    rewrite Q. simpl.
    pose proof (m_none _ _ HI) as Mn. rewrite E in Mn.
    destruct (c_mode c) eqn:Em; try discriminate Mn; try congruence.
    + destruct (Fv eq_refl) as [Fr _]. rewrite Fr. reflexivity.
    + apply andb_false_r.
Qed.

(* ---- the monitor accepts every log the model accepts --------------------------------- *)
Definition mon_run (c : cfg) (evs : list event) : mst := fold_left (mon_step c) evs mon_init.

Lemma mon_complete_rel : forall c evs s, run c evs = Some s ->
  (forall b, In (TM, OLitret b) evs -> b = true) -> mrel c s (mon_run c evs).
Proof.
  intros c evs s H. revert s H.
  apply (run_ind c (fun evs s => (forall b, In (TM, OLitret b) evs -> b = true) -> mrel c s (mon_run c evs))).
  - intros _. apply mon_init_rel.
  - intros evs0 s0 e s' Hr IH Hs Hl. unfold mon_run. rewrite fold_left_app. simpl.
    destruct (InvAB_reach c s0) as [HI HB]; [now exists evs0|].
    eapply mrel_step; eauto.
    + apply IH. intros b Hb. apply Hl. apply in_or_app. auto.
    + intros b ->. apply Hl. apply in_or_app. right. simpl. auto.
Qed.


(* the tags the monitor can attach to a case whose log the model accepts *)
Lemma mon_tags_of_accepted : forall k,
  model_accepts k = true -> k_texc k = 0 ->
  (forall b, In (TM, OLitret b) (k_log k) -> b = true) ->
  (k_res k = 0 -> mon_tags k = []) /\
  (forall t, In t (mon_tags k) -> t = T_stuck_k1 \/ t = T_stuck_other).
Proof.
  intros k Hacc Htx Hlit. unfold model_accepts in Hacc.
  destruct (run (cfg_of k) (k_log k)) as [s|] eqn:Hrun; [|discriminate].
  pose proof (mon_complete_rel _ _ _ Hrun Hlit) as R. unfold mon_run in R.
  unfold mon_tags. cbv zeta. rewrite Htx. cbn [Nat.eqb app].
  set (m := fold_left (mon_step (cfg_of k)) (k_log k) mon_init) in *.
  rewrite (mr_tags _ _ _ R). rewrite app_nil_r.
  split.
  - intros Hres. rewrite Hres in *. cbv beta iota. simpl in Hacc.
    assert (Q : forallb (fun i => mem_nat i (m_done m)) (seq 0 (c_n (cfg_of k))) = true).
    { apply forallb_forall. intros i Hi. apply (mr_done2 _ _ _ R). unfold all_ended in Hacc.
      apply andb_prop in Hacc as [Hacc _]. apply andb_prop in Hacc as [Hacc _]. apply andb_prop in Hacc as [Hacc _].
      rewrite forallb_forall in Hacc. specialize (Hacc i Hi). unfold completedb.
      destruct (cp s i); try discriminate; reflexivity. }
    rewrite Q. reflexivity.
  - intros t Ht. apply filter_In in Ht as [_ Ht]. unfold mem_nat in Ht. apply existsb_exists in Ht as (x & Hx & E).
    apply Nat.eqb_eq in E. subst x.
    destruct (k_res k) as [|[|r]].
    + destruct (forallb _ _); simpl in Hx; [contradiction|]. destruct Hx as [<-|[]]. auto.
    + unfold stuck_tags in Hx.
      destruct (filter _ _) as [|a l] eqn:Ef.
      * destruct Hx as [<-|[]]. auto.
      * apply in_map_iff in Hx as (i & Hi & _). destruct (mem_nat i (m_xb m)); subst; auto.
    + exfalso. simpl in Hacc. discriminate.
Qed.

(* outside race mode the flag reported by loop_in_thread is true in every accepted log *)
Lemma litret_true_nonrace : forall c evs s, run c evs = Some s -> c_mode c <> MRace ->
  forall b, In (TM, OLitret b) evs -> b = true.
Proof.
  intros c evs s H Hm b Hin.
  destruct (event_step _ _ _ _ H Hin) as (pre & post & s0 & s1 & -> & H0 & H1).
  destruct (InvAB_reach c s0) as [HI HB]; [now exists pre|].
  pose proof (m_none _ _ HI) as Mn.
  assert (E : mp s0 = MLit) by (simpl in H1; unfold step_m in H1; destruct (mp s0); try discriminate; reflexivity).
  rewrite E in Mn. destruct (c_mode c) eqn:Em; try discriminate Mn; try congruence.
  eapply litret_forever; eauto.
Qed.

Lemma monitor_complete_lemma : forall k,
  model_accepts k = true -> k_texc k = 0 ->
  (k_mode k <> MRace \/ forall b, In (TM, OLitret b) (k_log k) -> b = true) ->
  (k_res k = 0 -> ok k = true) /\
  (forall t, In t (mon_tags k) -> t = T_stuck_k1 \/ t = T_stuck_other).
Proof.
  intros k Hacc Htx Hl.
  assert (Hlit : forall b, In (TM, OLitret b) (k_log k) -> b = true).
  { destruct Hl as [Hm|Hl]; auto. unfold model_accepts in Hacc.
    destruct (run (cfg_of k) (k_log k)) as [s|] eqn:Hrun; [|discriminate].
    eapply litret_true_nonrace; eauto. }
  destruct (mon_tags_of_accepted k Hacc Htx Hlit) as [A B]. split; auto.
  intros Hr. unfold ok. now rewrite (A Hr).
Qed.
