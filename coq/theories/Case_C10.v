(* Case_C10.v — C10: size and concurrency limits, FIFO order, batch timeout.
   Monitor [ok_C10] of Case_Batcher.v, per observed BatchStart b items t:
   * items = the next |items| item-creating calls in arrival order (FIFO within
     and across batches), 1 <= |items| <= the largest max_batch_size in force
     when one of them arrived;
   * never more than max_concurrent_batches batches started and not ended;
   * the previous batch was closed only because it was full or because this
     batch's first call arrived >= batch_timeout after its last one; inside the
     batch consecutive arrivals are < batch_timeout apart and the batch was not
     full before its last item;
   * t = arrival of the last item if that filled the batch, else + batch_timeout;
     later only if all slots were busy and this step's event ended a batch;
   * at the end, calls not yet handed over while a slot is free are still inside
     their batch_timeout. *)
From Coq Require Import List Arith NArith Bool.
Import ListNotations.
Require Import Aiuti.CaseLib Aiuti.Batcher Aiuti.Case_Batcher.

Definition agree := Case_Batcher.agree.
Definition ok := ok_C10.

(* non-trivial: at least two batches, or a batch of at least two items *)
Definition nontrivial (cs : case) : bool :=
  (2 <=? count is_start (all_obs cs)) || existsb (fun o => 2 <=? start_size o) (all_obs cs).

Definition verdict := verdict3 agree ok nontrivial.
