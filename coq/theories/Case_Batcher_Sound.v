(* Case_Batcher_Sound.v — soundness of the simple, self-explanatory parts of the
   trace monitors of Case_Batcher.v: what acceptance of an OBSERVED trace implies,
   stated without reference to the model.

   * [ok_C11_sound]  ok_C11 accepts  ->  no observed batch carries a key twice;
   * [ok_C10_sound]  ok_C10 accepts  ->  every observed batch is non-empty and its
                     start tick is not in the script's future;
   * [ok_C04_sound]  ok_C04 accepts  ->  no TaskDied was observed, every completion
                     carries the script's clock, and no caller completes twice in a step.

   The remaining conjuncts of the monitors (FIFO against the specification queue,
   the retention-window specification, the expected outcome per key, the deadline
   rule) are judged by the monitor's own specification state; for them the tie to
   the theorems of props/ is the correspondence [agree] (model trace = observed
   trace) plus the theorems about the model. *)
From Coq Require Import List Arith NArith Bool Lia.
Import ListNotations.
Require Import Aiuti.CaseLib Aiuti.Batcher Aiuti.Case_Batcher.

Lemma memb_In k l : memb k l = true <-> In k l.
Proof.
  unfold memb. rewrite existsb_exists. split.
  - intros (x & H & E). apply Nat.eqb_eq in E. now subst.
  - intros H. exists k. split; auto. apply Nat.eqb_refl.
Qed.

Lemma nodup_nat_NoDup l : nodup_nat l = true -> NoDup l.
Proof.
  induction l as [|x r IH]; simpl; [constructor|]. intros H. apply andb_prop in H as [H1 H2].
  constructor; auto. intros Hin. apply memb_In in Hin. rewrite Hin in H1. discriminate.
Qed.

Lemma in_starts_of os b i t : In (BatchStart b i t) os <-> In (b, i, t) (starts_of os).
Proof.
  induction os as [|o r IH]; simpl; [tauto|]. destruct o; simpl; rewrite <- IH.
  - split; intros [H|H]; auto; injection H as <- <- <-; auto.
  - split; [intros [H|H]; [discriminate|auto] | auto].
  - split; [intros [H|H]; [discriminate|auto] | auto].
Qed.

Lemma in_dones_of os c o t : In (CallerDone c o t) os <-> In (c, o, t) (dones_of os).
Proof.
  induction os as [|x r IH]; simpl; [tauto|]. destruct x; simpl; rewrite <- IH.
  - split; [intros [H|H]; [discriminate|auto] | auto].
  - split; intros [H|H]; auto; injection H as <- <- <-; auto.
  - split; [intros [H|H]; [discriminate|auto] | auto].
Qed.

(* ---- what one accepted BatchStart implies ------------------------------------------ *)

Definition start_good (st : nat * list (nat * nat) * N) (now : N) : Prop :=
  let '(b, items, t) := st in NoDup (map fst items) /\ 1 <= length items /\ (t <= now)%N.

Lemma check_start_flags c m live0 freed st :
  let m' := check_start c m live0 freed st in
  m_now m' = m_now m /\
  (m_bad04 m' = m_bad04 m) /\
  (m_bad10 m' = false -> m_bad10 m = false /\ (let '(b, items, t) := st in 1 <= length items /\ (t <= m_now m)%N)) /\
  (m_bad11 m' = false -> m_bad11 m = false /\ (let '(b, items, t) := st in NoDup (map fst items))).
Proof.
  destruct st as [[b items] t]. unfold check_start. destruct (take_items _ _) as [mine rest]. simpl.
  split; [reflexivity|]. split; [reflexivity|]. split.
  - intros H. apply orb_false_elim in H as [H1 H2]. split; auto. apply negb_false_iff in H2.
    repeat (apply andb_prop in H2 as [H2 ?]).
    split; [|apply N.leb_le; assumption].
    match goal with H : _ && (length items <=? _) = true |- _ => apply andb_prop in H as [H _] end.
    destruct (length items); [discriminate|lia].
  - intros H. apply orb_false_elim in H as [H1 H2]. split; auto. apply negb_false_iff in H2.
    apply andb_prop in H2 as [H2 _]. now apply nodup_nat_NoDup.
Qed.

Lemma fold_check_start c live0 freed sts : forall m,
  let m' := fold_left (fun mm st => check_start c mm live0 freed st) sts m in
  m_now m' = m_now m /\ m_bad04 m' = m_bad04 m /\
  (m_bad10 m' = false -> m_bad10 m = false /\
     forall b items t, In (b, items, t) sts -> 1 <= length items /\ (t <= m_now m)%N) /\
  (m_bad11 m' = false -> m_bad11 m = false /\ forall b items t, In (b, items, t) sts -> NoDup (map fst items)).
Proof.
  induction sts as [|st r IH]; intros m; simpl.
  - split; [reflexivity|]. split; [reflexivity|]. split; intros H; (split; [exact H | intros ? ? ? []]).
  - destruct (IH (check_start c m live0 freed st)) as (A1 & A2 & A3 & A4).
    destruct (check_start_flags c m live0 freed st) as (B1 & B2 & B3 & B4).
    split; [congruence|]. split; [congruence|]. split.
    + intros H. destruct (A3 H) as [H1 H2]. destruct (B3 H1) as [H3 H4]. split; auto.
      intros b items t [E|Hin]; [subst st; exact H4|]. rewrite <- B1. eauto.
    + intros H. destruct (A4 H) as [H1 H2]. destruct (B4 H1) as [H3 H4]. split; auto.
      intros b items t [E|Hin]; [subst st; exact H4 | eauto].
Qed.

(* ---- one monitor step ------------------------------------------------------------------ *)

Definition step_good (now : N) (os : list obs) : Prop :=
  (forall b items t, In (BatchStart b items t) os -> 1 <= length items /\ (t <= now)%N).

Lemma mon_step_flags c m e os :
  let m' := mon_step c m e os in
  (m_bad10 m' = false -> m_bad10 m = false /\
     forall b items t, In (BatchStart b items t) os -> 1 <= length items /\ (t <= m_now m')%N) /\
  (m_bad11 m' = false -> m_bad11 m = false /\
     forall b items t, In (BatchStart b items t) os -> NoDup (map fst items)) /\
  (m_bad04 m' = false -> m_bad04 m = false /\ ~ In TaskDied os /\
     (forall i o t, In (CallerDone i o t) os -> t = m_now m') /\
     NoDup (map (fun d => fst (fst d)) (dones_of os))).
Proof.
  unfold mon_step.
  destruct (reg_calls c _ _ _ (calls_of e) _ _ _ _) as [[[calls1 es1] ex1] imm1].
  destruct (match bat_effect (m_live m) e with Some x => x | None => (0, [], m_live m, false) end)
    as [[[bstep produced] live1] freed].
  destruct (reg_calls c _ _ _ (recall_list _ _) _ _ _ _) as [[[calls3 es3] ex3] imm].
  match goal with |- context [fold_left ?f (starts_of os) ?m1] =>
    destruct (fold_check_start c (length (m_live m)) freed (starts_of os) m1) as (A1 & A2 & A3 & A4);
    set (m2 := fold_left f (starts_of os) m1) in * end.
  cbn [m_bad04 m_bad10 m_bad11 m_now] in *. split; [|split].
  - intros H. destruct (A3 H) as [H1 H2]. split; [exact H1|]. intros b items t Hin.
    apply in_starts_of in Hin. rewrite A1. eauto.
  - intros H. destruct (A4 H) as [H1 H2]. cbn [m_bad11] in H1. apply orb_false_elim in H1 as [H1 _].
    split; [exact H1|]. intros b items t Hin. apply in_starts_of in Hin. eauto.
  - intros H. rewrite A2 in H. cbn [m_bad04] in H. apply orb_false_elim in H as [H1 H2]. split; [exact H1|].
    apply negb_false_iff in H2. repeat (apply andb_prop in H2 as [H2 ?]).
    split; [|split].
    + intros Hin. match goal with H : negb (existsb is_died os) = true |- _ => apply negb_true_iff in H; rename H into Hd end.
      assert (existsb is_died os = true) by (apply existsb_exists; exists TaskDied; auto). congruence.
    + intros i o t Hin. apply in_dones_of in Hin.
      match goal with Hf : forallb _ (dones_of os) = true |- _ =>
        rewrite forallb_forall in Hf; pose proof (Hf _ Hin) as Ht end.
      simpl in Ht. apply N.eqb_eq in Ht. rewrite A1. exact Ht.
    + apply nodup_nat_NoDup. assumption.
Qed.

(* ---- the whole run ------------------------------------------------------------------------ *)

Lemma mon_run_sound c : forall evs observed m m',
  mon_run c m evs observed = Some m' ->
  (m_bad10 m' = false -> m_bad10 m = false /\
     forall os b items t, In os observed -> In (BatchStart b items t) os -> 1 <= length items) /\
  (m_bad11 m' = false -> m_bad11 m = false /\
     forall os b items t, In os observed -> In (BatchStart b items t) os -> NoDup (map fst items)) /\
  (m_bad04 m' = false -> m_bad04 m = false /\
     forall os, In os observed -> ~ In TaskDied os /\ NoDup (map (fun d => fst (fst d)) (dones_of os))).
Proof.
  induction evs as [|e er IH]; intros [|os or] m m' H; simpl in H; try discriminate.
  - injection H as <-. split; [|split]; intros H; (split; [exact H|]); [intros ? ? ? ? [] | intros ? ? ? ? [] | intros ? []].
  - destruct (IH or (mon_step c m e os) m' H) as (A1 & A2 & A3).
    destruct (mon_step_flags c m e os) as (B1 & B2 & B3).
    split; [|split].
    + intros Hb. destruct (A1 Hb) as [H1 H2]. destruct (B1 H1) as [H3 H4]. split; auto.
      intros os' b items t [<-|Hin] Hs; [apply (H4 b items t Hs) | eauto].
    + intros Hb. destruct (A2 Hb) as [H1 H2]. destruct (B2 H1) as [H3 H4]. split; auto.
      intros os' b items t [<-|Hin] Hs; eauto.
    + intros Hb. destruct (A3 Hb) as [H1 H2]. destruct (B3 H1) as (H3 & H4 & H5 & H6). split; auto.
      intros os' [<-|Hin]; auto.
Qed.

Lemma ok_C11_sound c evs observed w :
  ok_C11 (BCase c evs observed w) = true ->
  forall os b items t, In os observed -> In (BatchStart b items t) os -> NoDup (map fst items).
Proof.
  unfold ok_C11, final. intros H. apply andb_prop in H as [_ H].
  destruct (mon_run c (minit c) evs observed) as [m|] eqn:E; [|discriminate]. apply negb_true_iff in H. destruct (mon_run_sound c evs observed _ _ E) as (_ & A & _).
  apply A in H as [_ H]. exact H.
Qed.

Lemma ok_C10_sound c evs observed w :
  ok_C10 (BCase c evs observed w) = true ->
  forall os b items t, In os observed -> In (BatchStart b items t) os -> 1 <= length items.
Proof.
  unfold ok_C10, final. intros H. apply andb_prop in H as [_ H].
  destruct (mon_run c (minit c) evs observed) as [m|] eqn:E; [|discriminate].
  apply andb_prop in H as [H _]. apply negb_true_iff in H.
  destruct (mon_run_sound c evs observed _ _ E) as (A & _ & _). apply A in H as [_ H]. exact H.
Qed.

Lemma ok_C04_sound c evs observed w :
  ok_C04 (BCase c evs observed w) = true ->
  forall os, In os observed -> ~ In TaskDied os /\ NoDup (map (fun d => fst (fst d)) (dones_of os)).
Proof.
  unfold ok_C04, final. intros H. apply andb_prop in H as [_ H].
  destruct (mon_run c (minit c) evs observed) as [m|] eqn:E; [|discriminate].
  apply andb_prop in H as [H _]. apply negb_true_iff in H.
  destruct (mon_run_sound c evs observed _ _ E) as (_ & _ & A). apply A in H as [_ H]. exact H.
Qed.
