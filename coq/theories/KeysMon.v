(* KeysMon.v — the monitor of Case_C14.v accepts every trace of the model
   (for every key expression of the accepted shape and the store selection
   `cache if cache is not None else {}`). *)
From Coq Require Import List Arith Bool Lia Permutation.
Import ListNotations.
Require Import Aiuti.CaseLib Aiuti.Keys Aiuti.KeysInv Aiuti.Case_C14.

Lemma nmem_In x l : nmem x l = true <-> In x l.
Proof.
  unfold nmem. rewrite existsb_exists. split.
  - intros [y [Hy E]]. apply Nat.eqb_eq in E. now subst.
  - intros H. exists x. split; [assumption | apply Nat.eqb_refl].
Qed.

Lemma nsubset_incl a b : nsubset a b = true <-> incl a b.
Proof. unfold nsubset, incl. rewrite forallb_forall. split; intros H x Hx; apply nmem_In; now apply H. Qed.

Lemma nset_eqb_intro a b : incl a b -> incl b a -> length a = length b -> nset_eqb a b = true.
Proof.
  intros H1 H2 H3. unfold nset_eqb.
  rewrite (proj2 (nsubset_incl a b) H1), (proj2 (nsubset_incl b a) H2). simpl. now apply Nat.eqb_eq.
Qed.

Lemma nset_eqb_refl l : nset_eqb l l = true.
Proof. apply nset_eqb_intro; auto using incl_refl. Qed.

Lemma perm_nset_eqb a b : Permutation a b -> nset_eqb a b = true.
Proof.
  intros H. apply nset_eqb_intro.
  - intros x. now apply Permutation_in.
  - intros x. apply Permutation_in. now apply Permutation_sym.
  - now apply Permutation_length.
Qed.

Lemma nats_eqb_eq l1 l2 : list_eqb Nat.eqb l1 l2 = true <-> l1 = l2.
Proof.
  split.
  - apply list_eqb_eq. intros x y H. now apply Nat.eqb_eq.
  - intros ->. apply list_eqb_refl. apply Nat.eqb_refl.
Qed.

(* the monitor's "same arguments" is the property's *)
Lemma same_args_iff s1 s2 : same_args s1 s2 = true <-> sig_equiv s1 s2.
Proof.
  unfold same_args, sig_equiv. rewrite <- andb_assoc, andb_true_iff, nats_eqb_eq.
  change (subset (kwitems s1) (kwitems s2) && subset (kwitems s2) (kwitems s1))
    with (part_eqb (eval_comp s1 (WFrozenset, IKwItems)) (eval_comp s2 (WFrozenset, IKwItems))).
  rewrite comp_kw_iff. tauto.
Qed.

Lemma kremove_id k l : has k l = false -> kremove k l = l.
Proof.
  unfold has, kremove. induction l as [|a r IH]; simpl; [reflexivity|].
  intros H. apply orb_false_iff in H as [H1 H2]. rewrite H1. simpl. f_equal. now apply IH.
Qed.

Lemma touch_perm l : NoDupKeys l -> forall en, In en l -> Permutation (touch en l) l.
Proof.
  induction l as [|a r IH]; intros Hnd en Hin; [contradiction|].
  destruct Hnd as [H1 H2]. unfold touch. destruct Hin as [->|Hin].
  - pose proof (kremove_id _ _ H1) as Hk. unfold kremove in *. simpl. rewrite key_eqb_refl. simpl.
    rewrite Hk. apply Permutation_refl.
  - assert (Ha : key_eqb (fst a) (fst en) = false).
    { destruct (key_eqb (fst a) (fst en)) eqn:E; [|reflexivity]. exfalso. apply key_eqb_sym in E.
      assert (has (fst a) r = true) by (apply has_true; eauto). congruence. }
    unfold kremove. simpl. rewrite Ha. simpl.
    eapply Permutation_trans; [apply perm_swap|]. apply perm_skip. apply (IH H2 en Hin).
Qed.

Definition ev_sig (x : ev) : option sig := match x with Call s => Some s | Evict _ => None end.

Lemma sig_of_tag_hist pre t s :
  sig_of_tag (map ev_sig pre) t = Some s <-> nth_error pre t = Some (Call s).
Proof.
  unfold sig_of_tag. rewrite nth_error_map.
  destruct (nth_error pre t) as [[s'|v]|]; simpl; split; intro H; try discriminate; congruence.
Qed.

Lemma map_snd_filter (v : nat) (l : store) :
  map snd (filter (fun en => negb (Nat.eqb (snd en) v)) l) =
  filter (fun t => negb (Nat.eqb t v)) (map snd l).
Proof.
  induction l as [|a r IH]; simpl; [reflexivity|].
  destruct (negb (Nat.eqb (snd a) v)); simpl; now rewrite IH.
Qed.

Lemma eval_key_nonempty e s : e <> [] -> eval_key e s <> [].
Proof. destruct e; [congruence|]. discriminate. Qed.

Section MonAccepts.
  Variable e : kexpr.
  Hypothesis Hgood : good e = true.
  Variable kind : mkind.
  Variable pf : bool.

  Notation mode := IfNotNone.
  Notation act := (active mode kind pf).
  Notation step := (step e mode kind pf).
  Notation exec := (exec e mode kind pf).

  (* monitor state [before] vs model state [st] after the history [pre] *)
  Record Rel (pre : list ev) (st : cst) (before : list nat) : Prop := {
    R_inv : Inv e pre st;
    R_vis : forall v, In v before <-> In v (map snd (act st));
    R_obs : observable kind = true -> before = content st;
    R_def : observable kind = false -> user st = [];
    R_for : forall en, In en (act st) -> fst en = [] -> snd en = prefill_tag /\ pf = true
  }.

  Lemma present_none pre st before s :
    Rel pre st before -> (pf = true -> length pre <= prefill_tag) ->
    kfind (eval_key e s) (act st) = None -> tags_for (map ev_sig pre) s before = [].
  Proof.
    intros R Hlen Hk. destruct (tags_for (map ev_sig pre) s before) as [|t r] eqn:Et; [reflexivity|]. exfalso.
    assert (Hin : In t (tags_for (map ev_sig pre) s before)) by (rewrite Et; now left).
    unfold tags_for in Hin. apply filter_In in Hin as [Hb Hp].
    destruct (sig_of_tag (map ev_sig pre) t) as [s'|] eqn:Es; [|discriminate].
    apply sig_of_tag_hist in Es.
    apply (R_vis _ _ _ R) in Hb. apply in_map_iff in Hb as [en [Hsnd Hen]].
    apply kfind_None_has in Hk.
    destruct (active_origin e mode kind pf pre st (R_inv _ _ _ R) en Hen) as [Hf|[s'' [H1 H2]]].
    - destruct (R_for _ _ _ R en Hen Hf) as [Htag Hpf]. specialize (Hlen Hpf).
      rewrite Hsnd in Htag. subst t.
      assert (Hn : nth_error pre prefill_tag <> None) by congruence.
      apply nth_error_Some in Hn. lia.
    - rewrite Hsnd, Es in H1. injection H1 as <-.
      apply same_args_iff in Hp. apply (key_eq_iff_good e Hgood) in Hp.
      assert (has (eval_key e s) (act st) = true).
      { apply has_true. exists en. split; [assumption|]. now rewrite H2. }
      congruence.
  Qed.

  Lemma present_some pre st before s en :
    Rel pre st before -> kfind (eval_key e s) (act st) = Some en ->
    In (snd en) (tags_for (map ev_sig pre) s before).
  Proof.
    intros R Hk. apply kfind_Some in Hk as [Hen Heq].
    unfold tags_for. apply filter_In. split.
    - apply (R_vis _ _ _ R). now apply in_map.
    - destruct (active_origin e mode kind pf pre st (R_inv _ _ _ R) en Hen) as [Hf|[s' [H1 H2]]].
      + rewrite Hf, key_not_foreign in Heq; [discriminate | now apply good_nonempty].
      + apply sig_of_tag_hist in H1. rewrite H1. apply same_args_iff.
        apply (key_eq_iff_good e Hgood). now rewrite <- H2.
  Qed.

  Lemma in_map_touch l : NoDupKeys l -> forall en, In en l ->
    forall v, In v (map snd (touch en l)) <-> In v (map snd l).
  Proof.
    intros Hnd en Hen v. pose proof (touch_perm l Hnd en Hen) as P.
    split; apply Permutation_in; apply Permutation_map; [assumption | now apply Permutation_sym].
  Qed.

  Lemma uu_obs : forall k, use_user mode k pf = observable k.
  Proof. intros [|c]; reflexivity. Qed.

  Lemma act_obs st : observable kind = true -> act st = user st.
  Proof. intros H. unfold Keys.active. now rewrite uu_obs, H. Qed.

  Lemma act_def st : observable kind = false -> act st = priv st.
  Proof. intros H. unfold Keys.active. now rewrite uu_obs, H. Qed.

  Definition next_before (st' : cst) (dflt : list nat) : list nat :=
    if observable kind then content st' else dflt.

  (* ---- one step keeps the relation -------------------------------------- *)

  Lemma rel_hit pre st before s en :
    Rel pre st before -> kfind (eval_key e s) (act st) = Some en ->
    Rel (pre ++ [Call s]) (fst (step (Call s) st)) (next_before (fst (step (Call s) st)) before).
  Proof.
    intros R Hk. pose proof (inv_step e mode kind pf pre (Call s) st (R_inv _ _ _ R)) as Hinv.
    rewrite (step_call_hit e mode kind pf s st en Hk) in *. cbn [fst] in *.
    pose proof (kfind_Some _ _ _ Hk) as [Hen _].
    pose proof (active_ndk e mode kind pf pre st (R_inv _ _ _ R)) as Hnd.
    unfold next_before. constructor.
    - exact Hinv.
    - intros v. rewrite active_upd, (in_map_touch _ Hnd en Hen v).
      destruct (observable kind) eqn:Ob.
      + unfold content. rewrite user_upd, uu_obs, Ob. rewrite (in_map_touch _ Hnd en Hen v). reflexivity.
      + apply (R_vis _ _ _ R).
    - intros Ho. now rewrite Ho.
    - intros Ho. rewrite user_upd, uu_obs, Ho. now apply (R_def _ _ _ R).
    - intros en' Hin Hf. rewrite active_upd in Hin. destruct Hin as [<-|Hin].
      + now apply (R_for _ _ _ R).
      + apply In_kremove in Hin as [Hin _]. now apply (R_for _ _ _ R).
  Qed.

  Lemma rel_miss pre st before s :
    Rel pre st before -> kfind (eval_key e s) (act st) = None ->
    Rel (pre ++ [Call s]) (fst (step (Call s) st))
        (next_before (fst (step (Call s) st)) (cnt st :: before)).
  Proof.
    intros R Hk. pose proof (inv_step e mode kind pf pre (Call s) st (R_inv _ _ _ R)) as Hinv.
    rewrite (step_call_miss e mode kind pf s st Hk) in *. cbn [fst] in *.
    pose proof (proj1 (kfind_None_has _ _) Hk) as Hhas.
    unfold next_before. constructor.
    - exact Hinv.
    - intros v. rewrite active_upd.
      destruct (observable kind) eqn:Ob.
      + unfold content. rewrite user_upd, uu_obs, Ob. tauto.
      + unfold eff_cap, insert, trunc. rewrite uu_obs, Ob. rewrite (kremove_id _ _ Hhas). simpl.
        rewrite (R_vis _ _ _ R v). tauto.
    - intros Ho. now rewrite Ho.
    - intros Ho. rewrite user_upd, uu_obs, Ho. now apply (R_def _ _ _ R).
    - intros en' Hin Hf. rewrite active_upd in Hin. apply In_trunc in Hin. destruct Hin as [<-|Hin].
      + simpl in Hf. exfalso. revert Hf. apply eval_key_nonempty. now apply good_nonempty.
      + apply In_kremove in Hin as [Hin _]. now apply (R_for _ _ _ R).
  Qed.

  Lemma rel_evict pre st before v :
    Rel pre st before ->
    Rel (pre ++ [Evict v]) (fst (step (Evict v) st)) (next_before (fst (step (Evict v) st)) before).
  Proof.
    intros R. pose proof (inv_step e mode kind pf pre (Evict v) st (R_inv _ _ _ R)) as Hinv.
    unfold next_before. constructor.
    - exact Hinv.
    - intros t. destruct (observable kind) eqn:Ob.
      + rewrite (act_obs _ Ob). reflexivity.
      + rewrite (act_def _ Ob). simpl. rewrite <- (act_def st Ob). apply (R_vis _ _ _ R).
    - intros Ho. now rewrite Ho.
    - intros Ho. simpl. rewrite (R_def _ _ _ R Ho). reflexivity.
    - intros en Hin Hf. apply (R_for _ _ _ R en); [|assumption].
      destruct (observable kind) eqn:Ob.
      + rewrite act_obs in Hin by exact Ob. rewrite act_obs by exact Ob.
        simpl in Hin. now apply filter_In in Hin.
      + rewrite act_def in Hin by exact Ob. rewrite act_def by exact Ob. exact Hin.
  Qed.

  Lemma cap_kind_of : forall k, cap_kind k = cap_of k.
  Proof. intros [|c]; reflexivity. Qed.

  Lemma content_upd st a : content (tick (set_active mode kind pf st a)) =
                           if observable kind then map snd a else map snd (user st).
  Proof. unfold content. rewrite user_upd, uu_obs. now destruct (observable kind). Qed.

  Lemma mon_accepts_gen : forall evs pre st before,
    Rel pre st before ->
    (pf = true -> length pre + length evs <= prefill_tag) ->
    mon kind evs (fst (exec evs st)) (map ev_sig pre) before (length pre) = true.
  Proof.
    induction evs as [|x r IH]; intros pre st before R Hlen; [reflexivity|].
    assert (Hlen0 : pf = true -> length pre <= prefill_tag) by (intros Hp; specialize (Hlen Hp); lia).
    assert (Hlen' : pf = true -> length (pre ++ [x]) + length r <= prefill_tag).
    { intros Hp. specialize (Hlen Hp). rewrite app_length. simpl in *. lia. }
    assert (Hhist : forall o, map ev_sig pre ++ [o] = map ev_sig pre ++ [o]) by reflexivity.
    assert (HS : S (length pre) = length (pre ++ [x])) by (rewrite app_length; simpl; lia).
    assert (Hcnt : cnt st = length pre) by apply (I_cnt _ _ _ (R_inv _ _ _ R)).
    destruct x as [s|v].
    - destruct (kfind (eval_key e s) (act st)) as [en|] eqn:Ek.
      + (* hit *)
        pose proof (rel_hit pre st before s en R Ek) as R'.
        pose proof (present_some pre st before s en R Ek) as Hpres.
        pose proof (step_call_hit e mode kind pf s st en Ek) as Hs.
        rewrite Hs in R'. cbn [fst] in R'.
        rewrite (exec_cons e mode kind pf _ r _ _ _ Hs). cbn [fst mon].
        set (st' := tick (set_active mode kind pf st (touch en (act st)))) in *.
        specialize (IH _ _ _ R' Hlen'). rewrite map_app in IH. cbn [map ev_sig] in IH. rewrite <- HS in IH.
        destruct (tags_for (map ev_sig pre) s before) as [|t0 tr] eqn:Et; [contradiction|].
        rewrite (proj2 (nmem_In _ _) Hpres). cbn [Nat.eqb andb].
        unfold next_before in IH.
        pose proof (kfind_Some _ _ _ Ek) as [Hen _].
        pose proof (active_ndk e mode kind pf pre st (R_inv _ _ _ R)) as Hnd.
        destruct (observable kind) eqn:Ob.
        * rewrite IH, andb_true_r. rewrite (R_obs _ _ _ R Ob). unfold st'. rewrite content_upd, Ob.
          unfold content. rewrite <- (act_obs st Ob). apply perm_nset_eqb. apply Permutation_map.
          now apply touch_perm.
        * rewrite IH, andb_true_r. unfold st'. rewrite content_upd, Ob, (R_def _ _ _ R Ob). reflexivity.
      + (* miss *)
        pose proof (rel_miss pre st before s R Ek) as R'.
        pose proof (present_none pre st before s R Hlen0 Ek) as Hpres.
        pose proof (step_call_miss e mode kind pf s st Ek) as Hs.
        rewrite Hs in R'. cbn [fst] in R'.
        rewrite (exec_cons e mode kind pf _ r _ _ _ Hs). cbn [fst mon].
        set (st' := tick (set_active mode kind pf st (insert (eff_cap mode kind pf) (eval_key e s) (cnt st) (act st)))) in *.
        specialize (IH _ _ _ R' Hlen'). rewrite map_app in IH. cbn [map ev_sig] in IH. rewrite <- HS in IH.
        rewrite Hpres, Hcnt. rewrite Hcnt in IH, R', Hs. rewrite !Nat.eqb_refl. cbn [Nat.eqb andb].
        unfold next_before in IH.
        pose proof (proj1 (kfind_None_has _ _) Ek) as Hhas.
        destruct (observable kind) eqn:Ob.
        * rewrite IH, andb_true_r.
          assert (Hc : content st' = map snd (trunc (cap_kind kind) ((eval_key e s, length pre) :: user st))).
          { unfold st'. rewrite content_upd, Ob. unfold insert, eff_cap. rewrite uu_obs, Ob.
            rewrite (kremove_id _ _ Hhas). rewrite act_obs by exact Ob. rewrite Hcnt. reflexivity. }
          rewrite Hc, (R_obs _ _ _ R Ob). unfold content.
          apply andb_true_intro. split.
          -- apply nsubset_incl. intros t Ht. apply in_map_iff in Ht as [en [<- Hen]].
             apply In_trunc in Hen. change (length pre :: map snd (user st)) with (map snd ((eval_key e s, length pre) :: user st)).
             now apply in_map.
          -- destruct (cap_kind kind) as [n|]; cbn [trunc].
             ++ apply andb_true_intro. split.
                ** destruct n as [|n]; [reflexivity|]. simpl. rewrite Nat.eqb_refl. reflexivity.
                ** apply Nat.eqb_eq. rewrite map_length, firstn_length. simpl. now rewrite map_length.
             ++ apply nset_eqb_refl.
        * rewrite IH, andb_true_r. unfold st'. rewrite content_upd, Ob, (R_def _ _ _ R Ob). reflexivity.
    - (* evict *)
      pose proof (rel_evict pre st before v R) as R'.
      assert (Hs : step (Evict v) st = (fst (step (Evict v) st), (0, 0, content (fst (step (Evict v) st))))) by reflexivity.
      rewrite (exec_cons e mode kind pf _ r _ _ _ Hs). cbn [fst mon].
      set (st' := fst (step (Evict v) st)) in *.
      specialize (IH _ _ _ R' Hlen'). rewrite map_app in IH. cbn [map ev_sig] in IH. rewrite <- HS in IH.
      unfold next_before in IH. cbn [Nat.eqb andb].
      destruct (observable kind) eqn:Ob.
      + rewrite IH, andb_true_r. rewrite (R_obs _ _ _ R Ob). unfold st'. simpl. unfold content. simpl.
        rewrite map_snd_filter. apply nset_eqb_refl.
      + rewrite IH, andb_true_r. unfold st'. simpl. unfold content. simpl. rewrite (R_def _ _ _ R Ob). reflexivity.
  Qed.

  Lemma rel_init :
    Rel [] (init kind pf) (match kind with KDefault => [] | KUser _ => map snd (init_user pf) end).
  Proof.
    constructor.
    - apply inv_init.
    - intros v. unfold Keys.active, init. destruct kind as [|c]; simpl; [tauto|]. destruct pf; simpl; tauto.
    - intros Ho. destruct kind; [discriminate | reflexivity].
    - intros Ho. destruct kind; [reflexivity | discriminate].
    - intros en Hin Hf. unfold Keys.active, init in Hin. destruct kind as [|c]; simpl in Hin; [contradiction|].
      destruct pf; simpl in Hin; [|contradiction]. destruct Hin as [<-|[]]. split; reflexivity.
  Qed.

  (* the monitor accepts every trace of the model (histories shorter than the
     tag reserved for a pre-populated foreign entry; the driver never sends
     longer ones) *)
  Lemma mon_accepts_model : forall evs,
    (pf = true -> length evs <= prefill_tag) ->
    ok (C14 kind pf evs (run e mode kind pf evs)) = true.
  Proof.
    intros evs Hlen. unfold ok, run.
    apply (mon_accepts_gen evs [] (init kind pf) _ rel_init). simpl. exact Hlen.
  Qed.

End MonAccepts.
