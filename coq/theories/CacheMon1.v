(* CacheMon1.v — the C01 trace monitor accepts every trace the model accepts. *)
From Coq Require Import List Arith NArith Bool Lia ZifyBool ZifyNat ZifyN.
Import ListNotations.
Require Import Aiuti.Cache Aiuti.CacheLemmas Aiuti.CacheInv Aiuti.CacheInv2 Aiuti.CacheMon.

Record R1 (m : m1) (s : state) : Prop := mkR1 {
  rLive : forall i k l, In (i, (k, l)) (live1 m) <->
          exists ir, nth_error (invs s) i = Some ir /\ istat ir = IActive /\ ikey ir = k /\ iloop ir = l;
  rKeys : forall i, assoc (ikeys1 m) i = option_map ikey (nth_error (invs s) i);
  rSucc : forall k v, assoc (succ1 m) k = Some v <->
          exists ir, nth_error (invs s) v = Some ir /\ istat ir = IOk /\ ikey ir = k;
  rOk : ok1 m = true
}.

Lemma R1_init n tbl : R1 m1_init (init n tbl).
Proof.
  constructor; simpl; intros.
  - split; [contradiction|]. intros (ir & H & _). destruct i; discriminate.
  - destruct i; reflexivity.
  - split; [discriminate|]. intros (ir & H & _). destruct v; discriminate.
  - reflexivity.
Qed.

Lemma invs_same s e s' : trans s e s' ->
  match e with IStart _ _ _ | IEnd _ _ _ | LoopEv _ 0 => True | _ => invs s' = invs s end.
Proof. intros T. tcases T; simpl; auto. Qed.

Lemma static_key tbl s c cr : static tbl s -> getc s c = Some cr ->
  tbl_key tbl c = ckey cr /\ tbl_loop tbl c = cloop cr.
Proof.
  intros S H. apply S in H. unfold tbl_key, tbl_loop.
  assert (LG : forall (tb : list (nat * nat)) c x, nth_error tb c = Some x -> lget (0, 0) tb c = x).
  { intros tb c0. revert tb. induction c0 as [|c0 IH]; intros [|y r] x Hx; simpl in *; try discriminate.
    - congruence.
    - eauto. }
  rewrite (LG _ _ _ H). auto.
Qed.

Lemma R1_same m s s' : invs s' = invs s -> R1 m s -> R1 m s'.
Proof. intros E [A B C D]. constructor; intros; rewrite ?E; auto. Qed.

Lemma existsb_false {A} (f : A -> bool) l : (forall x, In x l -> f x = false) -> existsb f l = false.
Proof.
  induction l as [|x r IH]; simpl; intros H; auto. rewrite (H x) by auto. apply IH. auto.
Qed.

Lemma R1_iend tbl m s s' i ir st' r t :
  R1 m s -> Inv2 s -> nth_error (invs s) i = Some ir ->
  (istat ir = IActive \/ istat ir = IAband) -> st' <> IActive ->
  (r = 0 <-> st' = IOk) -> (r = 0 -> istat ir = IActive) ->
  invs s' = lset dummyI (invs s) i (mkI (ikey ir) (iloop ir) (icaller ir) st') ->
  R1 (m1_step tbl m (IEnd i r t)) s'.
Proof.
  intros [A B C D] I2 Hi Hst Hna Hr0 Hact Hinv.
  pose proof (nth_error_Some_lt _ _ _ Hi) as Hlt.
  assert (NE : forall j, nth_error (invs s') j =
                         if i =? j then Some (mkI (ikey ir) (iloop ir) (icaller ir) st') else nth_error (invs s) j).
  { intros j. rewrite Hinv. apply nth_error_lset. exact Hlt. }
  assert (LV : forall j k l,
             In (j, (k, l)) (filter (fun x => negb (fst x =? i)) (live1 m)) <->
             exists jr, nth_error (invs s') j = Some jr /\ istat jr = IActive /\ ikey jr = k /\ iloop jr = l).
  { intros j k l. rewrite filter_In. simpl. rewrite NE. split.
    - intros [Hin Hne]. apply negb_true_iff, Nat.eqb_neq in Hne.
      destruct (Nat.eqb_spec i j); [congruence|]. apply A. exact Hin.
    - intros (jr & Hj & Hja & Hjk & Hjl). destruct (Nat.eqb_spec i j).
      + injection Hj as <-. simpl in Hja. contradiction.
      + split; [apply A; eauto|]. apply negb_true_iff, Nat.eqb_neq. auto. }
  assert (KS : forall j, assoc (ikeys1 m) j = option_map ikey (nth_error (invs s') j)).
  { intros j. rewrite B, NE. destruct (Nat.eqb_spec i j); auto. subst. rewrite Hi. reflexivity. }
  assert (Hk : assoc (ikeys1 m) i = Some (ikey ir)) by (rewrite B, Hi; reflexivity).
  assert (SAME : st' <> IOk -> forall k v,
             assoc (succ1 m) k = Some v <->
             exists vr, nth_error (invs s') v = Some vr /\ istat vr = IOk /\ ikey vr = k).
  { intros Hno k v. rewrite C, NE. destruct (Nat.eqb_spec i v); [|reflexivity]. subst v. split.
    - intros (vr & Hv & Hvo & _). rewrite Hi in Hv. injection Hv as <-. destruct Hst; congruence.
    - intros (vr & Hv & Hvo & _). injection Hv as <-. simpl in Hvo. contradiction. }
  simpl m1_step.
  destruct r as [|r].
  - (* success *)
    assert (Hok : st' = IOk) by (apply Hr0; reflexivity). specialize (Hact eq_refl).
    rewrite Hk.
    assert (Hnone : assoc (succ1 m) (ikey ir) = None).
    { destruct (assoc (succ1 m) (ikey ir)) as [v|] eqn:Ha; auto. exfalso.
      apply C in Ha as (vr & Hv & Hvo & Hvk).
      assert (v = i) by (eapply (iK1 s I2 v i vr ir); eauto).
      subst v. rewrite Hi in Hv. injection Hv as <-. congruence. }
    rewrite Hnone. constructor; simpl; auto.
    intros k v. rewrite NE. destruct (Nat.eqb_spec (ikey ir) k) as [<-|Hne].
    + split.
      * intros Hq. injection Hq as <-. rewrite Nat.eqb_refl. eexists. split; [reflexivity|]. simpl. auto.
      * intros (vr & Hv & Hvo & Hvk). destruct (Nat.eqb_spec i v); [congruence|]. exfalso.
        assert (v = i) by (eapply (iK1 s I2 v i vr ir); eauto). congruence.
    + rewrite C. destruct (Nat.eqb_spec i v); [|reflexivity]. subst v. split.
      * intros (vr & Hv & Hvo & _). rewrite Hi in Hv. injection Hv as <-. congruence.
      * intros (vr & Hv & _ & Hvk). injection Hv as <-. simpl in Hvk. contradiction.
  - assert (Hno : st' <> IOk) by (intros Hq; apply Hr0 in Hq; discriminate).
    constructor; simpl; auto.
Qed.

Lemma R1_step tbl m s e s' :
  Inv s -> Inv2 s -> static tbl s -> Inv s' -> Inv2 s' -> trans s e s' -> R1 m s -> R1 (m1_step tbl m e) s'.
Proof.
  intros I I2 S I' I2' T R.
  pose proof (invs_same _ _ _ T) as Same.
  destruct e; simpl in Same; try (simpl m1_step; eapply R1_same; eauto; fail).
  - (* IStart *)
    inversion T; subst.
    match goal with Hg : getc s c = Some ?cr0, Hp : cpc ?cr0 = PInvoke _ |- _ =>
      rename cr0 into cr; rename Hg into Hgc; rename Hp into Hpc end.
    simpl m1_step. destruct (static_key _ _ _ _ S Hgc) as [Hk Hl]. rewrite Hk, Hl.
    destruct R as [A B C D].
    assert (Hclash : existsb (fun x => fst (snd x) =? ckey cr) (live1 m) = false).
    { apply existsb_false. intros [j [k l]] Hin. simpl. apply Nat.eqb_neq. intros ->.
      apply A in Hin as (jr & Hj & Hja & Hjk & Hjl).
      pose proof (nth_error_Some_lt _ _ _ Hj) as Hlt.
      assert (j = length (invs s)); [|lia].
      eapply (single_flight_state _ I' j (length (invs s)) jr).
      - simpl. rewrite nth_error_snoc. destruct (Nat.eqb_spec j (length (invs s))); [lia|exact Hj].
      - simpl. rewrite nth_error_snoc, Nat.eqb_refl. reflexivity.
      - exact Hja.
      - reflexivity.
      - simpl. exact Hjk. }
    assert (Hafter : assoc (succ1 m) (ckey cr) = None).
    { destruct (assoc (succ1 m) (ckey cr)) as [v|] eqn:Ha; auto. exfalso.
      apply C in Ha as (vr & Hv & Hvo & Hvk).
      assert (Hp : pre_phase (cpc cr) = false) by (eapply (iK2 s I2); eauto).
      rewrite Hpc in Hp. discriminate. }
    rewrite Hclash, Hafter. constructor; simpl.
    + intros j k l. rewrite nth_error_snoc. split.
      * intros [Heq | Hin].
        -- injection Heq as <- <- <-. rewrite Nat.eqb_refl. eexists. split; [reflexivity|]. auto.
        -- apply A in Hin as (jr & Hj & Hr). destruct (Nat.eqb_spec j (length (invs s))).
           ++ apply nth_error_Some_lt in Hj. lia.
           ++ eauto.
      * intros (jr & Hj & Hja & Hjk & Hjl). destruct (Nat.eqb_spec j (length (invs s))).
        -- injection Hj as <-. simpl in *. subst. left. reflexivity.
        -- right. apply A. eauto.
    + intros j. rewrite nth_error_snoc. rewrite Nat.eqb_sym.
      destruct (Nat.eqb_spec j (length (invs s))); simpl; auto.
    + intros k v. rewrite C. rewrite nth_error_snoc. split; intros (vr & Hv & Hvo & Hvk).
      * exists vr. destruct (Nat.eqb_spec v (length (invs s))); auto.
        apply nth_error_Some_lt in Hv. lia.
      * destruct (Nat.eqb_spec v (length (invs s))); eauto.
        injection Hv as <-. discriminate.
    + rewrite D. reflexivity.
  - (* IEnd *)
    inversion T; subst.
    + eapply (R1_iend tbl m s _ i ir IOk); eauto; try discriminate; try reflexivity; tauto.
    + eapply (R1_iend tbl m s _ i ir IExc); eauto; try discriminate; try reflexivity;
        try (split; discriminate).
    + eapply (R1_iend tbl m s _ i ir ICanc); eauto; try discriminate; try reflexivity;
        try (split; discriminate).
  - (* Done *)
    destruct kind as [|kind]; [|simpl m1_step; eapply R1_same; eauto].
    inversion T; subst. simpl m1_step.
    match goal with Hg : getc s c = Some ?cr0, Hp : cpc ?cr0 = PFinish ?o |- _ =>
      rename cr0 into cr; rename Hg into Hgc; rename Hp into Hpc;
      destruct o as [v| |]; simpl in *; try discriminate end.
    destruct (static_key _ _ _ _ S Hgc) as [Hk Hl].
    destruct (iV s I2 c cr v Hgc) as (vr & Hv & Hvo & Hvk); [rewrite Hpc; reflexivity|].
    destruct R as [A B C D]. constructor; simpl; auto.
    rewrite D, Hk. assert (Ha : assoc (succ1 m) (ckey cr) = Some v) by (apply C; eauto).
    rewrite Ha, Nat.eqb_refl. reflexivity.
  - (* LoopEv *)
    destruct w as [|[|[|w]]]; try (simpl m1_step; eapply R1_same; eauto; fail).
    + (* stop: active invocations of the loop are abandoned *)
      inversion T; subst. destruct R as [A B C D].
      assert (NE : forall j, nth_error (invs (set_invs (set_loops s (lset LClosed (loops s) t LStop))
                                              (map (abandon t) (invs s)))) j
                             = option_map (abandon t) (nth_error (invs s) j)).
      { intros j. simpl. apply nth_error_map. }
      constructor; simpl m1_step; simpl live1; simpl ikeys1; simpl succ1; simpl ok1; auto.
      * intros j k l. rewrite filter_In, NE. simpl. split.
        -- intros [Hin Hne]. apply negb_true_iff, Nat.eqb_neq in Hne.
           apply A in Hin as (jr & Hj & Hja & Hjk & Hjl). rewrite Hj. simpl.
           exists jr. unfold abandon. rewrite Hja. subst l.
           destruct (Nat.eqb_spec (iloop jr) t); [contradiction|auto].
        -- intros (jr' & Hj & Hja & Hjk & Hjl).
           destruct (nth_error (invs s) j) as [jr|] eqn:Hj0; simpl in Hj; [|discriminate].
           injection Hj as <-. unfold abandon in *. destruct (istat jr) eqn:Hst; simpl in Hja; try congruence.
           destruct (Nat.eqb_spec (iloop jr) t); simpl in Hja; try discriminate.
           split; [apply A; eauto|]. apply negb_true_iff, Nat.eqb_neq. congruence.
      * intros j. rewrite B, NE. destruct (nth_error (invs s) j) as [jr|]; simpl; auto.
        unfold abandon. destruct (istat jr); auto. destruct (iloop jr =? t); auto.
      * intros k v. rewrite C, NE. split.
        -- intros (vr & Hv & Hvo & Hvk). rewrite Hv. simpl. exists vr. unfold abandon. rewrite Hvo. auto.
        -- intros (vr' & Hv & Hvo & Hvk).
           destruct (nth_error (invs s) v) as [vr|] eqn:Hv0; simpl in Hv; [|discriminate].
           injection Hv as <-. unfold abandon in *. destruct (istat vr) eqn:Hst; simpl in *; try congruence; eauto.
           destruct (iloop vr =? t); simpl in *; congruence.
    + (* shutdown done: no active invocation lives on a loop that is not LRun *)
      inversion T; subst. destruct R as [A B C D].
      constructor; simpl m1_step; simpl live1; simpl ikeys1; simpl succ1; simpl ok1; auto.
      intros j k l. rewrite filter_In. simpl. split.
      * intros [Hin _]. apply A. exact Hin.
      * intros Hx. split; [apply A; exact Hx|].
        destruct Hx as (jr & Hj & Hja & Hjk & Hjl).
        destruct (iE s I _ _ Hj Hja) as (_ & _ & _ & _ & _ & _ & Hrun).
        apply negb_true_iff, Nat.eqb_neq. intros ->. subst. congruence.
Qed.

Lemma run_R1 tbl : forall tr s s' m,
  Inv s -> Inv2 s -> static tbl s -> R1 m s -> run s tr = Some s' ->
  R1 (fold_left (m1_step tbl) tr m) s'.
Proof.
  induction tr as [|e tr IH]; intros s s' m I I2 S R H; simpl in H.
  - injection H as <-. exact R.
  - destruct (step s e) as [s1|] eqn:Hs; [|discriminate].
    apply step_trans in Hs as [_ T]. simpl.
    assert (I' : Inv s1) by (eapply pres_Inv1; eauto).
    assert (I2' : Inv2 s1) by (exact (pres_Inv2 _ _ _ I I2 T)).
    apply (IH s1 s' (m1_step tbl m e) I' I2').
    + eapply static_pres; eauto.
    + eapply (R1_step tbl m s e s1); eauto.
    + exact H.
Qed.

(* every trace the model accepts (and every accepted prefix) satisfies the C01 monitor *)
Lemma ok_C01_sound_run : forall nloops tbl tr s, run (init nloops tbl) tr = Some s -> ok_C01 tbl tr = true.
Proof.
  intros n tbl tr s H. unfold ok_C01.
  apply (rOk _ s). eapply run_R1; eauto.
  - apply Inv_init. - apply Inv2_init. - apply static_init. - apply R1_init.
Qed.

Lemma ok_C01_sound_l : forall nloops tbl tr, accepts nloops tbl tr = true -> ok_C01 tbl tr = true.
Proof.
  intros n tbl tr H. unfold accepts in H.
  destruct (run (init n tbl) tr) as [s|] eqn:Hr; [|discriminate].
  eapply ok_C01_sound_run; eauto.
Qed.
