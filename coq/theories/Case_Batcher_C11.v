(* Case_Batcher_C11.v — COMPLETENESS of the full monitor ok_C11 on event lists
   without Chain events: for every configuration (max_batch_size,
   max_concurrent_batches >= 1) and every such event list the monitor accepts the
   canonical trace of the model ([ok_C11_complete]).  The proof is a simulation
   between the model state and the monitor's specification state:
     entries  <->  the latest request per key and its future (pending / done at t with o),
                   which decides the window exactly like the retention cache ([spec_ret]);
     expect   <->  the requests not yet handed to the batch function (queued + open batch);
     live     <->  the running batches, with the keys still in their futs;
     calls    <->  the callers (their number). *)
From Coq Require Import List Arith NArith Bool Lia ZifyBool ZifyNat ZifyN.
Import ListNotations.
Require Import Aiuti.CaseLib Aiuti.Batcher Aiuti.BatcherLift Aiuti.BatcherLimits Aiuti.BatcherTime Aiuti.BatcherInv
               Aiuti.BatcherProps Aiuti.BatcherBasic Aiuti.BatcherSim
               Aiuti.Case_Batcher Aiuti.Case_Batcher_Sound Aiuti.Case_Batcher_Basic.

Local Arguments N.add : simpl never.
Local Arguments N.leb : simpl never.
Local Arguments N.ltb : simpl never.
Local Arguments N.max : simpl never.
Local Arguments Nat.ltb : simpl never.
Local Arguments Nat.leb : simpl never.

Definition Inv (c : cfg) (s : state) : Prop := LInv c s /\ Fifo s /\ TInv c s /\ KInv c s.

(* ---- entries: the latest request per key ------------------------------------------------------ *)

Definition ent_ok (st : nat) (s : state) (es : list (nat * entry)) : Prop :=
  forall k,
    match last_key (g_items s) k with
    | None => lookup es k = None
    | Some it =>
        match lookup (fdone s) (it_fid it) with
        | Some (o, t) => lookup es k = Some (EDone t o)
        | None => exists cs, lookup es k = Some (EPending cs) /\ cs <= st
        end
    end.

Definition ret_view (s : state) (k : nat) : slook :=
  match lookup (ret s) k with
  | None => SFree
  | Some f => match lookup (fdone s) f with Some (o, _) => SDone o | None => SPend end
  end.

Lemma undone_in_ret c s it :
  Inv c s -> In it (g_items s) -> lookup (fdone s) (it_fid it) = None ->
  lookup (ret s) (it_key it) = Some (it_fid it).
Proof.
  intros (I & F & T & S & K & _) Hit Hd.
  assert (Hd' : is_done s (it_fid it) = false) by (unfold is_done; now rewrite Hd).
  destruct (undone_located c s it I F S K Hit Hd') as [H|[(w & Hw & H)|(B & HB & H & L)]].
  - apply (P_coll _ _ _ K it H).
  - apply (P_wait _ _ _ K w it Hw H).
  - apply lookup_In in L. apply (P_run _ _ _ K B _ _ HB L).
Qed.

(* the window specification of the monitor decides exactly like the retention cache *)
Lemma spec_ret c s st es k : Inv c s -> ent_ok st s es -> spec_lookup c (now s) es k = ret_view s k.
Proof.
  intros HI E. pose proof HI as (I & F & T & S & K & _). specialize (E k).
  unfold spec_lookup, ret_view.
  destruct (last_key (g_items s) k) as [it|] eqn:Lk.
  - destruct (last_key_in _ _ _ Lk) as [Hit Hk].
    destruct (lookup (fdone s) (it_fid it)) as [[o t]|] eqn:D.
    + rewrite E. destruct (now s <? t + c_rt c)%N eqn:W.
      * assert (R : lookup (ret s) k = Some (it_fid it)).
        { rewrite <- Hk. apply (P_win _ _ _ K it o t Hit D). lia. }
        now rewrite R, D.
      * destruct (lookup (ret s) k) as [f|] eqn:R; auto. exfalso.
        destruct (P_last _ _ _ K k f R) as (it' & Lk' & Ef). assert (it' = it) by congruence. subst it' f.
        destruct (P_rdone _ _ _ K k _ o t R D) as [_ G]. apply (T_rt _ _ T) in G. lia.
    + destruct E as (cs & E & _). rewrite E.
      assert (R : lookup (ret s) k = Some (it_fid it)) by (rewrite <- Hk; now apply (undone_in_ret c)).
      now rewrite R, D.
  - rewrite E. destruct (lookup (ret s) k) as [f|] eqn:R; auto. exfalso.
    destruct (P_ret _ _ _ K k f R) as (it & Hit & Ekf). unfold kf in Ekf. injection Ekf as Ek _.
    now apply (last_key_none _ _ Lk it Hit).
Qed.

(* ---- registering the calls of a step ------------------------------------------------------------ *)

Definition mka (x : mitem) : nat * nat := (mi_key x, mi_arg x).

Definition done_pairs (os : list obs) : list (nat * outcome) := map fst (dones_of os).

Lemma dones_of_app o1 o2 : dones_of (o1 ++ o2) = dones_of o1 ++ dones_of o2.
Proof. induction o1 as [|x r IH]; simpl; auto. destruct x; simpl; rewrite ?IH; auto. Qed.

Lemma dones_of_starts os : only_starts os -> dones_of os = [].
Proof.
  induction os as [|x r IH]; simpl; auto. intros H.
  assert (Hx : is_start x = true) by (apply H; now left).
  destruct x; try discriminate. apply IH. intros y Hy. apply H. now right.
Qed.

Lemma Inv_call c a ko s : Inv c s -> Inv c (fst (do_call c a ko 0 s)).
Proof.
  intros (I & F & T & K). split; [now apply do_call_L|]. split; [now apply do_call_fifo|].
  split; [now apply do_call_T | now apply do_call_K].
Qed.

(* one call, seen by the model and by the monitor *)
Lemma reg_one c a ko s st mx calls es ex imm :
  Inv c s -> ent_ok st s es -> length calls = length (callers s) ->
  let r := do_call c a ko 0 s in
  let '(calls', es', ex', imm') := reg_chain c (now s) mx st a ko 0 calls es ex imm in
  ent_ok st (fst r) es' /\ length calls' = length (callers (fst r)) /\ now (fst r) = now s /\
  (exists nit, g_items (fst r) = g_items s ++ nit /\ map mka ex' = map mka ex ++ map ka nit) /\
  imm' = imm ++ done_pairs (snd r) /\
  (forall d, In d (dones_of (snd r)) -> length (callers s) <= fst (fst d)) /\
  (forall k', lookup (ret s) k' <> None -> lookup es' k' = lookup es k' /\ lookup (ret (fst r)) k' <> None).
Proof.
  intros HI E L. pose proof HI as (I & F & T & S & K & _).
  pose proof (spec_ret c s st es (key_of a ko) HI E) as SR.
  destruct (do_call_clock c a ko 0 s) as [Hnow _].
  cbn [reg_chain]. rewrite SR. unfold ret_view, do_call.
  destruct (lookup (ret s) (key_of a ko)) as [f|] eqn:R.
  - destruct (lookup (fdone s) f) as [[o t]|] eqn:D; simpl.
    + split; [exact E|]. split; [rewrite !app_length; simpl; lia|]. split; [reflexivity|].
      split; [exists []; split; [now rewrite app_nil_r | simpl; now rewrite app_nil_r]|].
      unfold done_pairs. simpl. split; [now rewrite L|]. split; [intros d [<-|[]]; simpl; lia | auto].
    + split; [exact E|]. split; [rewrite !app_length; simpl; lia|]. split; [reflexivity|].
      split; [exists []; split; [now rewrite app_nil_r | simpl; now rewrite app_nil_r]|].
      unfold done_pairs. simpl. split; [now rewrite app_nil_r|]. split; [intros ? [] | auto].
  - set (k := key_of a ko) in *. set (it := mkitem k a (nfut s) (now s) (maxb s)).
    match goal with |- context [take c it ?s0] => set (s1 := s0) end.
    match goal with |- context [take c it s1] =>
      assert (I1 : LInv c s1) by (destruct I; constructor; auto);
      destruct (take_ghost c it s1 I1) as (_ & G2 & _);
      pose proof (take_sameC c it s1) as (C1 & C2 & _);
      pose proof (take_os c it s1) as Hos;
      destruct (take_clock c it s1) as [Hn1 _] end.
    assert (Rt : ret (fst (take c it s1)) = ret s1).
    { unfold take. destruct (_ <? _); [reflexivity|]. unfold dispatch. cbn [free set_spawn waiting].
      destruct (0 <? _); reflexivity. }
    split; [|split; [|split; [|split; [|split; [|split]]]]].
    + intros k'. rewrite G2, C2. simpl. rewrite last_key_snoc. simpl.
      destruct (Nat.eqb_spec k k') as [Ek|Nk].
      * subst k'. simpl.
        assert (Dn : lookup (fdone s) (nfut s) = None).
        { destruct (lookup (fdone s) (nfut s)) eqn:D; auto. apply (P_dlt _ _ _ K) in D. lia. }
        rewrite Dn. eauto.
      * specialize (E k'). destruct (Nat.eqb_spec k k'); [congruence|]. exact E.
    + rewrite C1. simpl. rewrite !app_length. simpl. lia.
    + rewrite Hn1. reflexivity.
    + exists [it]. rewrite G2. simpl. split; auto. rewrite map_app. reflexivity.
    + unfold done_pairs. rewrite (dones_of_starts _ Hos). simpl. now rewrite app_nil_r.
    + rewrite (dones_of_starts _ Hos). intros ? [].
    + intros k' Hk'. rewrite Rt. simpl. destruct (Nat.eqb_spec k k') as [Ek|Nk]; [congruence|]. auto.
Qed.

Lemma do_call_len c a ko m s : length (callers (fst (do_call c a ko m s))) = S (length (callers s)).
Proof.
  unfold do_call. destruct (lookup (ret s) _) as [f|].
  - destruct (lookup (fdone s) f) as [[o t]|]; simpl; rewrite app_length; simpl; lia.
  - match goal with |- context [take c ?it ?s1] => destruct (take_sameC c it s1) as (E & _) end.
    rewrite E. simpl. rewrite app_length. simpl. lia.
Qed.

Lemma Inv_calls c l : forall s, Inv c s -> Inv c (fst (do_calls c l s)).
Proof.
  induction l as [|[a ko] r IH]; intros s HI; simpl; auto.
  pose proof (Inv_call c a ko s HI) as H1. destruct (do_call c a ko 0 s) as [s1 o1]. simpl in *.
  specialize (IH s1 H1). destruct (do_calls c r s1) as [s2 o2]. exact IH.
Qed.

(* the calls of a Call / Burst event *)
Lemma reg_many c st mx l : forall s calls es ex imm,
  Inv c s -> ent_ok st s es -> length calls = length (callers s) ->
  let r := do_calls c l s in
  let '(calls', es', ex', imm') := reg_calls c (now s) mx st (map (fun p => (fst p, snd p, 0)) l) calls es ex imm in
  ent_ok st (fst r) es' /\ length calls' = length (callers (fst r)) /\ now (fst r) = now s /\
  (exists nit, g_items (fst r) = g_items s ++ nit /\ map mka ex' = map mka ex ++ map ka nit) /\
  imm' = imm ++ done_pairs (snd r) /\
  (forall d, In d (dones_of (snd r)) -> length (callers s) <= fst (fst d)) /\
  (forall k', lookup (ret s) k' <> None -> lookup es' k' = lookup es k' /\ lookup (ret (fst r)) k' <> None).
Proof.
  induction l as [|[a ko] r IH]; intros s calls es ex imm HI E L; [simpl | cbn [do_calls reg_calls map fst snd]].
  - split; [exact E|]. split; [exact L|]. split; [reflexivity|].
    split; [exists []; split; [now rewrite app_nil_r | simpl; now rewrite app_nil_r]|].
    unfold done_pairs. simpl. split; [now rewrite app_nil_r|]. split; [intros ? [] | auto].
  - pose proof (reg_one c a ko s st mx calls es ex imm HI E L) as H1.
    pose proof (Inv_call c a ko s HI) as HI1.
    pose proof (do_call_len c a ko 0 s) as Hlen.
    destruct (reg_chain c (now s) mx st a ko 0 calls es ex imm) as [[[calls1 es1] ex1] imm1].
    destruct (do_call c a ko 0 s) as [s1 o1]. simpl in *.
    destruct H1 as (E1 & L1 & N1 & (nit1 & G1 & X1) & M1 & D1 & R1).
    specialize (IH s1 calls1 es1 ex1 imm1 HI1 E1 L1). rewrite N1 in IH.
    destruct (reg_calls c (now s) mx st _ calls1 es1 ex1 imm1) as [[[calls2 es2] ex2] imm2].
    destruct (do_calls c r s1) as [s2 o2]. simpl in *.
    destruct IH as (E2 & L2 & N2 & (nit2 & G2 & X2) & M2 & D2 & R2).
    split; [exact E2|]. split; [exact L2|]. split; [congruence|].
    split; [exists (nit1 ++ nit2); split; [rewrite G2, G1; now rewrite app_assoc | rewrite X2, X1, map_app; now rewrite app_assoc]|].
    split; [|split].
    + unfold done_pairs in *. rewrite dones_of_app, map_app, M2, M1. now rewrite app_assoc.
    + intros d Hd. rewrite dones_of_app in Hd. apply in_app_or in Hd as [Hd|Hd]; auto.
      apply D2 in Hd. lia.
    + intros k' Hk'. destruct (R1 k' Hk') as [A1 A2]. destruct (R2 k' A2) as [B1 B2]. split; [congruence | exact B2].
Qed.

(* ---- the observed batch starts against the expected queue ------------------------------------------ *)

Definition obs_st (x : nat * list item * N) : nat * list (nat * nat) * N :=
  let '(b, its, t) := x in (b, map ka its, t).

Definition mb_of (st : nat) (x : nat * list item * N) : mbatch :=
  let '(b, its, _) := x in mkmbatch b (map it_key its) st.

Lemma take_items_app (A : list (nat * nat)) : forall (ex : list mitem) B,
  map mka ex = A ++ B ->
  exists mine rest, take_items (length A) ex = (mine, rest) /\ map mka mine = A /\ map mka rest = B.
Proof.
  induction A as [|a r IH]; intros ex B H; simpl.
  - exists [], ex. auto.
  - destruct ex as [|x ex']; [discriminate|]. simpl in H. injection H as H1 H2.
    destruct (IH ex' B H2) as (mine & rest & E1 & E2 & E3). exists (x :: mine), rest.
    rewrite E1. simpl. repeat split; auto. now rewrite H1, E2.
Qed.

Lemma nn_eqb_refl x : nn_eqb x x = true.
Proof. unfold nn_eqb, pair_eqb. now rewrite !Nat.eqb_refl. Qed.

(* the fields of the monitor state that the completeness proof follows *)
Definition same_core (m m' : mst) : Prop :=
  m_now m' = m_now m /\ m_step m' = m_step m /\ m_calls m' = m_calls m /\ m_entries m' = m_entries m.

Lemma check_start_ok c m live0 freed x rest :
  map mka (m_expect m) = map ka (st_items x) ++ rest -> NoDup (map it_key (st_items x)) ->
  let m' := check_start c m live0 freed (obs_st x) in
  map mka (m_expect m') = rest /\ m_live m' = m_live m ++ [mb_of (m_step m) x] /\
  m_bad11 m' = m_bad11 m /\ same_core m m'.
Proof.
  destruct x as [[b its] t]. unfold st_items, obs_st. simpl. intros H ND.
  destruct (take_items_app (map ka its) (m_expect m) rest H) as (mine & rest' & E1 & E2 & E3).
  unfold check_start. rewrite E1. simpl.
  split; [exact E3|]. split; [now rewrite map_map|]. split; [|repeat split].
  assert (Hf : list_eqb nn_eqb (map (fun x => (mi_key x, mi_arg x)) mine) (map ka its) = true).
  { fold mka. rewrite E2. apply list_eqb_refl, nn_eqb_refl. }
  rewrite Hf, andb_true_r. rewrite map_map. simpl.
  change (map (fun x : item => it_key x) its) with (map it_key its).
  rewrite (NoDup_nodup_nat _ ND). simpl. now rewrite orb_false_r.
Qed.

Lemma fold_check_start_ok c live0 freed new : forall m rest,
  map mka (m_expect m) = map ka (flat_map st_items new) ++ rest ->
  (forall x, In x new -> NoDup (map it_key (st_items x))) ->
  let m' := fold_left (fun mm st => check_start c mm live0 freed st) (map obs_st new) m in
  map mka (m_expect m') = rest /\ m_live m' = m_live m ++ map (mb_of (m_step m)) new /\
  m_bad11 m' = m_bad11 m /\ same_core m m'.
Proof.
  induction new as [|x r IH]; intros m rest H ND; simpl.
  - rewrite app_nil_r. repeat split; auto.
  - simpl in H. rewrite map_app, <- app_assoc in H.
    destruct (check_start_ok c m live0 freed x _ H (ND x (or_introl eq_refl))) as (A1 & A2 & A3 & (B1 & B2 & B3 & B4)).
    destruct (IH (check_start c m live0 freed (obs_st x)) rest A1 (fun y Hy => ND y (or_intror Hy)))
      as (C1 & C2 & C3 & (D1 & D2 & D3 & D4)).
    split; [exact C1|]. split; [rewrite C2, A2, B2, <- app_assoc; reflexivity|].
    split; [congruence|]. repeat split; congruence.
Qed.

Lemma starts_of_canon os new :
  filter is_start os = map start_obs new -> starts_of (canon os) = map obs_st new.
Proof.
  intros H. unfold canon. rewrite H.
  assert (X : forall l1 l2, starts_of (l1 ++ l2) = starts_of l1 ++ starts_of l2).
  { induction l1 as [|x r IH]; intros l2; simpl; auto. destruct x; simpl; rewrite ?IH; auto. }
  rewrite !X.
  assert (Y : forall l, (forall x, In x l -> is_start x = false) -> starts_of l = []).
  { induction l as [|x r IH]; simpl; auto. intros Hl. assert (is_start x = false) by (apply Hl; now left).
    destruct x; try discriminate; apply IH; intros y Hy; apply Hl; now right. }
  rewrite (Y (fold_right insert_done [] (filter is_done_obs os))), (Y (filter is_died os)), !app_nil_r.
  - clear H. induction new as [|[[b its] t] r IH]; simpl; auto. now rewrite IH.
  - intros x Hx. apply filter_In in Hx as [_ Hx]. destruct x; simpl in *; congruence.
  - intros x Hx. apply (Permutation.Permutation_in _ (sort_perm _)) in Hx. apply filter_In in Hx as [_ Hx].
    destruct x; simpl in *; congruence.
Qed.

(* ---- live batches ------------------------------------------------------------------------------------- *)

Definition LR (es : list (nat * entry)) (mb : mbatch) (B : batch) : Prop :=
  mb_id mb = b_id B /\ mb_unans mb = map fst (b_futs B) /\
  forall k, In k (mb_unans mb) -> exists cs, lookup es k = Some (EPending cs) /\ cs <= mb_step mb.

Lemma memb_map_fst {A} (l : list (nat * A)) k : memb k (map fst l) = match lookup l k with Some _ => true | None => false end.
Proof.
  induction l as [|[k' v] r IH]; simpl; auto. unfold memb in *. simpl.
  rewrite (Nat.eqb_sym k k'). destruct (Nat.eqb k' k); simpl; auto.
Qed.

Lemma find_corr es ml rl b :
  Forall2 (LR es) ml rl ->
  match find_live ml b, find (fun x => Nat.eqb (b_id x) b) rl with
  | None, None => True
  | Some mb, Some B => LR es mb B
  | _, _ => False
  end.
Proof.
  unfold find_live. induction 1 as [|mb B ml' rl' H H' IH]; simpl; auto.
  destruct H as (E1 & E2 & E3). rewrite E1. destruct (Nat.eqb (b_id B) b); [repeat split; auto | exact IH].
Qed.

Lemma remove_nat_map_fst {A} k (l : list (nat * A)) : remove_nat k (map fst l) = map fst (remove_key k l).
Proof.
  unfold remove_nat, remove_key. induction l as [|[k' v] r IH]; simpl; auto.
  destruct (Nat.eqb k' k); simpl; now rewrite IH.
Qed.

(* ---- resolving futures: what it does to fdone and to the entries ----------------------------------------- *)

Definition const_out (o : outcome) (P : list (nat * nat)) : list (nat * outcome) := map (fun p => (fst p, o)) P.

Lemma lookup_set_done now o : forall (P : list (nat * nat)) es k,
  lookup (set_done now es (const_out o P)) k =
  if memb k (map fst P) then Some (EDone now o) else lookup es k.
Proof.
  unfold set_done, const_out. induction P as [|[k' f] r IH]; intros es k; simpl; auto.
  rewrite IH. unfold memb. simpl. rewrite (Nat.eqb_sym k k').
  destruct (existsb (Nat.eqb k) (map fst r)) eqn:E; [now rewrite orb_true_r|].
  rewrite orb_false_r. simpl. destruct (Nat.eqb k' k); reflexivity.
Qed.

Lemma fanout_fdone c o : forall l s,
  (forall k f, In (k, f) l -> is_done s f = false) -> NoDup (map snd l) ->
  forall f', lookup (fdone (fst (fanout c l o s))) f' =
             if memb f' (map snd l) then Some (o, now s) else lookup (fdone s) f'.
Proof.
  induction l as [|[k f] r IH]; intros s Hd ND f'; simpl; auto.
  unfold set_fut. rewrite (Hd k f (or_introl eq_refl)). inversion ND as [|? ? Hn ND']; subst.
  rewrite IH; auto.
  - destruct (resolve_clock c k f o s) as [En _]. rewrite En, fdone_resolve.
    unfold memb. simpl. rewrite (Nat.eqb_sym f' f).
    destruct (existsb (Nat.eqb f') (map snd r)) eqn:E; [now rewrite orb_true_r|].
    rewrite orb_false_r. destruct (Nat.eqb f f'); reflexivity.
  - intros k0 f0 H. rewrite is_done_resolve. destruct (Nat.eqb_spec f f0) as [->|N]; [|eapply Hd; right; eauto].
    exfalso. apply Hn. apply in_map_iff. exists (k0, f0). auto.
Qed.

(* the futures of P (pending, each the latest request of its key) get outcome o now *)
Lemma ent_resolved c s s' st es o (P : list (nat * nat)) :
  Inv c s ->
  (forall k f, In (k, f) P -> pend s k f) ->
  g_items s' = g_items s ->
  (forall f', lookup (fdone s') f' = if memb f' (map snd P) then Some (o, now s) else lookup (fdone s) f') ->
  ent_ok st s es -> ent_ok st s' (set_done (now s) es (const_out o P)).
Proof.
  intros HI HP Eg Ef E k. pose proof HI as (I & F & T & S & K & _).
  rewrite Eg, lookup_set_done. specialize (E k).
  destruct (last_key (g_items s) k) as [it|] eqn:Lk.
  - destruct (last_key_in _ _ _ Lk) as [Hit Hk]. rewrite Ef.
    destruct (memb k (map fst P)) eqn:Mk.
    + (* k is resolved: its latest request is the one in P *)
      apply memb_In in Mk. apply in_map_iff in Mk as ([k0 f] & Ek & Hin). simpl in Ek. subst k0.
      destruct (HP k f Hin) as [_ R]. destruct (P_last _ _ _ K k f R) as (it' & Lk' & Ef').
      assert (it' = it) by congruence. subst it'.
      assert (Mf : memb (it_fid it) (map snd P) = true).
      { apply memb_In. rewrite Ef'. apply in_map_iff. exists (k, f). auto. }
      now rewrite Mf.
    + destruct (memb (it_fid it) (map snd P)) eqn:Mf; [|exact E]. exfalso.
      apply memb_In in Mf. apply in_map_iff in Mf as ([k0 f] & Ef0 & Hin). simpl in Ef0. subst f.
      destruct (HP k0 _ Hin) as [_ R]. destruct (P_last _ _ _ K k0 _ R) as (it' & Lk' & Ef').
      destruct (last_key_in _ _ _ Lk') as [Hit' Hk'].
      assert (it' = it) by (eapply item_unique; eauto). subst it'.
      assert (k0 = k) by congruence. subst k0.
      assert (memb k (map fst P) = true).
      { apply memb_In. apply in_map_iff. exists (k, it_fid it). split; [reflexivity | congruence]. }
      congruence.
  - destruct (memb k (map fst P)) eqn:Mk; [|exact E]. exfalso.
    apply memb_In in Mk. apply in_map_iff in Mk as ([k0 f] & Ek & Hin). simpl in Ek. subst k0.
    destruct (HP k f Hin) as [_ R]. destruct (P_ret _ _ _ K k f R) as (it & Hit & Ekf).
    unfold kf in Ekf. injection Ekf as Ek _. now apply (last_key_none _ _ Lk it Hit).
Qed.

(* ---- one monitor step, in terms of its components -------------------------------------------------------- *)

Lemma mark_done_props calls : forall i ds,
  length (mark_done calls i ds) = length calls /\
  ((forall mc, In mc calls -> mc_more mc = 0) -> forall mc, In mc (mark_done calls i ds) -> mc_more mc = 0).
Proof.
  induction calls as [|mc r IH]; intros i ds; simpl; [split; auto|].
  destruct (IH (S i) ds) as [L M]. split; [now rewrite L|].
  intros H mc' [E|Hin].
  - subst mc'. destruct (memb i ds); simpl; apply (H mc); now left.
  - apply M; auto; intros x Hx; apply H; now right.
Qed.

Lemma recalls_for_nil calls k : (forall mc, In mc calls -> mc_more mc = 0) -> recalls_for calls k = [].
Proof.
  unfold recalls_for. induction calls as [|mc r IH]; simpl; auto. intros H.
  rewrite IH by (intros; apply H; now right). rewrite (H mc (or_introl eq_refl)).
  destruct (_ && _); reflexivity.
Qed.

Lemma recall_list_nil calls p : (forall mc, In mc calls -> mc_more mc = 0) -> recall_list calls p = [].
Proof.
  intros H. unfold recall_list. induction p as [|x r IH]; simpl; auto. now rewrite recalls_for_nil, IH.
Qed.

Lemma outcome_eqb_refl o : outcome_eqb o o = true.
Proof. destruct o; simpl; auto; apply Nat.eqb_refl. Qed.

Lemma co_eqb_refl x : co_eqb x x = true.
Proof. unfold co_eqb, pair_eqb. now rewrite Nat.eqb_refl, outcome_eqb_refl. Qed.

Lemma mon_step_general c m e obsd new rest :
  (forall mc, In mc (m_calls m) -> mc_more mc = 0) ->
  let now' := match e with Advance dt => (m_now m + dt)%N | _ => m_now m end in
  let mx := match e with SetMax n => n | _ => m_maxb m end in
  let '(calls1, es1, ex1, imm1) :=
    reg_calls c now' mx (m_step m) (calls_of e) (m_calls m) (m_entries m) (m_expect m) [] in
  let '(bstep, produced, live1, freed) :=
    match bat_effect (m_live m) e with Some x => x | None => (0, [], m_live m, false) end in
  (forall mc, In mc calls1 -> mc_more mc = 0) ->
  prod_ok es1 bstep produced = true ->
  map fst (filter (fun d => negb (fst (fst d) <? length (m_calls m))) (dones_of obsd)) = imm1 ->
  starts_of obsd = map obs_st new ->
  map mka ex1 = map ka (flat_map st_items new) ++ rest ->
  (forall x, In x new -> NoDup (map it_key (st_items x))) ->
  let m' := mon_step c m e obsd in
  m_bad11 m' = m_bad11 m /\ m_now m' = now' /\ m_step m' = S (m_step m) /\
  length (m_calls m') = length calls1 /\ (forall mc, In mc (m_calls m') -> mc_more mc = 0) /\
  m_entries m' = set_done now' es1 produced /\ map mka (m_expect m') = rest /\
  m_live m' = live1 ++ map (mb_of (m_step m)) new.
Proof.
  intros Hm now' mx. unfold mon_step. fold now' mx.
  destruct (reg_calls c now' mx (m_step m) (calls_of e) (m_calls m) (m_entries m) (m_expect m) [])
    as [[[calls1 es1] ex1] imm1].
  destruct (match bat_effect (m_live m) e with Some x => x | None => (0, [], m_live m, false) end)
    as [[[bstep produced] live1] freed].
  intros Hm1 Hp Hi Hs He Hnd.
  rewrite (recall_list_nil _ produced Hm). cbn [reg_calls].
  rewrite Hs, Hp, Hi. rewrite (list_eqb_refl co_eqb co_eqb_refl). simpl andb. cbn [negb]. rewrite orb_false_r.
  match goal with |- context [fold_left ?f (map obs_st new) ?m1] =>
    destruct (fold_check_start_ok c (length (m_live m)) freed new m1 rest He Hnd) as (A1 & A2 & A3 & (B1 & B2 & B3 & B4));
    set (m2 := fold_left f (map obs_st new) m1) in * end.
  cbn [m_bad11 m_now m_step m_calls m_entries m_expect m_live] in *.
  destruct (mark_done_props calls1 0 (map (fun d => fst (fst d)) (dones_of obsd))) as [L M].
  split; [exact A3|]. split; [exact B1|]. split; [now rewrite B2|]. split; [rewrite B3; exact L|].
  split; [rewrite B3; now apply M|]. split; [exact B4|]. split; [exact A1 | exact A2].
Qed.

(* ---- the simulation relation ------------------------------------------------------------------------------ *)

Definition Q (s : state) : list item := concat (waiting s) ++ coll_items s.

Record Sim (c : cfg) (s : state) (m : mst) : Prop := {
  M_now : m_now m = now s;
  M_calls : length (m_calls m) = length (callers s);
  M_more : forall mc, In mc (m_calls m) -> mc_more mc = 0;
  M_live : Forall2 (LR (m_entries m)) (m_live m) (running s);
  M_ent : ent_ok (m_step m) s (m_entries m);
  M_exp : map mka (m_expect m) = map ka (Q s)
}.

Lemma ent_ok_mono st st' s es : st <= st' -> ent_ok st s es -> ent_ok st' s es.
Proof.
  intros L E k. specialize (E k). destruct (last_key (g_items s) k) as [it|]; auto.
  destruct (lookup (fdone s) (it_fid it)) as [[o t]|]; auto. destruct E as (cs & E1 & E2). exists cs. split; auto. lia.
Qed.

(* the queue of requests not yet handed over, across one step *)
Lemma queue_step c s e new nit :
  Fifo s -> Fifo (fst (step c s e)) ->
  g_started (fst (step c s e)) = g_started s ++ new -> g_items (fst (step c s e)) = g_items s ++ nit ->
  Q s ++ nit = flat_map st_items new ++ Q (fst (step c s e)).
Proof.
  intros F F' Hn Hi. pose proof (g_items_split _ F) as G. pose proof (g_items_split _ F') as G'.
  rewrite Hn, Hi, G, flat_map_app in G'. unfold Q. rewrite <- !app_assoc in G'.
  apply app_inv_head in G'. rewrite <- app_assoc. exact G'.
Qed.

(* a batch that runs in s: its keys are pending, each the latest request of its key *)
Lemma running_LR c s st es B :
  Inv c s -> ent_ok st s es -> In B (running s) -> LR es (mkmbatch (b_id B) (map fst (b_futs B)) st) B.
Proof.
  intros HI E HB. pose proof HI as (I & F & T & S & K & _). split; [reflexivity|]. split; [reflexivity|].
  simpl. intros k Hk. apply in_map_iff in Hk as ([k0 f] & Ek & Hin). simpl in Ek. subst k0.
  destruct (P_run _ _ _ K B k f HB Hin) as [Hd R].
  destruct (P_last _ _ _ K k f R) as (it & Lk & Ef). specialize (E k). rewrite Lk, Ef in E.
  unfold is_done in Hd. destruct (lookup (fdone s) f); [discriminate|]. exact E.
Qed.

Lemma new_live c s st es new :
  Inv c s -> ent_ok st s es -> (forall x, In x new -> In (B_of x) (running s)) ->
  (forall x, In x new -> NoDup (map it_key (st_items x))) ->
  Forall2 (LR es) (map (mb_of st) new) (map B_of new).
Proof.
  intros HI E Hr Hn. induction new as [|x r IH]; simpl; constructor.
  - pose proof (running_LR c s st es (B_of x) HI E (Hr x (or_introl eq_refl))) as H.
    pose proof (Hn x (or_introl eq_refl)) as Hn'.
    destruct x as [[b its] t]. unfold st_items in Hn'. simpl in *.
    rewrite (futs_of_nodup its Hn') in *. rewrite map_fst_kf in H. exact H.
  - apply IH; intros y Hy; [apply Hr | apply Hn]; now right.
Qed.

Lemma LR_mono es es' mb B : LR es mb B -> (forall k, In k (mb_unans mb) -> lookup es' k = lookup es k) -> LR es' mb B.
Proof.
  intros (A1 & A2 & A3) H. split; auto. split; auto. intros k Hk. rewrite (H k Hk). auto.
Qed.

Lemma Forall2_LR_mono es es' ml rl :
  Forall2 (LR es) ml rl ->
  (forall mb k, In mb ml -> In k (mb_unans mb) -> lookup es' k = lookup es k) -> Forall2 (LR es') ml rl.
Proof.
  induction 1 as [|mb B ml' rl' H H' IH]; intros Hk; constructor.
  - eapply LR_mono; eauto. intros k Hin. apply (Hk mb k); auto. now left.
  - apply IH. intros mb' k Hin. apply Hk. now right.
Qed.

Lemma Forall2_In_l {A B} (R : A -> B -> Prop) la lb a : Forall2 R la lb -> In a la -> exists b, In b lb /\ R a b.
Proof.
  induction 1 as [|x y la' lb' H H' IH]; [intros []|]. intros [<-|Hin]; [exists y; split; auto; now left|].
  destruct (IH Hin) as (b & Hb & Hr). exists b. split; auto. now right.
Qed.

(* the keys of live batches are pending in the model *)
Lemma live_key_pending c s es ml mb k :
  Inv c s -> Forall2 (LR es) ml (running s) -> In mb ml -> In k (mb_unans mb) ->
  exists B f, In B (running s) /\ LR es mb B /\ In (k, f) (b_futs B) /\ pend s k f.
Proof.
  intros (I & F & T & S & K & _) H Hin Hk.
  destruct (Forall2_In_l _ _ _ _ H Hin) as (B & HB & HL). pose proof HL as (_ & E2 & _).
  rewrite E2 in Hk. apply in_map_iff in Hk as ([k0 f] & Ek & Hf). simpl in Ek. subst k0.
  exists B, f. split; [exact HB|]. split; [exact HL|]. split; [exact Hf|]. apply (P_run _ _ _ K B k f HB Hf).
Qed.

(* ---- assembling the simulation after a step ---------------------------------------------------------------- *)

Lemma ent_ok_same st s s' es : g_items s' = g_items s -> fdone s' = fdone s -> ent_ok st s es -> ent_ok st s' es.
Proof. intros E1 E2 E k. rewrite E1, E2. apply E. Qed.

Lemma sim_finish c s' m' st es' live1 run1 new :
  Inv c s' -> m_now m' = now s' -> m_step m' = S st -> length (m_calls m') = length (callers s') ->
  (forall mc, In mc (m_calls m') -> mc_more mc = 0) -> m_entries m' = es' -> ent_ok st s' es' ->
  map mka (m_expect m') = map ka (Q s') ->
  m_live m' = live1 ++ map (mb_of st) new -> running s' = run1 ++ map B_of new ->
  Forall2 (LR es') live1 run1 -> (forall x, In x new -> NoDup (map it_key (st_items x))) ->
  Sim c s' m'.
Proof.
  intros HI Hn Hs Hc Hm He E Hx Hl Hr Hf Hnd. constructor; auto.
  - rewrite He, Hl, Hr. apply Forall2_app; auto.
    apply (new_live c s' st es' new HI E); auto. intros x Hx'. rewrite Hr. apply in_or_app. right. now apply in_map.
  - rewrite He, Hs. eapply ent_ok_mono; [|exact E]. lia.
Qed.

Lemma filter_old_dones (os : list obs) n :
  (forall i o t, In (CallerDone i o t) os -> i < n) ->
  filter (fun d => negb (fst (fst d) <? n)) (dones_of (canon os)) = [].
Proof.
  intros H. induction (dones_of (canon os)) as [|[[i o] t] r IH] eqn:E; auto.
  assert (X : forall d, In d (dones_of (canon os)) -> fst (fst d) < n).
  { intros [[i' o'] t'] Hd. apply in_dones_of in Hd. apply in_canon in Hd. simpl. eauto. }
  clear IH. rewrite <- E. clear E. induction (dones_of (canon os)) as [|d r' IH]; simpl; auto.
  assert (fst (fst d) < n) by (apply X; now left). destruct (fst (fst d) <? n) eqn:El; [|lia].
  simpl. apply IH. intros d' Hd'. apply X. now right.
Qed.

Lemma Inv_step c s e : ev_ok e -> Inv c s -> Inv c (fst (step c s e)).
Proof.
  intros He (I & F & T & K). destruct (step_LF c s e He I F) as [I1 F1].
  split; auto. split; auto. split; [now apply step_T | now apply step_K].
Qed.

Lemma new_nodup c s new x : Inv c s -> (exists pre, g_started s = pre ++ new) -> In x new -> NoDup (map it_key (st_items x)).
Proof.
  intros (_ & _ & _ & S & _) (pre & E) Hx. destruct x as [[b its] t]. unfold st_items. simpl.
  apply (S_kst _ S b its t). rewrite E. apply in_or_app. now right.
Qed.

(* a step whose event makes no call and changes no future *)
Lemma sim_plain c s m e :
  ev_ok e -> is_chain e = false -> Inv c s -> ZInv s -> Sim c s m ->
  calls_of e = [] -> bat_effect (m_live m) e = None ->
  fdone (fst (step c s e)) = fdone s -> g_items (fst (step c s e)) = g_items s -> RA s (fst (step c s e)) ->
  match e with Call _ _ | Burst _ => False | _ => True end ->
  Sim c (fst (step c s e)) (mon_step c m e (canon (snd (step c s e)))) /\
  m_bad11 (mon_step c m e (canon (snd (step c s e)))) = m_bad11 m.
Proof.
  intros Hev Hc HI Z SM Hcalls Hbat Hfd Hgi (new & Hst & Hrun) Hnc.
  pose proof (Inv_step c s e Hev HI) as HI'. pose proof HI as (I & F & T & K). pose proof HI' as (I' & F' & T' & K').
  destruct (step_emits c s e) as (new' & A & Bq).
  assert (new' = new) by (rewrite Hst in A; now apply app_inv_head in A). subst new'.
  destruct (step_clock c s e) as [_ Hnow].
  pose proof (queue_step c s e new [] F F' Hst (eq_trans Hgi (eq_sym (app_nil_r _)))) as Hq. rewrite app_nil_r in Hq.
  pose proof (mon_step_general c m e (canon (snd (step c s e))) new (map ka (Q (fst (step c s e)))) (M_more _ _ _ SM)) as G.
  rewrite Hcalls, Hbat in G. cbn [reg_calls] in G.
  assert (Hnd : forall x, In x new -> NoDup (map it_key (st_items x))).
  { intros x Hx. eapply (new_nodup c _ new x HI'); eauto. }
  destruct G as (G1 & G2 & G3 & G4 & G5 & G6 & G7 & G8).
  - exact (M_more _ _ _ SM).
  - reflexivity.
  - rewrite (M_calls _ _ _ SM). rewrite filter_old_dones; [reflexivity|]. intros i o t H. eapply step_old_ids; eauto.
  - now apply starts_of_canon.
  - rewrite (M_exp _ _ _ SM), Hq, map_app. reflexivity.
  - exact Hnd.
  - split; [|exact G1].
    eapply (sim_finish c _ _ (m_step m) (m_entries m) (m_live m) (running s) new); eauto.
    + rewrite G2, (M_now _ _ _ SM), Hnow. destruct e; simpl; try lia; contradiction.
    + rewrite G4, (M_calls _ _ _ SM). destruct (step_Z c s e Hc Z) as [_ L]. rewrite L. destruct e; try contradiction; lia.
    + eapply ent_ok_same; eauto. apply (M_ent _ _ _ SM).
    + apply (M_live _ _ _ SM).
Qed.

(* a step whose event makes the batch function produce outcome o for the futures P *)
Lemma sim_resolved c s m e (P : list (nat * nat)) o bstep live1 freed run1 :
  ev_ok e -> is_chain e = false -> Inv c s -> ZInv s -> Sim c s m ->
  calls_of e = [] -> match e with Call _ _ | Burst _ | Advance _ | SetMax _ => False | _ => True end ->
  bat_effect (m_live m) e = Some (bstep, const_out o P, live1, freed) ->
  prod_ok (m_entries m) bstep (const_out o P) = true ->
  (forall k f, In (k, f) P -> pend s k f) ->
  (forall f', lookup (fdone (fst (step c s e))) f' =
              if memb f' (map snd P) then Some (o, now s) else lookup (fdone s) f') ->
  g_items (fst (step c s e)) = g_items s ->
  (exists new, g_started (fst (step c s e)) = g_started s ++ new /\ running (fst (step c s e)) = run1 ++ map B_of new) ->
  Forall2 (LR (set_done (now s) (m_entries m) (const_out o P))) live1 run1 ->
  Sim c (fst (step c s e)) (mon_step c m e (canon (snd (step c s e)))) /\
  m_bad11 (mon_step c m e (canon (snd (step c s e)))) = m_bad11 m.
Proof.
  intros Hev Hc HI Z SM Hcalls Hnc Hbat Hprod Hpend Hfd Hgi (new & Hst & Hrun) Hlive.
  pose proof (Inv_step c s e Hev HI) as HI'. pose proof HI as (I & F & T & K). pose proof HI' as (I' & F' & T' & K').
  destruct (step_emits c s e) as (new' & A & Bq).
  assert (new' = new) by (rewrite Hst in A; now apply app_inv_head in A). subst new'.
  destruct (step_clock c s e) as [_ Hnow].
  assert (Hadv : adv_of e = 0%N) by (destruct e; simpl; auto; contradiction).
  pose proof (queue_step c s e new [] F F' Hst (eq_trans Hgi (eq_sym (app_nil_r _)))) as Hq. rewrite app_nil_r in Hq.
  pose proof (mon_step_general c m e (canon (snd (step c s e))) new (map ka (Q (fst (step c s e)))) (M_more _ _ _ SM)) as G.
  rewrite Hcalls, Hbat in G. cbn [reg_calls] in G.
  assert (Hnd : forall x, In x new -> NoDup (map it_key (st_items x))).
  { intros x Hx. eapply (new_nodup c _ new x HI'); eauto. }
  assert (Enow : match e with Advance dt => (m_now m + dt)%N | _ => m_now m end = now s).
  { rewrite (M_now _ _ _ SM). destruct e; auto; contradiction. }
  destruct G as (G1 & G2 & G3 & G4 & G5 & G6 & G7 & G8).
  - exact (M_more _ _ _ SM).
  - exact Hprod.
  - rewrite (M_calls _ _ _ SM). rewrite filter_old_dones; [reflexivity|]. intros i o' t H.
    eapply step_old_ids; eauto. destruct e; auto; contradiction.
  - now apply starts_of_canon.
  - rewrite (M_exp _ _ _ SM), Hq, map_app. reflexivity.
  - exact Hnd.
  - split; [|exact G1]. rewrite Enow in G6.
    eapply (sim_finish c _ _ (m_step m) _ live1 run1 new); eauto.
    + rewrite G2, Enow, Hnow, Hadv. lia.
    + rewrite G4, (M_calls _ _ _ SM). destruct (step_Z c s e Hc Z) as [_ L]. rewrite L. destruct e; try contradiction; lia.
    + eapply ent_resolved; eauto. apply (M_ent _ _ _ SM).
Qed.

(* ---- batch-function events --------------------------------------------------------------------------------- *)

Lemma prod_ok_const es bstep o : forall (P : list (nat * nat)),
  (forall k, In k (map fst P) -> exists cs, lookup es k = Some (EPending cs) /\ cs <= bstep) ->
  prod_ok es bstep (const_out o P) = true.
Proof.
  induction P as [|[k f] r IH]; intros H; simpl; auto.
  destruct (H k (or_introl eq_refl)) as (cs & E & L). rewrite E.
  assert ((cs <=? bstep) = true) by lia. rewrite H0. simpl. apply IH. intros k' Hk'. apply H. now right.
Qed.

Lemma end_batch_view c B o s :
  ZInv s -> (forall k f, In (k, f) (b_futs B) -> is_done s f = false) -> NoDup (map snd (b_futs B)) ->
  (forall f', lookup (fdone (fst (end_batch c B o s))) f' =
              if memb f' (map snd (b_futs B)) then Some (o, now s) else lookup (fdone s) f') /\
  g_items (fst (end_batch c B o s)) = g_items s.
Proof.
  intros Z Hd ND. unfold end_batch. set (s0 := set_running s _).
  pose proof (release_slot_sameC s0) as (C1 & C2 & C3). destruct (release_slot_clock s0) as [N1 _].
  destruct (release_slot s0) as [s1 o1]. simpl in *.
  assert (Hd1 : forall k f, In (k, f) (b_futs B) -> is_done s1 f = false).
  { intros k f H. unfold is_done. rewrite C2. now apply (Hd k f). }
  pose proof (fanout_fdone c o (b_futs B) s1 Hd1 ND) as Hf.
  destruct (fanout_sameS c (b_futs B) o s1) as (G1 & _). pose proof (fanout_callers c (b_futs B) o s1) as Cf.
  destruct (fanout c (b_futs B) o s1) as [s2 died]. simpl in *.
  assert (Z2 : ZInv s2) by (apply (same_callers_Z s); [congruence | exact Z]).
  rewrite (wake_all_Z c s2 Z2). simpl.
  destruct (wake_sameP s2) as ((W1 & _) & W2 & _). split.
  - intros f'. rewrite W2, Hf, N1, C2. reflexivity.
  - rewrite W1, G1, C3. reflexivity.
Qed.

Lemma Forall2_filter_LR es ml rl b :
  Forall2 (LR es) ml rl ->
  Forall2 (LR es) (drop_live ml b) (filter (fun x => negb (Nat.eqb (b_id x) b)) rl).
Proof.
  unfold drop_live. induction 1 as [|mb B ml' rl' H H' IH]; simpl; [constructor|].
  destruct H as (E1 & E2 & E3). rewrite E1. destruct (Nat.eqb (b_id B) b); simpl; auto.
  constructor; auto. repeat split; auto.
Qed.

Lemma in_drop_live ml b mb : In mb (drop_live ml b) -> In mb ml /\ mb_id mb <> b.
Proof.
  unfold drop_live. intros H. apply filter_In in H as [H1 H2]. split; auto.
  destruct (Nat.eqb_spec (mb_id mb) b); [discriminate|auto].
Qed.

(* the keys of another live batch are not touched when the futures of B are resolved *)
Lemma other_batch_keys c s es ml mb B k :
  Inv c s -> Forall2 (LR es) ml (running s) -> In B (running s) -> In mb ml -> mb_id mb <> b_id B ->
  In k (mb_unans mb) -> memb k (map fst (b_futs B)) = false.
Proof.
  intros HI H HB Hin Hid Hk. pose proof HI as (I & F & T & S & K & _).
  destruct (memb k (map fst (b_futs B))) eqn:M; auto. exfalso.
  apply memb_In in M. apply in_map_iff in M as ([k0 f0] & Ek & Hf0). simpl in Ek. subst k0.
  destruct (live_key_pending c s es ml mb k HI H Hin Hk) as (B' & f' & HB' & (E1 & _) & Hf' & [_ R']).
  destruct (P_run _ _ _ K B k f0 HB Hf0) as [_ R0]. assert (f' = f0) by congruence. subst f'.
  destruct (fut_place_unique c s B k f0 I F S HB Hf0) as (_ & _ & U).
  destruct (U B' k HB' Hf') as [-> _]. congruence.
Qed.

Lemma sim_end_core c s m e B o ev :
  ev_ok e -> is_chain e = false -> Inv c s -> ZInv s -> Sim c s m -> In B (running s) ->
  calls_of e = [] -> match e with Call _ _ | Burst _ | Advance _ | SetMax _ => False | _ => True end ->
  step c s e = end_batch c B o (log_bev s (b_id B) ev) ->
  (forall mb, find_live (m_live m) (b_id B) = Some mb -> mb_unans mb = map fst (b_futs B) ->
     bat_effect (m_live m) e =
     Some (mb_step mb, map (fun k => (k, o)) (mb_unans mb), drop_live (m_live m) (mb_id mb), true)) ->
  Sim c (fst (step c s e)) (mon_step c m e (canon (snd (step c s e)))) /\
  m_bad11 (mon_step c m e (canon (snd (step c s e)))) = m_bad11 m.
Proof.
  intros Hev Hc HI Z SM HB Hcalls Hnc Hstep Hbat. pose proof HI as (I & F & T & S & K & _).
  pose proof (find_corr (m_entries m) (m_live m) (running s) (b_id B) (M_live _ _ _ SM)) as FC.
  pose proof (find_batch_in c s B I HB) as FB. unfold find_batch in FB. rewrite FB in FC.
  destruct (find_live (m_live m) (b_id B)) as [mb|] eqn:FL; [|contradiction].
  pose proof FC as (E1 & E2 & E3). specialize (Hbat mb eq_refl E2).
  assert (Eprod : map (fun k => (k, o)) (mb_unans mb) = const_out o (b_futs B)).
  { rewrite E2. unfold const_out. now rewrite map_map. }
  rewrite Eprod in Hbat.
  assert (Hd : forall k f, In (k, f) (b_futs B) -> is_done (log_bev s (b_id B) ev) f = false).
  { intros k f H. apply (P_run _ _ _ K B k f HB H). }
  pose proof (futs_snd_nodup c s B I F S HB) as ND.
  assert (Z0 : ZInv (log_bev s (b_id B) ev)) by exact Z.
  destruct (end_batch_view c B o _ Z0 Hd ND) as [Vf Vg].
  destruct (end_batch_RA c B o (log_bev s (b_id B) ev)) as (new & R1 & R2). simpl in R1, R2.
  eapply (sim_resolved c s m e (b_futs B) o (mb_step mb) _ true
            (filter (fun x => negb (Nat.eqb (b_id x) (b_id B))) (running s))); eauto.
  - apply prod_ok_const. intros k Hk. apply E3. now rewrite E2.
  - intros k f H. apply (P_run _ _ _ K B k f HB H).
  - rewrite Hstep. exact Vf.
  - rewrite Hstep. exact Vg.
  - rewrite Hstep. exists new. split; [exact R1 | exact R2].
  - rewrite E1. eapply Forall2_LR_mono; [apply Forall2_filter_LR, (M_live _ _ _ SM)|].
    intros mb' k Hin Hk. apply in_drop_live in Hin as [Hin Hid]. rewrite lookup_set_done.
    rewrite (other_batch_keys c s _ _ mb' B k HI (M_live _ _ _ SM) HB Hin Hid Hk). reflexivity.
Qed.

Lemma Forall2_map2 {A B A' B'} (R : A -> B -> Prop) (R' : A' -> B' -> Prop) (f : A -> A') (g : B -> B') la lb :
  Forall2 R la lb -> (forall a b, In a la -> In b lb -> R a b -> R' (f a) (g b)) -> Forall2 R' (map f la) (map g lb).
Proof.
  induction 1 as [|a b la' lb' H H' IH]; intros Hf; simpl; constructor.
  - apply Hf; auto; now left.
  - apply IH. intros a' b' Ha Hb. apply Hf; now right.
Qed.

Lemma sim_yield c s m B k f r :
  Inv c s -> ZInv s -> Sim c s m -> In B (running s) -> lookup (b_futs B) k = Some f ->
  let e := BYield (b_id B) k r in
  Sim c (fst (step c s e)) (mon_step c m e (canon (snd (step c s e)))) /\
  m_bad11 (mon_step c m e (canon (snd (step c s e)))) = m_bad11 m.
Proof.
  intros HI Z SM HB Lk e. pose proof HI as (I & F & T & S & K & _).
  pose proof (lookup_In _ _ _ Lk) as Hin.
  destruct (P_run _ _ _ K B k f HB Hin) as [Hd R].
  pose proof (find_corr (m_entries m) (m_live m) (running s) (b_id B) (M_live _ _ _ SM)) as FC.
  pose proof (find_batch_in c s B I HB) as FB. pose proof FB as FB'. unfold find_batch in FB. rewrite FB in FC.
  destruct (find_live (m_live m) (b_id B)) as [mb|] eqn:FL; [|contradiction].
  pose proof FC as (E1 & E2 & E3).
  pose (s1 := set_batch_futs (log_bev s (b_id B) (EvYield k r)) (b_id B) (remove_key k (b_futs B))).
  assert (Hstep : step c s e = wake_all c (resolve c k f (of_res r) s1)).
  { unfold e. simpl. rewrite FB', Lk. unfold set_fut.
    change (is_done (set_batch_futs (log_bev s (b_id B) (EvYield k r)) (b_id B) (remove_key k (b_futs B))) f)
      with (is_done s f). rewrite Hd. reflexivity. }
  assert (Z1 : ZInv (resolve c k f (of_res r) s1)).
  { apply (same_callers_Z s); [unfold resolve; destruct (0 <? c_rt c)%N; reflexivity | exact Z]. }
  assert (Hbat : bat_effect (m_live m) e =
                 Some (mb_step mb, const_out (of_res r) [(k, f)],
                       upd_live (m_live m) (b_id B) (remove_nat k (mb_unans mb)), false)).
  { unfold e. simpl. rewrite FL. rewrite E2, memb_map_fst, Lk. reflexivity. }
  pose (upd := fun x => if Nat.eqb (b_id x) (b_id B) then mkbatch (b_id x) (b_items x) (remove_key k (b_futs B)) else x).
  eapply (sim_resolved c s m e [(k, f)] (of_res r) (mb_step mb) _ false (map upd (running s))); eauto.
  - exact Logic.I.
  - exact Logic.I.
  - simpl. apply (prod_ok_const _ _ (of_res r) [(k, f)]). intros k' [<-|[]]. apply E3. rewrite E2.
    apply in_map_iff. exists (k, f). auto.
  - intros k' f' [H|[]]. injection H as <- <-. split; auto.
  - intros f'. rewrite Hstep, (wake_all_Z c _ Z1). simpl.
    destruct (wake_sameP (resolve c k f (of_res r) s1)) as (_ & W2 & _). rewrite W2, fdone_resolve.
    unfold memb. simpl. rewrite (Nat.eqb_sym f' f). destruct (Nat.eqb f f'); reflexivity.
  - rewrite Hstep, (wake_all_Z c _ Z1). simpl. destruct (wake_sameS (resolve c k f (of_res r) s1)) as (W1 & _). rewrite W1.
    unfold resolve. destruct (0 <? c_rt c)%N; reflexivity.
  - exists []. rewrite Hstep, (wake_all_Z c _ Z1). simpl.
    destruct (wake_sameS (resolve c k f (of_res r) s1)) as (_ & _ & W3 & _ & W5 & _). rewrite W3, W5, !app_nil_r.
    unfold resolve. destruct (0 <? c_rt c)%N; split; reflexivity.
  - unfold upd_live. apply (Forall2_map2 (LR (m_entries m))); [apply (M_live _ _ _ SM)|].
    intros mb' B' Hmb HB' (A1 & A2 & A3). rewrite A1. unfold upd.
    destruct (Nat.eqb_spec (b_id B') (b_id B)) as [Eb|Nb].
    + assert (B' = B) by (eapply same_id_same_batch; eauto). subst B'.
      split; [simpl; auto|]. split; [simpl; rewrite E2; apply remove_nat_map_fst|].
      cbn [mb_unans mb_step]. intros k' Hk'. unfold remove_nat in Hk'. apply filter_In in Hk' as [Hk1 Hk2].
      rewrite lookup_set_done. unfold memb. cbn [map fst existsb]. rewrite orb_false_r.
      destruct (Nat.eqb_spec k' k) as [Ek|Nk]; [discriminate|]. apply A3. rewrite A2, <- E2. exact Hk1.
    + split; auto. split; auto. intros k' Hk'. rewrite lookup_set_done.
      assert (M : memb k' (map fst (b_futs B)) = false).
      { eapply (other_batch_keys c s _ _ mb' B k' HI (M_live _ _ _ SM)); eauto. congruence. }
      unfold memb. cbn [map fst existsb]. rewrite orb_false_r. destruct (Nat.eqb_spec k' k) as [Ek|Nk]; [|apply A3; exact Hk'].
      exfalso. assert (memb k (map fst (b_futs B)) = true) by (apply memb_In; apply in_map_iff; exists (k, f); auto).
      congruence.
Qed.

(* ---- Call / Burst ------------------------------------------------------------------------------------------- *)

Fixpoint asc (n : nat) (l : list nat) : Prop :=
  match l with [] => True | x :: r => n <= x /\ asc (S x) r end.

Lemma asc_weaken n n' l : n' <= n -> asc n l -> asc n' l.
Proof. destruct l; simpl; auto. intros H [H1 H2]. split; auto. lia. Qed.

Lemma asc_app n l1 l2 m : asc n l1 -> (forall x, In x l1 -> x < m) -> n <= m -> asc m l2 -> asc n (l1 ++ l2).
Proof.
  revert n. induction l1 as [|x r IH]; intros n H1 Hlt Hnm H2; simpl.
  - eapply asc_weaken; eauto.
  - destruct H1 as [A B]. split; auto. apply IH; auto.
    + intros y Hy. apply Hlt. now right.
    + assert (x < m) by (apply Hlt; now left). lia.
Qed.

Lemma do_call_asc c a ko s :
  asc (length (callers s)) (done_ids (snd (do_call c a ko 0 s))) /\
  forall x, In x (done_ids (snd (do_call c a ko 0 s))) -> x < S (length (callers s)).
Proof.
  unfold do_call. destruct (lookup (ret s) _) as [f|].
  - destruct (lookup (fdone s) f) as [[o t]|]; unfold done_ids; simpl; [|split; [auto | intros ? []]].
    split; [split; auto|]. intros x [<-|[]]. lia.
  - match goal with |- context [take c ?it ?s1] => pose proof (take_os c it s1) as Hos end.
    rewrite (done_ids_starts _ Hos). split; [exact Logic.I | intros ? []].
Qed.

Lemma do_calls_asc c l : forall s,
  asc (length (callers s)) (done_ids (snd (do_calls c l s))) /\
  forall x, In x (done_ids (snd (do_calls c l s))) -> x < length l + length (callers s).
Proof.
  induction l as [|[a ko] r IH]; intros s; simpl; [split; [exact Logic.I | intros ? []]|].
  destruct (do_call_asc c a ko s) as [A1 A2]. pose proof (do_call_len c a ko 0 s) as L.
  destruct (do_call c a ko 0 s) as [s1 o1]. simpl in *.
  destruct (IH s1) as [B1 B2]. destruct (do_calls c r s1) as [s2 o2]. simpl in *.
  rewrite done_ids_app. split.
  - eapply asc_app; eauto. rewrite L in B1. exact B1.
  - intros x Hx. apply in_app_or in Hx as [Hx|Hx]; [apply A2 in Hx; lia | apply B2 in Hx; lia].
Qed.

(* the canonical order leaves completions that are already in increasing caller order alone *)
Lemma sorted_id (l : list obs) n :
  (forall x, In x l -> is_done_obs x = true) -> asc n (map done_id l) -> fold_right insert_done [] l = l.
Proof.
  revert n. induction l as [|o r IH]; intros n Hd Ha; simpl; auto.
  destruct Ha as [_ Ha]. rewrite (IH (S (done_id o))); auto; [|intros x Hx; apply Hd; now right].
  destruct r as [|x r']; simpl; auto. destruct Ha as [Ha _].
  assert ((done_id o <? done_id x) = true) by lia. now rewrite H.
Qed.

Lemma dones_of_filter os : dones_of (filter is_done_obs os) = dones_of os.
Proof. induction os as [|x r IH]; simpl; auto. destruct x; simpl; rewrite ?IH; auto. Qed.

Lemma dones_of_none (f : obs -> bool) os : (forall x, f x = true -> is_done_obs x = false) -> dones_of (filter f os) = [].
Proof.
  intros H. induction os as [|x r IH]; simpl; auto. destruct (f x) eqn:E; auto.
  simpl. specialize (H x E). destruct x; simpl in *; try discriminate; auto.
Qed.

Lemma dones_canon_sorted os n : asc n (done_ids os) -> dones_of (canon os) = dones_of os.
Proof.
  intros Ha. unfold canon. rewrite !dones_of_app.
  rewrite (dones_of_none is_start) by (intros [] H; simpl in *; congruence).
  rewrite (dones_of_none is_died) by (intros [] H; simpl in *; congruence).
  rewrite app_nil_r. simpl.
  rewrite (sorted_id (filter is_done_obs os) n); [apply dones_of_filter | | exact Ha].
  intros x Hx. now apply filter_In in Hx.
Qed.

Lemma reg_more c now mx st : forall l calls es ex imm,
  (forall mc, In mc calls -> mc_more mc = 0) ->
  let '(calls', _, _, _) := reg_calls c now mx st (map (fun p : nat * option nat => (fst p, snd p, 0)) l) calls es ex imm in
  forall mc, In mc calls' -> mc_more mc = 0.
Proof.
  induction l as [|[a ko] r IH]; intros calls es ex imm H; [exact H|].
  cbn [map reg_calls fst snd reg_chain].
  assert (H' : forall mc, In mc (calls ++ [mkmcall (key_of a ko) st false a ko 0]) -> mc_more mc = 0).
  { intros mc Hin. apply in_app_or in Hin as [Hin|[<-|[]]]; auto. }
  destruct (spec_lookup c now es (key_of a ko)); apply IH; exact H'.
Qed.

Lemma filter_all_new (l : list (nat * outcome * N)) n :
  (forall d, In d l -> n <= fst (fst d)) -> filter (fun d => negb (fst (fst d) <? n)) l = l.
Proof.
  induction l as [|d r IH]; simpl; auto. intros H.
  assert (n <= fst (fst d)) by (apply H; now left). assert ((fst (fst d) <? n) = false) by lia.
  rewrite H1. simpl. f_equal. apply IH. intros d' Hd'. apply H. now right.
Qed.

Lemma sim_calls c s m e l :
  ev_ok e -> is_chain e = false -> Inv c s -> ZInv s -> Sim c s m ->
  calls_of e = map (fun p => (fst p, snd p, 0)) l -> bat_effect (m_live m) e = None ->
  fst (step c s e) = fst (do_calls c l s) -> snd (step c s e) = snd (do_calls c l s) ->
  match e with Call _ _ | Burst _ => True | _ => False end ->
  Sim c (fst (step c s e)) (mon_step c m e (canon (snd (step c s e)))) /\
  m_bad11 (mon_step c m e (canon (snd (step c s e)))) = m_bad11 m.
Proof.
  intros Hev Hc HI Z SM Hcalls Hbat Hfst Hsnd He.
  pose proof (Inv_step c s e Hev HI) as HI'. pose proof HI as (I & F & T & K). pose proof HI' as (I' & F' & T' & K').
  destruct (step_emits c s e) as (new & A & Bq).
  assert (Enow : match e with Advance dt => (m_now m + dt)%N | _ => m_now m end = now s).
  { rewrite (M_now _ _ _ SM). destruct e; auto; contradiction. }
  assert (Emx : match e with SetMax n => n | _ => m_maxb m end = m_maxb m) by (destruct e; auto; contradiction).
  pose proof (reg_many c (m_step m) (m_maxb m) l s (m_calls m) (m_entries m) (m_expect m) [] HI (M_ent _ _ _ SM) (M_calls _ _ _ SM)) as RM.
  pose proof (reg_more c (now s) (m_maxb m) (m_step m) l (m_calls m) (m_entries m) (m_expect m) [] (M_more _ _ _ SM)) as RMm.
  destruct (do_calls_asc c l s) as [Asc _].
  pose proof (do_calls_RA c l s) as (new' & R1 & R2).
  pose proof (mon_step_general c m e (canon (snd (step c s e))) new (map ka (Q (fst (step c s e)))) (M_more _ _ _ SM)) as G.
  rewrite Hcalls, Hbat, Enow, Emx in G. cbv zeta in G. rewrite Hfst, Hsnd in *.
  destruct (reg_calls c (now s) (m_maxb m) (m_step m) (map (fun p => (fst p, snd p, 0)) l) (m_calls m) (m_entries m) (m_expect m) [])
    as [[[calls1 es1] ex1] imm1].
  destruct (do_calls c l s) as [s' os]. simpl in *.
  destruct RM as (E1 & L1 & N1 & (nit & Gi & X1) & M1 & D1 & Rk).
  assert (new' = new) by (rewrite R1 in A; now apply app_inv_head in A). subst new'.
  assert (Hq : Q s ++ nit = flat_map st_items new ++ Q s').
  { pose proof (g_items_split _ F) as G0. pose proof (g_items_split _ F') as G'.
    rewrite A, Gi, G0, flat_map_app in G'. unfold Q. rewrite <- !app_assoc in G'.
    apply app_inv_head in G'. rewrite <- app_assoc. exact G'. }
  assert (Hnd : forall x, In x new -> NoDup (map it_key (st_items x))).
  { intros x Hx. eapply (new_nodup c s' new x HI'); eauto. }
  destruct G as (G1 & G2 & G3 & G4 & G5 & G6 & G7 & G8).
  - exact RMm.
  - reflexivity.
  - rewrite (dones_canon_sorted os _ Asc), (M_calls _ _ _ SM), filter_all_new by exact D1.
    rewrite M1. reflexivity.
  - now apply starts_of_canon.
  - rewrite X1, (M_exp _ _ _ SM), <- map_app, Hq, map_app. reflexivity.
  - exact Hnd.
  - split; [|exact G1].
    eapply (sim_finish c s' _ (m_step m) es1 (m_live m) (running s) new); eauto.
    + congruence.
    + congruence.
    + eapply Forall2_LR_mono; [apply (M_live _ _ _ SM)|]. intros mb k Hin Hk.
      destruct (live_key_pending c s _ _ mb k HI (M_live _ _ _ SM) Hin Hk) as (B & f & _ & _ & _ & [_ R]).
      apply Rk. congruence.
Qed.

(* ---- every step ---------------------------------------------------------------------------------------------- *)

Lemma find_live_none c s m b : Sim c s m -> find_batch s b = None -> find_live (m_live m) b = None.
Proof.
  intros SM H. pose proof (find_corr (m_entries m) (m_live m) (running s) b (M_live _ _ _ SM)) as FC.
  unfold find_batch in H. rewrite H in FC. destruct (find_live (m_live m) b); [contradiction|reflexivity].
Qed.

Lemma sim_step c s m e :
  ev_ok e -> is_chain e = false -> Inv c s -> ZInv s -> Sim c s m ->
  Sim c (fst (step c s e)) (mon_step c m e (canon (snd (step c s e)))) /\
  m_bad11 (mon_step c m e (canon (snd (step c s e)))) = m_bad11 m.
Proof.
  intros Hev Hc HI Z SM. pose proof HI as (I & F & T & S & K & _).
  destruct e as [a ko|a ko mm|l|dt|b k r|b x|b|cid|n]; try discriminate.
  - apply (sim_calls c s m (Call a ko) [(a, ko)]); auto; try exact Logic.I;
      simpl; destruct (do_call c a ko 0 s); simpl; try reflexivity; now rewrite app_nil_r.
  - apply (sim_calls c s m (Burst l) l); auto; exact Logic.I.
  - apply sim_plain; auto; simpl; try exact Logic.I; try apply advance_fdone; try apply advance_gitems; try apply advance_RA.
  - destruct (find_batch s b) as [B|] eqn:FB.
    + apply find_batch_some in FB as [HB Hid]. subst b.
      destruct (lookup (b_futs B) k) as [f|] eqn:Lk.
      * exact (sim_yield c s m B k f r HI Z SM HB Lk).
      * apply (sim_end_core c s m _ B ProtocolErr (EvYield k r)); auto; try exact Logic.I.
        -- simpl. rewrite (find_batch_in c s B I HB), Lk. reflexivity.
        -- intros mb FL E2. simpl. rewrite FL, E2, memb_map_fst, Lk. reflexivity.
    + apply sim_plain; auto; simpl; try rewrite FB; try reflexivity; try exact Logic.I;
        try (now rewrite (find_live_none c s m b SM FB)); try (now apply RA_refl).
  - destruct (find_batch s b) as [B|] eqn:FB.
    + apply find_batch_some in FB as [HB Hid]. subst b.
      apply (sim_end_core c s m _ B (RaisedExc x) (EvRaise x)); auto; try exact Logic.I.
      * simpl. rewrite (find_batch_in c s B I HB). reflexivity.
      * intros mb FL E2. simpl. rewrite FL. reflexivity.
    + apply sim_plain; auto; simpl; try rewrite FB; try reflexivity; try exact Logic.I;
        try (now rewrite (find_live_none c s m b SM FB)); try (now apply RA_refl).
  - destruct (find_batch s b) as [B|] eqn:FB.
    + apply find_batch_some in FB as [HB Hid]. subst b.
      apply (sim_end_core c s m _ B Missing EvFin); auto; try exact Logic.I.
      * simpl. rewrite (find_batch_in c s B I HB). reflexivity.
      * intros mb FL E2. simpl. rewrite FL. reflexivity.
    + apply sim_plain; auto; simpl; try rewrite FB; try reflexivity; try exact Logic.I;
        try (now rewrite (find_live_none c s m b SM FB)); try (now apply RA_refl).
  - apply sim_plain; auto; simpl; try reflexivity; try exact Logic.I.
    + destruct (cancel_sameP s cid) as (_ & E & _). exact E.
    + destruct (cancel_sameS s cid) as (E & _). exact E.
    + destruct (cancel_sameS s cid) as (_ & _ & E3 & _ & E5 & _). now apply RA_refl.
  - apply sim_plain; auto; simpl; try reflexivity; try exact Logic.I; now apply RA_refl.
Qed.

(* ---- every run -------------------------------------------------------------------------------------------------- *)

Lemma sim_run c evs : forall s m,
  Forall ev_ok evs -> forallb (fun e => negb (is_chain e)) evs = true -> Inv c s -> ZInv s -> Sim c s m ->
  exists m', mon_run c m evs (map canon (fst (run_from c s evs))) = Some m' /\ m_bad11 m' = m_bad11 m.
Proof.
  induction evs as [|e r IH]; intros s m He Hc HI Z SM; simpl.
  - exists m. auto.
  - inversion He as [|? ? H1 H2]; subst. simpl in Hc. apply andb_prop in Hc as [Hc1 Hc2]. apply negb_true_iff in Hc1.
    destruct (sim_step c s m e H1 Hc1 HI Z SM) as [SM1 B1].
    pose proof (Inv_step c s e H1 HI) as HI1. destruct (step_Z c s e Hc1 Z) as [Z1 _].
    destruct (step c s e) as [s1 os]. simpl in *.
    destruct (IH s1 (mon_step c m e (canon os)) H2 Hc2 HI1 Z1 SM1) as (m' & R & Bm).
    destruct (run_from c s1 r) as [tr s2]. simpl in *. exists m'. split; [exact R | congruence].
Qed.

Lemma sim_init c : Sim c (init c) (minit c).
Proof. constructor; simpl; auto; try (intros ? []); try constructor; try (intros k; reflexivity). Qed.

(* COMPLETENESS of ok_C11 on event lists without Chain events *)
Lemma ok_C11_complete c evs w :
  cfg_ok c -> Forall ev_ok evs -> forallb (fun e => negb (is_chain e)) evs = true ->
  ok_C11 (BCase c evs (map canon (fst (run c evs))) w) = true.
Proof.
  intros Hc He Hn. unfold ok_C11. rewrite (ok_basic_complete c evs w Hc He). simpl.
  destruct (init_LF c Hc) as [I0 F0].
  assert (HI : Inv c (init c)) by (split; [exact I0|]; split; [exact F0|]; split; [apply init_T | apply init_K]).
  assert (Z0 : ZInv (init c)) by (intros cl []).
  destruct (sim_run c evs (init c) (minit c) He Hn HI Z0 (sim_init c)) as (m' & R & Bm).
  unfold run. rewrite R. simpl in Bm. now rewrite Bm.
Qed.
