(* Case_Batcher_Sound04.v — model-free SOUNDNESS of the state-dependent conjuncts of
   the monitor ok_C04: if ok_C04 accepts an observed trace then, at every macro step,
   every completion of a caller that was already waiting is JUSTIFIED by the script:
   either the step's event is the Cancel of that very caller (outcome Cancelled), or the
   event is a batch-function event of a batch that was OBSERVED to start and that still
   owed the caller's key, and the outcome is exactly what that event produces for that
   key: the yielded value / Exception for a yield of this key, ProtocolErr for a yield of
   a key the batch does not owe, the raised exception for a raise, Missing for a return.
   In particular a waiting caller never receives what was yielded for another key.
   Everything here is about the script and the observed trace only (the monitor state
   [m] before the step is computed from them by [mon_run]); the model is not involved. *)
From Coq Require Import List Arith NArith Bool Lia.
Import ListNotations.
Require Import Aiuti.CaseLib Aiuti.Batcher Aiuti.Case_Batcher Aiuti.Case_Batcher_Sound.

(* ---- decidable equalities are sound ----------------------------------------------------------------- *)

Lemma outcome_eqb_eq a b : outcome_eqb a b = true -> a = b.
Proof. destruct a, b; simpl; try discriminate; auto; intros H; apply Nat.eqb_eq in H; congruence. Qed.

Lemma co_eqb_eq x y : co_eqb x y = true -> x = y.
Proof.
  destruct x as [i o], y as [j p]. unfold co_eqb, pair_eqb. simpl. intros H. apply andb_prop in H as [H1 H2].
  apply Nat.eqb_eq in H1. apply outcome_eqb_eq in H2. congruence.
Qed.

(* ---- what justifies a late completion ------------------------------------------------------------------ *)

(* batch b was observed to start and, according to the script so far, still owes the keys [mb_unans] *)
Definition owes (m : mst) (b : nat) (k : nat) : Prop :=
  exists mb, find_live (m_live m) b = Some mb /\ In k (mb_unans mb).

Definition justified (m : mst) (e : event) (i : nat) (o : outcome) : Prop :=
  exists mc, nth_error (m_calls m) i = Some mc /\ mc_done mc = false /\
    ((e = Cancel i /\ o = Cancelled) \/
     exists b, owes m b (mc_key mc) /\
       ((exists r, e = BYield b (mc_key mc) r /\ o = of_res r) \/
        (exists k r, e = BYield b k r /\ ~ owes m b k /\ o = ProtocolErr) \/
        (exists x, e = BRaise b x /\ o = RaisedExc x) \/
        (e = BFinish b /\ o = Missing))).

Lemma late_expected_in calls p : forall i0 i o,
  In (i, o) (late_expected i0 calls p) ->
  exists mc, nth_error calls (i - i0) = Some mc /\ i0 <= i /\ mc_done mc = false /\ lookup p (mc_key mc) = Some o.
Proof.
  induction calls as [|mc r IH]; intros i0 i o H; simpl in H; [contradiction|].
  assert (Hrec : In (i, o) (late_expected (S i0) r p) ->
                 exists mc0, nth_error (mc :: r) (i - i0) = Some mc0 /\ i0 <= i /\ mc_done mc0 = false /\ lookup p (mc_key mc0) = Some o).
  { intros H'. destruct (IH (S i0) i o H') as (mc0 & A & B & C & D). exists mc0.
    replace (i - i0) with (S (i - S i0)) by lia. simpl. repeat split; auto. lia. }
  destruct (mc_done mc) eqn:Dn; [auto|]. destruct (lookup p (mc_key mc)) as [o'|] eqn:Lk; [|auto].
  destruct H as [H|H]; [|auto]. injection H as <- <-. exists mc. rewrite Nat.sub_diag. simpl. auto.
Qed.

Lemma lookup_map_const {A} (l : list nat) (o : A) k v :
  lookup (map (fun k0 => (k0, o)) l) k = Some v -> In k l /\ v = o.
Proof.
  induction l as [|x r IH]; simpl; [discriminate|]. destruct (Nat.eqb_spec x k) as [->|N].
  - intros H. injection H as <-. auto.
  - intros H. destruct (IH H). auto.
Qed.

Lemma is_cancel_eq e cid : is_cancel e = Some cid -> e = Cancel cid.
Proof. destruct e; simpl; try discriminate. intros H. now injection H as ->. Qed.

(* one accepted step *)
Lemma mon_step_late c m e os :
  m_bad04 (mon_step c m e os) = false ->
  m_bad04 m = false /\
  forall i o t, In (CallerDone i o t) os -> i < length (m_calls m) -> justified m e i o.
Proof.
  unfold mon_step.
  destruct (reg_calls c _ _ _ (calls_of e) _ _ _ _) as [[[calls1 es1] ex1] imm1].
  destruct (match bat_effect (m_live m) e with Some x => x | None => (0, [], m_live m, false) end)
    as [[[bstep produced] live1] freed] eqn:Ebat.
  destruct (reg_calls c _ _ _ (recall_list _ _) _ _ _ _) as [[[calls3 es3] ex3] imm].
  match goal with |- context [fold_left ?f (starts_of os) ?m1] =>
    destruct (fold_check_start c (length (m_live m)) freed (starts_of os) m1) as (_ & A2 & _ & _) end.
  cbn [m_bad04]. rewrite A2. cbn [m_bad04]. intros H. apply orb_false_elim in H as [H1 H2]. split; [exact H1|].
  apply negb_false_iff in H2. repeat (apply andb_prop in H2 as [H2 ?]).
  apply (list_eqb_eq co_eqb co_eqb_eq) in H2.
  intros i o t Hin Hi. apply in_dones_of in Hin.
  assert (Hl : In (i, o) (map fst (filter (fun d => fst (fst d) <? length (m_calls m)) (dones_of os)))).
  { apply in_map_iff. exists (i, o, t). split; auto. apply filter_In. split; auto. simpl. now apply Nat.ltb_lt. }
  rewrite H2 in Hl.
  destruct (is_cancel e) as [cid|] eqn:Ec.
  - apply is_cancel_eq in Ec. destruct (nth_error (m_calls m) cid) as [mc|] eqn:En; [|destruct Hl].
    destruct (mc_done mc) eqn:Dn; [destruct Hl|]. destruct Hl as [Hl|[]]. injection Hl as <- <-.
    exists mc. repeat split; auto.
  - destruct (late_expected_in _ _ 0 i o Hl) as (mc & Hn & _ & Dn & Lk). rewrite Nat.sub_0_r in Hn.
    exists mc. split; auto. split; auto. right.
    destruct e as [a ko|a ko mm|l|dt|b k r|b x|b|cid|n]; simpl in Ebat;
      try (injection Ebat as _ <- _ _; simpl in Lk; discriminate).
    + destruct (find_live (m_live m) b) as [mb|] eqn:FL; [|injection Ebat as _ <- _ _; simpl in Lk; discriminate].
      destruct (memb k (mb_unans mb)) eqn:Mk; injection Ebat as _ <- _ _.
      * simpl in Lk. destruct (Nat.eqb_spec k (mc_key mc)) as [Ek|Nk]; [|discriminate]. injection Lk as <-. subst k.
        exists b. split; [exists mb; split; auto; now apply memb_In|]. left. eauto.
      * apply lookup_map_const in Lk as [Hk ->]. exists b. split; [exists mb; auto|]. right. left.
        exists k, r. repeat split; auto. intros (mb' & FL' & Hk'). assert (mb' = mb) by congruence. subst mb'.
        apply memb_In in Hk'. congruence.
    + destruct (find_live (m_live m) b) as [mb|] eqn:FL; [|injection Ebat as _ <- _ _; simpl in Lk; discriminate].
      injection Ebat as _ <- _ _. apply lookup_map_const in Lk as [Hk ->]. exists b. split; [exists mb; auto|].
      right. right. left. eauto.
    + destruct (find_live (m_live m) b) as [mb|] eqn:FL; [|injection Ebat as _ <- _ _; simpl in Lk; discriminate].
      injection Ebat as _ <- _ _. apply lookup_map_const in Lk as [Hk ->]. exists b. split; [exists mb; auto|].
      right. right. right. auto.
Qed.

(* ---- every step of an accepted run --------------------------------------------------------------------------- *)

Fixpoint all_steps (P : mst -> event -> list obs -> Prop) (c : cfg) (m : mst) (evs : list event) (observed : list (list obs)) : Prop :=
  match evs, observed with
  | [], [] => True
  | e :: er, os :: or => P m e os /\ all_steps P c (mon_step c m e os) er or
  | _, _ => False
  end.

Definition late_justified (m : mst) (e : event) (os : list obs) : Prop :=
  forall i o t, In (CallerDone i o t) os -> i < length (m_calls m) -> justified m e i o.

Lemma mon_run_late c : forall evs observed m m',
  mon_run c m evs observed = Some m' -> m_bad04 m' = false ->
  m_bad04 m = false /\ all_steps late_justified c m evs observed.
Proof.
  induction evs as [|e er IH]; intros [|os or] m m' H Hb; simpl in H; try discriminate.
  - injection H as <-. split; [exact Hb | exact Logic.I].
  - destruct (IH or (mon_step c m e os) m' H Hb) as [H1 H2].
    destruct (mon_step_late c m e os H1) as [H3 H4]. split; [exact H3|]. simpl. split; auto.
Qed.

Lemma ok_C04_sound_late c evs observed w :
  ok_C04 (BCase c evs observed w) = true -> all_steps late_justified c (minit c) evs observed.
Proof.
  unfold ok_C04, final. intros H. apply andb_prop in H as [_ H].
  destruct (mon_run c (minit c) evs observed) as [m|] eqn:E; [|discriminate].
  apply andb_prop in H as [H _]. apply negb_true_iff in H.
  destruct (mon_run_late c evs observed _ _ E H) as [_ A]. exact A.
Qed.

(* the final rule: once every observed batch was ended by the script and batch_timeout elapsed since
   the last call, an accepted trace has nobody waiting (no hang); and the observed waiting list is
   exactly the callers without an observed completion *)
Lemma ok_C04_sound_end c evs observed w :
  ok_C04 (BCase c evs observed w) = true ->
  exists m, mon_run c (minit c) evs observed = Some m /\ w = not_done_from 0 (m_calls m) /\
            (m_live m = [] -> (c_bt c <= m_idle m)%N -> w = []).
Proof.
  unfold ok_C04, final. intros H. apply andb_prop in H as [_ H].
  destruct (mon_run c (minit c) evs observed) as [m|] eqn:E; [|discriminate].
  apply andb_prop in H as [_ H]. unfold end_ok04 in H. apply andb_prop in H as [H1 H2].
  exists m. split; auto. apply (list_eqb_eq Nat.eqb) in H1; [|intros x y Hxy; now apply Nat.eqb_eq].
  split; auto. intros Hl Hi. unfold drained in H2. rewrite Hl in H2. simpl in H2.
  assert ((c_bt c <=? m_idle m)%N = true) by now apply N.leb_le. rewrite H in H2.
  destruct w; [reflexivity | discriminate].
Qed.

(* ---- immediate answers ------------------------------------------------------------------------------------------ *)

(* the calls after this step's registration (the event's own calls, or those of the resumed tasks),
   and the latest outcome produced per key, this step's productions included: both computed from the
   script and the monitor state before the step, exactly as [mon_step] does *)
Definition step_calls (c : cfg) (m : mst) (e : event) : list mcall :=
  let now := match e with Advance dt => (m_now m + dt)%N | _ => m_now m end in
  let mx := match e with SetMax n => n | _ => m_maxb m end in
  let '(calls1, es1, ex1, imm1) :=
    reg_calls c now mx (m_step m) (calls_of e) (m_calls m) (m_entries m) (m_expect m) [] in
  let '(bstep, produced, live1, freed) :=
    match bat_effect (m_live m) e with Some x => x | None => (0, [], m_live m, false) end in
  let '(calls3, _, _, _) :=
    reg_calls c now mx (m_step m) (recall_list (m_calls m) produced) calls1 (set_done now es1 produced) ex1 imm1 in
  calls3.

Definition step_last (m : mst) (e : event) : list (nat * outcome) :=
  let '(bstep, produced, live1, freed) :=
    match bat_effect (m_live m) e with Some x => x | None => (0, [], m_live m, false) end in
  fold_left (fun l ko => ko :: l) produced (m_last m).

(* a call answered in the step in which it was made got the latest outcome the script made the batch
   function produce for its key *)
Definition imm_justified (c : cfg) (m : mst) (e : event) (os : list obs) : Prop :=
  forall i o t, In (CallerDone i o t) os -> length (m_calls m) <= i ->
    exists mc, nth_error (step_calls c m e) i = Some mc /\ lookup (step_last m e) (mc_key mc) = Some o.

Lemma mon_step_imm c m e os :
  m_bad04 (mon_step c m e os) = false -> m_bad04 m = false /\ imm_justified c m e os.
Proof.
  unfold mon_step, imm_justified, step_calls, step_last.
  destruct (reg_calls c _ _ _ (calls_of e) _ _ _ _) as [[[calls1 es1] ex1] imm1].
  destruct (match bat_effect (m_live m) e with Some x => x | None => (0, [], m_live m, false) end)
    as [[[bstep produced] live1] freed] eqn:Ebat.
  destruct (reg_calls c _ _ _ (recall_list _ _) _ _ _ _) as [[[calls3 es3] ex3] imm].
  match goal with |- context [fold_left ?f (starts_of os) ?m1] =>
    destruct (fold_check_start c (length (m_live m)) freed (starts_of os) m1) as (_ & A2 & _ & _) end.
  cbn [m_bad04]. rewrite A2. cbn [m_bad04]. intros H. apply orb_false_elim in H as [H1 H2]. split; [exact H1|].
  apply negb_false_iff in H2. repeat (apply andb_prop in H2 as [H2 ?]).
  intros i o t Hin Hi. apply in_dones_of in Hin.
  assert (Hl : In (i, o) (map fst (filter (fun d => negb (fst (fst d) <? length (m_calls m))) (dones_of os)))).
  { apply in_map_iff. exists (i, o, t). split; auto. apply filter_In. split; auto. simpl.
    apply negb_true_iff. apply Nat.ltb_ge. exact Hi. }
  match goal with Hf : forallb (imm_ok04 calls3 _) _ = true |- _ => pose proof (proj1 (forallb_forall _ _) Hf _ Hl) as Hok end.
  unfold imm_ok04 in Hok. simpl in Hok. destruct (nth_error calls3 i) as [mc|]; [|discriminate].
  exists mc. split; auto. destruct (lookup _ (mc_key mc)) as [o'|]; [|discriminate].
  apply outcome_eqb_eq in Hok. now subst o'.
Qed.

Lemma mon_run_imm c : forall evs observed m m',
  mon_run c m evs observed = Some m' -> m_bad04 m' = false ->
  m_bad04 m = false /\ all_steps (imm_justified c) c m evs observed.
Proof.
  induction evs as [|e er IH]; intros [|os or] m m' H Hb; simpl in H; try discriminate.
  - injection H as <-. split; [exact Hb | exact Logic.I].
  - destruct (IH or (mon_step c m e os) m' H Hb) as [H1 H2].
    destruct (mon_step_imm c m e os H1) as [H3 H4]. split; [exact H3|]. simpl. split; auto.
Qed.

Lemma ok_C04_sound_imm c evs observed w :
  ok_C04 (BCase c evs observed w) = true -> all_steps (imm_justified c) c (minit c) evs observed.
Proof.
  unfold ok_C04, final. intros H. apply andb_prop in H as [_ H].
  destruct (mon_run c (minit c) evs observed) as [m|] eqn:E; [|discriminate].
  apply andb_prop in H as [H _]. apply negb_true_iff in H.
  destruct (mon_run_imm c evs observed _ _ E H) as [_ A]. exact A.
Qed.
