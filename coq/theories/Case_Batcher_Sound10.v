(* Case_Batcher_Sound10.v — model-free SOUNDNESS of the state-dependent conjuncts of the
   monitor ok_C10: if ok_C10 accepts an observed trace then every observed BatchStart
   satisfies, relative to the monitor's queue of expected requests at that moment (the
   item-creating calls per the window specification, in arrival order, each with its
   arrival tick mi_t and the limit in force mi_max — computed from the script and the
   observed trace only):
     FIFO      the batch is exactly the first n expected requests, which are consumed;
     size      1 <= n <= the largest limit in force when one of them arrived;
     split     the previous batch was full, or this batch's first request arrived at least
               batch_timeout after the previous batch's last one;
     within    consecutive requests of the batch arrived < batch_timeout apart and the batch
               was not full after any but the last;
     deadline  start tick >= sp and (= sp, or this step's event ended a batch while all slots
               were busy), sp = last arrival if that filled the batch, else + batch_timeout;
     conc      at most max_concurrent_batches observed batches are live;
     clock     the start tick is not in the script's future.
   The model is not involved. *)
From Coq Require Import List Arith NArith Bool Lia.
Import ListNotations.
Require Import Aiuti.CaseLib Aiuti.Batcher Aiuti.Case_Batcher Aiuti.Case_Batcher_Sound Aiuti.Case_Batcher_Sound04.

Definition mka' (x : mitem) : nat * nat := (mi_key x, mi_arg x).

Fixpoint within_P (c : cfg) (pos : nat) (l : list mitem) : Prop :=
  match l with
  | x :: ((y :: _) as r) => (mi_t y < mi_t x + c_bt c)%N /\ S pos < mi_max x /\ within_P c (S pos) r
  | _ => True
  end.

Definition start_sound (c : cfg) (m : mst) (live0 : nat) (freed : bool) (st : nat * list (nat * nat) * N) : Prop :=
  let '(b, items, t) := st in
  exists mine rest x,
    m_expect m = mine ++ rest /\ length mine = length items /\ items = map mka' mine /\
    last_item mine = Some x /\
    1 <= length items /\ length items <= fold_right Nat.max 0 (map mi_max mine) /\
    match m_prev m, mine with
    | Some (tp, mp, np), f :: _ => mp <= np \/ (tp + c_bt c <= mi_t f)%N
    | _, _ => True
    end /\
    within_P c 0 mine /\
    (let sp := if mi_max x <=? length items then mi_t x else (mi_t x + c_bt c)%N in
     (sp <= t)%N /\ (t = sp \/ (freed = true /\ c_conc c <= live0))) /\
    S (length (m_live m)) <= c_conc c /\ (t <= m_now m)%N.

Fixpoint starts_sound (c : cfg) (m : mst) (live0 : nat) (freed : bool) (sts : list (nat * list (nat * nat) * N)) : Prop :=
  match sts with
  | [] => True
  | st :: r => start_sound c m live0 freed st /\ starts_sound c (check_start c m live0 freed st) live0 freed r
  end.

Lemma take_items_split n : forall (l : list mitem) a b, take_items n l = (a, b) -> l = a ++ b /\ length a <= n.
Proof.
  induction n as [|n IH]; intros l a b H; simpl in H.
  - injection H as <- <-. split; auto.
  - destruct l as [|x r]; [injection H as <- <-; split; [reflexivity | simpl; lia]|].
    destruct (take_items n r) as [a' b'] eqn:E. injection H as <- <-. destruct (IH r a' b' E) as [H1 H2].
    split; [simpl; now rewrite <- H1 | simpl; lia].
Qed.

Lemma nn_eqb_eq x y : nn_eqb x y = true -> x = y.
Proof.
  destruct x, y. unfold nn_eqb, pair_eqb. simpl. intros H. apply andb_prop in H as [H1 H2].
  apply Nat.eqb_eq in H1. apply Nat.eqb_eq in H2. congruence.
Qed.

Lemma within_ok_P c : forall l pos, within_ok c pos l = true -> within_P c pos l.
Proof.
  induction l as [|x r IH]; intros pos H; simpl; auto. destruct r as [|y r']; auto.
  simpl in H. apply andb_prop in H as [H H3]. apply andb_prop in H as [H1 H2].
  apply N.ltb_lt in H1. apply Nat.ltb_lt in H2. split; [exact H1|]. split; [exact H2|]. apply IH. exact H3.
Qed.

Lemma check_start_sound c m live0 freed st :
  m_bad10 (check_start c m live0 freed st) = false -> m_bad10 m = false /\ start_sound c m live0 freed st.
Proof.
  destruct st as [[b items] t]. unfold check_start.
  destruct (take_items (length items) (m_expect m)) as [mine rest] eqn:E. cbn [m_bad10].
  intros H. apply orb_false_elim in H as [H1 H2]. split; [exact H1|]. apply negb_false_iff in H2.
  repeat (apply andb_prop in H2 as [H2 ?]).
  destruct (take_items_split _ _ _ _ E) as [E1 E2].
  apply (list_eqb_eq nn_eqb nn_eqb_eq) in H2.
  destruct (last_item mine) as [x|] eqn:El; [|discriminate].
  assert (Hlen : length mine = length items) by (rewrite <- H2, map_length; reflexivity).
  exists mine, rest, x. split; [exact E1|]. split; [exact Hlen|]. split; [now rewrite <- H2|]. split; [exact El|].
  match goal with Hs : (1 <=? _) && (_ <=? _) = true |- _ => apply andb_prop in Hs as [Hs1 Hs2];
    apply Nat.leb_le in Hs1; apply Nat.leb_le in Hs2 end.
  split; [assumption|]. split; [assumption|].
  split.
  - destruct (m_prev m) as [[[tp mp] np]|]; auto. destruct mine as [|f r]; auto.
    match goal with Hs : (_ <=? _) || _ = true |- _ => apply orb_prop in Hs as [Hs|Hs];
      [left; now apply Nat.leb_le in Hs | right; now apply N.leb_le in Hs] end.
  - split; [now apply within_ok_P|].
    match goal with Hd : (_ <=? t)%N && _ = true |- _ => apply andb_prop in Hd as [Hd1 Hd2] end.
    split; [|split].
    + split; [now apply N.leb_le|]. apply orb_prop in Hd2 as [Hd2|Hd2]; [left; now apply N.eqb_eq|].
      apply andb_prop in Hd2 as [A B]. right. split; auto. now apply Nat.leb_le.
    + match goal with Hc : (S _ <=? _) = true |- _ => now apply Nat.leb_le in Hc end.
    + match goal with Ht : (t <=? _)%N = true |- _ => now apply N.leb_le in Ht end.
Qed.

Lemma fold_starts_sound c live0 freed sts : forall m,
  m_bad10 (fold_left (fun mm st => check_start c mm live0 freed st) sts m) = false ->
  m_bad10 m = false /\ starts_sound c m live0 freed sts.
Proof.
  induction sts as [|st r IH]; intros m H; simpl in *; [auto|].
  destruct (IH _ H) as [H1 H2]. destruct (check_start_sound c m live0 freed st H1) as [H3 H4]. auto.
Qed.

(* the monitor state in which the starts of a step are judged: after registering the calls of the
   step and applying the script event *)
Definition pre_starts (c : cfg) (m : mst) (e : event) (os : list obs) : mst * nat * bool :=
  let now := match e with Advance dt => (m_now m + dt)%N | _ => m_now m end in
  let mx := match e with SetMax n => n | _ => m_maxb m end in
  let '(calls1, es1, ex1, imm1) :=
    reg_calls c now mx (m_step m) (calls_of e) (m_calls m) (m_entries m) (m_expect m) [] in
  let '(bstep, produced, live1, freed) :=
    match bat_effect (m_live m) e with Some x => x | None => (0, [], m_live m, false) end in
  let es2 := set_done now es1 produced in
  let '(calls3, es3, ex3, imm) := reg_calls c now mx (m_step m) (recall_list (m_calls m) produced) calls1 es2 ex1 imm1 in
  (mkm now mx (m_step m) calls3 live1 es3 (m_last m) ex3 (m_prev m) (m_idle m) (m_bad04 m) (m_bad10 m) (m_bad11 m),
   length (m_live m), freed).

Definition starts_justified (c : cfg) (m : mst) (e : event) (os : list obs) : Prop :=
  let '(m1, live0, freed) := pre_starts c m e os in starts_sound c m1 live0 freed (starts_of os).

Lemma mon_step_starts c m e os :
  m_bad10 (mon_step c m e os) = false -> m_bad10 m = false /\ starts_justified c m e os.
Proof.
  unfold mon_step, starts_justified, pre_starts.
  destruct (reg_calls c _ _ _ (calls_of e) _ _ _ _) as [[[calls1 es1] ex1] imm1].
  destruct (match bat_effect (m_live m) e with Some x => x | None => (0, [], m_live m, false) end)
    as [[[bstep produced] live1] freed].
  destruct (reg_calls c _ _ _ (recall_list _ _) _ _ _ _) as [[[calls3 es3] ex3] imm].
  cbn [m_bad10]. intros H.
  match type of H with m_bad10 (fold_left ?f ?sts ?m1) = false =>
    destruct (fold_starts_sound c (length (m_live m)) freed sts m1 H) as [H1 H2] end.
  cbn [m_bad10] in H1. split; [exact H1|].
  (* the judged state differs from the one in the statement only in fields check_start ignores *)
  revert H2. generalize (starts_of os).
  match goal with |- forall l, starts_sound c ?ma _ _ l -> starts_sound c ?mb _ _ l =>
    assert (G : forall l ma' mb', m_expect mb' = m_expect ma' -> m_prev mb' = m_prev ma' ->
                                   length (m_live mb') = length (m_live ma') -> m_now mb' = m_now ma' ->
                                   starts_sound c ma' (length (m_live m)) freed l -> starts_sound c mb' (length (m_live m)) freed l) end.
  { induction l as [|st r IH]; intros ma' mb' E1 E2 E3 E4 Hs; simpl in *; auto. destruct Hs as [Hs1 Hs2].
    destruct st as [[b items] t]. split.
    - unfold start_sound in *. rewrite E1, E2, E3, E4. exact Hs1.
    - apply (IH (check_start c ma' (length (m_live m)) freed (b, items, t))); auto;
        unfold check_start; rewrite E1; destruct (take_items _ _) as [mine rest]; simpl; rewrite ?E2, ?E4; auto.
      rewrite !app_length, E3. reflexivity. }
  intros l Hl. eapply G; [| | | |exact Hl]; reflexivity.
Qed.

Lemma mon_run_starts c : forall evs observed m m',
  mon_run c m evs observed = Some m' -> m_bad10 m' = false ->
  m_bad10 m = false /\ all_steps (starts_justified c) c m evs observed.
Proof.
  induction evs as [|e er IH]; intros [|os or] m m' H Hb; simpl in H; try discriminate.
  - injection H as <-. split; [exact Hb | exact Logic.I].
  - destruct (IH or (mon_step c m e os) m' H Hb) as [H1 H2].
    destruct (mon_step_starts c m e os H1) as [H3 H4]. split; [exact H3|]. simpl. split; auto.
Qed.

Lemma ok_C10_sound_starts c evs observed w :
  ok_C10 (BCase c evs observed w) = true -> all_steps (starts_justified c) c (minit c) evs observed.
Proof.
  unfold ok_C10, final. intros H. apply andb_prop in H as [_ H].
  destruct (mon_run c (minit c) evs observed) as [m|] eqn:E; [|discriminate].
  apply andb_prop in H as [H _]. apply negb_true_iff in H.
  destruct (mon_run_starts c evs observed _ _ E H) as [_ A]. exact A.
Qed.
