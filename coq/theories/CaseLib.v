(* CaseLib.v — helpers shared by the Case_Cxx files: decidable equalities and
   the per-file verdict printed by the generated cases_*.v files. *)
From Coq Require Import List Arith Bool NArith.
Import ListNotations.

Fixpoint list_eqb {A} (eqb : A -> A -> bool) (l1 l2 : list A) : bool :=
  match l1, l2 with
  | [], [] => true
  | x :: r1, y :: r2 => eqb x y && list_eqb eqb r1 r2
  | _, _ => false
  end.

Definition opt_eqb {A} (eqb : A -> A -> bool) (o1 o2 : option A) : bool :=
  match o1, o2 with
  | None, None => true
  | Some x, Some y => eqb x y
  | _, _ => false
  end.

Definition pair_eqb {A B} (ea : A -> A -> bool) (eb : B -> B -> bool) (p q : A * B) : bool :=
  ea (fst p) (fst q) && eb (snd p) (snd q).

Fixpoint idx_where_from {A} (f : A -> bool) (l : list A) (i : nat) : list nat :=
  match l with
  | [] => []
  | x :: r => if f x then i :: idx_where_from f r (S i) else idx_where_from f r (S i)
  end.
Definition idx_where {A} (f : A -> bool) (l : list A) : list nat := idx_where_from f l 0.

(* (cases where model <> implementation, cases whose implementation trace the
   monitor rejects, non-trivial cases) *)
Definition verdict3 {A} (agree ok nontrivial : A -> bool) (l : list A)
  : list nat * list nat * list nat :=
  (idx_where (fun c => negb (agree c)) l,
   idx_where (fun c => negb (ok c)) l,
   idx_where nontrivial l).

Lemma list_eqb_refl {A} (eqb : A -> A -> bool) :
  (forall x, eqb x x = true) -> forall l, list_eqb eqb l l = true.
Proof. intros H l; induction l as [|x r IH]; simpl; [reflexivity|]. now rewrite H, IH. Qed.

Lemma list_eqb_eq {A} (eqb : A -> A -> bool) :
  (forall x y, eqb x y = true -> x = y) -> forall l1 l2, list_eqb eqb l1 l2 = true -> l1 = l2.
Proof.
  intros H l1; induction l1 as [|x r IH]; intros [|y r2]; simpl; try discriminate; auto.
  intros E. apply andb_prop in E as [E1 E2]. f_equal; auto.
Qed.
