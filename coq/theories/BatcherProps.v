(* BatcherProps.v — C04 / C09 / C11: the readable statements, derived from the
   invariants of BatcherInv.v (KInv), BatcherLimits.v (LInv, Fifo) and
   BatcherTime.v (TInv), which hold after EVERY event list ([run_all]). *)
From Coq Require Import List Arith NArith Bool Lia ZifyBool ZifyNat ZifyN.
Import ListNotations.
Require Import Aiuti.Batcher Aiuti.BatcherLift Aiuti.BatcherLimits Aiuti.BatcherTime Aiuti.BatcherInv.

Local Arguments N.add : simpl never.
Local Arguments N.leb : simpl never.
Local Arguments N.ltb : simpl never.
Local Arguments N.max : simpl never.
Local Arguments Nat.ltb : simpl never.
Local Arguments Nat.leb : simpl never.

(* ---- CallerDone observations and the callers' final status -------------------------------- *)

Definition ext_callers (s s' : state) : Prop :=
  forall i cl, nth_error (callers s) i = Some cl ->
    exists cl', nth_error (callers s') i = Some cl' /\ cl_key cl' = cl_key cl /\ cl_fid cl' = cl_fid cl /\
                cl_arg cl' = cl_arg cl /\ cl_ko cl' = cl_ko cl /\
                (forall o, cl_st cl = Some o -> cl_st cl' = Some o).

(* every CallerDone i o emitted in the transition is the final status of caller i *)
Definition Dn (s s' : state) (os : list obs) : Prop :=
  ext_callers s s' /\
  forall i o t, In (CallerDone i o t) os -> exists cl', nth_error (callers s') i = Some cl' /\ cl_st cl' = Some o.

Lemma ext_refl s s' : callers s' = callers s -> ext_callers s s'.
Proof. intros E i cl H. rewrite E. exists cl. repeat split; auto. Qed.

Lemma Dn_refl s : True -> Dn s s [].
Proof. intros _. split; [now apply ext_refl | intros ? ? ? []]. Qed.

Lemma Dn_trans s1 s2 s3 o1 o2 : Dn s1 s2 o1 -> Dn s2 s3 o2 -> Dn s1 s3 (o1 ++ o2).
Proof.
  intros [E1 D1] [E2 D2]. split.
  - intros i cl H. destruct (E1 i cl H) as (cl1 & H1 & A1 & A2 & A3 & A4 & A5).
    destruct (E2 i cl1 H1) as (cl2 & H2 & B1 & B2 & B3 & B4 & B5). exists cl2.
    repeat split; try congruence. intros o Ho. auto.
  - intros i o t H. apply in_app_or in H as [H|H]; [|now apply (D2 i o t)].
    destruct (D1 i o t H) as (cl1 & H1 & St). destruct (E2 i cl1 H1) as (cl2 & H2 & _ & _ & _ & _ & B5). eauto.
Qed.

Definition only_starts (os : list obs) : Prop := forall x, In x os -> is_start x = true.

Lemma os_nil : only_starts [].
Proof. intros ? []. Qed.

Lemma os_app o1 o2 : only_starts o1 -> only_starts o2 -> only_starts (o1 ++ o2).
Proof. intros H1 H2 x H. apply in_app_or in H as [H|H]; auto. Qed.

Lemma start_batch_os its s : only_starts (snd (start_batch its s)).
Proof. intros x [<-|[]]. reflexivity. Qed.

Lemma dispatch_os its s : only_starts (snd (dispatch its s)).
Proof. unfold dispatch. cbn [free set_spawn waiting]. destruct (0 <? free s); [apply start_batch_os | apply os_nil]. Qed.

Lemma release_slot_os s : only_starts (snd (release_slot s)).
Proof. unfold release_slot. destruct (waiting s); [apply os_nil | apply start_batch_os]. Qed.

Lemma take_os c it s : only_starts (snd (take c it s)).
Proof. unfold take. destruct (_ <? maxb s); [apply os_nil | apply dispatch_os]. Qed.

Lemma fire_at_os t s : only_starts (snd (fire_at t s)).
Proof.
  unfold fire_at. set (s2 := set_rtimers _ _). destruct (coll s2) as [[its dl]|]; [|apply os_nil].
  destruct (dl <=? t)%N; [apply dispatch_os | apply os_nil].
Qed.

Lemma advance_os fuel target : forall s, only_starts (snd (advance fuel target s)).
Proof.
  induction fuel as [|n IH]; intros s; simpl; [apply os_nil|].
  destruct (next_deadline s) as [t|]; [|apply os_nil]. destruct (t <=? target)%N; [|apply os_nil].
  pose proof (fire_at_os t s) as H1. destruct (fire_at t s) as [s1 o1].
  specialize (IH s1). destruct (advance n target s1) as [s2 o2]. simpl in *. now apply os_app.
Qed.

Lemma Dn_frame s s' os : callers s' = callers s -> only_starts os -> Dn s s' os.
Proof.
  intros E H. split; [now apply ext_refl|]. intros i o t Hin. apply H in Hin. discriminate.
Qed.

Lemma fire_at_callers t s : callers (fst (fire_at t s)) = callers s.
Proof.
  unfold fire_at. set (s2 := set_rtimers _ _). destruct (coll s2) as [[its dl]|]; [|reflexivity].
  destruct (dl <=? t)%N; [|reflexivity].
  match goal with |- callers (fst (dispatch its ?s3)) = _ => destruct (dispatch_sameC its s3) as (E & _) end.
  rewrite E. reflexivity.
Qed.

Lemma advance_callers fuel target : forall s, callers (fst (advance fuel target s)) = callers s.
Proof.
  induction fuel as [|n IH]; intros s; simpl; [reflexivity|].
  destruct (next_deadline s) as [t|]; [|reflexivity]. destruct (t <=? target)%N; [|reflexivity].
  pose proof (fire_at_callers t s) as H1. destruct (fire_at t s) as [s1 o1].
  specialize (IH s1). destruct (advance n target s1) as [s2 o2]. simpl in *. congruence.
Qed.

Lemma ext_snoc s s' cl : callers s' = callers s ++ [cl] -> ext_callers s s'.
Proof.
  intros E i cl0 H. rewrite E. exists cl0. rewrite nth_error_app1 by (apply nth_error_Some; congruence).
  repeat split; auto.
Qed.

Lemma do_call_Dn c a ko m s : Dn s (fst (do_call c a ko m s)) (snd (do_call c a ko m s)).
Proof.
  unfold do_call. destruct (lookup (ret s) _) as [f|].
  - destruct (lookup (fdone s) f) as [[o t]|]; simpl.
    + split; [eapply ext_snoc; reflexivity|]. intros i o' t' [H|[]]. injection H as <- <- <-.
      eexists. unfold add_caller. simpl. rewrite nth_error_app2 by lia. rewrite Nat.sub_diag. simpl. split; reflexivity.
    + split; [eapply ext_snoc; reflexivity | intros ? ? ? []].
  - match goal with |- Dn _ (fst (take c ?it ?s1)) _ =>
      pose proof (take_sameC c it s1) as (E & _); pose proof (take_os c it s1) as Hos end.
    split.
    + eapply ext_snoc. rewrite E. reflexivity.
    + intros i o t Hin. apply Hos in Hin. discriminate.
Qed.

Lemma call_Dn_ok c a ko m s : True -> True /\ Dn s (fst (do_call c a ko m s)) (snd (do_call c a ko m s)).
Proof. intros _. split; auto. apply do_call_Dn. Qed.

Lemma do_chain_Dn c a ko m s : Dn s (fst (do_chain c a ko m s)) (snd (do_chain c a ko m s)).
Proof. apply (lift_chain c (fun _ => True) Dn Dn_refl Dn_trans (call_Dn_ok c) a ko m s Logic.I). Qed.

Lemma do_calls_Dn c l s : Dn s (fst (do_calls c l s)) (snd (do_calls c l s)).
Proof. apply (lift_calls c (fun _ => True) Dn Dn_refl Dn_trans (call_Dn_ok c) l s Logic.I). Qed.

Lemma wake_Dn s : Dn s (fst (wake s)) (snd (wake s)).
Proof.
  unfold wake. pose proof (wake_from_spec (fdone s) (now s) (callers s) 0) as (L & A & Bq).
  destruct (wake_from (fdone s) (now s) 0 (callers s)) as [cs os]. simpl in *. split.
  - intros i cl H. destruct (A i cl H) as (cl' & H1 & H2 & H3 & H4 & H5 & H6 & H7). exists cl'.
    repeat split; auto. intros o Ho. rewrite Ho in H7. exact H7.
  - intros i o t H. destruct (Bq _ H) as (j & cl & o' & t0 & E & Hn & St & Lk). injection E as -> -> _.
    destruct (A j cl Hn) as (cl' & H1 & _ & _ & _ & _ & _ & H7). rewrite St, Lk in H7. exists cl'. tauto.
Qed.

Lemma wake_all_Dn c s : Dn s (fst (wake_all c s)) (snd (wake_all c s)).
Proof.
  apply (lift_wake_all c (fun _ => True) Dn Dn_refl Dn_trans (call_Dn_ok c)); auto.
  intros s0 _. split; auto. apply wake_Dn.
Qed.

Lemma fanout_callers c l o : forall s, callers (fst (fanout c l o s)) = callers s.
Proof.
  induction l as [|[k f] r IH]; intros s; simpl; auto.
  unfold set_fut. destruct (is_done s f); simpl; auto. rewrite IH.
  unfold resolve. destruct (0 <? c_rt c)%N; reflexivity.
Qed.

Lemma end_batch_Dn c B o s : Dn s (fst (end_batch c B o s)) (snd (end_batch c B o s)).
Proof.
  unfold end_batch. set (s0 := set_running s _).
  pose proof (release_slot_sameC s0) as (E1 & _). pose proof (release_slot_os s0) as O1.
  destruct (release_slot s0) as [s1 o1]. simpl in *.
  pose proof (fanout_callers c (b_futs B) o s1) as E2. destruct (fanout c (b_futs B) o s1) as [s2 died]. simpl in *.
  pose proof (wake_all_Dn c s2) as D3. destruct (wake_all c s2) as [s3 o3]. simpl in *.
  assert (D1 : Dn s s2 o1) by (apply Dn_frame; [congruence | exact O1]).
  assert (D4 : Dn s3 s3 (if died then [TaskDied] else [])).
  { split; [now apply ext_refl|]. intros i o' t H. destruct died; [destruct H as [H|[]]; discriminate | destruct H]. }
  eapply Dn_trans; [exact D1|]. eapply Dn_trans; [exact D3 | exact D4].
Qed.

Lemma nth_firstn_lt {A} (l : list A) : forall n i, i < n -> nth_error (firstn n l) i = nth_error l i.
Proof.
  induction l as [|x r IH]; intros [|n] [|i] H; simpl; auto; try lia. apply IH. lia.
Qed.

Lemma nth_skipn' {A} (l : list A) : forall n i, nth_error (skipn n l) i = nth_error l (n + i).
Proof. induction l as [|x r IH]; intros [|n] i; simpl; auto. now destruct i. Qed.

Lemma step_Dn c s e : Dn s (fst (step c s e)) (snd (step c s e)).
Proof.
  destruct e as [a ko|a ko m|l|dt|b k r|b e|b|cid|n]; simpl.
  - apply do_call_Dn.
  - apply do_chain_Dn.
  - apply do_calls_Dn.
  - apply Dn_frame; [apply advance_callers | apply advance_os].
  - destruct (find_batch s b) as [B|]; [|now apply Dn_refl].
    destruct (lookup (b_futs B) k) as [f|].
    + unfold set_fut. match goal with |- context [is_done ?s0 f] => destruct (is_done s0 f) end.
      * match goal with |- Dn _ (fst (end_batch c ?B' ?o ?s0)) _ => pose proof (end_batch_Dn c B' o s0) as [D1 D2] end.
        split; auto.
      * match goal with |- Dn _ (fst (wake_all c ?s1)) _ => pose proof (wake_all_Dn c s1) as [D1 D2] end.
        split; auto. intros i cl H. apply D1. unfold resolve. destruct (0 <? c_rt c)%N; exact H.
    + match goal with |- Dn _ (fst (end_batch c ?B' ?o ?s0)) _ => pose proof (end_batch_Dn c B' o s0) as [D1 D2] end.
      split; auto.
  - destruct (find_batch s b) as [B|]; [|now apply Dn_refl].
    match goal with |- Dn _ (fst (end_batch c ?B' ?o ?s0)) _ => pose proof (end_batch_Dn c B' o s0) as [D1 D2] end.
    split; auto.
  - destruct (find_batch s b) as [B|]; [|now apply Dn_refl].
    match goal with |- Dn _ (fst (end_batch c ?B' ?o ?s0)) _ => pose proof (end_batch_Dn c B' o s0) as [D1 D2] end.
    split; auto.
  - unfold cancel_caller. destruct (nth_error (callers s) cid) as [cl|] eqn:E; [|now apply Dn_refl].
    destruct (cl_st cl) eqn:St; [now apply Dn_refl|]. cbn [fst snd].
    assert (Lc : cid < length (callers s)) by (apply nth_error_Some; congruence).
    assert (Lf : length (firstn cid (callers s)) = cid) by (rewrite firstn_length; lia).
    set (cl1 := mkcaller _ _ _ _ (Some Cancelled) _ _ _).
    assert (Hn : nth_error (firstn cid (callers s) ++ cl1 :: skipn (S cid) (callers s)) cid = Some cl1).
    { rewrite nth_error_app2 by lia. rewrite Lf, Nat.sub_diag. reflexivity. }
    match goal with |- Dn s ?s' _ =>
      assert (Ec : callers s' = firstn cid (callers s) ++ cl1 :: skipn (S cid) (callers s)) by reflexivity end.
    split; [|intros i o t [H|[]]; injection H as <- <- _; exists cl1; rewrite Ec; split; [exact Hn | reflexivity]].
    intros i cl0 H. rewrite Ec. destruct (Nat.eq_dec i cid) as [Ei|N].
    + subst i. exists cl1. split; [exact Hn|].
      assert (cl0 = cl) by congruence. subst cl0. unfold cl1. cbn. repeat split; auto. intros o Ho. congruence.
    + exists cl0. split; [|repeat split; auto].
      destruct (Nat.lt_ge_cases i cid) as [L|L].
      * rewrite nth_error_app1 by lia. rewrite nth_firstn_lt by lia. exact H.
      * rewrite nth_error_app2 by lia. rewrite Lf.
        destruct (i - cid) as [|d] eqn:Ed; [lia|]. cbn [nth_error]. rewrite nth_skipn'.
        replace (S cid + d) with i by lia. exact H.
  - split; [now apply ext_refl | intros ? ? ? []].
Qed.

Lemma run_from_Dn c evs : forall s, Dn s (snd (run_from c s evs)) (concat (fst (run_from c s evs))).
Proof.
  induction evs as [|e r IH]; intros s; simpl; [now apply Dn_refl|].
  pose proof (step_Dn c s e) as D1. destruct (step c s e) as [s1 o1].
  specialize (IH s1). destruct (run_from c s1 r) as [tr s2]. simpl in *. eapply Dn_trans; eauto.
Qed.

Lemma trace_done c evs i o t :
  In (CallerDone i o t) (concat (fst (run c evs))) ->
  exists cl, nth_error (callers (snd (run c evs))) i = Some cl /\ cl_st cl = Some o.
Proof. intros H. destruct (run_from_Dn c evs (init c)) as [_ D]. now apply (D i o t). Qed.

(* ---- Cancelled is only ever reported for the caller a Cancel event names ------------------------ *)

Definition FD (s : state) : Prop := forall f o t, In (f, (o, t)) (fdone s) -> o <> Cancelled.

(* no CallerDone _ Cancelled _ among the observations *)
Definition nc (os : list obs) : Prop := forall i t, ~ In (CallerDone i Cancelled t) os.

Lemma nc_nil : nc [].
Proof. intros ? ? []. Qed.

Lemma nc_app o1 o2 : nc o1 -> nc o2 -> nc (o1 ++ o2).
Proof. intros H1 H2 i t H. apply in_app_or in H as [H|H]; [eapply H1 | eapply H2]; eauto. Qed.

Lemma nc_starts os : only_starts os -> nc os.
Proof. intros H i t Hin. apply H in Hin. discriminate. Qed.

Lemma FD_lookup s f o t : FD s -> lookup (fdone s) f = Some (o, t) -> o <> Cancelled.
Proof. intros H L. apply lookup_In in L. eauto. Qed.

Lemma FD_same s s' : fdone s' = fdone s -> FD s -> FD s'.
Proof. unfold FD. now intros ->. Qed.

Lemma take_fdone c it s : fdone (fst (take c it s)) = fdone s.
Proof. destruct (take_sameC c it s) as (_ & E & _). exact E. Qed.

Lemma do_call_FD c a ko m s : FD s -> FD (fst (do_call c a ko m s)) /\ nc (snd (do_call c a ko m s)).
Proof.
  intros H. unfold do_call. destruct (lookup (ret s) _) as [f|].
  - destruct (lookup (fdone s) f) as [[o t]|] eqn:D; simpl.
    + split; [exact H|]. intros i t' [E|[]]. injection E as _ E _. subst o. now apply (FD_lookup s f _ _ H D).
    + split; [exact H | apply nc_nil].
  - match goal with |- FD (fst (take c ?it ?s1)) /\ _ =>
      pose proof (take_fdone c it s1) as E; pose proof (take_os c it s1) as Hos end.
    split; [eapply FD_same; [exact E | exact H] | now apply nc_starts].
Qed.

Definition FDnc (s s' : state) (os : list obs) : Prop := nc os.

Lemma call_FD_ok c a ko m s : FD s -> FD (fst (do_call c a ko m s)) /\ FDnc s (fst (do_call c a ko m s)) (snd (do_call c a ko m s)).
Proof. apply do_call_FD. Qed.

Lemma wake_FD s : FD s -> FD (fst (wake s)) /\ nc (snd (wake s)).
Proof.
  intros H. unfold wake. pose proof (wake_from_spec (fdone s) (now s) (callers s) 0) as (_ & _ & Hw).
  destruct (wake_from _ _ _ _) as [cs os]. simpl in *. split; [exact H|].
  intros i t Hin. apply Hw in Hin as (j & cl & o & t0 & E & _ & _ & Lk). injection E as _ <- _.
  now apply (FD_lookup s _ _ _ H Lk).
Qed.

Lemma do_chain_FD c a ko m s : FD s -> FD (fst (do_chain c a ko m s)) /\ nc (snd (do_chain c a ko m s)).
Proof.
  apply (lift_chain c FD FDnc (fun _ _ => nc_nil) (fun _ _ _ o1 o2 => nc_app o1 o2) (call_FD_ok c)).
Qed.

Lemma do_calls_FD c l s : FD s -> FD (fst (do_calls c l s)) /\ nc (snd (do_calls c l s)).
Proof.
  apply (lift_calls c FD FDnc (fun _ _ => nc_nil) (fun _ _ _ o1 o2 => nc_app o1 o2) (call_FD_ok c)).
Qed.

Lemma wake_all_FD c s : FD s -> FD (fst (wake_all c s)) /\ nc (snd (wake_all c s)).
Proof.
  apply (lift_wake_all c FD FDnc (fun _ _ => nc_nil) (fun _ _ _ o1 o2 => nc_app o1 o2) (call_FD_ok c) wake_FD).
Qed.

Lemma resolve_FD c k f o s : o <> Cancelled -> FD s -> FD (resolve c k f o s).
Proof.
  intros Ho H. unfold resolve, FD. destruct (0 <? c_rt c)%N; simpl; intros f' o' t' [E|Hin]; eauto; congruence.
Qed.

Lemma fanout_FD c l o : o <> Cancelled -> forall s, FD s -> FD (fst (fanout c l o s)).
Proof.
  intros Ho. induction l as [|[k f] r IH]; intros s H; simpl; auto.
  unfold set_fut. destruct (is_done s f); simpl; auto. apply IH. now apply resolve_FD.
Qed.

Lemma end_batch_FD c B o s : o <> Cancelled -> FD s -> FD (fst (end_batch c B o s)) /\ nc (snd (end_batch c B o s)).
Proof.
  intros Ho H. unfold end_batch. set (s0 := set_running s _).
  pose proof (release_slot_sameC s0) as (_ & E1 & _). pose proof (release_slot_os s0) as O1.
  destruct (release_slot s0) as [s1 o1]. simpl in *.
  assert (H1 : FD s1) by (eapply FD_same; [exact E1 | exact H]).
  pose proof (fanout_FD c (b_futs B) o Ho s1 H1) as H2. destruct (fanout c (b_futs B) o s1) as [s2 died]. simpl in *.
  destruct (wake_all_FD c s2 H2) as [H3 N3]. destruct (wake_all c s2) as [s3 o3]. simpl in *.
  split; auto. apply nc_app; [now apply nc_starts|]. apply nc_app; auto.
  intros i t Hin. destruct died; [destruct Hin as [Hin|[]]; discriminate | destruct Hin].
Qed.

Lemma fire_at_fdone t s : fdone (fst (fire_at t s)) = fdone s.
Proof.
  unfold fire_at. set (s2 := set_rtimers _ _). destruct (coll s2) as [[its dl]|]; [|reflexivity].
  destruct (dl <=? t)%N; [|reflexivity].
  match goal with |- fdone (fst (dispatch its ?s3)) = _ => destruct (dispatch_sameC its s3) as (_ & E & _) end.
  rewrite E. reflexivity.
Qed.

Lemma advance_fdone fuel target : forall s, fdone (fst (advance fuel target s)) = fdone s.
Proof.
  induction fuel as [|n IH]; intros s; simpl; [reflexivity|].
  destruct (next_deadline s) as [t|]; [|reflexivity]. destruct (t <=? target)%N; [|reflexivity].
  pose proof (fire_at_fdone t s) as H1. destruct (fire_at t s) as [s1 o1].
  specialize (IH s1). destruct (advance n target s1) as [s2 o2]. simpl in *. congruence.
Qed.

Lemma of_res_nc r : of_res r <> Cancelled.
Proof. destruct r; discriminate. Qed.

Lemma step_FD c s e :
  FD s -> FD (fst (step c s e)) /\ forall i t, In (CallerDone i Cancelled t) (snd (step c s e)) -> e = Cancel i.
Proof.
  intros H.
  assert (X : forall s' os, FD s' /\ nc os -> FD s' /\ forall i t, In (CallerDone i Cancelled t) os -> e = Cancel i).
  { intros s' os [A Bq]. split; auto. intros i t Hin. now apply Bq in Hin. }
  destruct e as [a ko|a ko m|l|dt|b k r|b e|b|cid|n]; simpl.
  - apply X. now apply do_call_FD.
  - apply X. now apply do_chain_FD.
  - apply X. now apply do_calls_FD.
  - apply X. split; [|apply nc_starts, advance_os]. eapply FD_same; [apply advance_fdone | exact H].
  - apply X. destruct (find_batch s b) as [B|]; [|split; [exact H | apply nc_nil]].
    destruct (lookup (b_futs B) k) as [f|].
    + unfold set_fut. match goal with |- context [is_done ?s0 f] => destruct (is_done s0 f) end.
      * apply end_batch_FD; [discriminate | exact H].
      * apply wake_all_FD. apply resolve_FD; [apply of_res_nc | exact H].
    + apply end_batch_FD; [discriminate | exact H].
  - apply X. destruct (find_batch s b) as [B|]; [|split; [exact H | apply nc_nil]].
    apply end_batch_FD; [discriminate | exact H].
  - apply X. destruct (find_batch s b) as [B|]; [|split; [exact H | apply nc_nil]].
    apply end_batch_FD; [discriminate | exact H].
  - unfold cancel_caller. destruct (nth_error _ _) as [cl|]; [|split; [exact H | intros ? ? []]].
    destruct (cl_st cl); [split; [exact H | intros ? ? []]|]. simpl. split; [exact H|].
    intros i t [E|[]]. injection E as <- _. reflexivity.
  - split; [exact H | intros ? ? []].
Qed.

Lemma run_from_FD c evs : forall s, FD s ->
  forall i t, In (CallerDone i Cancelled t) (concat (fst (run_from c s evs))) -> In (Cancel i) evs.
Proof.
  induction evs as [|e r IH]; intros s H i t; simpl; [intros []|].
  destruct (step_FD c s e H) as [H1 N1]. destruct (step c s e) as [s1 o1]. simpl in *.
  specialize (IH s1 H1 i t). destruct (run_from c s1 r) as [tr s2]. simpl in *.
  intros Hin. apply in_app_or in Hin as [Hin|Hin]; [left; exact (N1 i t Hin) | right; auto].
Qed.

Lemma cancelled_only_by_cancel_lemma c evs i t :
  In (CallerDone i Cancelled t) (concat (fst (run c evs))) -> In (Cancel i) evs.
Proof. apply run_from_FD. intros ? ? ? []. Qed.

(* ==== C04 / C09 ===================================================================================== *)

(* what "the outcome the batch function produced for caller cl" means: the item
   that carries cl's future is in the started batch b, and b's log decides o for
   cl's key *)
Definition outcome_from_batch (s : state) (cl : caller) (o : outcome) : Prop :=
  exists it b its tb,
    In it (g_items s) /\ it_key it = cl_key cl /\ it_fid it = cl_fid cl /\
    In (b, its, tb) (g_started s) /\ In it its /\
    produced (blog_of b (g_blog s)) (map it_key its) (cl_key cl) o.

Lemma own_outcome_lemma c evs :
  cfg_ok c -> Forall ev_ok evs ->
  forall i o t, In (CallerDone i o t) (concat (fst (run c evs))) ->
  let s := snd (run c evs) in
  exists cl, nth_error (callers s) i = Some cl /\ cl_st cl = Some o /\
             cl_key cl = key_of (cl_arg cl) (cl_ko cl) /\
             ((o = Cancelled /\ In (Cancel i) evs) \/ outcome_from_batch s cl o).
Proof.
  intros Hc He i o t Hin s. destruct (run_all c evs Hc He) as (I & F & T & (S & K & C & W) & _). fold s in I, F, T, S, K, C, W.
  destruct (trace_done c evs i o t Hin) as (cl & Hn & St). fold s in Hn.
  pose proof (nth_error_In _ _ Hn) as Hcl.
  exists cl. split; auto. split; auto. split; [now apply (C_key _ C)|].
  destruct (C_out _ C cl o Hcl St) as [->|(t' & Hd)].
  - left. split; auto. eapply cancelled_only_by_cancel_lemma; eauto.
  - right. destruct (P_spec _ _ _ K _ _ _ Hd) as [(k & it & b & its & tb & A1 & A2 & A3 & A4 & A5) _].
    destruct (C_item _ C cl Hcl) as (it' & B1 & B2).
    assert (it = it').
    { eapply item_unique; eauto. unfold kf in *. injection A2. injection B2. congruence. }
    subst it'. unfold kf in *. injection A2 as E1 E2. injection B2 as E3 E4.
    exists it, b, its, tb. repeat split; auto. congruence.
Qed.

(* the batch that carried a future is unique *)
Lemma batch_of_unique_lemma c evs :
  cfg_ok c -> Forall ev_ok evs ->
  let s := snd (run c evs) in
  forall e1 e2 it1 it2, In e1 (g_started s) -> In e2 (g_started s) -> In it1 (st_items e1) -> In it2 (st_items e2) ->
    it_fid it1 = it_fid it2 -> e1 = e2 /\ it1 = it2.
Proof.
  intros Hc He s e1 e2 it1 it2 H1 H2 I1 I2 E.
  destruct (run_all c evs Hc He) as (I & F & T & (S & K & C & W) & _). fold s in I, F, T, S, K, C, W.
  assert (E12 : e1 = e2) by (eapply (place_started_started s e1 e2 it1 it2); eauto).
  split; auto. subst e2.
  apply (item_unique s it1 it2 S); [exact (started_sub s e1 it1 F H1 I1) | exact (started_sub s e1 it2 F H1 I2) | exact E].
Qed.

Definition located (s : state) (it : item) : Prop :=
  In it (coll_items s) \/ (exists w, In w (waiting s) /\ In it w) \/
  (exists B, In B (running s) /\ In it (b_items B) /\ lookup (b_futs B) (it_key it) = Some (it_fid it)).

Lemma undone_located c s it :
  LInv c s -> Fifo s -> SInv s -> PInv c s [] -> In it (g_items s) -> is_done s (it_fid it) = false -> located s it.
Proof.
  intros I F S K Hit Hd. rewrite (g_items_split s F) in Hit.
  apply in_app_or in Hit as [Hit|Hit]; [|apply in_app_or in Hit as [Hit|Hit]].
  - apply in_flat_map in Hit as ([[b its] t] & He & Hi). unfold st_items in Hi. simpl in Hi.
    destruct (in_dec Nat.eq_dec b (run_ids s)) as [Hin|Hnin].
    + apply in_map_iff in Hin as (B & Eb & HB). subst b.
      destruct (S_run _ S B HB) as (t' & He'). destruct (started_by_id s _ _ _ _ _ S He He') as [-> _].
      destruct (P_loc _ _ _ K B it HB Hi Hd) as [G|[]].
      right. right. exists B. repeat split; auto. apply In_lookup; auto. apply (S_fnd _ S B HB).
    + destruct (P_end _ _ _ K b its t it He Hnin Hi Hd).
  - apply in_concat in Hit as (w & Hw & Hi). right. left. eauto.
  - now left.
Qed.

(* a caller that still waits: its future is pending and the item of that future is
   in the open batch, in a batch queued on the semaphore, or in a running batch whose
   futs still maps the caller's key to that future *)
Lemma always_answered_inv_lemma c evs :
  cfg_ok c -> Forall ev_ok evs ->
  let s := snd (run c evs) in
  forall cl, In cl (callers s) -> cl_st cl = None ->
    is_done s (cl_fid cl) = false /\
    exists it, In it (g_items s) /\ it_key it = cl_key cl /\ it_fid it = cl_fid cl /\ located s it.
Proof.
  intros Hc He s cl Hcl St.
  destruct (run_all c evs Hc He) as (I & F & T & (S & K & C & W) & _). fold s in I, F, T, S, K, C, W.
  pose proof (W cl Hcl St) as Hd. split; auto.
  destruct (C_item _ C cl Hcl) as (it & Hit & E). unfold kf in E. injection E as E1 E2.
  exists it. split; [exact Hit|]. split; [exact E1|]. split; [exact E2|].
  apply (undone_located c s it I F S K Hit). congruence.
Qed.

Lemma no_task_died_lemma c evs :
  cfg_ok c -> Forall ev_ok evs -> ~ In TaskDied (concat (fst (run c evs))).
Proof. intros Hc He. destruct (run_all c evs Hc He) as (_ & _ & _ & _ & N). exact N. Qed.

(* ---- batch ids only grow: an ended batch never comes back ------------------------------------------ *)

Definition Ids (s s' : state) : Prop :=
  nbid s <= nbid s' /\ forall x, In x (run_ids s') -> In x (run_ids s) \/ nbid s <= x.

Lemma ids_refl s s' : running s' = running s -> nbid s' = nbid s -> Ids s s'.
Proof. intros E1 E2. unfold Ids, run_ids. rewrite E1, E2. split; auto. Qed.

Lemma ids_trans s1 s2 s3 : Ids s1 s2 -> Ids s2 s3 -> Ids s1 s3.
Proof.
  intros [A1 A2] [B1 B2]. split; [lia|]. intros x H. destruct (B2 x H) as [G|G]; [|right; lia].
  destruct (A2 x G); auto.
Qed.

Lemma start_batch_ids its s : Ids s (fst (start_batch its s)).
Proof.
  unfold start_batch, Ids, run_ids. simpl. split; [lia|]. intros x H. rewrite map_app in H.
  apply in_app_or in H as [H|[<-|[]]]; auto.
Qed.

Lemma dispatch_ids its s : Ids s (fst (dispatch its s)).
Proof.
  unfold dispatch. cbn [free set_spawn waiting]. destruct (0 <? free s).
  - match goal with |- Ids _ (fst (start_batch its ?s1)) => pose proof (start_batch_ids its s1) as H end. exact H.
  - now apply ids_refl.
Qed.

Lemma release_slot_ids s : Ids s (fst (release_slot s)).
Proof.
  unfold release_slot. destruct (waiting s) as [|w ws]; [now apply ids_refl|].
  pose proof (start_batch_ids w (set_waiting s ws)) as H. exact H.
Qed.

Lemma take_ids c it s : Ids s (fst (take c it s)).
Proof.
  unfold take. destruct (_ <? maxb s); [now apply ids_refl|].
  match goal with |- Ids _ (fst (dispatch ?x ?s1)) => pose proof (dispatch_ids x s1) as H end. exact H.
Qed.

Lemma do_call_ids c a ko m s : Ids s (fst (do_call c a ko m s)).
Proof.
  unfold do_call. destruct (lookup (ret s) _) as [f|].
  - destruct (lookup (fdone s) f) as [[o t]|]; now apply ids_refl.
  - match goal with |- Ids _ (fst (take c ?it ?s1)) => pose proof (take_ids c it s1) as H end. exact H.
Qed.

Lemma call_ids_ok c a ko m s :
  True -> True /\ (fun s s' (_ : list obs) => Ids s s') s (fst (do_call c a ko m s)) (snd (do_call c a ko m s)).
Proof. intros _. split; auto. apply do_call_ids. Qed.

Lemma wake_all_ids c s : Ids s (fst (wake_all c s)).
Proof.
  apply (lift_wake_all c (fun _ => True) (fun s s' _ => Ids s s') (fun s _ => ids_refl s s eq_refl eq_refl)
           (fun s1 s2 s3 _ _ => ids_trans s1 s2 s3) (call_ids_ok c)); auto.
  intros s0 _. split; auto. unfold wake. destruct (wake_from _ _ _ _). now apply ids_refl.
Qed.

Lemma fanout_ids c l o : forall s, Ids s (fst (fanout c l o s)).
Proof.
  intros s. destruct (fanout_sameS c l o s) as (_ & _ & _ & E4 & E5 & _). now apply ids_refl.
Qed.

Lemma end_batch_ids c B o s x :
  LInv c s -> In B (running s) -> In x (run_ids (fst (end_batch c B o s))) -> (In x (run_ids s) /\ x <> b_id B) \/ nbid s <= x.
Proof.
  intros I HB. unfold end_batch. set (s0 := set_running s _).
  pose proof (release_slot_ids s0) as D1. destruct (release_slot s0) as [s1 o1]. simpl in *.
  pose proof (fanout_ids c (b_futs B) o s1) as D2. destruct (fanout c (b_futs B) o s1) as [s2 died]. simpl in *.
  pose proof (wake_all_ids c s2) as D3. destruct (wake_all c s2) as [s3 o3]. simpl in *.
  pose proof (ids_trans _ _ _ D1 (ids_trans _ _ _ D2 D3)) as [_ D]. intros H.
  destruct (D x H) as [G|G]; [|right; exact G]. left. unfold run_ids, s0 in G. simpl in G.
  now apply in_filter_ids in G.
Qed.

Lemma find_batch_in c s B : LInv c s -> In B (running s) -> find_batch s (b_id B) = Some B.
Proof.
  intros I HB. pose proof (L_ids _ _ I) as ND. unfold find_batch.
  induction (running s) as [|y r IH]; simpl in *; [contradiction|].
  inversion ND as [|? ? Hn ND']; subst. destruct HB as [->|HB].
  - now rewrite Nat.eqb_refl.
  - destruct (Nat.eqb_spec (b_id y) (b_id B)) as [E|N]; auto.
    exfalso. apply Hn. rewrite E. now apply in_map.
Qed.

Lemma run_snoc c evs e : snd (run c (evs ++ [e])) = fst (step c (snd (run c evs)) e).
Proof.
  unfold run. generalize (init c). induction evs as [|e0 r IH]; intros s0; simpl.
  - destruct (step c s0 e). reflexivity.
  - destruct (step c s0 e0) as [s1 o1]. specialize (IH s1). destruct (run_from c s1 r) as [tr s2].
    destruct (run_from c s1 (r ++ [e])) as [tr' s2']. simpl in *. exact IH.
Qed.

(* after the batch function of batch b has returned or raised, every item of b is answered *)
Lemma batch_end_answers_lemma c evs b e :
  cfg_ok c -> Forall ev_ok evs -> (e = BFinish b \/ exists x, e = BRaise b x) ->
  let s := snd (run c evs) in
  forall B, find_batch s b = Some B ->
  let s' := snd (run c (evs ++ [e])) in
  (forall it, In it (b_items B) -> is_done s' (it_fid it) = true) /\
  (forall cl it, In cl (callers s') -> In it (b_items B) -> cl_fid cl = it_fid it -> cl_st cl <> None).
Proof.
  intros Hc He Hev s B FB s'.
  assert (He' : Forall ev_ok (evs ++ [e])).
  { apply Forall_app. split; auto. constructor; auto. destruct Hev as [->|(x & ->)]; exact Logic.I. }
  destruct (run_all c evs Hc He) as (I & F & T & (S & K & C & W) & _). fold s in I, F, T, S, K, C, W.
  destruct (run_all c (evs ++ [e]) Hc He') as (I' & F' & T' & (S' & K' & C' & W') & _). fold s' in I', F', T', S', K', C', W'.
  apply find_batch_some in FB as [HB Hid]. subst b.
  assert (Es' : s' = fst (step c s e)) by apply run_snoc.
  destruct (S_run _ S B HB) as (tB & HeB).
  assert (Hst : In (b_id B, b_items B, tB) (g_started s')).
  { rewrite Es'. destruct (step_emits c s e) as (new & A & _). rewrite A. apply in_or_app. now left. }
  assert (Hnr : ~ In (b_id B) (run_ids s')).
  { rewrite Es'. intros Hin.
    assert (G : (In (b_id B) (run_ids s) /\ b_id B <> b_id B) \/ nbid s <= b_id B).
    { destruct Hev as [->|(x & ->)]; simpl in Hin; rewrite (find_batch_in c s B I HB) in Hin;
        (match type of Hin with In _ (run_ids (fst (end_batch c B ?o ?s0))) =>
           apply (end_batch_ids c B o s0 (b_id B)); [destruct I; constructor; auto | exact HB | exact Hin] end). }
    destruct G as [[_ G]|G]; [congruence|]. pose proof (L_idlt _ _ I B HB). lia. }
  assert (Hall : forall it, In it (b_items B) -> is_done s' (it_fid it) = true).
  { intros it Hit. destruct (is_done s' (it_fid it)) eqn:D; auto.
    destruct (P_end _ _ _ K' _ _ _ it Hst Hnr Hit D). }
  split; auto. intros cl it Hcl Hit E St. pose proof (W' cl Hcl St) as D. rewrite E, (Hall it Hit) in D. discriminate.
Qed.

(* ==== C11 ============================================================================================ *)

Lemma no_dup_key_in_batch_lemma c evs :
  cfg_ok c -> Forall ev_ok evs ->
  forall b items t, In (BatchStart b items t) (concat (fst (run c evs))) -> NoDup (map fst items).
Proof.
  intros Hc He b items t H. destruct (in_trace_start c evs b items t H) as (its & Hin & ->).
  destruct (run_all c evs Hc He) as (_ & _ & _ & (S & _) & _).
  rewrite map_map. simpl. apply (S_kst _ S _ _ _ Hin).
Qed.

(* (k, f) is a pending request: in the open batch, in a queued batch, or in the futs of a running batch *)
Definition pending_at (s : state) (k f : nat) : Prop :=
  (exists it, In it (coll_items s) /\ kf it = (k, f)) \/
  (exists w it, In w (waiting s) /\ In it w /\ kf it = (k, f)) \/
  (exists B, In B (running s) /\ In (k, f) (b_futs B)).

Lemma pending_pend c s k f : PInv c s [] -> pending_at s k f -> pend s k f.
Proof.
  intros K [(it & H & E)|[(w & it & Hw & H & E)|(B & HB & H)]].
  - unfold kf in E. injection E as <- <-. now apply (P_coll _ _ _ K).
  - unfold kf in E. injection E as <- <-. now apply (P_wait _ _ _ K w).
  - now apply (P_run _ _ _ K B).
Qed.

Lemma pending_key_unique_lemma c evs :
  cfg_ok c -> Forall ev_ok evs ->
  let s := snd (run c evs) in
  (forall k f, pending_at s k f -> is_done s f = false /\ lookup (ret s) k = Some f) /\
  (forall k f1 f2, pending_at s k f1 -> pending_at s k f2 -> f1 = f2).
Proof.
  intros Hc He s. destruct (run_all c evs Hc He) as (_ & _ & _ & (S & K & _) & _). fold s in S, K.
  split.
  - intros k f H. now apply (pending_pend c s k f K).
  - intros k f1 f2 H1 H2. destruct (pending_pend c s k f1 K H1) as [_ A]. destruct (pending_pend c s k f2 K H2) as [_ B].
    congruence.
Qed.

(* the retention cache holds key k exactly while the request for k is pending or was
   completed less than retention_timeout ago *)
Lemma ret_window_lemma c evs :
  cfg_ok c -> Forall ev_ok evs ->
  let s := snd (run c evs) in
  (forall k f, lookup (ret s) k = Some f ->
     (exists it, In it (g_items s) /\ it_key it = k /\ it_fid it = f) /\
     (is_done s f = false \/ exists o t, lookup (fdone s) f = Some (o, t) /\ (t <= now s < t + c_rt c)%N)) /\
  (forall it, In it (g_items s) -> is_done s (it_fid it) = false -> lookup (ret s) (it_key it) = Some (it_fid it)) /\
  (forall it o t, In it (g_items s) -> lookup (fdone s) (it_fid it) = Some (o, t) -> (now s < t + c_rt c)%N ->
     lookup (ret s) (it_key it) = Some (it_fid it)).
Proof.
  intros Hc He s. destruct (run_all c evs Hc He) as (I & F & T & (S & K & _) & _). fold s in I, F, T, S, K.
  split; [|split].
  - intros k f H. destruct (P_ret _ _ _ K k f H) as (it & Hit & E). unfold kf in E. injection E as E1 E2.
    split; [eauto|]. unfold is_done. destruct (lookup (fdone s) f) as [[o t]|] eqn:D; auto. right.
    destruct (P_rdone _ _ _ K k f o t H D) as [G1 G2]. apply (T_rt _ _ T) in G2.
    destruct (P_spec _ _ _ K f o t D) as [_ G3]. exists o, t. split; auto.
  - intros it Hit Hd. destruct (undone_located c s it I F S K Hit Hd) as [H|[(w & Hw & H)|(B & HB & H & L)]].
    + apply (P_coll _ _ _ K it H).
    + apply (P_wait _ _ _ K w it Hw H).
    + apply lookup_In in L. apply (P_run _ _ _ K B _ _ HB L).
  - apply (P_win _ _ _ K).
Qed.

(* a call whose key is in the retention cache adds no work and joins that future (any state) *)
Lemma shared_in_window_lemma c s a ko f :
  lookup (ret s) (key_of a ko) = Some f ->
  let r := step c s (Call a ko) in
  g_items (fst r) = g_items s /\ nfut (fst r) = nfut s /\ g_started (fst r) = g_started s /\
  exists cl, callers (fst r) = callers s ++ [cl] /\ cl_fid cl = f /\ cl_key cl = key_of a ko /\
    match lookup (fdone s) f with
    | Some (o, _) => snd r = [CallerDone (length (callers s)) o (now s)] /\ cl_st cl = Some o
    | None => snd r = [] /\ cl_st cl = None
    end.
Proof.
  intros R. simpl. unfold do_call. rewrite R.
  destruct (lookup (fdone s) f) as [[o t]|]; simpl; repeat split; eexists; repeat split.
Qed.

Lemma take_nfut c it s : nfut (fst (take c it s)) = nfut s.
Proof.
  unfold take. destruct (_ <? maxb s); [reflexivity|].
  unfold dispatch. cbn [free set_spawn waiting]. destruct (0 <? _); reflexivity.
Qed.

(* a call whose key is not in the cache creates a new request (any state satisfying LInv) *)
Lemma fresh_call_lemma c s a ko :
  LInv c s -> lookup (ret s) (key_of a ko) = None ->
  let s' := fst (step c s (Call a ko)) in
  let it := mkitem (key_of a ko) a (nfut s) (now s) (maxb s) in
  g_items s' = g_items s ++ [it] /\ nfut s' = S (nfut s) /\
  exists cl, callers s' = callers s ++ [cl] /\ cl_fid cl = nfut s /\ cl_key cl = key_of a ko /\ cl_st cl = None.
Proof.
  intros I R. simpl. unfold do_call. rewrite R.
  match goal with |- context [take c ?it ?s1] =>
    assert (I1 : LInv c s1) by (destruct I; constructor; auto);
    destruct (take_ghost c it s1 I1) as (_ & G2 & _);
    pose proof (take_sameC c it s1) as (C1 & _);
    pose proof (take_nfut c it s1) as N1
  end.
  rewrite G2, N1, C1. simpl. repeat split. eexists. repeat split.
Qed.

(* after the window (or, with retention 0, once answered) the key is forgotten *)
Lemma fresh_after_window_lemma c evs k :
  cfg_ok c -> Forall ev_ok evs ->
  let s := snd (run c evs) in
  (forall it, In it (g_items s) -> it_key it = k ->
     exists o t, lookup (fdone s) (it_fid it) = Some (o, t) /\ (t + c_rt c <= now s)%N) ->
  lookup (ret s) k = None.
Proof.
  intros Hc He s Hall. destruct (run_all c evs Hc He) as (I & F & T & (S & K & _) & _). fold s in I, F, T, S, K.
  destruct (lookup (ret s) k) as [f|] eqn:R; auto. exfalso.
  destruct (P_ret _ _ _ K k f R) as (it & Hit & E). unfold kf in E. injection E as E1 E2.
  destruct (Hall it Hit E1) as (o & t & D & Hle). rewrite E2 in D.
  destruct (P_rdone _ _ _ K k f o t R D) as [_ G]. apply (T_rt _ _ T) in G. lia.
Qed.

(* every batch starts no earlier than the arrival of each of its items *)
Lemma batch_starts_after_arrival_lemma c evs :
  cfg_ok c -> Forall ev_ok evs ->
  let s := snd (run c evs) in
  forall b its tb it, In (b, its, tb) (g_started s) -> In it its -> (it_t it <= tb)%N.
Proof.
  intros Hc He s b its tb it Hin Hit.
  destruct (dispatch_deadline_lemma c evs Hc He) as (_ & _ & D3 & D4 & D5 & _). fold s in D3, D4, D5.
  apply In_nth_error in Hin as (i & Hi).
  assert (L : i < length (g_spawn s)).
  { apply (f_equal (@length _)) in D4. rewrite app_length, !map_length in D4.
    assert (i < length (g_started s)) by (apply nth_error_Some; congruence). lia. }
  destruct (nth_error (g_spawn s) i) as [[its' sp]|] eqn:E; [|apply nth_error_None in E; lia].
  destruct (D5 i its' sp b its tb E Hi) as [E1 Hle]. subst its'.
  destruct (D3 its sp (nth_error_In _ _ E)) as (x & [_ Hl] & _ & [Hx _] & _).
  specialize (Hl it Hit). lia.
Qed.

(* every armed retention timer was armed for the future that is currently cached
   under its key (so it can only evict that entry, and its pop finds the key) *)
Lemma ret_timer_sound_lemma c evs :
  cfg_ok c -> Forall ev_ok evs ->
  let s := snd (run c evs) in
  forall dl k, In (dl, k) (rtimers s) ->
    exists f o t, lookup (ret s) k = Some f /\ lookup (fdone s) f = Some (o, t) /\
                  dl = (t + c_rt c)%N /\ (now s < dl)%N.
Proof.
  intros Hc He s dl k H. destruct (run_all c evs Hc He) as (_ & _ & T & (_ & K & _) & _). fold s in T, K.
  destruct (P_timer _ _ _ K dl k H) as (f & o & t & A & B & C & _). apply (T_rt _ _ T) in H. eauto 8.
Qed.

(* ==== C09: the batcher keeps serving ================================================================== *)

Lemma run_app2 c evs e1 e2 :
  snd (run c (evs ++ [e1; e2])) = fst (step c (fst (step c (snd (run c evs)) e1)) e2).
Proof.
  replace (evs ++ [e1; e2]) with ((evs ++ [e1]) ++ [e2]) by (rewrite <- app_assoc; reflexivity).
  now rewrite !run_snoc.
Qed.

Lemma total_adv_app l1 l2 : total_adv (l1 ++ l2) = (total_adv l1 + total_adv l2)%N.
Proof. unfold total_adv. induction l1 as [|e r IH]; simpl; [reflexivity|]. rewrite IH. lia. Qed.

Lemma fire_at_gitems t s : g_items (fst (fire_at t s)) = g_items s.
Proof.
  unfold fire_at. set (s2 := set_rtimers _ _). destruct (coll s2) as [[its dl]|]; [|reflexivity].
  destruct (dl <=? t)%N; [|reflexivity].
  match goal with |- g_items (fst (dispatch its ?s3)) = _ => destruct (dispatch_sameC its s3) as (_ & _ & E) end.
  rewrite E. reflexivity.
Qed.

Lemma advance_gitems fuel target : forall s, g_items (fst (advance fuel target s)) = g_items s.
Proof.
  induction fuel as [|n IH]; intros s; simpl; [reflexivity|].
  destruct (next_deadline s) as [t|]; [|reflexivity]. destruct (t <=? target)%N; [|reflexivity].
  pose proof (fire_at_gitems t s) as H1. destruct (fire_at t s) as [s1 o1].
  specialize (IH s1). destruct (advance n target s1) as [s2 o2]. simpl in *. congruence.
Qed.

(* every item arrived no later than now *)
Lemma items_in_past_lemma c evs :
  cfg_ok c -> Forall ev_ok evs -> let s := snd (run c evs) in forall it, In it (g_items s) -> (it_t it <= now s)%N.
Proof.
  intros Hc He s it Hit. destruct (dispatch_deadline_lemma c evs Hc He) as (_ & D2 & D3 & _). fold s in D2, D3.
  destruct (run_all c evs Hc He) as (_ & _ & T & _). fold s in T.
  destruct (D2 it Hit) as [H|(its & sp & Hsp & Hin)].
  - unfold coll_items in H. destruct (coll s) as [[its dl]|] eqn:C; [|contradiction].
    destruct (T_coll _ _ T its dl C) as (x & [_ Hl] & _ & _ & Hx & _). specialize (Hl it H). lia.
  - destruct (D3 its sp Hsp) as (x & [_ Hl] & _ & [Hx _] & Hn). specialize (Hl it Hin). lia.
Qed.

(* after ANY event list (with arbitrary cancellations): a call with a key that is not
   remembered, followed by batch_timeout ticks, has been handed to the batch function by
   then — or all max_concurrent_batches slots are taken and it is queued for the next one *)
Lemma keeps_serving_lemma c evs a ko :
  cfg_ok c -> Forall ev_ok evs -> (0 < c_bt c)%N ->
  let s := snd (run c evs) in
  lookup (ret s) (key_of a ko) = None ->
  let evs2 := evs ++ [Call a ko; Advance (c_bt c)] in
  let s2 := snd (run c evs2) in
  let it := mkitem (key_of a ko) a (nfut s) (now s) (maxb s) in
  In it (g_items s2) /\
  ((exists b its t, In (BatchStart b (map ka its) t) (concat (fst (run c evs2))) /\ In it its) \/
   (length (running s2) = c_conc c /\ exists w, In w (waiting s2) /\ In it w)).
Proof.
  intros Hc He Hbt s R evs2 s2 it.
  assert (He1 : Forall ev_ok (evs ++ [Call a ko])) by (apply Forall_app; split; auto; repeat constructor).
  assert (He2 : Forall ev_ok evs2) by (apply Forall_app; split; auto; repeat constructor).
  destruct (run_all c evs Hc He) as (I & F & T & KK & _). fold s in I, F, T, KK.
  destruct (fresh_call_lemma c s a ko I R) as (G1 & _). fold it in G1.
  set (s1 := fst (step c s (Call a ko))) in *.
  assert (Es1 : snd (run c (evs ++ [Call a ko])) = s1) by apply run_snoc.
  assert (Es2 : s2 = fst (step c s1 (Advance (c_bt c)))) by apply run_app2.
  assert (Gi : g_items s2 = g_items s1) by (rewrite Es2; apply advance_gitems).
  assert (Hit2 : In it (g_items s2)).
  { rewrite Gi, G1. apply in_or_app. right. now left. }
  split; auto.
  destruct (dispatch_deadline_lemma c evs2 Hc He2) as (D1 & D2 & D3 & D4 & D5 & D6). fold s2 in D1, D2, D3, D4, D5, D6.
  destruct (clock_exact_lemma c evs2) as [_ Hnow2]. fold s2 in Hnow2.
  destruct (clock_exact_lemma c evs) as [_ Hnow]. fold s in Hnow.
  destruct (clock_exact_lemma c (evs ++ [Call a ko])) as [_ Hnow1]. rewrite Es1 in Hnow1.
  assert (Hn1 : now s1 = now s).
  { rewrite Hnow1, Hnow, total_adv_app. unfold total_adv. simpl. lia. }
  assert (Hn2 : now s2 = (now s + c_bt c)%N).
  { rewrite Hnow2, Hnow. unfold evs2. rewrite total_adv_app. unfold total_adv at 2. simpl. lia. }
  destruct (D2 it Hit2) as [Hc2|(its & sp & Hsp & Hin)].
  - (* still in the open batch: impossible, its deadline would have passed *)
    exfalso. unfold coll_items in Hc2. destruct (coll s2) as [[its dl]|] eqn:C2; [|contradiction].
    destruct (D1 its dl eq_refl) as (x & [[pre Ep] _] & Hdl & _ & Hlt). specialize (Hlt Hbt).
    assert (Hx : In x (g_items s1)).
    { rewrite <- Gi. destruct (run_all c evs2 Hc He2) as (_ & F2 & _). fold s2 in F2.
      apply (coll_sub s2 x F2). unfold coll_items. rewrite C2, Ep. apply in_or_app. right. now left. }
    pose proof (items_in_past_lemma c (evs ++ [Call a ko]) Hc He1) as Hpast. rewrite Es1 in Hpast.
    specialize (Hpast x Hx). lia.
  - assert (Hl : In its (map st_items (g_started s2) ++ waiting s2)).
    { rewrite <- D4. apply in_map_iff. exists (its, sp). auto. }
    apply in_app_or in Hl as [Hl|Hl].
    + left. apply in_map_iff in Hl as ([[b its'] t] & E & Hst). unfold st_items in E. simpl in E. subst its'.
      exists b, its, t. split; auto.
      assert (Hf : In (BatchStart b (map ka its) t) (filter is_start (concat (fst (run c evs2))))).
      { rewrite trace_starts. apply in_map_iff. exists (b, its, t). auto. }
      apply filter_In in Hf. tauto.
    + right. split; [|eauto]. apply D6. intros E. rewrite E in Hl. contradiction.
Qed.

(* ---- C04's form: event lists without Cancel ------------------------------------------------------ *)

Definition no_cancel (evs : list event) : Prop := forall i, ~ In (Cancel i) evs.

Lemma own_outcome_nocancel_lemma c evs :
  cfg_ok c -> Forall ev_ok evs -> no_cancel evs ->
  forall i o t, In (CallerDone i o t) (concat (fst (run c evs))) ->
  let s := snd (run c evs) in
  exists cl, nth_error (callers s) i = Some cl /\ cl_st cl = Some o /\
             cl_key cl = key_of (cl_arg cl) (cl_ko cl) /\ outcome_from_batch s cl o.
Proof.
  intros Hc He Hn i o t H.
  destruct (own_outcome_lemma c evs Hc He i o t H) as (cl & A & B & C & [[_ D]|D]); [now apply Hn in D | eauto].
Qed.

(* the pop of an armed retention timer finds its key (no KeyError in a timer callback) *)
Lemma ret_pop_defined_lemma c evs :
  cfg_ok c -> Forall ev_ok evs ->
  let s := snd (run c evs) in
  forall dl k, In (dl, k) (rtimers s) -> lookup (ret s) k <> None.
Proof.
  intros Hc He s dl k H. destruct (ret_timer_sound_lemma c evs Hc He dl k H) as (f & _ & _ & E & _).
  fold s in E. congruence.
Qed.
