(* Case_C17.v — correspondence cases and trace monitor for C17 (cross-loop awaiting).
   A case = the scenario (mode, awaitable scripts and forms) + what the gated harness
   observed on the real code: the totally ordered log of visible operations, the
   controller's verdict (0 ok / 1 deadlock / 2 step bound), the number of harness
   threads that died with an exception, and the violation tags computed by the Python
   mirror of the monitor (they name the canonical signature used for known findings).
   agree = the model (XLoop.step) accepts the whole log, ends in a state that matches the
   verdict (ok: every thread ran to its end; deadlock: nothing is enabled in the model
   either), and Coq's monitor yields the same tags as the Python mirror.
   ok    = the monitor, which never consults the model, finds no violation.
   No proofs here; see XLoopInv.v / XLoopLive.v / Case_C17_Complete.v / props/C17.v. *)
From Coq Require Import List Arith NArith Bool.
Import ListNotations.
Require Import Aiuti.CaseLib Aiuti.XLoop.

Record case := mkcase {
  k_mode : mode;
  k_aws : list (bool * option N * form);     (* per caller: raises?, sleep, form *)
  k_log : list event;
  k_res : nat;
  k_texc : nat;
  k_pytags : list nat
}.

Definition cfg_of (k : case) : cfg := mk_cfg (k_mode k) (k_aws k).

(* ---- the monitor: the property decided on the observed log -------------------- *)

(* violation tags *)
Definition T_outcome := 1.      (* a caller's outcome is not its awaitable's / closed target did not raise RuntimeError / open target did *)
Definition T_offloop := 2.      (* an awaitable step ran outside L or on a thread that is not running L *)
Definition T_tworunners := 3.   (* a thread entered L.run_forever while another was inside ("already running") *)
Definition T_twolocks := 4.     (* a second lock created for L / the table returned a different lock *)
Definition T_lit := 5.          (* loop_in_thread returned while L was not running *)
Definition T_stop := 6.         (* stop() returned while the forever-thread still ran L / its job had not ended *)
Definition T_lockdisc := 7.     (* pool thread runs L without holding L's lock / releases it while inside / lock held twice *)
Definition T_block := 8.        (* a thread blocked on the concurrent future instead of awaiting it *)
Definition T_stuck_k1 := 10.    (* deadlock; a stuck caller scheduled its awaitable on L while L was BORROWED (K1) *)
Definition T_stuck_other := 11. (* deadlock or missing completion of any other shape *)
Definition T_steps := 12.       (* step bound hit *)
Definition T_texc := 13.        (* a harness thread died with an exception *)
Definition all_tags := [1; 2; 3; 4; 5; 6; 7; 8; 10; 11; 12; 13].

Record mst := mkm {
  m_ins : list tid;              (* threads inside run_forever *)
  m_own : list (nat * tid);      (* lock -> holder *)
  m_lock : option nat;           (* first lock created for L *)
  m_xb : list nat;               (* callers that saw L running while a borrower (TJ _) ran it *)
  m_done : list nat;
  m_tags : list nat
}.

Definition mem_tid (t : tid) (l : list tid) : bool := existsb (tid_eqb t) l.
Definition mem_nat (n : nat) (l : list nat) : bool := existsb (Nat.eqb n) l.
Definition is_helper (t : tid) : bool := match t with TJM | TJ _ => true | _ => false end.
Definition holds_loop_lock (own : list (nat * tid)) (t : tid) : bool :=
  existsb (fun p => negb (Nat.eqb (fst p) 0) && tid_eqb (snd p) t) own.
Definition lock_held (own : list (nat * tid)) (l : nat) : bool := existsb (fun p => Nat.eqb (fst p) l) own.
Fixpoint drop_lock (l : nat) (own : list (nat * tid)) : list (nat * tid) :=
  match own with
  | [] => []
  | p :: r => if Nat.eqb (fst p) l then r else p :: drop_lock l r
  end.
Definition addtag (b : bool) (t : nat) (m : mst) : mst :=
  if b then mkm (m_ins m) (m_own m) (m_lock m) (m_xb m) (m_done m) (t :: m_tags m) else m.

Definition outcome_ok (c : cfg) (i : nat) (o : outcome) : bool :=
  match c_mode c with
  | MClosed => okind_eqb (fst o) KLibRT
  | _ => outcome_eqb o (expected c i)
  end.

Definition mon_step (c : cfg) (m : mst) (e : event) : mst :=
  let '(t, o) := e in
  match o with
  | OEnter k =>
      let m1 := addtag (negb (Nat.eqb k 0) || negb (is_none (hd_error (m_ins m)))) T_tworunners m in
      let m2 := addtag (is_helper t && negb (holds_loop_lock (m_own m) t)) T_lockdisc m1 in
      mkm (m_ins m2 ++ [t]) (m_own m2) (m_lock m2) (m_xb m2) (m_done m2) (m_tags m2)
  | OExit => mkm (remove_tid t (m_ins m)) (m_own m) (m_lock m) (m_xb m) (m_done m) (m_tags m)
  | OAcq l =>
      let m1 := addtag (lock_held (m_own m) l) T_lockdisc m in
      mkm (m_ins m1) ((l, t) :: m_own m1) (m_lock m1) (m_xb m1) (m_done m1) (m_tags m1)
  | ORel l =>
      let m1 := addtag (mem_tid t (m_ins m) && negb (Nat.eqb l 0)) T_lockdisc m in
      mkm (m_ins m1) (drop_lock l (m_own m1)) (m_lock m1) (m_xb m1) (m_done m1) (m_tags m1)
  | OMklock l =>
      match m_lock m with
      | None => mkm (m_ins m) (m_own m) (Some l) (m_xb m) (m_done m) (m_tags m)
      | Some _ => addtag true T_twolocks m
      end
  | OTbl (Some l) => addtag (negb (optnat_eqb (m_lock m) (Some l))) T_twolocks m
  | OStart i onl | OFin i onl => addtag (negb onl || negb (mem_tid t (m_ins m))) T_offloop m
  | ODone i o =>
      let m1 := addtag (mem_nat i (m_done m) || negb (outcome_ok c i o)) T_outcome m in
      mkm (m_ins m1) (m_own m1) (m_lock m1) (m_xb m1) (i :: m_done m1) (m_tags m1)
  | OChk true =>
      match t, hd_error (m_ins m) with
      | TC i, Some (TJ _) => mkm (m_ins m) (m_own m) (m_lock m) (i :: m_xb m) (m_done m) (m_tags m)
      | _, _ => m
      end
  | OLitret b => addtag (negb b || is_none (hd_error (m_ins m))) T_lit m
  | OStopret r j =>
      addtag (negb j || mem_tid TJM (m_ins m)
              || (r && match c_mode c with MRace => false | _ => true end)) T_stop m
  | OBlock => addtag true T_block m
  | _ => m
  end.

Definition mon_init : mst := mkm [] [] None [] [] [].

Definition stuck_tags (c : cfg) (m : mst) : list nat :=
  let st := filter (fun i => negb (mem_nat i (m_done m))) (seq 0 (c_n c)) in
  match st with
  | [] => [T_stuck_other]
  | _ => map (fun i => if mem_nat i (m_xb m) then T_stuck_k1 else T_stuck_other) st
  end.

Definition mon_tags (k : case) : list nat :=
  let c := cfg_of k in
  let m := fold_left (mon_step c) (k_log k) mon_init in
  let fin :=
    match k_res k with
    | 0 => if forallb (fun i => mem_nat i (m_done m)) (seq 0 (c_n c)) then [] else [T_stuck_other]
    | 1 => stuck_tags c m
    | _ => [T_steps]
    end in
  let raw := (if Nat.eqb (k_texc k) 0 then [] else [T_texc]) ++ fin ++ m_tags m in
  filter (fun t => mem_nat t raw) all_tags.

Definition ok (k : case) : bool := match mon_tags k with [] => true | _ => false end.

(* ---- agreement with the model ---------------------------------------------------- *)

Definition final_ok (c : cfg) (s : state) (r : nat) : bool :=
  match r with
  | 0 => all_ended c s
  | 1 => match enabled c s with [] => true | _ => false end
  | _ => false
  end.

Definition model_accepts (k : case) : bool :=
  match run (cfg_of k) (k_log k) with
  | Some s => final_ok (cfg_of k) s (k_res k)
  | None => false
  end.

Definition agree (k : case) : bool :=
  model_accepts k && list_eqb Nat.eqb (mon_tags k) (k_pytags k).

Definition count_op (f : op -> bool) (l : list event) : nat := length (filter (fun e => f (snd e)) l).
(* non-trivial: somebody ran the target loop for at least two callers that finished *)
Definition nontrivial (k : case) : bool :=
  (1 <=? count_op (fun o => match o with OEnter _ => true | _ => false end) (k_log k))
  && (2 <=? count_op (fun o => match o with ODone _ _ => true | _ => false end) (k_log k)).

Definition verdict := verdict3 agree ok nontrivial.

(* for replays: (events accepted before the first rejection, log length, model's verdict
   on the final state, Coq's tags, what is enabled in the model at the end) *)
Definition explain (k : case) :=
  let c := cfg_of k in
  (accepted_prefix c (init c) (k_log k), length (k_log k), model_accepts k, mon_tags k,
   match run c (k_log k) with Some s => enabled c s | None => [] end).
