(* ParseSrc.v — the syntactic shape of aiuti/parsing.py:parse_to_dict that the
   model Parse.v was written for, in the vocabulary of the translator
   harness/c19_translate.py (parameters of the inner functions are a0, a1;
   their assigned locals t0, t1).  props/C19.v proves that the facts freshly
   extracted from the source (gen/T_ParseDefaults.v) equal this tuple, so a
   source edit that changes any of them breaks a proof obligation.

   fact                      model counterpart in Parse.v
   ------------------------  ------------------------------------------------
   default_sep "="           driver omits sep= when the case uses the defaults
   default_parse             the oracle of default-parser cases is ast.literal_eval
   default_parse_keys true   driver omits parse_keys= when the case uses the defaults
   try_parse_*               try_parse: only OStr reaches the oracle; ANY failure
                             of the oracle (BARE except) keeps the original
   parse_tuple_when_*        parse_tuple: keys parsed iff parse_keys
   split_method/args         split_py = split at the FIRST occurrence, maxsplit 1
   split_catches/raises      a missing separator is ErrNotKV (a ValueError)
   other_item_result         IPair k v is used as is
   mapping_conversion        mappings arrive as their .items()
   result_expr               build: lazy, one item at a time, into a dict *)
From Coq Require Import String List.
Import ListNotations.
Local Open Scope string_scope.

Definition modelled_facts :=
  ("=",                                   (* default_sep *)
   "ast.literal_eval",                    (* default_parse *)
   "import ast",                          (* default_parse_binding *)
   true,                                  (* default_parse_keys *)
   "isinstance(a0, str)",                 (* try_parse_guard *)
   "parse(a0)",                           (* try_parse_attempt *)
   ["BARE"],                              (* try_parse_catches *)
   "a0",                                  (* try_parse_fallback *)
   "parse_keys",                          (* parse_tuple_switch *)
   ["try_parse(a0)"; "try_parse(a1)"],    (* parse_tuple_when_true *)
   ["a0"; "try_parse(a1)"],               (* parse_tuple_when_false *)
   "isinstance(a0, str)",                 (* str_item_guard *)
   "a0",                                  (* split_receiver *)
   "split",                               (* split_method *)
   ["sep"; "1"],                          (* split_args *)
   ["t0"; "t1"],                          (* split_targets *)
   ["ValueError"],                        (* split_catches *)
   "ValueError",                          (* split_raises *)
   "parse_tuple(t0, t1)",                 (* str_item_result *)
   "parse_tuple( *a0)",                   (* other_item_result *)
   "items = items.items()",               (* mapping_conversion *)
   ["AttributeError"],                    (* mapping_catches *)
   "dict(map(parse_pair, items))").       (* result_expr *)
