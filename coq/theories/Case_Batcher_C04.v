(* Case_Batcher_C04.v — COMPLETENESS of the full monitor ok_C04 on event lists
   without Chain events: for every configuration and every such event list the
   monitor accepts the canonical trace of the model together with the model's list of
   callers still waiting ([ok_C04_complete]).  On top of the simulation of
   Case_Batcher_C11.v: the monitor's calls mirror the callers one by one (key, done or
   not), m_last holds the outcome of the latest request of every key whose request is
   done, m_idle bounds the age of every request.  The model-side facts are those of
   props/C04.v: a waiting caller's future is pending and located (always_answered_inv),
   [wake] answers exactly the waiting callers of the futures that became done, with the
   future's outcome. *)
From Coq Require Import List Arith NArith Bool Lia ZifyBool ZifyNat ZifyN.
Import ListNotations.
Require Import Aiuti.CaseLib Aiuti.Batcher Aiuti.BatcherLift Aiuti.BatcherLimits Aiuti.BatcherTime Aiuti.BatcherInv
               Aiuti.BatcherProps Aiuti.BatcherBasic Aiuti.BatcherSim
               Aiuti.Case_Batcher Aiuti.Case_Batcher_Sound Aiuti.Case_Batcher_Basic Aiuti.Case_Batcher_C11
               Aiuti.Case_Batcher_C10.

Local Arguments N.add : simpl never.
Local Arguments N.leb : simpl never.
Local Arguments N.ltb : simpl never.
Local Arguments N.eqb : simpl never.
Local Arguments N.max : simpl never.
Local Arguments Nat.ltb : simpl never.
Local Arguments Nat.leb : simpl never.

(* ---- what [wake] reports, exactly ------------------------------------------------------------------------ *)

Fixpoint dones_spec (lk : nat -> option (outcome * N)) (t : N) (i : nat) (cs : list caller) : list (nat * outcome * N) :=
  match cs with
  | [] => []
  | cl :: r =>
      match cl_st cl, lk (cl_fid cl) with
      | None, Some (o, _) => (i, o, t) :: dones_spec lk t (S i) r
      | _, _ => dones_spec lk t (S i) r
      end
  end.

Lemma dones_spec_ext lk lk' t cs : (forall f, lk f = lk' f) -> forall i, dones_spec lk t i cs = dones_spec lk' t i cs.
Proof. intros H. induction cs as [|cl r IH]; intros i; simpl; auto. rewrite H, !IH. reflexivity. Qed.

Lemma wake_from_dones fd t cs : forall i,
  dones_of (snd (wake_from fd t i cs)) = dones_spec (lookup fd) t i cs.
Proof.
  induction cs as [|cl r IH]; intros i; simpl; auto.
  specialize (IH (S i)). destruct (wake_from fd t (S i) r) as [r' os]. simpl in *.
  destruct (cl_st cl); auto. destruct (lookup fd (cl_fid cl)) as [[o t0]|]; simpl; auto. now rewrite IH.
Qed.

(* the status of every caller after [wake] *)
Definition st_done (cl : caller) : bool := match cl_st cl with Some _ => true | None => false end.

Lemma wake_from_status fd t cs : forall i j cl,
  nth_error cs j = Some cl ->
  exists cl', nth_error (fst (wake_from fd t i cs)) j = Some cl' /\ cl_key cl' = cl_key cl /\ cl_fid cl' = cl_fid cl /\
    st_done cl' = (st_done cl || match lookup fd (cl_fid cl) with Some _ => true | None => false end).
Proof.
  induction cs as [|c0 r IH]; intros i [|j] cl H; simpl in H; try discriminate.
  - injection H as <-. simpl. destruct (wake_from fd t (S i) r) as [r' os]. unfold st_done.
    destruct (cl_st c0) eqn:St; [|destruct (lookup fd (cl_fid c0)) as [[o t0]|] eqn:Lk]; simpl;
      eexists; (split; [reflexivity|]); simpl; rewrite ?St; auto.
  - destruct (IH (S i) j cl H) as (cl' & H1 & H2). simpl. destruct (wake_from fd t (S i) r) as [r' os]. simpl in *.
    exists cl'. split; auto. destruct (cl_st c0); auto. destruct (lookup fd (cl_fid c0)) as [[o t0]|]; auto.
Qed.

Lemma wake_from_length fd t cs : forall i, length (fst (wake_from fd t i cs)) = length cs.
Proof.
  induction cs as [|c0 r IH]; intros i; simpl; auto. specialize (IH (S i)).
  destruct (wake_from fd t (S i) r) as [r' os]. simpl in *.
  destruct (cl_st c0); simpl; auto. destruct (lookup fd (cl_fid c0)) as [[o t0]|]; simpl; auto.
Qed.

Fixpoint asc' (n : nat) (l : list nat) : Prop := match l with [] => True | x :: r => n <= x /\ asc' (S x) r end.

Lemma dones_spec_asc lk t cs : forall i, asc i (map (fun d => fst (fst d)) (dones_spec lk t i cs)).
Proof.
  induction cs as [|cl r IH]; intros i; simpl; auto.
  destruct (cl_st cl); [eapply asc_weaken; [|apply IH]; lia|].
  destruct (lk (cl_fid cl)) as [[o t0]|]; [simpl; split; auto | eapply asc_weaken; [|apply IH]; lia].
Qed.

(* ---- one monitor step: the part that matters for ok_C04 -------------------------------------------------- *)

Lemma check_start_04 c m live0 freed st :
  let m' := check_start c m live0 freed st in
  m_bad04 m' = m_bad04 m /\ m_calls m' = m_calls m /\ m_last m' = m_last m /\ m_idle m' = m_idle m.
Proof. destruct st as [[b items] t]. unfold check_start. destruct (take_items _ _). simpl. auto. Qed.

Lemma fold_check_start_04 c live0 freed sts : forall m,
  let m' := fold_left (fun mm st => check_start c mm live0 freed st) sts m in
  m_bad04 m' = m_bad04 m /\ m_calls m' = m_calls m /\ m_last m' = m_last m /\ m_idle m' = m_idle m.
Proof.
  induction sts as [|st r IH]; intros m; simpl; auto.
  destruct (check_start_04 c m live0 freed st) as (A1 & A2 & A3 & A4).
  destruct (IH (check_start c m live0 freed st)) as (B1 & B2 & B3 & B4). repeat split; congruence.
Qed.

Definition late_exp_of (m : mst) (e : event) (produced : list (nat * outcome)) : list (nat * outcome) :=
  match is_cancel e with
  | Some cid => match nth_error (m_calls m) cid with
                | Some mc => if mc_done mc then [] else [(cid, Cancelled)]
                | None => [] end
  | None => late_expected 0 (m_calls m) produced
  end.

Definition idle_of (m : mst) (e : event) : N :=
  match e with
  | Advance dt => (m_idle m + dt)%N
  | Call _ _ => 0%N
  | Chain _ _ _ => 0%N
  | Burst (_ :: _) => 0%N
  | _ => m_idle m
  end.

Lemma mon_step_04 c m e obsd :
  (forall mc, In mc (m_calls m) -> mc_more mc = 0) ->
  let now' := match e with Advance dt => (m_now m + dt)%N | _ => m_now m end in
  let mx := match e with SetMax n => n | _ => m_maxb m end in
  let '(calls1, es1, ex1, imm1) :=
    reg_calls c now' mx (m_step m) (calls_of e) (m_calls m) (m_entries m) (m_expect m) [] in
  let '(bstep, produced, live1, freed) :=
    match bat_effect (m_live m) e with Some x => x | None => (0, [], m_live m, false) end in
  let last2 := fold_left (fun l ko => ko :: l) produced (m_last m) in
  let ds := dones_of obsd in
  map fst (filter (fun d => fst (fst d) <? length (m_calls m)) ds) = late_exp_of m e produced ->
  forallb (imm_ok04 calls1 last2) (map fst (filter (fun d => negb (fst (fst d) <? length (m_calls m))) ds)) = true ->
  nodup_nat (map (fun d => fst (fst d)) ds) = true ->
  forallb (fun d => N.eqb (snd d) now') ds = true ->
  existsb is_died obsd = false ->
  let m' := mon_step c m e obsd in
  m_bad04 m' = m_bad04 m /\ m_calls m' = mark_done calls1 0 (map (fun d => fst (fst d)) ds) /\
  m_last m' = last2 /\ m_idle m' = idle_of m e.
Proof.
  intros Hm now' mx. unfold mon_step. fold now' mx.
  destruct (reg_calls c now' mx (m_step m) (calls_of e) (m_calls m) (m_entries m) (m_expect m) [])
    as [[[calls1 es1] ex1] imm1].
  destruct (match bat_effect (m_live m) e with Some x => x | None => (0, [], m_live m, false) end)
    as [[[bstep produced] live1] freed].
  cbv zeta. intros H1 H2 H3 H4 H5.
  rewrite (recall_list_nil _ produced Hm). cbn [reg_calls].
  match goal with |- context [fold_left ?f (starts_of obsd) ?m1] =>
    destruct (fold_check_start_04 c (length (m_live m)) freed (starts_of obsd) m1) as (A1 & A2 & A3 & A4) end.
  cbn [m_bad04 m_calls m_last m_idle] in *.
  unfold late_exp_of in H1. rewrite A1, A2, A3, A4. rewrite H1, H2, H3, H4, H5.
  rewrite (list_eqb_refl co_eqb co_eqb_refl). simpl. rewrite orb_false_r.
  repeat split; auto.
Qed.

(* ---- the extra simulation data of ok_C04 -------------------------------------------------------------------- *)

Record Y4 (c : cfg) (s : state) (m : mst) : Prop := {
  Y_calls : forall i mc cl, nth_error (m_calls m) i = Some mc -> nth_error (callers s) i = Some cl ->
            mc_key mc = cl_key cl /\ mc_done mc = st_done cl;
  Y_last : forall k it o t, last_key (g_items s) k = Some it -> lookup (fdone s) (it_fid it) = Some (o, t) ->
           lookup (m_last m) k = Some o;
  Y_idle : forall it, In it (g_items s) -> (it_t it + m_idle m <= now s)%N
}.

Lemma late_expected_nil calls : forall i, late_expected i calls [] = [].
Proof. induction calls as [|mc r IH]; intros i; simpl; auto. destruct (mc_done mc); apply IH. Qed.

Lemma lookup_const_out o (P : list (nat * nat)) k :
  lookup (const_out o P) k = if memb k (map fst P) then Some o else None.
Proof.
  unfold const_out, memb. induction P as [|[k' f] r IH]; simpl; auto.
  rewrite (Nat.eqb_sym k k'). destruct (Nat.eqb k' k); simpl; auto.
Qed.

Lemma lookup_last2 o (P : list (nat * nat)) : forall last k,
  lookup (fold_left (fun l ko => ko :: l) (const_out o P) last) k =
  if memb k (map fst P) then Some o else lookup last k.
Proof.
  unfold const_out, memb. induction P as [|[k' f] r IH]; intros last k; simpl; auto.
  rewrite IH. simpl. rewrite (Nat.eqb_sym k k').
  destruct (existsb (Nat.eqb k) (map fst r)); [now rewrite orb_true_r|]. rewrite orb_false_r.
  destruct (Nat.eqb k' k); reflexivity.
Qed.

Lemma mark_done_nth calls : forall i0 ds j mc',
  nth_error (mark_done calls i0 ds) j = Some mc' ->
  exists mc, nth_error calls j = Some mc /\ mc_key mc' = mc_key mc /\ mc_done mc' = (mc_done mc || memb (i0 + j) ds).
Proof.
  induction calls as [|mc r IH]; intros i0 ds [|j] mc' H; simpl in H; try discriminate.
  - injection H as <-. exists mc. split; auto. rewrite Nat.add_0_r. destruct (memb i0 ds); simpl; auto;
      [now rewrite orb_true_r | now rewrite orb_false_r].
  - destruct (IH (S i0) ds j mc' H) as (mc0 & H1 & H2 & H3). exists mc0. repeat split; auto.
    rewrite H3. replace (i0 + S j) with (S i0 + j) by lia. reflexivity.
Qed.

Lemma mark_done_len calls : forall i0 ds, length (mark_done calls i0 ds) = length calls.
Proof. induction calls as [|mc r IH]; intros; simpl; auto. Qed.

(* the state-free conjuncts of ok04 hold for every model step *)
Lemma basic_step c s e :
  ev_ok e -> Inv c s ->
  let os := canon (snd (step c s e)) in
  let now' := match e with Advance dt => (now s + dt)%N | _ => now s end in
  nodup_nat (map (fun d => fst (fst d)) (dones_of os)) = true /\
  forallb (fun d => N.eqb (snd d) now') (dones_of os) = true /\ existsb is_died os = false.
Proof.
  intros Hev (I & F & T & K). pose proof (basic_complete_from c [e] s (Forall_cons _ Hev (Forall_nil _)) I F T K) as H.
  simpl in H. destruct (step c s e) as [s1 os]. simpl in *.
  repeat (apply andb_prop in H as [H ?]). apply negb_true_iff in H. auto.
Qed.

(* ---- late answers: the monitor's expectation = what [wake] reports ---------------------------------------- *)

Definition is_some {A} (o : option A) : bool := match o with Some _ => true | None => false end.

Definition opt_m (p : list (nat * outcome)) (mc : mcall) : option outcome :=
  if mc_done mc then None else lookup p (mc_key mc).

Definition opt_s (lk : nat -> option (outcome * N)) (cl : caller) : option outcome :=
  match cl_st cl, lk (cl_fid cl) with None, Some (o, _) => Some o | _, _ => None end.

Lemma late_match lk t p : forall calls cs i,
  Forall2 (fun mc cl => opt_m p mc = opt_s lk cl) calls cs ->
  late_expected i calls p = map fst (dones_spec lk t i cs).
Proof.
  intros calls cs i H. revert i. induction H as [|mc cl calls' cs' E H IH]; intros i; simpl; auto.
  unfold opt_m, opt_s in E. destruct (mc_done mc).
  - destruct (cl_st cl); [apply IH|]. destruct (lk (cl_fid cl)) as [[o t0]|]; [discriminate | apply IH].
  - destruct (lookup p (mc_key mc)) as [o|].
    + destruct (cl_st cl); [discriminate|]. destruct (lk (cl_fid cl)) as [[o' t0]|]; [|discriminate].
      injection E as <-. simpl. now rewrite IH.
    + destruct (cl_st cl); [apply IH|]. destruct (lk (cl_fid cl)) as [[o' t0]|]; [discriminate | apply IH].
Qed.

Lemma Forall2_nth {A B} (R : A -> B -> Prop) la lb :
  length la = length lb -> (forall i a b, nth_error la i = Some a -> nth_error lb i = Some b -> R a b) -> Forall2 R la lb.
Proof.
  revert lb. induction la as [|a r IH]; intros [|b rb] L H; simpl in L; try discriminate; constructor.
  - apply (H 0); reflexivity.
  - apply IH; [lia|]. intros i a' b' Ha Hb. apply (H (S i)); auto.
Qed.

Lemma dones_spec_memb lk t cs : forall i j,
  memb (i + j) (map (fun d => fst (fst d)) (dones_spec lk t i cs)) =
  match nth_error cs j with Some cl => negb (st_done cl) && is_some (lk (cl_fid cl)) | None => false end.
Proof.
  induction cs as [|cl r IH]; intros i j; simpl; [now destruct j|].
  assert (Hlow : forall i0, memb i0 (map (fun d => fst (fst d)) (dones_spec lk t (S i0) r)) = false).
  { intros i0. destruct (memb i0 _) eqn:E; auto. apply memb_In in E.
    pose proof (dones_spec_asc lk t r (S i0)) as Ha. exfalso.
    assert (X : forall n l, asc n l -> forall x, In x l -> n <= x).
    { clear. intros n l. revert n. induction l as [|y r IH]; intros n H x Hx; [destruct Hx|].
      simpl in H. destruct H as [H1 H2]. destruct Hx as [<-|Hx]; [exact H1|]. specialize (IH _ H2 x Hx). lia. }
    specialize (X _ _ Ha i0 E). lia. }
  destruct j as [|j]; simpl.
  - rewrite Nat.add_0_r. unfold st_done. destruct (cl_st cl); simpl; [apply Hlow|].
    destruct (lk (cl_fid cl)) as [[o t0]|]; simpl; [unfold memb; simpl; now rewrite Nat.eqb_refl | apply Hlow].
  - replace (i + S j) with (S i + j) by lia. rewrite <- (IH (S i) j).
    destruct (cl_st cl); auto. destruct (lk (cl_fid cl)) as [[o t0]|]; auto.
    unfold memb. cbn [map existsb fst]. assert ((S i + j =? i) = false) by lia. now rewrite H.
Qed.

Lemma filter_all_old (l : list (nat * outcome * N)) n :
  (forall d, In d l -> fst (fst d) < n) ->
  filter (fun d => fst (fst d) <? n) l = l /\ filter (fun d => negb (fst (fst d) <? n)) l = [].
Proof.
  induction l as [|d r IH]; simpl; auto. intros H.
  assert (fst (fst d) < n) by (apply H; now left). assert ((fst (fst d) <? n) = true) by lia. rewrite H1. simpl.
  destruct IH as [A B]; [intros d' Hd'; apply H; now right|]. now rewrite A, B.
Qed.

Lemma dones_spec_ids_lt lk t cs : forall i d, In d (dones_spec lk t i cs) -> fst (fst d) < i + length cs.
Proof.
  induction cs as [|cl r IH]; intros i d H; simpl in *; [contradiction|].
  destruct (cl_st cl); [apply IH in H; lia|]. destruct (lk (cl_fid cl)) as [[o t0]|]; [|apply IH in H; lia].
  destruct H as [<-|H]; [simpl; lia | apply IH in H; lia].
Qed.

(* ---- a step whose event makes the batch function produce outcome o for the futures P -------------------- *)

Definition lk_of (s : state) (o : outcome) (P : list (nat * nat)) : nat -> option (outcome * N) :=
  fun f' => if memb f' (map snd P) then Some (o, now s) else lookup (fdone s) f'.

(* for a waiting caller: its key is among the produced keys iff its future is among the resolved ones *)
Lemma key_fid_P c s (P : list (nat * nat)) cl :
  Inv c s -> In cl (callers s) -> cl_st cl = None ->
  (forall k f, In (k, f) P -> pend s k f /\ exists it, In it (g_items s) /\ kf it = (k, f)) ->
  memb (cl_key cl) (map fst P) = memb (cl_fid cl) (map snd P).
Proof.
  intros HI Hcl St HP. pose proof HI as (I & F & T & S & K & C & W).
  destruct (C_item _ C cl Hcl) as (it & Hit & Ekf).
  assert (Hd : lookup (fdone s) (cl_fid cl) = None).
  { specialize (W cl Hcl St). unfold is_done in W. destruct (lookup (fdone s) (cl_fid cl)); [discriminate|auto]. }
  assert (R : lookup (ret s) (cl_key cl) = Some (cl_fid cl)).
  { unfold kf in Ekf. injection Ekf as E1 E2. rewrite <- E1, <- E2. apply (undone_in_ret c s it HI Hit). now rewrite E2. }
  destruct (memb (cl_key cl) (map fst P)) eqn:M1; destruct (memb (cl_fid cl) (map snd P)) eqn:M2; auto; exfalso.
  - apply memb_In in M1. apply in_map_iff in M1 as ([k f] & Ek & Hin). simpl in Ek. subst k.
    destruct (HP _ _ Hin) as [[_ R'] _]. assert (f = cl_fid cl) by congruence. subst f.
    assert (memb (cl_fid cl) (map snd P) = true) by (apply memb_In; apply in_map_iff; exists (cl_key cl, cl_fid cl); auto).
    congruence.
  - apply memb_In in M2. apply in_map_iff in M2 as ([k f] & Ef & Hin). simpl in Ef. subst f.
    destruct (HP _ _ Hin) as [_ (it' & Hit' & Ekf')].
    assert (k = cl_key cl) by (eapply (kf_item_key s it' it); eauto). subst k.
    assert (memb (cl_key cl) (map fst P) = true) by (apply memb_In; apply in_map_iff; exists (cl_key cl, cl_fid cl); auto).
    congruence.
Qed.

Lemma y_resolved c s m e (P : list (nat * nat)) o bstep live1 freed :
  ev_ok e -> is_chain e = false -> Inv c s -> ZInv s -> Sim c s m -> Y4 c s m ->
  calls_of e = [] -> is_cancel e = None ->
  match e with Call _ _ | Burst _ | Advance _ | SetMax _ => False | _ => True end ->
  bat_effect (m_live m) e = Some (bstep, const_out o P, live1, freed) ->
  (forall k f, In (k, f) P -> pend s k f /\ exists it, In it (g_items s) /\ kf it = (k, f)) ->
  (forall f', lookup (fdone (fst (step c s e))) f' = lk_of s o P f') ->
  g_items (fst (step c s e)) = g_items s ->
  dones_of (snd (step c s e)) = dones_spec (lk_of s o P) (now s) 0 (callers s) ->
  length (callers (fst (step c s e))) = length (callers s) ->
  (forall j cl, nth_error (callers s) j = Some cl ->
     exists cl', nth_error (callers (fst (step c s e))) j = Some cl' /\ cl_key cl' = cl_key cl /\
                 st_done cl' = (st_done cl || is_some (lk_of s o P (cl_fid cl)))) ->
  Y4 c (fst (step c s e)) (mon_step c m e (canon (snd (step c s e)))) /\
  m_bad04 (mon_step c m e (canon (snd (step c s e)))) = m_bad04 m.
Proof.
  intros Hev Hc HI Z SM Y Hcalls Hcan Hnc Hbat HP Hfd Hgi Hd Hlen Hst.
  pose proof HI as (I & F & T & S & K & C & W).
  destruct (step_clock c s e) as [_ Hnow].
  assert (Hadv : adv_of e = 0%N) by (destruct e; simpl; auto; contradiction).
  assert (Enow : match e with Advance dt => (m_now m + dt)%N | _ => m_now m end = now s).
  { rewrite (M_now _ _ _ SM). destruct e; auto; contradiction. }
  destruct (basic_step c s e Hev HI) as (B1 & B2 & B3).
  assert (Easc : dones_of (canon (snd (step c s e))) = dones_of (snd (step c s e))).
  { apply (dones_canon_sorted _ 0). rewrite <- dones_ids, Hd. apply dones_spec_asc. }
  assert (Hold : forall d, In d (dones_of (snd (step c s e))) -> fst (fst d) < length (m_calls m)).
  { intros d Hin. rewrite Hd in Hin. apply dones_spec_ids_lt in Hin. rewrite (M_calls _ _ _ SM). lia. }
  destruct (filter_all_old _ _ Hold) as [Fo Fn].
  (* pointwise agreement of the expected and the reported late answers *)
  assert (PW : Forall2 (fun mc cl => opt_m (const_out o P) mc = opt_s (lk_of s o P) cl) (m_calls m) (callers s)).
  { apply Forall2_nth; [apply (M_calls _ _ _ SM)|]. intros i mc cl Hm Hc'.
    destruct (Y_calls _ _ _ Y i mc cl Hm Hc') as [Ek Ed]. unfold opt_m, opt_s. rewrite Ed. unfold st_done.
    destruct (cl_st cl) eqn:St; auto.
    pose proof (nth_error_In _ _ Hc') as Hin.
    assert (Hdn : lookup (fdone s) (cl_fid cl) = None).
    { specialize (W cl Hin St). unfold is_done in W. destruct (lookup (fdone s) (cl_fid cl)); [discriminate|auto]. }
    rewrite lookup_const_out, Ek, (key_fid_P c s P cl HI Hin St HP). unfold lk_of.
    destruct (memb (cl_fid cl) (map snd P)); auto. now rewrite Hdn. }
  pose proof (mon_step_04 c m e (canon (snd (step c s e))) (M_more _ _ _ SM)) as G.
  rewrite Hcalls, Hbat, Enow in G. cbn [reg_calls] in G. cbv zeta in G.
  rewrite Easc, Fo, Fn in G.
  destruct G as (G1 & G2 & G3 & G4).
  - unfold late_exp_of. rewrite Hcan, Hd. symmetry. now apply late_match.
  - reflexivity.
  - rewrite <- Easc. exact B1.
  - rewrite <- Easc. destruct e; auto; contradiction.
  - exact B3.
  - split; [|exact G1]. constructor.
    + intros i mc' cl' Hm' Hc'. rewrite G2 in Hm'.
      destruct (mark_done_nth _ _ _ _ _ Hm') as (mc & Hm & Ek & Ed). simpl in Ed.
      assert (Li : i < length (callers s)).
      { rewrite <- (M_calls _ _ _ SM). apply nth_error_Some. congruence. }
      destruct (nth_error (callers s) i) as [cl|] eqn:Ec; [|apply nth_error_None in Ec; lia].
      destruct (Hst i cl Ec) as (cl'' & H1 & H2 & H3). assert (cl'' = cl') by congruence. subst cl''.
      destruct (Y_calls _ _ _ Y i mc cl Hm Ec) as [Ek0 Ed0].
      split; [congruence|]. rewrite Ed, H3, Ed0, Hd.
      pose proof (dones_spec_memb (lk_of s o P) (now s) (callers s) 0 i) as Hm2. simpl in Hm2. rewrite Hm2, Ec.
      destruct (st_done cl); simpl; auto.
    + intros k it o' t' Lk Hdone. rewrite Hgi in Lk. rewrite Hfd in Hdone. rewrite G3, lookup_last2.
      destruct (last_key_in _ _ _ Lk) as [Hit Hk]. unfold lk_of in Hdone.
      destruct (memb (it_fid it) (map snd P)) eqn:Mf.
      * injection Hdone as <- _.
        apply memb_In in Mf. apply in_map_iff in Mf as ([k0 f0] & Ef & Hin). simpl in Ef. subst f0.
        destruct (HP _ _ Hin) as [_ (it' & Hit' & Ekf')].
        assert (it' = it). { eapply item_unique; eauto. unfold kf in Ekf'. now injection Ekf'. }
        subst it'. unfold kf in Ekf'. injection Ekf' as Ek0.
        assert (memb k (map fst P) = true) by (apply memb_In; apply in_map_iff; exists (k0, it_fid it); split; [simpl; congruence | auto]).
        now rewrite H.
      * destruct (memb k (map fst P)) eqn:Mk; [|eapply (Y_last _ _ _ Y); eauto]. exfalso.
        apply memb_In in Mk. apply in_map_iff in Mk as ([k0 f0] & Ek & Hin). simpl in Ek. subst k0.
        destruct (HP _ _ Hin) as [[_ R] _]. destruct (P_last _ _ _ K k f0 R) as (it' & Lk' & Ef').
        assert (it' = it) by congruence. subst it'.
        assert (memb (it_fid it) (map snd P) = true) by (apply memb_In; apply in_map_iff; exists (k, f0); auto).
        congruence.
    + intros it Hit. rewrite Hgi in Hit. rewrite G4, Hnow, Hadv. unfold idle_of.
      pose proof (Y_idle _ _ _ Y it Hit). destruct e; try contradiction; lia.
Qed.

(* ---- what the model reports when futures are resolved ---------------------------------------------------- *)

Lemma wake_out s :
  dones_of (snd (wake s)) = dones_spec (lookup (fdone s)) (now s) 0 (callers s) /\
  length (callers (fst (wake s))) = length (callers s) /\
  (forall j cl, nth_error (callers s) j = Some cl ->
     exists cl', nth_error (callers (fst (wake s))) j = Some cl' /\ cl_key cl' = cl_key cl /\
                 st_done cl' = (st_done cl || is_some (lookup (fdone s) (cl_fid cl)))).
Proof.
  unfold wake. pose proof (wake_from_dones (fdone s) (now s) (callers s) 0) as H1.
  pose proof (wake_from_length (fdone s) (now s) (callers s) 0) as H2.
  pose proof (wake_from_status (fdone s) (now s) (callers s) 0) as H3.
  destruct (wake_from _ _ _ _) as [cs os]. simpl in *. split; auto. split; auto.
  intros j cl Hn. destruct (H3 j cl Hn) as (cl' & A & B & _ & D). exists cl'. repeat split; auto.
Qed.

Lemma end_batch_out c B o s :
  ZInv s -> (forall k f, In (k, f) (b_futs B) -> is_done s f = false) -> NoDup (map snd (b_futs B)) ->
  dones_of (snd (end_batch c B o s)) = dones_spec (lk_of s o (b_futs B)) (now s) 0 (callers s) /\
  length (callers (fst (end_batch c B o s))) = length (callers s) /\
  (forall j cl, nth_error (callers s) j = Some cl ->
     exists cl', nth_error (callers (fst (end_batch c B o s))) j = Some cl' /\ cl_key cl' = cl_key cl /\
                 st_done cl' = (st_done cl || is_some (lk_of s o (b_futs B) (cl_fid cl)))).
Proof.
  intros Z Hd ND. unfold end_batch. set (s0 := set_running s _).
  pose proof (release_slot_sameC s0) as (C1 & C2 & C3). destruct (release_slot_clock s0) as [N1 _].
  pose proof (release_slot_os s0) as O1.
  destruct (release_slot s0) as [s1 o1]. simpl in *.
  assert (Hd1 : forall k f, In (k, f) (b_futs B) -> is_done s1 f = false).
  { intros k f H. unfold is_done. rewrite C2. now apply (Hd k f). }
  pose proof (fanout_fdone c o (b_futs B) s1 Hd1 ND) as Hf.
  pose proof (fanout_callers c (b_futs B) o s1) as Cf. destruct (fanout_clock c (b_futs B) o s1) as [N2 _].
  destruct (fanout c (b_futs B) o s1) as [s2 died]. simpl in *.
  assert (Z2 : ZInv s2) by (apply (same_callers_Z s); [congruence | exact Z]).
  rewrite (wake_all_Z c s2 Z2). simpl.
  destruct (wake_out s2) as (W1 & W2 & W3).
  assert (Elk : forall f', lookup (fdone s2) f' = lk_of s o (b_futs B) f').
  { intros f'. rewrite Hf, N1, C2. reflexivity. }
  split; [|split].
  - rewrite !dones_of_app, (dones_of_starts _ O1), W1. simpl.
    assert (dones_of (if died then [TaskDied] else []) = []) by (destruct died; reflexivity).
    rewrite H, !app_nil_r, Cf, C1, N2, N1. apply dones_spec_ext. exact Elk.
  - rewrite W2, Cf, C1. reflexivity.
  - intros j cl Hn. destruct (W3 j cl) as (cl' & A1 & A2 & A3); [rewrite Cf, C1; exact Hn|].
    exists cl'. repeat split; auto. now rewrite A3, Elk.
Qed.

Lemma y_end_core c s m e B o ev :
  ev_ok e -> is_chain e = false -> Inv c s -> ZInv s -> Sim c s m -> Y4 c s m -> In B (running s) ->
  calls_of e = [] -> is_cancel e = None ->
  match e with Call _ _ | Burst _ | Advance _ | SetMax _ => False | _ => True end ->
  step c s e = end_batch c B o (log_bev s (b_id B) ev) ->
  (forall mb, find_live (m_live m) (b_id B) = Some mb -> mb_unans mb = map fst (b_futs B) ->
     bat_effect (m_live m) e =
     Some (mb_step mb, map (fun k => (k, o)) (mb_unans mb), drop_live (m_live m) (mb_id mb), true)) ->
  Y4 c (fst (step c s e)) (mon_step c m e (canon (snd (step c s e)))) /\
  m_bad04 (mon_step c m e (canon (snd (step c s e)))) = m_bad04 m.
Proof.
  intros Hev Hc HI Z SM Y HB Hcalls Hcan Hnc Hstep Hbat. pose proof HI as (I & F & T & S & K & _).
  pose proof (find_corr (m_entries m) (m_live m) (running s) (b_id B) (M_live _ _ _ SM)) as FC.
  pose proof (find_batch_in c s B I HB) as FB. unfold find_batch in FB. rewrite FB in FC.
  destruct (find_live (m_live m) (b_id B)) as [mb|] eqn:FL; [|contradiction].
  pose proof FC as (E1 & E2 & E3). specialize (Hbat mb eq_refl E2).
  assert (Eprod : map (fun k => (k, o)) (mb_unans mb) = const_out o (b_futs B)).
  { rewrite E2. unfold const_out. now rewrite map_map. }
  rewrite Eprod in Hbat.
  assert (Hd : forall k f, In (k, f) (b_futs B) -> is_done (log_bev s (b_id B) ev) f = false).
  { intros k f H. apply (P_run _ _ _ K B k f HB H). }
  pose proof (futs_snd_nodup c s B I F S HB) as ND.
  assert (Z0 : ZInv (log_bev s (b_id B) ev)) by exact Z.
  destruct (end_batch_view c B o _ Z0 Hd ND) as [Vf Vg].
  destruct (end_batch_out c B o _ Z0 Hd ND) as (O1 & O2 & O3).
  eapply (y_resolved c s m e (b_futs B) o (mb_step mb) _ true); eauto.
  - intros k f H. split; [apply (P_run _ _ _ K B k f HB H)|].
    destruct (futs_item s B k f S HB H) as (it & Hit & Hk & Hf). exists it.
    split; [exact (running_sub s B it F S HB Hit) | unfold kf; congruence].
  - rewrite Hstep. exact Vf.
  - rewrite Hstep. exact Vg.
  - rewrite Hstep. exact O1.
  - rewrite Hstep. exact O2.
  - rewrite Hstep. exact O3.
Qed.

Lemma y_yield c s m B k f r :
  Inv c s -> ZInv s -> Sim c s m -> Y4 c s m -> In B (running s) -> lookup (b_futs B) k = Some f ->
  let e := BYield (b_id B) k r in
  Y4 c (fst (step c s e)) (mon_step c m e (canon (snd (step c s e)))) /\
  m_bad04 (mon_step c m e (canon (snd (step c s e)))) = m_bad04 m.
Proof.
  intros HI Z SM Y HB Lk e. pose proof HI as (I & F & T & S & K & _).
  pose proof (lookup_In _ _ _ Lk) as Hin.
  destruct (P_run _ _ _ K B k f HB Hin) as [Hd R].
  pose proof (find_corr (m_entries m) (m_live m) (running s) (b_id B) (M_live _ _ _ SM)) as FC.
  pose proof (find_batch_in c s B I HB) as FB. pose proof FB as FB'. unfold find_batch in FB. rewrite FB in FC.
  destruct (find_live (m_live m) (b_id B)) as [mb|] eqn:FL; [|contradiction].
  pose proof FC as (E1 & E2 & E3).
  pose (s1 := set_batch_futs (log_bev s (b_id B) (EvYield k r)) (b_id B) (remove_key k (b_futs B))).
  assert (Hstep : step c s e = wake_all c (resolve c k f (of_res r) s1)).
  { unfold e. simpl. rewrite FB', Lk. unfold set_fut.
    change (is_done (set_batch_futs (log_bev s (b_id B) (EvYield k r)) (b_id B) (remove_key k (b_futs B))) f)
      with (is_done s f). rewrite Hd. reflexivity. }
  assert (Z1 : ZInv (resolve c k f (of_res r) s1)).
  { apply (same_callers_Z s); [unfold resolve; destruct (0 <? c_rt c)%N; reflexivity | exact Z]. }
  assert (Hbat : bat_effect (m_live m) e =
                 Some (mb_step mb, const_out (of_res r) [(k, f)],
                       upd_live (m_live m) (b_id B) (remove_nat k (mb_unans mb)), false)).
  { unfold e. simpl. rewrite FL. rewrite E2, memb_map_fst, Lk. reflexivity. }
  assert (Elk : forall f', lookup (fdone (resolve c k f (of_res r) s1)) f' = lk_of s (of_res r) [(k, f)] f').
  { intros f'. rewrite fdone_resolve. unfold lk_of, memb. simpl. rewrite (Nat.eqb_sym f' f).
    destruct (Nat.eqb f f'); reflexivity. }
  assert (Ecl : callers (resolve c k f (of_res r) s1) = callers s) by (unfold resolve; destruct (0 <? c_rt c)%N; reflexivity).
  assert (Enw : now (resolve c k f (of_res r) s1) = now s) by (unfold resolve; destruct (0 <? c_rt c)%N; reflexivity).
  destruct (wake_out (resolve c k f (of_res r) s1)) as (W1 & W2 & W3).
  eapply (y_resolved c s m e [(k, f)] (of_res r) (mb_step mb) _ false); eauto; try exact Logic.I.
  - intros k' f' [H|[]]. injection H as <- <-. split; [split; auto|].
    destruct (futs_item s B k f S HB Hin) as (it & Hit & Hk & Hf). exists it.
    split; [exact (running_sub s B it F S HB Hit) | unfold kf; congruence].
  - intros f'. rewrite Hstep, (wake_all_Z c _ Z1). simpl.
    destruct (wake_sameP (resolve c k f (of_res r) s1)) as (_ & W & _). rewrite W. apply Elk.
  - rewrite Hstep, (wake_all_Z c _ Z1). simpl. destruct (wake_sameS (resolve c k f (of_res r) s1)) as (W & _). rewrite W.
    unfold resolve. destruct (0 <? c_rt c)%N; reflexivity.
  - rewrite Hstep, (wake_all_Z c _ Z1). simpl. rewrite app_nil_r, W1, Ecl, Enw. apply dones_spec_ext. exact Elk.
  - rewrite Hstep, (wake_all_Z c _ Z1). simpl. rewrite W2, Ecl. reflexivity.
  - intros j cl Hn. rewrite Hstep, (wake_all_Z c _ Z1). simpl.
    destruct (W3 j cl) as (cl' & A1 & A2 & A3); [rewrite Ecl; exact Hn|]. exists cl'. repeat split; auto. now rewrite A3, Elk.
Qed.

(* ---- Call / Burst for ok_C04 ----------------------------------------------------------------------------------- *)

Definition YL (s : state) (last : list (nat * outcome)) : Prop :=
  forall k it o t, last_key (g_items s) k = Some it -> lookup (fdone s) (it_fid it) = Some (o, t) -> lookup last k = Some o.

Definition YC (n0 : nat) (ids : list nat) (calls : list mcall) (cs : list caller) : Prop :=
  forall i mc cl, nth_error calls i = Some mc -> nth_error cs i = Some cl ->
    mc_key mc = cl_key cl /\ (i < n0 -> mc_done mc = st_done cl) /\
    (n0 <= i -> mc_done mc = false /\ st_done cl = memb i ids).

Lemma reg_calls_prefix c now mx st : forall l calls es ex imm,
  let '(calls', _, _, _) := reg_calls c now mx st (map (fun p : nat * option nat => (fst p, snd p, 0)) l) calls es ex imm in
  exists more, calls' = calls ++ more.
Proof.
  induction l as [|[a ko] r IH]; intros calls es ex imm.
  - simpl. exists []. now rewrite app_nil_r.
  - cbn [map reg_calls fst snd reg_chain].
    destruct (spec_lookup c now es (key_of a ko));
      match goal with |- context [reg_calls c now mx st _ ?c1 ?e1 ?x1 ?i1] => specialize (IH c1 e1 x1 i1) end;
      destruct (reg_calls c now mx st _ _ _ _ _) as [[[c2 e2] x2] i2]; destruct IH as (more & E);
      eexists; rewrite E, <- app_assoc; reflexivity.
Qed.

Lemma imm_ok04_prefix calls more last d : imm_ok04 calls last d = true -> imm_ok04 (calls ++ more) last d = true.
Proof.
  unfold imm_ok04. destruct (nth_error calls (fst d)) as [mc|] eqn:E; [|discriminate].
  rewrite nth_error_app1 by (apply nth_error_Some; congruence). now rewrite E.
Qed.

Lemma reg4_one c a ko s st mx calls es ex imm last n0 ids :
  Inv c s -> ent_ok st s es -> length calls = length (callers s) -> YL s last ->
  YC n0 ids calls (callers s) -> n0 <= length (callers s) -> (forall x, In x ids -> x < length (callers s)) ->
  let r := do_call c a ko 0 s in
  let '(calls', es', ex', imm') := reg_chain c (now s) mx st a ko 0 calls es ex imm in
  YL (fst r) last /\
  YC n0 (ids ++ map (fun d => fst (fst d)) (dones_of (snd r))) calls' (callers (fst r)) /\
  (forall d, In d (dones_of (snd r)) -> imm_ok04 calls' last (fst d) = true) /\
  (forall x, In x (map (fun d => fst (fst d)) (dones_of (snd r))) -> x = length (callers s)).
Proof.
  intros HI E L HL HC Hn0 Hids. pose proof HI as (I & F & T & S & K & _).
  pose proof (spec_ret c s st es (key_of a ko) HI E) as SR.
  cbn [reg_chain]. rewrite SR. unfold ret_view, do_call.
  destruct (lookup (ret s) (key_of a ko)) as [f|] eqn:R.
  - destruct (lookup (fdone s) f) as [[o t]|] eqn:D; simpl.
    + split; [exact HL|]. split; [|split].
      * intros i mc cl Hm Hc'. destruct (Nat.lt_ge_cases i (length calls)) as [Li|Li].
        -- rewrite nth_error_app1 in Hm by exact Li. rewrite nth_error_app1 in Hc' by lia.
           destruct (HC i mc cl Hm Hc') as (A1 & A2 & A3). split; auto. split; auto.
           intros Hge. destruct (A3 Hge) as [B1 B2]. split; auto. rewrite B2. unfold memb. rewrite existsb_app. simpl.
           assert ((i =? length (callers s)) = false) by lia. rewrite H. now rewrite !orb_false_r.
        -- rewrite nth_error_app2 in Hm by exact Li. rewrite nth_error_app2 in Hc' by lia.
           rewrite L in Hm. destruct (i - length (callers s)) as [|d] eqn:Ei; simpl in Hm, Hc'; [|destruct d; discriminate].
           injection Hm as <-. injection Hc' as <-. simpl. split; auto. split; [intros; lia|]. intros _. split; auto.
           unfold st_done. simpl. unfold memb. rewrite existsb_app. simpl.
           assert ((i =? length (callers s)) = true) by lia. rewrite H. now rewrite orb_true_r.
      * intros d [<-|[]]. unfold imm_ok04. simpl. rewrite nth_error_app2 by lia. rewrite L, Nat.sub_diag. simpl.
        destruct (P_last _ _ _ K _ _ R) as (it & Lk & Ef). rewrite <- Ef in D.
        rewrite (HL _ it o t Lk D). apply outcome_eqb_refl.
      * intros x [<-|[]]. reflexivity.
    + split; [exact HL|]. split; [|split; [intros ? [] | intros ? []]]. rewrite app_nil_r.
      intros i mc cl Hm Hc'. destruct (Nat.lt_ge_cases i (length calls)) as [Li|Li].
      * rewrite nth_error_app1 in Hm by exact Li. rewrite nth_error_app1 in Hc' by lia. now apply HC.
      * rewrite nth_error_app2 in Hm by exact Li. rewrite nth_error_app2 in Hc' by lia.
        rewrite L in Hm. destruct (i - length (callers s)) as [|d] eqn:Ei; simpl in Hm, Hc'; [|destruct d; discriminate].
        injection Hm as <-. injection Hc' as <-. simpl. split; auto. split; [intros; lia|]. intros _. split; auto.
        unfold st_done. simpl. destruct (memb i ids) eqn:M; auto. apply memb_In in M. apply Hids in M. lia.
  - set (k := key_of a ko) in *. set (it := mkitem k a (nfut s) (now s) (maxb s)).
    match goal with |- context [take c it ?s0] => set (s1 := s0) end.
    assert (I1 : LInv c s1) by (destruct I; constructor; auto).
    destruct (take_ghost c it s1 I1) as (_ & G2 & _).
    pose proof (take_sameC c it s1) as (C1 & C2 & _). pose proof (take_os c it s1) as Hos.
    rewrite (dones_of_starts _ Hos). simpl. rewrite app_nil_r.
    split; [|split; [|split; [intros ? [] | intros ? []]]].
    + intros k' it' o t Lk Hd. rewrite G2 in Lk. rewrite C2 in Hd. simpl in Lk, Hd. rewrite last_key_snoc in Lk. simpl in Lk.
      destruct (Nat.eqb_spec k k') as [Ek|Nk].
      * injection Lk as <-. simpl in Hd. apply (P_dlt _ _ _ K) in Hd. lia.
      * eapply HL; eauto.
    + rewrite C1. simpl. intros i mc cl Hm Hc'. destruct (Nat.lt_ge_cases i (length calls)) as [Li|Li].
      * rewrite nth_error_app1 in Hm by exact Li. rewrite nth_error_app1 in Hc' by lia. now apply HC.
      * rewrite nth_error_app2 in Hm by exact Li. rewrite nth_error_app2 in Hc' by lia.
        rewrite L in Hm. destruct (i - length (callers s)) as [|d] eqn:Ei; simpl in Hm, Hc'; [|destruct d; discriminate].
        injection Hm as <-. injection Hc' as <-. simpl. split; auto. split; [intros; lia|]. intros _. split; auto.
        unfold st_done. simpl. destruct (memb i ids) eqn:M; auto. apply memb_In in M. apply Hids in M. lia.
Qed.

Lemma reg4_many c st mx l : forall s calls es ex imm last n0 ids,
  Inv c s -> ent_ok st s es -> length calls = length (callers s) -> YL s last ->
  YC n0 ids calls (callers s) -> n0 <= length (callers s) -> (forall x, In x ids -> x < length (callers s)) ->
  let r := do_calls c l s in
  let '(calls', es', ex', imm') := reg_calls c (now s) mx st (map (fun p => (fst p, snd p, 0)) l) calls es ex imm in
  YL (fst r) last /\
  YC n0 (ids ++ map (fun d => fst (fst d)) (dones_of (snd r))) calls' (callers (fst r)) /\
  (forall d, In d (dones_of (snd r)) -> imm_ok04 calls' last (fst d) = true).
Proof.
  induction l as [|[a ko] r IH]; intros s calls es ex imm last n0 ids HI E L HL HC Hn0 Hids;
    [simpl | cbn [do_calls reg_calls map fst snd]].
  - rewrite app_nil_r. split; [exact HL|]. split; [exact HC | intros ? []].
  - pose proof (reg4_one c a ko s st mx calls es ex imm last n0 ids HI E L HL HC Hn0 Hids) as H1.
    pose proof (reg_one c a ko s st mx calls es ex imm HI E L) as H0.
    pose proof (Inv_call c a ko s HI) as HI1. pose proof (do_call_len c a ko 0 s) as Hlen.
    pose proof (reg_calls_prefix c (now s) mx st r) as PF.
    destruct (reg_chain c (now s) mx st a ko 0 calls es ex imm) as [[[calls1 es1] ex1] imm1].
    destruct (do_call c a ko 0 s) as [s1 o1]. simpl in *.
    destruct H1 as (HL1 & HC1 & HM1 & HI1'). destruct H0 as (E1 & L1 & N1 & _).
    assert (Hids1 : forall x, In x (ids ++ map (fun d => fst (fst d)) (dones_of o1)) -> x < length (callers s1)).
    { intros x Hx. apply in_app_or in Hx as [Hx|Hx]; [apply Hids in Hx; lia | apply HI1' in Hx; lia]. }
    specialize (IH s1 calls1 es1 ex1 imm1 last n0 _ HI1 E1 L1 HL1 HC1 ltac:(lia) Hids1). rewrite N1 in IH.
    specialize (PF calls1 es1 ex1 imm1).
    destruct (reg_calls c (now s) mx st _ calls1 es1 ex1 imm1) as [[[calls2 es2] ex2] imm2].
    destruct (do_calls c r s1) as [s2 o2]. simpl in *.
    destruct IH as (HL2 & HC2 & HM2). destruct PF as (more & Em).
    split; [exact HL2|]. split.
    + rewrite dones_of_app, map_app, app_assoc. exact HC2.
    + intros d Hd. rewrite dones_of_app in Hd. apply in_app_or in Hd as [Hd|Hd]; [|now apply HM2].
      rewrite Em. apply imm_ok04_prefix. now apply HM1.
Qed.

Lemma do_calls_items_len c l : forall s, LInv c s -> Fifo s ->
  length (g_items (fst (do_calls c l s))) <= length (g_items s) + length l.
Proof.
  induction l as [|[a ko] r IH]; intros s I F; simpl; [lia|].
  pose proof (do_call_L c a ko 0 s I) as I1. pose proof (do_call_fifo c a ko 0 s I F) as F1.
  assert (L1 : length (g_items (fst (do_call c a ko 0 s))) <= S (length (g_items s))).
  { unfold do_call. destruct (lookup (ret s) _) as [f|].
    - destruct (lookup (fdone s) f) as [[o t]|]; simpl; lia.
    - match goal with |- context [take c ?it ?s1] =>
        assert (I2 : LInv c s1) by (destruct I; constructor; auto);
        destruct (take_ghost c it s1 I2) as (_ & G2 & _) end.
      rewrite G2. simpl. rewrite app_length. simpl. lia. }
  destruct (do_call c a ko 0 s) as [s1 o1]. simpl in *.
  specialize (IH s1 I1 F1). destruct (do_calls c r s1) as [s2 o2]. simpl in *. lia.
Qed.

(* Call / Burst *)
Lemma y_calls c s m e l :
  ev_ok e -> is_chain e = false -> Inv c s -> ZInv s -> Sim c s m -> Y4 c s m ->
  calls_of e = map (fun p => (fst p, snd p, 0)) l -> bat_effect (m_live m) e = None -> is_cancel e = None ->
  fst (step c s e) = fst (do_calls c l s) -> snd (step c s e) = snd (do_calls c l s) ->
  match e with Call _ _ | Burst _ => True | _ => False end ->
  idle_of m e = (match l with [] => m_idle m | _ => 0%N end) ->
  Y4 c (fst (step c s e)) (mon_step c m e (canon (snd (step c s e)))) /\
  m_bad04 (mon_step c m e (canon (snd (step c s e)))) = m_bad04 m.
Proof.
  intros Hev Hc HI Z SM Y Hcalls Hbat Hcan Hfst Hsnd He Hidle. pose proof HI as (I & F & T & S & K & _).
  assert (Enow : match e with Advance dt => (m_now m + dt)%N | _ => m_now m end = now s).
  { rewrite (M_now _ _ _ SM). destruct e; auto; contradiction. }
  assert (Emx : match e with SetMax n => n | _ => m_maxb m end = m_maxb m) by (destruct e; auto; contradiction).
  destruct (basic_step c s e Hev HI) as (B1 & B2 & B3).
  assert (HC0 : YC (length (callers s)) [] (m_calls m) (callers s)).
  { intros i mc cl Hm Hc'. destruct (Y_calls _ _ _ Y i mc cl Hm Hc') as [A1 A2]. split; auto. split; auto.
    intros Hge. assert (i < length (callers s)) by (apply nth_error_Some; congruence). lia. }
  pose proof (reg4_many c (m_step m) (m_maxb m) l s (m_calls m) (m_entries m) (m_expect m) [] (m_last m)
                (length (callers s)) [] HI (M_ent _ _ _ SM) (M_calls _ _ _ SM) (Y_last _ _ _ Y) HC0 (le_n _)
                (fun x H => match H with end)) as R4.
  pose proof (reg_many c (m_step m) (m_maxb m) l s (m_calls m) (m_entries m) (m_expect m) [] HI (M_ent _ _ _ SM) (M_calls _ _ _ SM)) as RM.
  destruct (do_calls_asc c l s) as [Asc _]. destruct (do_calls_Z c l s Z) as [_ Lc].
  destruct (do_calls_stamp c l s I F) as (nit & Gi & St).
  pose proof (do_calls_items_len c l s I F) as Hnl. rewrite Gi, app_length in Hnl.
  destruct (step_clock c s e) as [_ Hnow].
  pose proof (mon_step_04 c m e (canon (snd (step c s e))) (M_more _ _ _ SM)) as G.
  rewrite Hcalls, Hbat, Enow, Emx in G. cbv zeta in G. rewrite Hfst, Hsnd in *.
  destruct (reg_calls c (now s) (m_maxb m) (m_step m) (map (fun p => (fst p, snd p, 0)) l) (m_calls m) (m_entries m) (m_expect m) [])
    as [[[calls1 es1] ex1] imm1].
  destruct (do_calls c l s) as [s' os]. simpl in *.
  destruct R4 as (HL' & HC' & HM'). destruct RM as (_ & L1 & N1 & _ & _ & D1 & _).
  assert (Easc : dones_of (canon os) = dones_of os) by (apply (dones_canon_sorted os _ Asc)).
  rewrite Easc in *.
  assert (Fo : filter (fun d => fst (fst d) <? length (m_calls m)) (dones_of os) = []).
  { rewrite (M_calls _ _ _ SM). clear - D1. induction (dones_of os) as [|d r IH]; simpl; auto.
    assert (length (callers s) <= fst (fst d)) by (apply D1; now left).
    assert ((fst (fst d) <? length (callers s)) = false) by lia. rewrite H0. apply IH. intros d' Hd'. apply D1. now right. }
  assert (Fn : filter (fun d => negb (fst (fst d) <? length (m_calls m))) (dones_of os) = dones_of os).
  { rewrite (M_calls _ _ _ SM). now apply filter_all_new. }
  rewrite Fo, Fn in G.
  destruct G as (G1 & G2 & G3 & G4).
  - unfold late_exp_of. rewrite Hcan. simpl. now rewrite late_expected_nil.
  - apply forallb_forall. intros d Hd. apply in_map_iff in Hd as (d0 & <- & Hd0). now apply HM'.
  - exact B1.
  - destruct e; auto; contradiction.
  - exact B3.
  - split; [|exact G1]. constructor.
    + intros i mc' cl' Hm' Hc'. rewrite G2 in Hm'.
      destruct (mark_done_nth _ _ _ _ _ Hm') as (mc & Hm & Ek & Ed). simpl in Ed.
      destruct (HC' i mc cl' Hm Hc') as (A1 & A2 & A3). split; [congruence|]. rewrite Ed.
      destruct (Nat.lt_ge_cases i (length (callers s))) as [Li|Li].
      * rewrite (A2 Li). destruct (memb i _) eqn:M; [|now rewrite orb_false_r].
        apply memb_In in M. apply in_map_iff in M as (d & Ed' & Hd). apply D1 in Hd. lia.
      * destruct (A3 Li) as [B4 B5]. rewrite B4, B5. reflexivity.
    + simpl in G3. rewrite G3. exact HL'.
    + intros it Hit. rewrite G4, Hidle, N1. rewrite Gi in Hit. apply in_app_or in Hit as [Hit|Hit].
      * pose proof (Y_idle _ _ _ Y it Hit). destruct l; lia.
      * destruct (St it Hit) as [E1 _]. destruct l as [|p l']; [|lia].
        simpl in Hnl. destruct nit; [destruct Hit | simpl in Hnl; lia].
Qed.

(* ---- steps that answer nobody ----------------------------------------------------------------------------------- *)

Lemma y_plain c s m e :
  ev_ok e -> is_chain e = false -> Inv c s -> Sim c s m -> Y4 c s m ->
  calls_of e = [] -> bat_effect (m_live m) e = None -> late_exp_of m e [] = [] ->
  dones_of (snd (step c s e)) = [] -> callers (fst (step c s e)) = callers s ->
  fdone (fst (step c s e)) = fdone s -> g_items (fst (step c s e)) = g_items s ->
  match e with Call _ _ | Burst _ | Chain _ _ _ => False | _ => True end ->
  Y4 c (fst (step c s e)) (mon_step c m e (canon (snd (step c s e)))) /\
  m_bad04 (mon_step c m e (canon (snd (step c s e)))) = m_bad04 m.
Proof.
  intros Hev Hc HI SM Y Hcalls Hbat Hcan Hd Hcl Hfd Hgi Hnc.
  destruct (basic_step c s e Hev HI) as (B1 & B2 & B3). destruct (step_clock c s e) as [_ Hnow].
  assert (Easc : dones_of (canon (snd (step c s e))) = []).
  { rewrite (dones_canon_sorted _ 0); [exact Hd|]. rewrite <- dones_ids, Hd. exact Logic.I. }
  pose proof (mon_step_04 c m e (canon (snd (step c s e))) (M_more _ _ _ SM)) as G.
  rewrite Hcalls, Hbat in G. cbn [reg_calls] in G. cbv zeta in G. rewrite Easc in G. simpl in G.
  destruct G as (G1 & G2 & G3 & G4); auto.
  - split; [|exact G1]. constructor.
    + intros i mc' cl' Hm' Hc'. rewrite G2 in Hm'. rewrite Hcl in Hc'.
      destruct (mark_done_nth _ _ _ _ _ Hm') as (mc & Hm & Ek & Ed). simpl in Ed. rewrite orb_false_r in Ed.
      destruct (Y_calls _ _ _ Y i mc cl' Hm Hc'). split; congruence.
    + intros k it o t Lk Hdn. rewrite G3. rewrite Hgi in Lk. rewrite Hfd in Hdn. eapply (Y_last _ _ _ Y); eauto.
    + intros it Hit. rewrite Hgi in Hit. rewrite G4, Hnow. pose proof (Y_idle _ _ _ Y it Hit).
      unfold idle_of. destruct e; simpl; try lia; try contradiction.
Qed.

Lemma y_cancel c s m cid :
  Inv c s -> Sim c s m -> Y4 c s m ->
  let e := Cancel cid in
  Y4 c (fst (step c s e)) (mon_step c m e (canon (snd (step c s e)))) /\
  m_bad04 (mon_step c m e (canon (snd (step c s e)))) = m_bad04 m.
Proof.
  intros HI SM Y e.
  assert (Hlen : length (m_calls m) = length (callers s)) by apply (M_calls _ _ _ SM).
  destruct (nth_error (callers s) cid) as [cl|] eqn:Ec.
  - assert (Lc : cid < length (callers s)) by (apply nth_error_Some; congruence).
    destruct (nth_error (m_calls m) cid) as [mc|] eqn:Em; [|apply nth_error_None in Em; lia].
    destruct (Y_calls _ _ _ Y cid mc cl Em Ec) as [Ek Ed].
    destruct (cl_st cl) eqn:St.
    + assert (Es : step c s e = (s, [])) by (unfold e; simpl; unfold cancel_caller; now rewrite Ec, St).
      apply y_plain; auto; try exact Logic.I; try (rewrite Es; reflexivity).
      unfold late_exp_of. simpl. rewrite Em, Ed. unfold st_done. now rewrite St.
    + (* the caller is cancelled *)
      set (cl1 := mkcaller (cl_key cl) (cl_fid cl) (cl_creator cl) (cl_t cl) (Some Cancelled) (cl_arg cl) (cl_ko cl) (cl_more cl)).
      set (s1 := set_callers s (firstn cid (callers s) ++ cl1 :: skipn (S cid) (callers s))).
      assert (Es : step c s e = (s1, [CallerDone cid Cancelled (now s)])).
      { unfold e. simpl. unfold cancel_caller. now rewrite Ec, St. }
      destruct (basic_step c s e Logic.I HI) as (B1 & B2 & B3).
      pose proof (mon_step_04 c m e (canon (snd (step c s e))) (M_more _ _ _ SM)) as G.
      rewrite Es in *. cbn [fst snd] in *.
      assert (Ecan : canon [CallerDone cid Cancelled (now s)] = [CallerDone cid Cancelled (now s)]) by reflexivity.
      rewrite Ecan in *. cbn [calls_of bat_effect reg_calls dones_of e] in G. cbv zeta in G.
      assert (Hlt : (cid <? length (m_calls m)) = true) by lia.
      cbn [filter fst snd map] in G. rewrite Hlt in G. cbn [negb filter map fst snd] in G.
      destruct G as (G1 & G2 & G3 & G4).
      * unfold late_exp_of. cbn [is_cancel e]. rewrite Em, Ed. unfold st_done. now rewrite St.
      * reflexivity.
      * reflexivity.
      * cbn. rewrite (M_now _ _ _ SM), N.eqb_refl. reflexivity.
      * reflexivity.
      * split; [|exact G1].
        assert (Lf : length (firstn cid (callers s)) = cid) by (rewrite firstn_length; lia).
        constructor.
        -- intros i mc' cl' Hm' Hc'. rewrite G2 in Hm'.
           destruct (mark_done_nth _ _ _ _ _ Hm') as (mc0 & Hm & Ek0 & Ed0). cbn [Nat.add] in Ed0.
           change (callers s1) with (firstn cid (callers s) ++ cl1 :: skipn (S cid) (callers s)) in Hc'.
           destruct (Nat.eq_dec i cid) as [Ei|Ni].
           ++ subst i. rewrite nth_error_app2 in Hc' by lia. rewrite Lf, Nat.sub_diag in Hc'. cbn [nth_error] in Hc'.
              injection Hc' as <-. assert (mc0 = mc) by congruence. subst mc0. split; [cbn; congruence|].
              rewrite Ed0. unfold memb. cbn [existsb]. rewrite Nat.eqb_refl. cbn. now rewrite orb_true_r.
           ++ assert (Hc0 : nth_error (callers s) i = Some cl').
              { destruct (Nat.lt_ge_cases i cid) as [Li|Li].
                - rewrite nth_error_app1 in Hc' by lia. now rewrite nth_firstn_lt in Hc' by lia.
                - rewrite nth_error_app2 in Hc' by lia. rewrite Lf in Hc'.
                  destruct (i - cid) as [|d] eqn:Ei; [lia|]. cbn [nth_error] in Hc'. rewrite nth_skipn' in Hc'.
                  replace (S cid + d) with i in Hc' by lia. exact Hc'. }
              destruct (Y_calls _ _ _ Y i mc0 cl' Hm Hc0). split; [congruence|]. rewrite Ed0.
              unfold memb. cbn [existsb]. assert ((i =? cid) = false) by lia. rewrite H1. cbn. now rewrite orb_false_r.
        -- intros k it o' t Lk Hdn. rewrite G3. eapply (Y_last _ _ _ Y); eauto.
        -- intros it Hit. rewrite G4. apply (Y_idle _ _ _ Y it Hit).
  - assert (Em : nth_error (m_calls m) cid = None).
    { apply nth_error_None. apply nth_error_None in Ec. lia. }
    assert (Es : step c s e = (s, [])) by (unfold e; simpl; unfold cancel_caller; now rewrite Ec).
    apply y_plain; auto; try exact Logic.I; try (rewrite Es; reflexivity).
    unfold late_exp_of. simpl. now rewrite Em.
Qed.

(* ---- every step, every run ------------------------------------------------------------------------------------------- *)

Lemma late_nil m e : is_cancel e = None -> late_exp_of m e [] = [].
Proof. intros H. unfold late_exp_of. rewrite H. apply late_expected_nil. Qed.

Lemma y_step c s m e :
  ev_ok e -> is_chain e = false -> Inv c s -> ZInv s -> Sim c s m -> Y4 c s m ->
  Y4 c (fst (step c s e)) (mon_step c m e (canon (snd (step c s e)))) /\
  m_bad04 (mon_step c m e (canon (snd (step c s e)))) = m_bad04 m.
Proof.
  intros Hev Hc HI Z SM Y. pose proof HI as (I & F & T & S & K & _).
  destruct e as [a ko|a ko mm|l|dt|b k r|b x|b|cid|n]; try discriminate.
  - apply (y_calls c s m (Call a ko) [(a, ko)]); auto; try exact Logic.I;
      simpl; destruct (do_call c a ko 0 s); simpl; try reflexivity; now rewrite app_nil_r.
  - apply (y_calls c s m (Burst l) l); auto; try exact Logic.I; destruct l; reflexivity.
  - apply y_plain; auto; try exact Logic.I; simpl.
    + now apply late_nil.
    + apply dones_of_starts, advance_os.
    + apply advance_callers.
    + apply advance_fdone.
    + apply advance_gitems.
  - destruct (find_batch s b) as [B|] eqn:FB.
    + apply find_batch_some in FB as [HB Hid]. subst b.
      destruct (lookup (b_futs B) k) as [f|] eqn:Lk.
      * exact (y_yield c s m B k f r HI Z SM Y HB Lk).
      * apply (y_end_core c s m _ B ProtocolErr (EvYield k r)); auto; try exact Logic.I.
        -- simpl. rewrite (find_batch_in c s B I HB), Lk. reflexivity.
        -- intros mb FL E2. simpl. rewrite FL, E2, memb_map_fst, Lk. reflexivity.
    + apply y_plain; auto; try exact Logic.I; simpl; try rewrite FB; try reflexivity.
      * now rewrite (find_live_none c s m b SM FB).
      * now apply late_nil.
  - destruct (find_batch s b) as [B|] eqn:FB.
    + apply find_batch_some in FB as [HB Hid]. subst b.
      apply (y_end_core c s m _ B (RaisedExc x) (EvRaise x)); auto; try exact Logic.I.
      * simpl. rewrite (find_batch_in c s B I HB). reflexivity.
      * intros mb FL E2. simpl. rewrite FL. reflexivity.
    + apply y_plain; auto; try exact Logic.I; simpl; try rewrite FB; try reflexivity.
      * now rewrite (find_live_none c s m b SM FB).
      * now apply late_nil.
  - destruct (find_batch s b) as [B|] eqn:FB.
    + apply find_batch_some in FB as [HB Hid]. subst b.
      apply (y_end_core c s m _ B Missing EvFin); auto; try exact Logic.I.
      * simpl. rewrite (find_batch_in c s B I HB). reflexivity.
      * intros mb FL E2. simpl. rewrite FL. reflexivity.
    + apply y_plain; auto; try exact Logic.I; simpl; try rewrite FB; try reflexivity.
      * now rewrite (find_live_none c s m b SM FB).
      * now apply late_nil.
  - exact (y_cancel c s m cid HI SM Y).
  - apply y_plain; auto; try exact Logic.I; simpl; try reflexivity. now apply late_nil.
Qed.

Lemma y_run c evs : forall s m,
  Forall ev_ok evs -> forallb (fun e => negb (is_chain e)) evs = true ->
  Inv c s -> ZInv s -> Sim c s m -> Y4 c s m ->
  exists m', mon_run c m evs (map canon (fst (run_from c s evs))) = Some m' /\ m_bad04 m' = m_bad04 m /\
             Inv c (snd (run_from c s evs)) /\ Sim c (snd (run_from c s evs)) m' /\ Y4 c (snd (run_from c s evs)) m'.
Proof.
  induction evs as [|e r IH]; intros s m He Hc HI Z SM Y; simpl.
  - exists m. auto.
  - inversion He as [|? ? H1 H2]; subst. simpl in Hc. apply andb_prop in Hc as [Hc1 Hc2]. apply negb_true_iff in Hc1.
    destruct (sim_step c s m e H1 Hc1 HI Z SM) as [SM1 _].
    destruct (y_step c s m e H1 Hc1 HI Z SM Y) as [Y1 B1].
    pose proof (Inv_step c s e H1 HI) as HI1. destruct (step_Z c s e Hc1 Z) as [Z1 _].
    destruct (step c s e) as [s1 os]. simpl in *.
    destruct (IH s1 (mon_step c m e (canon os)) H2 Hc2 HI1 Z1 SM1 Y1) as (m' & R & Bm & A1 & A2 & A3).
    destruct (run_from c s1 r) as [tr s2]. simpl in *. exists m'. split; [exact R|]. split; [congruence|]. auto.
Qed.

(* ---- the end of the run: who is still waiting ------------------------------------------------------------------- *)

Lemma not_done_waiting : forall calls cs i,
  Forall2 (fun mc cl => mc_done mc = st_done cl) calls cs -> not_done_from i calls = waiting_from i cs.
Proof.
  intros calls cs i H. revert i. induction H as [|mc cl calls' cs' E H IH]; intros i; simpl; auto.
  rewrite E. unfold st_done. destruct (cl_st cl); simpl; now rewrite IH.
Qed.

Lemma waiting_from_nil cs : (forall cl, In cl cs -> cl_st cl <> None) -> forall i, waiting_from i cs = [].
Proof.
  induction cs as [|cl r IH]; intros H i; simpl; auto.
  destruct (cl_st cl) eqn:St; [apply IH; intros; apply H; now right|]. exfalso. apply (H cl); [now left | exact St].
Qed.

Lemma list_eqb_nat_refl l : list_eqb Nat.eqb l l = true.
Proof. apply list_eqb_refl. apply Nat.eqb_refl. Qed.

(* COMPLETENESS of ok_C04 on event lists without Chain events (batch_timeout > 0) *)
Lemma ok_C04_complete c evs :
  cfg_ok c -> (0 < c_bt c)%N -> Forall ev_ok evs -> forallb (fun e => negb (is_chain e)) evs = true ->
  ok_C04 (BCase c evs (map canon (fst (run c evs))) (waiting_callers (snd (run c evs)))) = true.
Proof.
  intros Hc Hbt He Hn. unfold ok_C04. rewrite (ok_basic_complete c evs _ Hc He). simpl.
  destruct (init_LF c Hc) as [I0 F0].
  assert (HI : Inv c (init c)) by (split; [exact I0|]; split; [exact F0|]; split; [apply init_T | apply init_K]).
  assert (Z0 : ZInv (init c)) by (intros cl []).
  assert (Y0 : Y4 c (init c) (minit c)).
  { constructor; simpl; [intros [|i] ? ? H; discriminate | intros ? ? ? ? H; discriminate | intros ? []]. }
  destruct (y_run c evs (init c) (minit c) He Hn HI Z0 (sim_init c) Y0) as (m' & R & Bm & HIf & SMf & Yf).
  unfold run. rewrite R. simpl in Bm. rewrite Bm. simpl.
  set (sf := snd (run_from c (init c) evs)) in *. pose proof HIf as (If & Ff & Tf & Sf & Kf & Cf & Wf).
  unfold end_ok04, waiting_callers.
  assert (PW : Forall2 (fun mc cl => mc_done mc = st_done cl) (m_calls m') (callers sf)).
  { apply Forall2_nth; [apply (M_calls _ _ _ SMf)|]. intros i mc cl Hm Hc'. apply (Y_calls _ _ _ Yf i mc cl Hm Hc'). }
  rewrite (not_done_waiting _ _ 0 PW), list_eqb_nat_refl. simpl.
  unfold drained. destruct (length (m_live m') =? 0) eqn:El; simpl; auto.
  destruct (c_bt c <=? m_idle m')%N eqn:Ei; auto.
  rewrite waiting_from_nil; [reflexivity|].
  intros cl Hcl St.
  assert (Hd : is_done sf (cl_fid cl) = false) by (apply Wf; auto).
  destruct (C_item _ Cf cl Hcl) as (it & Hit & Ekf). unfold kf in Ekf. injection Ekf as E1 E2.
  rewrite <- E2 in Hd.
  assert (Lr : length (running sf) = 0).
  { rewrite <- (Forall2_len _ _ _ (M_live _ _ _ SMf)). lia. }
  destruct (undone_located c sf it If Ff Sf Kf Hit Hd) as [H|[(w & Hw & H)|(B & HB & _)]].
  - unfold coll_items in H. destruct (coll sf) as [[its dl]|] eqn:C; [|contradiction].
    destruct (T_coll _ _ Tf its dl C) as (x & [[pre Ep] _] & _ & Hdl & _ & _ & Hlt). specialize (Hlt Hbt).
    assert (Hx : In x (g_items sf)).
    { apply (coll_sub sf x Ff). unfold coll_items. rewrite C, Ep. apply in_or_app. right. now left. }
    pose proof (Y_idle _ _ _ Yf x Hx). lia.
  - assert (free sf = 0) by (apply (L_wait _ _ If); intros E; rewrite E in Hw; destruct Hw).
    pose proof (L_slots _ _ If). destruct Hc as [_ Hc2]. lia.
  - destruct (running sf); [destruct HB | discriminate].
Qed.

(* the verdict of the C09 check is the conjunction ok_C04 && ok_C11 *)
Lemma ok_C09_complete c evs :
  cfg_ok c -> (0 < c_bt c)%N -> Forall ev_ok evs -> forallb (fun e => negb (is_chain e)) evs = true ->
  ok_C04 (BCase c evs (map canon (fst (run c evs))) (waiting_callers (snd (run c evs)))) &&
  ok_C11 (BCase c evs (map canon (fst (run c evs))) (waiting_callers (snd (run c evs)))) = true.
Proof.
  intros Hc Hbt He Hn. rewrite (ok_C04_complete c evs Hc Hbt He Hn), (ok_C11_complete c evs _ Hc He Hn). reflexivity.
Qed.
