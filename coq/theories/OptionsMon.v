(* OptionsMon.v — the C15 trace monitor [Case_C15.ok] and the reference semantics of Options.v:
     completeness  the monitor accepts every case whose three traces are the reference trace,
                   for ALL configurations and ALL (well-formed) scripts / plans   (no false alarm
                   whenever the implementation agrees with the reference semantics);
     soundness     [ok c = true] implies the readable statement, no model involved.
   Proofs only (plus the decidable well-formedness predicates the statements need). *)
From Coq Require Import List Arith Bool NArith Lia.
Import ListNotations.
Require Import Aiuti.CaseLib Aiuti.Keys Aiuti.Case_C14 Aiuti.Options Aiuti.OptionsInv Aiuti.Case_C15.

Local Arguments Nat.max : simpl never.
Local Arguments N.max : simpl never.
Local Arguments N.add : simpl never.
Local Arguments N.leb : simpl never.
Local Arguments N.eqb : simpl never.

(* ---- well-formedness of scripts (what the driver guarantees) ---------------- *)

Fixpoint sub_args (sc : list bufev) : list nat :=
  match sc with
  | [] => []
  | Sub a :: r => a :: sub_args r
  | BAdv _ :: r => sub_args r
  end.

Fixpoint nodupb (l : list nat) : bool :=
  match l with
  | [] => true
  | x :: r => negb (nmem x r) && nodupb r
  end.

(* every argument is handed to the buffer at most once *)
Definition buf_wf (sc : list bufev) : bool := nodupb (sub_args sc).

(* ---- boolean equalities ------------------------------------------------------ *)

Lemma nmem_In x l : nmem x l = true <-> In x l.
Proof.
  unfold nmem. rewrite existsb_exists. split.
  - intros [y [Hy E]]. apply Nat.eqb_eq in E. now subst.
  - intros H. exists x. split; [assumption | apply Nat.eqb_refl].
Qed.

Lemma nsubset_incl a b : nsubset a b = true <-> incl a b.
Proof.
  unfold nsubset. rewrite forallb_forall. split.
  - intros H x Hx. apply nmem_In. now apply H.
  - intros H x Hx. apply nmem_In. now apply H.
Qed.

Lemma nodupb_NoDup l : nodupb l = true -> NoDup l.
Proof.
  induction l as [|x r IH]; simpl; intros H; [constructor|].
  apply andb_prop in H as [H1 H2]. constructor; [|now apply IH].
  intros Hin. apply nmem_In in Hin. now rewrite Hin in H1.
Qed.

Lemma nsame_refl a : nsame a a = true.
Proof. unfold nsame. assert (nsubset a a = true) as -> by (apply nsubset_incl, incl_refl). reflexivity. Qed.

Lemma nsame_iff a b : nsame a b = true <-> (forall x, In x a <-> In x b).
Proof.
  unfold nsame. rewrite andb_true_iff, !nsubset_incl. unfold incl. firstorder.
Qed.

Lemma flushes_eqb_refl l : flushes_eqb l l = true.
Proof.
  apply list_eqb_refl. intros [t a]. unfold flush_eqb. simpl. now rewrite N.eqb_refl, nsame_refl.
Qed.

Lemma nat_list_eqb_eq l1 l2 : list_eqb Nat.eqb l1 l2 = true -> l1 = l2.
Proof. apply list_eqb_eq. intros x y. apply Nat.eqb_eq. Qed.

Lemma start_eqb_eq p q : start_eqb p q = true -> p = q.
Proof.
  destruct p as [t1 k1], q as [t2 k2]. unfold start_eqb. simpl. intros H.
  apply andb_prop in H as [H1 H2]. apply N.eqb_eq in H1. apply nat_list_eqb_eq in H2. now subst.
Qed.

Lemma done_eqb_eq p q : done_eqb p q = true -> p = q.
Proof.
  destruct p as [t1 k1], q as [t2 k2]. unfold done_eqb. simpl. intros H.
  apply andb_prop in H as [H1 H2]. apply N.eqb_eq in H1. apply Nat.eqb_eq in H2. now subst.
Qed.

Lemma opt_done_eqb_eq p q : opt_eqb done_eqb p q = true -> p = q.
Proof.
  destruct p, q; simpl; try discriminate; try reflexivity. intros H. f_equal. now apply done_eqb_eq.
Qed.

Lemma btrace_eqb_eq a b : btrace_eqb a b = true -> a = b.
Proof.
  destruct a as [s1 d1], b as [s2 d2]. unfold btrace_eqb. simpl. intros H.
  apply andb_prop in H as [H1 H2].
  apply (list_eqb_eq _ start_eqb_eq) in H1. apply (list_eqb_eq _ opt_done_eqb_eq) in H2. now subst.
Qed.

Lemma btrace_eqb_refl a : btrace_eqb a a = true.
Proof.
  destruct a as [s d]. unfold btrace_eqb. simpl.
  rewrite (list_eqb_refl start_eqb), (list_eqb_refl (opt_eqb done_eqb)); [reflexivity| |].
  - intros [[t b]|]; simpl; [|reflexivity]. unfold done_eqb. simpl. now rewrite N.eqb_refl, Nat.eqb_refl.
  - intros [t k]. unfold start_eqb. simpl. rewrite N.eqb_refl. simpl.
    apply list_eqb_refl. apply Nat.eqb_refl.
Qed.

(* ---- association lists --------------------------------------------------------- *)

Lemma assoc_In {A} k (l : list (nat * A)) v : assoc k l = Some v -> In (k, v) l.
Proof.
  induction l as [|[k' v'] r IH]; simpl; [discriminate|].
  destruct (Nat.eqb k k') eqn:E.
  - apply Nat.eqb_eq in E. subst. intros [= ->]. now left.
  - intros H. right. now apply IH.
Qed.

Lemma assoc_NoDup {A} k (l : list (nat * A)) v :
  NoDup (map fst l) -> In (k, v) l -> assoc k l = Some v.
Proof.
  induction l as [|[k' v'] r IH]; simpl; [contradiction|].
  intros Hnd [H|H].
  - injection H as -> ->. now rewrite Nat.eqb_refl.
  - inversion Hnd as [|? ? Hn Hr]; subst.
    destruct (Nat.eqb k k') eqn:E.
    + apply Nat.eqb_eq in E. subst. exfalso. apply Hn. apply in_map_iff. now exists (k', v).
    + now apply IH.
Qed.

Lemma unassoc_In {A} k (l : list (nat * A)) p : In p (unassoc k l) -> In p l.
Proof. unfold unassoc. intros H. now apply filter_In in H. Qed.

(* ====================================================================================== *)
(* 1a. buffer: completeness                                                                *)
(* ====================================================================================== *)

Lemma sub_times_args sc : forall now, map fst (sub_times sc now) = sub_args sc.
Proof.
  induction sc as [|[a|dt] r IH]; intros now; simpl; [reflexivity| |]; now rewrite IH.
Qed.

Definition flush_ok (T : N) (times : list (nat * N)) (f : N * list nat) : bool :=
  match snd f with [] => false | _ => true end &&
  match last_sub times (snd f) with
  | Some m => N.eqb (fst f) (m + T)
  | None => false end.

Lemma last_sub_snoc times acc a m t :
  last_sub times acc = Some m -> assoc a times = Some t ->
  last_sub times (acc ++ [a]) = Some (N.max m t).
Proof.
  unfold last_sub. intros H1 H2. rewrite fold_left_app. simpl. now rewrite H1, H2.
Qed.

Definition cur_ok (times : list (nat * N)) (now : N) (cur : option (N * list nat)) : Prop :=
  match cur with
  | None => True
  | Some (last, acc) => acc <> [] /\ last_sub times acc = Some last /\ (last <= now)%N
  end.

Lemma buf_run_ok T times : NoDup (map fst times) ->
  forall sc now cur,
    incl (sub_times sc now) times -> cur_ok times now cur ->
    forallb (flush_ok T times) (buf_run T sc now cur) = true.
Proof.
  intros Hnd. induction sc as [|[a|dt] r IH]; intros now cur Hincl Hcur; simpl; [reflexivity| |].
  - simpl in Hincl. assert (Ha : assoc a times = Some now).
    { apply assoc_NoDup; [assumption|]. apply Hincl. now left. }
    apply IH; [intros x Hx; apply Hincl; now right|].
    destruct cur as [[last acc]|]; simpl.
    + destruct Hcur as (Hne & Hl & Hle). repeat split.
      * destruct acc; discriminate.
      * rewrite (last_sub_snoc _ _ _ _ _ Hl Ha). f_equal. lia.
      * lia.
    + repeat split; [discriminate| |lia]. unfold last_sub. simpl. rewrite Ha. f_equal. lia.
  - simpl in Hincl. destruct cur as [[last acc]|].
    + destruct Hcur as (Hne & Hl & Hle).
      destruct (last + T <=? now + dt)%N eqn:E.
      * simpl. rewrite IH; [|assumption|exact I]. rewrite andb_true_r.
        unfold flush_ok. simpl. rewrite Hl, N.eqb_refl. destruct acc; [congruence|reflexivity].
      * apply IH; [assumption|]. simpl. repeat split; try assumption. lia.
    + apply IH; [assumption|exact I].
Qed.

Lemma buffer_ok_ref T sc : buf_wf sc = true -> buffer_ok T sc (buf_run T sc 0%N None) = true.
Proof.
  intros Hwf. unfold buffer_ok. apply (buf_run_ok T (sub_times sc 0%N)).
  - rewrite sub_times_args. now apply nodupb_NoDup.
  - apply incl_refl.
  - exact I.
Qed.

Lemma buffer_complete : forall (t : option N) (sc : list bufev),
  buf_wf sc = true ->
  let m := buf_trace t sc in ok (CBuffer t sc m m m) = true.
Proof.
  intros t sc Hwf m. simpl. rewrite !flushes_eqb_refl. simpl.
  unfold m, buf_trace. now apply buffer_ok_ref.
Qed.

(* ====================================================================================== *)
(* 1b. batcher: an invariant of the reference semantics, then completeness                 *)
(* ====================================================================================== *)

Section BatcherInv.
  Variable c : bcfg.

  (* keys : the keys of the calls so far (index = caller); fk : the key of every future so far *)
  Definition tk_ok (keys fk : list nat) (tk : tasks) : Prop :=
    tk <> [] /\ length tk <= Nat.max 1 (cB c) /\
    forall k f, In (k, f) tk -> In k keys /\ nth_error fk f = Some k.

  Definition start_ok (keys : list nat) (st : N * list nat) : Prop :=
    snd st <> [] /\ length (snd st) <= Nat.max 1 (cB c) /\ incl (snd st) keys.

  Definition run_ok (fk : list nat) (sts : list (N * list nat)) (bt : nat * tasks) : Prop :=
    (exists t, nth_error sts (fst bt) = Some (t, map fst (snd bt))) /\
    (forall k f, In (k, f) (snd bt) -> nth_error fk f = Some k).

  Record Inv (keys fk : list nat) (s : bst) : Prop := mkInv {
    i_ncall : ncall s = length keys;
    i_nfut : nfut s = length fk;
    i_coll : forall tk d, coll s = Some (tk, d) -> tk_ok keys fk tk /\ length tk < cB c;
    i_waitq : forall tk, In tk (waitq s) -> tk_ok keys fk tk;
    i_running : forall bt, In bt (running s) -> run_ok fk (starts s) bt;
    i_ret_pend : forall k f, In (k, RPend f) (ret s) -> nth_error fk f = Some k;
    i_ret_done : forall k b ex, In (k, RDone b ex) (ret s) ->
                   exists st, nth_error (starts s) b = Some st /\ In k (snd st);
    i_waiting : forall cl f, In (cl, f) (waiting s) ->
                   exists k, nth_error keys cl = Some k /\ nth_error fk f = Some k;
    i_starts : forall st, In st (starts s) -> start_ok keys st;
    i_dones : forall cl t b, In (cl, (t, b)) (dones s) ->
                   exists k st, nth_error keys cl = Some k /\ nth_error (starts s) b = Some st /\ In k (snd st)
  }.

  Lemma nth_error_app_Some {A} (l l' : list A) n x :
    nth_error l n = Some x -> nth_error (l ++ l') n = Some x.
  Proof.
    intros H. rewrite nth_error_app1; [assumption|]. apply nth_error_Some. congruence.
  Qed.

  Lemma nth_error_snoc {A} (l : list A) x : nth_error (l ++ [x]) (length l) = Some x.
  Proof. rewrite nth_error_app2, Nat.sub_diag; [reflexivity|lia]. Qed.

  Lemma tk_ok_mono keys fk tk k' fk' :
    tk_ok keys fk tk -> tk_ok (keys ++ k') (fk ++ fk') tk.
  Proof.
    intros (H1 & H2 & H3). repeat split; try assumption.
    - apply in_or_app. left. now apply (H3 k f).
    - apply nth_error_app_Some. now apply (H3 k f).
  Qed.

  Lemma start_ok_mono keys st k' : start_ok keys st -> start_ok (keys ++ k') st.
  Proof. intros (H1 & H2 & H3). repeat split; try assumption. now apply incl_appl. Qed.

  Lemma run_ok_mono fk sts bt fk' : run_ok fk sts bt -> run_ok (fk ++ fk') sts bt.
  Proof. intros [H1 H2]. split; [assumption|]. intros k f H. apply nth_error_app_Some. now apply H2. Qed.

  (* the semaphore loop: what it does to (queue, running, starts) *)
  Definition extends {A} (l l' : list A) : Prop := forall n x, nth_error l n = Some x -> nth_error l' n = Some x.

  Lemma start_loop_inv keys fk t : forall q run st,
    (forall tk, In tk q -> tk_ok keys fk tk) ->
    (forall bt, In bt run -> run_ok fk st bt) ->
    (forall x, In x st -> start_ok keys x) ->
    let '(q', run', st') := start_loop (cC c) t q run st in
    (forall tk, In tk q' -> tk_ok keys fk tk) /\
    (forall bt, In bt run' -> run_ok fk st' bt) /\
    (forall x, In x st' -> start_ok keys x) /\
    extends st st'.
  Proof.
    induction q as [|b q IH]; intros run st Hq Hr Hs; simpl.
    - (split; [|split; [|split]]); try assumption; unfold extends; auto.
    - destruct (length run <? cC c) eqn:E.
      + specialize (IH (run ++ [(length st, b)]) (st ++ [(t, map fst b)])).
        destruct (start_loop (cC c) t q (run ++ [(length st, b)]) (st ++ [(t, map fst b)])) as [[q' run'] st'].
        destruct IH as (I1 & I2 & I3 & I4).
        * intros tk H. apply Hq. now right.
        * intros bt H. apply in_app_or in H as [H|[<-|[]]].
          -- destruct (Hr bt H) as [[t0 H1] H2]. split; [|assumption]. exists t0. now apply nth_error_app_Some.
          -- destruct (Hq b (or_introl eq_refl)) as (_ & _ & H3). split; simpl.
             ++ exists t. apply nth_error_snoc.
             ++ intros k f H. now apply (H3 k f).
        * intros x H. apply in_app_or in H as [H|[<-|[]]]; [now apply Hs|].
          destruct (Hq b (or_introl eq_refl)) as (H1 & H2 & H3). repeat split; simpl.
          -- destruct b; [congruence|discriminate].
          -- now rewrite map_length.
          -- intros k Hk. apply in_map_iff in Hk as [[k' f] [<- Hk]]. now apply (H3 k' f).
        * (split; [|split; [|split]]); try assumption. intros n x Hn. apply I4. now apply nth_error_app_Some.
      + (split; [|split; [|split]]); try assumption; unfold extends; auto.
  Qed.

  (* a batch leaves the collector *)
  Lemma dispatch_inv keys fk t tk s :
    Inv keys fk s -> tk_ok keys fk tk ->
    Inv keys fk (dispatch c t tk s).
  Proof.
    intros HI Htk. unfold dispatch.
    pose proof (start_loop_inv keys fk t (waitq s ++ [tk]) (running s) (starts s)) as H.
    destruct (start_loop (cC c) t (waitq s ++ [tk]) (running s) (starts s)) as [[q' run'] st'].
    destruct H as (I1 & I2 & I3 & I4).
    - intros x Hx. apply in_app_or in Hx as [Hx|[<-|[]]]; [now apply (i_waitq _ _ _ HI)|assumption].
    - apply (i_running _ _ _ HI).
    - apply (i_starts _ _ _ HI).
    - constructor; simpl; try (now destruct HI); try assumption.
      + intros k b ex Hin. destruct (i_ret_done _ _ _ HI k b ex Hin) as [st [H1 H2]]. exists st. split; [now apply I4|assumption].
      + intros cl t0 b Hin. destruct (i_dones _ _ _ HI cl t0 b Hin) as (k & st & H1 & H2 & H3).
        exists k, st. repeat split; try assumption. now apply I4.
  Qed.

  (* changing only the clock, the collection slot (to something acceptable) or shrinking ret keeps Inv *)
  Lemma inv_set_coll keys fk s tk d :
    Inv keys fk s -> tk_ok keys fk tk -> length tk < cB c ->
    Inv keys fk (mkb (now s) (Some (tk, d)) (waitq s) (running s) (ret s) (waiting s) (ncall s) (nfut s) (starts s) (dones s)).
  Proof.
    intros HI Htk Hlen. destruct HI. constructor; simpl; try assumption.
    intros tk0 d0 [= <- <-]. now split.
  Qed.

  Lemma ret_fold_In (b : nat) (ex : N) (pos : bool) (tk : tasks) : forall r p,
    In p (fold_left (fun (r : list (nat * rst)) (kf : nat * nat) => if pos then (fst kf, RDone b ex) :: unassoc (fst kf) r
                                 else unassoc (fst kf) r) tk r) ->
    In p r \/ (exists k, In k (map fst tk) /\ p = (k, RDone b ex)).
  Proof.
    induction tk as [|[k f] tk IH]; intros r p H; simpl in *; [now left|].
    apply IH in H as [H|H].
    - destruct pos.
      + destruct H as [<-|H]; [right; exists k; split; [now left|reflexivity] | left; now apply unassoc_In in H].
      + left. now apply unassoc_In in H.
    - right. destruct H as [k' [H1 H2]]. exists k'. split; [now right|assumption].
  Qed.

  Definition keys_after (keys : list nat) (x : bev) : list nat :=
    match x with BCall k => keys ++ [k] | _ => keys end.

  Lemma bstep_inv keys fk s x :
    Inv keys fk s -> exists fk', Inv (keys_after keys x) fk' (bstep c s x).
  Proof.
    intros HI. destruct x as [k|b|dt]; simpl.
    - (* call *)
      destruct (assoc k (ret s)) as [[f|b ex]|] eqn:Ea.
      + (* same key in flight *)
        exists fk. apply assoc_In in Ea. pose proof (i_ret_pend _ _ _ HI k f Ea) as Hf.
        rewrite <- (app_nil_r fk).
        constructor; simpl.
        * rewrite app_length. simpl. rewrite (i_ncall _ _ _ HI). lia.
        * rewrite app_nil_r. apply (i_nfut _ _ _ HI).
        * intros tk d H. destruct (i_coll _ _ _ HI tk d H). split; [now apply tk_ok_mono|assumption].
        * intros tk H. apply tk_ok_mono. now apply (i_waitq _ _ _ HI).
        * intros bt H. apply run_ok_mono. now apply (i_running _ _ _ HI).
        * intros k0 f0 H. apply nth_error_app_Some. now apply (i_ret_pend _ _ _ HI).
        * apply (i_ret_done _ _ _ HI).
        * intros cl f0 H. apply in_app_or in H as [H|[[= <- <-]|[]]].
          -- destruct (i_waiting _ _ _ HI cl f0 H) as [k0 [H1 H2]]. exists k0. split; now apply nth_error_app_Some.
          -- exists k. split; [rewrite (i_ncall _ _ _ HI); apply nth_error_snoc | now apply nth_error_app_Some].
        * intros st H. apply start_ok_mono. now apply (i_starts _ _ _ HI).
        * intros cl t b H. destruct (i_dones _ _ _ HI cl t b H) as (k0 & st & H1 & H2 & H3).
          exists k0, st. repeat split; try assumption. now apply nth_error_app_Some.
      + (* retained result *)
        exists fk. apply assoc_In in Ea. destruct (i_ret_done _ _ _ HI k b ex Ea) as [st0 [Hs1 Hs2]].
        rewrite <- (app_nil_r fk).
        constructor; simpl.
        * rewrite app_length. simpl. rewrite (i_ncall _ _ _ HI). lia.
        * rewrite app_nil_r. apply (i_nfut _ _ _ HI).
        * intros tk d H. destruct (i_coll _ _ _ HI tk d H). split; [now apply tk_ok_mono|assumption].
        * intros tk H. apply tk_ok_mono. now apply (i_waitq _ _ _ HI).
        * intros bt H. apply run_ok_mono. now apply (i_running _ _ _ HI).
        * intros k0 f0 H. apply nth_error_app_Some. now apply (i_ret_pend _ _ _ HI).
        * apply (i_ret_done _ _ _ HI).
        * intros cl f0 H. destruct (i_waiting _ _ _ HI cl f0 H) as [k0 [H1 H2]]. exists k0. split; now apply nth_error_app_Some.
        * intros st H. apply start_ok_mono. now apply (i_starts _ _ _ HI).
        * intros cl t b0 H. apply in_app_or in H as [H|[[= <- <- <-]|[]]].
          -- destruct (i_dones _ _ _ HI cl t b0 H) as (k0 & st & H1 & H2 & H3).
             exists k0, st. repeat split; try assumption. now apply nth_error_app_Some.
          -- exists k, st0. repeat split; try assumption. rewrite (i_ncall _ _ _ HI). apply nth_error_snoc.
      + (* a new item *)
        exists (fk ++ [k]).
        set (f := nfut s). set (cl := ncall s).
        set (tk := match coll s with Some (t, _) => t ++ [(k, f)] | None => [(k, f)] end).
        set (s1 := mkb (now s) (coll s) (waitq s) (running s) ((k, RPend f) :: ret s)
                       (waiting s ++ [(cl, f)]) (S cl) (S f) (starts s) (dones s)).
        assert (Hkf : nth_error (fk ++ [k]) f = Some k).
        { unfold f. rewrite (i_nfut _ _ _ HI). apply nth_error_snoc. }
        assert (HI1 : Inv (keys ++ [k]) (fk ++ [k]) s1).
        { constructor; simpl.
          - rewrite app_length. simpl. unfold cl. rewrite (i_ncall _ _ _ HI). lia.
          - rewrite app_length. simpl. unfold f. rewrite (i_nfut _ _ _ HI). lia.
          - intros tk0 d H. destruct (i_coll _ _ _ HI tk0 d H). split; [now apply tk_ok_mono|assumption].
          - intros tk0 H. apply tk_ok_mono. now apply (i_waitq _ _ _ HI).
          - intros bt H. apply run_ok_mono. now apply (i_running _ _ _ HI).
          - intros k0 f0 [[= <- <-]|H]; [assumption|]. apply nth_error_app_Some. now apply (i_ret_pend _ _ _ HI).
          - intros k0 b ex [H|H]; [discriminate|]. now apply (i_ret_done _ _ _ HI k0 b ex).
          - intros cl0 f0 H. apply in_app_or in H as [H|[[= <- <-]|[]]].
            + destruct (i_waiting _ _ _ HI cl0 f0 H) as [k0 [H1 H2]]. exists k0. split; now apply nth_error_app_Some.
            + exists k. split; [unfold cl; rewrite (i_ncall _ _ _ HI); apply nth_error_snoc | assumption].
          - intros st H. apply start_ok_mono. now apply (i_starts _ _ _ HI).
          - intros cl0 t b H. destruct (i_dones _ _ _ HI cl0 t b H) as (k0 & st & H1 & H2 & H3).
            exists k0, st. repeat split; try assumption. now apply nth_error_app_Some. }
        assert (Htk : tk_ok (keys ++ [k]) (fk ++ [k]) tk).
        { unfold tk. destruct (coll s) as [[t0 d0]|] eqn:Ec.
          - destruct (i_coll _ _ _ HI t0 d0 Ec) as [(H1 & H2 & H3) H4]. split; [|split].
            + destruct t0; discriminate.
            + rewrite app_length. simpl. lia.
            + intros k0 f0 H. apply in_app_or in H as [H|[[= <- <-]|[]]]; split.
              * apply in_or_app. left. now apply (H3 k0 f0).
              * apply nth_error_app_Some. now apply (H3 k0 f0).
              * apply in_or_app. right. now left.
              * assumption.
          - split; [|split].
            + discriminate.
            + simpl. lia.
            + intros k0 f0 [[= <- <-]|[]]. split; [|assumption]. apply in_or_app. right. now left. }
        fold f. fold cl. fold tk. fold s1.
        destruct (cB c <=? length tk) eqn:E.
        * now apply dispatch_inv.
        * apply Nat.leb_gt in E. now apply (inv_set_coll _ _ s1).
    - (* the batch function returns *)
      exists fk. destruct (assoc b (running s)) as [tk|] eqn:Ea; [|assumption].
      apply assoc_In in Ea. destruct (i_running _ _ _ HI _ Ea) as [[t0 Hst] Hfut]. simpl in Hst, Hfut.
      pose proof (start_loop_inv keys fk (now s) (waitq s) (unassoc b (running s)) (starts s)) as H.
      destruct (start_loop (cC c) (now s) (waitq s) (unassoc b (running s)) (starts s)) as [[q' run'] st'].
      destruct H as (I1 & I2 & I3 & I4).
      { apply (i_waitq _ _ _ HI). }
      { intros bt Hb. apply (i_running _ _ _ HI). now apply unassoc_In in Hb. }
      { apply (i_starts _ _ _ HI). }
      constructor; simpl; try (now destruct HI); try assumption.
      + intros k f H. apply ret_fold_In in H as [H|[k0 [_ H]]]; [now apply (i_ret_pend _ _ _ HI)|discriminate].
      + intros k b0 ex H. apply ret_fold_In in H as [H|[k0 [Hk H]]].
        * destruct (i_ret_done _ _ _ HI k b0 ex H) as [st [H1 H2]]. exists st. split; [now apply I4|assumption].
        * injection H as -> -> _. exists (t0, map fst tk). split; [now apply I4|assumption].
      + intros cl f H. apply filter_In in H as [H _]. now apply (i_waiting _ _ _ HI).
      + intros cl t b0 H. apply in_app_or in H as [H|H].
        * destruct (i_dones _ _ _ HI cl t b0 H) as (k0 & st & H1 & H2 & H3).
          exists k0, st. repeat split; try assumption. now apply I4.
        * apply in_map_iff in H as [[cl0 f] [[= <- <- <-] H]]. apply filter_In in H as [Hw Hf]. simpl in Hf.
          destruct (i_waiting _ _ _ HI cl0 f Hw) as [k0 [H1 H2]].
          apply existsb_exists in Hf as [f' [Hf' E]]. apply Nat.eqb_eq in E. subst f'.
          apply in_map_iff in Hf' as [[k1 f1] [Hf1 Hin]]. simpl in Hf1. subst f1.
          pose proof (Hfut k1 f Hin) as H3. rewrite H2 in H3. injection H3 as <-.
          exists k0, (t0, map fst tk). repeat split; [assumption|now apply I4|].
          simpl. apply in_map_iff. now exists (k0, f).
    - (* time passes *)
      exists fk.
      set (s1 := match coll s with
                 | Some (tk, d) => if (d <=? now s + dt)%N then dispatch c d tk s else s
                 | None => s end).
      assert (HI1 : Inv keys fk s1).
      { unfold s1. destruct (coll s) as [[tk d]|] eqn:Ec; [|assumption].
        destruct (d <=? now s + dt)%N; [|assumption].
        apply dispatch_inv; [assumption|]. now destruct (i_coll _ _ _ HI tk d Ec). }
      fold s1. destruct HI1. constructor; simpl; try assumption.
      + intros k f H. apply filter_In in H as [H _]. now apply i_ret_pend0.
      + intros k b ex H. apply filter_In in H as [H _]. now apply (i_ret_done0 k b ex).
  Qed.

  Lemma inv_init : Inv [] [] binit.
  Proof. constructor; simpl; try reflexivity; try discriminate; try contradiction. Qed.

  Lemma call_keys_app a b : call_keys (a ++ b) = call_keys a ++ call_keys b.
  Proof. induction a as [|[k|x|dt] r IH]; simpl; [reflexivity| |assumption|assumption]. now rewrite IH. Qed.

  Lemma fold_inv : forall sc keys fk s,
    Inv keys fk s -> exists fk', Inv (keys ++ call_keys sc) fk' (fold_left (bstep c) sc s).
  Proof.
    induction sc as [|x sc IH]; intros keys fk s HI; simpl.
    - exists fk. now rewrite app_nil_r.
    - destruct (bstep_inv keys fk s x HI) as [fk1 HI1].
      destruct (IH _ _ _ HI1) as [fk2 HI2]. exists fk2.
      destruct x as [k|b|dt]; simpl in *; [now rewrite <- app_assoc in HI2|assumption|assumption].
  Qed.

  Lemma brun_inv sc : exists fk, Inv (call_keys sc) fk (brun c sc).
  Proof. apply (fold_inv sc [] [] binit inv_init). Qed.

  (* combine keys with the per-caller answers *)
  Lemma combine_seq_In {A} (g : nat -> A) : forall (keys : list nat) a n k d,
    In (k, d) (combine keys (map g (seq a n))) ->
    exists i, nth_error keys i = Some k /\ d = g (a + i).
  Proof.
    induction keys as [|k0 keys IH]; intros a n k d H; simpl in H; [contradiction|].
    destruct n as [|n]; simpl in H; [contradiction|].
    destruct H as [[= <- <-]|H].
    - exists 0. split; [reflexivity|]. f_equal. lia.
    - apply IH in H as [i [H1 H2]]. exists (S i). split; [assumption|]. rewrite H2. f_equal. lia.
  Qed.

  Lemma inv_sane keys fk s : Inv keys fk s -> batcher_sane c keys (trace_of s) = true.
  Proof.
    intros HI. unfold batcher_sane, trace_of. simpl.
    rewrite map_length, seq_length, (i_ncall _ _ _ HI), Nat.eqb_refl.
    rewrite andb_true_r. apply andb_true_intro. split.
    - apply forallb_forall. intros st Hst. destruct (i_starts _ _ _ HI st Hst) as (H1 & H2 & H3).
      apply Nat.leb_le in H2. apply nsubset_incl in H3. rewrite H2, H3. simpl.
      destruct (snd st); [congruence|reflexivity].
    - apply forallb_forall. intros [k d] H. simpl.
      apply combine_seq_In in H as [i [H1 H2]]. simpl in H2. subst d.
      destruct (assoc i (dones s)) as [[t b]|] eqn:Ea; [|reflexivity].
      apply assoc_In in Ea. destruct (i_dones _ _ _ HI i t b Ea) as (k0 & st & K1 & K2 & K3).
      rewrite K2. rewrite H1 in K1. injection K1 as <-. now apply nmem_In.
  Qed.

  Lemma batcher_sane_ref sc : batcher_sane c (call_keys sc) (trace_of (brun c sc)) = true.
  Proof. destruct (brun_inv sc) as [fk HI]. now apply (inv_sane _ fk). Qed.
End BatcherInv.

Lemma batcher_complete : forall (cfg : ocfg) (sc : list bev),
  let m := trace_of (brun (resolve cfg) sc) in ok (CBatcher cfg sc m m m 0) = true.
Proof.
  intros cfg sc m. simpl. rewrite !btrace_eqb_refl. simpl. apply batcher_sane_ref.
Qed.

(* ====================================================================================== *)
(* 1c. per-loop plans: the registry of a well-formed plan, then completeness                *)
(* ====================================================================================== *)

Section ProductWf.
  Variables (St EV : Type).
  Variable sinit : St.
  Variable sstep : St -> EV -> St.

  Notation pstep := (pstep St EV sinit sstep).
  Notation prun := (prun St EV sinit sstep).

  (* "a closed loop is never used again": no [On l] after a [Close l] *)
  Definition wf_step (a : list nat * bool) (p : pev EV) : list nat * bool :=
    match p with
    | On l _ => (fst a, snd a && negb (nmem l (fst a)))
    | Close l => (l :: fst a, snd a)
    end.
  Definition closed_of (evs : list (pev EV)) : list nat := fst (fold_left wf_step evs ([], true)).
  Definition pwf (evs : list (pev EV)) : bool := snd (fold_left wf_step evs ([], true)).

  (* everything ever addressed to loop l *)
  Fixpoint evs_on (l : nat) (evs : list (pev EV)) : list EV :=
    match evs with
    | [] => []
    | On l' x :: r => if Nat.eqb l l' then x :: evs_on l r else evs_on l r
    | Close _ :: r => evs_on l r
    end.

  Lemma evs_on_app l a b : evs_on l (a ++ b) = evs_on l a ++ evs_on l b.
  Proof.
    induction a as [|[l' x|l'] r IH]; simpl; [reflexivity| |assumption].
    destruct (Nat.eqb l l'); simpl; now rewrite IH.
  Qed.

  Lemma pwf_snoc evs p :
    pwf (evs ++ [p]) = match p with On l _ => pwf evs && negb (nmem l (closed_of evs)) | Close _ => pwf evs end.
  Proof. unfold pwf, closed_of. rewrite fold_left_app. simpl. now destruct p. Qed.

  Lemma closed_snoc evs p :
    closed_of (evs ++ [p]) = match p with On _ _ => closed_of evs | Close l => l :: closed_of evs end.
  Proof. unfold closed_of. rewrite fold_left_app. simpl. now destruct p. Qed.

  Notation runl l evs := (fold_left sstep (evs_on l evs) sinit).

  Lemma registry_wf : forall evs, pwf evs = true ->
    let r := prun evs in
    (forall l, In l (closed_of evs) -> assoc l (live r) = None) /\
    (forall l s, In (l, s) (live r) -> s = runl l evs) /\
    (forall l s, In (l, s) (archive r) -> s = runl l evs /\ In l (closed_of evs)) /\
    (forall l, assoc l (live r) = None -> ~ In l (closed_of evs) -> evs_on l evs = []).
  Proof.
    induction evs as [|p evs IH] using rev_ind; intros Hwf r.
    - simpl. repeat split; try contradiction; reflexivity.
    - rewrite pwf_snoc in Hwf. unfold r. rewrite prun_snoc. rewrite closed_snoc.
      destruct p as [l x|l].
      + apply andb_prop in Hwf as [Hwf Hcl]. destruct (IH Hwf) as (A & B & C & D).
        assert (Hncl : ~ In l (closed_of evs)).
        { intros H. apply nmem_In in H. now rewrite H in Hcl. }
        cbn [Options.pstep live archive].
        split; [|split; [|split]].
        * intros l0 H0. simpl. destruct (Nat.eqb l0 l) eqn:E.
          -- apply Nat.eqb_eq in E. subst. contradiction.
          -- rewrite assoc_unassoc_other; [now apply A|]. intros ->. now rewrite Nat.eqb_refl in E.
        * intros l0 s0 [H0|H0].
          -- injection H0 as <- <-. rewrite evs_on_app, fold_left_app. simpl. rewrite Nat.eqb_refl. simpl.
             f_equal. destruct (assoc l (live (prun evs))) as [s1|] eqn:Ea.
             ++ apply B. now apply assoc_In.
             ++ now rewrite (D l Ea Hncl).
          -- unfold unassoc in H0. apply filter_In in H0 as [H0 Hne]. simpl in Hne.
             rewrite evs_on_app. simpl.
             destruct (Nat.eqb l0 l) eqn:E; [discriminate Hne|]. rewrite app_nil_r. now apply B.
        * intros l0 s0 H0. destruct (C l0 s0 H0) as [C1 C2]. split; [|assumption].
          rewrite evs_on_app. simpl. destruct (Nat.eqb l0 l) eqn:E.
          -- apply Nat.eqb_eq in E. subst. contradiction.
          -- now rewrite app_nil_r.
        * intros l0 H0 H1. simpl in H0. destruct (Nat.eqb l0 l) eqn:E; [discriminate|].
          rewrite evs_on_app. simpl. rewrite E, app_nil_r. apply D; [|assumption].
          rewrite assoc_unassoc_other in H0; [assumption|]. intros ->. now rewrite Nat.eqb_refl in E.
      + destruct (IH Hwf) as (A & B & C & D).
        assert (Hev : forall l0, evs_on l0 (evs ++ [Close l]) = evs_on l0 evs).
        { intros l0. rewrite evs_on_app. simpl. apply app_nil_r. }
        cbn [Options.pstep]. destruct (assoc l (live (prun evs))) as [s1|] eqn:Ea; cbn [live archive].
        * split; [|split; [|split]].
          -- intros l0 [<-|H0]; [apply assoc_unassoc_same|].
             destruct (Nat.eq_dec l l0) as [<-|Hne]; [apply assoc_unassoc_same|].
             rewrite assoc_unassoc_other; [now apply A|assumption].
          -- intros l0 s0 H0. rewrite Hev. apply B. now apply unassoc_In in H0.
          -- intros l0 s0 [H0|H0].
             ++ injection H0 as <- <-. rewrite Hev. split; [|now left]. apply B. now apply assoc_In.
             ++ rewrite Hev. destruct (C l0 s0 H0). split; [assumption|now right].
          -- intros l0 H0 H1. rewrite Hev. destruct (Nat.eq_dec l l0) as [<-|Hne]; [exfalso; apply H1; now left|].
             rewrite assoc_unassoc_other in H0; [|assumption]. apply D; [assumption|]. intros H. apply H1. now right.
        * split; [|split; [|split]].
          -- intros l0 [<-|H0]; [assumption|now apply A].
          -- intros l0 s0 H0. rewrite Hev. now apply B.
          -- intros l0 s0 H0. rewrite Hev. destruct (C l0 s0 H0). split; [assumption|now right].
          -- intros l0 H0 H1. rewrite Hev. apply D; [assumption|]. intros H. apply H1. now right.
  Qed.
End ProductWf.

Arguments pwf {EV}. Arguments evs_on {EV}.

Definition plan_wf (plan : list lev) : bool := pwf (flatten plan).

(* what the product model lets the harness observe: every loop that ever had a batcher *)
Definition loops_obs (cfg : ocfg) (plan : list lev) : list (nat * btrace) :=
  let r := loops_model cfg plan in
  map (fun p => (fst p, trace_of (snd p))) (live r ++ archive r).

(* ... and the same loops, each one's own part of the plan run ALONE on a single batcher *)
Definition loops_solo (cfg : ocfg) (plan : list lev) : list (nat * btrace) :=
  map (fun p => (fst p, trace_of (brun (resolve cfg) (script_on (fst p) plan)))) (loops_obs cfg plan).

Lemma evs_on_flatten l plan : evs_on l (flatten plan) = script_on l plan.
Proof.
  unfold flatten, script_on. induction plan as [|[l' sc|l'] r IH]; simpl; [reflexivity| |assumption].
  rewrite evs_on_app, IH. f_equal.
  induction sc as [|x sc IHs]; simpl; [now destruct (Nat.eqb l l')|].
  rewrite IHs. now destruct (Nat.eqb l l').
Qed.

Lemma keys_on_script l plan : keys_on l plan = call_keys (script_on l plan).
Proof.
  unfold keys_on, script_on. induction plan as [|[l' sc|l'] r IH]; simpl; [reflexivity| |assumption].
  rewrite call_keys_app, IH. now destruct (Nat.eqb l l').
Qed.

Lemma loops_obs_solo cfg plan : plan_wf plan = true ->
  forall l tr, In (l, tr) (loops_obs cfg plan) -> tr = trace_of (brun (resolve cfg) (script_on l plan)).
Proof.
  intros Hwf l tr H. unfold loops_obs in H. apply in_map_iff in H as [[l0 s] [[= <- <-] H]].
  destruct (registry_wf bst bev binit (bstep (resolve cfg)) (flatten plan) Hwf) as (_ & B & C & _).
  unfold brun. rewrite <- evs_on_flatten. f_equal.
  apply in_app_or in H as [H|H]; [now apply B | now apply C].
Qed.

Lemma assoc_map_key {A} (g : nat -> A) (l : list (nat * A)) p :
  In p l -> assoc (fst p) (map (fun q => (fst q, g (fst q))) l) = Some (g (fst p)).
Proof.
  induction l as [|q r IH]; simpl; [contradiction|]. intros H.
  destruct (Nat.eqb (fst p) (fst q)) eqn:E.
  - apply Nat.eqb_eq in E. now rewrite E.
  - destruct H as [->|H]; [now rewrite Nat.eqb_refl in E | now apply IH].
Qed.

Lemma loops_complete : forall (cfg : ocfg) (plan : list lev),
  plan_wf plan = true ->
  ok (CLoops cfg plan (loops_obs cfg plan) (loops_solo cfg plan) 0) = true.
Proof.
  intros cfg plan Hwf. cbn [ok]. pose proof (loops_obs_solo cfg plan Hwf) as Hs.
  assert (Hlen : (length (loops_obs cfg plan) =? length (loops_solo cfg plan)) = true).
  { unfold loops_solo. rewrite map_length. apply Nat.eqb_refl. }
  rewrite Hlen. cbn [Nat.eqb andb]. rewrite andb_true_r.
  apply andb_true_intro. split; apply forallb_forall; intros [l tr] H; cbn [fst snd].
  - rewrite (Hs l tr H), keys_on_script. apply batcher_sane_ref.
  - unfold loops_solo.
    pose proof (assoc_map_key (fun l => trace_of (brun (resolve cfg) (script_on l plan))) _ (l, tr) H) as Ha.
    cbn [fst] in Ha. rewrite Ha. rewrite (Hs l tr H). apply btrace_eqb_refl.
Qed.

(* ====================================================================================== *)
(* 2. soundness: what an accepted case says, no model involved                             *)
(* ====================================================================================== *)

(* two buffer traces that the monitor calls equal: same instants, same sets of arguments *)
Definition same_flushes (a b : list (N * list nat)) : Prop :=
  Forall2 (fun p q => fst p = fst q /\ forall x, In x (snd p) <-> In x (snd q)) a b.

Lemma flushes_eqb_same a : forall b, flushes_eqb a b = true -> same_flushes a b.
Proof.
  unfold flushes_eqb, same_flushes. induction a as [|p a IH]; intros [|q b] H; simpl in H; try discriminate; constructor.
  - apply andb_prop in H as [H _]. unfold flush_eqb in H. apply andb_prop in H as [H1 H2].
    apply N.eqb_eq in H1. split; [assumption|]. now apply nsame_iff.
  - apply andb_prop in H as [_ H]. now apply IH.
Qed.

Lemma last_sub_spec times : forall args m0 m,
  fold_left (fun acc a => match acc, assoc a times with
                          | Some m, Some t => Some (N.max m t)
                          | _, _ => None end) args (Some m0) = Some m ->
  (m0 <= m)%N /\
  (forall a, In a args -> exists t, assoc a times = Some t /\ (t <= m)%N) /\
  (m = m0 \/ exists a, In a args /\ assoc a times = Some m).
Proof.
  induction args as [|a args IH]; intros m0 m H; simpl in H.
  - injection H as <-. split; [lia|]. split; [contradiction|now left].
  - destruct (assoc a times) as [t|] eqn:Ea.
    + apply IH in H as (H1 & H2 & H3). split; [lia|]. split.
      * intros a0 [<-|H0]; [exists t; split; [assumption|lia] | now apply H2].
      * destruct H3 as [->|[a0 [H3 H4]]].
        -- destruct (N.max_spec m0 t) as [[_ ->]|[_ ->]]; [right; exists a; split; [now left|assumption] | now left].
        -- right. exists a0. split; [now right|assumption].
    + exfalso. clear -H. induction args as [|a0 args IH]; simpl in H; [discriminate|now apply IH].
Qed.

(* [submitted_at sc a t]: argument a was (first) handed to the buffer at instant t *)
Definition submitted_at (sc : list bufev) (a : nat) (t : N) : Prop := assoc a (sub_times sc 0%N) = Some t.

Lemma buffer_sound : forall t sc d1 d2 d3,
  ok (CBuffer t sc d1 d2 d3) = true ->
  let T := match t with Some v => v | None => buf_default_timeout end in
  same_flushes d1 d2 /\ same_flushes d3 d2 /\
  forall tf args, In (tf, args) d2 ->
    args <> [] /\
    exists a_last t_last,
      In a_last args /\ submitted_at sc a_last t_last /\
      (forall a, In a args -> exists ta, submitted_at sc a ta /\ (ta <= t_last)%N) /\
      tf = (t_last + T)%N.
Proof.
  intros t sc d1 d2 d3 H T. cbn [ok] in H. fold T in H.
  apply andb_prop in H as [H H3]. apply andb_prop in H as [H1 H2].
  split; [now apply flushes_eqb_same|]. split; [now apply flushes_eqb_same|].
  intros tf args Hin. unfold buffer_ok in H3. rewrite forallb_forall in H3. specialize (H3 _ Hin).
  cbn [fst snd] in H3. apply andb_prop in H3 as [Hne Hl].
  destruct args as [|a0 args0]; [discriminate|]. split; [discriminate|].
  set (args := a0 :: args0) in *.
  destruct (last_sub (sub_times sc 0%N) args) as [m|] eqn:El; [|discriminate].
  apply N.eqb_eq in Hl. unfold last_sub in El. apply last_sub_spec in El as (_ & E2 & E3).
  destruct E3 as [->|[a [Ha1 Ha2]]].
  - (* the maximum is 0: then the first argument was submitted at 0 *)
    destruct (E2 a0 (or_introl eq_refl)) as [ta [Ha Hle]].
    assert (ta = 0%N) by lia. subst ta.
    exists a0, 0%N. split; [now left|]. split; [exact Ha|]. split; [exact E2|exact Hl].
  - exists a, m. split; [exact Ha1|]. split; [exact Ha2|]. split; [exact E2|exact Hl].
Qed.

Lemma batcher_sane_sound c keys tr : batcher_sane c keys tr = true ->
  (forall t ks, In (t, ks) (fst tr) ->
     1 <= length ks <= Nat.max 1 (cB c) /\ forall k, In k ks -> In k keys) /\
  length (snd tr) = length keys /\
  (forall i k t b, nth_error keys i = Some k -> nth_error (snd tr) i = Some (Some (t, b)) ->
     exists t' ks, nth_error (fst tr) b = Some (t', ks) /\ In k ks).
Proof.
  unfold batcher_sane. intros H. apply andb_prop in H as [H H3]. apply andb_prop in H as [H1 H2].
  split; [|split].
  - intros t ks Hin. rewrite forallb_forall in H1. specialize (H1 _ Hin). cbn [snd] in H1.
    apply andb_prop in H1 as [H1 Hne]. apply andb_prop in H1 as [Hle Hsub].
    apply Nat.leb_le in Hle. apply nsubset_incl in Hsub. split; [|exact Hsub].
    destruct ks; [discriminate|]. simpl in *. lia.
  - now apply Nat.eqb_eq.
  - intros i k t b Hk Hd. rewrite forallb_forall in H3.
    assert (Hin : In (k, Some (t, b)) (combine keys (snd tr))).
    { clear -Hk Hd. revert i Hk Hd. generalize (snd tr) as ds.
      induction keys as [|k0 keys IH]; intros ds i Hk Hd; destruct i; simpl in *; try discriminate.
      - destruct ds; [discriminate|]. simpl in *. injection Hk as ->. injection Hd as ->. now left.
      - destruct ds; [discriminate|]. simpl in *. right. now apply (IH ds i). }
    specialize (H3 _ Hin). cbn [fst snd] in H3.
    destruct (nth_error (fst tr) b) as [[t' ks]|] eqn:En; [|discriminate].
    exists t', ks. split; [reflexivity|]. now apply nmem_In.
Qed.

Lemma batcher_sound : forall cfg sc d1 d2 d3 cross,
  ok (CBatcher cfg sc d1 d2 d3 cross) = true ->
  d1 = d2 /\ d3 = d2 /\ cross = 0 /\
  (forall t ks, In (t, ks) (fst d2) ->
     1 <= length ks <= Nat.max 1 (cB (resolve cfg)) /\ forall k, In k ks -> In k (call_keys sc)) /\
  length (snd d2) = length (call_keys sc) /\
  (forall i k t b, nth_error (call_keys sc) i = Some k -> nth_error (snd d2) i = Some (Some (t, b)) ->
     exists t' ks, nth_error (fst d2) b = Some (t', ks) /\ In k ks).
Proof.
  intros cfg sc d1 d2 d3 cross H. cbn [ok] in H.
  apply andb_prop in H as [H H4]. apply andb_prop in H as [H H3]. apply andb_prop in H as [H1 H2].
  apply btrace_eqb_eq in H1, H2. apply Nat.eqb_eq in H3.
  split; [assumption|]. split; [assumption|]. split; [assumption|]. now apply batcher_sane_sound.
Qed.

Lemma loops_sound : forall cfg plan observed solo cross,
  ok (CLoops cfg plan observed solo cross) = true ->
  cross = 0 /\ length observed = length solo /\
  forall l tr, In (l, tr) observed ->
    (* independent: exactly the trace of this loop's own part of the plan run alone *)
    assoc l solo = Some tr /\
    (* and sane with respect to this loop's own keys *)
    (forall t ks, In (t, ks) (fst tr) ->
       1 <= length ks <= Nat.max 1 (cB (resolve cfg)) /\ forall k, In k ks -> In k (keys_on l plan)) /\
    length (snd tr) = length (keys_on l plan) /\
    (forall i k t b, nth_error (keys_on l plan) i = Some k -> nth_error (snd tr) i = Some (Some (t, b)) ->
       exists t' ks, nth_error (fst tr) b = Some (t', ks) /\ In k ks).
Proof.
  intros cfg plan observed solo cross H. cbn [ok] in H.
  apply andb_prop in H as [H H4]. apply andb_prop in H as [H H3]. apply andb_prop in H as [H1 H2].
  apply Nat.eqb_eq in H1, H3. split; [assumption|]. split; [assumption|].
  intros l tr Hin. rewrite forallb_forall in H2, H4. specialize (H2 _ Hin). specialize (H4 _ Hin).
  cbn [fst snd] in H2, H4. split.
  - destruct (assoc l solo) as [t|]; [|discriminate]. apply btrace_eqb_eq in H4. now subst.
  - now apply batcher_sane_sound.
Qed.

(* ====================================================================================== *)
(* one options-form decorator object applied to two functions (CBuffer2 / CBatcher2)        *)
(* ====================================================================================== *)

Lemma buffer2_complete : forall (t : option N) (sc : list bufev2),
  buf_wf (bproj 0 sc) = true -> buf_wf (bproj 1 sc) = true ->
  let m0 := buf_trace t (bproj 0 sc) in let m1 := buf_trace t (bproj 1 sc) in
  ok (CBuffer2 t sc m0 m0 m1 m1) = true.
Proof.
  intros t sc H0 H1 m0 m1. cbn [ok]. rewrite !flushes_eqb_refl. cbn [andb].
  unfold m0, m1, buf_trace. rewrite !buffer_ok_ref; [reflexivity|assumption|assumption].
Qed.

Lemma batcher2_complete : forall (cfg : ocfg) (sc : list bev2),
  let m0 := trace_of (brun (resolve cfg) (cproj 0 sc)) in
  let m1 := trace_of (brun (resolve cfg) (cproj 1 sc)) in
  ok (CBatcher2 cfg sc m0 m0 m1 m1) = true.
Proof.
  intros cfg sc m0 m1. cbn [ok]. rewrite !btrace_eqb_refl. cbn [andb].
  unfold m0, m1. now rewrite !batcher_sane_ref.
Qed.

(* soundness: per function, the options form behaved like the direct wrapping and like a buffer /
   batcher of its own (sane with respect to THAT function's submissions / keys only) *)
Lemma reuse_sound :
  (forall t sc d0 e0 d1 e1, ok (CBuffer2 t sc d0 e0 d1 e1) = true ->
     same_flushes d0 e0 /\ same_flushes d1 e1 /\
     ok (CBuffer t (bproj 0 sc) e0 e0 e0) = true /\ ok (CBuffer t (bproj 1 sc) e1 e1 e1) = true) /\
  (forall cfg sc d0 e0 d1 e1, ok (CBatcher2 cfg sc d0 e0 d1 e1) = true ->
     d0 = e0 /\ d1 = e1 /\
     ok (CBatcher cfg (cproj 0 sc) e0 e0 e0 0) = true /\ ok (CBatcher cfg (cproj 1 sc) e1 e1 e1 0) = true).
Proof.
  split.
  - intros t sc d0 e0 d1 e1 H. cbn [ok] in *.
    apply andb_prop in H as [H H4]. apply andb_prop in H as [H H3]. apply andb_prop in H as [H1 H2].
    split; [now apply flushes_eqb_same|]. split; [now apply flushes_eqb_same|].
    rewrite !flushes_eqb_refl. cbn [andb]. now split.
  - intros cfg sc d0 e0 d1 e1 H. cbn [ok] in *.
    apply andb_prop in H as [H H4]. apply andb_prop in H as [H H3]. apply andb_prop in H as [H1 H2].
    apply btrace_eqb_eq in H1, H2. split; [assumption|]. split; [assumption|].
    rewrite !btrace_eqb_refl. cbn [andb Nat.eqb]. now split.
Qed.

(* forms-only cases (degenerate option values): accepted iff the three forms' traces coincide *)
Lemma forms_only :
  (forall d1 d2 d3, ok (CFormsBuf d1 d2 d3) = true -> same_flushes d1 d2 /\ same_flushes d3 d2) /\
  (forall d1 d2 d3 cross, ok (CFormsBat d1 d2 d3 cross) = true <-> d1 = d2 /\ d3 = d2 /\ cross = 0) /\
  (forall m, ok (CFormsBuf m m m) = true).
Proof.
  split; [|split].
  - intros d1 d2 d3 H. cbn [ok] in H. apply andb_prop in H as [H1 H2]. split; now apply flushes_eqb_same.
  - intros d1 d2 d3 cross. cbn [ok]. split.
    + intros H. apply andb_prop in H as [H H3]. apply andb_prop in H as [H1 H2].
      apply btrace_eqb_eq in H1, H2. apply Nat.eqb_eq in H3. auto.
    + intros (-> & -> & ->). now rewrite !btrace_eqb_refl.
  - intros m. cbn [ok]. now rewrite !flushes_eqb_refl.
Qed.
