(* XLoop.v — executable small-step model of cross-loop awaiting (C17):
   ensure_aw / run_aw_threadsafe / loop_in_thread / _get_loop_lock
   (aiuti/asyncio.py, "_CROSS_LOOP_POOL" .. "_aw_to_coro").

   The model is a VALIDATOR: [step c s e] says whether the visible operation [e]
   (one entry of the totally ordered log the gated harness records on the real
   code) is a possible next operation in state [s], and gives the next state.
   [run c evs] folds it; [enabled c s] lists every operation possible in [s]
   (used for the liveness statements and to check that an observed deadlock is a
   state in which the model, too, has nothing left to do).

   Threads: TM = the user of loop_in_thread, TJM = the pool thread that runs the
   target loop L forever, TC i = caller i (its own loop, runs ensure_aw(aw_i, L)),
   TJ i = the pool thread ensure_aw started for caller i, TClk = virtual time.
   No proofs in this file (XLoopInv.v, XLoopLive.v). *)
From Coq Require Import List Arith NArith Bool.
Import ListNotations.

Inductive tid := TM | TJM | TC (i : nat) | TJ (i : nat) | TClk | TOther.
Inductive mode := MIdle | MForever | MRace | MOwn | MClosed.
Inductive form := FCoro | FTask | FFuture.
Inductive okind := KRet | KExc | KLibRT | KLibCancel | KLibOther.
Definition outcome := (okind * nat)%type.

(* script of an awaitable: optional sleep of d ticks, then return its own value
   (identity i) or raise its own exception (identity i) *)
Record script := mkscript { s_raise : bool; s_sleep : option N }.
Record cfg := mkcfg { c_mode : mode; c_n : nat; c_script : nat -> script; c_form : nat -> form }.

Definition expected (c : cfg) (i : nat) : outcome :=
  if s_raise (c_script c i) then (KExc, i) else (KRet, i).

Inductive op :=
| OBegin                       (* caller thread starts: run_until_complete(main()) on its own loop *)
| OChk (b : bool)              (* loop.is_running() asked by the library, with the answer *)
| OSubmit (j : tid)            (* _CROSS_LOOP_POOL.submit / run_in_executor: pool thread j created *)
| OCst                         (* L.call_soon_threadsafe from a thread that does not run L *)
| OTbl (r : option nat)        (* _LOOP_LOCKS[id(L)] read, with the lock found *)
| OAcq (l : nat) | ORel (l : nat)   (* lock 0 = _LOOP_LOCKS_CREATE_LOCK, others created by Lock() *)
| OMklock (l : nat)            (* Lock() called and stored in the table *)
| OEnter (k : nat)             (* thread enters L.run_forever; k threads were already inside *)
| OExit                        (* ... leaves it *)
| OStart (i : nat) (onl : bool)  (* awaitable i takes its first step; onl: running loop is L *)
| OFin (i : nat) (onl : bool)    (* awaitable i takes its last step (returns / raises) *)
| ODlv (i : nat)               (* caller i's loop is woken with the result (call_soon_threadsafe on it) *)
| OJobend                      (* pool job finished *)
| ODone (i : nat) (o : outcome)  (* ensure_aw returned / raised in caller i *)
| OSleep                       (* sleep(0) in loop_in_thread's spin *)
| OLitret (b : bool)           (* loop_in_thread returned; b = L.is_running() at that instant *)
| OWait                        (* the user decides to call stop() *)
| OJoin                        (* future.result() in stop() returned *)
| OStopret (r j : bool)        (* stop() returned; r = L.is_running(), j = forever-job done *)
| OAdv (t : N)                 (* virtual time jumps to t *)
| OBlock                       (* a thread blocks on a concurrent future (never in the model) *)
| OOther.                      (* anything the harness could not name (never in the model) *)
Definition event := (tid * op)%type.

(* ---- state ------------------------------------------------------------------- *)

Inductive awst := AwNew | AwSched | AwRun (w : option N) | AwFin.

Inductive cph :=
| CInit | CBegun
| CXchk      (* saw L running: will schedule on it (run_aw_threadsafe) *)
| CXwait     (* scheduled on L, waits for the wrapped future *)
| CPsub      (* saw L idle and open: will submit _loop_thread to the pool *)
| CPwait     (* waits for the pool job *)
| CClosedP   (* saw L idle and closed: will raise RuntimeError *)
| CGot       (* woken with an outcome *)
| COwn       (* L is this caller's own loop: awaits directly *)
| COwnDone   (* own caller done, keeps its loop running for the others *)
| CDone.

Inductive jph :=
| JNone | JStart
| JCwait             (* table had no lock: will take the creation lock *)
| JCin               (* holds creation lock, will re-read the table *)
| JCmk               (* holds creation lock, table still empty: will create *)
| JCrel (l : nat)    (* holds creation lock, has lock l: will release creation lock *)
| JAcq (l : nat)     (* will acquire lock l *)
| JHold (l : nat)    (* holds l, will run L *)
| JRun (l : nat)     (* inside L.run_forever *)
| JBad (l : nat)     (* entered run_forever although L was running: RuntimeError on the way *)
| JPost (l : nat) (f : bool)   (* left the loop (f: with "already running" error), will release l *)
| JRel (f : bool)    (* released, will hand the result to the caller's loop *)
| JFin | JEnd.

Inductive mph := MNone | M0 | MSpin | MSleep | MLit | MWait | MStop | MJoin | MRet | MEnd.

Record state := mkst {
  now : N;
  inside : list tid;            (* threads inside L.run_forever, oldest first *)
  tbl : option nat;             (* _LOOP_LOCKS[id(L)] *)
  nlocks : nat;                 (* locks created by Lock() so far *)
  owner : nat -> option tid;
  aw : nat -> awst;
  res : nat -> option outcome;  (* outcome of awaitable i once it finished *)
  cp : nat -> cph;
  cres : nat -> option outcome; (* what caller i was woken with *)
  jp : tid -> jph;
  mp : mph;
  stopp : bool;                 (* loop.stop scheduled on L, not yet consumed *)
  xsub : nat -> option tid      (* ghost: who ran L when caller i saw it running *)
}.

Definition set_now s v := mkst v (inside s) (tbl s) (nlocks s) (owner s) (aw s) (res s) (cp s) (cres s) (jp s) (mp s) (stopp s) (xsub s).
Definition set_inside s v := mkst (now s) v (tbl s) (nlocks s) (owner s) (aw s) (res s) (cp s) (cres s) (jp s) (mp s) (stopp s) (xsub s).
Definition set_tbl s v n := mkst (now s) (inside s) v n (owner s) (aw s) (res s) (cp s) (cres s) (jp s) (mp s) (stopp s) (xsub s).
Definition set_owner s v := mkst (now s) (inside s) (tbl s) (nlocks s) v (aw s) (res s) (cp s) (cres s) (jp s) (mp s) (stopp s) (xsub s).
Definition set_aw s v := mkst (now s) (inside s) (tbl s) (nlocks s) (owner s) v (res s) (cp s) (cres s) (jp s) (mp s) (stopp s) (xsub s).
Definition set_res s v := mkst (now s) (inside s) (tbl s) (nlocks s) (owner s) (aw s) v (cp s) (cres s) (jp s) (mp s) (stopp s) (xsub s).
Definition set_cp s v := mkst (now s) (inside s) (tbl s) (nlocks s) (owner s) (aw s) (res s) v (cres s) (jp s) (mp s) (stopp s) (xsub s).
Definition set_cres s v := mkst (now s) (inside s) (tbl s) (nlocks s) (owner s) (aw s) (res s) (cp s) v (jp s) (mp s) (stopp s) (xsub s).
Definition set_jp s v := mkst (now s) (inside s) (tbl s) (nlocks s) (owner s) (aw s) (res s) (cp s) (cres s) v (mp s) (stopp s) (xsub s).
Definition set_mp s v := mkst (now s) (inside s) (tbl s) (nlocks s) (owner s) (aw s) (res s) (cp s) (cres s) (jp s) v (stopp s) (xsub s).
Definition set_stopp s v := mkst (now s) (inside s) (tbl s) (nlocks s) (owner s) (aw s) (res s) (cp s) (cres s) (jp s) (mp s) v (xsub s).
Definition set_xsub s v := mkst (now s) (inside s) (tbl s) (nlocks s) (owner s) (aw s) (res s) (cp s) (cres s) (jp s) (mp s) (stopp s) v.

Definition upd {A} (f : nat -> A) (i : nat) (v : A) : nat -> A :=
  fun j => if Nat.eqb j i then v else f j.

Definition tid_eqb (a b : tid) : bool :=
  match a, b with
  | TM, TM | TJM, TJM | TClk, TClk | TOther, TOther => true
  | TC i, TC j | TJ i, TJ j => Nat.eqb i j
  | _, _ => false
  end.
Definition updt {A} (f : tid -> A) (t : tid) (v : A) : tid -> A :=
  fun u => if tid_eqb u t then v else f u.

Fixpoint remove_tid (t : tid) (l : list tid) : list tid :=
  match l with
  | [] => []
  | u :: r => if tid_eqb u t then r else u :: remove_tid t r
  end.

Definition running (s : state) : bool := match inside s with [] => false | _ => true end.
Definition completedb (s : state) (i : nat) : bool :=
  match cp s i with CDone | COwnDone => true | _ => false end.
Definition all_completed (c : cfg) (s : state) : bool := forallb (completedb s) (seq 0 (c_n c)).
Definition completed_or_pwait (s : state) (i : nat) : bool :=
  match cp s i with CDone | COwnDone | CPwait => true | _ => false end.
Definition due (w : option N) (t : N) : bool := match w with None => true | Some x => N.leb x t end.
Definition is_none {A} (o : option A) : bool := match o with None => true | Some _ => false end.
Definition owned_by (s : state) (l : nat) (t : tid) : bool :=
  match owner s l with Some u => tid_eqb u t | None => false end.
Definition mlit (m : mph) : bool :=
  match m with MWait | MStop | MJoin | MRet | MEnd => true | _ => false end.
Definition sched_aw (s : state) (i : nat) : state :=
  match aw s i with AwNew => set_aw s (upd (aw s) i AwSched) | _ => s end.
Definition bool_eqb (a b : bool) : bool := if a then b else negb b.
Definition okind_eqb (a b : okind) : bool :=
  match a, b with
  | KRet, KRet | KExc, KExc | KLibRT, KLibRT | KLibCancel, KLibCancel | KLibOther, KLibOther => true
  | _, _ => false
  end.
Definition outcome_eqb (a b : outcome) : bool := okind_eqb (fst a) (fst b) && Nat.eqb (snd a) (snd b).
Definition optnat_eqb (a b : option nat) : bool :=
  match a, b with None, None => true | Some x, Some y => Nat.eqb x y | _, _ => false end.
Definition optout_eqb (a : option outcome) (b : outcome) : bool :=
  match a with Some x => outcome_eqb x b | None => false end.

(* ---- initial state -------------------------------------------------------------- *)

Definition init (c : cfg) : state :=
  mkst 0%N [] None 0 (fun _ => None)
       (fun i => match c_form c i with FCoro => AwNew | _ => AwSched end)   (* tasks / futures are created on L up front *)
       (fun _ => None) (fun _ => CInit) (fun _ => None) (fun _ => JNone)
       (match c_mode c with MForever | MRace => M0 | _ => MNone end)
       false (fun _ => None).

(* ---- the thread that runs L: steps of the tasks on L ------------------------------ *)
(* modelled asyncio: a task of L is stepped only by the thread inside L.run_forever;
   asyncio.sleep(d) wakes when now >= start + d; the future returned by
   run_coroutine_threadsafe is completed from L's thread (ODlv) *)
Definition loop_ev (c : cfg) (s : state) (o : op) : option state :=
  match o with
  | OStart i true =>
      if i <? c_n c then
        match aw s i with
        | AwSched => Some (set_aw s (upd (aw s) i (AwRun (option_map (N.add (now s)) (s_sleep (c_script c i))))))
        | _ => None
        end
      else None
  | OFin i true =>
      if i <? c_n c then
        match aw s i with
        | AwRun w => if due w (now s)
                     then Some (set_res (set_aw s (upd (aw s) i AwFin)) (upd (res s) i (Some (expected c i))))
                     else None
        | _ => None
        end
      else None
  | ODlv i =>
      if i <? c_n c then
        match cp s i, aw s i with
        | CXwait, AwFin => Some (set_cres (set_cp s (upd (cp s) i CGot)) (upd (cres s) i (res s i)))
        | _, _ => None
        end
      else None
  | _ => None
  end.

(* ---- the user of loop_in_thread (l.1311-1356) -------------------------------------- *)
Definition step_m (c : cfg) (s : state) (o : op) : option state :=
  match mp s, o with
  | M0, OSubmit TJM => Some (set_jp (set_mp s MSpin) (updt (jp s) TJM JStart))       (* pool.submit(_loop_thread) *)
  | MSpin, OChk b => if bool_eqb b (running s)                                         (* while not loop.is_running() *)
                     then (if b then Some (set_mp s MLit) else Some (set_mp s MSleep)) else None
  | MSleep, OSleep => Some (set_mp s MSpin)                                            (*   sleep(0) *)
  | MLit, OLitret b => if bool_eqb b (running s) then Some (set_mp s MWait) else None  (* return _stopper *)
  | MWait, OWait =>
      (* scenario: stop() is called when every caller is done or (race mode) when the
         forever-thread runs L and every unfinished caller waits for its pool job *)
      if all_completed c s
         || (match c_mode c with MRace => true | _ => false end
             && match inside s with [TJM] => true | _ => false end
             && forallb (completed_or_pwait s) (seq 0 (c_n c)))
      then Some (set_mp s MStop) else None
  | MStop, OCst => Some (set_stopp (set_mp s MJoin) true)                              (* call_soon_threadsafe(loop.stop) *)
  | MJoin, OJoin => match jp s TJM with JEnd => Some (set_mp s MRet) | _ => None end   (* future.result() *)
  | MRet, OStopret r j =>
      if bool_eqb r (running s) && bool_eqb j (match jp s TJM with JEnd => true | _ => false end)
      then Some (set_mp s MEnd) else None
  | _, _ => None
  end.

(* ---- pool threads: _loop_thread of ensure_aw (t = TJ i) and of loop_in_thread (TJM),
        with _get_loop_lock inlined (l.1303-1306, 1342-1345, 1363-1377) ---------------- *)
Definition setj (s : state) (t : tid) (p : jph) : state := set_jp s (updt (jp s) t p).

Definition step_job (c : cfg) (s : state) (t : tid) (o : op) : option state :=
  match jp s t, o with
  | JStart, OTbl r =>                                         (* try: return _LOOP_LOCKS[key] *)
      if optnat_eqb r (tbl s)
      then match tbl s with Some l => Some (setj s t (JAcq l)) | None => Some (setj s t JCwait) end else None
  | JCwait, OAcq 0 =>                                         (* with _LOOP_LOCKS_CREATE_LOCK: *)
      if is_none (owner s 0) then Some (setj (set_owner s (upd (owner s) 0 (Some t))) t JCin) else None
  | JCin, OTbl r =>                                           (*   try: return _LOOP_LOCKS[key] *)
      if optnat_eqb r (tbl s)
      then match tbl s with Some l => Some (setj s t (JCrel l)) | None => Some (setj s t JCmk) end else None
  | JCmk, OMklock l =>                                        (*   lock = _LOOP_LOCKS[key] = Lock() *)
      if Nat.eqb l (S (nlocks s)) then Some (setj (set_tbl s (Some l) l) t (JCrel l)) else None
  | JCrel l, ORel 0 =>
      if owned_by s 0 t then Some (setj (set_owner s (upd (owner s) 0 None)) t (JAcq l)) else None
  | JAcq l, OAcq l' =>                                        (* with <the per-loop lock>: *)
      if Nat.eqb l' l && is_none (owner s l)
      then Some (setj (set_owner s (upd (owner s) l (Some t))) t (JHold l)) else None
  | JHold l, OEnter k =>
      match t with
      | TJM =>                                                (* loop.run_forever(): checks "already running" inside *)
          if Nat.eqb k (length (inside s))
          then (if running s then Some (setj (set_inside s (inside s ++ [t])) t (JBad l))
                else Some (setj (set_inside s (inside s ++ [t])) t (JRun l)))
          else None
      | TJ i =>                                               (* loop.run_until_complete(aw) *)
          if Nat.eqb k 0 && negb (running s)
          then Some (setj (set_inside (sched_aw s i) [t]) t (JRun l)) else None
      | _ => None
      end
  | JHold l, ORel l' =>                                       (* run_until_complete refused ("already running") *)
      match t with
      | TJ _ => if Nat.eqb l' l && running s && owned_by s l t
                then Some (setj (set_owner s (upd (owner s) l None)) t (JRel true)) else None
      | _ => None
      end
  | JBad l, OExit => Some (setj (set_inside s (remove_tid t (inside s))) t (JPost l true))
  | JRun l, OExit =>
      match t with
      | TJM => if stopp s                                     (* run_forever ends when loop.stop ran *)
               then Some (setj (set_stopp (set_inside s (remove_tid t (inside s))) false) t (JPost l false))
               else None
      | TJ i => match aw s i with                             (* run_until_complete ends when ITS awaitable is done *)
                | AwFin => Some (setj (set_inside s (remove_tid t (inside s))) t (JPost l false))
                | _ => None
                end
      | _ => None
      end
  | JRun l, _ => loop_ev c s o
  | JPost l f, ORel l' =>
      if Nat.eqb l' l && owned_by s l t
      then match t with
           | TJM => Some (setj (set_owner s (upd (owner s) l None)) t JFin)
           | _ => Some (setj (set_owner s (upd (owner s) l None)) t (JRel f))
           end
      else None
  | JRel f, ODlv i =>                                         (* run_in_executor's future wakes the caller's loop *)
      match t with
      | TJ k => if Nat.eqb i k then
                  match cp s i with
                  | CPwait => if f
                              then Some (setj (set_cres (set_cp s (upd (cp s) i CGot)) (upd (cres s) i (Some (KLibRT, 0)))) t JFin)
                              else Some (setj (set_cres (set_cp s (upd (cp s) i CGot)) (upd (cres s) i (res s i))) t JFin)
                  | _ => None
                  end
                else None
      | _ => None
      end
  | JFin, OJobend => Some (setj s t JEnd)
  | _, _ => None
  end.

(* ---- caller i: ensure_aw(aw_i, L) on its own loop (l.1292-1308, 1380-1390) ---------- *)
Definition others_completed (c : cfg) (s : state) (i : nat) : bool :=
  forallb (fun k => Nat.eqb k i || completedb s k) (seq 0 (c_n c)).

Definition step_c (c : cfg) (s : state) (i : nat) (o : op) : option state :=
  let own := match c_mode c with MOwn => Nat.eqb i 0 | _ => false end in
  match cp s i, o with
  | CInit, OBegin =>
      (* scenario: in 'forever' mode callers start after loop_in_thread returned; in 'own'
         mode the other callers start once caller 0 runs its loop *)
      if match c_mode c with
         | MForever => mlit (mp s)
         | MOwn => Nat.eqb i 0 || running s
         | _ => true
         end
      then Some (set_cp s (upd (cp s) i CBegun)) else None
  | CBegun, OEnter k =>                                       (* own loop = L: the caller thread runs L itself *)
      if own && Nat.eqb k 0 && negb (running s)
      then Some (set_cp (set_inside (sched_aw s i) [TC i]) (upd (cp s) i COwn)) else None
  | CBegun, OChk b =>                                         (* main_loop is not L; if loop.is_running() *)
      if negb own && bool_eqb b (running s) then
        (if b then Some (set_xsub (set_cp s (upd (cp s) i CXchk)) (upd (xsub s) i (hd_error (inside s))))
         else match c_mode c with
              | MClosed => Some (set_cp s (upd (cp s) i CClosedP))
              | _ => Some (set_cp s (upd (cp s) i CPsub))
              end)
      else None
  | CXchk, OCst =>                                            (* run_coroutine_threadsafe(coro, L) *)
      Some (set_cp (sched_aw s i) (upd (cp s) i CXwait))
  | CPsub, OSubmit (TJ k) =>                                  (* run_in_executor(_CROSS_LOOP_POOL, _loop_thread) *)
      if Nat.eqb k i then Some (setj (set_cp s (upd (cp s) i CPwait)) (TJ i) JStart) else None
  | CClosedP, ODone k o =>                                    (* raise RuntimeError("Target loop is closed!") *)
      if Nat.eqb k i && outcome_eqb o (KLibRT, 0) then Some (set_cp s (upd (cp s) i CDone)) else None
  | CGot, ODone k o =>
      if Nat.eqb k i && optout_eqb (cres s i) o then Some (set_cp s (upd (cp s) i CDone)) else None
  | COwn, ODone k o =>                                        (* return await aw *)
      if Nat.eqb k i && match aw s i with AwFin => true | _ => false end && optout_eqb (res s i) o
      then Some (set_cp s (upd (cp s) i COwnDone)) else None
  | COwnDone, OExit =>
      if others_completed c s i
      then Some (set_cp (set_inside s (remove_tid (TC i) (inside s))) (upd (cp s) i CDone)) else None
  | COwn, _ | COwnDone, _ => loop_ev c s o
  | _, _ => None
  end.

Definition sleeping_until (s : state) (t : N) (i : nat) : bool :=
  match aw s i with AwRun (Some w) => N.eqb w t | _ => false end.

Definition step (c : cfg) (s : state) (e : event) : option state :=
  let '(t, o) := e in
  match t with
  | TM => step_m c s o
  | TJM => step_job c s TJM o
  | TJ i => if i <? c_n c then step_job c s (TJ i) o else None
  | TC i => if i <? c_n c then step_c c s i o else None
  | TClk => match o with
            | OAdv t' =>     (* the harness jumps to a timer of L only while somebody runs L *)
                if running s && N.ltb (now s) t' && existsb (sleeping_until s t') (seq 0 (c_n c))
                then Some (set_now s t') else None
            | _ => None
            end
  | TOther => None
  end.

Fixpoint run_from (c : cfg) (s : state) (evs : list event) : option state :=
  match evs with
  | [] => Some s
  | e :: r => match step c s e with Some s' => run_from c s' r | None => None end
  end.
Definition run (c : cfg) (evs : list event) : option state := run_from c (init c) evs.

(* number of events accepted before the first rejected one (for replays) *)
Fixpoint accepted_prefix (c : cfg) (s : state) (evs : list event) : nat :=
  match evs with
  | [] => 0
  | e :: r => match step c s e with Some s' => S (accepted_prefix c s' r) | None => 0 end
  end.

(* ---- what can happen next -------------------------------------------------------- *)

Definition loop_cands (c : cfg) : list op :=
  flat_map (fun i => [OStart i true; OFin i true; ODlv i]) (seq 0 (c_n c)).

Definition cands_m (s : state) : list op :=
  match mp s with
  | M0 => [OSubmit TJM] | MSpin => [OChk (running s)] | MSleep => [OSleep] | MLit => [OLitret (running s)]
  | MWait => [OWait] | MStop => [OCst] | MJoin => [OJoin]
  | MRet => [OStopret (running s) (match jp s TJM with JEnd => true | _ => false end)]
  | _ => []
  end.

Definition cands_job (c : cfg) (s : state) (t : tid) : list op :=
  match jp s t with
  | JStart | JCin => [OTbl (tbl s)]
  | JCwait => [OAcq 0]
  | JCmk => [OMklock (S (nlocks s))]
  | JCrel _ => [ORel 0]
  | JAcq l => [OAcq l]
  | JHold l => [OEnter (length (inside s)); ORel l]
  | JBad _ => [OExit]
  | JRun _ => OExit :: loop_cands c
  | JPost l _ => [ORel l]
  | JRel _ => match t with TJ i => [ODlv i] | _ => [] end
  | JFin => [OJobend]
  | _ => []
  end.

Definition cands_c (c : cfg) (s : state) (i : nat) : list op :=
  match cp s i with
  | CInit => [OBegin]
  | CBegun => [OEnter 0; OChk (running s)]
  | CXchk => [OCst]
  | CPsub => [OSubmit (TJ i)]
  | CClosedP => [ODone i (KLibRT, 0)]
  | CGot => match cres s i with Some o => [ODone i o] | None => [] end
  | COwn => (match res s i with Some o => [ODone i o] | None => [] end) ++ loop_cands c
  | COwnDone => OExit :: loop_cands c
  | _ => []
  end.

Definition cands_clk (c : cfg) (s : state) : list op :=
  flat_map (fun i => match aw s i with AwRun (Some w) => [OAdv w] | _ => [] end) (seq 0 (c_n c)).

Definition tag (t : tid) (l : list op) : list event := map (fun o => (t, o)) l.

Definition cands (c : cfg) (s : state) : list event :=
  tag TM (cands_m s) ++ tag TJM (cands_job c s TJM)
  ++ flat_map (fun i => tag (TC i) (cands_c c s i) ++ tag (TJ i) (cands_job c s (TJ i))) (seq 0 (c_n c))
  ++ tag TClk (cands_clk c s).

Definition accepts1 (c : cfg) (s : state) (e : event) : bool :=
  match step c s e with Some _ => true | None => false end.
Definition enabled (c : cfg) (s : state) : list event := filter (accepts1 c s) (cands c s).

(* the only unproductive operation: the spin of loop_in_thread seeing "not running" *)
Definition productive (e : event) : bool :=
  match e with (TM, OChk false) => false | _ => true end.
Definition penabled (c : cfg) (s : state) : list event := filter productive (enabled c s).

(* every thread has run to its end *)
Definition jended (p : jph) : bool := match p with JNone | JEnd => true | _ => false end.
Definition all_ended (c : cfg) (s : state) : bool :=
  forallb (fun i => match cp s i with CDone => true | _ => false end) (seq 0 (c_n c))
  && forallb (fun i => jended (jp s (TJ i))) (seq 0 (c_n c))
  && jended (jp s TJM)
  && match mp s with MNone | MEnd => true | _ => false end.

(* configuration from lists (the form the harness sends) *)
Definition mk_cfg (m : mode) (aws : list (bool * option N * form)) : cfg :=
  mkcfg m (length aws)
        (fun i => let '(r, d, _) := nth i aws (false, None, FCoro) in mkscript r d)
        (fun i => let '(_, _, f) := nth i aws (false, None, FCoro) in f).
