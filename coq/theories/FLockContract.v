(* FLockContract.v — the contract of C02/C12 ("a thread releases only a lock it
   holds; threads use objects of their own process") as a STATIC, decidable
   predicate on thread programs, and the proof that programs satisfying it never
   raise the ghost flag viol, on any schedule / fault script / crash pattern.     *)
From Coq Require Import List Arith NArith Bool Lia ZifyBool.
Import ListNotations.
Require Import Aiuti.FLock Aiuti.FLockInv Aiuti.FLockTL Aiuti.FLockFD Aiuti.FLockMutex.
Local Arguments Nat.max : simpl never.
Arguments upd : simpl never.
Arguments enter_tlrel : simpl never.
Arguments enter_cleanup : simpl never.
Arguments after_attempt : simpl never.
Arguments k_unlock : simpl never.
Arguments k_close : simpl never.
Arguments tl_release : simpl never.
Arguments tl_try : simpl never.
Arguments tl_rel_raises : simpl never.
Arguments normalise : simpl never.
Arguments faulty : simpl never.
Arguments intr : simpl never.
Arguments enabled : simpl never.
Arguments remove_all : simpl never.
Arguments remove_one : simpl never.

(* [prog_ok cs prog]: started while holding the (multiset of) objects cs, the
   program releases only objects it holds at that point, on BOTH outcomes of every
   acquire (success: the object is held, the program continues; failure: [skip]
   items are dropped — the harness' `if not ok: continue`). *)
Inductive prog_ok : list oid -> list call -> Prop :=
| ok_nil cs : prog_ok cs []
| ok_acq cs o (m : amode) (b : bool) (tm : tmo) (p : N) (k : nat) rest :
    prog_ok (o :: cs) rest -> prog_ok cs (skipn k rest) -> prog_ok cs (CAcq o m b tm p k :: rest)
| ok_rel cs o (f : bool) rest :
    In o cs -> prog_ok (if f then remove_all o cs else remove_one o cs) rest -> prog_ok cs (CRel o f :: rest).

(* the same, decided (fuel = S (length prog) always suffices) *)
Fixpoint prog_okb (fuel : nat) (cs : list oid) (prog : list call) : bool :=
  match fuel with
  | 0 => false
  | S f =>
      match prog with
      | [] => true
      | CAcq o _ _ _ _ k :: rest => prog_okb f (o :: cs) rest && prog_okb f cs (skipn k rest)
      | CRel o fo :: rest =>
          existsb (Nat.eqb o) cs && prog_okb f (if fo then remove_all o cs else remove_one o cs) rest
      end
  end.

Lemma prog_okb_sound fuel : forall cs prog, prog_okb fuel cs prog = true -> prog_ok cs prog.
Proof.
  induction fuel as [|f IH]; [discriminate|]. intros cs [|[o m b tm p k|o fo] rest]; cbn.
  - constructor.
  - intros H. apply andb_prop in H. destruct H. constructor; auto.
  - intros H. apply andb_prop in H. destruct H as [A B]. constructor; auto.
    apply existsb_exists in A. destruct A as (x & Hin & E). apply Nat.eqb_eq in E. now subst.
Qed.

Definition call_obj (c : call) : oid := match c with CAcq o _ _ _ _ _ | CRel o _ => o end.

(* configuration-level predicate: every thread's program is fine from the empty
   hand, and only mentions objects of the thread's own process *)
Definition cfg_ok (ocfg : list (pid * bool * tmo)) (tcfg : list (pid * list call)) : bool :=
  forallb (fun tc : pid * list call =>
             prog_okb (S (length (snd tc))) [] (snd tc) &&
             forallb (fun c => match nth_error ocfg (call_obj c) with
                               | Some oc => Nat.eqb (fst (fst oc)) (fst tc)
                               | None => Nat.eqb 0 (fst tc) end) (snd tc)) tcfg.

(* ---------- the invariant on thread-local state ------------------------------------- *)

Definition wf_thr (th : thread) : Prop :=
  match t_pc th with
  | PIdle | PUnlock _ _ _ | PCloseR _ _ _ | PTLRel _ _ => prog_ok (t_cs th) (t_prog th)
  | PTLAcq a _ | POpen a | PFlock a _ | PCloseF a _ _ | PSleep a _ | PCleanRel a _ =>
      prog_ok (a_o a :: t_cs th) (t_prog th) /\ prog_ok (t_cs th) (skipn (a_skip a) (t_prog th))
  end.

Definition W (s : state) : Prop :=
  (forall t, wf_thr (thr s t)) /\
  (forall t c, In c (t_prog (thr s t)) -> o_proc (objs s (call_obj c)) = t_proc (thr s t)).

(* thread t's record after an acquire-stage step that did not succeed *)
Definition acq_like (p : pc) (a : aloc) : Prop :=
  match p with
  | POpen a' | PFlock a' _ | PCloseF a' _ _ | PSleep a' _ | PCleanRel a' _ => a_o a' = a_o a /\ a_skip a' = a_skip a
  | _ => False
  end.

Definition acq_next (a : aloc) (th th' : thread) : Prop :=
  t_cs th' = t_cs th /\ t_proc th' = t_proc th /\
  ((t_prog th' = t_prog th /\ acq_like (t_pc th') a) \/
   (t_prog th' = skipn (a_skip a) (t_prog th) /\ t_pc th' = PIdle)).

Lemma wf_acq_next a th th' :
  prog_ok (a_o a :: t_cs th) (t_prog th) /\ prog_ok (t_cs th) (skipn (a_skip a) (t_prog th)) ->
  acq_next a th th' -> wf_thr th'.
Proof.
  intros [A B] (E1 & _ & [[E2 L]|[E2 E3]]); unfold wf_thr.
  - destruct (t_pc th'); cbn in L; try tauto; destruct L as [-> ->]; rewrite E1, E2; auto.
  - rewrite E3, E1, E2. auto.
Qed.

Ltac thr_simpl := cbn; rewrite ?upd_same; cbn.

Lemma acq_next_enter_cleanup s t a b : acq_next a (thr s t) (thr (enter_cleanup s t a b) t).
Proof.
  unfold enter_cleanup. destruct (tl_rel_raises _ _); thr_simpl; repeat split; auto.
  left. cbn. auto.
Qed.

Lemma acq_next_after_attempt s t a : acq_next a (thr s t) (thr (after_attempt s t a) t).
Proof.
  unfold after_attempt. destruct (negb (a_blk a)); [apply acq_next_enter_cleanup|].
  destruct (a_tm a); try (thr_simpl; repeat split; auto; left; cbn; auto).
  destruct (_ <? _)%N; [apply acq_next_enter_cleanup|thr_simpl; repeat split; auto; left; cbn; auto].
Qed.

Definition rel_next (th th' : thread) : Prop :=
  t_cs th' = t_cs th /\ t_proc th' = t_proc th /\ t_prog th' = t_prog th /\
  match t_pc th' with PIdle | PTLRel _ _ => True | _ => False end.

Lemma rel_next_enter_tlrel s t o k : rel_next (thr s t) (thr (enter_tlrel s t o k) t).
Proof. rewrite enter_tlrel_eq. destruct (_ || _); thr_simpl; repeat split; auto. Qed.

Lemma wf_rel_next th th' : prog_ok (t_cs th) (t_prog th) -> rel_next th th' -> wf_thr th'.
Proof.
  intros A (E1 & _ & E2 & L). unfold wf_thr. destruct (t_pc th'); try tauto; rewrite E1, E2; auto.
Qed.

Lemma In_skipn {A} k (l : list A) x : In x (skipn k l) -> In x l.
Proof. revert l. induction k; intros [|y r]; cbn; auto. Qed.

(* what a step does to the stepping thread's program: it stays, loses its head, or
   additionally loses a skipped prefix *)
Definition prog_shrinks (th th' : thread) : Prop :=
  t_proc th' = t_proc th /\ forall c, In c (t_prog th') -> In c (t_prog th).

Lemma oproc_tail s s' t o0 o : Tail s s' t o0 -> o_proc (objs s' o) = o_proc (objs s o).
Proof. intros T. apply (Upd_oproc _ _ _ _ _ (ta_upd _ _ _ _ T)). Qed.

Lemma tl_release_proc ob : o_proc (tl_release ob) = o_proc ob.
Proof. destruct (tl_release_cases ob) as [(_ & _ & ->)|(_ & ->)]; reflexivity. Qed.

Lemma upd_proc s o ob o' : o_proc ob = o_proc (objs s o) -> o_proc (upd (objs s) o ob o') = o_proc (objs s o').
Proof. intros E. unfold upd. destruct (Nat.eqb_spec o' o); subst; auto. Qed.

(* one step: the flag stays down, thread t's record stays well-formed, its program
   only shrinks, object processes never change *)
Lemma W_step_local s t :
  Inv s -> wf_thr (thr s t) ->
  (forall c, In c (t_prog (thr s t)) -> o_proc (objs s (call_obj c)) = t_proc (thr s t)) ->
  viol (step s t) = viol s /\ wf_thr (thr (step s t) t) /\ prog_shrinks (thr s t) (thr (step s t) t) /\
  (forall o, o_proc (objs (step s t) o) = o_proc (objs s o)).
Proof.
  intros [HT HF] Hw Hp. unfold step. destruct (negb (enabled s t)); [repeat split; auto|].
  unfold wf_thr in Hw.
  destruct (t_pc (thr s t)) as [|a dl|a|a d|a d i|a w|a oserr|o d k|o d k|o k] eqn:Hpc.
  - (* PIdle *)
    destruct (t_prog (thr s t)) as [|c rest] eqn:Hpr; [repeat split; auto; unfold wf_thr; now rewrite Hpc, Hpr|].
    assert (Hproc : o_proc (objs s (call_obj c)) = t_proc (thr s t)) by (apply Hp; now left).
    rewrite viol_begin_call.
    destruct c as [o m blk tm poll skip|o force]; unfold begin_call; cbn in *.
    + rewrite !upd_same. cbn. rewrite Hproc, Nat.eqb_refl. destruct (normalise _ _ _) as [b' tm'].
      inversion Hw; subst. thr_simpl. repeat split; auto; try (now rewrite orb_false_r);
        try solve [unfold wf_thr; thr_simpl; auto]; try (intros c Hc; rewrite Hpr; now right).
    + inversion Hw as [| |cs o' f rest' Hin Hrest]; subst.
      destruct (pr_cs _ HF _ _ Hin) as [_ Hfd].
      destruct (o_fd (objs s o)) as [d|] eqn:Efd; [|congruence].
      assert (Hown : own_is (objs s o) t = true).
      { destruct HT as [HL _ _ _ _ _]. apply occ_pos_in in Hin. destruct (HL t o) as [A _]; [unfold lev; lia|].
        unfold own_is. now rewrite A, Nat.eqb_refl. }
      rewrite !upd_same. cbn. rewrite Hproc, Nat.eqb_refl, Hown. cbn.
      split; [now rewrite orb_false_r|].
      destruct (Nat.eqb (pred (o_cnt (objs s o))) 0 || force).
      * thr_simpl. repeat split; auto;
          try solve [unfold wf_thr; thr_simpl; auto]; try (intros c Hc; rewrite Hpr; now right).
        intros o'. cbn. apply upd_proc. reflexivity.
      * match goal with |- context [enter_tlrel ?s1 t o 1] => pose proof (rel_next_enter_tlrel s1 t o 1) as R end.
        repeat split.
        -- eapply wf_rel_next; [|exact R]. thr_simpl. auto.
        -- destruct R as (_ & R & _). rewrite R. thr_simpl. auto.
        -- destruct R as (_ & _ & R & _). rewrite R. thr_simpl. intros c Hc. rewrite Hpr. now right.
        -- intros o'. rewrite (oproc_tail _ _ _ _ _ (Tail_enter_tlrel _ _ _ _)). cbn. apply upd_proc. reflexivity.
  - (* PTLAcq *) cbn.
    destruct (tl_try (objs s (a_o a)) t) as [ob'|] eqn:Htry.
    + destruct (tl_try_some _ _ _ Htry) as (_ & _ & _ & _ & Hproc' & _).
      destruct (o_fd ob'); thr_simpl; (split; [reflexivity|]); (split; [unfold wf_thr; thr_simpl; tauto|]);
        (split; [split; auto|]); intros o'; cbn; apply upd_proc; cbn; auto.
    + thr_simpl. rewrite is_fail_fail_result. split; [reflexivity|]. split; [unfold wf_thr; thr_simpl; tauto|].
      split; [split; auto; apply In_skipn|auto].
  - (* POpen *) cbn. destruct (faulty s KOpen); [destruct (intr s KOpen)|].
    + rewrite viol_enter_cleanup. split; [reflexivity|].
      match goal with |- context [enter_cleanup ?s1 t a true] => pose proof (acq_next_enter_cleanup s1 t a true) as R;
         pose proof (Tail_enter_cleanup s1 t a true) as T end.
      split; [eapply wf_acq_next; [|exact R]; exact Hw|].
      split; [|intros o'; now rewrite (oproc_tail _ _ _ _ _ T)].
      destruct R as (_ & R1 & [[R2 _]|[R2 _]]); split; auto; rewrite R2; auto. cbn. apply In_skipn.
    + rewrite viol_after_attempt. split; [reflexivity|].
      match goal with |- context [after_attempt ?s1 t a] => pose proof (acq_next_after_attempt s1 t a) as R;
         pose proof (Tail_after_attempt s1 t a) as T end.
      split; [eapply wf_acq_next; [|exact R]; exact Hw|].
      split; [|intros o'; now rewrite (oproc_tail _ _ _ _ _ T)].
      destruct R as (_ & R1 & [[R2 _]|[R2 _]]); split; auto; rewrite R2; auto. cbn. apply In_skipn.
    + thr_simpl. split; [reflexivity|]. split; [unfold wf_thr; thr_simpl; tauto|]. split; [split; auto|auto].
  - (* PFlock *) cbn. destruct (faulty s KLock); [|destruct (holder_free_for _ d)]; thr_simpl;
      (split; [reflexivity|]); (split; [unfold wf_thr; thr_simpl; tauto|]); (split; [split; auto|]); auto.
    intros o'. apply upd_proc. reflexivity.
  - (* PCloseF *) cbn. destruct (faulty s KClose || i).
    + rewrite viol_enter_cleanup, viol_k_close. split; [reflexivity|].
      match goal with |- context [enter_cleanup ?s1 t a true] => pose proof (acq_next_enter_cleanup s1 t a true) as R;
         pose proof (Tail_enter_cleanup s1 t a true) as T end.
      rewrite thr_k_close in R. cbn in R.
      split; [eapply wf_acq_next; [|exact R]; exact Hw|].
      split; [|intros o'; rewrite (oproc_tail _ _ _ _ _ T), objs_k_close; reflexivity].
      destruct R as (_ & R1 & [[R2 _]|[R2 _]]); split; auto; rewrite R2; auto. apply In_skipn.
    + rewrite viol_after_attempt, viol_k_close. split; [reflexivity|].
      match goal with |- context [after_attempt ?s1 t a] => pose proof (acq_next_after_attempt s1 t a) as R;
         pose proof (Tail_after_attempt s1 t a) as T end.
      rewrite thr_k_close in R. cbn in R.
      split; [eapply wf_acq_next; [|exact R]; exact Hw|].
      split; [|intros o'; rewrite (oproc_tail _ _ _ _ _ T), objs_k_close; reflexivity].
      destruct R as (_ & R1 & [[R2 _]|[R2 _]]); split; auto; rewrite R2; auto. apply In_skipn.
  - (* PSleep *) thr_simpl. split; [reflexivity|]. split; [unfold wf_thr; thr_simpl; tauto|]. split; [split; auto|auto].
  - (* PCleanRel *) thr_simpl.
    assert (Hf : is_fail (if oserr then ROSErr else fail_result (a_mode a)) = true)
      by (destruct oserr; [reflexivity|apply is_fail_fail_result]).
    rewrite Hf. split; [reflexivity|]. split; [unfold wf_thr; thr_simpl; tauto|].
    split; [split; auto; apply In_skipn|]. intros o'. apply upd_proc, tl_release_proc.
  - (* PUnlock *) cbn. destruct (faulty s KUnlock); thr_simpl; rewrite ?viol_k_unlock, ?thr_k_unlock, ?objs_k_unlock; cbn;
      (split; [reflexivity|]); (split; [unfold wf_thr; thr_simpl; rewrite ?thr_k_unlock; tauto|]);
      (split; [split; rewrite ?thr_k_unlock; auto|]); auto.
  - (* PCloseR *) cbn. rewrite viol_enter_tlrel. cbn. rewrite viol_k_close. cbn. split; [reflexivity|].
    match goal with |- context [enter_tlrel ?s1 t o k] => pose proof (rel_next_enter_tlrel s1 t o k) as R;
         pose proof (Tail_enter_tlrel s1 t o k) as T end.
    cbn in R. rewrite thr_k_close in R. cbn in R.
    split; [eapply wf_rel_next; [|exact R]; exact Hw|].
    split; [destruct R as (_ & R1 & R2 & _); split; auto; rewrite R2; auto|].
    intros o'. rewrite (oproc_tail _ _ _ _ _ T). cbn. rewrite objs_k_close. cbn. apply upd_proc. reflexivity.
  - (* PTLRel *) cbn. rewrite viol_enter_tlrel. cbn. split; [reflexivity|].
    match goal with |- context [enter_tlrel ?s1 t o ?k'] => pose proof (rel_next_enter_tlrel s1 t o k') as R;
         pose proof (Tail_enter_tlrel s1 t o k') as T end.
    cbn in R.
    split; [eapply wf_rel_next; [|exact R]; exact Hw|].
    split; [destruct R as (_ & R1 & R2 & _); split; auto; rewrite R2; auto|].
    intros o'. rewrite (oproc_tail _ _ _ _ _ T). cbn. apply upd_proc, tl_release_proc.
Qed.

Lemma W_apply s e : Inv s -> W s -> viol s = false -> viol (apply s e) = false /\ W (apply s e).
Proof.
  intros HI [Hw Hp] Hv. destruct e as [t|n|p]; cbn.
  - destruct (W_step_local s t HI (Hw t) (Hp t)) as (A & B & [C1 C2] & D). split; [congruence|]. split.
    + intros t'. destruct (Nat.eq_dec t' t) as [->|Hn]; [exact B|]. destruct (step_frame s t t' Hn) as [E _]. rewrite E. apply Hw.
    + intros t' c. rewrite D. destruct (Nat.eq_dec t' t) as [->|Hn].
      * intros Hc. rewrite C1. apply Hp, C2, Hc.
      * destruct (step_frame s t t' Hn) as [E _]. rewrite E. apply Hp.
  - split; [exact Hv|]. split; auto.
  - split; [exact Hv|]. split; auto.
Qed.

Lemma W_run evs : forall s, Inv s -> W s -> viol s = false -> viol (run s evs) = false.
Proof.
  induction evs as [|e r IH]; [cbn; auto|]. intros s HI HW Hv.
  change (run s (e :: r)) with (run (apply s e) r).
  destruct (W_apply s e HI HW Hv) as [A B]. apply IH; auto. apply Inv_apply; auto.
Qed.

Lemma nth_fun_obj0_proc ocfg o :
  o_proc (nth_fun (map (fun c : pid * bool * tmo => obj0 (fst (fst c)) (snd (fst c)) (snd c)) ocfg) (obj0 0 false TNeg) o)
  = match nth_error ocfg o with Some oc => fst (fst oc) | None => 0 end.
Proof. revert o. induction ocfg as [|x r IH]; intros [|o]; cbn; auto. Qed.

Lemma W_init ocfg tcfg fl : cfg_ok ocfg tcfg = true -> W (init_cfg ocfg tcfg fl).
Proof.
  unfold cfg_ok. intros H. rewrite forallb_forall in H. unfold init_cfg, init, W. cbn.
  assert (G : forall t, let th := nth_fun (map (fun c : pid * list call => thr0 (fst c) (snd c)) tcfg) (thr0 0 []) t in
            wf_thr th /\ forall c, In c (t_prog th) ->
              match nth_error ocfg (call_obj c) with Some oc => fst (fst oc) | None => 0 end = t_proc th).
  { induction tcfg as [|x r IH]; intros t; cbn.
    - destruct t; cbn; (split; [constructor|tauto]).
    - destruct t as [|t]; cbn.
      + specialize (H x (or_introl eq_refl)). apply andb_prop in H. destruct H as [A B].
        split; [unfold wf_thr; cbn; eapply prog_okb_sound; eauto|].
        rewrite forallb_forall in B. intros c Hc. specialize (B c Hc).
        destruct (nth_error ocfg (call_obj c)); apply Nat.eqb_eq in B; auto.
      + apply IH. intros y Hy. apply H. now right. }
  split; [intros t; apply G|]. intros t c Hc. rewrite nth_fun_obj0_proc. now apply G.
Qed.

Theorem contract_static_lemma :
  forall ocfg tcfg, cfg_ok ocfg tcfg = true ->
  forall fl evs, viol (run (init_cfg ocfg tcfg fl) evs) = false.
Proof.
  intros ocfg tcfg H fl evs. apply W_run; [apply Inv_init|now apply W_init|reflexivity].
Qed.

Theorem mutex_static_lemma :
  forall ocfg tcfg, cfg_ok ocfg tcfg = true ->
  forall fl evs t1 t2,
    let s := run (init_cfg ocfg tcfg fl) evs in
    inside_b s t1 = true -> inside_b s t2 = true -> t1 = t2.
Proof.
  intros ocfg tcfg H fl evs t1 t2 s. apply mutex_lemma. now apply contract_static_lemma.
Qed.

(* ---------- every step is an update of one thread and one object (processes never change) ---------- *)

Lemma Upd_refl s t o : Upd s s t o.
Proof. constructor; auto. Qed.

Lemma Upd_tail s s1 s' t o0 : objs s1 = objs s -> thr s1 = thr s -> dead s1 = dead s -> Tail s1 s' t o0 -> Upd s s' t o0.
Proof. intros A B C T. eapply Upd_trans; [apply Upd_eq; eauto|apply (ta_upd _ _ _ _ T)]. Qed.

Lemma step_Upd s t : exists o0, Upd s (step s t) t o0.
Proof.
  unfold step. destruct (negb (enabled s t)); [exists 0; apply Upd_refl|].
  destruct (t_pc (thr s t)) as [|a dl|a|a d|a d i|a w|a oserr|o d k|o d k|o k] eqn:Hpc.
  - destruct (t_prog (thr s t)) as [|c rest]; [exists 0; apply Upd_refl|].
    destruct c as [o m blk tm poll skip|o force]; unfold begin_call; cbn; exists o.
    + rewrite upd_same. cbn. destruct (normalise _ _ _). destruct (Nat.eqb _ _); constructor; thr_simpl; intros; rewrite ?upd_other by auto; auto.
    + rewrite upd_same. cbn.
      destruct (Nat.eqb (o_proc (objs s o)) _); cbn;
        (destruct (o_fd (objs s o)); [|constructor; thr_simpl; intros; rewrite ?upd_other by auto; auto]);
        destruct (own_is _ _); cbn; destruct (_ || _); cbn.
      all: try solve [constructor; thr_simpl; intros; rewrite ?upd_other by auto; auto].
      all: match goal with |- context [enter_tlrel ?s1 ?tt ?oo 1] =>
             apply (Upd_trans _ s1); [|apply (ta_upd _ _ _ _ (Tail_enter_tlrel s1 tt oo 1))] end;
           constructor; thr_simpl; intros; rewrite ?upd_other by auto; auto.
  - exists (a_o a). cbn. destruct (tl_try _ _) as [ob'|] eqn:E; [|constructor; thr_simpl; intros; rewrite ?upd_other by auto; auto].
    destruct (tl_try_some _ _ _ E) as (_ & _ & _ & _ & Hp & _).
    destruct (o_fd ob'); constructor; thr_simpl; intros; rewrite ?upd_other by auto; auto.
  - exists (a_o a). cbn. destruct (faulty s KOpen); [destruct (intr s KOpen)|].
    + eapply Upd_tail; [| | |apply Tail_enter_cleanup]; reflexivity.
    + eapply Upd_tail; [| | |apply Tail_after_attempt]; reflexivity.
    + constructor; thr_simpl; intros; rewrite ?upd_other by auto; auto.
  - exists (a_o a). cbn. destruct (faulty s KLock); [|destruct (holder_free_for _ d)]; constructor; thr_simpl; intros; rewrite ?upd_other by auto; auto.
  - exists (a_o a). cbn. destruct (faulty s KClose || i).
    + eapply Upd_tail; [| | |apply Tail_enter_cleanup]; rewrite ?objs_k_close, ?thr_k_close, ?dead_k_close; reflexivity.
    + eapply Upd_tail; [| | |apply Tail_after_attempt]; rewrite ?objs_k_close, ?thr_k_close, ?dead_k_close; reflexivity.
  - exists (a_o a). constructor; thr_simpl; intros; rewrite ?upd_other by auto; auto.
  - exists (a_o a). constructor; thr_simpl; intros; rewrite ?upd_other by auto; auto. apply tl_release_proc.
  - exists o. cbn. destruct (faulty s KUnlock); constructor; thr_simpl; rewrite ?objs_k_unlock, ?thr_k_unlock, ?dead_k_unlock; cbn;
      intros; rewrite ?upd_other by auto; auto.
  - exists o. cbn. match goal with |- context [enter_tlrel ?s1 ?tt ?oo ?kk] =>
      apply (Upd_trans _ s1); [|apply (ta_upd _ _ _ _ (Tail_enter_tlrel s1 tt oo kk))] end. constructor; thr_simpl; rewrite ?objs_k_close, ?thr_k_close, ?dead_k_close; cbn;
      intros; rewrite ?upd_other by auto; auto.
  - exists o. cbn. match goal with |- context [enter_tlrel ?s1 ?tt ?oo ?kk] =>
      apply (Upd_trans _ s1); [|apply (ta_upd _ _ _ _ (Tail_enter_tlrel s1 tt oo kk))] end. constructor; thr_simpl; intros; rewrite ?upd_other by auto; auto. apply tl_release_proc.
Qed.

Lemma step_procs s t : (forall o, o_proc (objs (step s t) o) = o_proc (objs s o)) /\ (forall t', t_proc (thr (step s t) t') = t_proc (thr s t')).
Proof. destruct (step_Upd s t) as [o0 U]. split; intros; [eapply Upd_oproc|eapply Upd_tproc]; eauto. Qed.

