(* BufferFlag.v — the completion flag of the buffer model.
   (1) the ghost list g_delivered is exactly what the trace shows: the sets of
       the FnEnd observations with ok = true, in order;
   (2) whenever the flag `event` is set at a quiescent point, the daemon is
       parked on the first q.get() of a round with an empty queue, and
       therefore (BufferCore) every argument handed to the buffer so far is in
       a call that returned without error — the flag is what wait() finally
       blocks on (l.705), so a wait() that finds it set returns only then. *)
From Coq Require Import List Arith NArith Bool Lia.
Import ListNotations.
Require Import Aiuti.Buffer Aiuti.BufferCore.

(* ---- (1) delivered = successful sets of the trace: ok_sets / keeps_del and the per-helper
        lemmas live in BufferCore.v (they are also used by the generic walk there) ---- *)
(* each step appends to g_delivered exactly the successful sets it shows *)
Lemma delivered_step s e :
  g_delivered (gh (fst (step s e))) = g_delivered (gh s) ++ ok_sets (snd (step s e)).
Proof.
  assert (K : forall r, keeps_del s r -> g_delivered (gh (fst r)) = g_delivered (gh s) ++ ok_sets (snd r)).
  { intros r [H1 H2]. rewrite H1, H2, app_nil_r. reflexivity. }
  assert (OK : forall fc, g_delivered (gh (fst (do_fn_end s true fc))) =
                          g_delivered (gh s) ++ ok_sets (snd (do_fn_end s true fc))).
  { intros fc. unfold do_fn_end. destruct (dm s); try (rewrite app_nil_r; reflexivity).
    match goal with |- context [release ?x] => destruct (release_del x) as [R1 R2]; destruct (release x) as [s2 o1] end.
    cbn [fst snd gh set_gh gh_deliver g_delivered] in R1, R2.
    destruct fc.
    - match goal with |- context [continue_round ?a ?b ?c] => destruct (continue_round_del a b c) as [C1 C2]; destruct (continue_round a b c) as [s3 o2] end.
      cbn [fst snd gh set_event] in *. rewrite C1, R1, !ok_sets_app, R2, C2. cbn. rewrite !app_nil_r. reflexivity.
    - unfold end_round. destruct (start_round_del s2) as [C1 C2]. destruct (start_round s2) as [s3 o2].
      cbn [fst snd] in *. rewrite C1, R1, !ok_sets_app, R2, C2. cbn. rewrite !app_nil_r. reflexivity. }
  unfold step. destruct (is_dead s); [rewrite app_nil_r; reflexivity|].
  destruct e; try apply OK; try (apply K).
  - apply do_put_del.
  - apply do_feed_del.
  - apply do_feed_del.
  - apply do_feed_del.
  - apply do_advance_del.
  - apply do_wait_del.
  - unfold do_fn_end. destruct (dm s); try (split; reflexivity).
    destruct (continue_round_del s ins []) as [C1 C2]. destruct (continue_round s ins []) as [s1 o1].
    unfold keeps_del. cbn [fst snd] in *. split; [exact C1|]. rewrite ok_sets_app, C2. reflexivity.
  - split; reflexivity.
  - split; reflexivity.
  - apply do_put_del.
Qed.

Lemma delivered_run evs : forall s,
  g_delivered (gh (fst (run s evs))) = g_delivered (gh s) ++ ok_sets (concat (snd (run s evs))).
Proof.
  induction evs as [|e r IH]; intros s; cbn [run]; [cbn; rewrite app_nil_r; reflexivity|].
  pose proof (delivered_step s e) as H. destruct (step s e) as [s1 o]. cbn [fst snd] in H.
  specialize (IH s1). destruct (run s1 r) as [s2 os]. cbn [fst snd concat] in *.
  rewrite IH, H, ok_sets_app, app_assoc. reflexivity.
Qed.

Lemma delivered_is_trace T evs :
  g_delivered (gh (final T evs)) = ok_sets (concat (trace T evs)).
Proof. unfold final, trace. rewrite delivered_run. reflexivity. Qed.

(* ---- (2) flag set => idle with an empty queue ------------------------------------ *)
Definition F (r : state * list obs) : Prop :=
  evset (fst r) = true -> dm (fst r) = DIdle /\ q (fst r) = [].
Definition Flag (s : state) : Prop := is_dead s = false -> F (s, []).

Lemma F_false s o : evset s = false -> F (s, o).
Proof. unfold F; cbn. congruence. Qed.

Lemma run_func0_F s ins : q s = [] -> evset s = false -> F (run_func0 s ins).
Proof.
  intros Hq He. unfold run_func0. destruct ins.
  - unfold release, F; cbn. auto.
  - apply F_false. exact He.
Qed.

Lemma continue_round_F s ins ld : evset s = false -> F (continue_round s ins ld).
Proof.
  intros He. unfold continue_round. destruct (load_all (ld ++ q s)) as [[rem ys] fs].
  destruct (unfinished s - length (q s) =? 0); destruct rem; cbn [andb];
    try destruct (wants_cancel _); try (apply F_false; exact He);
    apply run_func0_F; [reflexivity|exact He].
Qed.

Lemma start_round_F s : F (start_round s).
Proof.
  unfold start_round. destruct (q s) eqn:Eq.
  - unfold F; cbn. auto.
  - apply continue_round_F. reflexivity.
Qed.

Lemma run_func_F s ins : evset s = false -> F (run_func s ins).
Proof.
  intros He. unfold run_func. destruct ins; [|apply F_false; exact He].
  destruct (release s) as [s1 o1]. unfold end_round.
  pose proof (start_round_F s1) as H. destruct (start_round s1) as [s2 o2]. exact H.
Qed.

Lemma load_one_F s ins p : evset s = false -> F (load_one s ins p).
Proof.
  intros He. unfold load_one. destruct (p_fin p); [apply continue_round_F; exact He|apply F_false; exact He].
Qed.

Lemma after_gather_F s ins g : evset s = false -> F (after_gather s ins g).
Proof.
  intros He. destruct g; cbn [after_gather];
    [apply F_false; exact He|apply load_one_F; exact He|apply run_func_F; exact He|apply run_func_F; exact He].
Qed.

Lemma on_put_F s : (dm s <> DIdle -> evset s = false) -> F (on_put s).
Proof.
  intros H. unfold on_put. destruct (dm s) eqn:Ed.
  - apply start_round_F.
  - assert (He : evset s = false) by (apply H; discriminate).
    destruct g; try (apply F_false; exact He). destruct (q s); apply F_false; exact He.
  - assert (He : evset s = false) by (apply H; discriminate).
    destruct (q s); [apply F_false; exact He|]. apply load_one_F. exact He.
  - apply F_false, H; discriminate.
  - apply F_false, H; discriminate.
  - apply F_false, H; discriminate.
Qed.

Lemma step_flag s e : Flag s -> Flag (fst (step s e)).
Proof.
  intros HF. unfold step. destruct (is_dead s) eqn:Hd; [exact HF|].
  specialize (HF Hd). unfold F in HF; cbn [fst] in HF.
  assert (Hne : dm s <> DIdle -> evset s = false).
  { intros Hn. destruct (evset s); [|reflexivity]. destruct (HF eq_refl) as [H _]. contradiction. }
  assert (P : forall r, F r -> Flag (fst r)).
  { intros [s' o] H _. exact H. }
  destruct e.
  - apply P. unfold do_put. destruct (existsb (Nat.eqb p) (seen s)); [exact HF|].
    apply on_put_F. cbn. intros _. reflexivity.
  - apply P. unfold do_feed. destruct (open_here s p); cbn [negb]; [|exact HF].
    destruct (dm s) eqn:Ed.
    + unfold F; cbn. intros He. destruct (HF He) as [_ Hq]. rewrite Hq. auto.
    + assert (He : evset s = false) by (apply Hne; discriminate).
      destruct (load_all (map (feed_if p (AY x)) ld)) as [[rem ys] fs]. destruct rem; [apply after_gather_F|apply F_false]; exact He.
    + apply F_false, Hne; discriminate.
    + assert (He : evset s = false) by (apply Hne; discriminate).
      destruct ((pid p0 =? p) && accepts p0); [apply load_one_F|apply F_false]; exact He.
    + apply F_false, Hne; discriminate.
    + apply F_false, Hne; discriminate.
  - apply P. unfold do_feed. destruct (open_here s p); cbn [negb]; [|exact HF].
    destruct (dm s) eqn:Ed.
    + unfold F; cbn. intros He. destruct (HF He) as [_ Hq]. rewrite Hq. auto.
    + assert (He : evset s = false) by (apply Hne; discriminate).
      destruct (load_all (map (feed_if p AF) ld)) as [[rem ys] fs]. destruct rem; [apply after_gather_F|apply F_false]; exact He.
    + apply F_false, Hne; discriminate.
    + assert (He : evset s = false) by (apply Hne; discriminate).
      destruct ((pid p0 =? p) && accepts p0); [apply load_one_F|apply F_false]; exact He.
    + apply F_false, Hne; discriminate.
    + apply F_false, Hne; discriminate.
  - apply P. unfold do_feed. destruct (open_here s p); cbn [negb]; [|exact HF].
    destruct (dm s) eqn:Ed.
    + unfold F; cbn. intros He. destruct (HF He) as [_ Hq]. rewrite Hq. auto.
    + assert (He : evset s = false) by (apply Hne; discriminate).
      destruct (load_all (map (feed_if p AE) ld)) as [[rem ys] fs]. destruct rem; [apply after_gather_F|apply F_false]; exact He.
    + apply F_false, Hne; discriminate.
    + assert (He : evset s = false) by (apply Hne; discriminate).
      destruct ((pid p0 =? p) && accepts p0); [apply load_one_F|apply F_false]; exact He.
    + apply F_false, Hne; discriminate.
    + apply F_false, Hne; discriminate.
  - apply P. unfold do_advance. destruct (dm s) as [|ins ld g|ins d|ins p0|ins|] eqn:Ed; try (unfold F; cbn; rewrite ?Ed; exact HF).
    + destruct g as [d|p0| |]; try (unfold F; cbn; rewrite ?Ed; exact HF).
      destruct (d <=? now s + dt)%N; [|unfold F; cbn; rewrite ?Ed; exact HF].
      apply F_false. cbn. apply Hne; discriminate.
    + destruct (d <=? now s + dt)%N; [|unfold F; cbn; rewrite ?Ed; exact HF].
      match goal with |- context [run_func ?a ?b] => pose proof (run_func_F a b) as H; destruct (run_func a b) as [s1 o] end.
      unfold F in *; cbn [fst set_now evset dm q] in *. apply H. apply Hne; discriminate.
  - apply P. unfold do_wait. destruct (existsb (Nat.eqb w) (wseen s)); [exact HF|].
    set (s' := set_gh (set_wseen s (wseen s ++ [w])) (gh_tie (gh s) (tie_now s))).
    assert (HF' : evset s' = true -> dm s' = DIdle /\ q s' = []) by exact HF.
    assert (Hne' : dm s' <> DIdle -> evset s' = false) by exact Hne.
    clearbody s'. clear HF Hne Hd.
    assert (D : F (if evset s' then (set_gh s' (gh_return (gh s') [(w, seen s')]), [WaitRet w (now s') (nok s')])
                   else (set_waiters s' (waiters s' ++ [mkw w cancel OnEvent (seen s')]), []))).
    { destruct (evset s') eqn:Ee; unfold F; cbn; [intros _; auto|congruence]. }
    unfold wait_core. destruct (unfinished s' =? 0); [|unfold F; cbn; exact HF'].
    destruct (dm s') eqn:Ed; try exact D.
    + destruct g; try exact D.
      destruct cancel; [apply F_false; cbn; apply Hne'; discriminate|unfold F; cbn; rewrite ?Ed; exact HF'].
    + destruct cancel; [|unfold F; cbn; rewrite ?Ed; exact HF'].
      apply run_func_F. cbn. apply Hne'; discriminate.
  - apply P. unfold do_fn_end. destruct (dm s) eqn:Ed; try (unfold F; cbn [fst]; rewrite Ed; exact HF).
    match goal with |- context [release ?x] => destruct (release x) as [s2 o1] end. unfold end_round.
    pose proof (start_round_F s2) as H. destruct (start_round s2) as [s3 o2]. exact H.
  - apply P. unfold do_fn_end. destruct (dm s) eqn:Ed; try (unfold F; cbn [fst]; rewrite Ed; exact HF).
    pose proof (continue_round_F s ins []) as H. destruct (continue_round s ins []) as [s1 o1].
    apply H, Hne; discriminate.
  - intros H; discriminate.
  - apply P. apply F_false. reflexivity.
  - apply P. unfold do_put. destruct (existsb (Nat.eqb p) (seen s)); [exact HF|].
    apply on_put_F. cbn. exact Hne.
  - apply P. unfold do_fn_end. destruct (dm s) eqn:Ed; try (unfold F; cbn [fst]; rewrite Ed; exact HF).
    match goal with |- context [release ?x] => destruct (release x) as [s2 o1] end.
    match goal with |- context [continue_round ?a ?b ?c] => pose proof (continue_round_F a b c eq_refl) as H; destruct (continue_round a b c) end. exact H.
Qed.

Lemma final_flag T evs : Flag (final T evs).
Proof.
  unfold final. assert (H : Flag (init T)) by (intros _ _; auto).
  revert H. generalize (init T). induction evs as [|e r IH]; intros s H; cbn [run]; [exact H|].
  pose proof (step_flag s e H) as H1. destruct (step s e) as [s1 o]. cbn [fst] in H1.
  specialize (IH s1 H1). destruct (run s1 r). exact IH.
Qed.

(* When the completion flag is set at a quiescent point, every argument handed
   to the buffer so far (by any thread) has been delivered in a call that
   returned without error, nothing is held and nothing is queued. *)
Lemma flag_means_delivered T evs :
  let s := final T evs in
  is_dead s = false -> evset s = true ->
  dm s = DIdle /\ q s = [] /\ forall x, In x (off (gh s)) -> In x (g_delivered (gh s)).
Proof.
  intros s Hd He. subst s. destruct (final_flag T evs Hd He) as [H1 H2]. cbn [fst] in H1, H2.
  split; [exact H1|]. split; [exact H2|]. intros x Hx.
  pose proof (final_inv T evs Hd) as HC. unfold prods in HC. rewrite H1, H2 in HC. cbn in HC.
  destruct (c_cons _ _ _ HC x Hx) as [H|[[]|[]]]. exact H.
Qed.
