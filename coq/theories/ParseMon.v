(* ParseMon.v — the monitor of Case_C19.v (an independently written reference:
   index-based first-occurrence search, dictionary stated by first keys / last
   values) accepts every trace of the model Parse.v. *)
From Coq Require Import List Arith Bool Lia.
Import ListNotations.
Require Import Aiuti.CaseLib Aiuti.Parse Aiuti.ParseInv Aiuti.Case_C19.

(* ---- first_occ (search by position) = split_once (structural search) ------- *)
Lemma occurs_at_0 sep s :
  occurs_at sep s 0 = true -> strip_prefix sep s = Some (skipn (length sep) s).
Proof.
  unfold occurs_at. simpl. intros H. apply str_eqb_eq in H.
  apply strip_prefix_spec. rewrite <- H at 1. symmetry. apply firstn_skipn.
Qed.

Lemma occurs_at_0_false sep s : occurs_at sep s 0 = false -> strip_prefix sep s = None.
Proof.
  unfold occurs_at. simpl. intros H.
  destruct (strip_prefix sep s) as [r|] eqn:E; [|reflexivity].
  apply strip_prefix_spec in E. subst s.
  rewrite firstn_app, Nat.sub_diag, firstn_all in H. simpl in H.
  rewrite app_nil_r, str_eqb_refl in H. discriminate.
Qed.

Lemma find_seq_shift (f : nat -> bool) len : forall a,
  find f (seq (S a) len) = option_map S (find (fun n => f (S n)) (seq a len)).
Proof.
  induction len as [|len IH]; intros a; simpl; [reflexivity|].
  destruct (f (S a)); [reflexivity|]. apply IH.
Qed.

Lemma first_occ_split sep : forall s,
  match first_occ sep s with
  | Some n => split_once sep s = Some (firstn n s, skipn (n + length sep) s)
  | None => split_once sep s = None
  end.
Proof.
  induction s as [|c s IH]; unfold first_occ; rewrite split_once_eq.
  - cbn [length seq find]. destruct (occurs_at sep [] 0) eqn:E.
    + rewrite (occurs_at_0 _ _ E). reflexivity.
    + rewrite (occurs_at_0_false _ _ E). reflexivity.
  - change (seq 0 (S (length (c :: s)))) with (0 :: seq 1 (S (length s))). cbn [find].
    destruct (occurs_at sep (c :: s) 0) eqn:E.
    + rewrite (occurs_at_0 _ _ E). reflexivity.
    + rewrite (occurs_at_0_false _ _ E), find_seq_shift.
      change (find (fun n => occurs_at sep (c :: s) (S n)) (seq 0 (S (length s)))) with (first_occ sep s).
      revert IH. destruct (first_occ sep s) as [n|]; intros IH; cbn [option_map]; rewrite IH; reflexivity.
Qed.

(* ---- reference pair / bad item / calls = model ------------------------------ *)
Section Ref.
  Variable t : table.
  Variable sep : str.
  Variable pk : bool.

  Lemma ref_lit_eq x : ref_lit t x = try_parse (lookup t) x.
  Proof. reflexivity. Qed.

  Lemma ref_pair_eq it : ref_pair t sep pk it = parse_pair (lookup t) sep pk it.
  Proof.
    destruct it as [s|k v]; unfold ref_pair, parse_pair, kv_of, parse_tuple, split_py.
    - destruct sep as [|c sp] eqn:Es; [reflexivity|]. rewrite <- Es.
      pose proof (first_occ_split sep s) as H.
      destruct (first_occ sep s) as [n|]; rewrite H; [|reflexivity].
      destruct pk; reflexivity.
    - destruct pk; reflexivity.
  Qed.

  Lemma bad_item_eq it : bad_item t sep pk it = bad (lookup t) sep pk it.
  Proof. unfold bad_item, bad. now rewrite ref_pair_eq. Qed.

  Lemma ref_pairs_eq items : ref_pairs t sep pk items = pairs_of (lookup t) sep pk items.
  Proof.
    unfold ref_pairs, pairs_of. induction items as [|it r IH]; simpl; [reflexivity|].
    now rewrite ref_pair_eq, IH.
  Qed.

  Lemma ref_item_calls_eq it :
    ref_item_calls sep pk it =
    match kv_of sep it with Some (k, v) => pair_calls pk k v | None => [] end.
  Proof.
    destruct it as [s|k v]; unfold ref_item_calls, kv_of, split_py, pair_calls; [|reflexivity].
    destruct sep as [|c sp] eqn:Es; [reflexivity|]. rewrite <- Es.
    pose proof (first_occ_split sep s) as H.
    destruct (first_occ sep s) as [n|]; rewrite H; [|reflexivity].
    destruct pk; reflexivity.
  Qed.

  Lemma ref_calls_eq items : ref_calls t sep pk items = calls (lookup t) sep pk items.
  Proof.
    induction items as [|it r IH]; simpl; [reflexivity|].
    rewrite ref_item_calls_eq, bad_item_eq, IH. unfold bad, parse_pair.
    destruct (kv_of sep it) as [[k v]|]; [|reflexivity].
    destruct (parse_tuple (lookup t) pk k v) as [k' v']. simpl.
    destruct (hashable k'); reflexivity.
  Qed.

  (* first_bad finds the split point used by parse_model_spec *)
  Lemma first_bad_none items : forall i,
    first_bad t sep pk i items = None -> forall it, In it items -> bad (lookup t) sep pk it = false.
  Proof.
    induction items as [|x r IH]; intros i H it []; simpl in H;
      destruct (bad_item t sep pk x) eqn:E; try discriminate.
    - subst. now rewrite <- bad_item_eq.
    - eapply IH; eauto.
  Qed.

  Lemma first_bad_some items : forall i j it,
    first_bad t sep pk i items = Some (j, it) ->
    exists good rest, items = good ++ it :: rest /\ j = i + length good /\
      (forall g, In g good -> bad (lookup t) sep pk g = false) /\ bad (lookup t) sep pk it = true.
  Proof.
    induction items as [|x r IH]; intros i j it H; simpl in H; [discriminate|].
    destruct (bad_item t sep pk x) eqn:E.
    - injection H as <- <-. exists [], r. rewrite <- bad_item_eq.
      split; [reflexivity|]. split; [simpl; lia|]. split; [intros g []|exact E].
    - destruct (IH _ _ _ H) as (good & rest & -> & -> & Hg & Hb).
      exists (x :: good), rest.
      split; [reflexivity|]. split; [simpl; lia|]. split; [|exact Hb].
      intros g [<-|Hin]; [now rewrite <- bad_item_eq|now apply Hg].
  Qed.
End Ref.

(* ---- reference dictionary = insertion dictionary ----------------------------- *)
Lemma keys_of_first_keys ps : forall init, keys_of ps init = init ++ first_keys ps init.
Proof.
  induction ps as [|[k v] ps IH]; intros init; simpl; [now rewrite app_nil_r|].
  change (existsb (fun k' => key_eqb k' k) init) with (has_key init k).
  destruct (has_key init k); rewrite IH; [reflexivity|]. now rewrite <- app_assoc.
Qed.

Lemma last_value_last_of k ps : forall o dflt0 dflt,
  match o with Some v => v | None => dflt0 end = dflt ->
  match last_of k ps o with Some v => v | None => dflt0 end = last_value k ps dflt.
Proof.
  induction ps as [|[k' v'] ps IH]; intros o dflt0 dflt H; simpl; [exact H|].
  apply IH. simpl. destruct (key_eqb k' k); [reflexivity|exact H].
Qed.

Lemma has_key_false_in ks k k' : has_key ks k = false -> In k' ks -> key_eqb k k' = false.
Proof.
  unfold has_key. intros H Hin. rewrite key_eqb_sym.
  destruct (key_eqb k' k) eqn:E; [|reflexivity].
  assert (existsb (fun k0 => key_eqb k0 k) ks = true) by (apply existsb_exists; eauto). congruence.
Qed.

Lemma dict_by_lookup d :
  keys_distinct (map fst d) ->
  d = map (fun k => (k, match dict_get d k with Some v => v | None => k end)) (map fst d).
Proof.
  induction d as [|[k0 v0] r IH]; simpl; [reflexivity|]. intros [H1 H2].
  rewrite key_eqb_refl. f_equal.
  rewrite (IH H2) at 1. apply map_ext_in. intros k Hk.
  now rewrite (has_key_false_in _ _ _ H1 Hk).
Qed.

Lemma ref_dict_eq ps : ref_dict ps = dict_of ps [].
Proof.
  unfold ref_dict.
  pose proof (dict_keys_gen ps []) as Hk. simpl in Hk. rewrite keys_of_first_keys in Hk. simpl in Hk.
  rewrite (dict_by_lookup (dict_of ps [])).
  2:{ rewrite (dict_keys_gen ps []). apply keys_of_distinct. exact I. }
  rewrite Hk. apply map_ext. intros k. f_equal.
  rewrite dict_last_wins_gen. simpl. symmetry. now apply last_value_last_of.
Qed.

(* ---- the monitor accepts the model ------------------------------------------- *)
Lemma obj_eqb_refl x : obj_eqb x x = true.
Proof.
  destruct x as [s|v c h]; simpl; [apply str_eqb_refl|].
  rewrite !Nat.eqb_refl. now destruct h.
Qed.

Lemma res_eqb_refl r : res_eqb r r = true.
Proof.
  destruct r; simpl; try apply Nat.eqb_refl; [|reflexivity].
  apply list_eqb_refl. intros [a b]. unfold pair_eqb. simpl. now rewrite !obj_eqb_refl.
Qed.

Lemma ref_result_eq t sep pk items :
  ref_result t sep pk items = parse_to_dict (lookup t) sep pk items.
Proof.
  unfold ref_result.
  destruct (first_bad t sep pk 0 items) as [[j it]|] eqn:E.
  - destruct (first_bad_some _ _ _ _ _ _ _ E) as (good & rest & -> & -> & Hg & Hb).
    unfold parse_to_dict. rewrite build_bad by assumption.
    unfold err_of. rewrite ref_pair_eq. reflexivity.
  - unfold parse_to_dict. rewrite build_good by (eapply first_bad_none; eauto).
    now rewrite ref_dict_eq, ref_pairs_eq.
Qed.

Theorem monitor_accepts_model_lemma :
  forall sep pk custom t items,
    ok (Case sep pk custom t items (parse_to_dict (lookup t) sep pk items)
             (calls (lookup t) sep pk items) 0) = true.
Proof.
  intros sep pk custom t items. unfold ok.
  rewrite ref_result_eq, res_eqb_refl, ref_calls_eq. simpl.
  destruct custom; [|reflexivity].
  rewrite list_eqb_refl by apply str_eqb_refl. reflexivity.
Qed.
