(* BatcherInv.v — C04 / C09 / C11: the invariant [KInv] of the macro-step model
   Batcher.v that ties every caller, future, item, batch, retention entry and
   retention timer together, for ALL event lists (with Cancel, Chain, SetMax …).

   Part 1 (this file): vocabulary, dictionary lemmas, uniqueness of the place of
   a future, the invariant and its preservation by the internal transitions. *)
From Coq Require Import List Arith NArith Bool Lia ZifyBool ZifyNat ZifyN.
Import ListNotations.
Require Import Aiuti.Batcher Aiuti.BatcherLift Aiuti.BatcherLimits Aiuti.BatcherTime.

Local Arguments N.add : simpl never.
Local Arguments N.leb : simpl never.
Local Arguments N.ltb : simpl never.
Local Arguments N.max : simpl never.
Local Arguments Nat.ltb : simpl never.
Local Arguments Nat.leb : simpl never.
Local Arguments seq : simpl never.

(* ---- vocabulary -------------------------------------------------------------- *)

Definition kf (it : item) : nat * nat := (it_key it, it_fid it).

(* the effective events of the batch function of batch b, in order *)
Definition blog_of (b : nat) (log : list (nat * bev)) : list bev :=
  map snd (filter (fun p => Nat.eqb (fst p) b) log).

Definition no_yield (k : nat) (l : list bev) : Prop := forall r, ~ In (EvYield k r) l.

(* "the batch function produced outcome o for key k": [l] is the log of the batch
   that carried k, [ks] the keys of that batch.  The deciding event [ev] is the
   first event after which k is answered; k was not yielded before it. *)
Definition produced (l : list bev) (ks : list nat) (k : nat) (o : outcome) : Prop :=
  exists pre ev post, l = pre ++ ev :: post /\ no_yield k pre /\
    match o with
    | Ret v => ev = EvYield k (Val v)
    | YieldedExc e => ev = EvYield k (ExcVal e)
    | RaisedExc e => ev = EvRaise e
    | Missing => ev = EvFin
    | ProtocolErr => exists k' r, ev = EvYield k' r /\ (~ In k' ks \/ exists r', In (EvYield k' r') pre)
    | Cancelled => False
    | LibExc _ => False
    end.

(* ---- dictionaries ---------------------------------------------------------------- *)

Lemma lookup_In {A} (l : list (nat * A)) k v : lookup l k = Some v -> In (k, v) l.
Proof.
  induction l as [|[k' v'] r IH]; simpl; [discriminate|].
  destruct (Nat.eqb_spec k' k); [intros H; injection H as <-; subst; now left | auto].
Qed.

Lemma In_lookup {A} (l : list (nat * A)) k v : NoDup (map fst l) -> In (k, v) l -> lookup l k = Some v.
Proof.
  induction l as [|[k' v'] r IH]; simpl; [contradiction|]. intros ND [H|H].
  - injection H as -> ->. now rewrite Nat.eqb_refl.
  - inversion ND as [|? ? Hn ND']; subst. destruct (Nat.eqb_spec k' k); auto.
    subst. exfalso. apply Hn. apply in_map_iff. exists (k, v). auto.
Qed.

Lemma lookup_None_notin {A} (l : list (nat * A)) k : lookup l k = None -> ~ In k (map fst l).
Proof.
  induction l as [|[k' v'] r IH]; simpl; [tauto|].
  destruct (Nat.eqb_spec k' k); [discriminate|]. intros H [E|Hin]; [auto | now apply IH].
Qed.

Lemma notin_lookup_None {A} (l : list (nat * A)) k : ~ In k (map fst l) -> lookup l k = None.
Proof.
  induction l as [|[k' v'] r IH]; simpl; auto. intros H.
  destruct (Nat.eqb_spec k' k); [exfalso; auto | apply IH; tauto].
Qed.

Lemma in_remove_key {A} k (l : list (nat * A)) k' v :
  In (k', v) (remove_key k l) <-> In (k', v) l /\ k' <> k.
Proof.
  unfold remove_key. rewrite filter_In. simpl.
  destruct (Nat.eqb_spec k' k); simpl; split; intros [H1 H2]; split; auto; congruence.
Qed.

Lemma lookup_remove_key {A} k (l : list (nat * A)) k' :
  lookup (remove_key k l) k' = if Nat.eqb k' k then None else lookup l k'.
Proof.
  induction l as [|[k0 v0] r IH]; simpl; [now destruct (Nat.eqb k' k)|].
  destruct (Nat.eqb_spec k0 k) as [E|N]; simpl.
  - rewrite IH. destruct (Nat.eqb_spec k' k) as [E'|N']; auto.
    destruct (Nat.eqb_spec k0 k'); [congruence|auto].
  - rewrite IH. destruct (Nat.eqb_spec k0 k') as [E'|N']; auto.
    destruct (Nat.eqb_spec k' k); [congruence|auto].
Qed.

Lemma nodup_remove_key {A} k (l : list (nat * A)) : NoDup (map fst l) -> NoDup (map fst (remove_key k l)).
Proof.
  induction l as [|[k0 v0] r IH]; simpl; auto. intros ND. inversion ND as [|? ? Hn ND']; subst.
  destruct (Nat.eqb k0 k); simpl; auto. constructor; auto.
  intros H. apply Hn. apply in_map_iff in H as ([k1 v1] & E & Hin). simpl in E. subst k1.
  apply in_remove_key in Hin as [Hin _]. apply in_map_iff. exists (k0, v1). auto.
Qed.

Lemma dict_set_fresh l k v : ~ In k (map fst l) -> dict_set l k v = l ++ [(k, v)].
Proof.
  induction l as [|[k' v'] r IH]; simpl; auto. intros H.
  destruct (Nat.eqb_spec k' k); [exfalso; auto|]. f_equal. apply IH. tauto.
Qed.

Lemma futs_of_acc its : forall acc,
  NoDup (map fst acc ++ map it_key its) ->
  fold_left (fun d it => dict_set d (it_key it) (it_fid it)) its acc = acc ++ map kf its.
Proof.
  induction its as [|it r IH]; intros acc ND; simpl; [now rewrite app_nil_r|].
  rewrite dict_set_fresh.
  - rewrite IH; [now rewrite <- app_assoc|].
    rewrite map_app. simpl. rewrite <- app_assoc. exact ND.
  - simpl in ND. apply NoDup_remove_2 in ND. intros H. apply ND. apply in_or_app. now left.
Qed.

Lemma futs_of_nodup its : NoDup (map it_key its) -> futs_of its = map kf its.
Proof. intros ND. unfold futs_of. now rewrite futs_of_acc. Qed.

Lemma map_fst_kf its : map fst (map kf its) = map it_key its.
Proof. rewrite map_map. reflexivity. Qed.

Lemma map_snd_kf its : map snd (map kf its) = map it_fid its.
Proof. rewrite map_map. reflexivity. Qed.

(* ---- the batch log ------------------------------------------------------------------ *)

Lemma blog_of_app b l1 l2 : blog_of b (l1 ++ l2) = blog_of b l1 ++ blog_of b l2.
Proof. unfold blog_of. now rewrite filter_app, map_app. Qed.

Lemma blog_of_other b b' e log : b' <> b -> blog_of b (log ++ [(b', e)]) = blog_of b log.
Proof.
  intros N. rewrite blog_of_app. unfold blog_of at 2. simpl.
  destruct (Nat.eqb_spec b' b); [congruence|]. simpl. now rewrite app_nil_r.
Qed.

Lemma blog_of_same b e log : blog_of b (log ++ [(b, e)]) = blog_of b log ++ [e].
Proof. rewrite blog_of_app. unfold blog_of at 2. simpl. now rewrite Nat.eqb_refl. Qed.

Lemma blog_of_nil b log : (forall b' e, In (b', e) log -> b' <> b) -> blog_of b log = [].
Proof.
  intros H. unfold blog_of. induction log as [|[b' e] r IH]; simpl; auto.
  destruct (Nat.eqb_spec b' b) as [->|N].
  - specialize (H b e (or_introl eq_refl)). congruence.
  - apply IH. intros b0 e0 Hin. apply (H b0 e0). now right.
Qed.

(* [produced] only looks at a prefix of the log: it is stable when the log grows *)
Lemma produced_app l l' ks k o : produced l ks k o -> produced (l ++ l') ks k o.
Proof.
  intros (pre & ev & post & E & H1 & H2). exists pre, ev, (post ++ l').
  rewrite E, <- app_assoc. simpl. repeat split; auto.
Qed.

(* ---- every future has one place -------------------------------------------------------- *)

Lemma NoDup_app_disj {A} (l1 l2 : list A) x : NoDup (l1 ++ l2) -> In x l1 -> In x l2 -> False.
Proof.
  induction l1 as [|y r IH]; simpl; [tauto|]. intros ND [->|H1] H2.
  - inversion ND as [|? ? Hn ND']; subst. apply Hn. apply in_or_app. now right.
  - inversion ND as [|? ? Hn ND']; subst. eauto.
Qed.

Lemma NoDup_app_l {A} (l1 l2 : list A) : NoDup (l1 ++ l2) -> NoDup l1.
Proof.
  induction l1; simpl; intros H; [constructor|]. inversion H as [|? ? Hn ND']; subst. constructor; auto.
  intros Hin. apply Hn. apply in_or_app. now left.
Qed.

Lemma NoDup_app_r {A} (l1 l2 : list A) : NoDup (l1 ++ l2) -> NoDup l2.
Proof. induction l1; simpl; auto. intros H. inversion H; auto. Qed.

(* two tagged segments of a duplicate-free concatenation that share an element are the same segment *)
Lemma flat_map_place {T A B} (g : A -> B) (f : T -> list A) (l : list T) x y a b :
  NoDup (map g (flat_map f l)) -> In a l -> In b l -> In x (f a) -> In y (f b) -> g x = g y -> a = b.
Proof.
  induction l as [|h r IH]; simpl; [contradiction|].
  rewrite map_app. intros ND [->|Ha] [->|Hb] Hx Hy E; auto.
  - exfalso. apply (NoDup_app_disj _ _ (g x) ND).
    + now apply in_map.
    + rewrite E. apply in_map. apply in_flat_map. eauto.
  - exfalso. apply (NoDup_app_disj _ _ (g y) ND).
    + now apply in_map.
    + rewrite <- E. apply in_map. apply in_flat_map. eauto.
  - apply NoDup_app_r in ND. eauto.
Qed.

Lemma NoDup_map_inj {A B} (g : A -> B) (l : list A) x y : NoDup (map g l) -> In x l -> In y l -> g x = g y -> x = y.
Proof.
  induction l as [|h r IH]; simpl; [contradiction|]. intros ND [->|Hx] [->|Hy] E; auto.
  - inversion ND as [|? ? Hn ND']; subst. exfalso. apply Hn. rewrite E. now apply in_map.
  - inversion ND as [|? ? Hn ND']; subst. exfalso. apply Hn. rewrite <- E. now apply in_map.
  - inversion ND as [|? ? Hn ND']; subst. auto.
Qed.

(* ---- the structural invariant ---------------------------------------------------------- *)

Definition run_ids (s : state) : list nat := map b_id (running s).

Record SInv (s : state) : Prop := {
  S_fids : map it_fid (g_items s) = seq 0 (nfut s);
  S_bids : map (fun x => fst (fst x)) (g_started s) = seq 0 (nbid s);
  S_run : forall B, In B (running s) -> exists t, In (b_id B, b_items B, t) (g_started s);
  S_futs : forall B k f, In B (running s) -> In (k, f) (b_futs B) -> In (k, f) (map kf (b_items B));
  S_fnd : forall B, In B (running s) -> NoDup (map fst (b_futs B));
  S_kcoll : NoDup (map it_key (coll_items s));
  S_kwait : forall w, In w (waiting s) -> NoDup (map it_key w);
  S_kst : forall b its t, In (b, its, t) (g_started s) -> NoDup (map it_key its);
  S_log : forall b e, In (b, e) (g_blog s) -> b < nbid s
}.

Lemma fids_nodup s : SInv s -> NoDup (map it_fid (g_items s)).
Proof. intros S. rewrite (S_fids _ S). apply seq_NoDup. Qed.

Lemma fid_lt s it : SInv s -> In it (g_items s) -> it_fid it < nfut s.
Proof.
  intros S H. apply (in_map it_fid) in H. rewrite (S_fids _ S) in H. apply in_seq in H. lia.
Qed.

Lemma item_unique s it1 it2 :
  SInv s -> In it1 (g_items s) -> In it2 (g_items s) -> it_fid it1 = it_fid it2 -> it1 = it2.
Proof. intros S. apply NoDup_map_inj. now apply fids_nodup. Qed.

Lemma g_items_split s : Fifo s -> g_items s = flat_map st_items (g_started s) ++ concat (waiting s) ++ coll_items s.
Proof. unfold Fifo, handed, started_items. intros <-. now rewrite <- app_assoc. Qed.

Lemma started_sub s e it : Fifo s -> In e (g_started s) -> In it (st_items e) -> In it (g_items s).
Proof. intros F H1 H2. rewrite (g_items_split s F). apply in_or_app. left. apply in_flat_map. eauto. Qed.

Lemma waiting_sub s w it : Fifo s -> In w (waiting s) -> In it w -> In it (g_items s).
Proof.
  intros F H1 H2. rewrite (g_items_split s F). apply in_or_app. right. apply in_or_app. left.
  apply in_concat. eauto.
Qed.

Lemma coll_sub s it : Fifo s -> In it (coll_items s) -> In it (g_items s).
Proof. intros F H. rewrite (g_items_split s F). apply in_or_app. right. apply in_or_app. now right. Qed.

Lemma running_sub s B it : Fifo s -> SInv s -> In B (running s) -> In it (b_items B) -> In it (g_items s).
Proof.
  intros F S HB Hit. destruct (S_run _ S B HB) as (t & Hin). eapply started_sub; eauto.
Qed.

(* a started entry is determined by its batch id *)
Lemma started_by_id s b its t its' t' :
  SInv s -> In (b, its, t) (g_started s) -> In (b, its', t') (g_started s) -> its = its' /\ t = t'.
Proof.
  intros S H1 H2.
  assert (ND : NoDup (map (fun x => fst (fst x)) (g_started s))) by (rewrite (S_bids _ S); apply seq_NoDup).
  assert (E : (b, its, t) = (b, its', t')) by (eapply NoDup_map_inj; eauto).
  injection E; auto.
Qed.

(* where the future of an item can be: the places are pairwise disjoint *)
Lemma place_started_waiting s e w it1 it2 :
  Fifo s -> SInv s -> In e (g_started s) -> In it1 (st_items e) -> In w (waiting s) -> In it2 w ->
  it_fid it1 <> it_fid it2.
Proof.
  intros F S He H1 Hw H2 E. pose proof (fids_nodup s S) as ND. rewrite (g_items_split s F), map_app in ND.
  apply (NoDup_app_disj _ _ (it_fid it1) ND).
  - apply in_map. apply in_flat_map. eauto.
  - rewrite E. apply in_map. apply in_or_app. left. apply in_concat. eauto.
Qed.

Lemma place_started_coll s e it1 it2 :
  Fifo s -> SInv s -> In e (g_started s) -> In it1 (st_items e) -> In it2 (coll_items s) ->
  it_fid it1 <> it_fid it2.
Proof.
  intros F S He H1 H2 E. pose proof (fids_nodup s S) as ND. rewrite (g_items_split s F), map_app in ND.
  apply (NoDup_app_disj _ _ (it_fid it1) ND).
  - apply in_map. apply in_flat_map. eauto.
  - rewrite E. apply in_map. apply in_or_app. now right.
Qed.

Lemma place_waiting_coll s w it1 it2 :
  Fifo s -> SInv s -> In w (waiting s) -> In it1 w -> In it2 (coll_items s) -> it_fid it1 <> it_fid it2.
Proof.
  intros F S Hw H1 H2 E. pose proof (fids_nodup s S) as ND. rewrite (g_items_split s F), map_app in ND.
  apply NoDup_app_r in ND. rewrite map_app in ND.
  apply (NoDup_app_disj _ _ (it_fid it1) ND).
  - apply in_map. apply in_concat. eauto.
  - rewrite E. now apply in_map.
Qed.

Lemma place_started_started s e1 e2 it1 it2 :
  Fifo s -> SInv s -> In e1 (g_started s) -> In e2 (g_started s) -> In it1 (st_items e1) -> In it2 (st_items e2) ->
  it_fid it1 = it_fid it2 -> e1 = e2.
Proof.
  intros F S H1 H2 I1 I2 E. pose proof (fids_nodup s S) as ND. rewrite (g_items_split s F), map_app in ND.
  apply NoDup_app_l in ND. eapply (flat_map_place it_fid st_items); eauto.
Qed.

Lemma futs_item s B k f : SInv s -> In B (running s) -> In (k, f) (b_futs B) ->
  exists it, In it (b_items B) /\ it_key it = k /\ it_fid it = f.
Proof.
  intros S HB H. apply (S_futs _ S) in H; auto. apply in_map_iff in H as (it & E & Hit).
  injection E as <- <-. eauto.
Qed.

(* a future in the futs of a running batch is nowhere else *)
Lemma fut_place_unique c s B k f :
  LInv c s -> Fifo s -> SInv s -> In B (running s) -> In (k, f) (b_futs B) ->
  ~ In f (map it_fid (coll_items s)) /\ ~ In f (map it_fid (concat (waiting s))) /\
  (forall B' k', In B' (running s) -> In (k', f) (b_futs B') -> B' = B /\ k' = k).
Proof.
  intros I F S HB H. destruct (futs_item s B k f S HB H) as (it & Hit & Hk & Hf).
  destruct (S_run _ S B HB) as (t & He). split; [|split].
  - intros Hin. apply in_map_iff in Hin as (it2 & E & H2).
    eapply (place_started_coll s _ it it2 F S He); eauto. congruence.
  - intros Hin. apply in_map_iff in Hin as (it2 & E & H2). apply in_concat in H2 as (w & Hw & H2).
    eapply (place_started_waiting s _ w it it2 F S He); eauto. congruence.
  - intros B' k' HB' H'. destruct (futs_item s B' k' f S HB' H') as (it' & Hit' & Hk' & Hf').
    destruct (S_run _ S B' HB') as (t' & He').
    assert (E : (b_id B, b_items B, t) = (b_id B', b_items B', t')).
    { eapply (place_started_started s _ _ it it' F S); eauto. congruence. }
    injection E as E1 E2 E3.
    assert (B' = B).
    { pose proof (L_ids _ _ I) as ND. eapply (NoDup_map_inj b_id); eauto. }
    split; auto. subst B'.
    assert (it = it').
    { eapply (item_unique s); eauto; try congruence; eapply running_sub; eauto. }
    congruence.
Qed.

Lemma futs_snd_nodup c s B : LInv c s -> Fifo s -> SInv s -> In B (running s) -> NoDup (map snd (b_futs B)).
Proof.
  intros I F S HB. pose proof (S_fnd _ S B HB) as ND.
  assert (U : forall k f k', In (k, f) (b_futs B) -> In (k', f) (b_futs B) -> k' = k).
  { intros k f k' H1 H2. destruct (fut_place_unique c s B k f I F S HB H1) as (_ & _ & U). now apply (U B k'). }
  revert ND U. generalize (b_futs B). induction l as [|[k f] r IH]; simpl; intros ND U; [constructor|].
  inversion ND as [|? ? Hn ND']; subst. constructor.
  - intros Hin. apply in_map_iff in Hin as ([k' f'] & E & Hin). simpl in E. subst f'.
    assert (k' = k) by (apply (U k f k'); auto). subst k'.
    apply Hn. apply in_map_iff. exists (k, f). auto.
  - apply IH; auto. intros k0 f0 k' H1 H2. apply (U k0 f0 k'); auto.
Qed.

(* ---- the invariant about futures ---------------------------------------------------------- *)

(* the latest request for key k *)
Fixpoint last_key (its : list item) (k : nat) : option item :=
  match its with
  | [] => None
  | it :: r => match last_key r k with
               | Some x => Some x
               | None => if Nat.eqb (it_key it) k then Some it else None
               end
  end.

Lemma last_key_snoc its it k :
  last_key (its ++ [it]) k = if Nat.eqb (it_key it) k then Some it else last_key its k.
Proof.
  induction its as [|x r IH]; simpl.
  - destruct (Nat.eqb (it_key it) k); reflexivity.
  - rewrite IH. destruct (Nat.eqb (it_key it) k); reflexivity.
Qed.

Lemma last_key_in its k it : last_key its k = Some it -> In it its /\ it_key it = k.
Proof.
  induction its as [|x r IH]; simpl; [discriminate|].
  destruct (last_key r k) as [y|].
  - intros H. injection H as <-. destruct (IH eq_refl). auto.
  - destruct (Nat.eqb_spec (it_key x) k); [|discriminate]. intros H. injection H as <-. auto.
Qed.

Lemma last_key_none its k : last_key its k = None -> forall it, In it its -> it_key it <> k.
Proof.
  induction its as [|x r IH]; simpl; [intros _ ? []|].
  destruct (last_key r k) as [y|]; [discriminate|].
  destruct (Nat.eqb_spec (it_key x) k); [discriminate|]. intros _ it [<-|H]; auto.
Qed.

(* future f of key k is pending: not done, and the retention cache maps k to it *)
Definition pend (s : state) (k f : nat) : Prop := is_done s f = false /\ lookup (ret s) k = Some f.

(* outcome o is what the batch function produced for future f (key k): f belongs to
   an item of a started batch whose log decides o for k *)
Definition spec_of (s : state) (k f : nat) (o : outcome) : Prop :=
  exists it b its tb, In it (g_items s) /\ kf it = (k, f) /\ In (b, its, tb) (g_started s) /\ In it its /\
    produced (blog_of b (g_blog s)) (map it_key its) k o.

(* [P]: futures detached from their batch (popped from futs, or their batch left
   [running]) that are about to be resolved — empty at every quiescent point *)
Record PInv (c : cfg) (s : state) (P : list (nat * nat)) : Prop := {
  P_coll : forall it, In it (coll_items s) -> pend s (it_key it) (it_fid it);
  P_wait : forall w it, In w (waiting s) -> In it w -> pend s (it_key it) (it_fid it);
  P_run : forall B k f, In B (running s) -> In (k, f) (b_futs B) -> pend s k f;
  P_loc : forall B it, In B (running s) -> In it (b_items B) -> is_done s (it_fid it) = false ->
            In (kf it) (b_futs B) \/ In (kf it) P;
  P_end : forall b its t it, In (b, its, t) (g_started s) -> ~ In b (run_ids s) -> In it its ->
            is_done s (it_fid it) = false -> In (kf it) P;
  P_det : forall k f, In (k, f) P ->
            pend s k f /\ (exists it, In it (g_items s) /\ kf it = (k, f)) /\
            ~ In f (map it_fid (coll_items s)) /\ ~ In f (map it_fid (concat (waiting s))) /\
            (forall B k', In B (running s) -> ~ In (k', f) (b_futs B));
  P_nd : NoDup (map snd P);
  P_ret : forall k f, lookup (ret s) k = Some f -> exists it, In it (g_items s) /\ kf it = (k, f);
  P_timer : forall dl k, In (dl, k) (rtimers s) ->
            exists f o t, lookup (ret s) k = Some f /\ lookup (fdone s) f = Some (o, t) /\
                          dl = (t + c_rt c)%N /\ (0 < c_rt c)%N;
  P_rdone : forall k f o t, lookup (ret s) k = Some f -> lookup (fdone s) f = Some (o, t) ->
            (0 < c_rt c)%N /\ In ((t + c_rt c)%N, k) (rtimers s);
  P_last : forall k f, lookup (ret s) k = Some f ->
            exists it, last_key (g_items s) k = Some it /\ it_fid it = f;
  P_dlt : forall f x, lookup (fdone s) f = Some x -> f < nfut s;
  P_win : forall it o t, In it (g_items s) -> lookup (fdone s) (it_fid it) = Some (o, t) ->
            (now s < t + c_rt c)%N -> lookup (ret s) (it_key it) = Some (it_fid it);
  P_spec : forall f o t, lookup (fdone s) f = Some (o, t) -> (exists k, spec_of s k f o) /\ (t <= now s)%N;
  P_lrun : forall B k f, In B (running s) -> In (k, f) (b_futs B) -> no_yield k (blog_of (b_id B) (g_blog s));
  P_lans : forall B k, In B (running s) -> In k (map it_key (b_items B)) -> lookup (b_futs B) k = None ->
            exists r, In (EvYield k r) (blog_of (b_id B) (g_blog s))
}.

Lemma is_done_resolve c k f o s f' :
  is_done (resolve c k f o s) f' = if Nat.eqb f f' then true else is_done s f'.
Proof.
  unfold resolve, is_done. destruct (0 <? c_rt c)%N; simpl; destruct (Nat.eqb f f'); reflexivity.
Qed.

Lemma fdone_resolve c k f o s f' :
  lookup (fdone (resolve c k f o s)) f' = if Nat.eqb f f' then Some (o, now s) else lookup (fdone s) f'.
Proof. unfold resolve. destruct (0 <? c_rt c)%N; simpl; destruct (Nat.eqb f f'); reflexivity. Qed.

Lemma ret_resolve c k f o s k' :
  lookup (ret (resolve c k f o s)) k' =
  if (0 <? c_rt c)%N then lookup (ret s) k' else if Nat.eqb k' k then None else lookup (ret s) k'.
Proof. unfold resolve. destruct (0 <? c_rt c)%N; simpl; auto. apply lookup_remove_key. Qed.

(* the same item for (k, f) and (k', f): the keys agree *)
Lemma kf_item_key s it1 it2 k k' f :
  SInv s -> In it1 (g_items s) -> In it2 (g_items s) -> kf it1 = (k, f) -> kf it2 = (k', f) -> k = k'.
Proof.
  intros S H1 H2 E1 E2. unfold kf in *. injection E1 as <- <-. injection E2 as <- E.
  assert (it1 = it2) by (eapply item_unique; eauto). congruence.
Qed.

Lemma spec_of_same s s' k f o :
  g_items s' = g_items s -> g_started s' = g_started s -> g_blog s' = g_blog s -> spec_of s k f o -> spec_of s' k f o.
Proof. intros E1 E2 E3. unfold spec_of. now rewrite E1, E2, E3. Qed.

(* resolving a detached future *)
Lemma resolve_P c s k f o P :
  SInv s -> PInv c s ((k, f) :: P) -> spec_of s k f o -> PInv c (resolve c k f o s) P.
Proof.
  intros S K Hspec.
  destruct (P_det _ _ _ K k f (or_introl eq_refl)) as ([Hnd Hret] & (itf & Hitf & Ekf) & Nc & Nw & Nr).
  pose proof (P_nd _ _ _ K) as ND. simpl in ND. inversion ND as [|? ? NinP ND']; subst.
  assert (ST : coll (resolve c k f o s) = coll s /\ waiting (resolve c k f o s) = waiting s /\
               running (resolve c k f o s) = running s /\ g_started (resolve c k f o s) = g_started s /\
               g_items (resolve c k f o s) = g_items s /\ g_blog (resolve c k f o s) = g_blog s /\
               nfut (resolve c k f o s) = nfut s /\ now (resolve c k f o s) = now s).
  { unfold resolve. destruct (0 <? c_rt c)%N; repeat split. }
  destruct ST as (Ec & Ew & Er & Es & Ei & Eb & En & Et).
  (* a pending (k', f') different from f stays pending *)
  assert (PK : forall k' f', f' <> f -> pend s k' f' -> pend (resolve c k f o s) k' f').
  { intros k' f' Nf [H1 H2]. split.
    - rewrite is_done_resolve. destruct (Nat.eqb_spec f f'); [congruence|auto].
    - rewrite ret_resolve. destruct (0 <? c_rt c)%N; auto.
      destruct (Nat.eqb_spec k' k); auto. subst k'. congruence. }
  constructor; unfold coll_items, run_ids in *; rewrite ?Ec, ?Ew, ?Er, ?Es, ?Ei, ?Eb, ?En, ?Et.
  - intros it Hit. apply PK; [|now apply (P_coll _ _ _ K)].
    intros E. apply Nc. rewrite <- E. now apply in_map.
  - intros w it Hw Hit. apply PK; [|now apply (P_wait _ _ _ K w)].
    intros E. apply Nw. rewrite <- E. apply in_map. apply in_concat. eauto.
  - intros B k' f' HB H. apply PK; [|now apply (P_run _ _ _ K B)].
    intros E. subst f'. now apply (Nr B k').
  - intros B it HB Hit Hd. rewrite is_done_resolve in Hd. destruct (Nat.eqb_spec f (it_fid it)); [discriminate|].
    destruct (P_loc _ _ _ K B it HB Hit Hd) as [H|[H|H]]; auto.
    unfold kf in H. injection H as _ H. congruence.
  - intros b its t it He Hn Hit Hd. rewrite is_done_resolve in Hd. destruct (Nat.eqb_spec f (it_fid it)); [discriminate|].
    destruct (P_end _ _ _ K b its t it He Hn Hit Hd) as [H|H]; auto.
    unfold kf in H. injection H as _ H. congruence.
  - intros k' f' H. destruct (P_det _ _ _ K k' f' (or_intror H)) as (Hp & Hi & H3 & H4 & H5).
    split; [|auto]. apply PK; auto. intros ->. apply NinP. apply in_map_iff. exists (k', f). auto.
  - exact ND'.
  - intros k' f' H. rewrite ret_resolve in H. apply (P_ret _ _ _ K).
    destruct (0 <? c_rt c)%N; auto. destruct (Nat.eqb k' k); [discriminate|auto].
  - intros dl k' H. unfold resolve in H |- *. destruct (0 <? c_rt c)%N eqn:Ert; simpl in H |- *.
    + apply in_app_or in H as [H|[H|[]]].
      * destruct (P_timer _ _ _ K dl k' H) as (f0 & o0 & t0 & H1 & H2 & H3 & H4).
        exists f0, o0, t0. repeat split; auto.
        destruct (Nat.eqb_spec f f0); auto. subst f0. unfold is_done in Hnd. now rewrite H2 in Hnd.
      * injection H as <- <-. exists f, o, (now s). rewrite Nat.eqb_refl. repeat split; auto. lia.
    + destruct (P_timer _ _ _ K dl k' H) as (f0 & o0 & t0 & H1 & H2 & H3 & H4). lia.
  - intros k' f' o' t' H1 H2. rewrite ret_resolve in H1. rewrite fdone_resolve in H2.
    assert (Hret' : lookup (ret s) k' = Some f').
    { destruct (0 <? c_rt c)%N; auto. destruct (Nat.eqb k' k); [discriminate|auto]. }
    destruct (Nat.eqb_spec f f') as [<-|Nf].
    + injection H2 as <- <-.
      destruct (P_ret _ _ _ K k' f Hret') as (it' & Hit' & Ekf').
      assert (k = k') by (eapply (kf_item_key s itf it'); eauto). subst k'.
      destruct (0 <? c_rt c)%N eqn:Ert.
      * split; [lia|]. unfold resolve. rewrite Ert. simpl. apply in_or_app. right. now left.
      * rewrite Nat.eqb_refl in H1. discriminate.
    + destruct (P_rdone _ _ _ K k' f' o' t' Hret' H2) as [G1 G2]. split; auto.
      unfold resolve. destruct (0 <? c_rt c)%N; simpl; auto. apply in_or_app. now left.
  - intros k' f' H. rewrite ret_resolve in H. apply (P_last _ _ _ K).
    destruct (0 <? c_rt c)%N; auto. destruct (Nat.eqb k' k); [discriminate|auto].
  - intros f' x H. rewrite fdone_resolve in H. destruct (Nat.eqb_spec f f') as [<-|Nf].
    + unfold kf in Ekf. injection Ekf as _ <-. now apply (fid_lt s).
    + now apply (P_dlt _ _ _ K f' x).
  - intros it o' t' Hit H Hlt. rewrite fdone_resolve in H. rewrite ret_resolve.
    destruct (Nat.eqb_spec f (it_fid it)) as [E|Nf].
    + injection H as <- <-.
      assert (it = itf).
      { eapply item_unique; eauto. unfold kf in Ekf. injection Ekf as _ E'. congruence. }
      subst it. unfold kf in Ekf. injection Ekf as Ek Ef. rewrite Ek, Ef.
      destruct (0 <? c_rt c)%N eqn:Ert; [exact Hret | lia].
    + destruct (P_spec _ _ _ K _ _ _ H) as [_ Ht].
      pose proof (P_win _ _ _ K it o' t' Hit H Hlt) as G.
      destruct (0 <? c_rt c)%N eqn:Ert; [exact G | lia].
  - intros f' o' t' H. rewrite fdone_resolve in H. destruct (Nat.eqb_spec f f') as [<-|Nf].
    + injection H as <- <-. split; [|lia]. exists k.
      eapply spec_of_same; [| | |exact Hspec]; auto.
    + destruct (P_spec _ _ _ K f' o' t' H) as [(k0 & Hs) Ht]. split; auto. exists k0.
      eapply spec_of_same; [| | |exact Hs]; auto.
  - apply (P_lrun _ _ _ K).
  - apply (P_lans _ _ _ K).
Qed.

(* ---- transformers that leave the structure alone ---------------------------------------------- *)

Definition same_S (s s' : state) : Prop :=
  g_items s' = g_items s /\ nfut s' = nfut s /\ g_started s' = g_started s /\ nbid s' = nbid s /\
  running s' = running s /\ coll s' = coll s /\ waiting s' = waiting s /\ g_blog s' = g_blog s.

Lemma same_S_inv s s' : same_S s s' -> SInv s -> SInv s'.
Proof.
  intros (E1 & E2 & E3 & E4 & E5 & E6 & E7 & E8) [].
  constructor; unfold coll_items in *; rewrite ?E1, ?E2, ?E3, ?E4, ?E5, ?E6, ?E7, ?E8; auto.
Qed.

Lemma same_S_refl s : same_S s s.
Proof. repeat split. Qed.

Lemma same_S_trans s1 s2 s3 : same_S s1 s2 -> same_S s2 s3 -> same_S s1 s3.
Proof.
  intros (A1 & A2 & A3 & A4 & A5 & A6 & A7 & A8) (B1 & B2 & B3 & B4 & B5 & B6 & B7 & B8).
  repeat split; congruence.
Qed.

Lemma resolve_sameS c k f o s : same_S s (resolve c k f o s).
Proof. unfold resolve. destruct (0 <? c_rt c)%N; repeat split. Qed.

Lemma fanout_sameS c l o : forall s, same_S s (fst (fanout c l o s)).
Proof.
  induction l as [|[k f] r IH]; intros s; simpl; [apply same_S_refl|].
  unfold set_fut. destruct (is_done s f); simpl; [apply same_S_refl|].
  eapply same_S_trans; [apply resolve_sameS | apply IH].
Qed.

Lemma wake_sameS s : same_S s (fst (wake s)).
Proof. unfold wake. destruct (wake_from _ _ _ _). repeat split. Qed.

Lemma cancel_sameS s cid : same_S s (fst (cancel_caller s cid)).
Proof.
  unfold cancel_caller. destruct (nth_error _ _) as [cl|]; [|apply same_S_refl].
  destruct (cl_st cl); [apply same_S_refl|]. repeat split.
Qed.

(* callers are not mentioned by PInv *)
Definition same_P (s s' : state) : Prop :=
  same_S s s' /\ fdone s' = fdone s /\ ret s' = ret s /\ rtimers s' = rtimers s /\ now s' = now s.

Lemma same_P_inv c s s' P : same_P s s' -> PInv c s P -> PInv c s' P.
Proof.
  intros ((E1 & E2 & E3 & E4 & E5 & E6 & E7 & E8) & F1 & F2 & F3 & F4) [].
  constructor; unfold coll_items, run_ids, pend, is_done, spec_of in *;
    rewrite ?E1, ?E2, ?E3, ?E4, ?E5, ?E6, ?E7, ?E8, ?F1, ?F2, ?F3, ?F4; auto.
Qed.

Lemma wake_sameP s : same_P s (fst (wake s)).
Proof. unfold wake. destruct (wake_from _ _ _ _). repeat split. Qed.

Lemma cancel_sameP s cid : same_P s (fst (cancel_caller s cid)).
Proof.
  unfold cancel_caller. destruct (nth_error _ _) as [cl|]; [|repeat split].
  destruct (cl_st cl); repeat split.
Qed.

(* the fan-out at the end of a batch resolves every detached future; it never
   meets a future that is already done, so the batch task does not die *)
Lemma fanout_P c o l : forall s P,
  SInv s -> PInv c s (l ++ P) -> (forall k f, In (k, f) l -> spec_of s k f o) ->
  PInv c (fst (fanout c l o s)) P /\ snd (fanout c l o s) = false.
Proof.
  induction l as [|[k f] r IH]; intros s P S K Hs; simpl; [auto|].
  destruct (P_det _ _ _ K k f (or_introl eq_refl)) as ([Hnd _] & _).
  unfold set_fut. rewrite Hnd.
  apply IH.
  - eapply same_S_inv; [apply resolve_sameS|exact S].
  - apply resolve_P; auto. apply Hs. now left.
  - intros k' f' H. pose proof (resolve_sameS c k f o s) as (E1 & _ & E3 & _ & _ & _ & _ & E8).
    eapply spec_of_same; eauto. apply Hs. now right.
Qed.

(* ---- a batch is handed to the batch function ---------------------------------------------------- *)

Lemma seq_snoc n : seq 0 n ++ [n] = seq 0 (S n).
Proof. now rewrite seq_S. Qed.

Lemma spec_of_mono s s' k f o :
  (forall it, In it (g_items s) -> In it (g_items s')) ->
  (forall e, In e (g_started s) -> In e (g_started s')) ->
  g_blog s' = g_blog s -> spec_of s k f o -> spec_of s' k f o.
Proof.
  intros H1 H2 H3 (it & b & its & tb & A & B & C & D & E).
  exists it, b, its, tb. rewrite H3. repeat split; auto.
Qed.

Lemma start_batch_S its s :
  SInv s -> NoDup (map it_key its) -> SInv (fst (start_batch its s)).
Proof.
  intros S ND. unfold start_batch. destruct S. constructor; simpl; auto.
  - rewrite map_app, S_bids0. simpl. apply seq_snoc.
  - intros B HB. apply in_app_or in HB as [HB|[<-|[]]]; simpl.
    + destruct (S_run0 B HB) as (t & H). exists t. apply in_or_app. now left.
    + exists (now s). apply in_or_app. right. now left.
  - intros B k f HB H. apply in_app_or in HB as [HB|[<-|[]]]; simpl in *; auto.
    now rewrite futs_of_nodup in H.
  - intros B HB. apply in_app_or in HB as [HB|[<-|[]]]; simpl; auto.
    rewrite futs_of_nodup, map_fst_kf; auto.
  - intros b its' t H. apply in_app_or in H as [H|[H|[]]]; eauto. injection H as <- <- <-. exact ND.
  - intros b e H. apply S_log0 in H. lia.
Qed.

Lemma start_batch_P c its s P :
  SInv s -> PInv c s P -> NoDup (map it_key its) ->
  (forall it, In it its -> pend s (it_key it) (it_fid it)) ->
  (forall k f, In (k, f) P -> ~ In f (map it_fid its)) ->
  PInv c (fst (start_batch its s)) P.
Proof.
  intros SI K ND Hp HP. unfold start_batch.
  assert (Hspec : forall k f o, spec_of s k f o ->
            spec_of (mkst (now s) (maxb s) (coll s) (waiting s)
                      (running s ++ [mkbatch (nbid s) its (futs_of its)]) (free s) (S (nbid s)) (nfut s) (fdone s) (ret s)
                      (rtimers s) (callers s) (g_items s) (g_started s ++ [(nbid s, its, now s)]) (g_blog s)
                      (g_spawn s) (tie s) (fuel_out s)) k f o).
  { intros k f o. apply spec_of_mono; simpl; auto. intros e H. apply in_or_app. now left. }
  constructor; simpl; unfold run_ids; simpl.
  - apply (P_coll _ _ _ K).
  - apply (P_wait _ _ _ K).
  - intros B k f HB H. apply in_app_or in HB as [HB|[<-|[]]]; simpl in *.
    + now apply (P_run _ _ _ K B).
    + rewrite futs_of_nodup in H by auto. apply in_map_iff in H as (it & E & Hit).
      injection E as <- <-. now apply Hp.
  - intros B it HB Hit Hd. apply in_app_or in HB as [HB|[<-|[]]]; simpl in *.
    + now apply (P_loc _ _ _ K B).
    + left. rewrite futs_of_nodup by auto. now apply in_map.
  - intros b its' t it He Hn Hit Hd. rewrite map_app in Hn. simpl in Hn.
    apply in_app_or in He as [He|[He|[]]].
    + apply (P_end _ _ _ K b its' t it); auto. intros H. apply Hn. apply in_or_app. now left.
    + injection He as <- <- <-. exfalso. apply Hn. apply in_or_app. right. now left.
  - intros k f H. destruct (P_det _ _ _ K k f H) as (A1 & A2 & A3 & A4 & A5).
    split; [exact A1|]. split; [exact A2|]. split; [exact A3|]. split; [exact A4|].
    intros B k' HB Hin. apply in_app_or in HB as [HB|[<-|[]]]; simpl in *.
    + now apply (A5 B k').
    + rewrite futs_of_nodup in Hin by auto. apply (HP k f H).
      apply in_map_iff in Hin as (it & E & Hit). injection E as _ <-. now apply in_map.
  - apply (P_nd _ _ _ K).
  - apply (P_ret _ _ _ K).
  - apply (P_timer _ _ _ K).
  - apply (P_rdone _ _ _ K).
  - apply (P_last _ _ _ K).
  - apply (P_dlt _ _ _ K).
  - apply (P_win _ _ _ K).
  - intros f o t H. destruct (P_spec _ _ _ K f o t H) as [(k & Hs) Ht]. split; eauto.
  - intros B k f HB H. apply in_app_or in HB as [HB|[<-|[]]]; simpl in *.
    + now apply (P_lrun _ _ _ K B k f).
    + rewrite blog_of_nil; [intros r []|]. intros b' e Hin. apply (S_log _ SI) in Hin. lia.
  - intros B k HB Hk Hl. apply in_app_or in HB as [HB|[<-|[]]]; simpl in *.
    + now apply (P_lans _ _ _ K B k).
    + exfalso. rewrite futs_of_nodup in Hl by auto. apply lookup_None_notin in Hl.
      now rewrite map_fst_kf in Hl.
Qed.

Lemma dispatch_S its s :
  SInv s -> NoDup (map it_key its) -> SInv (fst (dispatch its s)).
Proof.
  intros S ND. unfold dispatch. cbn [free set_spawn waiting]. destruct (0 <? free s).
  - apply start_batch_S; auto. destruct S; constructor; auto.
  - destruct S; constructor; simpl; auto.
    intros w H. apply in_app_or in H as [H|[<-|[]]]; auto.
Qed.

Lemma dispatch_P c its s P :
  SInv s -> PInv c s P -> NoDup (map it_key its) ->
  (forall it, In it its -> pend s (it_key it) (it_fid it)) ->
  (forall k f, In (k, f) P -> ~ In f (map it_fid its)) ->
  PInv c (fst (dispatch its s)) P.
Proof.
  intros S K ND Hp HP. unfold dispatch. cbn [free set_spawn waiting]. destruct (0 <? free s) eqn:E.
  - apply (start_batch_P c); auto.
    + destruct S; constructor; auto.
    + destruct K; constructor; auto.
  - destruct K. constructor; simpl; auto.
    + intros w it Hw Hit. apply in_app_or in Hw as [Hw|[<-|[]]]; eauto.
    + intros k f H. destruct (P_det0 k f H) as (A1 & A2 & A3 & A4 & A5).
      split; [exact A1|]. split; [exact A2|]. split; [exact A3|]. split; [|exact A5].
      rewrite concat_app, map_app. simpl. rewrite app_nil_r. intros Hin.
      apply in_app_or in Hin as [Hin|Hin]; [auto | now apply (HP k f H)].
Qed.

Lemma release_slot_S s : SInv s -> SInv (fst (release_slot s)).
Proof.
  intros S. unfold release_slot. destruct (waiting s) as [|w ws] eqn:W.
  - destruct S; constructor; auto.
  - destruct S. constructor; simpl; auto.
    + rewrite map_app, S_bids0. simpl. apply seq_snoc.
    + intros B HB. apply in_app_or in HB as [HB|[<-|[]]]; simpl.
      * destruct (S_run0 B HB) as (t & H). exists t. apply in_or_app. now left.
      * exists (now s). apply in_or_app. right. now left.
    + intros B k f HB H. apply in_app_or in HB as [HB|[<-|[]]]; simpl in *; auto.
      rewrite futs_of_nodup in H; auto. apply S_kwait0. rewrite W. now left.
    + intros B HB. apply in_app_or in HB as [HB|[<-|[]]]; simpl; auto.
      rewrite futs_of_nodup, map_fst_kf; apply S_kwait0; rewrite W; now left.
    + intros w' H. apply S_kwait0. rewrite W. now right.
    + intros b its' t H. apply in_app_or in H as [H|[H|[]]]; eauto. injection H as <- <- <-.
      apply S_kwait0. rewrite W. now left.
    + intros b e H. apply S_log0 in H. lia.
Qed.

Lemma release_slot_P c s P : SInv s -> PInv c s P -> PInv c (fst (release_slot s)) P.
Proof.
  intros S K. unfold release_slot. destruct (waiting s) as [|w ws] eqn:W.
  - destruct K; constructor; auto.
  - apply (start_batch_P c).
    + destruct S; constructor; simpl; auto. intros w' H. apply S_kwait0. rewrite W. now right.
    + destruct K. constructor; simpl; auto.
      * intros w' it Hw Hit. apply (P_wait0 w'); auto. rewrite W. now right.
      * intros k f H. destruct (P_det0 k f H) as (A1 & A2 & A3 & A4 & A5).
        split; [exact A1|]. split; [exact A2|]. split; [exact A3|]. split; [|exact A5].
        intros Hin. apply A4. rewrite W. simpl. rewrite map_app. apply in_or_app. now right.
    + apply (S_kwait _ S). rewrite W. now left.
    + intros it Hit. apply (P_wait _ _ _ K w); auto. rewrite W. now left.
    + intros k f H Hin. destruct (P_det _ _ _ K k f H) as (_ & _ & _ & A4 & _).
      apply A4. rewrite W. simpl. rewrite map_app. apply in_or_app. now left.
Qed.

(* ---- the collector takes a new item ---------------------------------------------------------- *)

Lemma take_S c it s :
  SInv s -> ~ In (it_key it) (map it_key (coll_items s)) -> SInv (fst (take c it s)).
Proof.
  intros S Hn. unfold take.
  set (its := match coll s with Some (its0, _) => its0 ++ [it] | None => [it] end).
  assert (Hits : its = coll_items s ++ [it]).
  { unfold its, coll_items. destruct (coll s) as [[? ?]|]; reflexivity. }
  assert (ND : NoDup (map it_key its)).
  { rewrite Hits, map_app. simpl. apply NoDup_snoc; auto. apply (S_kcoll _ S). }
  destruct (length its <? maxb s).
  - destruct S. constructor; simpl; auto.
  - apply dispatch_S; auto. destruct S. constructor; simpl; auto. constructor.
Qed.

Lemma take_P c it s :
  SInv s -> PInv c s [] -> pend s (it_key it) (it_fid it) ->
  ~ In (it_key it) (map it_key (coll_items s)) -> PInv c (fst (take c it s)) [].
Proof.
  intros S K Hp Hn. unfold take.
  set (its := match coll s with Some (its0, _) => its0 ++ [it] | None => [it] end).
  assert (Hits : its = coll_items s ++ [it]).
  { unfold its, coll_items. destruct (coll s) as [[? ?]|]; reflexivity. }
  assert (ND : NoDup (map it_key its)).
  { rewrite Hits, map_app. simpl. apply NoDup_snoc; auto. apply (S_kcoll _ S). }
  assert (Hpe : forall x, In x its -> pend s (it_key x) (it_fid x)).
  { intros x Hx. rewrite Hits in Hx. apply in_app_or in Hx as [Hx|[<-|[]]]; auto. now apply (P_coll _ _ _ K). }
  destruct (length its <? maxb s).
  - destruct K. constructor; simpl; auto. intros k f [].
  - apply (dispatch_P c); auto.
    + destruct S. constructor; simpl; auto. constructor.
    + destruct K. constructor; simpl; auto; [intros ? [] | intros ? ? []].
Qed.

(* ---- callers ------------------------------------------------------------------------------- *)

Record CInv (s : state) : Prop := {
  C_out : forall cl o, In cl (callers s) -> cl_st cl = Some o ->
          o = Cancelled \/ exists t, lookup (fdone s) (cl_fid cl) = Some (o, t);
  C_item : forall cl, In cl (callers s) -> exists it, In it (g_items s) /\ kf it = (cl_key cl, cl_fid cl);
  C_key : forall cl, In cl (callers s) -> cl_key cl = key_of (cl_arg cl) (cl_ko cl)
}.

(* at a quiescent point every caller that still waits waits for a future that is not done *)
Definition WInv (s : state) : Prop :=
  forall cl, In cl (callers s) -> cl_st cl = None -> is_done s (cl_fid cl) = false.

Definition same_C (s s' : state) : Prop :=
  callers s' = callers s /\ fdone s' = fdone s /\ g_items s' = g_items s.

Lemma same_C_inv s s' : same_C s s' -> CInv s -> CInv s'.
Proof. intros (E1 & E2 & E3) []. constructor; rewrite ?E1, ?E2, ?E3; auto. Qed.

Lemma same_C_W s s' : same_C s s' -> WInv s -> WInv s'.
Proof. intros (E1 & E2 & E3) W. unfold WInv, is_done. rewrite E1, E2. exact W. Qed.

Lemma same_C_refl s : same_C s s.
Proof. repeat split. Qed.

Lemma same_C_trans s1 s2 s3 : same_C s1 s2 -> same_C s2 s3 -> same_C s1 s3.
Proof. intros (A1 & A2 & A3) (B1 & B2 & B3). repeat split; congruence. Qed.

Lemma start_batch_sameC its s : same_C s (fst (start_batch its s)).
Proof. repeat split. Qed.

Lemma dispatch_sameC its s : same_C s (fst (dispatch its s)).
Proof. unfold dispatch. cbn [free set_spawn waiting]. destruct (0 <? free s); repeat split. Qed.

Lemma release_slot_sameC s : same_C s (fst (release_slot s)).
Proof. unfold release_slot. destruct (waiting s); repeat split. Qed.

Lemma take_sameC c it s : same_C s (fst (take c it s)).
Proof.
  unfold take. destruct (_ <? maxb s); [repeat split|].
  match goal with |- same_C _ (fst (dispatch ?x ?s3)) => apply (dispatch_sameC x s3) end.
Qed.

Lemma resolve_C c k f o s : is_done s f = false -> CInv s -> CInv (resolve c k f o s).
Proof.
  intros Hd []. assert (E : callers (resolve c k f o s) = callers s /\ g_items (resolve c k f o s) = g_items s).
  { unfold resolve. destruct (0 <? c_rt c)%N; split; reflexivity. }
  destruct E as [E1 E2]. constructor; rewrite ?E1, ?E2; auto.
  intros cl o' Hcl Hst. destruct (C_out0 cl o' Hcl Hst) as [H|(t & H)]; auto. right.
  rewrite fdone_resolve. destruct (Nat.eqb_spec f (cl_fid cl)) as [E|N]; eauto.
  subst f. unfold is_done in Hd. now rewrite H in Hd.
Qed.

Lemma fanout_C c l o : forall s, CInv s -> CInv (fst (fanout c l o s)).
Proof.
  induction l as [|[k f] r IH]; intros s C; simpl; auto.
  unfold set_fut. destruct (is_done s f) eqn:E; simpl; auto. apply IH. now apply resolve_C.
Qed.

(* [wake] answers exactly the waiting callers whose future is done, with that future's outcome *)
Lemma wake_from_spec fd t cs : forall i,
  let r := wake_from fd t i cs in
  length (fst r) = length cs /\
  (forall j cl, nth_error cs j = Some cl ->
     exists cl', nth_error (fst r) j = Some cl' /\
       cl_key cl' = cl_key cl /\ cl_fid cl' = cl_fid cl /\ cl_arg cl' = cl_arg cl /\ cl_ko cl' = cl_ko cl /\
       cl_more cl' = cl_more cl /\
       match cl_st cl with
       | Some o => cl_st cl' = Some o
       | None => match lookup fd (cl_fid cl) with
                 | Some (o, _) => cl_st cl' = Some o /\ In (CallerDone (i + j) o t) (snd r)
                 | None => cl_st cl' = None
                 end
       end) /\
  (forall x, In x (snd r) -> exists j cl o t0, x = CallerDone (i + j) o t /\ nth_error cs j = Some cl /\
                                         cl_st cl = None /\ lookup fd (cl_fid cl) = Some (o, t0)).
Proof.
  induction cs as [|cl r IH]; intros i; simpl.
  - split; auto. split; [intros [|j] ? H; discriminate | intros x []].
  - specialize (IH (S i)). destruct (wake_from fd t (S i) r) as [r' os]. simpl in IH. destruct IH as (L & A & Bq).
    destruct (cl_st cl) as [o|] eqn:St; [|destruct (lookup fd (cl_fid cl)) as [[o t0]|] eqn:Lk]; simpl.
    + split; [lia|]. split.
      * intros [|j] cl0 H; simpl in *.
        -- injection H as <-. exists cl. rewrite St. repeat split; auto.
        -- destruct (A j cl0 H) as (cl' & H1 & H2). exists cl'. split; auto.
           replace (i + S j) with (S i + j) by lia. exact H2.
      * intros x Hx. destruct (Bq x Hx) as (j & cl0 & o0 & t0 & E & H1 & H2 & H3).
        exists (S j), cl0, o0, t0. replace (i + S j) with (S i + j) by lia. auto.
    + split; [lia|]. split.
      * intros [|j] cl0 H; simpl in *.
        -- injection H as <-. eexists. split; [reflexivity|]. simpl. rewrite St, Lk. repeat split; auto.
           left. f_equal. lia.
        -- destruct (A j cl0 H) as (cl' & H1 & H2 & H3 & H4 & H5 & H6 & H7). exists cl'. repeat split; auto.
           replace (i + S j) with (S i + j) by lia.
           destruct (cl_st cl0); auto. destruct (lookup fd (cl_fid cl0)) as [[? ?]|]; auto.
           destruct H7 as [G1 G2]. split; [exact G1 | right; exact G2].
      * intros x [<-|Hx].
        -- exists 0, cl, o, t0. simpl. repeat split; auto. f_equal. lia.
        -- destruct (Bq x Hx) as (j & cl0 & o0 & t1 & E & H1 & H2 & H3).
           exists (S j), cl0, o0, t1. replace (i + S j) with (S i + j) by lia. auto.
    + split; [lia|]. split.
      * intros [|j] cl0 H; simpl in *.
        -- injection H as <-. exists cl. rewrite St, Lk. repeat split; auto.
        -- destruct (A j cl0 H) as (cl' & H1 & H2). exists cl'. split; auto.
           replace (i + S j) with (S i + j) by lia. exact H2.
      * intros x Hx. destruct (Bq x Hx) as (j & cl0 & o0 & t0 & E & H1 & H2 & H3).
        exists (S j), cl0, o0, t0. replace (i + S j) with (S i + j) by lia. auto.
Qed.

Lemma wake_callers s cl' :
  In cl' (callers (fst (wake s))) ->
  exists cl, In cl (callers s) /\
    cl_key cl' = cl_key cl /\ cl_fid cl' = cl_fid cl /\ cl_arg cl' = cl_arg cl /\ cl_ko cl' = cl_ko cl /\
    match cl_st cl with
    | Some o => cl_st cl' = Some o
    | None => match lookup (fdone s) (cl_fid cl) with
              | Some (o, _) => cl_st cl' = Some o
              | None => cl_st cl' = None
              end
    end.
Proof.
  unfold wake. pose proof (wake_from_spec (fdone s) (now s) (callers s) 0) as (L & A & _).
  destruct (wake_from (fdone s) (now s) 0 (callers s)) as [cs os]. simpl in *.
  intros H. apply In_nth_error in H as (j & Hj).
  assert (Lj : j < length (callers s)) by (rewrite <- L; apply nth_error_Some; congruence).
  destruct (nth_error (callers s) j) as [cl|] eqn:E; [|apply nth_error_None in E; lia].
  destruct (A j cl E) as (cl'' & H1 & H2 & H3 & H4 & H5 & H6 & H7).
  assert (cl'' = cl') by congruence. subst cl''.
  exists cl. split; [eapply nth_error_In; eauto|]. repeat split; auto.
  destruct (cl_st cl); auto. destruct (lookup (fdone s) (cl_fid cl)) as [[? ?]|]; tauto.
Qed.

Lemma wake_CW s : CInv s -> CInv (fst (wake s)) /\ WInv (fst (wake s)).
Proof.
  intros C.
  assert (E : fdone (fst (wake s)) = fdone s /\ g_items (fst (wake s)) = g_items s).
  { unfold wake. destruct (wake_from _ _ _ _). split; reflexivity. }
  destruct E as [E1 E2]. split.
  - constructor; rewrite ?E1, ?E2.
    + intros cl' o H Hst. destruct (wake_callers s cl' H) as (cl & Hcl & K1 & K2 & K3 & K4 & K5).
      rewrite K2. destruct (cl_st cl) as [o0|] eqn:St.
      * assert (o0 = o) by congruence. subst o0. now apply (C_out _ C cl).
      * destruct (lookup (fdone s) (cl_fid cl)) as [[o1 t1]|] eqn:Lk; [|congruence].
        right. exists t1. congruence.
    + intros cl' H. destruct (wake_callers s cl' H) as (cl & Hcl & K1 & K2 & _). rewrite K1, K2.
      now apply (C_item _ C).
    + intros cl' H. destruct (wake_callers s cl' H) as (cl & Hcl & K1 & K2 & K3 & K4 & _). rewrite K1, K3, K4.
      now apply (C_key _ C).
  - intros cl' H Hst. destruct (wake_callers s cl' H) as (cl & Hcl & K1 & K2 & K3 & K4 & K5).
    unfold is_done. rewrite E1, K2. destruct (cl_st cl); [congruence|].
    destruct (lookup (fdone s) (cl_fid cl)) as [[? ?]|]; [congruence|reflexivity].
Qed.

Lemma in_replace_nth {A} (l : list A) n x y :
  In y (firstn n l ++ x :: skipn (S n) l) -> y = x \/ In y l.
Proof.
  intros H. apply in_app_or in H as [H|[H|H]]; auto.
  - right. rewrite <- (firstn_skipn n l). apply in_or_app. now left.
  - right. rewrite <- (firstn_skipn (S n) l). apply in_or_app. now right.
Qed.

Lemma cancel_CW s cid : CInv s -> WInv s -> CInv (fst (cancel_caller s cid)) /\ WInv (fst (cancel_caller s cid)).
Proof.
  intros C W. unfold cancel_caller. destruct (nth_error (callers s) cid) as [cl|] eqn:E; auto.
  destruct (cl_st cl) eqn:St; auto. simpl.
  apply nth_error_In in E. split.
  - constructor; simpl.
    + intros cl' o H Hst. apply in_replace_nth in H as [->|H]; [simpl in *; left; congruence | now apply (C_out _ C cl')].
    + intros cl' H. apply in_replace_nth in H as [->|H]; simpl; now apply (C_item _ C).
    + intros cl' H. apply in_replace_nth in H as [->|H]; simpl; now apply (C_key _ C).
  - intros cl' H Hst. apply in_replace_nth in H as [->|H]; [discriminate | now apply W].
Qed.

(* ---- one call ---------------------------------------------------------------------------------- *)

Definition KInv (c : cfg) (s : state) : Prop := SInv s /\ PInv c s [] /\ CInv s /\ WInv s.

Lemma pend_key_not_coll c s k :
  PInv c s [] -> lookup (ret s) k = None -> ~ In k (map it_key (coll_items s)).
Proof.
  intros K R H. apply in_map_iff in H as (it & <- & Hit).
  destruct (P_coll _ _ _ K it Hit) as [_ H]. congruence.
Qed.

Lemma do_call_K c a ko m s :
  LInv c s -> Fifo s -> KInv c s -> KInv c (fst (do_call c a ko m s)).
Proof.
  intros I F (S & K & C & W). unfold do_call.
  destruct (lookup (ret s) (key_of a ko)) as [f|] eqn:R.
  - destruct (P_ret _ _ _ K _ _ R) as (it & Hit & Ekf).
    destruct (lookup (fdone s) f) as [[o t]|] eqn:D; simpl.
    + split; [destruct S; constructor; auto|]. split; [destruct K; constructor; auto|]. split.
      * constructor; simpl.
        -- intros cl o' H Hst. apply in_app_or in H as [H|[<-|[]]]; [now apply (C_out _ C cl)|].
           simpl in *. right. exists t. congruence.
        -- intros cl H. apply in_app_or in H as [H|[<-|[]]]; [now apply (C_item _ C)|]. simpl. eauto.
        -- intros cl H. apply in_app_or in H as [H|[<-|[]]]; [now apply (C_key _ C)|]. reflexivity.
      * intros cl H Hst. apply in_app_or in H as [H|[<-|[]]]; [now apply W | discriminate].
    + split; [destruct S; constructor; auto|]. split; [destruct K; constructor; auto|]. split.
      * constructor; simpl.
        -- intros cl o' H Hst. apply in_app_or in H as [H|[<-|[]]]; [now apply (C_out _ C cl) | discriminate].
        -- intros cl H. apply in_app_or in H as [H|[<-|[]]]; [now apply (C_item _ C)|]. simpl. eauto.
        -- intros cl H. apply in_app_or in H as [H|[<-|[]]]; [now apply (C_key _ C)|]. reflexivity.
      * intros cl H Hst. apply in_app_or in H as [H|[<-|[]]]; [now apply W|]. unfold is_done, add_caller. simpl. now rewrite D.
  - set (k := key_of a ko) in *. set (it := mkitem k a (nfut s) (now s) (maxb s)).
    set (s1 := mkst _ _ _ _ _ _ _ _ _ _ _ _ _ _ _ _ _ _).
    assert (Hnk : ~ In k (map it_key (coll_items s))) by (eapply pend_key_not_coll; eauto).
    assert (Hnd : is_done s (nfut s) = false).
    { unfold is_done. destruct (lookup (fdone s) (nfut s)) eqn:D; auto. apply (P_dlt _ _ _ K) in D. lia. }
    (* a pending (k', f') stays pending: its key is not k *)
    assert (PK : forall k' f', pend s k' f' -> pend s1 k' f').
    { intros k' f' [H1 H2]. split; auto. simpl. destruct (Nat.eqb_spec k k'); auto. subst k'. congruence. }
    assert (S1 : SInv s1).
    { destruct S. constructor; simpl; auto.
      rewrite map_app, S_fids0. simpl. apply seq_snoc. }
    assert (K1 : PInv c s1 []).
    { constructor; simpl; unfold run_ids; simpl.
      - intros x Hx. apply PK. now apply (P_coll _ _ _ K).
      - intros w x Hw Hx. apply PK. now apply (P_wait _ _ _ K w).
      - intros B k' f' HB H. apply PK. now apply (P_run _ _ _ K B).
      - apply (P_loc _ _ _ K).
      - apply (P_end _ _ _ K).
      - intros ? ? [].
      - constructor.
      - intros k' f' H. destruct (Nat.eqb_spec k k') as [<-|N].
        + injection H as <-. exists it. split; [apply in_or_app; right; now left | reflexivity].
        + destruct (P_ret _ _ _ K k' f' H) as (x & Hx & E). exists x. split; auto. apply in_or_app. now left.
      - intros dl k' H. destruct (P_timer _ _ _ K dl k' H) as (f0 & o0 & t0 & H1 & H2 & H3 & H4).
        exists f0, o0, t0. repeat split; auto. destruct (Nat.eqb_spec k k'); auto. subst k'. congruence.
      - intros k' f' o' t' H1 H2. destruct (Nat.eqb_spec k k') as [<-|N].
        + injection H1 as <-. apply (P_dlt _ _ _ K) in H2. lia.
        + now apply (P_rdone _ _ _ K k' f' o' t').
      - intros k' f' H. rewrite last_key_snoc. simpl. destruct (Nat.eqb_spec k k') as [E|N].
        + injection H as <-. exists it. split; reflexivity.
        + now apply (P_last _ _ _ K).
      - intros f' x H. apply (P_dlt _ _ _ K) in H. lia.
      - intros x o' t' Hx H Hlt. apply in_app_or in Hx as [Hx|[<-|[]]].
        + pose proof (P_win _ _ _ K x o' t' Hx H Hlt) as G.
          destruct (Nat.eqb_spec k (it_key x)) as [E|N]; [congruence | exact G].
        + simpl in H. apply (P_dlt _ _ _ K) in H. lia.
      - intros f' o' t' H. destruct (P_spec _ _ _ K f' o' t' H) as [(k0 & Hs) Ht]. split; auto. exists k0.
        eapply spec_of_mono; [| | |exact Hs]; simpl; auto. intros x Hx. apply in_or_app. now left.
      - apply (P_lrun _ _ _ K).
      - apply (P_lans _ _ _ K). }
    assert (C1 : CInv s1).
    { constructor; simpl.
      - intros cl o' H Hst. apply in_app_or in H as [H|[<-|[]]]; [now apply (C_out _ C cl) | discriminate].
      - intros cl H. apply in_app_or in H as [H|[<-|[]]].
        + destruct (C_item _ C cl H) as (x & Hx & E). exists x. split; auto. apply in_or_app. now left.
        + exists it. split; [apply in_or_app; right; now left | reflexivity].
      - intros cl H. apply in_app_or in H as [H|[<-|[]]]; [now apply (C_key _ C)|]. reflexivity. }
    assert (W1 : WInv s1).
    { intros cl H Hst. apply in_app_or in H as [H|[<-|[]]]; [now apply W | exact Hnd]. }
    assert (Hp : pend s1 (it_key it) (it_fid it)).
    { split; [exact Hnd|]. simpl. now rewrite Nat.eqb_refl. }
    pose proof (take_sameC c it s1) as SC.
    split; [apply take_S; auto|]. split; [apply take_P; auto|].
    split; [eapply same_C_inv; eauto | eapply same_C_W; eauto].
Qed.

(* ---- time ---------------------------------------------------------------------------------------- *)

Lemma lookup_fold_remove (due : list (N * nat)) : forall (r0 : list (nat * nat)) k,
  lookup (fold_left (fun r p => remove_key (snd p) r) due r0) k =
  if existsb (fun p => Nat.eqb (snd p) k) due then None else lookup r0 k.
Proof.
  induction due as [|p r IH]; intros r0 k; simpl; auto.
  rewrite IH, lookup_remove_key.
  destruct (Nat.eqb_spec (snd p) k) as [E|N]; simpl.
  - destruct (existsb _ r); auto. destruct (Nat.eqb_spec k (snd p)); congruence.
  - destruct (existsb _ r); auto. destruct (Nat.eqb_spec k (snd p)); congruence.
Qed.

Lemma fire_at_K c t s :
  LInv c s -> Fifo s -> KInv c s -> KInv c (fst (fire_at t s)).
Proof.
  intros I F (S & K & C & W). unfold fire_at.
  set (s1 := set_now s (N.max (now s) t)).
  set (due := filter (fun p => (fst p <=? t)%N) (rtimers s1)).
  set (s2 := set_rtimers _ _).
  assert (Hret : forall k, lookup (ret s2) k = if existsb (fun p => Nat.eqb (snd p) k) due then None else lookup (ret s) k).
  { intros k. apply lookup_fold_remove. }
  assert (Hdue : forall k, existsb (fun p => Nat.eqb (snd p) k) due = true ->
            exists dl, In (dl, k) (rtimers s) /\ (dl <= t)%N).
  { intros k H. apply existsb_exists in H as ([dl k'] & Hin & E). apply filter_In in Hin as [Hin Hle].
    simpl in *. apply Nat.eqb_eq in E. subst k'. exists dl. split; auto. lia. }
  assert (PK : forall k f, pend s k f -> pend s2 k f).
  { intros k f [H1 H2]. split; auto. rewrite Hret.
    destruct (existsb _ due) eqn:E; auto. exfalso.
    destruct (Hdue k E) as (dl & Hin & _).
    destruct (P_timer _ _ _ K dl k Hin) as (f0 & o0 & t0 & G1 & G2 & _).
    assert (f0 = f) by congruence. subst f0. unfold is_done in H1. now rewrite G2 in H1. }
  assert (S2 : SInv s2) by (destruct S; constructor; auto).
  assert (K2 : PInv c s2 []).
  { constructor; try (destruct K; assumption).
    - intros it Hit. apply PK. now apply (P_coll _ _ _ K).
    - intros w it Hw Hit. apply PK. now apply (P_wait _ _ _ K w).
    - intros B k f HB H. apply PK. now apply (P_run _ _ _ K B).
    - intros ? ? [].
    - intros k f H. rewrite Hret in H. destruct (existsb _ due); [discriminate|]. now apply (P_ret _ _ _ K).
    - intros dl k H. simpl in H. apply filter_In in H as [H Hgt]. simpl in Hgt.
      destruct (P_timer _ _ _ K dl k H) as (f0 & o0 & t0 & G1 & G2 & G3 & G4).
      exists f0, o0, t0. repeat split; auto. rewrite Hret.
      destruct (existsb _ due) eqn:E; auto. exfalso.
      destruct (Hdue k E) as (dl' & Hin' & Hle').
      destruct (P_timer _ _ _ K dl' k Hin') as (f1 & o1 & t1 & J1 & J2 & J3 & _).
      assert (f1 = f0) by congruence. subst f1. assert (t1 = t0) by congruence. subst t1. lia.
    - intros k f o t0 H1 H2. rewrite Hret in H1. destruct (existsb _ due) eqn:E; [discriminate|].
      destruct (P_rdone _ _ _ K k f o t0 H1 H2) as [G1 G2]. split; auto.
      simpl. apply filter_In. split; auto. simpl.
      destruct (t0 + c_rt c <=? t)%N eqn:Ele; auto. exfalso.
      assert (existsb (fun p => Nat.eqb (snd p) k) due = true).
      { apply existsb_exists. exists ((t0 + c_rt c)%N, k). split; [|simpl; apply Nat.eqb_refl].
        apply filter_In. split; auto. }
      congruence.
    - intros k f H. rewrite Hret in H. destruct (existsb _ due); [discriminate|]. now apply (P_last _ _ _ K).
    - intros it o t0 Hit H Hlt. rewrite Hret. simpl in Hlt.
      assert (Hlt0 : (now s < t0 + c_rt c)%N) by lia.
      pose proof (P_win _ _ _ K it o t0 Hit H Hlt0) as G.
      destruct (existsb _ due) eqn:E; auto. exfalso.
      destruct (Hdue _ E) as (dl' & Hin' & Hle').
      destruct (P_timer _ _ _ K dl' _ Hin') as (f1 & o1 & t1 & J1 & J2 & J3 & _).
      assert (f1 = it_fid it) by congruence. subst f1.
      change (fdone s2) with (fdone s) in H. assert (t1 = t0) by congruence. subst t1. lia.
    - intros f o t0 H. destruct (P_spec _ _ _ K f o t0 H) as [G1 G2]. split; auto. simpl. lia. }
  assert (C2 : CInv s2) by (destruct C; constructor; auto).
  assert (W2 : WInv s2) by exact W.
  assert (Ec : coll s2 = coll s) by reflexivity.
  destruct (coll s2) as [[its dl]|] eqn:Cl; [|exact (conj S2 (conj K2 (conj C2 W2)))].
  destruct (dl <=? t)%N; [|exact (conj S2 (conj K2 (conj C2 W2)))].
  set (s3 := set_coll _ None).
  assert (Hits : coll_items s2 = its) by (unfold coll_items; now rewrite Cl).
  pose proof (dispatch_sameC its s3) as SC.
  split; [|split; [|split]].
  - apply dispatch_S.
    + destruct S2. constructor; simpl; auto. constructor.
    + rewrite <- Hits. apply (S_kcoll _ S2).
  - apply (dispatch_P c).
    + destruct S2. constructor; simpl; auto. constructor.
    + destruct K2. constructor; simpl; auto; [intros ? [] | intros ? ? []].
    + rewrite <- Hits. apply (S_kcoll _ S2).
    + intros it Hit. rewrite <- Hits in Hit. apply (P_coll _ _ _ K2 it Hit).
    + intros ? ? [].
  - eapply same_C_inv; [exact SC|]. destruct C2; constructor; auto.
  - eapply same_C_W; [exact SC|]. exact W2.
Qed.

Lemma advance_K c fuel target : forall s,
  LInv c s -> Fifo s -> KInv c s -> KInv c (fst (advance fuel target s)).
Proof.
  induction fuel as [|n IH]; intros s I F K; simpl.
  - destruct K as (S & K & C & W).
    split; [destruct S; constructor; auto|]. split; [destruct K; constructor; auto|].
    split; [destruct C; constructor; auto | exact W].
  - assert (Kn : forall v, KInv c (set_now s (N.max (now s) v))).
    { intros v. destruct K as (S & K & C & W).
      split; [destruct S; constructor; auto|]. split; [|split; [destruct C; constructor; auto | exact W]].
      destruct K. constructor; auto.
      - intros it o t H1 H2 H3. apply (P_win0 it o t H1 H2). simpl in H3. lia.
      - intros f o t H. destruct (P_spec0 f o t H) as [G1 G2]. split; auto. simpl. lia. }
    destruct (next_deadline s) as [t|]; [|apply Kn].
    destruct (t <=? target)%N; [|apply Kn].
    destruct (fire_at_LF c t s I F) as [I1 F1]. pose proof (fire_at_K c t s I F K) as K1.
    destruct (fire_at t s) as [s1 o1]. simpl in *.
    specialize (IH s1 I1 F1 K1). destruct (advance n target s1) as [s2 o2]. exact IH.
Qed.

(* ---- resumed tasks that call again ------------------------------------------------------------------ *)

Definition LFK (c : cfg) (s : state) : Prop := LF c s /\ KInv c s.

Lemma call_LFK c a ko m s : LFK c s -> LFK c (fst (do_call c a ko m s)) /\ True.
Proof.
  intros [[I F] K]. split; auto. split.
  - apply call_LF. split; auto.
  - now apply do_call_K.
Qed.

Lemma do_calls_K c l s : LInv c s -> Fifo s -> KInv c s -> KInv c (fst (do_calls c l s)).
Proof.
  intros I F K.
  destruct (lift_calls c (LFK c) (fun _ _ _ => True) (fun _ _ => Logic.I) (fun _ _ _ _ _ _ _ => Logic.I) (call_LFK c)
              l s) as [[_ H] _]; [exact (conj (conj I F) K) | exact H].
Qed.

Lemma do_chain_K c a ko m s : LInv c s -> Fifo s -> KInv c s -> KInv c (fst (do_chain c a ko m s)).
Proof.
  intros I F K.
  destruct (lift_chain c (LFK c) (fun _ _ _ => True) (fun _ _ => Logic.I) (fun _ _ _ _ _ _ _ => Logic.I) (call_LFK c)
              a ko m s) as [[_ H] _]; [exact (conj (conj I F) K) | exact H].
Qed.

Lemma wake_all_K c s :
  LInv c s -> Fifo s -> SInv s -> PInv c s [] -> CInv s -> KInv c (fst (wake_all c s)).
Proof.
  intros I F S K C. unfold wake_all.
  destruct (wake_LF c s (conj I F)) as [[I1 F1] _].
  pose proof (same_S_inv _ _ (wake_sameS s) S) as S1.
  pose proof (same_P_inv c _ _ [] (wake_sameP s) K) as K1.
  destruct (wake_CW s C) as [C1 W1].
  destruct (wake s) as [s1 o1]. simpl in *.
  match goal with |- context [do_recalls c ?l s1] =>
    destruct (lift_recalls c (LFK c) (fun _ _ _ => True) (fun _ _ => Logic.I) (fun _ _ _ _ _ _ _ => Logic.I) (call_LFK c)
                l s1) as [[_ H] _]; [exact (conj (conj I1 F1) (conj S1 (conj K1 (conj C1 W1)))) |];
    destruct (do_recalls c l s1) as [s2 o2] end.
  exact H.
Qed.

(* ---- a yield answers one key ------------------------------------------------------------------------ *)

Lemma spec_of_log s s' b e k f o :
  g_items s' = g_items s -> g_started s' = g_started s -> g_blog s' = g_blog s ++ [(b, e)] ->
  spec_of s k f o -> spec_of s' k f o.
Proof.
  intros E1 E2 E3 (it & b0 & its & tb & A & Bq & C & D & E).
  exists it, b0, its, tb. rewrite E1, E2, E3. repeat split; auto.
  rewrite blog_of_app. now apply produced_app.
Qed.

Lemma in_upd_running s b fs B1 :
  In B1 (running (set_batch_futs s b fs)) ->
  (In B1 (running s) /\ b_id B1 <> b) \/ (exists B0, In B0 (running s) /\ b_id B0 = b /\ B1 = mkbatch b (b_items B0) fs).
Proof.
  unfold set_batch_futs. simpl. intros H. apply in_map_iff in H as (B0 & E & H0).
  destruct (Nat.eqb_spec (b_id B0) b) as [Eb|N].
  - right. exists B0. subst B1. rewrite Eb. auto.
  - left. subst B1. auto.
Qed.

Lemma run_ids_upd s b fs : run_ids (set_batch_futs s b fs) = run_ids s.
Proof.
  unfold run_ids, set_batch_futs. simpl. rewrite map_map. apply map_ext.
  intros x. destruct (Nat.eqb (b_id x) b); reflexivity.
Qed.

Lemma same_id_same_batch c s B B0 : LInv c s -> In B (running s) -> In B0 (running s) -> b_id B0 = b_id B -> B0 = B.
Proof. intros I H1 H2 E. eapply (NoDup_map_inj b_id); eauto. apply (L_ids _ _ I). Qed.

Lemma byield_detach c s B k f r :
  LInv c s -> Fifo s -> SInv s -> PInv c s [] -> In B (running s) -> lookup (b_futs B) k = Some f ->
  let s1 := set_batch_futs (log_bev s (b_id B) (EvYield k r)) (b_id B) (remove_key k (b_futs B)) in
  SInv s1 /\ PInv c s1 [(k, f)] /\ spec_of s1 k f (of_res r).
Proof.
  intros I F S K HB Hl s1. set (b := b_id B) in *. set (fs := remove_key k (b_futs B)) in *.
  pose proof (lookup_In _ _ _ Hl) as Hin.
  destruct (fut_place_unique c s B k f I F S HB Hin) as (Nc & Nw & U).
  destruct (futs_item s B k f S HB Hin) as (itf & Hitf & Hk & Hf).
  destruct (S_run _ S B HB) as (tB & HeB).
  assert (Hlog : g_blog s1 = g_blog s ++ [(b, EvYield k r)]) by reflexivity.
  assert (HB1 : forall B1, In B1 (running s1) ->
            (In B1 (running s) /\ b_id B1 <> b) \/ B1 = mkbatch b (b_items B) fs).
  { intros B1 H. apply in_upd_running in H as [H|(B0 & H0 & E0 & E1)]; auto. right. subst B1.
    assert (B0 = B) by (eapply same_id_same_batch; eauto). now subst B0. }
  split; [|split].
  - destruct S. constructor; auto.
    + intros B1 H. apply HB1 in H as [[H _]| ->]; simpl; eauto.
    + intros B1 k' f' H H'. apply HB1 in H as [[H _]| ->]; simpl in *; eauto.
      apply in_remove_key in H' as [H' _]. eauto.
    + intros B1 H. apply HB1 in H as [[H _]| ->]; simpl; auto. apply nodup_remove_key. auto.
    + intros b0 e H. rewrite Hlog in H. apply in_app_or in H as [H|[H|[]]]; eauto.
      injection H as <- _. apply (L_idlt _ _ I B HB).
  - constructor.
    + apply (P_coll _ _ _ K).
    + apply (P_wait _ _ _ K).
    + intros B1 k' f' H H'. apply HB1 in H as [[H _]| ->]; simpl in *; [now apply (P_run _ _ _ K B1)|].
      apply in_remove_key in H' as [H' _]. now apply (P_run _ _ _ K B).
    + intros B1 it H Hit Hd. apply HB1 in H as [[H _]| ->]; simpl in *.
      * destruct (P_loc _ _ _ K B1 it H Hit Hd) as [G|[]]. now left.
      * destruct (P_loc _ _ _ K B it HB Hit Hd) as [G|[]].
        destruct (Nat.eqb_spec (it_key it) k) as [Ek|Nk].
        -- right. left. unfold kf in *. rewrite Ek in G |- *.
           apply (In_lookup _ _ _ (S_fnd _ S B HB)) in G. congruence.
        -- left. apply in_remove_key. split; auto.
    + intros b0 its t it He Hn Hit Hd. exfalso. unfold s1 in Hn. rewrite run_ids_upd in Hn.
      apply (P_end _ _ _ K b0 its t it He Hn Hit Hd).
    + intros k' f' [H|[]]. injection H as <- <-.
      split; [now apply (P_run _ _ _ K B)|]. split; [exists itf; split; [exact (running_sub s B itf F S HB Hitf) | unfold kf; congruence]|].
      split; [exact Nc|]. split; [exact Nw|].
      intros B1 k' H H'. apply HB1 in H as [[H Nb]| ->]; simpl in *.
      * destruct (U B1 k' H H') as [-> _]. now apply Nb.
      * apply in_remove_key in H' as [H' Nk]. destruct (U B k' HB H') as [_ ->]. now apply Nk.
    + simpl. constructor; [intros []|constructor].
    + apply (P_ret _ _ _ K).
    + apply (P_timer _ _ _ K).
    + apply (P_rdone _ _ _ K).
    + apply (P_last _ _ _ K).
    + apply (P_dlt _ _ _ K).
    + apply (P_win _ _ _ K).
    + intros f' o t H. destruct (P_spec _ _ _ K f' o t H) as [(k0 & Hs) Ht]. split; auto. exists k0.
      eapply spec_of_log; [| | exact Hlog | exact Hs]; reflexivity.
    + intros B1 k' f' H H'. rewrite Hlog. apply HB1 in H as [[H Nb]| ->]; simpl in *.
      * rewrite blog_of_other by auto. now apply (P_lrun _ _ _ K B1 k' f').
      * apply in_remove_key in H' as [H' Nk]. rewrite blog_of_same. intros r' Hr.
        apply in_app_or in Hr as [Hr|[Hr|[]]]; [now apply (P_lrun _ _ _ K B k' f' HB H' r') | congruence].
    + intros B1 k' H Hk' Hl'. rewrite Hlog. apply HB1 in H as [[H Nb]| ->]; simpl in *.
      * rewrite blog_of_other by auto. now apply (P_lans _ _ _ K B1 k').
      * rewrite blog_of_same. unfold fs in Hl'. rewrite lookup_remove_key in Hl'.
        destruct (Nat.eqb_spec k' k) as [Ek|Nk].
        -- exists r. apply in_or_app. right. left. congruence.
        -- destruct (P_lans _ _ _ K B k' HB Hk' Hl') as (r' & Hr). exists r'. apply in_or_app. now left.
  - exists itf, b, (b_items B), tB. rewrite Hlog. split; [exact (running_sub s B itf F S HB Hitf)|].
    split; [unfold kf; congruence|]. split; [exact HeB|]. split; [exact Hitf|].
    rewrite blog_of_same. exists (blog_of b (g_blog s)), (EvYield k r), [].
    split; [reflexivity|]. split; [now apply (P_lrun _ _ _ K B k f HB Hin)|].
    destruct r; reflexivity.
Qed.

(* ---- a batch ends ------------------------------------------------------------------------------------ *)

Lemma in_filter_ids (l : list batch) b x :
  In x (map b_id (filter (fun y => negb (Nat.eqb (b_id y) b)) l)) <-> In x (map b_id l) /\ x <> b.
Proof.
  rewrite !in_map_iff. split.
  - intros (y & E & H). apply filter_In in H as [H1 H2]. split; [eauto|].
    subst x. destruct (Nat.eqb_spec (b_id y) b); [discriminate|auto].
  - intros [(y & E & H) N]. exists y. split; auto. apply filter_In. split; auto.
    subst x. destruct (Nat.eqb_spec (b_id y) b); [contradiction|auto].
Qed.

Lemma end_detach c s B :
  LInv c s -> Fifo s -> SInv s -> PInv c s [] -> In B (running s) ->
  let s0 := set_running s (filter (fun x => negb (Nat.eqb (b_id x) (b_id B))) (running s)) in
  SInv s0 /\ PInv c s0 (b_futs B).
Proof.
  intros I F S K HB s0.
  assert (Hsub : forall B1, In B1 (running s0) -> In B1 (running s) /\ b_id B1 <> b_id B).
  { simpl. intros B1 H. apply filter_In in H as [H1 H2]. split; auto.
    destruct (Nat.eqb_spec (b_id B1) (b_id B)); [discriminate|auto]. }
  destruct (S_run _ S B HB) as (tB & HeB).
  split.
  - destruct S. constructor; auto.
    + intros B1 H. apply Hsub in H as [H _]. auto.
    + intros B1 k f H. apply Hsub in H as [H _]. eauto.
    + intros B1 H. apply Hsub in H as [H _]. auto.
  - constructor.
    + apply (P_coll _ _ _ K).
    + apply (P_wait _ _ _ K).
    + intros B1 k f H. apply Hsub in H as [H _]. now apply (P_run _ _ _ K B1).
    + intros B1 it H Hit Hd. apply Hsub in H as [H _].
      destruct (P_loc _ _ _ K B1 it H Hit Hd) as [G|[]]. now left.
    + intros b its t it He Hn Hit Hd.
      destruct (in_dec Nat.eq_dec b (run_ids s)) as [Hin|Hnin].
      * assert (b = b_id B).
        { destruct (Nat.eq_dec b (b_id B)); auto. exfalso. apply Hn. unfold run_ids, s0. simpl.
          apply in_filter_ids. split; auto. }
        subst b. destruct (started_by_id s _ _ _ _ _ S He HeB) as [-> _].
        destruct (P_loc _ _ _ K B it HB Hit Hd) as [G|[]]. exact G.
      * destruct (P_end _ _ _ K b its t it He Hnin Hit Hd).
    + intros k f H.
      destruct (fut_place_unique c s B k f I F S HB H) as (Nc & Nw & U).
      destruct (futs_item s B k f S HB H) as (itf & Hitf & Hk & Hf).
      split; [now apply (P_run _ _ _ K B)|].
      split; [exists itf; split; [exact (running_sub s B itf F S HB Hitf) | unfold kf; congruence]|].
      split; [exact Nc|]. split; [exact Nw|].
      intros B1 k' H1 H'. apply Hsub in H1 as [H1 Nb]. destruct (U B1 k' H1 H') as [-> _]. now apply Nb.
    + apply (futs_snd_nodup c s B I F S HB).
    + apply (P_ret _ _ _ K).
    + apply (P_timer _ _ _ K).
    + apply (P_rdone _ _ _ K).
    + apply (P_last _ _ _ K).
    + apply (P_dlt _ _ _ K).
    + apply (P_win _ _ _ K).
    + apply (P_spec _ _ _ K).
    + intros B1 k f H. apply Hsub in H as [H _]. now apply (P_lrun _ _ _ K B1).
    + intros B1 k H. apply Hsub in H as [H _]. now apply (P_lans _ _ _ K B1).
Qed.

Lemma release_slot_mono s :
  g_items (fst (release_slot s)) = g_items s /\ g_blog (fst (release_slot s)) = g_blog s /\
  forall e, In e (g_started s) -> In e (g_started (fst (release_slot s))).
Proof.
  unfold release_slot. destruct (waiting s); simpl; repeat split; auto.
  intros e H. apply in_or_app. now left.
Qed.

(* TaskDied is emitted by nothing but a failing fan-out *)
Definition nd (os : list obs) : Prop := ~ In TaskDied os.

Lemma nd_app o1 o2 : nd o1 -> nd o2 -> nd (o1 ++ o2).
Proof. unfold nd. intros H1 H2 H. apply in_app_or in H as [H|H]; auto. Qed.

Lemma nd_nil : nd [].
Proof. intros []. Qed.

Lemma start_batch_nd its s : nd (snd (start_batch its s)).
Proof. unfold start_batch, nd. simpl. intros [H|[]]. discriminate. Qed.

Lemma dispatch_nd its s : nd (snd (dispatch its s)).
Proof.
  unfold dispatch. cbn [free set_spawn waiting]. destruct (0 <? free s); [apply start_batch_nd | apply nd_nil].
Qed.

Lemma release_slot_nd s : nd (snd (release_slot s)).
Proof. unfold release_slot. destruct (waiting s); [apply nd_nil | apply start_batch_nd]. Qed.

Lemma take_nd c it s : nd (snd (take c it s)).
Proof. unfold take. destruct (_ <? maxb s); [apply nd_nil | apply dispatch_nd]. Qed.

Lemma do_call_nd c a ko m s : nd (snd (do_call c a ko m s)).
Proof.
  unfold do_call. destruct (lookup (ret s) _) as [f|]; [|apply take_nd].
  destruct (lookup (fdone s) f) as [[o t]|]; simpl; [|apply nd_nil]. intros [H|[]]. discriminate.
Qed.

Lemma wake_nd s : nd (snd (wake s)).
Proof.
  unfold wake. pose proof (wake_from_spec (fdone s) (now s) (callers s) 0) as (_ & _ & Hw).
  destruct (wake_from _ _ _ _) as [cs os]. simpl in *. intros H.
  apply Hw in H as (j & cl & o & t0 & E & _). discriminate.
Qed.

Lemma call_nd_ok c a ko m s :
  True -> True /\ (fun (_ _ : state) os => nd os) s (fst (do_call c a ko m s)) (snd (do_call c a ko m s)).
Proof. intros _. split; auto. apply do_call_nd. Qed.

Lemma do_chain_nd c a ko m s : nd (snd (do_chain c a ko m s)).
Proof.
  apply (lift_chain c (fun _ => True) (fun _ _ os => nd os) (fun _ _ => nd_nil)
           (fun _ _ _ o1 o2 => nd_app o1 o2) (call_nd_ok c) a ko m s Logic.I).
Qed.

Lemma do_calls_nd c l s : nd (snd (do_calls c l s)).
Proof.
  apply (lift_calls c (fun _ => True) (fun _ _ os => nd os) (fun _ _ => nd_nil)
           (fun _ _ _ o1 o2 => nd_app o1 o2) (call_nd_ok c) l s Logic.I).
Qed.

Lemma wake_all_nd c s : nd (snd (wake_all c s)).
Proof.
  apply (lift_wake_all c (fun _ => True) (fun _ _ os => nd os) (fun _ _ => nd_nil)
           (fun _ _ _ o1 o2 => nd_app o1 o2) (call_nd_ok c)); auto.
  intros s0 _. split; auto. apply wake_nd.
Qed.

Lemma fire_at_nd t s : nd (snd (fire_at t s)).
Proof.
  unfold fire_at. set (s2 := set_rtimers _ _).
  destruct (coll s2) as [[its dl]|]; [|apply nd_nil].
  destruct (dl <=? t)%N; [apply dispatch_nd | apply nd_nil].
Qed.

Lemma advance_nd fuel target : forall s, nd (snd (advance fuel target s)).
Proof.
  induction fuel as [|n IH]; intros s; simpl; [apply nd_nil|].
  destruct (next_deadline s) as [t|]; [|apply nd_nil].
  destruct (t <=? target)%N; [|apply nd_nil].
  pose proof (fire_at_nd t s) as H1. destruct (fire_at t s) as [s1 o1].
  specialize (IH s1). destruct (advance n target s1) as [s2 o2]. simpl in *. now apply nd_app.
Qed.

(* the end of batch B with outcome o for every future still in futs: afterwards the
   whole invariant holds again, and the batch task did not die *)
Lemma end_batch_K c B o s :
  LInv c s -> Fifo s -> SInv s -> PInv c s [] -> CInv s -> In B (running s) ->
  (forall k f, In (k, f) (b_futs B) -> spec_of s k f o) ->
  KInv c (fst (end_batch c B o s)) /\ nd (snd (end_batch c B o s)).
Proof.
  intros I F S K C HB Hspec.
  destruct (end_batch_mid c B o s I F HB) as (I1 & F1 & I2 & F2).
  destruct (end_detach c s B I F S K HB) as [S0 K0].
  unfold end_batch. set (s0 := set_running s _) in *.
  pose proof (release_slot_S s0 S0) as S1.
  pose proof (release_slot_P c s0 _ S0 K0) as K1.
  pose proof (release_slot_sameC s0) as SC1.
  destruct (release_slot_mono s0) as (M1 & M2 & M3).
  pose proof (release_slot_nd s0) as N1.
  destruct (release_slot s0) as [s1 o1]. simpl in *.
  assert (C1 : CInv s1) by (eapply same_C_inv; [exact SC1|]; destruct C; constructor; auto).
  assert (Hspec1 : forall k f, In (k, f) (b_futs B) -> spec_of s1 k f o).
  { intros k f H. eapply spec_of_mono; [| | |exact (Hspec k f H)]; auto. now rewrite M1. }
  rewrite <- (app_nil_r (b_futs B)) in K1.
  destruct (fanout_P c o (b_futs B) s1 [] S1 K1 Hspec1) as [K2 Hd].
  pose proof (same_S_inv _ _ (fanout_sameS c (b_futs B) o s1) S1) as S2.
  pose proof (fanout_C c (b_futs B) o s1 C1) as C2.
  destruct (fanout c (b_futs B) o s1) as [s2 died]. simpl in *. subst died.
  pose proof (wake_all_K c s2 I2 F2 S2 K2 C2) as K3.
  pose proof (wake_all_nd c s2) as N3.
  destruct (wake_all c s2) as [s3 o3]. simpl in *.
  split; [exact K3|]. rewrite app_nil_r. now apply nd_app.
Qed.

(* ---- the batch function raises, returns, or yields a key nobody waits for ------------------------------ *)

Definition ends_with (B : batch) (e : bev) (o : outcome) : Prop :=
  match o with
  | RaisedExc x => e = EvRaise x
  | Missing => e = EvFin
  | ProtocolErr => exists k r, e = EvYield k r /\ lookup (b_futs B) k = None
  | _ => False
  end.

Lemma log_end c s B e o :
  LInv c s -> Fifo s -> SInv s -> PInv c s [] -> In B (running s) -> ends_with B e o ->
  let s0 := log_bev s (b_id B) e in
  SInv s0 /\ PInv c s0 [] /\ (forall k f, In (k, f) (b_futs B) -> spec_of s0 k f o).
Proof.
  intros I F S K HB He s0.
  assert (Hlog : g_blog s0 = g_blog s ++ [(b_id B, e)]) by reflexivity.
  assert (Hny : forall k r, e = EvYield k r -> lookup (b_futs B) k = None).
  { intros k r ->. destruct o; simpl in He; try contradiction; try discriminate.
    destruct He as (k' & r' & E & H). injection E as <- <-. exact H. }
  destruct (S_run _ S B HB) as (tB & HeB).
  split; [|split].
  - destruct S. constructor; auto.
    intros b0 e0 H. rewrite Hlog in H. apply in_app_or in H as [H|[H|[]]]; eauto.
    injection H as <- _. apply (L_idlt _ _ I B HB).
  - constructor; try (destruct K; assumption).
    + intros f o0 t H. destruct (P_spec _ _ _ K f o0 t H) as [(k0 & Hs) Ht]. split; auto. exists k0.
      eapply spec_of_log; [| | exact Hlog | exact Hs]; reflexivity.
    + intros B1 k f H1 H'. rewrite Hlog.
      destruct (Nat.eq_dec (b_id B1) (b_id B)) as [E|N].
      * assert (B1 = B) by (eapply same_id_same_batch; eauto). subst B1.
        rewrite blog_of_same. intros r Hr. apply in_app_or in Hr as [Hr|[Hr|[]]].
        -- now apply (P_lrun _ _ _ K B k f HB H' r).
        -- apply (Hny k r) in Hr. apply lookup_None_notin in Hr. apply Hr.
           apply in_map_iff. exists (k, f). auto.
      * rewrite blog_of_other by auto. now apply (P_lrun _ _ _ K B1 k f).
    + intros B1 k H1 Hk Hl. rewrite Hlog.
      destruct (P_lans _ _ _ K B1 k H1 Hk Hl) as (r & Hr). exists r.
      rewrite blog_of_app. apply in_or_app. now left.
  - intros k f H. destruct (futs_item s B k f S HB H) as (itf & Hitf & Hk & Hf).
    exists itf, (b_id B), (b_items B), tB. rewrite Hlog.
    split; [exact (running_sub s B itf F S HB Hitf)|]. split; [unfold kf; congruence|].
    split; [exact HeB|]. split; [exact Hitf|].
    rewrite blog_of_same. exists (blog_of (b_id B) (g_blog s)), e, [].
    split; [reflexivity|]. split; [now apply (P_lrun _ _ _ K B k f HB H)|].
    destruct o; simpl in He; try contradiction; auto.
    destruct He as (k' & r' & E & Hn). exists k', r'. split; auto.
    destruct (in_dec Nat.eq_dec k' (map it_key (b_items B))) as [Hin|Hnin]; auto.
    right. now apply (P_lans _ _ _ K B k' HB Hin Hn).
Qed.

(* ---- the macro step ------------------------------------------------------------------------------------ *)

Lemma frame_K c s s' :
  same_S s s' -> same_P s s' -> same_C s s' -> KInv c s -> KInv c s'.
Proof.
  intros HS HP HC (S & K & C & W).
  split; [eapply same_S_inv; eauto|]. split; [eapply same_P_inv; eauto|].
  split; [eapply same_C_inv; eauto | eapply same_C_W; eauto].
Qed.

Lemma step_K c s e :
  LInv c s -> Fifo s -> KInv c s -> KInv c (fst (step c s e)) /\ nd (snd (step c s e)).
Proof.
  intros I F KK. pose proof KK as (S & K & C & W).
  destruct e as [a ko|a ko m|l|dt|b k r|b e|b|cid|n]; simpl.
  - split; [now apply do_call_K | apply do_call_nd].
  - split; [now apply do_chain_K | apply do_chain_nd].
  - split; [now apply do_calls_K | apply do_calls_nd].
  - split; [now apply advance_K | apply advance_nd].
  - destruct (find_batch s b) as [B|] eqn:FB; [|split; [exact KK | apply nd_nil]].
    apply find_batch_some in FB as [HB Hid]. subst b.
    destruct (lookup (b_futs B) k) as [f|] eqn:Lk.
    + destruct (byield_detach c s B k f r I F S K HB Lk) as (S1 & K1 & Sp).
      set (s1 := set_batch_futs _ _ _) in *.
      assert (I1 : LInv c s1).
      { apply set_batch_futs_L. destruct I; constructor; auto. }
      assert (F1 : Fifo s1) by exact F.
      assert (C1 : CInv s1) by (destruct C; constructor; auto).
      destruct (P_det _ _ _ K1 k f (or_introl eq_refl)) as ([Hnd _] & _).
      unfold set_fut. rewrite Hnd.
      pose proof (resolve_same c k f (of_res r) s1) as SL.
      split; [|apply wake_all_nd].
      apply wake_all_K.
      * eapply same_L_inv; eauto.
      * eapply same_L_fifo; eauto.
      * eapply same_S_inv; [apply resolve_sameS | exact S1].
      * now apply resolve_P.
      * now apply resolve_C.
    + destruct (log_end c s B (EvYield k r) ProtocolErr I F S K HB) as (S0 & K0 & Sp); [simpl; eauto|].
      apply end_batch_K; auto; destruct I, C; constructor; auto.
  - destruct (find_batch s b) as [B|] eqn:FB; [|split; [exact KK | apply nd_nil]].
    apply find_batch_some in FB as [HB Hid]. subst b.
    destruct (log_end c s B (EvRaise e) (RaisedExc e) I F S K HB) as (S0 & K0 & Sp); [reflexivity|].
    apply end_batch_K; auto; destruct I, C; constructor; auto.
  - destruct (find_batch s b) as [B|] eqn:FB; [|split; [exact KK | apply nd_nil]].
    apply find_batch_some in FB as [HB Hid]. subst b.
    destruct (log_end c s B EvFin Missing I F S K HB) as (S0 & K0 & Sp); [reflexivity|].
    apply end_batch_K; auto; destruct I, C; constructor; auto.
  - split.
    + destruct (cancel_CW s cid C W) as [C1 W1].
      split; [eapply same_S_inv; [apply cancel_sameS|exact S]|].
      split; [eapply same_P_inv; [apply cancel_sameP|exact K]|]. split; auto.
    + unfold cancel_caller. destruct (nth_error _ _) as [cl|]; [|apply nd_nil].
      destruct (cl_st cl); [apply nd_nil|]. simpl. intros [H|[]]. discriminate.
  - split; [|apply nd_nil].
    split; [destruct S; constructor; auto|]. split; [destruct K; constructor; auto|].
    split; [destruct C; constructor; auto | exact W].
Qed.

Lemma init_K c : KInv c (init c).
Proof.
  split; [|split; [|split]].
  - constructor; simpl; auto; try (intros; contradiction); try constructor.
  - constructor; simpl; unfold run_ids; simpl; try (intros; contradiction); try discriminate; try constructor.
  - constructor; simpl; intros; contradiction.
  - intros cl [].
Qed.

Lemma run_from_all c evs : forall s,
  Forall ev_ok evs -> LInv c s -> Fifo s -> TInv c s -> KInv c s ->
  let r := run_from c s evs in
  LInv c (snd r) /\ Fifo (snd r) /\ TInv c (snd r) /\ KInv c (snd r) /\ nd (concat (fst r)).
Proof.
  induction evs as [|e r IH]; intros s He I F T K; simpl; [exact (conj I (conj F (conj T (conj K nd_nil))))|].
  inversion He; subst.
  destruct (step_LF c s e H1 I F) as [I1 F1]. pose proof (step_T c s e I F T) as T1.
  destruct (step_K c s e I F K) as [K1 N1].
  destruct (step c s e) as [s1 o]. simpl in *.
  specialize (IH s1 H2 I1 F1 T1 K1). destruct (run_from c s1 r) as [tr s2]. simpl in *.
  destruct IH as (A & B & C & D & E). split; [exact A|]. split; [exact B|]. split; [exact C|].
  split; [exact D|]. now apply nd_app.
Qed.

Lemma run_all c evs :
  cfg_ok c -> Forall ev_ok evs ->
  let r := run c evs in
  LInv c (snd r) /\ Fifo (snd r) /\ TInv c (snd r) /\ KInv c (snd r) /\ nd (concat (fst r)).
Proof.
  intros Hc He. destruct (init_LF c Hc) as [I0 F0].
  apply run_from_all; auto. apply init_T. apply init_K.
Qed.
