(* Keys.v — executable model for C14 (cache keys of threadsafe_async_cache,
   aiuti/asyncio.py:289-481).  MODEL ONLY (no proofs here).

   1. Value / key model.  Argument objects are represented by the id of their
      Python-equality class ([cls]; 1 == 1.0 == True is one class, two equal
      tuples built separately are one class) — the harness sends the class of
      every object it passes.  Keyword names are small numbers.
      A cache key is a tuple of parts, each part either a sequence (tuple:
      compared pointwise, in order) or a set (frozenset: compared as a set) of
      atoms; atoms are argument classes or (name, class) pairs — this is how
      tuple.__eq__ / frozenset.__eq__ / hash behave on such objects
      (modelled, not verified).
   2. Key expression.  The expression of the source line
          key = args, frozenset(kwargs.items())            (asyncio.py:390)
      is translated from the AST into a [kexpr] (coq/gen/T_KeyExpr.v) and
      interpreted here by [eval_key].
   3. Sequential cache semantics: one caller at a time (asyncio.py:388-442 with
      no concurrent caller: probe l.397, re-probe under the lock l.405, no
      marker in [events] so the caller computes l.428, stores l.432, returns),
      a caller-supplied mapping (dict, lru.LRU(n), any MutableMapping) and
      evictions performed on that mapping between calls.
      Which mapping is the store is decided once, at decoration time, by the
      statement  _cache = cache if cache is not None else {}   (asyncio.py:378),
      whose shape is also translated ([cache_init]). *)
From Coq Require Import List Arith Bool.
Import ListNotations.
Require Import Aiuti.CaseLib.

Definition cls := nat.
Definition name := nat.

(* a call signature "as passed": positional objects in order, keyword
   arguments in the insertion order of the kwargs dict *)
Record sig := mksig { pos : list cls; kw : list (name * cls) }.

Inductive atom := ACls (c : cls) | AItem (n : name) (c : cls).
Definition atom_eqb (a b : atom) : bool :=
  match a, b with
  | ACls c, ACls d => Nat.eqb c d
  | AItem n c, AItem m d => Nat.eqb n m && Nat.eqb c d
  | _, _ => false
  end.

Inductive kpart := PSeq (l : list atom) | PSet (l : list atom).
Definition key := list kpart.

Definition mem (a : atom) (l : list atom) : bool := existsb (atom_eqb a) l.
Definition subset (l1 l2 : list atom) : bool := forallb (fun a => mem a l2) l1.
Definition part_eqb (p q : kpart) : bool :=
  match p, q with
  | PSeq a, PSeq b => list_eqb atom_eqb a b
  | PSet a, PSet b => subset a b && subset b a
  | _, _ => false
  end.
Definition key_eqb : key -> key -> bool := list_eqb part_eqb.

(* ---- key expressions (what the translator emits) ------------------------- *)
Inductive iter := IArgs | IKwItems.          (* args ; kwargs.items() *)
Inductive wrap := WTuple | WFrozenset.       (* tuple(..) or the bare tuple [args] ; frozenset(..) *)
Definition kcomp := (wrap * iter)%type.
Definition kexpr := list kcomp.              (* components of the key tuple, in order *)

Definition items (s : sig) (it : iter) : list atom :=
  match it with
  | IArgs => map ACls (pos s)
  | IKwItems => map (fun p => AItem (fst p) (snd p)) (kw s)
  end.
Definition eval_comp (s : sig) (c : kcomp) : kpart :=
  match fst c with
  | WTuple => PSeq (items s (snd c))
  | WFrozenset => PSet (items s (snd c))
  end.
Definition eval_key (e : kexpr) (s : sig) : key := map (eval_comp s) e.

(* the expression the property's anchor names: (args, frozenset(kwargs.items())) *)
Definition spec_expr : kexpr := [(WTuple, IArgs); (WFrozenset, IKwItems)].

Definition kcomp_eqb (c d : kcomp) : bool :=
  match c, d with
  | (WTuple, IArgs), (WTuple, IArgs) => true
  | (WTuple, IKwItems), (WTuple, IKwItems) => true
  | (WFrozenset, IArgs), (WFrozenset, IArgs) => true
  | (WFrozenset, IKwItems), (WFrozenset, IKwItems) => true
  | _, _ => false
  end.
(* a key expression is [good] when it consists of the positional tuple and the
   frozenset of keyword items, each at least once, and of nothing else *)
Definition good (e : kexpr) : bool :=
  existsb (kcomp_eqb (WTuple, IArgs)) e &&
  existsb (kcomp_eqb (WFrozenset, IKwItems)) e &&
  forallb (fun c => kcomp_eqb (WTuple, IArgs) c || kcomp_eqb (WFrozenset, IKwItems) c) e.

(* how the decorator chooses its store (asyncio.py:378) *)
Inductive cache_init_mode :=
| IfNotNone      (* cache if cache is not None else {} *)
| IfTruthy.      (* cache or {}  — an empty user mapping is silently replaced *)

(* ---- the mapping and the sequential cache ------------------------------- *)

(* entries are (key, value); a value is the index (position in the event
   list) of the call whose invocation of the wrapped function produced it.
   Lists are kept most-recently-used first; a bounded mapping (lru.LRU(n),
   modelled, not verified) drops the tail. *)
Definition store := list (key * nat).

Inductive mkind :=
| KDefault                      (* cache=None: the decorator's own dict *)
| KUser (cap : option nat).     (* caller-supplied: None = unbounded (dict, harness
                                   MutableMapping), Some n = lru.LRU(n) *)

Definition kfind (k : key) (st : store) : option (key * nat) :=
  find (fun e => key_eqb (fst e) k) st.
Definition kremove (k : key) (st : store) : store :=
  filter (fun e => negb (key_eqb (fst e) k)) st.
Definition trunc (cap : option nat) (st : store) : store :=
  match cap with None => st | Some n => firstn n st end.
(* __getitem__ hit: lru.LRU moves the entry to the front; for an unbounded
   mapping the order is irrelevant, so the same definition serves *)
Definition touch (en : key * nat) (st : store) : store := en :: kremove (fst en) st.
(* __setitem__ *)
Definition insert (cap : option nat) (k : key) (v : nat) (st : store) : store :=
  trunc cap ((k, v) :: kremove k st).

Definition prefill_tag : nat := 99.
(* a pre-populated user mapping holds one foreign entry, under a key that no
   call can produce (the harness uses a string) *)
Definition init_user (prefill : bool) : store := if prefill then [([], prefill_tag)] else [].

Record cst := mkcst {
  user : store;     (* content of the caller-supplied mapping *)
  priv : store;     (* content of a dict owned by the decorator *)
  cnt : nat         (* number of events so far = tag of the next invocation *)
}.

Inductive ev :=
| Call (s : sig)
| Evict (v : nat).   (* the harness deletes, from the user mapping, the entry holding value v *)

(* invocations of the wrapped function during the event, tag of the returned
   value, content of the user mapping afterwards *)
Definition obs := (nat * nat * list nat)%type.

Section Cache.
  Variable e : kexpr.
  Variable mode : cache_init_mode.
  Variable kind : mkind.
  Variable prefill : bool.

  Definition cap_of : option nat := match kind with KDefault => None | KUser c => c end.

  (* asyncio.py:378, evaluated once when the function is decorated *)
  Definition use_user : bool :=
    match kind with
    | KDefault => false
    | KUser _ => match mode with IfNotNone => true | IfTruthy => prefill end
    end.

  Definition init : cst :=
    mkcst (match kind with KDefault => [] | KUser _ => init_user prefill end) [] 0.

  Definition active (st : cst) : store := if use_user then user st else priv st.
  Definition set_active (st : cst) (a : store) : cst :=
    if use_user then mkcst a (priv st) (cnt st) else mkcst (user st) a (cnt st).
  Definition tick (st : cst) : cst := mkcst (user st) (priv st) (S (cnt st)).
  Definition content (st : cst) : list nat := map snd (user st).

  Definition step (x : ev) (st : cst) : cst * obs :=
    match x with
    | Call s =>
        let k := eval_key e s in
        match kfind k (active st) with
        | Some en =>                                  (* l.397: hit *)
            let st' := tick (set_active st (touch en (active st))) in
            (st', (0, snd en, content st'))
        | None =>                                     (* l.397, 405 miss; l.428 invoke; l.432 store *)
            let v := cnt st in
            let st' := tick (set_active st (insert (if use_user then cap_of else None) k v (active st))) in
            (st', (1, v, content st'))
        end
    | Evict v =>
        let st' := tick (mkcst (filter (fun en => negb (Nat.eqb (snd en) v)) (user st)) (priv st) (cnt st)) in
        (st', (0, 0, content st'))
    end.

  Fixpoint exec (evs : list ev) (st : cst) : list obs * cst :=
    match evs with
    | [] => ([], st)
    | x :: r => let '(st1, o) := step x st in
                let '(os, st2) := exec r st1 in (o :: os, st2)
    end.

  Definition run (evs : list ev) : list obs := fst (exec evs init).
  Definition state_after (evs : list ev) : cst := snd (exec evs init).
End Cache.
