(* Case_C19.v — correspondence cases and monitor for C19 (parse_to_dict).
   Proofs are in ParseInv.v / props/C19.v. *)
From Coq Require Import List Arith Bool.
Import ListNotations.
Require Import Aiuti.CaseLib Aiuti.Parse.

(* One run of the real parse_to_dict (harness/props/C19.py):
     sep, parse_keys, items : the input (mapping inputs arrive as their .items())
     custom  : a harness parser was passed (then its call log is observed)
     t       : oracle table: what the parser in force (ast.literal_eval called by
               the driver for default-parser cases, else the harness parser)
               answers on every string that can reach it (every split of every
               string item at every occurrence of sep, every str key/value)
     ores    : the returned dict, in order, or the kind of exception
     olog    : arguments the harness parser received, in order (a non-str
               argument is logged as [4999])
     trip    : number of evaluations recorded by the tripwire object *)
Inductive case :=
| Case (sep : str) (parse_keys custom : bool) (t : table) (items : list item)
       (ores : result) (olog : list str) (trip : nat).

Definition obj_eqb (x y : obj) : bool :=
  match x, y with
  | OStr a, OStr b => str_eqb a b
  | OVal v1 c1 h1, OVal v2 c2 h2 => Nat.eqb v1 v2 && Nat.eqb c1 c2 && Bool.eqb h1 h2
  | _, _ => false
  end.
Definition res_eqb (x y : result) : bool :=
  match x, y with
  | Ok d1, Ok d2 => list_eqb (pair_eqb obj_eqb obj_eqb) d1 d2
  | ErrNotKV i, ErrNotKV j => Nat.eqb i j
  | ErrUnhashable _, ErrUnhashable _ => true      (* the TypeError does not say which item *)
  | ErrOther a, ErrOther b => Nat.eqb a b
  | _, _ => false
  end.

Definition agree (c : case) : bool :=
  match c with
  | Case sep pk custom t items ores olog trip =>
      res_eqb (parse_to_dict (lookup t) sep pk items) ores &&
      (if custom then list_eqb str_eqb (calls (lookup t) sep pk items) olog else true) &&
      Nat.eqb trip 0
  end.

(* ---- monitor: an independent reference implementation -------------------- *)
(* first position at which sep occurs in s, by trying every position *)
Definition occurs_at (sep s : str) (n : nat) : bool :=
  str_eqb (firstn (length sep) (skipn n s)) sep.
Definition first_occ (sep s : str) : option nat :=
  find (occurs_at sep s) (seq 0 (S (length s))).

Section Ref.
  Variable t : table.
  Variable sep : str.
  Variable pk : bool.

  Definition ref_lit (x : obj) : obj :=
    match x with
    | OStr s => match lookup t s with Some o => o | None => x end
    | _ => x
    end.
  (* Some (key, value) after parsing; None = not like KEY<sep>VALUE *)
  Definition ref_pair (it : item) : option (obj * obj) :=
    match it with
    | IStr s =>
        match sep, first_occ sep s with
        | _ :: _, Some n =>
            let k := OStr (firstn n s) in
            let v := OStr (skipn (n + length sep) s) in
            Some (if pk then ref_lit k else k, ref_lit v)
        | _, _ => None
        end
    | IPair k v => Some (if pk then ref_lit k else k, ref_lit v)
    end.
  Definition bad_item (it : item) : bool :=
    match ref_pair it with
    | None => true
    | Some (k, _) => negb (hashable k)
    end.
  Fixpoint first_bad (i : nat) (items : list item) : option (nat * item) :=
    match items with
    | [] => None
    | it :: r => if bad_item it then Some (i, it) else first_bad (S i) r
    end.

  (* dictionary semantics stated by lookup, not by insertion:
     keys = first occurrences (under ==) in order; value = that of the LAST equal key *)
  Fixpoint last_value (k : obj) (ps : list (obj * obj)) (dflt : obj) : obj :=
    match ps with
    | [] => dflt
    | (k', v') :: r => last_value k r (if key_eqb k' k then v' else dflt)
    end.
  Fixpoint first_keys (ps : list (obj * obj)) (seen : list obj) : list obj :=
    match ps with
    | [] => []
    | (k, _) :: r => if existsb (fun k' => key_eqb k' k) seen then first_keys r seen
                     else k :: first_keys r (seen ++ [k])
    end.
  Definition ref_dict (ps : list (obj * obj)) : dict :=
    map (fun k => (k, last_value k ps k)) (first_keys ps []).

  Definition ref_pairs (items : list item) : list (obj * obj) :=
    flat_map (fun it => match ref_pair it with Some p => [p] | None => [] end) items.

  Definition ref_result (items : list item) : result :=
    match first_bad 0 items with
    | Some (i, it) => match ref_pair it with None => ErrNotKV i | Some _ => ErrUnhashable i end
    | None => Ok (ref_dict (ref_pairs items))
    end.

  (* strings a correct implementation hands to the parser: str keys (when pk)
     and str values of the items up to and including the first bad one if that
     one is bad only because of its key *)
  Definition ref_item_calls (it : item) : list str :=
    match it with
    | IStr s =>
        match sep, first_occ sep s with
        | _ :: _, Some n => (if pk then [firstn n s] else []) ++ [skipn (n + length sep) s]
        | _, _ => []
        end
    | IPair k v => (if pk then tp_calls k else []) ++ tp_calls v
    end.
  Fixpoint ref_calls (items : list item) : list str :=
    match items with
    | [] => []
    | it :: r => ref_item_calls it ++ (if bad_item it then [] else ref_calls r)
    end.
End Ref.

Definition ok (c : case) : bool :=
  match c with
  | Case sep pk custom t items ores olog trip =>
      res_eqb (ref_result t sep pk items) ores &&
      (if custom then list_eqb str_eqb (ref_calls t sep pk items) olog else true) &&
      Nat.eqb trip 0          (* no name lookup / call / attribute access was evaluated *)
  end.

(* non-trivial: at least one item, and the run exercises a mechanism of the
   property: a string item whose value part contains the separator again, or a
   string the parser rejects, or two equal keys, or an error outcome, or a
   non-string object *)
Definition has_sep_twice (sep : str) (it : item) : bool :=
  match it with
  | IStr s => match split_py sep s with
              | Some (_, v) => match split_py sep v with Some _ => true | None => false end
              | None => false
              end
  | _ => false
  end.
Definition nonstr (x : obj) := match x with OStr _ => false | _ => true end.
Definition nontrivial (c : case) : bool :=
  match c with
  | Case sep pk custom t items ores olog trip =>
      (1 <=? length items) &&
      (existsb (has_sep_twice sep) items
       || existsb (fun e => match snd e with None => true | Some _ => false end) t
       || match ores with Ok d => length d <? length items | _ => true end
       || existsb (fun it => match it with IPair k v => nonstr k || nonstr v | _ => false end) items)
  end.

Definition verdict := verdict3 agree ok nontrivial.
