(* Case_C18_Complete.v — the C18 trace monitor accepts every trace of the model:
   for all sources, conditions and consumption orders, ok (model trace) = true.
   Together with Case_C18_Sound (ok implies the property) and the
   correspondence (implementation trace = model trace on the generated cases)
   this closes the triangle model / monitor / implementation. *)
From Coq Require Import List Arith Bool Lia.
Import ListNotations.
Require Import Aiuti.CaseLib Aiuti.Iter Aiuti.IterInv Aiuti.Case_C18.

Local Arguments Nat.max : simpl never.

Section Complete.
  Variable callable : bool.
  Variable xs : list nat.
  Variable cs : list bool.
  Hypothesis callable_len : callable = true -> length cs = length xs.

  Notation Inv := (Inv callable xs cs).
  Notation run := (run callable xs cs).
  Notation next := (next callable xs cs).
  Notation expk := (expk xs cs).

  Lemma expk_nil_min w c : Nat.min (length xs) (length cs) <= c -> expk w c = [].
  Proof.
    intros H. destruct (Nat.le_ge_cases (length xs) (length cs)).
    - apply expk_nil_data. lia.
    - apply expk_nil_cond. lia.
  Qed.

  Lemma mon_complete ops : forall s,
    Inv s ->
    mon callable ops (fst (run ops s)) (expk true (c1 s)) (expk false (c2 s)) (n s) (b s) = true.
  Proof.
    induction ops as [|sd ops IH]; intros s HI; cbn [Iter.run]; [reflexivity|].
    pose proof (next_spec callable xs cs callable_len sd s HI) as Hn.
    destruct (next sd s) as [r s1].
    assert (HI1 : Inv s1) by (destruct r; apply Hn).
    specialize (IH s1 HI1).
    destruct (run ops s1) as [os s2]. unfold observe. cbn [fst mon] in *.
    assert (Hbn : (if callable then b s1 <=? n s1 else true) = true).
    { destruct HI1 as [_ _ _ _ Han _ _ _ _ _ _]. destruct callable; [apply Nat.leb_le; lia|reflexivity]. }
    destruct r as [x|].
    - destruct Hn as (_ & _ & _ & Hnn & Hlazy & Hbb & Hdd & Hexp & Hoc).
      apply Nat.leb_le in Hnn as Hnn'. apply Nat.leb_le in Hbb as Hbb'.
      rewrite Hnn', Hbb', Hbn. cbn [andb].
      destruct sd; simpl in Hexp, Hoc, Hdd, Hlazy; simpl.
      + rewrite Hexp. rewrite Nat.eqb_refl. cbn [andb].
        assert (Hl : (n s1 <=? Nat.max (n s) (S (d1 s1 - 1))) = true) by (apply Nat.leb_le; lia).
        rewrite Hl. cbn [andb]. rewrite <- Hoc. exact IH.
      + rewrite Hexp. rewrite Nat.eqb_refl. cbn [andb].
        assert (Hl : (n s1 <=? Nat.max (n s) (S (d2 s1 - 1))) = true) by (apply Nat.leb_le; lia).
        rewrite Hl. cbn [andb]. rewrite <- Hoc. exact IH.
    - destruct Hn as (_ & _ & _ & Hfull & Hnn & Hbb & Hexp & Hoc).
      apply Nat.leb_le in Hnn as Hnn'. apply Nat.leb_le in Hbb as Hbb'.
      rewrite Hnn', Hbb', Hbn. cbn [andb].
      destruct sd; simpl in Hexp, Hoc, Hfull; simpl.
      + rewrite Hexp. rewrite <- Hoc, <- (expk_nil_min true (c1 s1) Hfull). exact IH.
      + rewrite Hexp. rewrite <- Hoc, <- (expk_nil_min false (c2 s1) Hfull). exact IH.
  Qed.

  Lemma last_run ops : forall s acc_p acc_e,
    let os := fst (run ops s) in let s' := snd (run ops s) in
    (ops = [] /\ fold_left (fun _ o => pulls_of o) os acc_p = acc_p /\
                 fold_left (fun _ o => evals_of o) os acc_e = acc_e /\ s' = s) \/
    (fold_left (fun _ o => pulls_of o) os acc_p = n s' /\
     fold_left (fun _ o => evals_of o) os acc_e = b s').
  Proof.
    induction ops as [|sd ops IH]; intros s accp acce; cbn [Iter.run].
    - left. simpl. auto.
    - right. destruct (next sd s) as [r s1].
      specialize (IH s1 (n s1) (b s1)).
      destruct (run ops s1) as [os s2]. cbn [fst snd] in *. unfold observe. cbn [fold_left pulls_of evals_of].
      destruct IH as [(-> & Hp & He & ->)|[Hp He]].
      + simpl in *. auto.
      + auto.
  Qed.

  Lemma ok_complete ops :
    ok (CSplit callable xs cs ops (fst (run ops init))
               (plog (snd (run ops init))) (elog (snd (run ops init)))) = true.
  Proof.
    unfold ok.
    pose proof (mon_complete ops init (init_inv callable xs cs callable_len)) as Hm.
    pose proof (run_spec callable xs cs callable_len ops init (init_inv callable xs cs callable_len)) as Hr.
    pose proof (last_run ops init 0 0) as Hl. cbv zeta in Hl.
    destruct (run ops init) as [os s']. cbn [fst snd] in *.
    destruct Hr as (HI & _ & _).
    destruct HI as [Hplog Hn Helog _ _ _ _ _ _ _ _].
    unfold expk, IterInv.expk in Hm. simpl in Hm. rewrite Hm. cbn [andb].
    unfold last_pulls, last_evals.
    assert (Hp : fold_left (fun _ o => pulls_of o) os 0 = n s' /\ fold_left (fun _ o => evals_of o) os 0 = b s').
    { destruct Hl as [(_ & Hp & He & ->)|Hl]; [simpl; auto|exact Hl]. }
    destruct Hp as [-> ->]. rewrite Hplog, Helog.
    unfold nats_eqb. rewrite !list_eqb_refl by apply Nat.eqb_refl.
    rewrite seq_length. apply Nat.leb_le in Hn. rewrite Hn. reflexivity.
  Qed.
End Complete.
