(* BridgeLive.v — termination of the iterator bridges (model Bridge.v):
   no reachable state is stuck before the consumer has finished, `measure` is
   the exact number of non-Tick steps still to be taken (every enabled W/D/C
   step lowers it by one, nothing raises it), enabledness persists until the
   step is taken, hence every schedule made of fair rounds (each containing W,
   D and C at least once; Ticks and repetitions at will) reaches Done within
   `measure (init c)` rounds. *)
From Coq Require Import List Arith Bool Lia.
Import ListNotations.
Require Import Aiuti.Bridge Aiuti.BridgeInv.

Local Arguments firstn : simpl never.

Lemma choice_eq_dec (a b : choice) : {a = b} + {a <> b}.
Proof. decide equality. Qed.

(* ---- no deadlock ------------------------------------------------------------------ *)

Lemma no_deadlock_state c s :
  Good c s -> is_done s = false -> enW s = true \/ enD c s = true \/ enC c s = true.
Proof.
  unfold Good, is_done. destruct (inline c) eqn:IN.
  - intros [_ _ _ _ _ Hk] ND. right; right. unfold enC.
    destruct (cst s); try contradiction; try reflexivity; discriminate.
  - intros [Hpos Hchan Hpst Hwp Hcst Halive Hsync _] ND.
    unfold wp_ok in Hwp. unfold cst_ok in Hcst. unfold enW, enD, enC.
    destruct (wp s) eqn:Ew; try (left; reflexivity).
    + (* WNone *) destruct Hwp as [_ Hk]. right; right. now rewrite Hk.
    + (* WDone *) destruct Hwp as (HR & Hf & Ha).
      destruct (is_async c) eqn:A; cbn.
      * destruct (ready s) as [|x r] eqn:Er; [|right; left; reflexivity].
        right; right.
        destruct (cst s) eqn:Ek; try discriminate; try contradiction; try congruence.
        -- (* CReading: the queue cannot be empty, the sentinel is still on its way *)
           destruct (queue s) eqn:Eq; [|reflexivity]. exfalso.
           unfold chanL, chanR in Hchan. rewrite Ek, Eq, Er, Ew in Hchan. cbn in Hchan.
           rewrite app_nil_r in Hchan.
           destruct (pst s); [congruence| |]; cbn in Hchan; symmetry in Hchan;
             rewrite <- (app_nil_r (map IElem (consumed s))) in Hchan;
             assert (X : In IDone (map IElem (consumed s) ++ [])) by (rewrite <- Hchan; apply in_or_app; right; now left);
             rewrite app_nil_r in X; apply in_map_iff in X as (y & Y & _); discriminate.
        -- (* CAwait *) destruct (Ha eq_refl) as [H|H]; [assumption|contradiction].
      * specialize (Hsync eq_refl).
        right; right.
        destruct (cst s) eqn:Ek; try discriminate; try contradiction; try congruence.
        destruct (queue s) eqn:Eq; [|reflexivity]. exfalso.
        unfold chanL, chanR in Hchan. rewrite Ek, Eq, Hsync, Ew in Hchan. cbn in Hchan.
        rewrite app_nil_r in Hchan.
        destruct (pst s); [congruence| |]; cbn in Hchan; symmetry in Hchan;
          rewrite <- (app_nil_r (map IElem (consumed s))) in Hchan;
          assert (X : In IDone (map IElem (consumed s) ++ [])) by (rewrite <- Hchan; apply in_or_app; right; now left);
          rewrite app_nil_r in X; apply in_map_iff in X as (y & Y & _); discriminate.
Qed.

Lemma no_deadlock_lemma c sch :
  is_done (run c sch) = false ->
  exists ch, ch <> T /\ enabled c (run c sch) ch = true.
Proof.
  intros ND. destruct (no_deadlock_state c _ (good_run c sch) ND) as [H|[H|H]].
  - exists W. split; [discriminate|assumption].
  - exists D. split; [discriminate|assumption].
  - exists C. split; [discriminate|assumption].
Qed.

(* ---- stutter, stability, persistence ------------------------------------------------ *)

Lemma disabled_stutter c s ch : ch <> T -> enabled c s ch = false -> step c s ch = s.
Proof.
  intros NT. destruct ch; cbn; try congruence.
  - unfold enW, stepW. destruct (wp s); try discriminate; reflexivity.
  - unfold enD, stepD. destruct (is_async c); [|reflexivity]. cbn.
    destruct (ready s); [reflexivity|discriminate].
  - unfold enC, stepC. destruct (cst s); try discriminate; try reflexivity.
    + destruct (queue s); [reflexivity|discriminate].
    + intros ->. reflexivity.
    + destruct (wp s); try reflexivity; discriminate.
Qed.

Lemma done_stable c s ch : is_done s = true -> is_done (step c s ch) = true.
Proof.
  unfold is_done. destruct s as [p rd qu co ps fd af k w al tk sv]. cbn.
  destruct k; try discriminate. intros _.
  destruct ch; cbn.
  - unfold stepW. cbn. destruct w as [| | |[x|]| | |]; cbn; try reflexivity.
    + destruct (pull c p); reflexivity.
    + destruct (is_async c); reflexivity.
    + destruct (is_async c); reflexivity.
    + destruct (is_async c); reflexivity.
  - unfold stepD. cbn. destruct (is_async c); [|reflexivity]. destruct rd as [|[it|] r]; reflexivity.
  - reflexivity.
  - unfold stepT, enT. cbn. rewrite !andb_false_r. reflexivity.
Qed.

Lemma done_fold c sch : forall s, is_done s = true -> is_done (fold_left (step c) sch s) = true.
Proof. induction sch as [|ch sch IH]; intros s H; cbn; [assumption|]. apply IH. now apply done_stable. Qed.

Ltac split1 :=
  match goal with
  | |- context [is_async ?c] => destruct (is_async c) eqn:?; cbn in *
  | |- context [inline ?c] => destruct (inline c) eqn:?; cbn in *
  | |- context [pull ?c ?p] => destruct (pull c p) eqn:?; cbn in *
  | |- context [match ?x with _ => _ end] => is_var x; destruct x; cbn in *
  | |- context [if ?x then _ else _] => is_var x; destruct x; cbn in *
  end.
Ltac split_matches := repeat split1.

(* an enabled step stays enabled while other choices are taken *)
Lemma persist c s ch ch' :
  ch <> T -> ch' <> ch -> enabled c s ch = true -> enabled c (step c s ch') ch = true.
Proof.
  intros NT NE EN.
  destruct s as [p rd qu co ps fd af k w al tk sv].
  destruct ch; try congruence; destruct ch'; try congruence;
    unfold enabled, step, stepW, stepD, stepC, stepT, enT, enW, enD, enC, wend in *; cbn in *;
    split_matches; try assumption; try reflexivity; try discriminate; try congruence.
  all: try (destruct rd; [discriminate|reflexivity]).
  all: try (destruct qu; [discriminate|reflexivity]).
  all: try (destruct rd; reflexivity).
  all: try (destruct qu; reflexivity).
Qed.

(* ---- the measure ---------------------------------------------------------------------- *)

Lemma measure_tick c s : measure c (stepT c s) = measure c s.
Proof.
  destruct s as [p rd qu co ps fd af k w al tk sv].
  unfold stepT, enT. cbn.
  destruct (is_async c && match k with CInit | CReading | CAwait => true | _ => false end); [reflexivity|].
  destruct (is_async c && match k with CInlinePull => true | _ => false end); reflexivity.
Qed.

Lemma pull_facts c p :
  p <= delivered c ->
  match pull c p with
  | PElem _ => p < delivered c
  | _ => p = delivered c
  end.
Proof.
  intros L. destruct (pull c p) eqn:E.
  - eapply pull_elem_lt; eauto.
  - assert (delivered c <= p) by (apply pull_end_ge; intros x; rewrite E; discriminate). lia.
  - assert (delivered c <= p) by (apply pull_end_ge; intros x; rewrite E; discriminate). lia.
Qed.

Lemma filter_put_app l x : length (filter is_put (l ++ [x])) = length (filter is_put l) + (if is_put x then 1 else 0).
Proof. rewrite filter_app, app_length. cbn. destruct (is_put x); reflexivity. Qed.

(* every enabled non-Tick step lowers the measure by exactly one *)
Lemma measure_step c s ch :
  Good c s -> ch <> T -> enabled c s ch = true -> S (measure c (step c s ch)) = measure c s.
Proof.
  unfold Good. destruct (inline c) eqn:IN.
  - (* inline *)
    intros [Hwp Hrd Hqu Hal Hpos Hk] NT EN.
    assert (A := inline_async c IN).
    destruct s as [p rd qu co ps fd af k w al tk sv]. cbn in *. subst w rd qu al.
    destruct ch; try congruence; cbn in EN.
    + discriminate.
    + unfold enD in EN. cbn in EN. rewrite andb_false_r in EN. discriminate.
    + assert (PF := pull_facts c p Hpos).
      unfold measure, wrem, drem, crem, cstage, cb_topost, it_toput, rem_elems, step, stepC. cbn. rewrite IN, A. cbn.
      destruct k; cbn in *; try contradiction; try discriminate.
      * lia.
      * destruct (pull c p); cbn; rewrite ?IN; cbn; lia.
  - (* threaded *)
    intros [Hpos Hchan Hpst Hwp Hcst Halive Hsync _] NT EN.
    destruct s as [p rd qu co ps fd af k w al tk sv]. cbn in *.
    assert (PF := pull_facts c p Hpos).
    destruct ch; try congruence; cbn in EN.
    + (* W *)
      unfold measure, wrem, drem, crem, cstage, cb_topost, it_toput, rem_elems, afl, step, stepW, wend, enW in *.
      cbn in *. rewrite IN.
      unfold cst_ok in Hcst; cbn in Hcst.
      unfold wp_ok in Hwp; cbn in Hwp.
      destruct k; try contradiction; cbn in *;
        destruct w as [| | |[x|]| | |]; cbn in *; try discriminate;
        try (destruct (pull c p); cbn);
        destruct (is_async c) eqn:A; cbn; rewrite ?app_length, ?filter_put_app; cbn;
        try lia; try (destruct Hwp as (_ & _ & A'); discriminate).
    + (* D *)
      unfold measure, wrem, drem, crem, cstage, cb_topost, it_toput, rem_elems, afl, step, stepD, enD in *.
      cbn in *. rewrite IN. apply andb_prop in EN as [A EN]. rewrite A. cbn.
      destruct rd as [|[it|] r]; cbn in *; try discriminate; rewrite ?app_length; cbn; lia.
    + (* C *)
      unfold measure, wrem, drem, crem, cstage, cb_topost, it_toput, rem_elems, afl, step, stepC, enC in *.
      cbn in *. rewrite IN.
      destruct k; cbn in *; try discriminate.
      * unfold cst_ok in Hcst. cbn in Hcst. subst w. cbn. rewrite ?IN. cbn. lia.
      * destruct qu as [|[x|] q]; cbn in *; try discriminate; lia.
      * rewrite EN. cbn. lia.
      * destruct w; cbn in *; try discriminate. lia.
      * unfold cst_ok in Hcst. cbn in Hcst. contradiction.
Qed.

Lemma measure_le c s ch : Good c s -> measure c (step c s ch) <= measure c s.
Proof.
  intros G. destruct (choice_eq_dec ch T) as [->|NT].
  - cbn. rewrite measure_tick. lia.
  - destruct (enabled c s ch) eqn:EN.
    + pose proof (measure_step c s ch G NT EN). lia.
    + rewrite (disabled_stutter c s ch NT EN). lia.
Qed.

Lemma measure_fold_le c sch : forall s, Good c s -> measure c (fold_left (step c) sch s) <= measure c s.
Proof.
  induction sch as [|ch sch IH]; intros s G; cbn; [lia|].
  pose proof (measure_le c s ch G). pose proof (IH _ (good_step c s ch G)). lia.
Qed.

Lemma not_done_measure c s : is_done s = false -> 1 <= measure c s.
Proof.
  unfold is_done, measure, crem, cstage. destruct (cst s); try discriminate; intros _;
    try destruct (inline c); lia.
Qed.

(* ---- fair rounds ------------------------------------------------------------------------ *)

Definition fair_round (r : list choice) : Prop := In W r /\ In D r /\ In C r.

Lemma first_occurrence c ch : ch <> T -> forall r s,
  Good c s -> In ch r -> enabled c s ch = true ->
  measure c (fold_left (step c) r s) < measure c s.
Proof.
  intros NT. induction r as [|ch' r IH]; intros s G I EN; [contradiction|]. cbn.
  destruct (choice_eq_dec ch' ch) as [->|NE].
  - pose proof (measure_step c s ch G NT EN).
    pose proof (measure_fold_le c r _ (good_step c s ch G)). lia.
  - destruct I as [->|I]; [congruence|].
    pose proof (measure_le c s ch' G).
    pose proof (IH _ (good_step c s ch' G) I (persist c s ch ch' NT NE EN)). lia.
Qed.

Lemma round_progress c r s :
  Good c s -> is_done s = false -> fair_round r ->
  measure c (fold_left (step c) r s) < measure c s.
Proof.
  intros G ND (IW & ID & IC).
  destruct (no_deadlock_state c s G ND) as [H|[H|H]].
  - apply (first_occurrence c W); auto; discriminate.
  - apply (first_occurrence c D); auto; discriminate.
  - apply (first_occurrence c C); auto; discriminate.
Qed.

Lemma rounds_bound c rounds : forall s,
  Good c s -> Forall fair_round rounds ->
  is_done (fold_left (step c) (concat rounds) s) = true \/
  measure c (fold_left (step c) (concat rounds) s) + length rounds <= measure c s.
Proof.
  induction rounds as [|r rounds IH]; intros s G F; cbn.
  - right. lia.
  - inversion F as [|? ? Fr Frs]; subst. rewrite fold_left_app.
    destruct (is_done s) eqn:DS.
    + left. apply done_fold. now apply done_fold.
    + pose proof (round_progress c r s G DS Fr) as P.
      destruct (IH _ (good_fold c r s G) Frs) as [H|H]; [now left|right]. lia.
Qed.

Lemma measure_init c :
  measure c (init c) =
  if inline c then delivered c + 2
  else if is_async c then 4 * delivered c + 11 else 3 * delivered c + 8.
Proof.
  unfold measure, wrem, drem, crem, cstage, cb_topost, it_toput, rem_elems, afl, init. cbn.
  destruct (inline c) eqn:IN.
  - rewrite (inline_async c IN). cbn. lia.
  - destruct (is_async c); cbn; lia.
Qed.

Lemma bridge_terminates_lemma c rounds :
  Forall fair_round rounds -> measure c (init c) <= length rounds ->
  is_done (run c (concat rounds)) = true.
Proof.
  intros F L. unfold run.
  destruct (rounds_bound c rounds (init c) (good_init c) F) as [H|H]; [assumption|].
  destruct (is_done (fold_left (step c) (concat rounds) (init c))) eqn:E; [reflexivity|].
  apply (not_done_measure c) in E. lia.
Qed.

(* counting version: in ANY schedule the number of enabled non-Tick steps taken is
   measure(init) - measure(end); so at most measure(init) of them ever happen *)
Fixpoint effective (c : cfg) (s : state) (sch : list choice) : nat :=
  match sch with
  | [] => 0
  | ch :: rest =>
      (match ch with T => 0 | _ => if enabled c s ch then 1 else 0 end) + effective c (step c s ch) rest
  end.

Lemma effective_measure c sch : forall s, Good c s ->
  effective c s sch + measure c (fold_left (step c) sch s) = measure c s.
Proof.
  induction sch as [|ch sch IH]; intros s G; cbn; [reflexivity|].
  pose proof (IH _ (good_step c s ch G)) as H.
  destruct (choice_eq_dec ch T) as [->|NT].
  - cbn in *. rewrite measure_tick in H. lia.
  - destruct (enabled c s ch) eqn:EN.
    + pose proof (measure_step c s ch G NT EN). destruct ch; try congruence; lia.
    + rewrite (disabled_stutter c s ch NT EN) in *. destruct ch; try congruence; lia.
Qed.
