(* Case_Buffer.v — case type, [agree] and the trace-walking machinery shared by
   Case_C03 / Case_C07 / Case_C08.  The monitors decide a property on the
   OBSERVED implementation trace + the scripted input alone: they never call
   Buffer.step; what they need to know about the input (which scripted yields
   were accepted by a submitted, still open producer; the clock) is recomputed
   here by the small tracker [trk]. *)
From Coq Require Import List Arith NArith Bool.
Import ListNotations.
Require Import Aiuti.CaseLib Aiuti.Buffer.

(* Oddities the driver can observe and the model never produces (a wait() that
   raised, a spinning loop, ...) are sent as [Hang]; every monitor rejects it. *)
Inductive case := Case (T : N) (evs : list event) (observed : list (list obs)).

Definition nats_eqb := list_eqb Nat.eqb.
Definition obs_eqb (a b : obs) : bool :=
  match a, b with
  | FnStart c s t, FnStart c' s' t' => Nat.eqb c c' && nats_eqb s s' && N.eqb t t'
  | FnEnd c k s, FnEnd c' k' s' => Nat.eqb c c' && Bool.eqb k k' && nats_eqb s s'
  | WaitRet w t n, WaitRet w' t' n' => Nat.eqb w w' && N.eqb t t' && Nat.eqb n n'
  | DaemonEnded, DaemonEnded => true
  | Hang, Hang => true
  | _, _ => false
  end.

(* waiters released by one event.set() wake in an order that depends on how
   many loop iterations each needed to reach event.wait(): compare maximal
   runs of WaitRet as sets (sorted by wid) *)
Fixpoint ins_w (o : obs) (l : list obs) : list obs :=
  match o, l with
  | WaitRet w _ _, WaitRet w' t' k' :: r =>
      if w <=? w' then o :: l else WaitRet w' t' k' :: ins_w o r
  | _, _ => o :: l
  end.
Fixpoint canon (l : list obs) : list obs :=
  match l with
  | [] => []
  | WaitRet w t k :: r => ins_w (WaitRet w t k) (canon r)
  | o :: r => o :: canon r
  end.

Definition traces_eqb (a b : list (list obs)) : bool :=
  list_eqb (fun x y => list_eqb obs_eqb (canon x) (canon y)) a b.

Definition agree (c : case) : bool :=
  match c with Case T evs observed => traces_eqb (trace T evs) observed end.

(* ---- list-as-set helpers ------------------------------------------------ *)
Definition mem (x : nat) (l : list nat) : bool := existsb (Nat.eqb x) l.
Definition subset (a b : list nat) : bool := forallb (fun x => mem x b) a.
Fixpoint nodupb (l : list nat) : bool :=
  match l with [] => true | x :: r => negb (mem x r) && nodupb r end.
Definition minus (a b : list nat) : list nat := filter (fun x => negb (mem x b)) a.

(* ---- input tracker --------------------------------------------------------- *)
Record trk := mktrk {
  k_now : N;
  k_dead : bool;                 (* a Shutdown has been applied: later events are not *)
  k_seen : list nat;             (* pids submitted (Submit / FPut) *)
  k_open : list (nat * bool);    (* asynchronous producers still open: (pid, single) *)
  k_off : list (nat * nat);      (* (pid, arg) handed to the buffer so far *)
  k_wseen : list nat;
  k_pendclear : bool             (* a foreign event.clear() not yet followed by a put *)
}.
Definition trk0 : trk := mktrk 0%N false [] [] [] [] false.

Definition is_open (p : nat) (k : trk) : bool := existsb (fun o => Nat.eqb (fst o) p) (k_open k).
Definition is_single (p : nat) (k : trk) : bool := existsb (fun o => Nat.eqb (fst o) p && snd o) (k_open k).
Definition close (p : nat) (k : trk) : list (nat * bool) := filter (fun o => negb (Nat.eqb (fst o) p)) (k_open k).

Definition submit_accepted (k : trk) (p : nat) : bool := negb (k_dead k) && negb (mem p (k_seen k)).
Definition wait_accepted (k : trk) (w : nat) : bool := negb (k_dead k) && negb (mem w (k_wseen k)).

Definition trk_ev (k : trk) (e : event) : trk :=
  if k_dead k then k else
  match e with
  | Submit p kd | FPut p kd =>
      if mem p (k_seen k) then k else
      mktrk (k_now k) false (k_seen k ++ [p])
            (match kd with Aw => k_open k ++ [(p, true)] | Async => k_open k ++ [(p, false)] | _ => k_open k end)
            (k_off k ++ map (fun x => (p, x)) (imm_args kd)) (k_wseen k) false
  | PYield p x =>
      if is_open p k then
        mktrk (k_now k) false (k_seen k) (if is_single p k then close p k else k_open k)
              (k_off k ++ [(p, x)]) (k_wseen k) (k_pendclear k)
      else k
  | PFail p =>
      if is_open p k then mktrk (k_now k) false (k_seen k) (close p k) (k_off k) (k_wseen k) (k_pendclear k) else k
  | PEnd p =>
      if is_open p k && negb (is_single p k)
      then mktrk (k_now k) false (k_seen k) (close p k) (k_off k) (k_wseen k) (k_pendclear k) else k
  | Advance dt => mktrk (k_now k + dt) false (k_seen k) (k_open k) (k_off k) (k_wseen k) (k_pendclear k)
  | Wait w _ =>
      if mem w (k_wseen k) then k else
      mktrk (k_now k) false (k_seen k) (k_open k) (k_off k) (k_wseen k ++ [w]) (k_pendclear k)
  | Shutdown => mktrk (k_now k) true (k_seen k) (k_open k) (k_off k) (k_wseen k) (k_pendclear k)
  | FClear => mktrk (k_now k) false (k_seen k) (k_open k) (k_off k) (k_wseen k) true
  | FnOk | FnFail | FnOkThenFClear => k
  end.

Definition offered_args (k : trk) : list nat := map snd (k_off k).
Definition args_of_pids (k : trk) (ps : list nat) : list nat :=
  map snd (filter (fun o => mem (fst o) ps) (k_off k)).

(* ---- generic walk over (event, observations of that macro step) ------------ *)
Section Walk.
  Variable X : Type.
  Variable on_ev : trk -> trk -> event -> X -> X.        (* tracker before / after the event *)
  Variable on_ob : trk -> obs -> X -> option X.         (* None = reject *)

  Fixpoint walk_obs (k : trk) (os : list obs) (x : X) : option X :=
    match os with
    | [] => Some x
    | o :: r => match on_ob k o x with Some x' => walk_obs k r x' | None => None end
    end.

  Fixpoint walk (evs : list event) (obss : list (list obs)) (k : trk) (x : X) : option (trk * X) :=
    match evs, obss with
    | [], [] => Some (k, x)
    | e :: er, os :: osr =>
        let k' := trk_ev k e in
        match walk_obs k' os (on_ev k k' e x) with
        | Some x' => walk er osr k' x'
        | None => None
        end
    | _, _ => None
    end.
End Walk.

(* ---- "the tail allows it": the program ends with
        ... every asynchronous producer closed ... ; FnOk ; Advance d>=T ; FnOk
   and contains no Shutdown. *)
Fixpoint trk_run (k : trk) (evs : list event) : trk :=
  match evs with [] => k | e :: r => trk_run (trk_ev k e) r end.

Definition settle_tail (T : N) (tl : list event) : bool :=
  match tl with
  | [FnOk; Advance d; FnOk] => (T <=? d)%N
  | _ => false
  end.

Definition settled (T : N) (evs : list event) : bool :=
  let n := length evs in
  (3 <=? n) &&
  settle_tail T (skipn (n - 3) evs) &&
  let k := trk_run trk0 (firstn (n - 3) evs) in
  negb (k_dead k) && match k_open k with [] => true | _ => false end.

Definition settled_waits (T : N) (evs : list event) : bool :=
  settled T evs && negb (k_pendclear (trk_run trk0 (firstn (length evs - 3) evs))).

Definition is_foreign (e : event) : bool :=
  match e with FClear | FPut _ _ | FnOkThenFClear => true | _ => false end.
Definition own_thread (evs : list event) : bool := negb (existsb is_foreign evs).
Definition is_imm_ev (e : event) : bool :=
  match e with
  | Submit _ k => is_imm k
  | Advance _ | Wait _ _ | FnOk | FnFail | Shutdown => true
  | _ => false
  end.
Definition imm_only (evs : list event) : bool := forallb is_imm_ev evs.

Definition count_obs (f : obs -> bool) (t : list (list obs)) : nat :=
  length (filter f (concat t)).
Definition is_start o := match o with FnStart _ _ _ => true | _ => false end.
Definition is_okend o := match o with FnEnd _ true _ => true | _ => false end.
Definition is_failend o := match o with FnEnd _ false _ => true | _ => false end.
Definition is_wret o := match o with WaitRet _ _ _ => true | _ => false end.
Definition is_ended o := match o with DaemonEnded => true | _ => false end.

(* ---- the serial monitor: state = (is a call open?, number of calls started) -- *)
Fixpoint serial (open : bool) (n : nat) (tr : list obs) : option (bool * nat) :=
  match tr with
  | [] => Some (open, n)
  | FnStart c set _ :: r =>
      if open then None else
      match set with
      | [] => None
      | _ => if Nat.eqb c n then serial true (S n) r else None
      end
  | FnEnd c _ _ :: r => if open && Nat.eqb (S c) n then serial false n r else None
  | _ :: r => serial open n r
  end.

(* ---- sub-monitor of C07: shutdown.  Before the first Shutdown event no DaemonEnded is
        observed; the step of the first Shutdown shows exactly [DaemonEnded]; every later step
        shows nothing at all. ------------------------------------------------------------- *)
Definition has_ended (o : list obs) : bool := existsb is_ended o.
Definition all_empty (obss : list (list obs)) : bool :=
  forallb (fun o => match o with [] => true | _ => false end) obss.
Fixpoint shut_ok (evs : list event) (obss : list (list obs)) : bool :=
  match evs, obss with
  | [], [] => true
  | Shutdown :: er, o :: osr =>
      match o with [DaemonEnded] => Nat.eqb (length er) (length osr) && all_empty osr | _ => false end
  | _ :: er, o :: osr => negb (has_ended o) && shut_ok er osr
  | _, _ => false
  end.

(* ---- sub-monitor of C03: call sets.  Every FnEnd closes the open call, with the same number
        and the very set the call was started with (the set is not changed under the call); no
        FnStart while a call is open.  State = the open call. ------------------------------ *)
Fixpoint csets (open : option (nat * list nat)) (tr : list obs) : option (option (nat * list nat)) :=
  match tr with
  | [] => Some open
  | FnStart c set _ :: r => match open with None => csets (Some (c, set)) r | Some _ => None end
  | FnEnd c _ set :: r =>
      match open with
      | Some (c', set') => if Nat.eqb c c' && nats_eqb set set' then csets None r else None
      | None => None
      end
  | _ :: r => csets open r
  end.

(* arguments of the calls of a flat trace that ended without error *)
Definition okargs (tr : list obs) : list nat :=
  flat_map (fun o => match o with FnEnd _ true set => set | _ => [] end) tr.
