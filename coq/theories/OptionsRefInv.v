(* OptionsRefInv.v — refinement proofs: the small reference semantics of Options.v against the full
   component models, on the translated scripts of OptionsRef.v. *)
From Coq Require Import List Arith Bool NArith Lia.
Import ListNotations.
Require Import Aiuti.Options Aiuti.OptionsRef.

Local Arguments N.add : simpl never.
Local Arguments N.leb : simpl never.
Local Arguments N.max : simpl never.

(* ====================================================================================== *)
(* buffer: buf_run = Buffer.run on Submit (Plain) / Advance / FnOk, for every timeout and script *)
(* ====================================================================================== *)

Lemma set_add_nonempty x l : F.set_add x l <> [].
Proof. destruct l as [|y r]; simpl; [discriminate|]. destruct (x <? y); [discriminate|]. destruct (x =? y); discriminate. Qed.

Lemma as_set_snoc acc a : as_set (acc ++ [a]) = F.set_add a (as_set acc).
Proof. unfold as_set, F.set_addl. now rewrite fold_left_app. Qed.

Lemma as_set_nonempty acc : acc <> [] -> as_set acc <> [].
Proof.
  intros H. destruct (exists_last H) as [acc' [a ->]]. rewrite as_set_snoc. apply set_add_nonempty.
Qed.

Lemma set_addl_one a ins : F.set_addl [a] ins = F.set_add a ins.
Proof. reflexivity. Qed.

Record Rb (T : N) (n : nat) (now : N) (cur : option (N * list nat)) (X : F.state) : Prop := mkRb {
  rb_q : F.q X = [];
  rb_unf : F.unfinished X = 0;
  rb_ws : F.waiters X = [];
  rb_tmo : F.tmo X = T;
  rb_now : F.now X = now;
  rb_seen : forall p, In p (F.seen X) -> p < n;
  rb_dm : F.dm X = match cur with
                   | None => F.DIdle
                   | Some (last, acc) => F.DAwait (as_set acc) (last + T)%N
                   end;
  rb_cur : match cur with
           | None => True
           | Some (last, acc) => acc <> [] /\ (now <= last + T)%N
           end
}.

Lemma fresh_pid seen n : (forall p, In p seen -> p < n) -> existsb (Nat.eqb n) seen = false.
Proof.
  intros H. destruct (existsb (Nat.eqb n) seen) eqn:E; [|reflexivity].
  apply existsb_exists in E as [p [Hp E]]. apply Nat.eqb_eq in E. subst. specialize (H _ Hp). lia.
Qed.

Lemma rb_init T : Rb T 0 0%N None (F.init T).
Proof. constructor; simpl; try reflexivity; try contradiction; exact I. Qed.

Ltac fproj := cbn [F.dm F.q F.unfinished F.evset F.waiters F.tmo F.now F.callno F.nok F.seen F.wseen F.lastfire F.gh].
Ltac fsetters :=
  cbv [F.set_seen F.set_event F.set_q F.set_gh F.set_now F.set_lastfire F.set_calls F.load_gh F.set_dm F.set_waiters
       F.dm F.q F.unfinished F.evset F.waiters F.tmo F.now F.callno F.nok F.seen F.wseen F.lastfire F.gh].
Ltac fcomp :=
  cbn [F.step F.is_dead F.do_put F.do_advance F.do_fn_end F.run_func F.run_func0 F.release F.end_round
       F.set_seen F.set_event F.set_q F.set_gh F.set_now F.set_lastfire F.set_calls F.on_put F.start_round
       F.continue_round F.mk_prod F.load_all F.p_fin F.p_yields F.finishes F.yields_of F.is_imm F.imm_args
       F.imm_fails F.load_one F.load_gh F.set_dm F.wants_cancel F.join_pass F.set_waiters F.p_wait
       F.is_onevent F.is_joining
       F.dm F.q F.unfinished F.evset F.waiters F.tmo F.now F.callno F.nok F.seen F.wseen F.lastfire F.gh
       F.single F.acts F.pid F.closed
       app map filter length Nat.sub Nat.eqb andb existsb fst snd]; fsetters.

Lemma step_submit T n now cur X a :
  Rb T n now cur X ->
  let r := F.step X (F.Submit n (F.Plain a)) in
  snd r = [] /\
  Rb T (S n) now (Some (now, match cur with Some (_, acc) => acc ++ [a] | None => [a] end)) (fst r).
Proof.
  intros [Hq Hu Hw Ht Hn Hs Hd Hc] r.
  destruct X as [dm q unf ev ws tmo nw cn nok seen wseen lf gh]. cbn [F.dm F.q F.unfinished F.waiters F.tmo F.now F.seen] in *. subst.
  assert (Hs' : forall p, In p (seen ++ [n]) -> p < S n).
  { intros p Hp. apply in_app_or in Hp as [Hp|[<-|[]]]; [apply Hs in Hp|]; lia. }
  destruct cur as [[last acc]|]; unfold r, F.step, F.is_dead, F.do_put; cbn [F.dm F.seen]; rewrite (fresh_pid _ _ Hs).
  - split; [reflexivity|].
    constructor; [reflexivity|reflexivity|reflexivity|reflexivity|reflexivity|exact Hs'| |].
    + rewrite as_set_snoc. reflexivity.
    + split; [destruct acc; discriminate|lia].
  - split; [reflexivity|].
    constructor; [reflexivity|reflexivity|reflexivity|reflexivity|reflexivity|exact Hs'| |].
    + reflexivity.
    + split; [discriminate|lia].
Qed.

Lemma step_advance_idle T n now X dt :
  Rb T n now None X ->
  let r := F.step X (F.Advance dt) in
  snd r = [] /\ Rb T n (now + dt)%N None (fst r).
Proof.
  intros [Hq Hu Hw Ht Hn Hs Hd Hc] r.
  destruct X as [dm q unf ev ws tmo nw cn nok seen wseen lf gh]. cbn [F.dm F.q F.unfinished F.waiters F.tmo F.now F.seen] in *. subst.
  unfold r. split; [reflexivity|].
  constructor; [reflexivity|reflexivity|reflexivity|reflexivity|reflexivity|exact Hs|reflexivity|exact I].
Qed.

Lemma step_advance_keep T n now last acc X dt :
  Rb T n now (Some (last, acc)) X -> (last + T <=? now + dt)%N = false ->
  let r := F.step X (F.Advance dt) in
  snd r = [] /\ Rb T n (now + dt)%N (Some (last, acc)) (fst r).
Proof.
  intros [Hq Hu Hw Ht Hn Hs Hd Hc] E r.
  destruct X as [dm q unf ev ws tmo nw cn nok seen wseen lf gh]. cbn [F.dm F.q F.unfinished F.waiters F.tmo F.now F.seen] in *. subst.
  unfold r, F.step, F.is_dead, F.do_advance. cbn [F.dm F.now]. rewrite E.
  split; [reflexivity|].
  constructor; [reflexivity|reflexivity|reflexivity|reflexivity|reflexivity|exact Hs|reflexivity|].
  destruct Hc as [Hc1 Hc2]. split; [assumption|]. apply N.leb_gt in E. lia.
Qed.

Lemma step_advance_flush T n now last acc X dt :
  Rb T n now (Some (last, acc)) X -> (last + T <=? now + dt)%N = true ->
  let r1 := F.step X (F.Advance dt) in
  let r2 := F.step (fst r1) F.FnOk in
  fobs_flushes (snd r1) = [((last + T)%N, as_set acc)] /\
  (exists ins, F.dm (fst r1) = F.DRun ins) /\
  fobs_flushes (snd r2) = [] /\ Rb T n (now + dt)%N None (fst r2).
Proof.
  intros [Hq Hu Hw Ht Hn Hs Hd Hc] E r1 r2.
  destruct X as [dm q unf ev ws tmo nw cn nok seen wseen lf gh]. cbn [F.dm F.q F.unfinished F.waiters F.tmo F.now F.seen] in *. subst.
  destruct Hc as [Hc1 Hc2]. pose proof (as_set_nonempty acc Hc1) as Hne.
  unfold r2, r1, F.step, F.is_dead, F.do_advance. cbn [F.dm F.now]. rewrite E.
  rewrite (N.max_r now (last + T)%N Hc2).
  destruct (as_set acc) as [|x ins] eqn:Eset; [congruence|].
  split; [reflexivity|]. split; [eexists; reflexivity|]. split; [reflexivity|].
  constructor; [reflexivity|reflexivity|reflexivity|reflexivity|reflexivity|exact Hs|reflexivity|exact I].
Qed.

Lemma fobs_flushes_app a b : fobs_flushes (a ++ b) = fobs_flushes a ++ fobs_flushes b.
Proof. unfold fobs_flushes. apply flat_map_app. Qed.

Lemma frun_cons X e l :
  snd (F.run X (e :: l)) = snd (F.step X e) :: snd (F.run (fst (F.step X e)) l).
Proof. cbn [F.run]. destruct (F.step X e) as [X1 o]. cbn [fst snd]. now destruct (F.run X1 l). Qed.

Lemma buf_sim T : forall sc n now cur X, Rb T n now cur X ->
  fobs_flushes (concat (snd (F.run X (buf_translate_from X n sc)))) =
  map (fun f => (fst f, as_set (snd f))) (buf_run T sc now cur).
Proof.
  induction sc as [|[a|dt] r IH]; intros n now cur X HR; cbn [buf_translate_from buf_run].
  - reflexivity.
  - destruct (step_submit T n now cur X a HR) as [H1 H2].
    rewrite frun_cons. cbn [concat]. rewrite fobs_flushes_app, H1. cbn [fobs_flushes flat_map app].
    rewrite (IH _ _ _ _ H2). now destruct cur as [[last acc]|].
  - destruct cur as [[last acc]|].
    + destruct (last + T <=? now + dt)%N eqn:E.
      * destruct (step_advance_flush T n now last acc X dt HR E) as (H1 & [ins H2] & H3 & H4).
        rewrite H2. rewrite !frun_cons. cbn [concat]. rewrite !fobs_flushes_app, H1, H3.
        rewrite (IH _ _ _ _ H4). reflexivity.
      * destruct (step_advance_keep T n now last acc X dt HR E) as [H1 H2].
        rewrite (rb_dm _ _ _ _ _ H2). rewrite frun_cons. cbn [concat]. rewrite fobs_flushes_app, H1.
        rewrite (IH _ _ _ _ H2). reflexivity.
    + destruct (step_advance_idle T n now X dt HR) as [H1 H2].
      rewrite (rb_dm _ _ _ _ _ H2). rewrite frun_cons. cbn [concat]. rewrite fobs_flushes_app, H1.
      rewrite (IH _ _ _ _ H2). reflexivity.
Qed.

(* for every timeout and every script: the function calls of the full buffer model on the translated
   script are the flushes of buf_run — same instants, and each call receives the set of the arguments
   buf_run lists *)
Lemma buffer_refines : forall (T : N) (sc : list bufev),
  full_flushes T sc = map (fun f => (fst f, as_set (snd f))) (buf_run T sc 0%N None).
Proof. intros T sc. unfold full_flushes, F.trace, buf_translate. apply buf_sim. apply rb_init. Qed.
