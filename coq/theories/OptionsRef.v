(* OptionsRef.v — the small reference semantics of Options.v (what C15's correspondence compares the
   three decorator forms with) against the FULL component models Batcher.v / Buffer.v (the models of
   C03/C04/C07-C11).  Executable definitions only; proofs in OptionsRefInv.v.

   The harness of C15 is "closed loop": its batch function, once released by a [BFin b] event,
   yields one result for every key it was given and returns; its buffered function returns at once.
   So a C15 script is translated to events of the full model by looking at the FULL model's own
   state (which keys batch b holds / whether the function has just been started):
     BCall k  ->  Call k None                         (default key: key = argument)
     BFin b   ->  BYield b k (Val b) for every item of running batch b, in order, then BFinish b
                  (nothing when no batch b is running)
     Adv dt   ->  Advance dt
     Sub a    ->  Submit p (Plain a), p = number of submissions so far (a fresh producer id)
     BAdv dt  ->  Advance dt, followed by FnOk when that advance started the function.
   Units: Batcher.v / Buffer.v never mention a concrete duration — time enters through the
   configuration, [Advance dt], + and <= only — so they are run here with the clock counted in
   fifths of a tick, like Options.v (the default batch_timeout 0.05 s = 256 fifths is then an integer). *)
From Coq Require Import List Arith Bool NArith.
Import ListNotations.
Require Import Aiuti.Options.
Require Aiuti.Batcher Aiuti.Buffer.

Module B := Aiuti.Batcher.
Module F := Aiuti.Buffer.

(* ---- batcher --------------------------------------------------------------- *)

Definition to_cfg (c : bcfg) : B.cfg := B.mkcfg (cB c) (cC c) (cbt c) (cR c).

Definition fin_events (X : B.state) (b : nat) : list B.event :=
  match B.find_batch X b with
  | Some bt => map (fun it => B.BYield b (B.it_key it) (B.Val b)) (B.b_items bt) ++ [B.BFinish b]
  | None => []
  end.

Definition tr_ev (X : B.state) (x : bev) : list B.event :=
  match x with
  | BCall k => [B.Call k None]
  | BFin b => fin_events X b
  | Adv dt => [B.Advance dt]
  end.

Fixpoint translate_from (c : B.cfg) (X : B.state) (sc : list bev) : list B.event :=
  match sc with
  | [] => []
  | x :: r => let evs := tr_ev X x in evs ++ translate_from c (snd (B.run_from c X evs)) r
  end.

Definition translate (c : bcfg) (sc : list bev) : list B.event :=
  translate_from (to_cfg c) (B.init (to_cfg c)) sc.

(* what the full model lets the harness observe, in the shape of Options.btrace *)
Definition obs_starts (os : list B.obs) : list (N * list nat) :=
  flat_map (fun o => match o with B.BatchStart _ items t => [(t, map fst items)] | _ => [] end) os.

Definition obs_dones (os : list B.obs) : list (nat * (N * nat)) :=
  flat_map (fun o => match o with B.CallerDone c (B.Ret v) t => [(c, (t, v))] | _ => [] end) os.

(* anything that is not "batch started" / "caller got the value" (exceptions, dead tasks) *)
Definition obs_odd (os : list B.obs) : bool :=
  existsb (fun o => match o with
                    | B.BatchStart _ _ _ => false
                    | B.CallerDone _ (B.Ret _) _ => false
                    | _ => true end) os.

Definition full_starts (c : bcfg) (sc : list bev) : list (N * list nat) :=
  obs_starts (concat (fst (B.run (to_cfg c) (translate c sc)))).

Definition full_trace (c : bcfg) (sc : list bev) : btrace * bool :=
  let '(tr, X) := B.run (to_cfg c) (translate c sc) in
  let os := concat tr in
  ((obs_starts os, map (fun cl => assoc cl (obs_dones os)) (seq 0 (length (B.callers X)))),
   obs_odd os || B.fuel_out X).

(* ---- buffer ----------------------------------------------------------------- *)

Fixpoint buf_translate_from (X : F.state) (n : nat) (sc : list bufev) : list F.event :=
  match sc with
  | [] => []
  | Sub a :: r =>
      let e := F.Submit n (F.Plain a) in
      e :: buf_translate_from (fst (F.step X e)) (S n) r
  | BAdv dt :: r =>
      let X1 := fst (F.step X (F.Advance dt)) in
      match F.dm X1 with
      | F.DRun _ => F.Advance dt :: F.FnOk :: buf_translate_from (fst (F.step X1 F.FnOk)) n r
      | _ => F.Advance dt :: buf_translate_from X1 n r
      end
  end.

Definition buf_translate (T : N) (sc : list bufev) : list F.event :=
  buf_translate_from (F.init T) 0 sc.

Definition fobs_flushes (os : list F.obs) : list (N * list nat) :=
  flat_map (fun o => match o with F.FnStart _ set t => [(t, set)] | _ => [] end) os.

(* the calls of the buffered function in the full model: (instant, set of arguments) *)
Definition full_flushes (T : N) (sc : list bufev) : list (N * list nat) :=
  fobs_flushes (concat (F.trace T (buf_translate T sc))).

(* a list of arguments as the set the function receives (strictly sorted, as Buffer.v has it) *)
Definition as_set (l : list nat) : list nat := F.set_addl l [].
