(* FLockSound.v — model-free soundness of the trace monitors of C12 and C13: what it
   means for an OBSERVED trace that the monitor accepted it, in terms of the abstract
   Lock/RLock spec (FLockSpec.v) only — no reference to the model FLock.v's semantics. *)
From Coq Require Import List Arith NArith Bool Lia.
Import ListNotations.
Require Import Aiuti.CaseLib Aiuti.FLock Aiuti.FLockSpec.
Require Aiuti.Case_C12 Aiuti.Case_C13.

Module S12.
Import Case_C12.

Lemma result_eqb_eq a b : result_eqb a b = true -> a = b.
Proof. unfold result_eqb. intros H. apply Nat.eqb_eq in H. destruct a, b; cbn in H; congruence. Qed.

Lemma bools_eqb_eq a b : bools_eqb a b = true -> a = b.
Proof. apply list_eqb_eq. intros x y. apply Bool.eqb_prop. Qed.

Section Sound.
Variables (nT : nat) (cfg : list (bool * tmo)).
Let reent := cfg_reent cfg.
Let dflt := cfg_dflt cfg.

Definition fdcount (st : sstate) : nat := match st with Some _ => 1 | None => 0 end.
Definition locked_exp (st : sstate) : list bool := map (spec_is_locked st) (seq 0 (length cfg)).
Definition probe_exp (st : sstate) : list bool :=
  map (fun p => snd (spec_acquire st (fst p) (snd p) (reent (snd p)))) (all_pairs nT (length cfg)).

(* elapsed-time clause of the property for one call *)
Definition time_clause (c : call) (el : N) : Prop :=
  match c with
  | CAcq o _ blk tm poll _ => time_ok (dflt o) blk tm poll el = true
  | CRel _ _ => el = 0%N
  end.

(* the observations conform to the abstract spec along the observed call sequence *)
Inductive conforms : sstate -> list (tid * call) -> list sobs -> Prop :=
| cf_nil st ops : conforms st ops []
| cf_block st t c ops lk el fds fi pr pf :
    snd (spec_call reent dflt st t c) = RWouldBlock -> lk = locked_exp st ->
    conforms st ((t, c) :: ops) [(RWouldBlock, lk, el, fds, fi, pr, pf)]
| cf_step st t c ops r lk el fds fi pr pf obs st1 :
    spec_call reent dflt st t c = (st1, r) -> r <> RWouldBlock ->
    lk = locked_exp st1 -> fds = fdcount st1 -> pr = probe_exp st1 -> time_clause c el ->
    conforms st1 ops obs ->
    conforms st ((t, c) :: ops) ((r, lk, el, fds, fi, pr, pf) :: obs).

Definition clean (observed : list sobs) : Prop :=
  forall x, In x observed -> match x with (_, _, _, _, fi, _, pf) => fi = 0 /\ pf = 0 end.

(* the contract along the calls that were observed *)
Fixpoint contract (st : sstate) (ops : list (tid * call)) (n : nat) : bool :=
  match n, ops with
  | S n', (t, c) :: rest =>
      spec_ok_call st t c &&
      let '(st1, r) := spec_call reent dflt st t c in
      match r with RWouldBlock => true | _ => contract st1 rest n' end
  | _, _ => true
  end.

Lemma spec_acquire_false st t o r : snd (spec_acquire st t o r) = false -> fst (spec_acquire st t o r) = st.
Proof.
  unfold spec_acquire. destruct st as [[[o1 t1] d1]|]; cbn; [|discriminate]. destruct (_ && _); cbn; [discriminate|auto].
Qed.

Lemma spec_no_not_true d m blk tm : spec_no d m blk tm <> RTrue.
Proof. unfold spec_no. destruct (waits_forever d blk tm), m; discriminate. Qed.

Theorem mon_sound : forall ops observed st,
  mon nT cfg st ops observed = true -> contract st ops (length observed) = true -> clean observed ->
  conforms st ops observed.
Proof.
  induction ops as [|[t c] rest IH]; intros observed st Hm Hc Hcl.
  - destruct observed; [constructor|discriminate].
  - destruct observed as [|[[[[[[r lk] el] fds] fi] pr] pf] obs']; [constructor|].
    cbn [mon] in Hm. cbn [contract length] in Hc. apply andb_prop in Hc. destruct Hc as [Hok Hc].
    rewrite Hok in Hm. cbn [negb] in Hm.
    assert (Hfi : fi = 0 /\ pf = 0) by (apply (Hcl (r, lk, el, fds, fi, pr, pf)); now left).
    destruct Hfi as [-> ->].
    assert (Hcl' : clean obs') by (intros x Hx; apply Hcl; now right).
    assert (After : forall st1 rr, spec_call reent dflt st t c = (st1, rr) -> rr = r -> r <> RWouldBlock -> time_clause c el ->
               bools_eqb lk (map (spec_is_locked st1) (seq 0 (length cfg))) &&
               Nat.eqb fds (match st1 with Some _ => 1 | None => 0 end) &&
               (let expd := map (fun p => snd (spec_acquire st1 (fst p) (snd p) (cfg_reent cfg (snd p)))) (all_pairs nT (length cfg)) in
                if Nat.eqb 0 0 then bools_eqb pr expd else implb_list pr expd) &&
               mon nT cfg st1 rest obs' = true ->
               conforms st ((t, c) :: rest) ((r, lk, el, fds, 0, pr, 0) :: obs')).
    { intros st1 rr Esp -> Hnw Htc A. cbn [Nat.eqb] in A.
      apply andb_prop in A. destruct A as [A A4]. apply andb_prop in A. destruct A as [A A3].
      apply andb_prop in A. destruct A as [A1 A2].
      apply bools_eqb_eq in A1, A3. apply Nat.eqb_eq in A2.
      eapply cf_step; eauto. apply IH; auto.
      rewrite Esp in Hc. destruct r; auto; congruence. }
    destruct c as [o m blk tm poll skip|o force].
    + fold reent dflt in Hm. cbn [spec_call] in *.
      destruct (spec_acquire st t o (reent o)) as [st1 b] eqn:Esp.
      destruct r.
      * (* RTrue *) apply andb_prop in Hm. destruct Hm as [Hm A]. apply andb_prop in Hm. destruct Hm as [Hb Ht]. subst b.
        apply (After st1 RTrue); auto. discriminate.
      * (* RFalse *) apply andb_prop in Hm. destruct Hm as [Hm A]. apply andb_prop in Hm. destruct Hm as [Hr Ht].
        destruct b; cbn [Nat.leb andb] in Hr; [discriminate|]. rewrite orb_false_r in Hr. apply result_eqb_eq in Hr.
        pose proof (spec_acquire_false st t o (reent o)) as Z. rewrite Esp in Z. cbn in Z. rewrite (Z eq_refl) in *.
        apply (After st (spec_no (dflt o) m blk tm)); auto. discriminate.
      * (* RTimeout *) apply andb_prop in Hm. destruct Hm as [Hm A]. apply andb_prop in Hm. destruct Hm as [Hr Ht].
        destruct b; cbn [Nat.leb andb] in Hr; [discriminate|]. rewrite orb_false_r in Hr. apply result_eqb_eq in Hr.
        pose proof (spec_acquire_false st t o (reent o)) as Z. rewrite Esp in Z. cbn in Z. rewrite (Z eq_refl) in *.
        apply (After st (spec_no (dflt o) m blk tm)); auto. discriminate.
      * (* ROSErr *) apply andb_prop in Hm. destruct Hm as [Hm A]. apply andb_prop in Hm. destruct Hm as [Hr Ht].
        destruct b; cbn [Nat.leb andb] in Hr; [discriminate|]. rewrite orb_false_r in Hr. apply result_eqb_eq in Hr.
        pose proof (spec_acquire_false st t o (reent o)) as Z. rewrite Esp in Z. cbn in Z. rewrite (Z eq_refl) in *.
        apply (After st (spec_no (dflt o) m blk tm)); auto. discriminate.
      * (* RNone *) apply andb_prop in Hm. destruct Hm as [Hm A]. apply andb_prop in Hm. destruct Hm as [Hr Ht].
        destruct b; cbn [Nat.leb andb] in Hr; [discriminate|]. rewrite orb_false_r in Hr. apply result_eqb_eq in Hr.
        pose proof (spec_acquire_false st t o (reent o)) as Z. rewrite Esp in Z. cbn in Z. rewrite (Z eq_refl) in *.
        apply (After st (spec_no (dflt o) m blk tm)); auto. discriminate.
      * (* RRuntime *) apply andb_prop in Hm. destruct Hm as [Hm A]. apply andb_prop in Hm. destruct Hm as [Hr Ht].
        destruct b; cbn [Nat.leb andb] in Hr; [discriminate|]. rewrite orb_false_r in Hr. apply result_eqb_eq in Hr.
        pose proof (spec_acquire_false st t o (reent o)) as Z. rewrite Esp in Z. cbn in Z. rewrite (Z eq_refl) in *.
        apply (After st (spec_no (dflt o) m blk tm)); auto. discriminate.
      * (* RWouldBlock *) apply andb_prop in Hm. destruct Hm as [Hm A]. apply andb_prop in Hm. destruct Hm as [Hm A2].
        apply andb_prop in Hm. destruct Hm as [Hb Hr]. destruct b; [discriminate|]. apply result_eqb_eq in Hr.
        destruct obs'; [|discriminate]. apply bools_eqb_eq in A2.
        apply cf_block; auto. cbn [spec_call]. rewrite Esp. cbn. exact Hr.
      * (* ROutOfFuel *) apply andb_prop in Hm. destruct Hm as [Hm A]. apply andb_prop in Hm. destruct Hm as [Hr Ht].
        destruct b; cbn [Nat.leb andb] in Hr; [discriminate|]. rewrite orb_false_r in Hr. apply result_eqb_eq in Hr.
        pose proof (spec_acquire_false st t o (reent o)) as Z. rewrite Esp in Z. cbn in Z. rewrite (Z eq_refl) in *.
        apply (After st (spec_no (dflt o) m blk tm)); auto. discriminate.
    + apply andb_prop in Hm. destruct Hm as [Hm A]. apply andb_prop in Hm. destruct Hm as [Hr Ht].
      apply result_eqb_eq in Hr. subst r. apply N.eqb_eq in Ht.
      apply (After (spec_release st o force) RNone); auto. discriminate.
Qed.

End Sound.

(* in the shape of Case_C12.ok *)
Theorem monitor_sound_C12_lemma :
  forall nT cfg fl ops observed km,
    ok (CSeq nT cfg fl ops observed km) = true ->
    contract cfg None ops (length observed) = true -> clean observed ->
    km = 0 /\ conforms nT cfg None ops observed /\
    (length observed = length ops \/ exists x rest, rev observed = x :: rest /\ fst (fst (fst (fst (fst (fst x))))) = RWouldBlock).
Proof.
  intros nT cfg fl ops observed km H Hc Hcl. unfold ok in H.
  apply andb_prop in H. destruct H as [H H3]. apply andb_prop in H. destruct H as [H1 H2].
  apply Nat.eqb_eq in H2. split; auto. split; [apply mon_sound; auto|].
  apply orb_prop in H3. destruct H3 as [H3|H3]; [left; now apply Nat.eqb_eq|right].
  destruct (rev observed) as [|[[[[[[r lk] el] fds] fi] pr] pf] rest]; [discriminate|].
  destruct r; try discriminate. eexists. eexists. split; reflexivity.
Qed.
End S12.

Module S13.
Import Case_C13.

(* after the kill: with nobody else around a fresh non-blocking acquire succeeded at once
   (and again later); while a survivor held the lock it was refused (no overlap with the
   survivor) and it succeeded once the survivor had released; a survivor that was waiting
   obtained the lock *)
Theorem monitor_sound_C13_lemma :
  forall reent dflt prog scen wb vops vres died w_held probe1 probe2,
    ok (CCrash reent dflt prog scen wb vops vres died w_held probe1 probe2) = true ->
    (scen = 0 -> probe1 = true /\ probe2 = true) /\
    (scen = 1 -> probe1 = false /\ probe2 = true) /\
    (2 <= scen -> w_held = true /\ probe1 = false /\ probe2 = true).
Proof.
  intros reent dflt prog scen wb vops vres died w_held probe1 probe2 H. unfold ok in H.
  destruct scen as [|[|n]].
  - apply andb_prop in H. destruct H. repeat split; auto; try discriminate; lia.
  - apply andb_prop in H. destruct H as [A B]. destruct probe1; [discriminate|]. repeat split; auto; try discriminate; lia.
  - apply andb_prop in H. destruct H as [H B]. apply andb_prop in H. destruct H as [A C]. destruct probe1; [discriminate|].
    repeat split; auto; try discriminate.
Qed.
End S13.
