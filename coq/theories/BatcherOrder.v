(* BatcherOrder.v — C10: a batch is closed only because it is full or because its
   batch_timeout expired: every item of a later batch (and of the open batch)
   arrived at or after the spawn instant of every earlier batch.  With
   [dispatch_deadline] (spawn instant = last arrival + batch_timeout unless the
   batch was full) this is "calls arriving less than batch_timeout apart share a
   batch until it is full".  Invariant [OInv] over the model Batcher.v. *)
From Coq Require Import List Arith NArith Bool Lia ZifyBool ZifyNat ZifyN.
Import ListNotations.
Require Import Aiuti.Batcher Aiuti.BatcherLift Aiuti.BatcherLimits Aiuti.BatcherTime.

Local Arguments N.add : simpl never.
Local Arguments N.leb : simpl never.
Local Arguments N.max : simpl never.
Local Arguments Nat.ltb : simpl never.
Local Arguments Nat.leb : simpl never.

(* spawn log ordered: items of later batches arrived no earlier than the spawn of earlier ones *)
Fixpoint ordered_spawn (l : list (list item * N)) : Prop :=
  match l with
  | [] => True
  | (_, sp) :: r => (forall its2 sp2 y, In (its2, sp2) r -> In y its2 -> (sp <= it_t y)%N) /\ ordered_spawn r
  end.

Lemma ordered_snoc l its sp :
  ordered_spawn l -> (forall its1 sp1 y, In (its1, sp1) l -> In y its -> (sp1 <= it_t y)%N) ->
  ordered_spawn (l ++ [(its, sp)]).
Proof.
  induction l as [|[its0 sp0] r IH]; simpl; intros H Hn.
  - split; auto. intros ? ? ? [].
  - destruct H as [H1 H2]. split.
    + intros its2 sp2 y Hin Hy. apply in_app_or in Hin as [Hin|[Hin|[]]]; eauto.
      injection Hin as <- <-. apply (Hn its0 sp0 y); auto.
    + apply IH; auto. intros its1 sp1 y Hin Hy. apply (Hn its1 sp1 y); auto.
Qed.

Lemma ordered_split l : forall pre its1 sp1 post,
  ordered_spawn l -> l = pre ++ (its1, sp1) :: post ->
  forall its2 sp2 y, In (its2, sp2) post -> In y its2 -> (sp1 <= it_t y)%N.
Proof.
  induction l as [|[its0 sp0] r IH]; intros pre its1 sp1 post H E; [destruct pre; discriminate|].
  destruct pre as [|p pre]; simpl in E.
  - injection E as <- <- <-. destruct H as [H _]. exact H.
  - injection E as _ E. destruct H as [_ H]. eapply IH; eauto.
Qed.

Record OInv (s : state) : Prop := {
  O_ord : ordered_spawn (g_spawn s);
  O_after : forall its sp y, In (its, sp) (g_spawn s) -> In y (coll_items s) -> (sp <= it_t y)%N
}.

Definition same_O (s s' : state) : Prop := g_spawn s' = g_spawn s /\ coll s' = coll s.

Lemma same_O_inv s s' : same_O s s' -> OInv s -> OInv s'.
Proof. intros [E1 E2] []. constructor; unfold coll_items in *; rewrite ?E1, ?E2; auto. Qed.

Lemma same_O_refl s : same_O s s.
Proof. split; reflexivity. Qed.

Lemma same_O_trans s1 s2 s3 : same_O s1 s2 -> same_O s2 s3 -> same_O s1 s3.
Proof. intros [A1 A2] [B1 B2]. split; congruence. Qed.

Lemma start_batch_O its s : same_O s (fst (start_batch its s)).
Proof. split; reflexivity. Qed.

Lemma release_slot_O s : same_O s (fst (release_slot s)).
Proof. unfold release_slot. destruct (waiting s); split; reflexivity. Qed.

Lemma resolve_O c k f o s : same_O s (resolve c k f o s).
Proof. unfold resolve. destruct (0 <? c_rt c)%N; split; reflexivity. Qed.

Lemma fanout_O c l o : forall s, same_O s (fst (fanout c l o s)).
Proof.
  induction l as [|[k f] r IH]; intros s; simpl; [apply same_O_refl|].
  unfold set_fut. destruct (is_done s f); simpl; [apply same_O_refl|].
  eapply same_O_trans; [apply resolve_O | apply IH].
Qed.

Lemma wake_O s : same_O s (fst (wake s)).
Proof. unfold wake. destruct (wake_from _ _ _ _). split; reflexivity. Qed.

(* the open batch (all of it) is spawned now *)
Lemma dispatch_O c its s :
  TInv c s -> OInv s -> coll s = None ->
  (forall its1 sp1 y, In (its1, sp1) (g_spawn s) -> In y its -> (sp1 <= it_t y)%N) ->
  OInv (fst (dispatch its s)).
Proof.
  intros T O C Hn. unfold dispatch. cbn [free set_spawn waiting].
  assert (H : OInv (set_spawn s (g_spawn s ++ [(its, now s)]))).
  { constructor; simpl.
    - apply ordered_snoc; auto. apply (O_ord _ O).
    - unfold coll_items. simpl. rewrite C. intros ? ? ? _ []. }
  destruct (0 <? free s).
  - eapply same_O_inv; [|exact H].
    match goal with |- same_O _ (fst (start_batch its ?s1)) => pose proof (start_batch_O its s1) as [E1 E2] end.
    split; [rewrite E1|rewrite E2]; reflexivity.
  - eapply same_O_inv; [|exact H]. split; reflexivity.
Qed.

Lemma take_O c it s :
  TInv c s -> OInv s -> it_t it = now s -> OInv (fst (take c it s)).
Proof.
  intros T O Ht. unfold take.
  set (its := match coll s with Some (its0, _) => its0 ++ [it] | None => [it] end).
  assert (Hits : its = coll_items s ++ [it]).
  { unfold its, coll_items. destruct (coll s) as [[? ?]|]; reflexivity. }
  assert (Hn : forall its1 sp1 y, In (its1, sp1) (g_spawn s) -> In y its -> (sp1 <= it_t y)%N).
  { intros its1 sp1 y Hin Hy. rewrite Hits in Hy. apply in_app_or in Hy as [Hy|[<-|[]]].
    - eapply (O_after _ O); eauto.
    - apply (T_spawn _ _ T) in Hin as [_ Hin]. lia. }
  destruct (length its <? maxb s).
  - constructor; simpl; [apply (O_ord _ O)|]. unfold coll_items. simpl. intros its1 sp1 y Hin Hy. eauto.
  - apply (dispatch_O c).
    + destruct T. constructor; simpl; auto. discriminate.
    + constructor; simpl; [apply (O_ord _ O)|]. unfold coll_items. simpl. intros ? ? ? _ [].
    + reflexivity.
    + exact Hn.
Qed.

Lemma do_call_O c a ko m s : TInv c s -> OInv s -> OInv (fst (do_call c a ko m s)).
Proof.
  intros T O. unfold do_call. destruct (lookup (ret s) _) as [f|].
  - destruct (lookup (fdone s) f) as [[o t]|]; simpl; destruct O; constructor; auto.
  - apply (take_O c); [| |reflexivity].
    + destruct T. constructor; auto.
    + destruct O. constructor; auto.
Qed.

Definition LFTO (c : cfg) (s : state) : Prop := LFT c s /\ OInv s.

Lemma call_LFTO c a ko m s : LFTO c s -> LFTO c (fst (do_call c a ko m s)) /\ True.
Proof.
  intros [L O]. split; auto. split.
  - apply (call_LFT c a ko m s L).
  - destruct L as (_ & _ & T). now apply do_call_O.
Qed.

Lemma wake_LFTO c s : LFTO c s -> LFTO c (fst (wake s)) /\ True.
Proof.
  intros [L O]. split; auto. split; [apply (wake_LFT c s L)|]. eapply same_O_inv; [apply wake_O | exact O].
Qed.

Lemma do_chain_O c a ko m s : LInv c s -> Fifo s -> TInv c s -> OInv s -> OInv (fst (do_chain c a ko m s)).
Proof.
  intros I F T O.
  destruct (lift_chain c (LFTO c) (fun _ _ _ => True) (fun _ _ => Logic.I) (fun _ _ _ _ _ _ _ => Logic.I) (call_LFTO c)
              a ko m s) as [[_ H] _]; [exact (conj (conj I (conj F T)) O) | exact H].
Qed.

Lemma do_calls_O c l s : LInv c s -> Fifo s -> TInv c s -> OInv s -> OInv (fst (do_calls c l s)).
Proof.
  intros I F T O.
  destruct (lift_calls c (LFTO c) (fun _ _ _ => True) (fun _ _ => Logic.I) (fun _ _ _ _ _ _ _ => Logic.I) (call_LFTO c)
              l s) as [[_ H] _]; [exact (conj (conj I (conj F T)) O) | exact H].
Qed.

Lemma wake_all_O c s : LInv c s -> Fifo s -> TInv c s -> OInv s -> OInv (fst (wake_all c s)).
Proof.
  intros I F T O.
  destruct (lift_wake_all c (LFTO c) (fun _ _ _ => True) (fun _ _ => Logic.I) (fun _ _ _ _ _ _ _ => Logic.I)
              (call_LFTO c) (wake_LFTO c) s) as [[_ H] _]; [exact (conj (conj I (conj F T)) O) | exact H].
Qed.

Lemma end_batch_O c B o s :
  LInv c s -> Fifo s -> In B (running s) -> TInv c s -> OInv s -> OInv (fst (end_batch c B o s)).
Proof.
  intros I F HB T O. destruct (end_batch_mid c B o s I F HB) as (I1 & F1 & I2 & F2).
  unfold end_batch. set (s0 := set_running s _) in *.
  assert (T0 : TInv c s0) by (destruct T; constructor; auto).
  assert (O0 : OInv s0) by (destruct O; constructor; auto).
  pose proof (release_slot_T c s0 T0) as T1. pose proof (release_slot_O s0) as S1.
  destruct (release_slot s0) as [s1 o1]. simpl in *.
  pose proof (fanout_T c (b_futs B) o s1 T1) as T2. pose proof (fanout_O c (b_futs B) o s1) as S2.
  destruct (fanout c (b_futs B) o s1) as [s2 died]. simpl in *.
  assert (O2 : OInv s2) by (eapply same_O_inv; [exact S2|]; eapply same_O_inv; [exact S1 | exact O0]).
  pose proof (wake_all_O c s2 I2 F2 T2 O2) as O3. destruct (wake_all c s2) as [s3 o3]. exact O3.
Qed.

Lemma fire_at_O c t s : LInv c s -> TInv c s -> OInv s -> OInv (fst (fire_at t s)).
Proof.
  intros I T O. unfold fire_at.
  set (s1 := set_now s (N.max (now s) t)). set (s2 := set_rtimers _ _).
  assert (O2 : OInv s2) by (destruct O; constructor; auto).
  assert (Ec : coll s2 = coll s) by reflexivity.
  destruct (coll s2) as [[its dl]|] eqn:C; [|exact O2].
  destruct (dl <=? t)%N; [|exact O2].
  assert (T2 : forall its sp, In (its, sp) (g_spawn s2) -> spawn_ok c its sp /\ (sp <= now s2)%N).
  { simpl. intros its0 sp H. apply (T_spawn _ _ T) in H as [H1 H2]. split; auto. lia. }
  set (s3 := set_coll _ None).
  (* dispatch_O only uses T_spawn of its TInv argument through take; here we inline it *)
  unfold dispatch. cbn [free set_spawn waiting].
  assert (H : OInv (set_spawn s3 (g_spawn s3 ++ [(its, now s3)]))).
  { constructor; simpl.
    - apply ordered_snoc; [apply (O_ord _ O)|]. intros its1 sp1 y Hin Hy.
      apply (O_after _ O its1 sp1 y Hin). unfold coll_items. rewrite <- Ec. exact Hy.
    - unfold coll_items. simpl. intros ? ? ? _ []. }
  destruct (0 <? free s3).
  - eapply same_O_inv; [|exact H].
    match goal with |- same_O _ (fst (start_batch its ?s4)) => pose proof (start_batch_O its s4) as [E1 E2] end.
    split; [rewrite E1|rewrite E2]; reflexivity.
  - eapply same_O_inv; [|exact H]. split; reflexivity.
Qed.

Lemma advance_O c fuel target : forall s,
  LInv c s -> Fifo s -> TInv c s -> (now s <= target)%N -> OInv s -> OInv (fst (advance fuel target s)).
Proof.
  induction fuel as [|n IH]; intros s I F T Hnt O; simpl.
  - destruct O; constructor; auto.
  - destruct (next_deadline s) as [t|] eqn:ND; [|destruct O; constructor; auto].
    destruct (next_deadline_min s t ND) as [Hin Hmin].
    destruct (t <=? target)%N eqn:E; [|destruct O; constructor; auto].
    destruct (fire_at_LF c t s I F) as [I1 F1].
    pose proof (fire_at_T c t s I T Hmin) as T1. pose proof (fire_at_O c t s I T O) as O1.
    destruct (fire_at_measure t s Hin) as (_ & _ & M3).
    destruct (fire_at t s) as [s1 o1]. simpl in *.
    assert (Hn1 : (now s1 <= target)%N) by lia.
    specialize (IH s1 I1 F1 T1 Hn1 O1). destruct (advance n target s1) as [s2 o2]. exact IH.
Qed.

Lemma step_O c s e : LInv c s -> Fifo s -> TInv c s -> OInv s -> OInv (fst (step c s e)).
Proof.
  intros I F T O. destruct e as [a ko|a ko m|l|dt|b k r|b e|b|cid|n]; simpl.
  - now apply (do_call_O c).
  - now apply do_chain_O.
  - now apply do_calls_O.
  - apply (advance_O c); auto. lia.
  - destruct (find_batch s b) as [B|] eqn:FB; auto.
    apply find_batch_some in FB as [HB Hid].
    assert (I0 : LInv c (log_bev s b (EvYield k r))) by (destruct I; constructor; auto).
    destruct (lookup (b_futs B) k) as [f|].
    + set (s0 := set_batch_futs _ b _).
      assert (I1 : LInv c s0) by (apply set_batch_futs_L; exact I0).
      assert (F1 : Fifo s0) by exact F.
      assert (T1 : TInv c s0) by (apply set_batch_futs_T, log_bev_T, T).
      assert (O1 : OInv s0) by (destruct O; constructor; auto).
      unfold set_fut. destruct (is_done s0 f).
      * apply end_batch_O; auto. subst b. apply in_set_batch_futs; auto.
      * pose proof (resolve_same c k f (of_res r) s0) as S2.
        apply wake_all_O; [eapply same_L_inv | eapply same_L_fifo | apply resolve_T |
                           eapply same_O_inv; [apply resolve_O|]]; eauto.
    + apply end_batch_O; auto; [now apply log_bev_T | destruct O; constructor; auto].
  - destruct (find_batch s b) as [B|] eqn:FB; auto. apply find_batch_some in FB as [HB Hid].
    apply end_batch_O; auto; [destruct I; constructor; auto | now apply log_bev_T | destruct O; constructor; auto].
  - destruct (find_batch s b) as [B|] eqn:FB; auto. apply find_batch_some in FB as [HB Hid].
    apply end_batch_O; auto; [destruct I; constructor; auto | now apply log_bev_T | destruct O; constructor; auto].
  - unfold cancel_caller. destruct (nth_error _ _) as [cl|]; auto. destruct (cl_st cl); auto.
    destruct O; constructor; auto.
  - destruct O; constructor; auto.
Qed.

Lemma run_from_O c evs : forall s,
  Forall ev_ok evs -> LInv c s -> Fifo s -> TInv c s -> OInv s -> OInv (snd (run_from c s evs)).
Proof.
  induction evs as [|e r IH]; intros s He I F T O; simpl; auto.
  inversion He; subst.
  destruct (step_LF c s e H1 I F) as [I1 F1]. pose proof (step_T c s e I F T) as T1.
  pose proof (step_O c s e I F T O) as O1.
  destruct (step c s e) as [s1 o]. simpl in *.
  specialize (IH s1 H2 I1 F1 T1 O1). destruct (run_from c s1 r) as [tr s2]. exact IH.
Qed.

(* ---- the C10 statement ----------------------------------------------------------------- *)

(* Every item of a later batch, and of the open batch, arrived at or after the spawn
   instant sp1 of an earlier batch its1.  Since sp1 = last arrival of its1 + batch_timeout
   unless its1 was full ([dispatch_deadline]), a call that arrives less than
   batch_timeout after the last item of a batch that is not full joins that batch. *)
Lemma split_only_when_full_or_timed_out_lemma c evs :
  cfg_ok c -> Forall ev_ok evs ->
  let s := snd (run c evs) in
  (forall pre its1 sp1 post its2 sp2 y,
     g_spawn s = pre ++ (its1, sp1) :: post -> In (its2, sp2) post -> In y its2 -> (sp1 <= it_t y)%N) /\
  (forall its1 sp1 y, In (its1, sp1) (g_spawn s) -> In y (coll_items s) -> (sp1 <= it_t y)%N) /\
  (forall its1 sp1 x, In (its1, sp1) (g_spawn s) -> last_of its1 x -> length its1 < it_max x ->
     sp1 = (it_t x + c_bt c)%N).
Proof.
  intros Hc He s. destruct (init_LF c Hc) as [I0 F0].
  assert (O : OInv s).
  { apply run_from_O; auto; [apply init_T|]. constructor; simpl; auto. intros ? ? ? []. }
  destruct (run_LFT c evs Hc He) as (_ & _ & T). fold s in T.
  split; [|split].
  - intros pre its1 sp1 post its2 sp2 y E. eapply ordered_split; eauto. apply (O_ord _ O).
  - apply (O_after _ O).
  - intros its1 sp1 x Hin [[pre Ep] _] Hlen.
    destruct (T_spawn _ _ T its1 sp1 Hin) as [(x' & [[pre' Ep'] _] & Hsp) _].
    assert (x' = x). { rewrite Ep in Ep'. apply app_inj_tail in Ep'. destruct Ep'. congruence. }
    subst x'. rewrite Hsp. unfold spawn_due. destruct (it_max x <=? length its1) eqn:E; [lia|reflexivity].
Qed.
