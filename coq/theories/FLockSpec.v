(* FLockSpec.v — the abstract Lock/RLock contract FileLock is compared with
   (C12).  Definitions only; the refinement proof is in FLockSeq.v.

   The whole state of the lock path is ONE optional triple: which object holds
   it, on behalf of which thread, how deep.  "At most one object holds the
   path" is therefore true by construction.                                   *)
From Coq Require Import List Arith Bool NArith.
Import ListNotations.
Require Import Aiuti.FLock.

Definition sstate := option (oid * tid * nat).

Definition held (st : sstate) (o : oid) : option (tid * nat) :=
  match st with
  | Some (o', t, d) => if Nat.eqb o o' then Some (t, d) else None
  | None => None
  end.

Definition spec_is_locked (st : sstate) (o : oid) : bool :=
  match held st o with Some _ => true | None => false end.

(* acquire by thread t on object o (reent = is o a reentrant lock):
   free path -> (t,1), True;  o held by t and reentrant -> depth+1, True;
   otherwise nothing changes and the answer is "no" *)
Definition spec_acquire (st : sstate) (t : tid) (o : oid) (reent : bool) : sstate * bool :=
  match st with
  | None => (Some (o, t, 1), true)
  | Some (o', t', d) =>
      if Nat.eqb o o' && Nat.eqb t t' && reent then (Some (o, t, S d), true) else (st, false)
  end.

(* release / release(force) on o: unheld -> no-op; force or depth 1 -> freed; else depth-1 *)
Definition spec_release (st : sstate) (o : oid) (force : bool) : sstate :=
  match st with
  | Some (o', t', d) =>
      if Nat.eqb o o' then (if force || (d <=? 1) then None else Some (o', t', pred d)) else st
  | None => None
  end.

(* the contract: a thread releases only a lock it holds, or an unheld one *)
Definition spec_may_release (st : sstate) (t : tid) (o : oid) : bool :=
  match held st o with Some (t', _) => Nat.eqb t t' | None => true end.

(* how "no" is reported: block forever / False / TimeoutError *)
Definition waits_forever (dflt : tmo) (blk : bool) (tm : tmo) : bool :=
  match tm with
  | TNone => blk && match dflt with TVal _ => false | _ => true end
  | TNeg => blk
  | TVal _ => false
  end.

Definition spec_no (dflt : tmo) (m : amode) (blk : bool) (tm : tmo) : result :=
  if waits_forever dflt blk tm then RWouldBlock else fail_result m.

(* one call against the spec: new state and the result the caller must see *)
Definition spec_call (reent : oid -> bool) (dflt : oid -> tmo) (st : sstate) (t : tid) (c : call)
  : sstate * result :=
  match c with
  | CAcq o m blk tm _ _ =>
      let '(st', b) := spec_acquire st t o (reent o) in
      (st', if b then RTrue else spec_no (dflt o) m blk tm)
  | CRel o force => (spec_release st o force, RNone)
  end.

Definition spec_ok_call (st : sstate) (t : tid) (c : call) : bool :=
  match c with CRel o _ => spec_may_release st t o | _ => true end.
