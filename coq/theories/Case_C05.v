(* Case_C05.v — verdict of the C05 check on one case. *)
From Coq Require Import List Arith NArith Bool.
Import ListNotations.
Require Import Aiuti.CaseLib Aiuti.Cache Aiuti.CacheMon Aiuti.Case_Cache.

Definition ok (c : case) : bool := match c with Case n tbl tr => ok_C05 n tbl tr end.
(* non-trivial: somebody waited (a proxy finished, time passed, a cancellation was delivered or a
   loop stopped) in a run with at least one invocation *)
Definition nontrivial (c : case) : bool :=
  match c with Case n tbl tr =>
    (1 <=? count is_istart tr)
    && ((1 <=? count is_proxy tr) || (1 <=? count is_adv tr) || (1 <=? count is_cancel tr)) end.
Definition verdict := verdict3 agree ok nontrivial.
