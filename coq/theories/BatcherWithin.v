(* BatcherWithin.v — C10: inside a batch, consecutive items arrived less than
   batch_timeout apart and the batch was not yet full after each non-last item
   (limit in force when that item arrived).  Needs batch_timeout > 0.  Invariant
   [WB] over the model Batcher.v; used by the completeness proof of ok_C10. *)
From Coq Require Import List Arith NArith Bool Lia ZifyBool ZifyNat ZifyN.
Import ListNotations.
Require Import Aiuti.Batcher Aiuti.BatcherLift Aiuti.BatcherLimits Aiuti.BatcherTime Aiuti.BatcherOrder.

Local Arguments N.add : simpl never.
Local Arguments N.leb : simpl never.
Local Arguments N.max : simpl never.
Local Arguments Nat.ltb : simpl never.
Local Arguments Nat.leb : simpl never.

Fixpoint within_p (c : cfg) (pos : nat) (l : list item) : Prop :=
  match l with
  | x :: ((y :: _) as r) => (it_t y < it_t x + c_bt c)%N /\ S pos < it_max x /\ within_p c (S pos) r
  | _ => True
  end.

Lemma within_snoc c y : forall l pos,
  within_p c pos l ->
  (forall pre x, l = pre ++ [x] -> (it_t y < it_t x + c_bt c)%N /\ pos + length l < it_max x) ->
  within_p c pos (l ++ [y]).
Proof.
  induction l as [|x r IH]; intros pos H Hl; simpl; auto.
  destruct r as [|z r'].
  - simpl. destruct (Hl [] x eq_refl) as [A B]. simpl in B. split; auto. split; auto. lia.
  - simpl in H. destruct H as (A & B & C). simpl. split; auto. split; auto.
    apply (IH (S pos)); auto. intros pre x' E. destruct (Hl (x :: pre) x') as [D1 D2]; [simpl; now rewrite E|].
    split; auto. simpl in D2. simpl. lia.
Qed.

Record WB (c : cfg) (s : state) : Prop := {
  W_coll : within_p c 0 (coll_items s);
  W_spawn : forall its sp, In (its, sp) (g_spawn s) -> within_p c 0 its
}.

Lemma same_O_WB c s s' : same_O s s' -> WB c s -> WB c s'.
Proof. intros [E1 E2] []. constructor; unfold coll_items in *; rewrite ?E1, ?E2; auto. Qed.

Lemma dispatch_WB c its s : WB c s -> coll s = None -> within_p c 0 its -> WB c (fst (dispatch its s)).
Proof.
  intros W C Hw. unfold dispatch. cbn [free set_spawn waiting].
  assert (H : WB c (set_spawn s (g_spawn s ++ [(its, now s)]))).
  { constructor; simpl.
    - unfold coll_items. simpl. now rewrite C.
    - intros its' sp Hin. apply in_app_or in Hin as [Hin|[Hin|[]]]; [eapply (W_spawn _ _ W); eauto|].
      now injection Hin as <- _. }
  destruct (0 <? free s).
  - eapply same_O_WB; [|exact H].
    match goal with |- same_O _ (fst (start_batch its ?s1)) => pose proof (start_batch_O its s1) as [E1 E2] end.
    split; [rewrite E1|rewrite E2]; reflexivity.
  - eapply same_O_WB; [|exact H]. split; reflexivity.
Qed.

Lemma take_WB c it s :
  (0 < c_bt c)%N -> TInv c s -> WB c s -> it_t it = now s -> WB c (fst (take c it s)).
Proof.
  intros Hbt T W Ht. unfold take.
  set (its := match coll s with Some (its0, _) => its0 ++ [it] | None => [it] end).
  assert (Hits : its = coll_items s ++ [it]).
  { unfold its, coll_items. destruct (coll s) as [[? ?]|]; reflexivity. }
  assert (Hw : within_p c 0 its).
  { rewrite Hits. apply within_snoc; [apply (W_coll _ _ W)|]. intros pre x E.
    unfold coll_items in E. destruct (coll s) as [[its0 dl]|] eqn:C; [|destruct pre; discriminate].
    destruct (T_coll _ _ T _ _ C) as (x' & [[pre' E'] _] & Hlen & Hdl & _ & _ & Hlt).
    assert (x' = x). { rewrite E in E'. apply app_inj_tail in E'. destruct E'. congruence. }
    subst x'. specialize (Hlt Hbt). split; [lia|]. unfold coll_items. rewrite C. simpl. lia. }
  destruct (length its <? maxb s).
  - constructor; simpl; [unfold coll_items; simpl; exact Hw | apply (W_spawn _ _ W)].
  - apply dispatch_WB; auto. constructor; simpl; [exact Logic.I | apply (W_spawn _ _ W)].
Qed.

Lemma do_call_WB c a ko m s : (0 < c_bt c)%N -> TInv c s -> WB c s -> WB c (fst (do_call c a ko m s)).
Proof.
  intros Hbt T W. unfold do_call. destruct (lookup (ret s) _) as [f|].
  - destruct (lookup (fdone s) f) as [[o t]|]; simpl; destruct W; constructor; auto.
  - apply take_WB; auto; [destruct T; constructor; auto | destruct W; constructor; auto].
Qed.

Section Lifts.
  Variable c : cfg.
  Hypothesis Hbt : (0 < c_bt c)%N.

  Definition LFTW (s : state) : Prop := LFT c s /\ WB c s.

  Lemma call_LFTW a ko m s : LFTW s -> LFTW (fst (do_call c a ko m s)) /\ True.
  Proof using Hbt.
    intros [L W]. split; auto. split; [apply (call_LFT c a ko m s L)|].
    destruct L as (_ & _ & T). now apply do_call_WB.
  Qed.

  Lemma wake_LFTW s : LFTW s -> LFTW (fst (wake s)) /\ True.
  Proof.
    intros [L W]. split; auto. split; [apply (wake_LFT c s L)|]. eapply same_O_WB; [apply wake_O | exact W].
  Qed.

  Lemma do_chain_WB a ko m s : LInv c s -> Fifo s -> TInv c s -> WB c s -> WB c (fst (do_chain c a ko m s)).
  Proof using Hbt.
    intros I F T W.
    destruct (lift_chain c LFTW (fun _ _ _ => True) (fun _ _ => Logic.I) (fun _ _ _ _ _ _ _ => Logic.I) call_LFTW
                a ko m s) as [[_ H] _]; [exact (conj (conj I (conj F T)) W) | exact H].
  Qed.

  Lemma do_calls_WB l s : LInv c s -> Fifo s -> TInv c s -> WB c s -> WB c (fst (do_calls c l s)).
  Proof using Hbt.
    intros I F T W.
    destruct (lift_calls c LFTW (fun _ _ _ => True) (fun _ _ => Logic.I) (fun _ _ _ _ _ _ _ => Logic.I) call_LFTW
                l s) as [[_ H] _]; [exact (conj (conj I (conj F T)) W) | exact H].
  Qed.

  Lemma wake_all_WB s : LInv c s -> Fifo s -> TInv c s -> WB c s -> WB c (fst (wake_all c s)).
  Proof using Hbt.
    intros I F T W.
    destruct (lift_wake_all c LFTW (fun _ _ _ => True) (fun _ _ => Logic.I) (fun _ _ _ _ _ _ _ => Logic.I)
                call_LFTW wake_LFTW s) as [[_ H] _]; [exact (conj (conj I (conj F T)) W) | exact H].
  Qed.

  Lemma end_batch_WB B o s :
    LInv c s -> Fifo s -> In B (running s) -> TInv c s -> WB c s -> WB c (fst (end_batch c B o s)).
  Proof using Hbt.
    intros I F HB T W. destruct (end_batch_mid c B o s I F HB) as (I1 & F1 & I2 & F2).
    unfold end_batch. set (s0 := set_running s _) in *.
    assert (T0 : TInv c s0) by (destruct T; constructor; auto).
    assert (W0 : WB c s0) by (destruct W; constructor; auto).
    pose proof (release_slot_T c s0 T0) as T1. pose proof (release_slot_O s0) as S1.
    destruct (release_slot s0) as [s1 o1]. simpl in *.
    pose proof (fanout_T c (b_futs B) o s1 T1) as T2. pose proof (fanout_O c (b_futs B) o s1) as S2.
    destruct (fanout c (b_futs B) o s1) as [s2 died]. simpl in *.
    assert (W2 : WB c s2) by (eapply same_O_WB; [exact S2|]; eapply same_O_WB; [exact S1 | exact W0]).
    pose proof (wake_all_WB s2 I2 F2 T2 W2) as W3. destruct (wake_all c s2) as [s3 o3]. exact W3.
  Qed.

  Lemma fire_at_WB t s : WB c s -> WB c (fst (fire_at t s)).
  Proof.
    intros W. unfold fire_at.
    set (s1 := set_now s (N.max (now s) t)). set (s2 := set_rtimers _ _).
    assert (W2 : WB c s2) by (destruct W; constructor; auto).
    assert (Ec : coll s2 = coll s) by reflexivity.
    destruct (coll s2) as [[its dl]|] eqn:C; [|exact W2].
    destruct (dl <=? t)%N; [|exact W2].
    apply dispatch_WB.
    - destruct W. constructor; simpl; auto.
    - reflexivity.
    - pose proof (W_coll _ _ W) as H. unfold coll_items in H. rewrite <- Ec in H. exact H.
  Qed.

  Lemma advance_WB fuel target : forall s, WB c s -> WB c (fst (advance fuel target s)).
  Proof.
    induction fuel as [|n IH]; intros s W; simpl; [destruct W; constructor; auto|].
    destruct (next_deadline s) as [t|]; [|destruct W; constructor; auto].
    destruct (t <=? target)%N; [|destruct W; constructor; auto].
    pose proof (fire_at_WB t s W) as W1. destruct (fire_at t s) as [s1 o1].
    specialize (IH s1 W1). destruct (advance n target s1) as [s2 o2]. exact IH.
  Qed.

  Lemma step_WB s e : LInv c s -> Fifo s -> TInv c s -> WB c s -> WB c (fst (step c s e)).
  Proof using Hbt.
    intros I F T W. destruct e as [a ko|a ko m|l|dt|b k r|b e|b|cid|n]; simpl.
    - now apply do_call_WB.
    - now apply do_chain_WB.
    - now apply do_calls_WB.
    - now apply advance_WB.
    - destruct (find_batch s b) as [B|] eqn:FB; auto.
      apply find_batch_some in FB as [HB Hid].
      assert (I0 : LInv c (log_bev s b (EvYield k r))) by (destruct I; constructor; auto).
      destruct (lookup (b_futs B) k) as [f|].
      + set (s0 := set_batch_futs _ b _).
        assert (I1 : LInv c s0) by (apply set_batch_futs_L; exact I0).
        assert (F1 : Fifo s0) by exact F.
        assert (T1 : TInv c s0) by (apply set_batch_futs_T, log_bev_T, T).
        assert (W1 : WB c s0) by (destruct W; constructor; auto).
        unfold set_fut. destruct (is_done s0 f).
        * apply end_batch_WB; auto. subst b. apply in_set_batch_futs; auto.
        * pose proof (resolve_same c k f (of_res r) s0) as S2.
          apply wake_all_WB; [eapply same_L_inv | eapply same_L_fifo | apply resolve_T |
                              eapply same_O_WB; [apply resolve_O|]]; eauto.
      + apply end_batch_WB; auto; [now apply log_bev_T | destruct W; constructor; auto].
    - destruct (find_batch s b) as [B|] eqn:FB; auto. apply find_batch_some in FB as [HB Hid].
      apply end_batch_WB; auto; [destruct I; constructor; auto | now apply log_bev_T | destruct W; constructor; auto].
    - destruct (find_batch s b) as [B|] eqn:FB; auto. apply find_batch_some in FB as [HB Hid].
      apply end_batch_WB; auto; [destruct I; constructor; auto | now apply log_bev_T | destruct W; constructor; auto].
    - unfold cancel_caller. destruct (nth_error _ _) as [cl|]; auto. destruct (cl_st cl); auto.
      destruct W; constructor; auto.
    - destruct W; constructor; auto.
  Qed.
End Lifts.

Lemma init_WB c : WB c (init c).
Proof. constructor; simpl; [exact Logic.I | intros ? ? []]. Qed.
