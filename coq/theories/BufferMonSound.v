(* BufferMonSound.v — what the walk parts of the C03 and C07 trace monitors mean, model-free:
   acceptance of an (input script, observed trace) pair implies a readable
   statement about that pair.  Nothing here mentions Buffer.step; the tracker
   [trk] is a function of the script alone. *)
From Coq Require Import List Arith NArith Bool Lia.
Import ListNotations.
Require Import Aiuti.CaseLib Aiuti.Buffer Aiuti.BufferCore Aiuti.Case_Buffer Aiuti.Case_C03 Aiuti.BufferMon.
Require Aiuti.Case_C07.

(* ---- list-as-set helpers -------------------------------------------------------------------- *)
Lemma mem_in x l : mem x l = true <-> In x l.
Proof.
  unfold mem. rewrite existsb_exists. split.
  - intros (y & Hin & E). apply Nat.eqb_eq in E. subst. exact Hin.
  - intros H. exists x. split; [exact H|apply Nat.eqb_refl].
Qed.

Lemma subset_in a b : subset a b = true -> forall x, In x a -> In x b.
Proof. unfold subset. rewrite forallb_forall. intros H x Hin. apply mem_in, H, Hin. Qed.

Lemma nodupb_nodup l : nodupb l = true -> NoDup l.
Proof.
  induction l as [|x r IH]; cbn; [constructor|]. intros H. apply andb_prop in H as [H1 H2].
  constructor; [|apply IH, H2]. intros Hin. apply mem_in in Hin. rewrite Hin in H1. discriminate.
Qed.

Lemma nodup_nodupb l : NoDup l -> nodupb l = true.
Proof.
  induction 1 as [|x r Hn _ IH]; cbn; [reflexivity|]. rewrite IH, andb_true_r.
  destruct (mem x r) eqn:E; [apply mem_in in E; contradiction|reflexivity].
Qed.

(* ---- generic facts about [walk] -------------------------------------------------------------- *)
Section WalkFacts.
  Variable X : Type.
  Variable on_ev : trk -> trk -> event -> X -> X.
  Variable on_ob : trk -> obs -> X -> option X.
  Notation walk := (walk X on_ev on_ob).
  Notation walk_obs := (walk_obs X on_ob).

  Lemma walk_obs_app k o1 : forall o2 x,
    walk_obs k (o1 ++ o2) x = match walk_obs k o1 x with Some x' => walk_obs k o2 x' | None => None end.
  Proof.
    induction o1 as [|o r IH]; intros o2 x; cbn; [reflexivity|]. destruct (on_ob k o x); [apply IH|reflexivity].
  Qed.

  Lemma walk_length evs : forall obss k x r, walk evs obss k x = Some r -> length evs = length obss.
  Proof.
    induction evs as [|e er IH]; intros [|os osr] k x r H; cbn in *; try discriminate; [reflexivity|].
    destruct (walk_obs (trk_ev k e) os (on_ev k (trk_ev k e) e x)); [|discriminate]. f_equal. eapply IH; eauto.
  Qed.

  Lemma walk_trk evs : forall obss k x k' x', walk evs obss k x = Some (k', x') -> k' = trk_run k evs.
  Proof.
    induction evs as [|e er IH]; intros [|os osr] k x k' x' H; cbn in *; try discriminate; [inversion H; reflexivity|].
    destruct (walk_obs (trk_ev k e) os (on_ev k (trk_ev k e) e x)); [|discriminate]. eapply IH; eauto.
  Qed.

  (* the walk up to a given step, and the check made at a given observation of that step *)
  Lemma walk_at epre : forall opre e epost os opost k x r,
    length epre = length opre ->
    walk (epre ++ e :: epost) (opre ++ os :: opost) k x = Some r ->
    exists x1 x2,
      walk epre opre k x = Some (trk_run k epre, x1) /\
      walk_obs (trk_run k (epre ++ [e])) os (on_ev (trk_run k epre) (trk_run k (epre ++ [e])) e x1) = Some x2 /\
      walk epost opost (trk_run k (epre ++ [e])) x2 = Some r.
  Proof.
    induction epre as [|e0 er IH]; intros [|o0 opre] e epost os opost k x r Hl H; cbn in Hl; try discriminate.
    - cbn in *. destruct (walk_obs (trk_ev k e) os (on_ev k (trk_ev k e) e x)) as [x2|] eqn:E; [|discriminate].
      exists x, x2. auto.
    - cbn [app walk] in H. destruct (walk_obs (trk_ev k e0) o0 (on_ev k (trk_ev k e0) e0 x)) as [xa|] eqn:E; [|discriminate].
      destruct (IH opre e epost os opost (trk_ev k e0) xa r) as (x1 & x2 & A & B & C); [lia|exact H|].
      exists x1, x2. cbn [app walk trk_run]. rewrite E. auto.
  Qed.

  Lemma walk_obs_at k o1 o o2 x x' :
    walk_obs k (o1 ++ o :: o2) x = Some x' ->
    exists xa xb, walk_obs k o1 x = Some xa /\ on_ob k o xa = Some xb /\ walk_obs k o2 xb = Some x'.
  Proof.
    rewrite walk_obs_app. destruct (walk_obs k o1 x) as [xa|]; [|discriminate]. cbn.
    destruct (on_ob k o xa) as [xb|] eqn:E; [|discriminate]. intros H. exists xa, xb. auto.
  Qed.
End WalkFacts.

Lemma trk_run_snoc evs : forall k e, trk_run k (evs ++ [e]) = trk_ev (trk_run k evs) e.
Proof. induction evs as [|x r IH]; intros k e; cbn; [reflexivity|apply IH]. Qed.

(* ================================ C03 ========================================================== *)
(* with on_ev3 = identity the walk is a fold of on_ob3 over the observations, each tagged with
   the tracker of its step *)
Fixpoint run3 (tl : list (trk * obs)) (x : m3) : option m3 :=
  match tl with
  | [] => Some x
  | (k, o) :: r => match on_ob3 k o x with Some x' => run3 r x' | None => None end
  end.

Lemma run3_app a : forall b x, run3 (a ++ b) x = match run3 a x with Some x' => run3 b x' | None => None end.
Proof. induction a as [|[k o] r IH]; intros b x; cbn; [reflexivity|]. destruct (on_ob3 k o x); [apply IH|reflexivity]. Qed.

Lemma walk_obs_run3 k os : forall x, walk_obs m3 on_ob3 k os x = run3 (map (pair k) os) x.
Proof. induction os as [|o r IH]; intros x; cbn; [reflexivity|]. destruct (on_ob3 k o x); [apply IH|reflexivity]. Qed.

Lemma walk3_flat evs : forall obss k x k' x',
  walk m3 on_ev3 on_ob3 evs obss k x = Some (k', x') ->
  exists tl, map snd tl = concat obss /\ run3 tl x = Some x'.
Proof.
  induction evs as [|e er IH]; intros [|os osr] k x k' x' H; cbn in H; try discriminate.
  - inversion H; subst. exists []. auto.
  - unfold on_ev3 in H. destruct (walk_obs m3 on_ob3 (trk_ev k e) os x) as [xa|] eqn:E; [|discriminate].
    destruct (IH _ _ _ _ _ H) as (tl & A & B). exists (map (pair (trk_ev k e)) os ++ tl). split.
    + rewrite map_app, map_map. cbn. rewrite map_id, A. reflexivity.
    + rewrite run3_app, <- walk_obs_run3, E. exact B.
Qed.

(* what the accumulators are *)
Lemma run3_acc tl : forall x x', run3 tl x = Some x' ->
  del x' = del x ++ ok_sets (map snd tl) /\ concat (oksets x') = concat (oksets x) ++ ok_sets (map snd tl) /\
  ~ In Hang (map snd tl).
Proof.
  induction tl as [|[k o] r IH]; intros x x' H; cbn in H.
  - inversion H; subst. cbn. rewrite !app_nil_r. auto.
  - destruct (on_ob3 k o x) as [xa|] eqn:E; [|discriminate]. destruct (IH _ _ H) as (A & B & C).
    destruct o; cbn [on_ob3] in E; cbn [map snd ok_sets flat_map].
    + destruct (_ && _); [|discriminate]. inversion E; subst xa. cbn in *. repeat split; auto. intros [D|D]; [discriminate|auto].
    + destruct (opencall x) as [[c' set']|]; [|discriminate]. destruct (Nat.eqb callno c' && nats_eqb set set'); [|discriminate].
      destruct ok; inversion E; subst xa; cbn in *.
      * rewrite A, B, concat_app. cbn. rewrite app_nil_r, <- !app_assoc. repeat split; auto. intros [D|D]; [discriminate|auto].
      * repeat split; auto. intros [D|D]; [discriminate|auto].
    + inversion E; subst xa. repeat split; auto. intros [D|D]; [discriminate|auto].
    + inversion E; subst xa. repeat split; auto. intros [D|D]; [discriminate|auto].
    + discriminate.
Qed.

(* a failed call's set is offered again: it is contained in the set of the next call *)
Lemma run3_quiet mid : forall x x' f, Forall no_call (map snd mid) -> run3 mid x = Some x' -> failed x = Some f -> failed x' = Some f.
Proof.
  induction mid as [|[k o] r IH]; intros x x' f Hq H Hf; cbn in *; [inversion H; subst; exact Hf|].
  inversion Hq as [|? ? Ho Hr]; subst. destruct o; cbn in Ho; try contradiction.
  - cbn in H. eapply IH; eauto.
  - cbn in H. eapply IH; eauto.
  - cbn in H. discriminate.
Qed.

Lemma run3_failed_again pre k1 c f mid k2 c' set' t' rest x x' :
  run3 (pre ++ (k1, FnEnd c false f) :: mid ++ (k2, FnStart c' set' t') :: rest) x = Some x' ->
  Forall no_call (map snd mid) -> forall y, In y f -> In y set'.
Proof.
  rewrite run3_app. destruct (run3 pre x) as [xa|]; [|discriminate]. cbn [run3 on_ob3].
  destruct (opencall xa) as [[c0 set0]|]; [|discriminate]. destruct (Nat.eqb c c0 && nats_eqb f set0); [|discriminate].
  rewrite run3_app. intros H Hq.
  match type of H with match run3 mid ?xb with _ => _ end = _ => destruct (run3 mid xb) as [xc|] eqn:Em; [|discriminate];
    pose proof (run3_quiet mid xb xc f Hq Em eq_refl) as Hf end.
  cbn [run3 on_ob3] in H. rewrite Hf in H.
  destruct (subset set' (offered_args k2) && subset f set') eqn:E; [|discriminate].
  apply andb_prop in E as [_ E]. apply subset_in. exact E.
Qed.

Lemma map_snd_split {A B} (tl : list (A * B)) : forall pre x rest,
  map snd tl = pre ++ x :: rest ->
  exists tpre a trest, tl = tpre ++ (a, x) :: trest /\ map snd tpre = pre /\ map snd trest = rest.
Proof.
  induction tl as [|[a b] r IH]; intros pre x rest E; [destruct pre; discriminate|].
  destruct pre as [|p pre]; cbn in E.
  - injection E as -> Er. exists [], a, r. auto.
  - injection E as -> Er. destruct (IH _ _ _ Er) as (tpre & a0 & trest & H1 & H2 & H3).
    exists ((a, p) :: tpre), a0, trest. cbn. rewrite H1, H2. auto.
Qed.

(* C03: the walk part of the monitor, read model-free *)
Lemma c03_walk_sound T evs observed :
  Case_C03.ok_walk (Case T evs observed) = true ->
  length evs = length observed /\ ~ In Hang (concat observed) /\
  (* every element of every set passed to the function was handed over by the script up to that step *)
  (forall epre e epost opre o1 c set t o2 opost,
     evs = epre ++ e :: epost -> observed = opre ++ (o1 ++ FnStart c set t :: o2) :: opost ->
     length epre = length opre ->
     forall x, In x set -> In x (offered_args (trk_run trk0 (epre ++ [e])))) /\
  (* the set of a failed call is contained in the set of the next call *)
  (forall pre c f mid c' set' t' rest,
     concat observed = pre ++ FnEnd c false f :: mid ++ FnStart c' set' t' :: rest -> Forall no_call mid ->
     forall y, In y f -> In y set') /\
  (* a script that lets the buffer settle: everything handed over is in a call that ended well *)
  (settled T evs = true ->
     forall x, In x (offered_args (trk_run trk0 evs)) -> In x (ok_sets (concat observed))) /\
  (* own-thread submissions of distinct arguments: no argument in two successful calls *)
  (own_thread evs = true -> NoDup (offered_args (trk_run trk0 evs)) -> NoDup (ok_sets (concat observed))).
Proof.
  unfold Case_C03.ok_walk. destruct (walk m3 on_ev3 on_ob3 evs observed trk0 m3_0) as [[k x]|] eqn:W; [|discriminate].
  intros Hfin. apply andb_prop in Hfin as [F1 F2].
  pose proof (walk_length _ _ _ _ _ _ _ _ W) as Hlen. pose proof (walk_trk _ _ _ _ _ _ _ _ _ W) as Hk. subst k.
  destruct (walk3_flat _ _ _ _ _ _ W) as (tl & Etl & Rtl).
  destruct (run3_acc _ _ _ Rtl) as (Adel & Aok & Ahang). cbn in Adel, Aok. rewrite Etl in *.
  split; [exact Hlen|]. split; [exact Ahang|]. split; [|split; [|split]].
  - intros epre e epost opre o1 c set t o2 opost -> -> Hl y Hy.
    destruct (walk_at _ _ _ _ _ _ _ _ _ _ _ _ Hl W) as (x1 & x2 & _ & B & _).
    destruct (walk_obs_at _ _ _ _ _ _ _ _ B) as (xa & xb & _ & C & _). cbn [on_ob3] in C.
    destruct (subset set (offered_args _) && _) eqn:E; [|discriminate]. apply andb_prop in E as [E _].
    eapply subset_in; eauto.
  - intros pre c f mid c' set' t' rest E Hq.
    rewrite <- Etl in E. destruct (map_snd_split _ _ _ _ E) as (tpre & k1 & trest & -> & Ep & Er).
    destruct (map_snd_split trest mid (FnStart c' set' t') rest Er) as (tmid & k2 & trest2 & -> & Em & _).
    subst mid. eapply run3_failed_again; eauto.
  - intros Hs. rewrite Hs in F1. rewrite Adel in F1. apply subset_in. exact F1.
  - intros Ho Hn. rewrite Ho in F2. rewrite (nodup_nodupb _ Hn) in F2. cbn in F2. rewrite Aok in F2. apply nodupb_nodup. exact F2.
Qed.

(* ================================ C07 ========================================================== *)
Module C7.
Import Aiuti.Case_C07.

Definition from_waitk (done : list event) (w : nat) (ps : list nat) : Prop :=
  exists pre c post, done = pre ++ Wait w c :: post /\ wait_accepted (trk_run trk0 pre) w = true /\
                     ps = k_seen (trk_run trk0 pre).

(* what the monitor checks when it sees WaitRet w _ n, after the script D and the observations od *)
Definition barrier (D : list event) (od : list obs) (w n : nat) : Prop :=
  exists pre c post, D = pre ++ Wait w c :: post /\ wait_accepted (trk_run trk0 pre) w = true /\
    (forall x, In x (args_of_pids (trk_run trk0 D) (k_seen (trk_run trk0 pre))) -> In x (ok_sets od)) /\
    (forall p, In p (k_seen (trk_run trk0 pre)) -> is_open p (trk_run trk0 D) = false) /\
    n = length (filter is_okend od).

Record Inv7 (done : list event) (od : list obs) (x : m7) : Prop := {
  i_del : del x = ok_sets od;
  i_nok : nokc x = length (filter is_okend od);
  i_pend : forall w ps, In (w, ps) (pend x) -> from_waitk done w ps;
  i_all : forall pre c post w, done = pre ++ Wait w c :: post -> wait_accepted (trk_run trk0 pre) w = true ->
          (exists ps, In (w, ps) (pend x)) \/ (exists t n, In (WaitRet w t n) od)
}.

Lemma find_w_in w l ps : find_w w l = Some ps -> In (w, ps) l.
Proof.
  unfold find_w. destruct (filter (fun p => Nat.eqb (fst p) w) l) as [|[w0 ps0] r] eqn:E; [discriminate|].
  intros H; inversion H; subst.
  assert (Hin : In (w0, ps) (filter (fun p => Nat.eqb (fst p) w) l)) by (rewrite E; left; reflexivity).
  apply filter_In in Hin as [Hin Hw]. cbn in Hw. apply Nat.eqb_eq in Hw. subst. exact Hin.
Qed.

Lemma ok_sets_snoc od o : ok_sets (od ++ [o]) = ok_sets od ++ match o with FnEnd _ true set => set | _ => [] end.
Proof. unfold ok_sets. rewrite flat_map_app. cbn. rewrite app_nil_r. reflexivity. Qed.

Lemma okend_snoc od o : length (filter is_okend (od ++ [o])) = length (filter is_okend od) + (if is_okend o then 1 else 0).
Proof. rewrite filter_app, app_length. cbn. destruct (is_okend o); reflexivity. Qed.

(* one observation *)
Lemma on_ob7_inv D od k o x x' :
  k = trk_run trk0 D -> Inv7 D od x -> on_ob7 k o x = Some x' ->
  Inv7 D (od ++ [o]) x' /\ (forall w t n, o = WaitRet w t n -> barrier D od w n) /\ o <> Hang.
Proof.
  intros Hk [I1 I2 I3 I4] H.
  assert (Keep : forall o0, (forall w t n, o0 <> WaitRet w t n) -> (forall c s, o0 <> FnEnd c true s) ->
            forall x0, del x0 = del x -> nokc x0 = nokc x -> pend x0 = pend x -> Inv7 D (od ++ [o0]) x0).
  { intros o0 N1 N2 x0 E1 E2 E3. constructor.
    - rewrite E1, I1, ok_sets_snoc. destruct o0; try (rewrite app_nil_r; reflexivity). destruct ok; [exfalso; eapply N2; eauto|rewrite app_nil_r; reflexivity].
    - rewrite E2, I2, okend_snoc. destruct o0; cbn; try lia. destruct ok; [exfalso; eapply N2; eauto|cbn; lia].
    - rewrite E3. exact I3.
    - rewrite E3. intros pre c post w E A. destruct (I4 pre c post w E A) as [P|(t & n & P)]; [left; exact P|].
      right. exists t, n. apply in_or_app. auto. }
  destruct o; cbn [on_ob7] in H.
  - destruct (shut x); [discriminate|]. inversion H; subst x'. split; [apply Keep; auto; discriminate|]. split; [discriminate|discriminate].
  - destruct ok.
    + inversion H; subst x'; clear H. split; [|split; discriminate]. constructor; cbn.
      * rewrite I1, ok_sets_snoc. reflexivity.
      * rewrite I2, okend_snoc. cbn. lia.
      * exact I3.
      * intros pre c post w E A. destruct (I4 pre c post w E A) as [P|(t & n & P)]; [left; exact P|].
        right. exists t, n. apply in_or_app. auto.
    + inversion H; subst x'. split; [apply Keep; auto; discriminate|]. split; discriminate.
  - destruct (find_w w (pend x)) as [ps|] eqn:Ef; [|discriminate].
    destruct (negb (shut x) && subset (args_of_pids k ps) (del x) && negb (existsb (fun p => is_open p k) ps) && Nat.eqb nok (nokc x)) eqn:Ec; [|discriminate].
    inversion H; subst x'; clear H.
    apply andb_prop in Ec as [Ec E4]. apply andb_prop in Ec as [Ec E3]. apply andb_prop in Ec as [_ E2].
    apply Nat.eqb_eq in E4. apply negb_true_iff in E3.
    pose proof (find_w_in _ _ _ Ef) as Hin. destruct (I3 _ _ Hin) as (pre & c & post & ED & EA & Eps).
    split; [|split; [|discriminate]].
    + constructor; cbn.
      * rewrite I1, ok_sets_snoc, app_nil_r. reflexivity.
      * rewrite I2, okend_snoc. cbn. lia.
      * intros w0 ps0 Hin0. apply filter_In in Hin0 as [Hin0 _]. apply I3, Hin0.
      * intros pre0 c0 post0 w0 E A. destruct (Nat.eq_dec w0 w) as [->|Hne].
        -- right. exists now, nok. apply in_or_app. right. left. reflexivity.
        -- destruct (I4 pre0 c0 post0 w0 E A) as [(ps0 & P)|(t & n & P)].
           ++ left. exists ps0. apply filter_In. split; [exact P|]. cbn. apply negb_true_iff, Nat.eqb_neq. exact Hne.
           ++ right. exists t, n. apply in_or_app. auto.
    + intros w1 t1 n1 E. inversion E; subst w1 t1 n1. exists pre, c, post. split; [exact ED|]. split; [exact EA|].
      subst ps k. split; [|split].
      * intros y Hy. rewrite <- I1. eapply subset_in; eauto.
      * intros p Hp. destruct (is_open p (trk_run trk0 D)) eqn:Eo; [|reflexivity].
        assert (existsb (fun p0 => is_open p0 (trk_run trk0 D)) (k_seen (trk_run trk0 pre)) = true)
          by (apply existsb_exists; exists p; auto). congruence.
      * rewrite <- I2. exact E4.
  - destruct (shut x && negb (ended x)); [|discriminate]. inversion H; subst x'. split; [apply Keep; auto; discriminate|]. split; discriminate.
  - discriminate.
Qed.

Lemma walk_obs7_inv D k os : forall od x x',
  k = trk_run trk0 D -> Inv7 D od x -> walk_obs m7 on_ob7 k os x = Some x' ->
  Inv7 D (od ++ os) x' /\ ~ In Hang os /\
  (forall o1 w t n o2, os = o1 ++ WaitRet w t n :: o2 -> barrier D (od ++ o1) w n).
Proof.
  induction os as [|o r IH]; intros od x x' Hk HI H; cbn in H.
  - inversion H; subst. rewrite app_nil_r. split; [exact HI|]. split; [intros []|]. intros o1 w t n o2 E. destruct o1; discriminate.
  - destruct (on_ob7 k o x) as [xa|] eqn:E; [|discriminate].
    destruct (on_ob7_inv D od k o x xa Hk HI E) as (A & B & C).
    destruct (IH (od ++ [o]) xa x' Hk A H) as (A2 & B2 & C2). rewrite <- app_assoc in A2. cbn in A2.
    split; [exact A2|]. split; [intros [Hh|Hh]; [apply C; auto|apply B2; exact Hh]|].
    intros o1 w t n o2 E1. destruct o1 as [|y o1]; cbn in E1.
    + injection E1 as -> _. rewrite app_nil_r. apply (B w t n eq_refl).
    + injection E1 as -> E1. specialize (C2 o1 w t n o2 E1). rewrite <- app_assoc in C2. exact C2.
Qed.

Lemma on_ev7_inv D od x e :
  Inv7 D od x -> Inv7 (D ++ [e]) od (on_ev7 (trk_run trk0 D) (trk_ev (trk_run trk0 D) e) e x).
Proof.
  intros [I1 I2 I3 I4].
  assert (Ext : forall w ps, from_waitk D w ps -> from_waitk (D ++ [e]) w ps).
  { intros w ps (pre & c & post & E & A & B). exists pre, c, (post ++ [e]). rewrite E, <- app_assoc. auto. }
  assert (Old : forall pre c post w, D ++ [e] = pre ++ Wait w c :: post -> post <> [] ->
            exists post', D = pre ++ Wait w c :: post').
  { intros pre c post w E Hp. destruct (exists_last Hp) as (post' & y & ->).
    rewrite app_comm_cons, app_assoc in E. apply app_inj_tail in E as [E _]. eauto. }
  assert (Same : forall x0, del x0 = del x -> nokc x0 = nokc x -> pend x0 = pend x ->
            (forall w c, e = Wait w c -> wait_accepted (trk_run trk0 D) w = false) -> Inv7 (D ++ [e]) od x0).
  { intros x0 E1 E2 E3 Hna. constructor; rewrite ?E1, ?E2, ?E3; auto.
    intros pre c post w E A. destruct post as [|y post].
    - apply app_inj_tail in E as [-> ->]. rewrite (Hna w c eq_refl) in A. discriminate.
    - destruct (Old pre c (y :: post) w E) as [post' E']; [discriminate|]. eapply I4; eauto. }
  destruct e; cbn [on_ev7]; try (apply Same; auto; intros; discriminate).
  - destruct (wait_accepted (trk_run trk0 D) w) eqn:Ea.
    + constructor; cbn; auto.
      * intros w0 ps Hin. apply in_app_or in Hin as [Hin|[Hin|[]]]; [apply Ext, I3, Hin|].
        inversion Hin; subst. exists D, cancel, []. auto.
      * intros pre c post w0 E A. destruct post as [|y post].
        -- apply app_inj_tail in E as [-> E]. inversion E; subst. left. eexists. apply in_or_app. right. left. reflexivity.
        -- destruct (Old pre c (y :: post) w0 E) as [post' E']; [discriminate|].
           destruct (I4 _ _ _ _ E' A) as [(ps & P)|P]; [left; exists ps; apply in_or_app; auto|right; exact P].
    + apply Same; auto. intros w0 c0 E. inversion E; subst. exact Ea.
  - destruct (k_dead (trk_run trk0 D)); apply Same; auto; intros; discriminate.
Qed.

Lemma walk7_inv evs : forall obss D od x r,
  Inv7 D od x -> walk m7 on_ev7 on_ob7 evs obss (trk_run trk0 D) x = Some r ->
  Inv7 (D ++ evs) (od ++ concat obss) (snd r) /\ ~ In Hang (concat obss) /\
  (forall epre e epost opre o1 w t n o2 opost,
     evs = epre ++ e :: epost -> obss = opre ++ (o1 ++ WaitRet w t n :: o2) :: opost -> length epre = length opre ->
     barrier (D ++ epre ++ [e]) (od ++ concat opre ++ o1) w n).
Proof.
  induction evs as [|e er IH]; intros [|os osr] D od x r HI H; cbn [walk] in H; try discriminate.
  - inversion H; subst. cbn. rewrite !app_nil_r. split; [exact HI|]. split; [intros []|].
    intros epre e epost ? ? ? ? ? ? ? E. destruct epre; discriminate.
  - pose proof (on_ev7_inv D od x e HI) as HI1.
    destruct (walk_obs m7 on_ob7 (trk_ev (trk_run trk0 D) e) os _) as [xa|] eqn:E; [|discriminate].
    assert (Hk : trk_ev (trk_run trk0 D) e = trk_run trk0 (D ++ [e])) by (rewrite trk_run_snoc; reflexivity).
    destruct (walk_obs7_inv (D ++ [e]) _ os od _ xa Hk HI1 E) as (A & B & C).
    rewrite Hk in H. destruct (IH osr (D ++ [e]) (od ++ os) xa r A H) as (A2 & B2 & C2).
    rewrite <- !app_assoc in A2. cbn [app concat] in *.
    split; [exact A2|]. split; [intros Hh; apply in_app_or in Hh as [Hh|Hh]; auto|].
    intros epre e0 epost opre o1 w t n o2 opost Ee Eo Hl.
    destruct epre as [|e1 epre]; destruct opre as [|op opre]; cbn in Hl; try discriminate.
    + cbn in Ee, Eo. injection Ee as -> _. injection Eo as -> _. cbn. apply (C o1 w t n o2 eq_refl).
    + cbn in Ee, Eo. injection Ee as -> Ee. injection Eo as -> Eo.
      assert (Hl' : length epre = length opre) by lia.
      specialize (C2 epre e0 epost opre o1 w t n o2 opost Ee Eo Hl').
      cbn [concat app]. rewrite <- !app_assoc in C2. cbn [app] in C2. rewrite <- !app_assoc. exact C2.
Qed.

Lemma inv7_init : Inv7 [] [] m7_0.
Proof.
  constructor; cbn; auto; [intros w ps []|]. intros pre c post w E. destruct pre; discriminate.
Qed.

(* C07: the walk part of the monitor, read model-free *)
Lemma c07_walk_sound T evs observed :
  Case_C07.ok_walk (Case T evs observed) = true ->
  length evs = length observed /\ ~ In Hang (concat observed) /\
  (* at every WaitRet w _ n: the script up to that step contains the accepted Wait w; every producer submitted
     before it is closed, everything it handed over is in a call that ended well earlier in the trace, and n
     is the number of successful calls so far *)
  (forall epre e epost opre o1 w t n o2 opost,
     evs = epre ++ e :: epost -> observed = opre ++ (o1 ++ WaitRet w t n :: o2) :: opost -> length epre = length opre ->
     barrier (epre ++ [e]) (concat opre ++ o1) w n) /\
  (* a script that lets the buffer settle (and has no foreign clear pending): every accepted wait() returned *)
  (settled_waits T evs = true ->
     forall pre c post w, evs = pre ++ Wait w c :: post -> wait_accepted (trk_run trk0 pre) w = true ->
       exists t n, In (WaitRet w t n) (concat observed)).
Proof.
  unfold Case_C07.ok_walk. destruct (walk m7 on_ev7 on_ob7 evs observed trk0 m7_0) as [[k x]|] eqn:W; [|discriminate].
  intros Hfin. apply andb_prop in Hfin as [_ F2].
  pose proof (walk_length _ _ _ _ _ _ _ _ W) as Hlen.
  destruct (walk7_inv evs observed [] [] m7_0 (k, x) inv7_init W) as (A & B & C). cbn [app snd] in *.
  split; [exact Hlen|]. split; [exact B|]. split; [exact C|].
  intros Hs pre c post w E Ha. rewrite Hs in F2. destruct (pend x) eqn:Ep; [|discriminate].
  destruct (i_all _ _ _ A pre c post w E Ha) as [(ps & P)|P]; [rewrite Ep in P; destruct P|exact P].
Qed.
End C7.
