(* BufferWait.v — wait() is a barrier (C07).
   (1) WInv: a waiter that is past q.join() (OnEvent) has none of the producers
       submitted before its wait() call among those the daemon has not yet taken
       (queued, or returned by the timed read and not yet task_done); every
       waiter's "before" set consists of used producer ids; waiters only ever
       come from earlier waiters or from the Wait event of the step.
   (2) every waiter stems from an accepted Wait event, and its "before" set is the
       set of producer ids used when that event was applied.
   (3) wait_barrier: when WaitRet w is observed, every argument handed to the
       buffer by a producer submitted before that Wait is in a call that ended
       without error. *)
From Coq Require Import List Arith NArith Bool Lia ZifyBool ZifyNat ZifyN Permutation.
Import ListNotations.
Require Import Aiuti.Buffer Aiuti.BufferCore Aiuti.BufferFlag Aiuti.BufferInv Aiuti.BufferJoin Aiuti.BufferOnce.

Definition busy (d : daemon) : list prod :=
  match d with DGather _ _ (GGot p) => [p] | DLoadOne _ p => [p] | _ => [] end.

Definition wk_ok (ws : list waiter) (U : list prod) : Prop :=
  forall w0, In w0 ws -> is_onevent w0 = true -> forall p, In p (wbefore w0) -> ~ In p (map pid U).
Definition wk_seen (ws : list waiter) (sn : list nat) : Prop :=
  forall w0, In w0 ws -> incl (wbefore w0) sn.

Record WOKs (s : state) : Prop := {
  wk1 : wk_ok (waiters s) (q s ++ busy (dm s));
  wk2 : wk_seen (waiters s) (seen s)
}.
Definition WInv (s : state) : Prop := is_dead s = false -> WOKs s.

(* helper post-condition: the result is fine and its waiters come from those of [s] *)
Definition WP (s : state) (r : state * list obs) : Prop :=
  WOKs (fst r) /\ wsub (waiters (fst r)) (waiters s) /\ seen (fst r) = seen s.

Lemma wk_ok_nil ws : wk_ok ws [].
Proof. intros w0 _ _ p _ []. Qed.

Lemma wk_seen_sub ws ws0 sn : wsub ws ws0 -> wk_seen ws0 sn -> wk_seen ws sn.
Proof. intros Hs H w0 Hin. destruct (Hs w0 Hin) as (w1 & Hin1 & _ & E). rewrite <- E. apply H, Hin1. Qed.

Lemma wk_ok_perm ws U U' : Permutation U U' -> wk_ok ws U -> wk_ok ws U'.
Proof.
  intros Hp H w0 Hin Ho p Hp0 Hin'. apply (H w0 Hin Ho p Hp0).
  eapply Permutation_in; [apply Permutation_sym, Permutation_map; exact Hp|exact Hin'].
Qed.

Lemma wk_ok_pids ws U U' : map pid U' = map pid U -> wk_ok ws U -> wk_ok ws U'.
Proof. intros E H w0 Hin Ho p Hp0. rewrite E. apply (H w0 Hin Ho p Hp0). Qed.

Lemma wk_ok_filter f ws U : wk_ok ws U -> wk_ok (filter f ws) U.
Proof. intros H w0 Hin. apply filter_In in Hin as [Hin _]. apply H, Hin. Qed.

Lemma run_func0_W s ins : q s = [] -> wk_seen (waiters s) (seen s) -> WP s (run_func0 s ins).
Proof.
  intros Hq Hs. unfold run_func0. destruct ins as [|x r].
  - unfold release, WP; cbn. split; [constructor; cbn|split; [apply wsub_filter|reflexivity]].
    + rewrite Hq. apply wk_ok_nil.
    + eapply wk_seen_sub; [apply wsub_filter|exact Hs].
  - unfold WP; cbn. split; [constructor; cbn|split; [apply wsub_refl|reflexivity]].
    + rewrite Hq. apply wk_ok_nil.
    + exact Hs.
Qed.

Lemma WP_trans s s1 r : WP s1 r -> wsub (waiters s1) (waiters s) -> seen s1 = seen s -> WP s r.
Proof. intros (A & B & C) Hs E. split; [exact A|]. split; [eapply wsub_trans; eauto|congruence]. Qed.

Lemma continue_round_W s ins ld : wk_seen (waiters s) (seen s) -> WP s (continue_round s ins ld).
Proof.
  intros Hs. unfold continue_round.
  set (u := unfinished s - length (q s)).
  destruct (load_all (ld ++ q s)) as [[rem ys] fs].
  set (s2 := if u =? 0 then _ else _).
  assert (Hq : q s2 = []) by (unfold s2; destruct (u =? 0); reflexivity).
  assert (Hsn : seen s2 = seen s) by (unfold s2; destruct (u =? 0); reflexivity).
  assert (Hw : wsub (waiters s2) (waiters s)) by (unfold s2; destruct (u =? 0); cbn; [apply wsub_pass|apply wsub_refl]).
  assert (Hs2 : wk_seen (waiters s2) (seen s2)) by (rewrite Hsn; eapply wk_seen_sub; eauto).
  destruct rem as [|p rem].
  - destruct ((u =? 0) && wants_cancel (waiters (set_q s [] u))).
    + eapply WP_trans; [apply run_func0_W| |]; cbn; auto.
    + unfold WP; cbn. split; [constructor; cbn|split; [exact Hw|exact Hsn]]; [rewrite Hq; apply wk_ok_nil|exact Hs2].
  - unfold WP; cbn. split; [constructor; cbn|split; [exact Hw|exact Hsn]]; [|exact Hs2].
    rewrite Hq. destruct ((u =? 0) && _); cbn; apply wk_ok_nil.
Qed.

Lemma start_round_W s : wk_seen (waiters s) (seen s) -> WP s (start_round s).
Proof.
  intros Hs. unfold start_round. destruct (q s) as [|p r] eqn:Eq.
  - unfold WP; cbn. split; [constructor; cbn|split; [apply wsub_refl|reflexivity]]; [rewrite Eq; apply wk_ok_nil|exact Hs].
  - eapply WP_trans; [apply continue_round_W| |]; cbn; auto. apply wsub_refl.
Qed.

Lemma run_func_W s ins : wk_seen (waiters s) (seen s) -> wk_ok (waiters s) (q s) -> WP s (run_func s ins).
Proof.
  intros Hs Ho. unfold run_func. destruct ins as [|x r].
  - destruct (release s) as [s1 o1] eqn:E. unfold release in E. inversion E; subst s1 o1; clear E. unfold end_round.
    match goal with |- context [start_round ?x] => pose proof (start_round_W x) as Q; destruct (start_round x) as [s2 o2] end.
    cbn [fst snd] in *. eapply WP_trans; [apply Q| |]; cbn; auto.
    + eapply wk_seen_sub; [apply wsub_filter|exact Hs].
    + apply wsub_filter.
  - unfold WP; cbn. split; [constructor; cbn|split; [apply wsub_refl|reflexivity]]; [rewrite app_nil_r; exact Ho|exact Hs].
Qed.

Lemma load_one_W s ins p : wk_seen (waiters s) (seen s) -> wk_ok (waiters s) (q s ++ [p]) -> WP s (load_one s ins p).
Proof.
  intros Hs Ho. unfold load_one. destruct (p_fin p).
  - eapply WP_trans; [apply continue_round_W| |]; cbn; auto. apply wsub_refl.
  - unfold WP; cbn. split; [constructor; cbn|split; [apply wsub_refl|reflexivity]]; [|exact Hs].
    eapply wk_ok_pids; [|exact Ho]. rewrite !map_app. reflexivity.
Qed.

Lemma after_gather_W s ins g :
  wk_seen (waiters s) (seen s) -> wk_ok (waiters s) (q s ++ got_of g) -> WP s (after_gather s ins g).
Proof.
  intros Hs Ho. destruct g; cbn [after_gather got_of] in *; rewrite ?app_nil_r in Ho.
  - unfold WP; cbn. split; [constructor; cbn|split; [apply wsub_refl|reflexivity]]; [rewrite app_nil_r; exact Ho|exact Hs].
  - apply load_one_W; assumption.
  - apply run_func_W; assumption.
  - apply run_func_W; assumption.
Qed.

Lemma stay_W s s' : WOKs s -> dm s' = dm s -> q s' = q s -> waiters s' = waiters s -> seen s' = seen s -> forall o, WP s (s', o).
Proof.
  intros [H1 H2] E1 E2 E3 E4 o. unfold WP; cbn [fst]. split; [constructor; rewrite ?E1, ?E2, ?E3, ?E4; assumption|].
  split; [rewrite E3; apply wsub_refl|exact E4].
Qed.

(* ---- per macro step ------------------------------------------------------------------ *)
Lemma on_put_W s :
  wk_ok (waiters s) (q s ++ busy (dm s)) -> wk_seen (waiters s) (seen s) -> WP s (on_put s).
Proof.
  intros Ho Hs. assert (HW : WOKs s) by (constructor; assumption).
  unfold on_put. destruct (dm s) eqn:Ed; cbn [busy] in Ho; try (apply (stay_W s); auto).
  - apply start_round_W; exact Hs.
  - destruct g; try (apply (stay_W s); auto). destruct (q s) as [|p r] eqn:Eq; [apply (stay_W s); auto|].
    unfold WP; cbn. split; [constructor; cbn|split; [apply wsub_refl|reflexivity]]; [|exact Hs].
    eapply wk_ok_perm; [|exact Ho]. rewrite app_nil_r. apply perm_snoc.
  - destruct (q s) as [|p r] eqn:Eq; [apply (stay_W s); auto|].
    eapply WP_trans; [apply load_one_W| |]; cbn; auto; [|apply wsub_refl].
    eapply wk_ok_perm; [|exact Ho]. rewrite app_nil_r. apply perm_snoc.
Qed.

Lemma do_put_W s p k c :
  WOKs s -> WOKs (fst (do_put s p k c)) /\ wsub (waiters (fst (do_put s p k c))) (waiters s).
Proof.
  intros [H1 H2]. unfold do_put. destruct (existsb (Nat.eqb p) (seen s)) eqn:Ef; [split; [constructor; assumption|apply wsub_refl]|].
  apply existsb_eqb_false in Ef.
  match goal with |- context [on_put ?x] => set (s4 := x) end.
  assert (E4 : waiters s4 = waiters s /\ seen s4 = seen s ++ [p] /\ q s4 = q s ++ [mk_prod p k] /\ dm s4 = dm s)
    by (unfold s4; destruct c; cbn; auto).
  destruct E4 as (E1 & E2 & E3 & E4). clearbody s4.
  destruct (on_put_W s4) as (A & B & _).
  - rewrite E1, E3, E4. intros w0 Hin Ho p0 Hp0 Hin'. rewrite <- app_assoc, !map_app in Hin'.
    apply in_app_or in Hin' as [Hin'|Hin']; [|apply in_app_or in Hin' as [[Hin'|[]]|Hin']].
    + apply (H1 w0 Hin Ho p0 Hp0). rewrite map_app. apply in_or_app; auto.
    + rewrite pid_mk_prod in Hin'. subst p0. apply Ef. apply (H2 w0 Hin), Hp0.
    + apply (H1 w0 Hin Ho p0 Hp0). rewrite map_app. apply in_or_app; auto.
  - rewrite E1, E2. intros w0 Hin x Hx. apply in_or_app. left. apply (H2 w0 Hin), Hx.
  - split; [exact A|]. rewrite <- E1. exact B.
Qed.

Lemma pids_feed_map n a ps : map pid (map (feed_if n a) ps) = map pid ps.
Proof. rewrite map_map. apply map_ext. intros p0. apply pid_feed_if. Qed.

Lemma busy_feed n a g : map pid (got_of (feed_get n a g)) = map pid (got_of g).
Proof. destruct g; cbn; try reflexivity. rewrite pid_feed_if. reflexivity. Qed.

Lemma busy_got d : forall ins ld g, d = DGather ins ld g -> busy d = got_of g.
Proof. intros ins ld g ->. destruct g; reflexivity. Qed.

Lemma pid_feed a p : pid (feed a p) = pid p.
Proof. destruct a; cbn [feed pid]; try reflexivity. destruct (single p); reflexivity. Qed.

Lemma do_feed_W s n a : WOKs s -> WP s (do_feed s n a).
Proof.
  intros HW. pose proof HW as [H1 H2]. unfold do_feed. destruct (negb (open_here s n)); [apply (stay_W s); auto|].
  set (s0 := set_gh (set_q s (map (feed_if n a) (q s)) (unfinished s)) (gh_offer1 (gh s) (map (fun x => (n, x)) (arg_of a)))).
  assert (Stay0 : WP s (s0, [])).
  { unfold WP; cbn. split; [constructor; cbn|split; [apply wsub_refl|reflexivity]]; [|exact H2].
    eapply wk_ok_pids; [|exact H1]. rewrite !map_app, pids_feed_map. reflexivity. }
  destruct (dm s) eqn:Ed; try exact Stay0.
  - rewrite (busy_got _ _ _ _ eq_refl) in H1.
    destruct (load_all (map (feed_if n a) ld)) as [[rem ys] fs]. destruct rem as [|p0 rem].
    + eapply WP_trans; [apply after_gather_W| |]; cbn; auto; [|apply wsub_refl].
      eapply wk_ok_pids; [|exact H1]. rewrite !map_app, pids_feed_map, busy_feed. reflexivity.
    + unfold WP; cbn. split; [constructor; cbn|split; [apply wsub_refl|reflexivity]]; [|exact H2].
      eapply wk_ok_pids; [|exact H1]. rewrite !map_app, pids_feed_map. f_equal.
      destruct g; cbn; try reflexivity. rewrite pid_feed_if. reflexivity.
  - cbn [busy] in H1. destruct ((pid p =? n) && accepts p); [|exact Stay0].
    eapply WP_trans; [apply load_one_W| |]; cbn; auto; [|apply wsub_refl].
    eapply wk_ok_pids; [|exact H1]. rewrite !map_app, pids_feed_map. cbn. rewrite pid_feed. reflexivity.
Qed.

Lemma WP_now s r t : WP s r -> WP s (let '(s1, o) := r in (set_now s1 t, o)).
Proof. destruct r as [s1 o]. intros ([A B] & C & D). split; [constructor; cbn; assumption|]. split; assumption. Qed.

Lemma do_advance_W s dt : WOKs s -> WP s (do_advance s dt).
Proof.
  intros HW. pose proof HW as [H1 H2]. unfold do_advance.
  destruct (dm s) as [|ins ld g|ins d|ins p|ins|] eqn:Ed; try (apply (stay_W s); cbn; auto; rewrite Ed; reflexivity).
  - destruct g as [d|p| |]; try (apply (stay_W s); cbn; auto; rewrite Ed; reflexivity).
    destruct (d <=? now s + dt)%N; [|apply (stay_W s); cbn; auto; rewrite Ed; reflexivity].
    unfold WP; cbn. split; [constructor; cbn|split; [apply wsub_refl|reflexivity]]; [|exact H2].
    cbn [busy] in H1. exact H1.
  - destruct (d <=? now s + dt)%N; [|apply (stay_W s); cbn; auto; rewrite Ed; reflexivity].
    cbn [busy] in H1. rewrite app_nil_r in H1.
    match goal with |- context [run_func ?a ?b] => pose proof (run_func_W a b) as Q; destruct (run_func a b) as [s1 o] end.
    apply (WP_now s (s1, o)). apply Q; cbn; assumption.
Qed.

Lemma do_fn_end_W s ok fc : WOKs s -> WP s (do_fn_end s ok fc).
Proof.
  intros HW. pose proof HW as [H1 H2]. unfold do_fn_end.
  destruct (dm s) eqn:Ed; try (apply (stay_W s); auto).
  assert (Cons : forall r o0, WP s r -> WP s (let '(s3, o2) := r in (s3, o0 ++ o2))) by (intros [s3 o2] o0 H; exact H).
  destruct ok.
  - match goal with |- context [release ?x] => destruct (release x) as [s2 o1] eqn:E end.
    unfold release in E. inversion E; subst s2 o1; clear E.
    destruct fc.
    + match goal with |- context [continue_round ?a ?b ?c] => pose proof (continue_round_W a b c) as Q; destruct (continue_round a b c) as [s3 o2] end.
      eapply WP_trans; [apply Q| |]; cbn; auto; [|apply wsub_filter].
      eapply wk_seen_sub; [apply wsub_filter|exact H2].
    + unfold end_round.
      match goal with |- context [start_round ?a] => pose proof (start_round_W a) as Q; destruct (start_round a) as [s3 o2] end.
      eapply WP_trans; [apply Q| |]; cbn; auto; [|apply wsub_filter].
      eapply wk_seen_sub; [apply wsub_filter|exact H2].
  - pose proof (continue_round_W s ins [] H2) as Q. destruct (continue_round s ins []) as [s1 o1]. exact Q.
Qed.

(* a wait() call: the new waiter, if any, has wid w and "before" = the ids used so far *)
Definition is_new (s : state) (w : nat) (w' : waiter) : Prop := wid w' = w /\ wbefore w' = seen s.

Lemma wait_core_W s w c :
  WOKs s -> StructOK s ->
  WOKs (fst (wait_core s w c)) /\
  (forall w', In w' (waiters (fst (wait_core s w c))) -> wfrom (waiters s) w' \/ is_new s w w').
Proof.
  intros HW HS. pose proof HW as [H1 H2]. destruct HS as [S1 S2 S3]. unfold wait_core.
  assert (Add : forall st, (st = OnEvent -> q s = [] /\ busy (dm s) = []) ->
            WOKs (set_waiters s (waiters s ++ [mkw w c st (seen s)])) /\
            (forall w', In w' (waiters (set_waiters s (waiters s ++ [mkw w c st (seen s)]))) -> wfrom (waiters s) w' \/ is_new s w w')).
  { intros st Hst. split.
    - constructor; cbn.
      + intros w0 Hin Ho p Hp. apply in_app_or in Hin as [Hin|[<-|[]]]; [apply (H1 w0 Hin Ho p Hp)|].
        destruct st; [discriminate|]. destruct (Hst eq_refl) as [-> ->]. cbn. auto.
      + intros w0 Hin. apply in_app_or in Hin as [Hin|[<-|[]]]; [apply (H2 w0 Hin)|cbn; apply incl_refl].
    - cbn. intros w' Hin. apply in_app_or in Hin as [Hin|[<-|[]]]; [left; apply wfrom_in, Hin|right; split; reflexivity]. }
  assert (Same : forall s' (o : list obs), dm s' = dm s -> q s' = q s -> waiters s' = waiters s -> seen s' = seen s ->
            WOKs s' /\ (forall w', In w' (waiters s') -> wfrom (waiters s) w' \/ is_new s w w')).
  { intros s' o E1 E2 E3 E4. split; [constructor; rewrite ?E1, ?E2, ?E3, ?E4; assumption|].
    rewrite E3. intros w' Hin. left. apply wfrom_in, Hin. }
  destruct (unfinished s =? 0) eqn:Eu; [|apply Add; discriminate].
  apply Nat.eqb_eq in Eu.
  assert (Hq0 : q s = [] /\ busy (dm s) = []).
  { rewrite Eu in S1. destruct (q s); [|cbn in S1; lia]. split; [reflexivity|].
    destruct (dm s) as [|? ? g| | | |]; try reflexivity; [destruct g; try reflexivity; cbn in S1; lia|cbn in S1; lia]. }
  destruct (dm s) eqn:Ed.
  - destruct (evset s); [cbn [fst]; apply (Same _ []); cbn; auto|apply Add; auto].
  - destruct g; try (destruct (evset s); [cbn [fst]; apply (Same _ []); cbn; auto|apply Add; auto]).
    destruct c; [|apply Add; auto].
    destruct (Add OnEvent (fun _ => Hq0)) as [[A1 A2] B]. cbn [fst]. split; [|exact B].
    constructor; cbn; [|exact A2]. destruct Hq0 as [-> _]. apply wk_ok_nil.
  - destruct c; [|apply Add; auto].
    destruct (Add OnEvent (fun _ => Hq0)) as [[A1 A2] B].
    match goal with |- context [run_func ?a ?b] => destruct (run_func_W a b) as (Q1 & Q2 & Q3) end; cbn; auto.
    + cbn in A1. destruct Hq0 as [Hq0 _]. rewrite Hq0 in *. apply wk_ok_nil.
    + split; [exact Q1|]. intros w' Hin. destruct (Q2 w' Hin) as (w1 & Hin1 & E1 & E2). cbn in Hin1.
      apply in_app_or in Hin1 as [Hin1|[<-|[]]].
      * left. exists w1. auto.
      * right. split; cbn in *; congruence.
  - destruct (evset s); [cbn [fst]; apply (Same _ []); cbn; auto|apply Add; auto].
  - destruct (evset s); [cbn [fst]; apply (Same _ []); cbn; auto|apply Add; auto].
  - destruct (evset s); [cbn [fst]; apply (Same _ []); cbn; auto|apply Add; auto].
Qed.

Definition accepted_wait (s : state) (e : event) (w : nat) : Prop :=
  is_dead s = false /\ (exists c, e = Wait w c) /\ existsb (Nat.eqb w) (wseen s) = false.

Lemma step_W s e : WInv s -> Struct s ->
  WInv (fst (step s e)) /\
  (forall w', In w' (waiters (fst (step s e))) ->
     wfrom (waiters s) w' \/ (exists w, accepted_wait s e w /\ is_new s w w')).
Proof.
  intros HW HS. unfold step. destruct (is_dead s) eqn:Hd.
  - split; [exact HW|]. intros w' Hin. left. apply wfrom_in, Hin.
  - specialize (HW Hd). specialize (HS Hd).
    assert (K : forall r, WP s r -> WInv (fst r) /\
                 (forall w', In w' (waiters (fst r)) -> wfrom (waiters s) w' \/ (exists w, accepted_wait s e w /\ is_new s w w'))).
    { intros r (A & B & _). split; [intros _; exact A|]. intros w' Hin. left. apply B, Hin. }
    destruct e.
    + destruct (do_put_W s p k true HW) as [A B]. split; [intros _; exact A|]. intros w' Hin. left. apply B, Hin.
    + apply K, do_feed_W; exact HW.
    + apply K, do_feed_W; exact HW.
    + apply K, do_feed_W; exact HW.
    + apply K, do_advance_W; exact HW.
    + unfold do_wait. destruct (existsb (Nat.eqb w) (wseen s)) eqn:Ew.
      * split; [intros _; exact HW|]. intros w' Hin. left. apply wfrom_in, Hin.
      * set (s' := set_gh (set_wseen s (wseen s ++ [w])) (gh_tie (gh s) (tie_now s))).
        assert (HW' : WOKs s') by (destruct HW as [A B]; constructor; exact A || exact B).
        assert (HS' : StructOK s') by (destruct HS as [A B C]; constructor; auto).
        destruct (wait_core_W s' w cancel HW' HS') as [A B]. split; [intros _; exact A|].
        intros w' Hin. destruct (B w' Hin) as [H|H]; [left; exact H|]. right. exists w. split; [|exact H].
        split; [exact Hd|]. split; [eauto|exact Ew].
    + apply K, do_fn_end_W; exact HW.
    + apply K, do_fn_end_W; exact HW.
    + split; [intros H; discriminate|]. intros w' [].
    + apply K. apply (stay_W s); auto.
    + destruct (do_put_W s p k false HW) as [A B]. split; [intros _; exact A|]. intros w' Hin. left. apply B, Hin.
    + apply K, do_fn_end_W; exact HW.
Qed.

Lemma init_W T : WInv (init T).
Proof. intros _. constructor; cbn; intros w0 []. Qed.

Lemma final_W T evs : WInv (final T evs).
Proof.
  induction evs as [|e r IH] using rev_ind; [apply init_W|].
  rewrite final_snoc. apply step_W; [exact IH|apply final_struct].
Qed.

(* ---- (2) every waiter stems from an accepted Wait event ----------------------------- *)
Definition from_wait (T : N) (evs : list event) (w : nat) (ps : list nat) : Prop :=
  exists pre c post, evs = pre ++ Wait w c :: post /\ is_dead (final T pre) = false /\
    existsb (Nat.eqb w) (wseen (final T pre)) = false /\ ps = seen (final T pre).

Lemma from_wait_snoc T evs e w ps : from_wait T evs w ps -> from_wait T (evs ++ [e]) w ps.
Proof.
  intros (pre & c & post & E & A & B & C). exists pre, c, (post ++ [e]). split; [|auto].
  rewrite E, <- app_assoc. reflexivity.
Qed.

Lemma waiters_from_wait T evs : forall w1, In w1 (waiters (final T evs)) -> from_wait T evs (wid w1) (wbefore w1).
Proof.
  induction evs as [|e r IH] using rev_ind; [intros w1 []|].
  intros w1 Hin. rewrite final_snoc in Hin.
  destruct (step_W (final T r) e (final_W T r) (final_struct T r)) as [_ H].
  destruct (H w1 Hin) as [(w0 & Hin0 & E1 & E2)|(w & (Hd & (c & ->) & Hf) & E1 & E2)].
  - rewrite <- E1, <- E2. apply from_wait_snoc, IH, Hin0.
  - exists r, c, []. rewrite E1, E2. auto.
Qed.

(* ---- (3) the barrier ------------------------------------------------------------------ *)
Lemma wait_obs_accepted s w c w' t n :
  In (WaitRet w' t n) (snd (step s (Wait w c))) ->
  is_dead s = false /\ existsb (Nat.eqb w) (wseen s) = false.
Proof.
  unfold step. destruct (is_dead s); [intros []|]. unfold do_wait.
  destruct (existsb (Nat.eqb w) (wseen s)); [intros []|auto].
Qed.

(* what P = PF gives at a release point *)
Lemma PF_release sr p x :
  PF (seen sr) (gh sr) [] (q sr) -> ~ In p (map pid (q sr)) ->
  In (p, x) (g_offered (gh sr)) -> In x (g_delivered (gh sr)).
Proof.
  intros [HC HP] Hn Hin.
  destruct (pd_off _ _ _ HP p x Hin) as [Hl|(pr & Hpr & E & _)].
  - destruct (c_held _ _ _ HC x Hl) as [H|[]]. exact H.
  - exfalso. apply Hn. rewrite <- E. apply in_map, Hpr.
Qed.

Lemma wait_barrier_lemma T evs e w t n :
  In (WaitRet w t n) (snd (step (final T evs) e)) ->
  exists pre c post,
    evs ++ [e] = pre ++ Wait w c :: post /\ is_dead (final T pre) = false /\
    existsb (Nat.eqb w) (wseen (final T pre)) = false /\
    forall p x, In p (seen (final T pre)) -> In (p, x) (g_offered (gh (final T (evs ++ [e])))) ->
                In x (ok_sets (concat (trace T (evs ++ [e])))).
Proof.
  intros Hin. set (s := final T evs) in *.
  assert (Hd : is_dead s = false).
  { destruct (is_dead s) eqn:Hd; [|reflexivity]. unfold step in Hin. rewrite Hd in Hin. destruct Hin. }
  pose proof (final_PF T evs) as HPF. fold s in HPF.
  pose proof (final_W T evs Hd) as [W1 W2]. fold s in W1, W2.
  pose proof (final_struct T evs Hd) as [S1 S2 S3]. fold s in S1, S2, S3.
  assert (Goal : forall ps, from_wait T (evs ++ [e]) w ps ->
            (forall p x, In p ps -> In (p, x) (g_offered (gh (fst (step s e)))) -> In x (g_delivered (gh (fst (step s e))))) ->
            exists pre c post,
              evs ++ [e] = pre ++ Wait w c :: post /\ is_dead (final T pre) = false /\
              existsb (Nat.eqb w) (wseen (final T pre)) = false /\
              forall p x, In p (seen (final T pre)) -> In (p, x) (g_offered (gh (final T (evs ++ [e])))) ->
                          In x (ok_sets (concat (trace T (evs ++ [e]))))).
  { intros ps (pre & c & post & E & A & B & ->) H. exists pre, c, post. repeat split; auto.
    intros p x Hp Hx. rewrite <- delivered_is_trace. rewrite final_snoc in *. fold s in Hx |- *. eauto. }
  assert (HPFs : InvP PF s) by exact HPF.
  pose proof (step_rets PF true) as SR.
  assert (Rets : rets_step PF s e (step s e)).
  { apply SR; auto.
    - intros sn g ins ps ps' Hp [A B]. split; [eapply Core_permP; eauto|eapply Pids_perm; eauto].
    - intros sn g ins ps1 ps rem ys fs [A B] E. split; [eapply Core_load; eauto|eapply Pids_load; eauto using wf_app_r].
    - intros sn g ins ps [A B]. split; [apply Core_deliver; [exact A|intros x []]|eapply Pids_ext; [| |exact B]; reflexivity].
    - intros _ sn g ins ps [A B]. split; [apply Core_deliver; [exact A|apply incl_refl]|eapply Pids_ext; [| |exact B]; reflexivity].
    - intros sn g ins ps p k t0 b [A B] Hf. split; [apply Core_put; exact A|apply Pids_put; assumption].
    - intros sn g ins ps n0 a [A B] Hex. split; [apply Core_feed; assumption|apply Pids_feed; assumption].
    - intros sn g g' ins ps E1 E2 E3 [A B]. split; [eapply Core_ext; eauto|eapply Pids_ext; eauto]. }
  destruct (Rets w t n Hin) as [(sr & w0 & HP & Ew & Hrel & Eo & Edl)|(c & -> & He & Hobs)].
  - (* returned by a release on sr *)
    assert (Hfw : from_wait T (evs ++ [e]) w (wbefore w0) /\
                  (forall p, In p (wbefore w0) -> ~ In p (map pid (q sr)))).
    { destruct Hrel as [[Hq Hf]|(Hin0 & Hon & Hpq)].
      - split; [|rewrite Hq; intros p _ []].
        destruct Hf as (w1 & Hin1 & E1 & E2). apply in_app_or in Hin1 as [Hin1|Hin1].
        + rewrite <- Ew, <- E1, <- E2. apply from_wait_snoc, waiters_from_wait, Hin1.
        + destruct e; cbn [new_waiter] in Hin1; try (destruct Hin1; fail). destruct Hin1 as [<-|[]]. cbn in E1, E2.
          destruct (wait_obs_accepted _ _ _ _ _ _ Hin) as [A B].
          exists evs, cancel, []. rewrite <- Ew, <- E1, <- E2. fold s. auto.
      - apply in_app_or in Hin0 as [Hin0|Hin0].
        + split; [rewrite <- Ew; apply from_wait_snoc, waiters_from_wait, Hin0|].
          intros p Hp Hin'. rewrite Hpq in Hin'. apply (W1 w0 Hin0 Hon p Hp). rewrite map_app. apply in_or_app; auto.
        + destruct e; cbn [new_waiter] in Hin0; try (destruct Hin0; fail). destruct Hin0 as [<-|[]]. cbn in Ew. subst w1.
          destruct (wait_obs_accepted _ _ _ _ _ _ Hin) as [A B].
          split; [exists evs, cancel, []; fold s; auto|].
          (* the new waiter is past the join only when nothing was unfinished: the queue is empty *)
          assert (Hu : unfinished s = 0).
          { unfold step in Hin. rewrite Hd in Hin. unfold do_wait in Hin. rewrite B in Hin. unfold wait_core in Hin.
            cbn [unfinished set_gh set_wseen] in Hin. destruct (unfinished s =? 0) eqn:Eu; [apply Nat.eqb_eq; exact Eu|destruct Hin]. }
          rewrite Hu in S1. intros p _ Hin'. rewrite Hpq in Hin'. destruct (q s); [destruct Hin'|cbn in S1; lia]. }
    destruct Hfw as [Hfw Hnq]. apply (Goal _ Hfw).
    intros p x Hp Hx. rewrite <- Edl. rewrite <- Eo in Hx. eapply PF_release; eauto.
  - (* immediate return: the event was set *)
    destruct (wait_obs_accepted _ _ _ _ _ _ Hin) as [A B].
    apply (Goal (seen s)); [exists evs, c, []; fold s; auto|].
    intros p x _ Hx.
    destruct (flag_means_delivered T evs Hd He) as (_ & _ & Hall). fold s in Hall.
    rewrite offered_step in Hx. unfold new_offers in Hx. rewrite Hd, app_nil_r in Hx.
    rewrite delivered_step. apply in_or_app. left. apply Hall. unfold off. apply in_map_iff. exists (p, x). auto.
Qed.

(* ---- shutdown ---------------------------------------------------------------------------- *)
Lemma trace_snoc T evs e : trace T (evs ++ [e]) = trace T evs ++ [snd (step (final T evs) e)].
Proof.
  unfold trace, final. rewrite run_app. destruct (run (init T) evs) as [s1 t1]. cbn [run fst snd].
  destruct (step s1 e) as [s2 o]. reflexivity.
Qed.

Lemma dead_has_ended T evs : is_dead (final T evs) = true -> In DaemonEnded (concat (trace T evs)).
Proof.
  induction evs as [|e r IH] using rev_ind; [discriminate|].
  rewrite final_snoc, trace_snoc, concat_app, in_app_iff. intros Hd.
  destruct (is_dead (final T r)) eqn:Hr; [left; apply IH; reflexivity|].
  right. cbn [concat]. rewrite app_nil_r.
  destruct e; try (rewrite (step_alive _ _ (final_struct T r) Hr) in Hd; [discriminate|discriminate]).
  unfold step. rewrite Hr. left. reflexivity.
Qed.

(* C07 shutdown_terminates: whatever happened before and whatever is scripted
   afterwards, cancelling the daemon ends it (DaemonEnded is observed, in the
   Shutdown step itself unless an earlier Shutdown already ended it) and
   nothing at all is observed after that step *)
Lemma shutdown_lemma T evs rest :
  exists o,
    trace T (evs ++ Shutdown :: rest) = trace T evs ++ o :: map (fun _ => []) rest /\
    (o = [DaemonEnded] \/ (o = [] /\ In DaemonEnded (concat (trace T evs)))) /\
    is_dead (final T (evs ++ [Shutdown])) = true.
Proof.
  unfold trace at 1. rewrite run_app. fold (final T evs).
  assert (E : run (init T) evs = (final T evs, trace T evs)) by (unfold final, trace; destruct (run (init T) evs); reflexivity).
  rewrite E. cbn [run]. rewrite final_snoc.
  destruct (is_dead (final T evs)) eqn:Hd.
  - exists []. unfold step at 1 2. rewrite Hd. rewrite (dead_run rest _ Hd). cbn [snd fst].
    split; [reflexivity|]. split; [right; split; [reflexivity|apply dead_has_ended; exact Hd]|exact Hd].
  - exists [DaemonEnded]. unfold step at 1 2. rewrite Hd.
    rewrite (dead_run rest (set_waiters (set_dm (final T evs) DDead) []) eq_refl). cbn [snd fst].
    split; [reflexivity|]. split; [left; reflexivity|reflexivity].
Qed.

(* ---- wait(cancel=True) flushes at once ------------------------------------------------------ *)
Lemma wait_cancel_lemma T evs ins d w :
  let s := final T evs in
  dm s = DAwait ins d -> ins <> [] -> existsb (Nat.eqb w) (wseen s) = false ->
  snd (step s (Wait w true)) = [FnStart (callno s) ins (now s)] /\
  snd (step s (Wait w false)) = [].
Proof.
  intros s Hdm Hne Hf.
  assert (Hd : is_dead s = false) by (unfold is_dead; rewrite Hdm; reflexivity).
  destruct (await_settled T evs ins d Hdm) as [Hq Hu]. fold s in Hq, Hu.
  unfold step. rewrite Hd. unfold do_wait. rewrite Hf. unfold wait_core.
  cbn [unfinished set_gh set_wseen dm]. rewrite Hu, Hdm. cbn [Nat.eqb].
  split; [|reflexivity]. unfold run_func. destruct ins; [contradiction|]. reflexivity.
Qed.

Lemma join_counter_lemma (T : N) (evs : list event) :
    let s := final T evs in
    is_dead s = false ->
    unfinished s = length (q s) + extra (dm s) /\
    (q_empty_stage (dm s) = true -> q s = []) /\
    (unfinished s = 0 -> forall w, In w (waiters s) -> wstate w = OnEvent).
Proof. intros s Hd. destruct (final_struct T evs Hd) as [A B C]. auto. Qed.

(* ---- the accepted Wait event of a wait id is unique ------------------------------------- *)
Definition keeps_ws (s : state) (r : state * list obs) : Prop := wseen (fst r) = wseen s.

Lemma run_func0_ws s ins : keeps_ws s (run_func0 s ins).
Proof. unfold keeps_ws, run_func0, release. destruct ins; reflexivity. Qed.

Lemma continue_round_ws s ins ld : keeps_ws s (continue_round s ins ld).
Proof.
  unfold keeps_ws, continue_round. destruct (load_all (ld ++ q s)) as [[rem ys] fs].
  destruct (unfinished s - length (q s) =? 0); destruct rem; cbn [andb];
    try destruct (wants_cancel _); try reflexivity; rewrite run_func0_ws; reflexivity.
Qed.

Lemma start_round_ws s : keeps_ws s (start_round s).
Proof. unfold keeps_ws, start_round. destruct (q s); [reflexivity|]. rewrite continue_round_ws. reflexivity. Qed.

Lemma run_func_ws s ins : keeps_ws s (run_func s ins).
Proof.
  unfold keeps_ws, run_func. destruct ins; [|reflexivity].
  destruct (release s) as [s1 o1] eqn:E. unfold end_round.
  pose proof (start_round_ws s1) as H. destruct (start_round s1) as [s2 o2]. unfold keeps_ws in H; cbn [fst] in *.
  rewrite H. unfold release in E. inversion E; reflexivity.
Qed.

Lemma load_one_ws s ins p : keeps_ws s (load_one s ins p).
Proof. unfold keeps_ws, load_one. destruct (p_fin p); [rewrite continue_round_ws|]; reflexivity. Qed.

Lemma after_gather_ws s ins g : keeps_ws s (after_gather s ins g).
Proof. destruct g; cbn [after_gather]; [reflexivity|apply load_one_ws|apply run_func_ws|apply run_func_ws]. Qed.

Lemma wseen_step s e :
  wseen (fst (step s e)) =
  match e with
  | Wait w _ => if is_dead s || existsb (Nat.eqb w) (wseen s) then wseen s else wseen s ++ [w]
  | _ => wseen s
  end.
Proof.
  unfold step. destruct (is_dead s) eqn:Hd; [destruct e; reflexivity|]. cbn [orb].
  assert (PutCase : forall p k c, wseen (fst (do_put s p k c)) = wseen s).
  { intros p k c. unfold do_put. destruct (existsb (Nat.eqb p) (seen s)); [reflexivity|].
    unfold on_put. cbn [dm set_gh set_q set_event set_seen]. destruct c; cbn [dm set_event set_seen].
    all: destruct (dm s); try reflexivity.
    all: try (rewrite start_round_ws; reflexivity).
    all: try (destruct g; try reflexivity; cbn [q set_gh set_q set_event set_seen]; destruct (q s ++ _); reflexivity).
    all: cbn [q set_gh set_q set_event set_seen]; destruct (q s ++ _); [reflexivity|rewrite load_one_ws; reflexivity]. }
  assert (FeedCase : forall n a, wseen (fst (do_feed s n a)) = wseen s).
  { intros n a. unfold do_feed. destruct (negb (open_here s n)); [reflexivity|].
    destruct (dm s); try reflexivity.
    - destruct (load_all (map (feed_if n a) ld)) as [[rem ys] fs]. destruct rem; [rewrite after_gather_ws|]; reflexivity.
    - destruct ((pid p =? n) && accepts p); [rewrite load_one_ws|]; reflexivity. }
  assert (EndCase : forall ok fc, wseen (fst (do_fn_end s ok fc)) = wseen s).
  { intros ok fc. unfold do_fn_end. destruct (dm s); try reflexivity. destruct ok.
    - match goal with |- context [release ?x] => destruct (release x) as [s2 o1] eqn:E end.
      unfold release in E. inversion E; subst s2 o1; clear E. destruct fc.
      + match goal with |- context [continue_round ?a ?b ?c] => pose proof (continue_round_ws a b c) as H; destruct (continue_round a b c) end. exact H.
      + unfold end_round. match goal with |- context [start_round ?a] => pose proof (start_round_ws a) as H; destruct (start_round a) end. exact H.
    - pose proof (continue_round_ws s ins []) as H. destruct (continue_round s ins []). exact H. }
  destruct e; try apply PutCase; try apply FeedCase; try apply EndCase; try reflexivity.
  - unfold do_advance. destruct (dm s) as [|ins ld g|ins d|ins p|ins|]; try reflexivity.
    + destruct g; try reflexivity. destruct (d <=? now s + dt)%N; reflexivity.
    + destruct (d <=? now s + dt)%N; [|reflexivity].
      match goal with |- context [run_func ?a ?b] => pose proof (run_func_ws a b) as H; destruct (run_func a b) end. exact H.
  - unfold do_wait. destruct (existsb (Nat.eqb w) (wseen s)); [reflexivity|].
    unfold wait_core. cbn [unfinished set_gh set_wseen dm evset]. destruct (unfinished s =? 0); [|reflexivity].
    destruct (dm s); try (destruct (evset s); reflexivity).
    + destruct g; try (destruct (evset s); reflexivity). destruct cancel; reflexivity.
    + destruct cancel; [|reflexivity]. rewrite run_func_ws. reflexivity.
Qed.

Lemma wseen_mono T pre more w : In w (wseen (final T pre)) -> In w (wseen (final T (pre ++ more))).
Proof.
  induction more as [|e r IH] using rev_ind; [rewrite app_nil_r; auto|].
  intros H. rewrite app_assoc, final_snoc, wseen_step. specialize (IH H).
  destruct e; auto. destruct (is_dead _ || existsb _ _); [exact IH|apply in_or_app; auto].
Qed.

Lemma app_prefix_lt {A} (a : list A) : forall x ra b rb,
  a ++ x :: ra = b ++ rb -> length a < length b -> exists mid, b = a ++ x :: mid.
Proof.
  induction a as [|h t IH]; intros x ra b rb E Hlt.
  - destruct b as [|y b']; [cbn in Hlt; lia|]. cbn in E. inversion E; subst. exists b'. reflexivity.
  - destruct b as [|y b']; [cbn in Hlt; lia|]. cbn in E. inversion E; subst.
    destruct (IH x ra b' rb H1) as [mid Hm]; [cbn in Hlt; lia|]. exists mid. cbn. rewrite Hm. reflexivity.
Qed.

Lemma app_same_len {A} (a : list A) : forall b ra rb,
  a ++ ra = b ++ rb -> length a = length b -> a = b /\ ra = rb.
Proof.
  induction a as [|h t IH]; intros b ra rb E Hl; destruct b as [|y b']; cbn in Hl; try lia.
  - auto.
  - cbn in E. inversion E; subst. destruct (IH b' ra rb H1) as [-> ->]; [lia|]. auto.
Qed.

Lemma accepted_wait_unique T evs w pre1 c1 post1 pre2 c2 post2 :
  evs = pre1 ++ Wait w c1 :: post1 -> evs = pre2 ++ Wait w c2 :: post2 ->
  is_dead (final T pre1) = false -> existsb (Nat.eqb w) (wseen (final T pre1)) = false ->
  is_dead (final T pre2) = false -> existsb (Nat.eqb w) (wseen (final T pre2)) = false ->
  pre1 = pre2 /\ c1 = c2 /\ post1 = post2.
Proof.
  intros E1 E2 D1 F1 D2 F2.
  assert (Key : forall preA cA postA preB cB postB,
            preA ++ Wait w cA :: postA = preB ++ Wait w cB :: postB ->
            is_dead (final T preA) = false -> existsb (Nat.eqb w) (wseen (final T preA)) = false ->
            existsb (Nat.eqb w) (wseen (final T preB)) = false ->
            length preA < length preB -> False).
  { intros preA cA postA preB cB postB E DA FA FB Hlt.
    assert (Hpre : exists mid, preB = (preA ++ [Wait w cA]) ++ mid).
    { destruct (app_prefix_lt preA _ _ _ _ E Hlt) as [mid Hm]. exists mid. rewrite <- app_assoc. exact Hm. }
    destruct Hpre as [mid ->].
    apply existsb_eqb_false in FB. apply FB. apply wseen_mono.
    rewrite final_snoc, wseen_step, DA, FA. cbn. apply in_or_app. right. left. reflexivity. }
  assert (Hlen : length pre1 = length pre2).
  { destruct (Nat.lt_trichotomy (length pre1) (length pre2)) as [H|[H|H]]; [exfalso|exact H|exfalso].
    - eapply (Key pre1 c1 post1 pre2 c2 post2); eauto. congruence.
    - eapply (Key pre2 c2 post2 pre1 c1 post1); eauto. congruence. }
  rewrite E1 in E2.
  destruct (app_same_len _ _ _ _ E2 Hlen) as [Hp Hr].
  inversion Hr. auto.
Qed.

(* the barrier for EVERY way of pointing at the accepted Wait event *)
Lemma wait_barrier_forall T evs e w t n :
  In (WaitRet w t n) (snd (step (final T evs) e)) ->
  forall pre c post,
    evs ++ [e] = pre ++ Wait w c :: post -> is_dead (final T pre) = false ->
    existsb (Nat.eqb w) (wseen (final T pre)) = false ->
    forall p x, In p (seen (final T pre)) -> In (p, x) (g_offered (gh (final T (evs ++ [e])))) ->
                In x (ok_sets (concat (trace T (evs ++ [e])))).
Proof.
  intros Hin pre c post E D F.
  destruct (wait_barrier_lemma T evs e w t n Hin) as (pre0 & c0 & post0 & E0 & D0 & F0 & H).
  destruct (accepted_wait_unique T _ w _ _ _ _ _ _ E0 E D0 F0 D F) as (-> & _ & _). exact H.
Qed.
