(* XLoopTerm.v — a bound on the work: along any accepted log every operation other than
   loop_in_thread's spin (is_running() = false; sleep(0)) strictly increases a potential
   that is bounded by a function of the number of callers.  Together with the progress
   theorem: an execution that does not spin forever cannot go on forever, and (outside K1's
   scenario class) it cannot stop before every caller has completed. *)
From Coq Require Import List Arith NArith Bool Lia ZifyBool ZifyNat ZifyN.
Import ListNotations.
Require Import Aiuti.XLoop Aiuti.XLoopInv.

Definition crank (p : cph) : nat :=
  match p with
  | CInit => 0 | CBegun => 1 | CXchk | CPsub | CClosedP | COwn => 2
  | CXwait | CPwait | COwnDone => 3 | CGot => 4 | CDone => 5
  end.
Definition jrank (p : jph) : nat :=
  match p with
  | JNone => 0 | JStart => 1 | JCwait => 2 | JCin => 3 | JCmk => 4 | JCrel _ => 5 | JAcq _ => 6
  | JHold _ => 7 | JRun _ | JBad _ => 8 | JPost _ _ => 9 | JRel _ => 10 | JFin => 11 | JEnd => 12
  end.
Definition awrank (a : awst) : nat := match a with AwNew => 0 | AwSched => 1 | AwRun _ => 2 | AwFin => 3 end.
Definition mrank (m : mph) : nat :=
  match m with
  | MNone | M0 => 0 | MSpin | MSleep => 1 | MLit => 2 | MWait => 3 | MStop => 4 | MJoin => 5 | MRet => 6 | MEnd => 7
  end.
(* 1 once awaitable i can no longer make the clock jump *)
Definition settled_clock (s : state) (i : nat) : nat :=
  match aw s i with
  | AwNew | AwSched => 0
  | AwRun (Some w) => if N.ltb (now s) w then 0 else 1
  | _ => 1
  end.
Definition g (s : state) (i : nat) : nat :=
  crank (cp s i) + jrank (jp s (TJ i)) + awrank (aw s i) + settled_clock s i.

Fixpoint sumf (f : nat -> nat) (n : nat) : nat := match n with 0 => 0 | S k => sumf f k + f k end.
Definition potential (c : cfg) (s : state) : nat := sumf (g s) (c_n c) + jrank (jp s TJM) + mrank (mp s).

Lemma sumf_le : forall f f' n, (forall k, k < n -> f k <= f' k) -> sumf f n <= sumf f' n.
Proof.
  induction n as [|n IH]; simpl; intros H; [lia|].
  assert (sumf f n <= sumf f' n) by (apply IH; intros; apply H; lia). specialize (H n). lia.
Qed.
Lemma sumf_lt : forall f f' n i, (forall k, k < n -> f k <= f' k) -> i < n -> f i + 1 <= f' i -> sumf f n + 1 <= sumf f' n.
Proof.
  induction n as [|n IH]; simpl; intros i H Hi Hs; [lia|].
  destruct (Nat.eq_dec i n) as [->|Hn].
  - assert (sumf f n <= sumf f' n) by (apply sumf_le; intros; apply H; lia). lia.
  - assert (sumf f n + 1 <= sumf f' n).
    { apply (IH i); [intros; apply H; lia|lia|exact Hs]. }
    specialize (H n). lia.
Qed.
Lemma sumf_bound : forall f n b, (forall k, k < n -> f k <= b) -> sumf f n <= b * n.
Proof.
  induction n as [|n IH]; simpl; intros b H; [lia|].
  assert (sumf f n <= b * n) by (apply IH; intros; apply H; lia). specialize (H n). lia.
Qed.

Definition is_spin (e : event) : bool :=
  match e with (TM, OChk false) | (TM, OSleep) => true | _ => false end.

Lemma g_le21 : forall s i, g s i <= 21.
Proof.
  intros s i. unfold g, settled_clock.
  destruct (cp s i); destruct (jp s (TJ i)); destruct (aw s i) as [| |[w|]|]; simpl; try destruct (N.ltb _ _); lia.
Qed.

Lemma potential_bound : forall c s, potential c s <= 21 * c_n c + 19.
Proof.
  intros c s. unfold potential.
  assert (sumf (g s) (c_n c) <= 21 * c_n c) by (apply sumf_bound; intros; apply g_le21).
  assert (jrank (jp s TJM) <= 12) by (destruct (jp s TJM); simpl; lia).
  assert (mrank (mp s) <= 7) by (destruct (mp s); simpl; lia).
  lia.
Qed.

Ltac case_clock := repeat match goal with
  | |- context [N.ltb ?a ?b] => destruct (N.ltb_spec a b)
  | H : context [N.ltb ?a ?b] |- _ => destruct (N.ltb_spec a b)
  end.

Ltac mono_tac :=
  let k := fresh "k" in
  intros k; unfold g, settled_clock; simp2; dupd; tid_inj; subst; rw_phases; simpl;
  repeat match goal with
  | |- context [match aw ?s ?j with _ => _ end] => destruct (aw s j) as [| |[?|]|] eqn:?; simpl
  | |- context [match s_sleep ?x with _ => _ end] => destruct (s_sleep x); simpl
  | |- context [match ?w with Some _ => _ | None => _ end] => destruct w; simpl in *
  end; case_clock; try congruence; try lia.

Lemma step_potential : forall c s e s', Inv c s -> step c s e = Some s' ->
  potential c s + (if is_spin e then 0 else 1) <= potential c s'.
Proof.
  intros c s e s' HI H.
  assert (Mono : forall k, g s k <= g s' k).
  { inv_step H; try (intros; lia); gen_unspawned HI; mono_tac. }
  inv_step H; gen_unspawned HI; unfold potential; simp2;
    match goal with |- sumf (g s) _ + _ + _ + _ <= sumf (g ?s2) _ + _ + _ =>
      pose proof (sumf_le (g s) (g s2) (c_n c) (fun k _ => Mono k)) as SL end;
    rw_phases; simpl in *; try lia.
  all: try (match goal with G : existsb (sleeping_until _ _) _ = true |- _ =>
              apply existsb_exists in G as (wi & Hwi & Hws); apply in_seq in Hwi;
              unfold sleeping_until in Hws; destruct (aw _ wi) as [| |[ww|]|] eqn:Eaw; try discriminate Hws;
              apply N.eqb_eq in Hws; subst ww end).
  all: try match goal with
       | Hx : ?x < ?n, SL : sumf (g ?s1) ?n <= sumf (g ?s2) ?n |- _ =>
           assert (ST : sumf (g s1) n + 1 <= sumf (g s2) n);
           [apply (sumf_lt _ _ _ x); [exact (fun k _ => Mono k)|lia|];
            unfold g, settled_clock; simp2; unfold upd, updt; rewrite ?Nat.eqb_refl, ?tid_eqb_refl; rw_phases; simpl;
            repeat match goal with
            | |- context [match aw ?s ?j with _ => _ end] => destruct (aw s j) as [| |[?|]|] eqn:?; simpl
            | |- context [match s_sleep ?y with _ => _ end] => destruct (s_sleep y); simpl
            | |- context [match ?w with Some _ => _ | None => _ end] => destruct w; simpl in *
            end; case_clock; try congruence; lia
           |unfold updt in *; simpl in *; try lia]
       end.
  assert (ST : sumf (g s) (c_n c) + 1 <= sumf (g (set_now s t)) (c_n c)).
  { apply (sumf_lt _ _ _ wi); [exact (fun k _ => Mono k)|lia|].
    unfold g, settled_clock; simp2. rewrite Eaw. case_clock; try lia. }
  lia.
Qed.

(* ---- bounded work -------------------------------------------------------------------- *)
Definition work (evs : list event) : nat := length (filter (fun e => negb (is_spin e)) evs).

Lemma work_bounded : forall c evs s, run c evs = Some s ->
  potential c (init c) + work evs <= potential c s.
Proof.
  intros c. apply (run_ind c (fun evs s => potential c (init c) + work evs <= potential c s)).
  - simpl. unfold work. simpl. lia.
  - intros evs s e s' Hr IH H. unfold work in *. rewrite filter_app, app_length. simpl.
    assert (HI : Inv c s) by (apply Inv_reach; now exists evs).
    pose proof (step_potential _ _ _ _ HI H) as P.
    destruct (is_spin e); simpl in *; lia.
Qed.

Lemma work_le : forall c evs s, run c evs = Some s -> work evs <= 21 * c_n c + 19.
Proof.
  intros c evs s H. pose proof (work_bounded _ _ _ H). pose proof (potential_bound c s). lia.
Qed.

