(* FLockExec.v — big-step facts about run_alone / do_call of the FileLock model:
   unfolding lemmas, fuel monotonicity, and the execution of the basic paths.  *)
From Coq Require Import List Arith NArith Bool Lia ZifyBool.
Import ListNotations.
Require Import Aiuti.FLock Aiuti.FLockInv Aiuti.FLockTL Aiuti.FLockFD Aiuti.FLockMutex.
Local Arguments Nat.max : simpl never.
Arguments upd : simpl never.
Arguments enter_tlrel : simpl never.
Arguments enter_cleanup : simpl never.
Arguments after_attempt : simpl never.
Arguments k_unlock : simpl never.
Arguments k_close : simpl never.
Arguments tl_release : simpl never.
Arguments tl_try : simpl never.
Arguments tl_rel_raises : simpl never.
Arguments normalise : simpl never.
Arguments faulty : simpl never.
Arguments intr : simpl never.
Arguments enabled : simpl never.
Arguments remove_all : simpl never.
Arguments remove_one : simpl never.
Arguments step : simpl never.
Arguments run_alone : simpl never.

Lemma run_alone_done f s t : call_done s t = true -> run_alone f s t = (s, last_result s t).
Proof. intros H. destruct f; unfold run_alone; now rewrite H. Qed.

Lemma run_alone_step f s t :
  call_done s t = false -> enabled s t = true -> run_alone (S f) s t = run_alone f (step s t) t.
Proof. intros H1 H2. unfold run_alone at 1. rewrite H1, H2. reflexivity. Qed.

Lemma run_alone_wait f s t w :
  call_done s t = false -> enabled s t = false -> deadline s t = Some w ->
  run_alone (S f) s t = run_alone f (set_now s (N.max (now s) w)) t.
Proof. intros H1 H2 H3. unfold run_alone at 1. rewrite H1, H2, H3. reflexivity. Qed.

Lemma run_alone_block f s t :
  call_done s t = false -> enabled s t = false -> deadline s t = None ->
  run_alone (S f) s t = (s, RWouldBlock).
Proof. intros H1 H2 H3. unfold run_alone at 1. rewrite H1, H2, H3. reflexivity. Qed.

(* more fuel never changes a finished run *)
Lemma run_alone_more f : forall s t k, snd (run_alone f s t) <> ROutOfFuel ->
  run_alone (f + k) s t = run_alone f s t.
Proof.
  induction f as [|f IH]; intros s t k H.
  - unfold run_alone in H. destruct (call_done s t) eqn:E; [|cbn in H; congruence].
    rewrite !run_alone_done; auto.
  - destruct (call_done s t) eqn:E; [rewrite !run_alone_done; auto|].
    destruct (enabled s t) eqn:E2.
    + change (S f + k) with (S (f + k)). rewrite !run_alone_step in *; auto.
    + destruct (deadline s t) as [w|] eqn:E3.
      * change (S f + k) with (S (f + k)). rewrite !(run_alone_wait _ _ _ w) in *; auto.
      * change (S f + k) with (S (f + k)). rewrite !run_alone_block; auto.
Qed.

Lemma run_alone_ge f f' s t : f <= f' -> snd (run_alone f s t) <> ROutOfFuel -> run_alone f' s t = run_alone f s t.
Proof. intros L H. replace f' with (f + (f' - f)) by lia. now apply run_alone_more. Qed.

(* ---------- the step function, one equation per pending primitive ------------------- *)

Lemma step_idle s t c rest :
  enabled s t = true -> t_pc (thr s t) = PIdle -> t_prog (thr s t) = c :: rest ->
  step s t = begin_call s t c rest.
Proof. intros He Hpc Hpr. unfold step. now rewrite He, Hpc, Hpr. Qed.

Lemma step_tlacq s t a dl :
  enabled s t = true -> t_pc (thr s t) = PTLAcq a dl ->
  step s t =
  match tl_try (objs s (a_o a)) t with
  | Some ob' =>
      let ob'' := set_cnt ob' (S (o_cnt ob')) in
      let s1 := set_obj s (a_o a) ob'' in
      match o_fd ob'' with
      | Some _ => finish_acq s1 t a RTrue
      | None => set_pc s1 t (POpen (mkaloc (a_o a) (a_mode a) (a_blk a) (a_tm a) (a_poll a) (a_skip a) (now s)))
      end
  | None => finish_acq s t a (fail_result (a_mode a))
  end.
Proof. intros He Hpc. unfold step. now rewrite He, Hpc. Qed.

Lemma step_open s t a :
  enabled s t = true -> t_pc (thr s t) = POpen a ->
  step s t =
  let '(f, s1) := sys s KOpen in
  if f then (if intr s KOpen then enter_cleanup s1 t a true else after_attempt s1 t a)
  else let '(d, s2) := k_open s1 (t_proc (thr s t)) in set_pc s2 t (PFlock a d).
Proof. intros He Hpc. unfold step. now rewrite He, Hpc. Qed.

Lemma step_flock s t a d :
  enabled s t = true -> t_pc (thr s t) = PFlock a d ->
  step s t =
  let '(f, s1) := sys s KLock in
  if f then set_pc s1 t (PCloseF a d (intr s KLock))
  else if holder_free_for s1 d
       then let s2 := set_holder s1 (Some d) in
            let s3 := set_obj s2 (a_o a) (set_fd (objs s2 (a_o a)) (Some d)) in
            finish_acq s3 t a RTrue
       else set_pc s1 t (PCloseF a d false).
Proof. intros He Hpc. unfold step. now rewrite He, Hpc. Qed.

Lemma step_closef s t a d i :
  enabled s t = true -> t_pc (thr s t) = PCloseF a d i ->
  step s t =
  let '(f, s1) := sys s KClose in
  let s2 := k_close s1 d in
  if f || i then enter_cleanup s2 t a true else after_attempt s2 t a.
Proof. intros He Hpc. unfold step. now rewrite He, Hpc. Qed.

Lemma step_sleep s t a w :
  enabled s t = true -> t_pc (thr s t) = PSleep a w -> step s t = set_pc s t (POpen a).
Proof. intros He Hpc. unfold step. now rewrite He, Hpc. Qed.

Lemma step_cleanrel s t a oserr :
  enabled s t = true -> t_pc (thr s t) = PCleanRel a oserr ->
  step s t = finish_acq (set_obj s (a_o a) (tl_release (objs s (a_o a)))) t a
                        (if oserr then ROSErr else fail_result (a_mode a)).
Proof. intros He Hpc. unfold step. now rewrite He, Hpc. Qed.

Lemma step_unlock s t o d k :
  enabled s t = true -> t_pc (thr s t) = PUnlock o d k ->
  step s t =
  let '(f, s1) := sys s KUnlock in
  set_pc (if f then s1 else k_unlock s1 d) t (PCloseR o d k).
Proof. intros He Hpc. unfold step. now rewrite He, Hpc. Qed.

Lemma step_closer s t o d k :
  enabled s t = true -> t_pc (thr s t) = PCloseR o d k ->
  step s t =
  let '(f, s1) := sys s KClose in
  let s2 := k_close s1 d in
  enter_tlrel (set_obj s2 o (set_cnt (objs s2 o) 0)) t o k.
Proof. intros He Hpc. unfold step. now rewrite He, Hpc. Qed.

Lemma step_tlrel s t o k :
  enabled s t = true -> t_pc (thr s t) = PTLRel o k ->
  step s t = enter_tlrel (set_obj s o (tl_release (objs s o))) t o (pred k).
Proof. intros He Hpc. unfold step. now rewrite He, Hpc. Qed.

Lemma faults_k_unlock s d : faults (k_unlock s d) = faults s.
Proof. unfold k_unlock. destruct (holder s) as [h|]; [destruct (Nat.eqb h d)|]; reflexivity. Qed.
Lemma now_k_unlock s d : now (k_unlock s d) = now s.
Proof. unfold k_unlock. destruct (holder s) as [h|]; [destruct (Nat.eqb h d)|]; reflexivity. Qed.
Lemma nsys_k_unlock s d : nsys (k_unlock s d) = nsys s.
Proof. unfold k_unlock. destruct (holder s) as [h|]; [destruct (Nat.eqb h d)|]; reflexivity. Qed.
Lemma faults_k_close s d : faults (k_close s d) = faults s.
Proof. unfold k_close. cbn. apply faults_k_unlock. Qed.
Lemma now_k_close s d : now (k_close s d) = now s.
Proof. unfold k_close. cbn. apply now_k_unlock. Qed.
Lemma nsys_k_close s d : nsys (k_close s d) = nsys s.
Proof. unfold k_close. cbn. apply nsys_k_unlock. Qed.
