(* KeysMonN.v — the monitor [mon_n] of Case_C14.v (identity-less results: only
   the number of invocations per call is observable) accepts every trace of the
   model, for every retaining store and every history of calls. *)
From Coq Require Import List Arith Bool Lia.
Import ListNotations.
Require Import Aiuti.CaseLib Aiuti.Keys Aiuti.KeysInv Aiuti.Case_C14 Aiuti.KeysMon.

Section MonN.
  Variable e : kexpr.
  Hypothesis Hgood : good e = true.
  Variable kind : mkind.

  Notation mode := IfNotNone.
  Notation step := (step e mode kind false).
  Notation exec := (exec e mode kind false).
  Notation state_after := (state_after e mode kind false).

  Definition ninv_of (o : obs) : nat := fst (fst o).

  Fixpoint sigs (l : list ev) : list sig :=
    match l with
    | [] => []
    | Call s :: r => s :: sigs r
    | Evict _ :: r => sigs r
    end.

  Lemma sigs_app a b : sigs (a ++ b) = sigs a ++ sigs b.
  Proof. induction a as [|[s|v] r IH]; simpl; [reflexivity| now rewrite IH | exact IH]. Qed.

  Lemma calls_no_evict l : forallb is_call l = true -> no_evict l.
  Proof.
    intros H v Hin. rewrite forallb_forall in H. specialize (H _ Hin). discriminate.
  Qed.

  Lemma in_sigs s l : In s (sigs l) <-> In (Call s) l.
  Proof.
    induction l as [|[s'|v] r IH]; simpl.
    - tauto.
    - rewrite IH. split; intros [H|H]; auto; left; congruence.
    - rewrite IH. split; [auto|]. intros [H|H]; [discriminate|assumption].
  Qed.

  Lemma retaining_cap : retaining kind = true -> eff_cap mode kind false = None.
  Proof.
    unfold retaining, eff_cap. destruct kind as [|[n|]]; intros H; try discriminate;
      destruct (use_user mode _ false); reflexivity.
  Qed.

  Lemma mon_n_gen : retaining kind = true -> forall evs pre,
    forallb is_call pre = true -> forallb is_call evs = true ->
    mon_n evs (map ninv_of (fst (exec evs (state_after pre)))) (sigs pre) = true.
  Proof.
    intros Hret evs. induction evs as [|x r IH]; intros pre Hpre Hevs; [reflexivity|].
    simpl in Hevs. apply andb_true_iff in Hevs as [Hx Hr].
    destruct x as [s|v]; [|discriminate].
    destruct (step (Call s) (state_after pre)) as [st1 o] eqn:Es.
    rewrite (exec_cons e mode kind false _ r _ _ _ Es). cbn [fst map mon_n].
    pose proof (same_args_share_lemma e Hgood mode kind false pre s (retaining_cap Hret)
                  (calls_no_evict _ Hpre)) as Hsh.
    rewrite Es in Hsh. destruct o as [[ninv rr] cc]. cbn [ninv_of fst].
    assert (Hst : st1 = state_after (pre ++ [Call s])).
    { rewrite (state_after_snoc e mode kind false). now rewrite Es. }
    rewrite Hst.
    assert (Hpre' : forallb is_call (pre ++ [Call s]) = true).
    { rewrite forallb_app, Hpre. reflexivity. }
    specialize (IH (pre ++ [Call s]) Hpre' Hr). rewrite sigs_app in IH. cbn [sigs] in IH.
    rewrite IH, andb_true_r. apply Nat.eqb_eq.
    destruct (existsb (fun s' => same_args s' s) (sigs pre)) eqn:Ex.
    - apply Hsh. apply existsb_exists in Ex as [s' [Hin Hs]].
      exists s'. split; [now apply in_sigs | now apply same_args_iff].
    - (* no earlier call with the same arguments: exactly one invocation *)
      pose proof (seq_call_spec_lemma e mode kind false s (state_after pre)) as Hspec. cbv zeta in Hspec.
      destruct (kfind (eval_key e s) (active mode kind false (state_after pre))) as [en|] eqn:Ek.
      + destruct Hspec as [st' [c [Hstep _]]]. rewrite Es in Hstep. inversion Hstep; subst.
        exfalso. assert (H0 : 0 = 0) by reflexivity. apply Hsh in H0 as [s' [Hin Hs]].
        assert (Hex : existsb (fun s'0 => same_args s'0 s) (sigs pre) = true).
        { apply existsb_exists. exists s'. split; [now apply in_sigs | now apply same_args_iff]. }
        congruence.
      + destruct Hspec as [st' [c [Hstep _]]]. rewrite Es in Hstep. inversion Hstep; subst. reflexivity.
  Qed.

  Lemma mon_n_accepts_model : forall evs,
    ok (C14N kind evs (map ninv_of (run e mode kind false evs))) = true.
  Proof.
    intros evs. unfold ok.
    destruct (retaining kind && forallb is_call evs) eqn:H; [|reflexivity].
    apply andb_true_iff in H as [Hret Hc]. cbn [negb orb]. unfold run.
    exact (mon_n_gen Hret evs [] eq_refl Hc).
  Qed.
End MonN.
