(* BufferReturn.v — wait() returns (C07 wait_returns, progress form).
   IE: in histories without a bare foreign event.clear() (FClear), whenever the
       daemon is idle the completion flag is set, and whenever the flag is set
       nobody is inside wait();
   KR: a task inside wait() stays inside or its return is observed (WaitRet) —
       waiters never vanish silently (except at Shutdown);
   together with BufferProgress.settle_lemma: from any reachable live state
   where no slow producer is in the way, the continuation FnOk; Advance d>=T; FnOk
   makes every pending wait() return. *)
From Coq Require Import List Arith NArith Bool Lia ZifyBool ZifyNat ZifyN.
Import ListNotations.
Require Import Aiuti.Buffer Aiuti.BufferCore Aiuti.BufferFlag Aiuti.BufferInv Aiuti.BufferJoin Aiuti.BufferTime
               Aiuti.Case_Buffer Aiuti.BufferQuiet Aiuti.BufferProgress Aiuti.BufferWait.

Definition IE (s : state) : Prop :=
  (dm s = DIdle -> evset s = true) /\ (evset s = true -> waiters s = []).

Definition kept_or_ret (ws : list waiter) (r : state * list obs) : Prop :=
  forall w0, In w0 ws ->
    (exists w1, In w1 (waiters (fst r)) /\ wid w1 = wid w0) \/ (exists t n, In (WaitRet (wid w0) t n) (snd r)).

Definition IR (s : state) (r : state * list obs) : Prop := IE (fst r) /\ kept_or_ret (waiters s) r.

Lemma kr_refl s o : kept_or_ret (waiters s) (s, o).
Proof. intros w0 Hin. left. exists w0. auto. Qed.

Lemma kr_same s s' o : waiters s' = waiters s -> kept_or_ret (waiters s) (s', o).
Proof. intros E w0 Hin. left. exists w0. cbn. rewrite E. auto. Qed.

(* waiters ws0 all have a counterpart (same wid) in ws1 *)
Definition wcover (ws0 ws1 : list waiter) : Prop := forall w0, In w0 ws0 -> exists w1, In w1 ws1 /\ wid w1 = wid w0.

Lemma kr_cover ws0 ws1 r : wcover ws0 ws1 -> kept_or_ret ws1 r -> kept_or_ret ws0 r.
Proof.
  intros Hc H w0 Hin. destruct (Hc w0 Hin) as (w1 & Hin1 & E). destruct (H w1 Hin1) as [(w2 & A & B)|(t & n & A)].
  - left. exists w2. split; [exact A|congruence].
  - right. exists t, n. rewrite <- E. exact A.
Qed.

Lemma wcover_refl ws : wcover ws ws.
Proof. intros w0 H. exists w0. auto. Qed.
Lemma wcover_pass ws : wcover ws (join_pass ws).
Proof. intros w0 H. exists (mkw (wid w0) (wcancel w0) OnEvent (wbefore w0)). split; [|reflexivity]. unfold join_pass. apply in_map_iff. exists w0. auto. Qed.

(* two helpers in a row *)
Lemma kr_seq ws s1 o1 s2 o2 :
  kept_or_ret ws (s1, o1) -> kept_or_ret (waiters s1) (s2, o2) -> kept_or_ret ws (s2, o1 ++ o2).
Proof.
  intros H1 H2 w0 Hin. destruct (H1 w0 Hin) as [(w1 & A & B)|(t & n & A)].
  - destruct (H2 w1 A) as [(w2 & C & D)|(t & n & C)].
    + left. exists w2. split; [exact C|congruence].
    + right. exists t, n. cbn. rewrite <- B. apply in_or_app. auto.
  - right. exists t, n. cbn in *. apply in_or_app. auto.
Qed.

Lemma release_kr s : kept_or_ret (waiters s) (release s).
Proof.
  intros w0 Hin. unfold release; cbn. destruct (wstate w0) eqn:Ew.
  - left. exists w0. split; [|reflexivity]. apply filter_In. split; [exact Hin|]. unfold is_joining. rewrite Ew. reflexivity.
  - right. exists (now s), (nok s). apply in_map_iff. exists w0. split; [reflexivity|].
    apply filter_In. split; [exact Hin|]. unfold is_onevent. rewrite Ew. reflexivity.
Qed.

Lemma filter_joining_nil ws : (forall w, In w ws -> wstate w = OnEvent) -> filter is_joining ws = [].
Proof.
  induction ws as [|w r IH]; intros H; cbn; [reflexivity|].
  unfold is_joining at 1. rewrite (H w (or_introl eq_refl)). apply IH. intros w1 H1. apply H. right. exact H1.
Qed.

Lemma run_func0_IR s ins : no_joining s -> evset s = false -> IR s (run_func0 s ins).
Proof.
  intros Hj He. unfold run_func0. destruct ins as [|x r].
  - pose proof (release_kr s) as K. unfold release in *. cbn in *. split.
    + split; cbn; [auto|]. intros _. apply filter_joining_nil. exact Hj.
    + exact K.
  - split; [split; cbn; [discriminate|congruence]|apply kr_same; reflexivity].
Qed.

Lemma continue_round_IR s ins ld : evset s = false -> IR s (continue_round s ins ld).
Proof.
  intros He. unfold continue_round.
  set (u := unfinished s - length (q s)).
  destruct (load_all (ld ++ q s)) as [[rem ys] fs].
  assert (Plain : forall d, d <> DIdle -> forall s2, evset s2 = false -> wcover (waiters s) (waiters s2) ->
            IR s (set_dm s2 d, [])).
  { intros d Hd s2 E2 Hc. split; [split; cbn; [intros H; contradiction|congruence]|].
    eapply kr_cover; [exact Hc|]. apply kr_same. reflexivity. }
  destruct (u =? 0) eqn:Eu; cbn [andb].
  - destruct rem as [|p rem].
    + destruct (wants_cancel (waiters (set_q s [] u))).
      * match goal with |- IR _ (run_func0 ?a ?b) => destruct (run_func0_IR a b) as [A B] end.
        { intros w Hin. cbn in Hin. unfold join_pass in Hin. apply in_map_iff in Hin as (w0 & <- & _). reflexivity. }
        { cbn. exact He. }
        split; [exact A|]. eapply kr_cover; [|exact B]. cbn. apply wcover_pass.
      * apply Plain; [discriminate|cbn; exact He|cbn; apply wcover_pass].
    + apply Plain; [discriminate|cbn; exact He|cbn; apply wcover_pass].
  - destruct rem as [|p rem]; apply Plain; try discriminate; cbn; auto using wcover_refl.
Qed.

Lemma start_round_IR s : (q s = [] -> evset s = true /\ waiters s = []) -> IR s (start_round s).
Proof.
  intros H. unfold start_round. destruct (q s) as [|p r] eqn:Eq.
  - destruct (H eq_refl) as [A B]. split; [split; cbn; auto|apply kr_same; reflexivity].
  - destruct (continue_round_IR (set_event (set_q s r (unfinished s - 1)) false) [] [p] eq_refl) as [A B].
    split; [exact A|exact B].
Qed.

Lemma run_func_IR s ins : evset s = false -> (q s = [] -> no_joining s) -> IR s (run_func s ins).
Proof.
  intros He Hj. unfold run_func. destruct ins as [|x r].
  - pose proof (release_kr s) as K. destruct (release s) as [s1 o1] eqn:E. unfold release in E. inversion E; subst s1 o1; clear E.
    unfold end_round.
    match goal with |- context [start_round ?x] => pose proof (start_round_IR x) as Q; destruct (start_round x) as [s2 o2] end.
    destruct Q as [A B].
    { cbn. intros Hq. split; [reflexivity|]. apply filter_joining_nil, Hj, Hq. }
    split; [exact A|]. eapply kr_seq; [exact K|exact B].
  - split; [split; cbn; [discriminate|congruence]|apply kr_same; reflexivity].
Qed.

Lemma load_one_IR s ins p : evset s = false -> IR s (load_one s ins p).
Proof.
  intros He. unfold load_one. destruct (p_fin p).
  - match goal with |- IR _ (continue_round ?a ?b ?c) => destruct (continue_round_IR a b c) as [A B] end; [cbn; exact He|].
    split; [exact A|exact B].
  - split; [split; cbn; [discriminate|congruence]|apply kr_same; reflexivity].
Qed.

Lemma after_gather_IR s ins g :
  evset s = false -> (got_of g = [] -> q s = [] -> no_joining s) -> IR s (after_gather s ins g).
Proof.
  intros He Hj. destruct g; cbn [after_gather].
  - split; [split; cbn; [discriminate|congruence]|apply kr_same; reflexivity].
  - apply load_one_IR; exact He.
  - apply run_func_IR; [exact He|apply Hj; reflexivity].
  - apply run_func_IR; [exact He|apply Hj; reflexivity].
Qed.

(* ---- per macro step --------------------------------------------------------------------- *)
Definition FL (s : state) : Prop := evset s = true -> dm s = DIdle /\ q s = [].

Definition SR (s : state) (e : event) (r : state * list obs) : Prop :=
  IE (fst r) /\
  (forall w0, In w0 (waiters s) ->
     (exists w1, In w1 (waiters (fst r)) /\ wid w1 = wid w0) \/ (exists t n, In (WaitRet (wid w0) t n) (snd r)) \/ e = Shutdown).

Lemma IR_SR s e r : IR s r -> SR s e r.
Proof.
  intros [A B]. split; [exact A|]. intros w0 Hin. destruct (B w0 Hin) as [H|H]; auto.
Qed.

Lemma kr_prefix ws s' o0 o : kept_or_ret ws (s', o) -> kept_or_ret ws (s', o0 ++ o).
Proof.
  intros H w0 Hin. destruct (H w0 Hin) as [A|(t & n & A)]; [left; exact A|]. right. exists t, n. cbn in *. apply in_or_app. auto.
Qed.

Lemma IR_now s r t : IR s r -> IR s (let '(s1, o) := r in (set_now s1 t, o)).
Proof. destruct r as [s1 o]. intros [[A B] C]. split; [split; cbn; auto|exact C]. Qed.

Lemma stay_IR s s' : IE s -> dm s' = dm s -> evset s' = evset s -> waiters s' = waiters s -> forall o, IR s (s', o).
Proof.
  intros [A B] E1 E2 E3 o. split; [split; cbn [fst]; rewrite ?E1, ?E2, ?E3; assumption|apply kr_same; exact E3].
Qed.

Lemma busy_IR s s' : dm s' <> DIdle -> evset s' = false -> wcover (waiters s) (waiters s') -> forall o, IR s (s', o).
Proof.
  intros Hd He Hc o. split; [split; cbn [fst]; [intros H; contradiction|congruence]|].
  eapply kr_cover; [exact Hc|]. apply kr_same. reflexivity.
Qed.

Lemma step_IR s e :
  IE s -> Struct s -> (is_dead s = false -> FL s) -> e <> FClear -> SR s e (step s e).
Proof.
  intros HIE HS HF He. unfold step. destruct (is_dead s) eqn:Hd.
  - apply IR_SR. apply (stay_IR s); auto.
  - specialize (HS Hd). specialize (HF eq_refl). pose proof HS as [S1 S2 S3]. pose proof HIE as [IA IB].
    assert (Hef : dm s <> DIdle -> evset s = false).
    { intros Hn. destruct (evset s) eqn:E; [|reflexivity]. destruct (HF E) as [H _]. contradiction. }
    assert (PutCase : forall p k c, IR s (do_put s p k c)).
    { intros p k c. unfold do_put. destruct (existsb (Nat.eqb p) (seen s)); [apply (stay_IR s); auto|].
      match goal with |- IR _ (on_put ?x) => set (s4 := x) end.
      assert (E4 : dm s4 = dm s /\ waiters s4 = waiters s /\ q s4 = q s ++ [mk_prod p k] /\
                   (dm s <> DIdle -> evset s4 = false)).
      { unfold s4. destruct c; cbn; repeat split; auto. }
      destruct E4 as (E1 & E2 & E3 & E4). clearbody s4.
      assert (Hq4 : q s4 <> []) by (rewrite E3; intros H; apply app_eq_nil in H as [_ H]; discriminate).
      assert (Busy : dm s <> DIdle -> forall s' o, dm s' = dm s -> evset s' = evset s4 -> waiters s' = waiters s4 -> IR s (s', o)).
      { intros Hn s' o A B C. apply busy_IR; [rewrite A; exact Hn|rewrite B; apply E4, Hn|rewrite C, E2; apply wcover_refl]. }
      unfold on_put. rewrite E1. destruct (dm s) eqn:Ed.
      - destruct (start_round_IR s4) as [A B]; [intros H; contradiction|]. split; [exact A|rewrite <- E2; exact B].
      - destruct g; try (apply Busy; auto; discriminate).
        destruct (q s4); [apply Busy; auto; discriminate|]. apply busy_IR; cbn; [discriminate|apply E4; discriminate|rewrite E2; apply wcover_refl].
      - destruct (q s4) as [|p1 r1]; [contradiction|].
        match goal with |- IR _ (load_one ?a ?b ?c) => destruct (load_one_IR a b c) as [A B] end; [cbn; apply E4; discriminate|].
        split; [exact A|]. cbn in B. rewrite E2 in B. exact B.
      - apply Busy; auto; discriminate.
      - apply Busy; auto; discriminate.
      - apply Busy; auto; discriminate. }
    assert (FeedCase : forall n a, IR s (do_feed s n a)).
    { intros n a. unfold do_feed. destruct (negb (open_here s n)); [apply (stay_IR s); auto|].
      destruct (dm s) eqn:Ed.
      - apply (stay_IR s); cbn; auto.
      - assert (Hev : evset s = false) by (apply Hef; discriminate).
        destruct (load_all (map (feed_if n a) ld)) as [[rem ys] fs]. destruct rem as [|p0 rem].
        + match goal with |- IR _ (after_gather ?x ?i ?gg) => destruct (after_gather_IR x i gg) as [A B] end;
            [cbn; exact Hev| |split; [exact A|exact B]].
          cbn. intros Hg Hq. apply map_eq_nil in Hq. apply S3. rewrite S1, Hq. destruct g; cbn in *; try reflexivity; discriminate.
        + apply busy_IR; cbn; [discriminate|exact Hev|apply wcover_refl].
      - apply busy_IR; cbn; [rewrite Ed; discriminate|apply Hef; discriminate|apply wcover_refl].
      - assert (Hev : evset s = false) by (apply Hef; discriminate).
        destruct ((pid p =? n) && accepts p).
        + match goal with |- IR _ (load_one ?x ?i ?pp) => destruct (load_one_IR x i pp) as [A B] end;
            [cbn; exact Hev|split; [exact A|exact B]].
        + apply busy_IR; cbn; [rewrite Ed; discriminate|exact Hev|apply wcover_refl].
      - apply busy_IR; cbn; [rewrite Ed; discriminate|apply Hef; discriminate|apply wcover_refl].
      - unfold is_dead in Hd. rewrite Ed in Hd. discriminate. }
    assert (EndCase : forall ok fc, IR s (do_fn_end s ok fc)).
    { intros ok fc. unfold do_fn_end. destruct (dm s) eqn:Ed; try (solve [apply (stay_IR s); auto]).
      assert (Hev : evset s = false) by (apply Hef; discriminate). cbn [extra] in S1.
      destruct ok.
      - match goal with |- context [release ?x] => pose proof (release_kr x) as K; destruct (release x) as [s2 o1] eqn:E end.
        unfold release in E. inversion E; subst s2 o1; clear E. cbn [waiters set_gh set_calls] in K.
        destruct fc.
        + match goal with |- context [continue_round ?a ?b ?c] => destruct (continue_round_IR a b c eq_refl) as [A B]; destruct (continue_round a b c) as [s3 o2] end.
          split; [exact A|]. apply kr_prefix. eapply kr_seq; [exact K|exact B].
        + unfold end_round.
          match goal with |- context [start_round ?a] => pose proof (start_round_IR a) as Q; destruct (start_round a) as [s3 o2] end.
          destruct Q as [A B].
          { cbn. intros Hq. split; [reflexivity|]. apply filter_joining_nil. apply S3. rewrite S1, Hq. reflexivity. }
          split; [exact A|]. apply kr_prefix. eapply kr_seq; [exact K|exact B].
      - destruct (continue_round_IR s ins [] Hev) as [A B]. destruct (continue_round s ins []) as [s1 o1].
        split; [exact A|]. apply kr_prefix. exact B. }
    destruct e; try (apply IR_SR; auto; fail); try contradiction.
    + (* Advance *)
      apply IR_SR. unfold do_advance.
      destruct (dm s) as [|ins ld g|ins d|ins p|ins|] eqn:Ed; try (solve [apply (stay_IR s); cbn; auto; rewrite Ed; reflexivity]).
      * destruct g as [d|p| |]; try (solve [apply (stay_IR s); cbn; auto; rewrite Ed; reflexivity]).
        destruct (d <=? now s + dt)%N; [|apply (stay_IR s); cbn; auto; rewrite Ed; reflexivity].
        apply busy_IR; cbn; [discriminate|apply Hef; discriminate|apply wcover_refl].
      * destruct (d <=? now s + dt)%N; [|apply (stay_IR s); cbn; auto; rewrite Ed; reflexivity].
        match goal with |- context [run_func ?a ?b] => pose proof (run_func_IR a b) as Q; destruct (run_func a b) as [s1 o] end.
        apply (IR_now s (s1, o)). apply Q; cbn; [apply Hef; discriminate|].
        intros Hq. apply S3. rewrite S1, Hq. reflexivity.
    + (* Wait *)
      apply IR_SR. unfold do_wait. destruct (existsb (Nat.eqb w) (wseen s)); [apply (stay_IR s); auto|].
      unfold wait_core. cbn [unfinished set_gh set_wseen dm evset waiters seen].
      assert (Add : forall st, evset s = false ->
                IR s (set_waiters (set_gh (set_wseen s (wseen s ++ [w])) (gh_tie (gh s) (tie_now s)))
                        (waiters s ++ [mkw w cancel st (seen s)]), [])).
      { intros st Hev. split; [split; cbn; [intros H; rewrite (IA H) in Hev; discriminate|congruence]|].
        intros w0 Hin. left. exists w0. cbn. split; [apply in_or_app; auto|reflexivity]. }
      destruct (unfinished s =? 0) eqn:Eu.
      * apply Nat.eqb_eq in Eu.
        destruct (dm s) eqn:Ed.
        -- destruct (evset s) eqn:Ee; [apply (stay_IR s); cbn; auto|apply Add; reflexivity].
        -- assert (Hev : evset s = false) by (apply Hef; discriminate). rewrite Hev.
           destruct g; try (apply Add; exact Hev). destruct cancel; [|apply Add; exact Hev].
           apply busy_IR; cbn; [discriminate|exact Hev|]. intros w0 Hin. exists w0. split; [apply in_or_app; auto|reflexivity].
        -- assert (Hev : evset s = false) by (apply Hef; discriminate).
           destruct cancel; [|apply Add; exact Hev].
           match goal with |- IR _ (run_func ?a ?b) => destruct (run_func_IR a b) as [A B] end; [cbn; exact Hev| |].
           { cbn. intros _ w0 Hin. apply in_app_or in Hin as [Hin|[<-|[]]]; [apply (S3 Eu w0 Hin)|reflexivity]. }
           split; [exact A|]. eapply kr_cover; [|exact B]. cbn. intros w0 Hin. exists w0. split; [apply in_or_app; auto|reflexivity].
        -- assert (Hev : evset s = false) by (apply Hef; discriminate). rewrite Hev. apply Add; exact Hev.
        -- assert (Hev : evset s = false) by (apply Hef; discriminate). rewrite Hev. apply Add; exact Hev.
        -- unfold is_dead in Hd. rewrite Ed in Hd. discriminate.
      * apply Add. destruct (evset s) eqn:Ee; [|reflexivity]. destruct (HF Ee) as [H1 H2].
        rewrite H1, H2 in S1. cbn in S1. rewrite S1 in Eu. discriminate.
    + (* Shutdown *)
      split; [split; cbn; [discriminate|auto]|]. intros w0 _. right; right. reflexivity.
Qed.

Lemma final_FL T evs : is_dead (final T evs) = false -> FL (final T evs).
Proof. intros Hd He. exact (final_flag T evs Hd He). Qed.

Lemma init_IE T : IE (init T).
Proof. split; cbn; auto. Qed.

Lemma final_IE T evs : ~ In FClear evs -> IE (final T evs).
Proof.
  induction evs as [|e r IH] using rev_ind; intros Hno; [apply init_IE|].
  rewrite final_snoc.
  assert (Hr : ~ In FClear r) by (intros H; apply Hno, in_or_app; auto).
  assert (He : e <> FClear) by (intros ->; apply Hno, in_or_app; right; left; reflexivity).
  apply (step_IR (final T r) e (IH Hr) (final_struct T r) (final_FL T r) He).
Qed.

(* C07 wait_returns *)
Lemma wait_returns_lemma T evs d :
  ~ In FClear evs -> (T <= d)%N -> let s := final T evs in
  is_dead s = false -> parked (dm s) = true -> all_fin (q s) ->
  forall w0, In w0 (waiters s) -> exists t n, In (WaitRet (wid w0) t n) (concat (snd (run s (tail d)))).
Proof.
  intros Hno Hd s Hdead Hp Hq w0 Hin.
  destruct (settle_lemma T evs d Hd Hdead Hp Hq) as (A & B & C).
  assert (Hno3 : ~ In FClear (evs ++ tail d)).
  { intros H. apply in_app_or in H as [H|H]; [auto|]. cbn in H. intuition discriminate. }
  destruct (final_IE T _ Hno3) as [IA IB]. specialize (IB (IA A)).
  assert (E3 : final T (evs ++ tail d) = fst (step (fst (step (fst (step s FnOk)) (Advance d))) FnOk)).
  { unfold tail. replace (evs ++ [FnOk; Advance d; FnOk]) with (((evs ++ [FnOk]) ++ [Advance d]) ++ [FnOk])
      by (rewrite <- !app_assoc; reflexivity).
    rewrite !final_snoc. reflexivity. }
  assert (I0 : IE s) by (apply final_IE; exact Hno).
  pose proof (step_IR s FnOk I0 (final_struct T evs) (final_FL T evs)) as R1.
  destruct R1 as [I1 K1]; [discriminate|].
  assert (S1' : Struct (fst (step s FnOk))) by (apply step_struct, final_struct).
  assert (F1' : is_dead (fst (step s FnOk)) = false -> FL (fst (step s FnOk))).
  { unfold s. rewrite <- final_snoc. apply final_FL. }
  pose proof (step_IR _ (Advance d) I1 S1' F1') as R2. destruct R2 as [I2 K2]; [discriminate|].
  assert (S2' : Struct (fst (step (fst (step s FnOk)) (Advance d)))) by (apply step_struct, S1').
  assert (F2' : is_dead (fst (step (fst (step s FnOk)) (Advance d))) = false -> FL (fst (step (fst (step s FnOk)) (Advance d)))).
  { unfold s. rewrite <- !final_snoc. apply final_FL. }
  pose proof (step_IR _ FnOk I2 S2' F2') as R3. destruct R3 as [I3 K3]; [discriminate|].
  unfold tail. cbn [run].
  destruct (step s FnOk) as [s1 o1]. cbn [fst snd] in *.
  destruct (step s1 (Advance d)) as [s2 o2]. cbn [fst snd] in *.
  destruct (step s2 FnOk) as [s3 o3]. cbn [fst snd concat] in *. rewrite app_nil_r.
  rewrite E3 in IB.
  destruct (K1 w0 Hin) as [(w1 & Hin1 & E1)|[(t & n & H)|H]]; [|exists t, n; apply in_or_app; auto|discriminate].
  destruct (K2 w1 Hin1) as [(w2 & Hin2 & E2)|[(t & n & H)|H]]; [|exists t, n; rewrite <- E1; apply in_or_app; right; apply in_or_app; auto|discriminate].
  destruct (K3 w2 Hin2) as [(w3 & Hin3 & E3')|[(t & n & H)|H]]; [|exists t, n; rewrite <- E1, <- E2; apply in_or_app; right; apply in_or_app; auto|discriminate].
  rewrite IB in Hin3. destruct Hin3.
Qed.
